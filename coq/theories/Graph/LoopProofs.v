(* Graph/LoopProofs.v -- [V] soundness of the validators for the dominator tree and for reducibility
   (Hecht-Ullman form). *)
From Coq Require Import NArith List Bool Lia.
From Falcon Require Import Graph.Spec Graph.Oracle Graph.OracleProofs Graph.OrderProofs.
Import ListNotations.
Local Open Scope N_scope.

Lemma alook_nodup m v d : NoDup (map fst m) -> In (v, d) m -> alook m v = Some d.
Proof.
  induction m as [|[a b] m IH]; cbn; intros Hn Hin; [destruct Hin|].
  inversion Hn as [|? ? Hni Hn']; subst. destruct Hin as [[= -> ->]|Hin].
  - rewrite N.eqb_refl. reflexivity.
  - destruct (N.eqb_spec a v) as [->|Hne]; auto. exfalso. apply Hni.
    apply in_map_iff. exists (v, d). auto.
Qed.

(* [V] an accepted (vertices, edges) pair is the dominator tree: the reachable vertices, and an edge d -> v
   exactly when d is the immediate dominator of v *)
Theorem domtree_ok_sound vs es r tv te :
  tab_ok vs es r = true -> domtree_ok (mk_tab vs es r) (verts vs es r) tv te = true ->
  (forall v, In v tv <-> reach es r v) /\ (forall d v, In (d, v) te <-> idom es r d v).
Proof.
  intros Hok. unfold domtree_ok. rewrite !andb_true_iff. intros [[[Hs _] Hc] Hn]. split.
  - intros v. rewrite (proj1 (seteq_b_spec _ _) Hs v). rewrite <- memb_in. apply (reach_b_spec vs es r Hok).
  - intros d v.
    assert (Hchk : idom_check vs es r (map (fun e => (snd e, fst e)) te) = true).
    { unfold idom_check. rewrite Hok. exact Hc. }
    rewrite <- (idom_check_sound vs es r _ Hchk v d). split.
    + intros Hin. apply alook_nodup.
      * rewrite map_map. cbn [fst]. apply nodup_b_spec. exact Hn.
      * apply in_map_iff. exists (d, v). auto.
    + intros Ha. apply alook_in in Ha. apply in_map_iff in Ha. destruct Ha as [[x y] [[= <- <-] Hin]]. exact Hin.
Qed.

(* paths only depend on the set of edges *)
Lemma path_ext es1 es2 : (forall a b, In (a, b) es1 -> In (a, b) es2) ->
  forall a l b, path es1 a l b -> path es2 a l b.
Proof.
  intros Hsub a l b Hp. induction Hp as [a|a c l b He Hp IH]; [constructor|].
  apply path_cons with (b := c); auto. apply Hsub. exact He.
Qed.

(* [V] reducibility, Hecht-Ullman form: the answer computed from the definition is "the reachable flow
   graph without its back edges (edges whose target dominates their source) has no cycle" *)
Theorem reducible_fe_sound vs es r b :
  tab_ok vs es r = true -> reducible_fe_b (mk_tab vs es r) es = Some b ->
  (b = true <-> forward_edges_acyclic es r).
Proof.
  intros Hok. unfold reducible_fe_b.
  set (t := mk_tab vs es r).
  set (fe := filter (fun e => reach_b t (fst e) && negb (back_edge_b t e)) es).
  destruct (has_cycle_b fe (t_all t)) as [c|] eqn:Hc; [|discriminate]. intros [= <-].
  pose proof (has_cycle_b_sound fe (t_all t) c Hc) as Hcyc.
  assert (Hfe : forall a b0, In (a, b0) fe <-> (edge es a b0 /\ reach es r a /\ ~ back_edge es r a b0)).
  { intros a b0. unfold fe. rewrite filter_In, andb_true_iff, negb_true_iff. cbn [fst].
    unfold t. rewrite (reach_b_spec vs es r Hok). unfold edge. split.
    - intros [Hin [Hr Hb]]. split; auto. split; auto. intros Hbe.
      apply (back_edge_b_spec vs es r Hok a b0 Hin) in Hbe. congruence.
    - intros [Hin [Hr Hb]]. split; auto. split; auto.
      destruct (back_edge_b (mk_tab vs es r) (a, b0)) eqn:Hbb; auto. exfalso. apply Hb.
      apply (back_edge_b_spec vs es r Hok a b0 Hin). exact Hbb. }
  unfold forward_edges_acyclic. rewrite negb_true_iff. split.
  - intros Hcf fe' Hfe' [v [c0 [l [He Hp]]]].
    assert (Hsub : forall a b0, In (a, b0) fe' -> In (a, b0) fe) by (intros a b0 Hx; apply Hfe, Hfe', Hx).
    assert (Hcy : c = true).
    { apply Hcyc. exists v. split.
      - apply memb_in. apply (reach_b_spec vs es r Hok). apply Hfe' in He. tauto.
      - exists c0, l. split; [apply Hsub; exact He|]. eapply path_ext; eauto. }
    congruence.
  - intros Hall. destruct c; auto. exfalso.
    destruct (proj1 Hcyc eq_refl) as [a [_ Hcy]]. apply (Hall fe Hfe). exists a. exact Hcy.
Qed.

(* ------------------------------------------------------------------ natural loops *)
Lemma fold_union_in (f : N -> list N) l : forall acc x,
  In x (fold_left (fun acc s => fold_left add_new (f s) acc) l acc) <->
  In x acc \/ exists s, In s l /\ In x (f s).
Proof.
  induction l as [|s l IH]; intros acc x; cbn [fold_left].
  - split; auto. intros [Hx|[s [[] _]]]. exact Hx.
  - rewrite IH, fold_add_new_in. split.
    + intros [[Hx|Hx]|[s' [Hs' Hx]]]; auto.
      * right. exists s. split; [left; auto|exact Hx].
      * right. exists s'. split; [right; auto|exact Hx].
    + intros [Hx|[s' [[<-|Hs'] Hx]]]; eauto.
Qed.

(* reversal of a walk keeps its set of vertices *)
Lemma path_rev_v E a l b : path (rev_edges E) a l b ->
  exists l', path E b l' a /\ forall y, In y (b :: l') <-> In y (a :: l).
Proof.
  induction 1 as [a|a c l b He Hp IH].
  - exists []. split; [constructor|tauto].
  - destruct IH as [l' [Hl' Hset]]. exists (l' ++ [a]). split.
    + eapply path_snoc; eauto. apply rev_edges_in. exact He.
    + intros y. change (b :: l' ++ [a]) with ((b :: l') ++ [a]). rewrite in_app_iff, Hset. cbn [In]. tauto.
Qed.
Lemma path_rev_v' E a l b : path E a l b ->
  exists l', path (rev_edges E) b l' a /\ forall y, In y (b :: l') <-> In y (a :: l).
Proof.
  induction 1 as [a|a c l b He Hp IH].
  - exists []. split; [constructor|tauto].
  - destruct IH as [l' [Hl' Hset]]. exists (l' ++ [a]). split.
    + eapply path_snoc; eauto. apply rev_edges_in. exact He.
    + intros y. change (b :: l' ++ [a]) with ((b :: l') ++ [a]). rewrite in_app_iff, Hset. cbn [In]. tauto.
Qed.
Lemma path_last_edge E a l b : path E a l b -> (l = [] /\ a = b) \/ exists c, In (c, b) E.
Proof.
  induction 1 as [a|a c l b He Hp IH]; auto. right.
  destruct IH as [[-> ->]|Hx]; eauto.
Qed.

Section Loops.
  Variables (vs : list N) (es : list (N * N)) (r : N).
  Hypothesis Hok : tab_ok vs es r = true.
  Let t := mk_tab vs es r.
  Let res := filter (fun e => reach_b t (fst e) && reach_b t (snd e)) es.

  Lemma res_in a b : In (a, b) res <-> In (a, b) es /\ reach es r a /\ reach es r b.
  Proof.
    unfold res. rewrite filter_In, andb_true_iff. cbn [fst snd]. unfold t.
    rewrite !(reach_b_spec vs es r Hok). tauto.
  Qed.

  Lemma reach_edge a b : reach es r a -> In (a, b) es -> reach es r b.
  Proof. intros [l Hp] He. exists (l ++ [b]). eapply path_snoc; eauto. Qed.

  Lemma path_in_res a l b : reach es r a -> path es a l b -> path res a l b.
  Proof.
    intros Hr Hp. induction Hp as [a|a c l b He Hp IH]; [constructor|].
    assert (Hc : reach es r c) by (eapply reach_edge; eauto).
    apply path_cons with (b := c); auto. apply res_in. auto.
  Qed.

  Lemma tails_in h tl :
    In tl (map fst (filter (fun e => (snd e =? h) && back_edge_b t e) es)) <-> back_edge es r tl h.
  Proof.
    rewrite in_map_iff. split.
    - intros [[a b] [<- Hin]]. apply filter_In in Hin. destruct Hin as [Hin Hb].
      apply andb_true_iff in Hb. destruct Hb as [Hh Hb]. cbn [fst snd] in *. apply N.eqb_eq in Hh. subst b.
      apply (back_edge_b_spec vs es r Hok a h Hin). exact Hb.
    - intros Hb. exists (tl, h). split; auto. apply filter_In. destruct Hb as [He Hd]. split; [exact He|].
      cbn [fst snd]. rewrite N.eqb_refl. cbn. apply (back_edge_b_spec vs es r Hok tl h He). split; auto.
  Qed.

  Lemma headers_in h : In h (headers es t) <-> is_header es r h.
  Proof.
    unfold headers, is_header. rewrite fold_add_new_in, in_map_iff. split.
    - intros [[[a b] [<- Hin]]|[]]. apply filter_In in Hin. destruct Hin as [Hin Hb]. exists a.
      apply (back_edge_b_spec vs es r Hok a b Hin). exact Hb.
    - intros [a Hb]. left. exists (a, h). split; auto. apply filter_In. destruct Hb as [He Hd]. split; [exact He|].
      apply (back_edge_b_spec vs es r Hok a h He). split; auto.
  Qed.

  (* [V] accepted loops: the headers are exactly the targets of back edges, and the body of the loop of h is h
     plus the reachable vertices that reach the source of a back edge into h without passing through h *)
  Theorem loops_ok_sound ls : loops_ok t es ls = true ->
    (forall h, In h (map fst ls) <-> is_header es r h) /\
    (forall h L, In (h, L) ls -> forall x, In x L <-> in_loop es r h x).
  Proof.
    unfold loops_ok. rewrite !andb_true_iff. intros [[Hhd _] Hall].
    assert (H1 : forall h, In h (map fst ls) <-> is_header es r h).
    { intros h. rewrite (proj1 (seteq_b_spec _ _) Hhd h). apply headers_in. }
    split; [exact H1|]. intros h L Hin x.
    assert (Hhead : is_header es r h) by (apply H1, in_map_iff; exists (h, L); auto).
    rewrite forallb_forall in Hall. specialize (Hall _ Hin). cbn [fst snd] in Hall.
    rewrite !andb_true_iff in Hall. destruct Hall as [[Hcl Hs] _].
    rewrite (proj1 (seteq_b_spec _ _) Hs x). unfold loop_of. fold t. fold res.
    rewrite fold_union_in. unfold loops_closed in Hcl. fold t in Hcl. fold res in Hcl.
    rewrite forallb_forall in Hcl. unfold in_loop. split.
    - intros [[<-|[]]|[tl [Htl Hx]]]; [split; auto|]. split; [exact Hhead|]. right.
      pose proof (proj1 (tails_in h tl) Htl) as Hbe.
      apply (cl_sound _ _ _ (Hcl tl Htl)) in Hx. destruct Hx as [l [Hp Hav]].
      destruct (path_rev_v res tl l x Hp) as [l' [Hp' Hset]].
      split.
      + destruct (path_last_edge _ _ _ _ Hp) as [[_ <-]|[c Hc]].
        * destruct Hbe as [_ [Hr _]]. exact Hr.
        * apply rev_edges_in, res_in in Hc. tauto.
      + exists tl, l'. split; [exact Hbe|]. split.
        * eapply path_ext; [|exact Hp']. intros a b Hab. apply res_in in Hab. tauto.
        * intros Hh. apply Hset in Hh. specialize (Hav h Hh). rewrite N.eqb_refl in Hav. discriminate.
    - intros [_ [->|[Hrx [tl [l [Hbe [Hp Hnh]]]]]]]; [left; left; auto|]. right.
      pose proof (proj2 (tails_in h tl) Hbe) as Htl. exists tl. split; [exact Htl|].
      apply (cl_sound _ _ _ (Hcl tl Htl)).
      destruct (path_rev_v' res x l tl (path_in_res x l tl Hrx Hp)) as [l' [Hp' Hset]].
      exists l'. split; [exact Hp'|]. intros y Hy. apply N.eqb_neq. intros <-. apply Hnh, Hset, Hy.
  Qed.
End Loops.

(* ------------------------------------------------------------------ loop nesting *)
Lemma ememb_in e l : ememb e l = true <-> In e l.
Proof.
  unfold ememb. rewrite existsb_exists. destruct e as [a b]. split.
  - intros [[c d] [Hin Hq]]. cbn [fst snd] in Hq. apply andb_true_iff in Hq. destruct Hq as [H1 H2].
    apply N.eqb_eq in H1, H2. subst. exact Hin.
  - intros Hin. exists (a, b). split; auto. cbn [fst snd]. rewrite !N.eqb_refl. reflexivity.
Qed.

(* [V] the accepted edge set of the loop "tree" is exactly the nesting relation between the natural loops:
   an edge outer -> inner iff the headers differ and the loop of inner is contained in the loop of outer *)
Theorem looptree_ok_sound vs es r ls tv te :
  tab_ok vs es r = true -> loops_ok (mk_tab vs es r) es ls = true -> looptree_ok ls tv te = true ->
  forall outer inner, In (outer, inner) te <-> loop_nested es r outer inner.
Proof.
  intros Hok Hls Hlt outer inner.
  destruct (loops_ok_sound vs es r Hok ls Hls) as [Hhd Hbody].
  unfold looptree_ok in Hlt. rewrite !andb_true_iff in Hlt. destruct Hlt as [[_ Hrel] Hends].
  rewrite forallb_forall in Hrel, Hends.
  assert (Hkey : forall h, is_header es r h -> exists L, In (h, L) ls).
  { intros h Hh. apply Hhd in Hh. apply in_map_iff in Hh. destruct Hh as [[h' L] [Heq Hin]]. cbn in Heq. subst. eauto. }
  unfold loop_nested. split.
  - intros Hin.
    specialize (Hends _ Hin). cbn [fst snd] in Hends. apply andb_true_iff in Hends. destruct Hends as [Ho Hi].
    apply memb_in in Ho, Hi. apply Hhd in Ho as Hho. apply Hhd in Hi as Hhi.
    destruct (Hkey _ Hho) as [Lo Hlo]. destruct (Hkey _ Hhi) as [Li Hli].
    specialize (Hrel _ Hlo). rewrite forallb_forall in Hrel. specialize (Hrel _ Hli). cbn [fst snd] in Hrel.
    apply eqb_prop in Hrel. rewrite (proj2 (ememb_in _ _) Hin) in Hrel. symmetry in Hrel.
    apply andb_true_iff in Hrel. destruct Hrel as [Hne Hsub].
    apply negb_true_iff, N.eqb_neq in Hne. split; [exact Hne|]. split; [exact Hho|]. split; [exact Hhi|].
    intros x Hx. apply (Hbody _ _ Hlo). apply (proj1 (subset_b_spec _ _) Hsub). apply (Hbody _ _ Hli). exact Hx.
  - intros [Hne [Hho [Hhi Hsub]]].
    destruct (Hkey _ Hho) as [Lo Hlo]. destruct (Hkey _ Hhi) as [Li Hli].
    specialize (Hrel _ Hlo). rewrite forallb_forall in Hrel. specialize (Hrel _ Hli). cbn [fst snd] in Hrel.
    apply eqb_prop in Hrel. apply ememb_in. rewrite Hrel. apply andb_true_iff. split.
    + apply negb_true_iff, N.eqb_neq. exact Hne.
    + apply subset_b_spec. intros x Hx. apply (Hbody _ _ Hlo). apply Hsub. apply (Hbody _ _ Hli). exact Hx.
Qed.
