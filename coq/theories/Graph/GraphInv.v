(* Graph/GraphInv.v -- the representation invariant of Graph/Graph.v: the four views (vertices, edges,
   successors, predecessors) are mutually consistent, and every mutator preserves it -- including the
   failing ones, which return Err (never Panic) and leave the graph unchanged. *)
From Coq Require Import NArith List Bool Sorted Lia FinFun.
From Falcon Require Import Base.Res Graph.NMap Graph.NMapFacts Graph.Graph.
Import ListNotations.
Local Open Scope N_scope.

(* ------------------------------------------------------------------ NMapFacts specialised to N / N*N keys *)
Local Ltac inst L :=
  unfold nm_get, nm_mem, nm_insert, nm_remove, nm_keys, em_get, em_mem, em_insert, em_remove,
         ns_mem, ns_insert, ns_remove, es_mem, es_insert, nsorted, esorted;
  intros; eapply L; eauto using ncmp_eq, ncmp_trans, ncmp_anti, ecmp_eq, ecmp_trans, ecmp_anti.

Lemma nodup_app {A} (l1 l2 : list A) :
  NoDup l1 -> NoDup l2 -> (forall x, In x l1 -> In x l2 -> False) -> NoDup (l1 ++ l2).
Proof.
  induction l1 as [|a t IH]; cbn; intros H1 H2 Hd; auto.
  inversion H1 as [|? ? Hni Hnd]; subst. constructor.
  - intros Hin. apply in_app_or in Hin. destruct Hin as [Hin|Hin]; [contradiction|].
    apply (Hd a); auto.
  - apply IH; auto. intros x Hx1 Hx2. apply (Hd x); auto.
Qed.

Lemma edge_eqb_eq a b : edge_eqb a b = true <-> a = b.
Proof.
  destruct a, b. unfold edge_eqb, pair_eqb; cbn. rewrite andb_true_iff, !N.eqb_eq.
  split; [intros [-> ->]; auto|intros [= -> ->]; auto].
Qed.

Section NInst.
  Context {A : Type}.
  Implicit Types (m : nmap A) (em : emap A).
  Lemma nm_get_insert_same k a m : nm_get k (nm_insert k a m) = Some a. Proof. inst @om_get_insert_same. Qed.
  Lemma nm_get_insert_other k k' a m : k' <> k -> nm_get k' (nm_insert k a m) = nm_get k' m. Proof. inst @om_get_insert_other. Qed.
  Lemma nm_get_remove_same k m : nm_get k (nm_remove k m) = None. Proof. inst @om_get_remove_same. Qed.
  Lemma nm_get_remove_other k k' m : k' <> k -> nm_get k' (nm_remove k m) = nm_get k' m. Proof. inst @om_get_remove_other. Qed.
  Lemma nm_mem_in k m : nm_mem k m = true <-> In k (map fst m). Proof. inst @om_mem_in. Qed.
  Lemma nm_mem_get k m : nm_mem k m = true <-> exists a, nm_get k m = Some a. Proof. inst @om_mem_get. Qed.
  Lemma nm_mem_false_get k m : nm_mem k m = false <-> nm_get k m = None. Proof. inst @om_mem_false_get. Qed.
  Lemma nm_insert_sorted k a m : nsorted (map fst m) -> nsorted (map fst (nm_insert k a m)). Proof. inst @om_insert_sorted. Qed.
  Lemma nm_remove_sorted k m : nsorted (map fst m) -> nsorted (map fst (nm_remove k m)). Proof. inst @om_remove_sorted. Qed.
  Lemma nm_get_in k a m : nsorted (map fst m) -> (nm_get k m = Some a <-> In (k, a) m). Proof. inst @om_get_in. Qed.
  Lemma nm_insert_keys k a m x : In x (map fst (nm_insert k a m)) <-> x = k \/ In x (map fst m). Proof. inst @om_insert_keys. Qed.
  Lemma nm_remove_keys k m x : In x (map fst (nm_remove k m)) <-> x <> k /\ In x (map fst m). Proof. inst @om_remove_keys. Qed.
  Lemma nm_mem_insert k k' a m : nm_mem k' (nm_insert k a m) = (k' =? k) || nm_mem k' m.
  Proof.
    unfold nm_mem, om_mem. destruct (N.eqb_spec k' k) as [->|Hne].
    - fold (nm_get k (nm_insert k a m)). rewrite nm_get_insert_same. reflexivity.
    - fold (nm_get k' (nm_insert k a m)). rewrite nm_get_insert_other by assumption. reflexivity.
  Qed.
  Lemma nm_mem_remove k k' m : nm_mem k' (nm_remove k m) = negb (k' =? k) && nm_mem k' m.
  Proof.
    unfold nm_mem, om_mem. destruct (N.eqb_spec k' k) as [->|Hne].
    - fold (nm_get k (nm_remove k m)). rewrite nm_get_remove_same. reflexivity.
    - fold (nm_get k' (nm_remove k m)). rewrite nm_get_remove_other by assumption. reflexivity.
  Qed.

  Lemma em_get_insert_same k a em : em_get k (em_insert k a em) = Some a. Proof. inst @om_get_insert_same. Qed.
  Lemma em_get_insert_other k k' a em : k' <> k -> em_get k' (em_insert k a em) = em_get k' em. Proof. inst @om_get_insert_other. Qed.
  Lemma em_get_remove_same k em : em_get k (em_remove k em) = None. Proof. inst @om_get_remove_same. Qed.
  Lemma em_get_remove_other k k' em : k' <> k -> em_get k' (em_remove k em) = em_get k' em. Proof. inst @om_get_remove_other. Qed.
  Lemma em_mem_in k em : em_mem k em = true <-> In k (map fst em). Proof. inst @om_mem_in. Qed.
  Lemma em_mem_get k em : em_mem k em = true <-> exists a, em_get k em = Some a. Proof. inst @om_mem_get. Qed.
  Lemma em_insert_sorted k a em : esorted (map fst em) -> esorted (map fst (em_insert k a em)). Proof. inst @om_insert_sorted. Qed.
  Lemma em_remove_sorted k em : esorted (map fst em) -> esorted (map fst (em_remove k em)). Proof. inst @om_remove_sorted. Qed.
  Lemma em_get_in k a em : esorted (map fst em) -> (em_get k em = Some a <-> In (k, a) em). Proof. inst @om_get_in. Qed.
  Lemma em_mem_insert k k' a em : em_mem k' (em_insert k a em) = edge_eqb k' k || em_mem k' em.
  Proof.
    unfold em_mem, om_mem. destruct (edge_eqb k' k) eqn:Heq.
    - apply edge_eqb_eq in Heq. subst. fold (em_get k (em_insert k a em)). rewrite em_get_insert_same. reflexivity.
    - fold (em_get k' (em_insert k a em)). rewrite em_get_insert_other; [reflexivity|].
      intros ->. rewrite (proj2 (edge_eqb_eq k k) eq_refl) in Heq; discriminate.
  Qed.
  Lemma em_mem_remove k k' em : em_mem k' (em_remove k em) = negb (edge_eqb k' k) && em_mem k' em.
  Proof.
    unfold em_mem, om_mem. destruct (edge_eqb k' k) eqn:Heq.
    - apply edge_eqb_eq in Heq. subst. fold (em_get k (em_remove k em)). rewrite em_get_remove_same. reflexivity.
    - fold (em_get k' (em_remove k em)). rewrite em_get_remove_other; [reflexivity|].
      intros ->. rewrite (proj2 (edge_eqb_eq k k) eq_refl) in Heq; discriminate.
  Qed.
End NInst.

Lemma ns_mem_in k s : ns_mem k s = true <-> In k s. Proof. inst @os_mem_in. Qed.
Lemma ns_mem_false k s : ns_mem k s = false <-> ~ In k s. Proof. inst @os_mem_false. Qed.
Lemma ns_insert_in k s x : In x (ns_insert k s) <-> x = k \/ In x s. Proof. inst @os_insert_in. Qed.
Lemma ns_remove_in k s x : In x (ns_remove k s) <-> x <> k /\ In x s. Proof. inst @os_remove_in. Qed.
Lemma ns_insert_sorted k s : nsorted s -> nsorted (ns_insert k s). Proof. inst @os_insert_sorted. Qed.
Lemma ns_remove_sorted k s : nsorted s -> nsorted (ns_remove k s). Proof. inst @os_remove_sorted. Qed.
Lemma nsorted_nodup s : nsorted s -> NoDup s. Proof. inst @ksorted_nodup. Qed.
Lemma nsorted_nil : nsorted []. Proof. constructor. Qed.
Lemma es_mem_in k s : es_mem k s = true <-> In k s. Proof. inst @os_mem_in. Qed.
Lemma es_insert_in k s x : In x (es_insert k s) <-> x = k \/ In x s. Proof. inst @os_insert_in. Qed.

(* ------------------------------------------------------------------ the invariant *)
Section Inv.
  Context {V E : Type} `{Vertex V} `{Edge E}.
  Notation graph := (graph V E).

  (* adjacency part: edges, successors and predecessors describe the same relation *)
  Record adj_inv (g : graph) : Prop := {
    ai_esorted : esorted (map fst (g_edges g));
    ai_ssorted : nsorted (map fst (g_successors g));
    ai_psorted : nsorted (map fst (g_predecessors g));
    ai_ekey : forall k e, em_get k (g_edges g) = Some e -> (ehead e, etail e) = k;
    ai_sset : forall i s, nm_get i (g_successors g) = Some s -> nsorted s;
    ai_pset : forall i s, nm_get i (g_predecessors g) = Some s -> nsorted s;
    ai_succ : forall h t, em_mem (h, t) (g_edges g) = true <->
                          exists s, nm_get h (g_successors g) = Some s /\ In t s;
    ai_pred : forall h t, em_mem (h, t) (g_edges g) = true <->
                          exists p, nm_get t (g_predecessors g) = Some p /\ In h p }.

  Record graph_inv (g : graph) : Prop := {
    gi_adj : adj_inv g;
    gi_vsorted : nsorted (map fst (g_vertices g));
    gi_vkey : forall i v, nm_get i (g_vertices g) = Some v -> vindex v = i;
    gi_skeys : forall i, nm_mem i (g_successors g) = nm_mem i (g_vertices g);
    gi_pkeys : forall i, nm_mem i (g_predecessors g) = nm_mem i (g_vertices g);
    gi_ends : forall h t, em_mem (h, t) (g_edges g) = true ->
                          nm_mem h (g_vertices g) = true /\ nm_mem t (g_vertices g) = true }.

  Lemma graph_inv_new : graph_inv (new : graph).
  Proof.
    repeat split; cbn; try constructor; try discriminate; try (intros [? [? ?]]; discriminate).
  Qed.

  (* ---------------------------------------------------------------- remove_edge *)
  Lemma remove_edge_adj g h t :
    adj_inv g -> has_edge g h t = true ->
    exists g', remove_edge g h t = Ok g' /\ adj_inv g' /\ g_vertices g' = g_vertices g /\
      (forall k, em_mem k (g_edges g') = negb (edge_eqb k (h, t)) && em_mem k (g_edges g)) /\
      (forall i, nm_mem i (g_successors g') = nm_mem i (g_successors g)) /\
      (forall i, nm_mem i (g_predecessors g') = nm_mem i (g_predecessors g)).
  Proof.
    intros Hai Hhe. unfold remove_edge. rewrite Hhe. cbn [negb].
    unfold has_edge in Hhe.
    destruct (proj1 (ai_succ g Hai h t) Hhe) as [ss [Hss Hts]].
    destruct (proj1 (ai_pred g Hai h t) Hhe) as [ps [Hps Hhp]].
    rewrite Hps, Hss. eexists; split; [reflexivity|]. cbn.
    split; [|split; [reflexivity|split; [|split]]].
    - constructor; cbn.
      + apply em_remove_sorted, Hai.
      + apply nm_insert_sorted, Hai.
      + apply nm_insert_sorted, Hai.
      + intros k e Hg. destruct (edge_eqb k (h, t)) eqn:Hk.
        * apply edge_eqb_eq in Hk. subst. rewrite em_get_remove_same in Hg. discriminate.
        * rewrite em_get_remove_other in Hg; [eapply ai_ekey; eauto|].
          intros ->. rewrite (proj2 (edge_eqb_eq _ _) eq_refl) in Hk. discriminate.
      + intros i s Hg. destruct (N.eq_dec i h) as [->|Hne].
        * rewrite nm_get_insert_same in Hg. injection Hg as <-. apply ns_remove_sorted. eapply ai_sset; eauto.
        * rewrite nm_get_insert_other in Hg by assumption. eapply ai_sset; eauto.
      + intros i s Hg. destruct (N.eq_dec i t) as [->|Hne].
        * rewrite nm_get_insert_same in Hg. injection Hg as <-. apply ns_remove_sorted. eapply ai_pset; eauto.
        * rewrite nm_get_insert_other in Hg by assumption. eapply ai_pset; eauto.
      + intros h' t'. rewrite em_mem_remove, andb_true_iff, negb_true_iff.
        rewrite (ai_succ g Hai h' t').
        destruct (N.eq_dec h' h) as [->|Hne].
        * rewrite nm_get_insert_same. split.
          -- intros [Hk [s [Hs Hin]]]. rewrite Hss in Hs. injection Hs as <-.
             eexists; split; [reflexivity|]. apply ns_remove_in. split; auto.
             intros ->. rewrite (proj2 (edge_eqb_eq _ _) eq_refl) in Hk. discriminate.
          -- intros [s [Hs Hin]]. injection Hs as <-. apply ns_remove_in in Hin. destruct Hin as [Hne Hin].
             split; [|eauto]. destruct (edge_eqb (h, t') (h, t)) eqn:Hk; auto.
             apply edge_eqb_eq in Hk. congruence.
        * rewrite nm_get_insert_other by assumption. split.
          -- intros [_ Hx]; exact Hx.
          -- intros Hx; split; auto. destruct (edge_eqb (h', t') (h, t)) eqn:Hk; auto.
             apply edge_eqb_eq in Hk. congruence.
      + intros h' t'. rewrite em_mem_remove, andb_true_iff, negb_true_iff.
        rewrite (ai_pred g Hai h' t').
        destruct (N.eq_dec t' t) as [->|Hne].
        * rewrite nm_get_insert_same. split.
          -- intros [Hk [s [Hs Hin]]]. rewrite Hps in Hs. injection Hs as <-.
             eexists; split; [reflexivity|]. apply ns_remove_in. split; auto.
             intros ->. rewrite (proj2 (edge_eqb_eq _ _) eq_refl) in Hk. discriminate.
          -- intros [s [Hs Hin]]. injection Hs as <-. apply ns_remove_in in Hin. destruct Hin as [Hne Hin].
             split; [|eauto]. destruct (edge_eqb (h', t) (h, t)) eqn:Hk; auto.
             apply edge_eqb_eq in Hk. congruence.
        * rewrite nm_get_insert_other by assumption. split.
          -- intros [_ Hx]; exact Hx.
          -- intros Hx; split; auto. destruct (edge_eqb (h', t') (h, t)) eqn:Hk; auto.
             apply edge_eqb_eq in Hk. congruence.
    - intros k. apply em_mem_remove.
    - intros i. rewrite nm_mem_insert. destruct (N.eqb_spec i h) as [->|]; auto.
      cbn. symmetry. apply nm_mem_get. eauto.
    - intros i. rewrite nm_mem_insert. destruct (N.eqb_spec i t) as [->|]; auto.
      cbn. symmetry. apply nm_mem_get. eauto.
  Qed.

  Lemma remove_edge_err (g : graph) h t : has_edge g h t = false -> remove_edge g h t = Err EGraphEdge.
  Proof. intros Hh. unfold remove_edge. rewrite Hh. reflexivity. Qed.

  Theorem remove_edge_inv g h t :
    graph_inv g -> has_edge g h t = true ->
    exists g', remove_edge g h t = Ok g' /\ graph_inv g' /\ g_vertices g' = g_vertices g /\
      (forall k, em_mem k (g_edges g') = negb (edge_eqb k (h, t)) && em_mem k (g_edges g)).
  Proof.
    intros Hgi Hhe. destruct (remove_edge_adj g h t (gi_adj g Hgi) Hhe) as [g' [Hr [Hai [Hv [He [Hs Hp]]]]]].
    exists g'. split; [exact Hr|]. split; [|split; assumption].
    constructor; auto.
    - rewrite Hv. apply Hgi.
    - rewrite Hv. apply Hgi.
    - intros i. rewrite Hs, Hv. apply Hgi.
    - intros i. rewrite Hp, Hv. apply Hgi.
    - intros h' t'. rewrite He, andb_true_iff, Hv. intros [_ Hm]. eapply gi_ends; eauto.
  Qed.

  (* ---------------------------------------------------------------- insert_vertex *)
  Theorem insert_vertex_inv g v :
    graph_inv g -> has_vertex g (vindex v) = false ->
    exists g', insert_vertex g v = Ok g' /\ graph_inv g' /\
      g_vertices g' = nm_insert (vindex v) v (g_vertices g) /\ g_edges g' = g_edges g.
  Proof.
    intros Hgi Hv. unfold insert_vertex. unfold has_vertex in Hv. rewrite Hv.
    eexists; split; [reflexivity|]. split; [|split; reflexivity].
    pose proof (gi_adj g Hgi) as Hai.
    assert (Hsn : nm_get (vindex v) (g_successors g) = None).
    { apply nm_mem_false_get. rewrite (gi_skeys g Hgi). exact Hv. }
    assert (Hpn : nm_get (vindex v) (g_predecessors g) = None).
    { apply nm_mem_false_get. rewrite (gi_pkeys g Hgi). exact Hv. }
    constructor; cbn.
    - constructor; cbn; try apply Hai.
      + apply nm_insert_sorted, Hai.
      + apply nm_insert_sorted, Hai.
      + intros i s Hg. destruct (N.eq_dec i (vindex v)) as [->|Hne].
        * rewrite nm_get_insert_same in Hg. injection Hg as <-. constructor.
        * rewrite nm_get_insert_other in Hg by assumption. eapply ai_sset; eauto.
      + intros i s Hg. destruct (N.eq_dec i (vindex v)) as [->|Hne].
        * rewrite nm_get_insert_same in Hg. injection Hg as <-. constructor.
        * rewrite nm_get_insert_other in Hg by assumption. eapply ai_pset; eauto.
      + intros h t. rewrite (ai_succ g Hai h t). destruct (N.eq_dec h (vindex v)) as [->|Hne].
        * rewrite nm_get_insert_same, Hsn. split; intros [s [Hs Hin]]; [discriminate|].
          injection Hs as <-. destruct Hin.
        * rewrite nm_get_insert_other by assumption. reflexivity.
      + intros h t. rewrite (ai_pred g Hai h t). destruct (N.eq_dec t (vindex v)) as [->|Hne].
        * rewrite nm_get_insert_same, Hpn. split; intros [s [Hs Hin]]; [discriminate|].
          injection Hs as <-. destruct Hin.
        * rewrite nm_get_insert_other by assumption. reflexivity.
    - apply nm_insert_sorted, Hgi.
    - intros i v' Hg. destruct (N.eq_dec i (vindex v)) as [->|Hne].
      + rewrite nm_get_insert_same in Hg. injection Hg as <-. reflexivity.
      + rewrite nm_get_insert_other in Hg by assumption. eapply gi_vkey; eauto.
    - intros i. rewrite !nm_mem_insert. f_equal. apply Hgi.
    - intros i. rewrite !nm_mem_insert. f_equal. apply Hgi.
    - intros h t Hm. rewrite !nm_mem_insert. destruct (gi_ends g Hgi h t Hm) as [-> ->].
      rewrite !orb_true_r. auto.
  Qed.
  Lemma insert_vertex_err (g : graph) v : has_vertex g (vindex v) = true -> insert_vertex g v = Err ECustom.
  Proof. intros Hh. unfold insert_vertex. unfold has_vertex in Hh. rewrite Hh. reflexivity. Qed.

  (* ---------------------------------------------------------------- insert_edge *)
  Theorem insert_edge_inv g e :
    graph_inv g -> has_edge g (ehead e) (etail e) = false ->
    has_vertex g (ehead e) = true -> has_vertex g (etail e) = true ->
    exists g', insert_edge g e = Ok g' /\ graph_inv g' /\ g_vertices g' = g_vertices g /\
      g_edges g' = em_insert (ehead e, etail e) e (g_edges g).
  Proof.
    intros Hgi He Hh Ht. unfold insert_edge. unfold has_edge in He. unfold has_vertex in Hh, Ht.
    rewrite He, Hh, Ht. cbn [negb].
    pose proof (gi_adj g Hgi) as Hai.
    set (h := ehead e) in *. set (t := etail e) in *.
    assert (Hss : exists ss, nm_get h (g_successors g) = Some ss).
    { apply nm_mem_get. rewrite (gi_skeys g Hgi). exact Hh. }
    assert (Hps : exists ps, nm_get t (g_predecessors g) = Some ps).
    { apply nm_mem_get. rewrite (gi_pkeys g Hgi). exact Ht. }
    destruct Hss as [ss Hss], Hps as [ps Hps]. rewrite Hss, Hps.
    eexists; split; [reflexivity|]. split; [|split; reflexivity].
    constructor; cbn.
    - constructor; cbn.
      + apply em_insert_sorted, Hai.
      + apply nm_insert_sorted, Hai.
      + apply nm_insert_sorted, Hai.
      + intros k e' Hg. destruct (edge_eqb k (h, t)) eqn:Hk.
        * apply edge_eqb_eq in Hk. subst. rewrite em_get_insert_same in Hg. injection Hg as <-. reflexivity.
        * rewrite em_get_insert_other in Hg; [eapply ai_ekey; eauto|].
          intros ->. rewrite (proj2 (edge_eqb_eq _ _) eq_refl) in Hk. discriminate.
      + intros i s Hg. destruct (N.eq_dec i h) as [->|Hne].
        * rewrite nm_get_insert_same in Hg. injection Hg as <-. apply ns_insert_sorted. eapply ai_sset; eauto.
        * rewrite nm_get_insert_other in Hg by assumption. eapply ai_sset; eauto.
      + intros i s Hg. destruct (N.eq_dec i t) as [->|Hne].
        * rewrite nm_get_insert_same in Hg. injection Hg as <-. apply ns_insert_sorted. eapply ai_pset; eauto.
        * rewrite nm_get_insert_other in Hg by assumption. eapply ai_pset; eauto.
      + intros h' t'. rewrite em_mem_insert, orb_true_iff, edge_eqb_eq.
        rewrite (ai_succ g Hai h' t').
        destruct (N.eq_dec h' h) as [->|Hne].
        * rewrite nm_get_insert_same. split.
          -- intros [[= ->]|[s [Hs Hin]]].
             ++ eexists; split; [reflexivity|]. apply ns_insert_in. auto.
             ++ rewrite Hss in Hs. injection Hs as <-. eexists; split; [reflexivity|]. apply ns_insert_in. auto.
          -- intros [s [Hs Hin]]. injection Hs as <-. apply ns_insert_in in Hin. destruct Hin as [->|Hin]; eauto.
        * rewrite nm_get_insert_other by assumption. split; [intros [[= -> ->]|Hx]; [congruence|exact Hx]|auto].
      + intros h' t'. rewrite em_mem_insert, orb_true_iff, edge_eqb_eq.
        rewrite (ai_pred g Hai h' t').
        destruct (N.eq_dec t' t) as [->|Hne].
        * rewrite nm_get_insert_same. split.
          -- intros [[= ->]|[s [Hs Hin]]].
             ++ eexists; split; [reflexivity|]. apply ns_insert_in. auto.
             ++ rewrite Hps in Hs. injection Hs as <-. eexists; split; [reflexivity|]. apply ns_insert_in. auto.
          -- intros [s [Hs Hin]]. injection Hs as <-. apply ns_insert_in in Hin. destruct Hin as [->|Hin]; eauto.
        * rewrite nm_get_insert_other by assumption. split; [intros [[= -> ->]|Hx]; [congruence|exact Hx]|auto].
    - apply Hgi.
    - apply Hgi.
    - intros i. rewrite nm_mem_insert. rewrite <- (gi_skeys g Hgi i).
      destruct (N.eqb_spec i h) as [->|]; auto. cbn. symmetry. apply nm_mem_get; eauto.
    - intros i. rewrite nm_mem_insert. rewrite <- (gi_pkeys g Hgi i).
      destruct (N.eqb_spec i t) as [->|]; auto. cbn. symmetry. apply nm_mem_get; eauto.
    - intros h' t'. rewrite em_mem_insert, orb_true_iff, edge_eqb_eq. intros [[= -> ->]|Hm]; auto.
      eapply gi_ends; eauto.
  Qed.
  Lemma insert_edge_err (g : graph) e :
    has_edge g (ehead e) (etail e) = true \/ has_vertex g (ehead e) = false \/ has_vertex g (etail e) = false ->
    exists k, insert_edge g e = Err k.
  Proof.
    unfold insert_edge, has_edge, has_vertex. intros Hc.
    destruct (em_mem (ehead e, etail e) (g_edges g)); [eauto|].
    destruct (nm_mem (ehead e) (g_vertices g)); cbn; [|eauto].
    destruct (nm_mem (etail e) (g_vertices g)); cbn; [|eauto].
    destruct Hc as [Hc|[Hc|Hc]]; discriminate.
  Qed.

  (* ---------------------------------------------------------------- remove_vertex *)
  Lemma fold_remove_edges (es : list (N * N)) : forall g,
    adj_inv g -> NoDup es -> (forall k, In k es -> em_mem k (g_edges g) = true) ->
    exists g', fold_left (fun acc e => g0 <- acc ;; remove_edge g0 (fst e) (snd e)) es (Ok g) = Ok g' /\
      adj_inv g' /\ g_vertices g' = g_vertices g /\
      (forall k, em_mem k (g_edges g') = negb (existsb (edge_eqb k) es) && em_mem k (g_edges g)) /\
      (forall i, nm_mem i (g_successors g') = nm_mem i (g_successors g)) /\
      (forall i, nm_mem i (g_predecessors g') = nm_mem i (g_predecessors g)).
  Proof.
    induction es as [|[h t] es IH]; intros g Hai Hnd Hin; cbn [fold_left].
    - exists g. repeat split; auto. apply Hai. all: try apply Hai.
    - inversion Hnd as [|? ? Hni Hnd']; subst.
      destruct (remove_edge_adj g h t Hai (Hin _ (or_introl eq_refl))) as [g1 [Hr [Hai1 [Hv1 [He1 [Hs1 Hp1]]]]]].
      cbn [bind fst snd]. rewrite Hr.
      destruct (IH g1 Hai1 Hnd') as [g' [Hf [Hai' [Hv' [He' [Hs' Hp']]]]]].
      { intros k Hk. rewrite He1. rewrite (Hin k (or_intror Hk)), andb_true_r.
        destruct (edge_eqb k (h, t)) eqn:Hkk; auto. apply edge_eqb_eq in Hkk. subst. contradiction. }
      exists g'. split; [exact Hf|]. split; [exact Hai'|]. split; [congruence|]. split; [|split].
      + intros k. rewrite He', He1. cbn [existsb].
        destruct (edge_eqb k (h, t)), (existsb (edge_eqb k) es), (em_mem k (g_edges g)); reflexivity.
      + intros i. rewrite Hs', Hs1. reflexivity.
      + intros i. rewrite Hp', Hp1. reflexivity.
  Qed.

  Lemma incident_edges_spec g i : adj_inv g ->
    NoDup (incident_edges g i) /\
    (forall k, In k (incident_edges g i) -> em_mem k (g_edges g) = true) /\
    (forall h t, em_mem (h, t) (g_edges g) = true -> (h = i \/ t = i) -> In (h, t) (incident_edges g i)) /\
    (forall h t, In (h, t) (incident_edges g i) -> h = i \/ t = i).
  Proof.
    intros Hai. unfold incident_edges.
    set (es1 := match nm_get i (g_successors g) with Some ss => map (fun s => (i, s)) ss | None => [] end).
    set (es2 := match nm_get i (g_predecessors g) with Some ps => map (fun p => (p, i)) ps | None => [] end).
    assert (H1 : NoDup es1 /\ forall h t, In (h, t) es1 <-> (h = i /\ em_mem (i, t) (g_edges g) = true)).
    { subst es1. destruct (nm_get i (g_successors g)) as [ss|] eqn:Hss.
      - split.
        + apply Injective_map_NoDup; [intros a b [= ->]; reflexivity|].
          apply nsorted_nodup. eapply ai_sset; eauto.
        + intros h t. rewrite in_map_iff. rewrite (ai_succ g Hai i t). split.
          * intros [s [[= <- <-] Hin]]. split; eauto.
          * intros [-> [s [Hs Hin]]]. rewrite Hss in Hs. injection Hs as <-. eauto.
      - split; [constructor|]. intros h t. split; [intros []|].
        intros [-> Hm]. apply (ai_succ g Hai) in Hm. destruct Hm as [s [Hs _]]. congruence. }
    assert (H2 : NoDup es2 /\ forall h t, In (h, t) es2 <-> (t = i /\ em_mem (h, i) (g_edges g) = true)).
    { subst es2. destruct (nm_get i (g_predecessors g)) as [ps|] eqn:Hps.
      - split.
        + apply Injective_map_NoDup; [intros a b [= ->]; reflexivity|].
          apply nsorted_nodup. eapply ai_pset; eauto.
        + intros h t. rewrite in_map_iff. rewrite (ai_pred g Hai h i). split.
          * intros [s [[= <- <-] Hin]]. split; eauto.
          * intros [-> [s [Hs Hin]]]. rewrite Hps in Hs. injection Hs as <-. eauto.
      - split; [constructor|]. intros h t. split; [intros []|].
        intros [-> Hm]. apply (ai_pred g Hai) in Hm. destruct Hm as [s [Hs _]]. congruence. }
    destruct H1 as [Hn1 H1], H2 as [Hn2 H2].
    assert (Hmem : forall k, existsb (edge_eqb k) es1 = true <-> In k es1).
    { intros k. rewrite existsb_exists. split.
      - intros [x [Hx Hk]]. apply edge_eqb_eq in Hk. subst. exact Hx.
      - intros Hk. exists k. split; auto. apply edge_eqb_eq. reflexivity. }
    split; [|split; [|split]].
    - apply nodup_app.
      + exact Hn1.
      + apply NoDup_filter. exact Hn2.
      + intros k Hk1 Hk2. apply filter_In in Hk2. destruct Hk2 as [_ Hk2].
        apply negb_true_iff in Hk2. apply Hmem in Hk1. congruence.
    - intros [h t] Hk. apply in_app_or in Hk. destruct Hk as [Hk|Hk].
      + apply H1 in Hk. destruct Hk as [-> Hm]. exact Hm.
      + apply filter_In in Hk. destruct Hk as [Hk _]. apply H2 in Hk. destruct Hk as [-> Hm]. exact Hm.
    - intros h t Hm Hor. apply in_or_app.
      destruct (existsb (edge_eqb (h, t)) es1) eqn:Hex.
      + left. apply Hmem. exact Hex.
      + destruct Hor as [->| ->].
        * left. apply H1. auto.
        * right. apply filter_In. split; [apply H2; auto|]. rewrite Hex. reflexivity.
    - intros h t Hk. apply in_app_or in Hk. destruct Hk as [Hk|Hk].
      + apply H1 in Hk. tauto.
      + apply filter_In in Hk. destruct Hk as [Hk _]. apply H2 in Hk. tauto.
  Qed.

  Lemma adj_inv_vertices g vs' :
    adj_inv g -> adj_inv (mkGraph vs' (g_edges g) (g_successors g) (g_predecessors g)).
  Proof. intros [? ? ? ? ? ? ? ?]. constructor; cbn; assumption. Qed.

  Lemma fold_remove_edges_edges (es : list (N * N)) : forall (g g' : graph),
    fold_left (fun acc e => g0 <- acc ;; remove_edge g0 (fst e) (snd e)) es (Ok g) = Ok g' ->
    g_edges g' = fold_left (fun m e => em_remove e m) es (g_edges g).
  Proof.
    induction es as [|[h t] es IH]; intros g g' Hf; cbn [fold_left] in *.
    - injection Hf as <-. reflexivity.
    - cbn [bind fst snd] in Hf. destruct (remove_edge g h t) as [g1| |] eqn:Hr.
      + rewrite (IH _ _ Hf). f_equal. unfold remove_edge in Hr.
        destruct (negb (has_edge g h t)); [discriminate|].
        destruct (nm_get t (g_predecessors g)); [|discriminate].
        destruct (nm_get h (g_successors g)); [|discriminate].
        injection Hr as <-. reflexivity.
      + exfalso. clear -Hf. induction es as [|x es IHes]; cbn in Hf; [discriminate|auto].
      + exfalso. clear -Hf. induction es as [|x es IHes]; cbn in Hf; [discriminate|auto].
  Qed.

  Theorem remove_vertex_inv g i :
    graph_inv g -> has_vertex g i = true ->
    exists g', remove_vertex g i = Ok g' /\ graph_inv g' /\
      g_vertices g' = nm_remove i (g_vertices g) /\
      g_edges g' = fold_left (fun m e => em_remove e m) (incident_edges g i) (g_edges g) /\
      (forall h t, em_mem (h, t) (g_edges g') = negb (h =? i) && negb (t =? i) && em_mem (h, t) (g_edges g)).
  Proof.
    intros Hgi Hv. unfold remove_vertex. rewrite Hv. cbn [negb].
    pose proof (gi_adj g Hgi) as Hai.
    destruct (incident_edges_spec g i Hai) as [Hnd [Hall [Hinc Hinc']]].
    set (g1 := mkGraph (nm_remove i (g_vertices g)) (g_edges g) (g_successors g) (g_predecessors g)).
    destruct (fold_remove_edges (incident_edges g i) g1 (adj_inv_vertices g _ Hai) Hnd Hall)
      as [g2 [Hf [Hai2 [Hv2 [He2 [Hs2 Hp2]]]]]].
    rewrite Hf. cbn [bind]. eexists; split; [reflexivity|]. cbn.
    assert (Hex : forall h t, existsb (edge_eqb (h, t)) (incident_edges g i) = true <-> In (h, t) (incident_edges g i)).
    { intros h t. rewrite existsb_exists. split.
      - intros [x [Hx Hk]]. apply edge_eqb_eq in Hk. subst. exact Hx.
      - intros Hk. exists (h, t). split; auto. apply edge_eqb_eq. reflexivity. }
    assert (Hedge : forall h t, em_mem (h, t) (g_edges g2) = negb (h =? i) && negb (t =? i) && em_mem (h, t) (g_edges g)).
    { intros h t. rewrite He2. cbn [g1 g_edges].
      destruct (em_mem (h, t) (g_edges g)) eqn:Hm; [|rewrite !andb_false_r; reflexivity].
      rewrite !andb_true_r.
      destruct (existsb (edge_eqb (h, t)) (incident_edges g i)) eqn:Hx.
      - apply Hex, Hinc' in Hx. destruct Hx as [->| ->]; rewrite N.eqb_refl; cbn; rewrite ?andb_false_r; reflexivity.
      - destruct (N.eqb_spec h i) as [->|Hh]; [|destruct (N.eqb_spec t i) as [->|Ht]]; cbn; auto.
        + assert (In (i, t) (incident_edges g i)) by (apply Hinc; auto). apply Hex in H1. congruence.
        + assert (In (h, i) (incident_edges g i)) by (apply Hinc; auto). apply Hex in H1. congruence. }
    split; [|split; [exact Hv2|split; [exact (fold_remove_edges_edges _ _ _ Hf)|exact Hedge]]].
    constructor; cbn.
    - constructor; cbn; try apply Hai2.
      + apply nm_remove_sorted, Hai2.
      + apply nm_remove_sorted, Hai2.
      + intros j s Hg. destruct (N.eq_dec j i) as [->|Hne].
        * rewrite nm_get_remove_same in Hg. discriminate.
        * rewrite nm_get_remove_other in Hg by assumption. eapply ai_sset; eauto.
      + intros j s Hg. destruct (N.eq_dec j i) as [->|Hne].
        * rewrite nm_get_remove_same in Hg. discriminate.
        * rewrite nm_get_remove_other in Hg by assumption. eapply ai_pset; eauto.
      + intros h t. destruct (N.eq_dec h i) as [->|Hne].
        * rewrite nm_get_remove_same, Hedge, N.eqb_refl. cbn. split; [discriminate|intros [s [Hs _]]; discriminate].
        * rewrite nm_get_remove_other by assumption. apply (ai_succ g2 Hai2).
      + intros h t. destruct (N.eq_dec t i) as [->|Hne].
        * rewrite nm_get_remove_same, Hedge, N.eqb_refl, andb_false_r. cbn.
          split; [discriminate|intros [s [Hs _]]; discriminate].
        * rewrite nm_get_remove_other by assumption. apply (ai_pred g2 Hai2).
    - rewrite Hv2. cbn. apply nm_remove_sorted, Hgi.
    - intros j v. rewrite Hv2. cbn. destruct (N.eq_dec j i) as [->|Hne].
      + rewrite nm_get_remove_same. discriminate.
      + rewrite nm_get_remove_other by assumption. apply Hgi.
    - intros j. rewrite Hv2. cbn. rewrite !nm_mem_remove, Hs2. cbn. f_equal. apply Hgi.
    - intros j. rewrite Hv2. cbn. rewrite !nm_mem_remove, Hp2. cbn. f_equal. apply Hgi.
    - intros h t. rewrite Hedge, !andb_true_iff, !negb_true_iff. intros [[Hh Ht] Hm].
      rewrite Hv2. cbn. rewrite !nm_mem_remove, Hh, Ht. cbn. eapply gi_ends; eauto.
  Qed.
  Lemma remove_vertex_err (g : graph) i : has_vertex g i = false -> remove_vertex g i = Err EGraphVertex.
  Proof. intros Hh. unfold remove_vertex. rewrite Hh. reflexivity. Qed.

  (* vertex_mut / edge_mut updates that keep the index *)
  Theorem update_vertex_inv g i f :
    graph_inv g -> (forall v, vindex (f v) = vindex v) ->
    forall g', update_vertex g i f = Ok g' -> graph_inv g' /\ g_edges g' = g_edges g /\
      forall j, nm_mem j (g_vertices g') = nm_mem j (g_vertices g).
  Proof.
    intros Hgi Hf g' Hu. unfold update_vertex in Hu.
    destruct (nm_get i (g_vertices g)) as [v|] eqn:Hv; [|discriminate]. injection Hu as <-. cbn.
    assert (Hmem : forall j, nm_mem j (nm_insert i (f v) (g_vertices g)) = nm_mem j (g_vertices g)).
    { intros j. rewrite nm_mem_insert. destruct (N.eqb_spec j i) as [->|]; auto. cbn. symmetry. apply nm_mem_get; eauto. }
    split; [|split; [reflexivity|exact Hmem]].
    constructor; cbn.
    - apply (adj_inv_vertices g _ (gi_adj g Hgi)).
    - apply nm_insert_sorted, Hgi.
    - intros j v'. destruct (N.eq_dec j i) as [->|Hne].
      + rewrite nm_get_insert_same. intros [= <-]. rewrite Hf. eapply gi_vkey; eauto.
      + rewrite nm_get_insert_other by assumption. apply Hgi.
    - intros j. rewrite Hmem. apply Hgi.
    - intros j. rewrite Hmem. apply Hgi.
    - intros h t Hm. rewrite !Hmem. eapply gi_ends; eauto.
  Qed.

  (* ---------------------------------------------------------------- any sequence of operations *)
  Inductive gop := GInsV (v : V) | GInsE (e : E) | GRemV (i : N) | GRemE (h t : N).
  Definition gapply (g : graph) (o : gop) : res graph :=
    match o with
    | GInsV v => insert_vertex g v
    | GInsE e => insert_edge g e
    | GRemV i => remove_vertex g i
    | GRemE h t => remove_edge g h t
    end.
  (* a failing operation leaves the graph as it was *)
  Definition gstep (g : graph) (o : gop) : graph := match gapply g o with Ok g' => g' | _ => g end.

  Theorem gapply_inv g o : graph_inv g -> gapply g o <> Panic /\ graph_inv (gstep g o).
  Proof.
    intros Hgi. unfold gstep. destruct o as [v|e|i|h t]; cbn [gapply].
    - destruct (has_vertex g (vindex v)) eqn:Hv.
      + rewrite (insert_vertex_err g v Hv). split; [discriminate|assumption].
      + destruct (insert_vertex_inv g v Hgi Hv) as [g' [-> [Hgi' _]]]. split; [discriminate|assumption].
    - destruct (has_edge g (ehead e) (etail e)) eqn:He;
        [|destruct (has_vertex g (ehead e)) eqn:Hh; [destruct (has_vertex g (etail e)) eqn:Ht|]].
      + destruct (insert_edge_err g e (or_introl He)) as [k ->]. split; [discriminate|assumption].
      + destruct (insert_edge_inv g e Hgi He Hh Ht) as [g' [-> [Hgi' _]]]. split; [discriminate|assumption].
      + destruct (insert_edge_err g e (or_intror (or_intror Ht))) as [k ->]. split; [discriminate|assumption].
      + destruct (insert_edge_err g e (or_intror (or_introl Hh))) as [k ->]. split; [discriminate|assumption].
    - destruct (has_vertex g i) eqn:Hv.
      + destruct (remove_vertex_inv g i Hgi Hv) as [g' [-> [Hgi' _]]]. split; [discriminate|assumption].
      + rewrite (remove_vertex_err g i Hv). split; [discriminate|assumption].
    - destruct (has_edge g h t) eqn:He.
      + destruct (remove_edge_inv g h t Hgi He) as [g' [-> [Hgi' _]]]. split; [discriminate|assumption].
      + rewrite (remove_edge_err g h t He). split; [discriminate|assumption].
  Qed.

  Theorem graph_inv_ops (ops : list gop) : forall g,
    graph_inv g ->
    graph_inv (fold_left gstep ops g) /\
    forall pre o post, ops = pre ++ o :: post -> gapply (fold_left gstep pre g) o <> Panic.
  Proof.
    induction ops as [|o ops IH]; intros g Hgi; cbn [fold_left].
    - split; [assumption|]. intros [|? ?] ? ? Heq; discriminate.
    - destruct (gapply_inv g o Hgi) as [Hnp Hgi']. destruct (IH _ Hgi') as [Hfin Hall].
      split; [assumption|]. intros [|p pre] o' post Heq; cbn in *.
      + injection Heq as <- _. exact Hnp.
      + injection Heq as <- Heq. eapply Hall; eauto.
  Qed.

  (* ---------------------------------------------------------------- views under the invariant *)
  Lemma successor_indices_spec g i : graph_inv g -> has_vertex g i = true ->
    exists s, successor_indices g i = Ok s /\ nsorted s /\ forall t, In t s <-> has_edge g i t = true.
  Proof.
    intros Hgi Hv. unfold successor_indices. unfold has_vertex in Hv. rewrite Hv. cbn [negb].
    assert (Hs : exists s, nm_get i (g_successors g) = Some s) by (apply nm_mem_get; rewrite (gi_skeys g Hgi); exact Hv).
    destruct Hs as [s Hs]. rewrite Hs. exists s. split; [reflexivity|]. split; [eapply ai_sset; eauto; apply Hgi|].
    intros t. unfold has_edge. rewrite (ai_succ g (gi_adj g Hgi) i t). split.
    - intros Hin; eauto.
    - intros [s' [Hs' Hin]]. congruence.
  Qed.
  Lemma predecessor_indices_spec g i : graph_inv g -> has_vertex g i = true ->
    exists s, predecessor_indices g i = Ok s /\ nsorted s /\ forall h, In h s <-> has_edge g h i = true.
  Proof.
    intros Hgi Hv. unfold predecessor_indices. unfold has_vertex in Hv. rewrite Hv. cbn [negb].
    assert (Hs : exists s, nm_get i (g_predecessors g) = Some s) by (apply nm_mem_get; rewrite (gi_pkeys g Hgi); exact Hv).
    destruct Hs as [s Hs]. rewrite Hs. exists s. split; [reflexivity|]. split; [eapply ai_pset; eauto; apply Hgi|].
    intros h. unfold has_edge. rewrite (ai_pred g (gi_adj g Hgi) h i). split.
    - intros Hin; eauto.
    - intros [s' [Hs' Hin]]. congruence.
  Qed.
  Lemma succs_of_spec g i : graph_inv g -> has_vertex g i = true ->
    exists s, succs_of g i = Ok s /\ nsorted s /\ forall t, In t s <-> has_edge g i t = true.
  Proof.
    intros Hgi Hv. destruct (successor_indices_spec g i Hgi Hv) as [s [Hs Hr]]. exists s. split; auto.
    unfold successor_indices in Hs. unfold has_vertex in Hv. rewrite Hv in Hs. exact Hs.
  Qed.
  Lemma preds_of_spec g i : graph_inv g -> has_vertex g i = true ->
    exists s, preds_of g i = Ok s /\ nsorted s /\ forall h, In h s <-> has_edge g h i = true.
  Proof.
    intros Hgi Hv. destruct (predecessor_indices_spec g i Hgi Hv) as [s [Hs Hr]]. exists s. split; auto.
    unfold predecessor_indices in Hs. unfold has_vertex in Hv. rewrite Hv in Hs. exact Hs.
  Qed.
  Lemma has_edge_vertices g h t : graph_inv g -> has_edge g h t = true -> has_vertex g h = true /\ has_vertex g t = true.
  Proof. intros Hgi He. eapply gi_ends; eauto. Qed.
  Lemma has_edge_keys (g : graph) h t : has_edge g h t = true <-> In (h, t) (edge_keys g).
  Proof. unfold has_edge, edge_keys. apply em_mem_in. Qed.
  Lemma has_vertex_keys (g : graph) i : has_vertex g i = true <-> In i (vertex_indices g).
  Proof. unfold has_vertex, vertex_indices. apply nm_mem_in. Qed.
End Inv.
