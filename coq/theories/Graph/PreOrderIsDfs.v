(* Graph/PreOrderIsDfs.v -- [U] pre_order_is_dfs: the list returned by compute_pre_order (explicit stack, visited on
   pop) is a depth-first pre-order in the relational sense: `explore vis v l` = "starting at v with the set vis
   already visited, a recursive depth-first search that explores the successors of each new vertex in SOME order
   lists exactly l".  (The model explores them in descending index order.) *)
From Coq Require Import NArith List Bool Lia Permutation.
From Falcon Require Import Base.Res Graph.NMap Graph.NMapFacts Graph.Graph Graph.GraphInv Graph.Algo.
Import ListNotations.

Section Dfs.
  Context {V E : Type} `{Vertex V} `{Edge E}.
  Variable g : graph V E.

  Inductive explore : list N -> N -> list N -> Prop :=
  | ex_vis vis v : In v vis -> explore vis v []
  | ex_new vis v ss ss' seg : ~ In v vis -> succs_of g v = Ok ss -> Permutation ss' ss ->
                              explore_list (v :: vis) ss' seg -> explore vis v (v :: seg)
  with explore_list : list N -> list N -> list N -> Prop :=
  | el_nil vis : explore_list vis [] []
  | el_cons vis s rest l1 l2 : explore vis s l1 -> explore_list (l1 ++ vis) rest l2 ->
                               explore_list vis (s :: rest) (l1 ++ l2).

  Scheme explore_ind2 := Minimality for explore Sort Prop
    with explore_list_ind2 := Minimality for explore_list Sort Prop.
  Combined Scheme explore_mutind from explore_ind2, explore_list_ind2.

  (* only the SET of visited vertices matters *)
  Lemma explore_ext :
    (forall vis v l, explore vis v l -> forall vis', (forall x, In x vis <-> In x vis') -> explore vis' v l) /\
    (forall vis ss l, explore_list vis ss l -> forall vis', (forall x, In x vis <-> In x vis') -> explore_list vis' ss l).
  Proof.
    apply explore_mutind.
    - intros vis v Hin vis' He. apply ex_vis. apply He. exact Hin.
    - intros vis v ss ss' seg Hn Hs Hp _ IH vis' He. eapply ex_new; eauto.
      + intros Hx. apply Hn, He, Hx.
      + apply IH. intros x. cbn [In]. rewrite He. tauto.
    - intros vis vis' _. constructor.
    - intros vis s rest l1 l2 _ IH1 _ IH2 vis' He. constructor.
      + apply IH1. exact He.
      + apply IH2. intros x. rewrite !in_app_iff, He. tauto.
  Qed.

  Lemma explore_list_app a : forall vis b seg, explore_list vis (a ++ b) seg ->
    exists l1 l2, seg = l1 ++ l2 /\ explore_list vis a l1 /\ explore_list (l1 ++ vis) b l2.
  Proof.
    induction a as [|s a IH]; intros vis b seg Hx; cbn [app] in Hx.
    - exists [], seg. repeat split; auto. constructor.
    - inversion Hx as [|? ? ? l1s l2' Hs Hrest]; subst.
      destruct (IH _ _ _ Hrest) as [m1 [m2 [-> [Ha Hb]]]].
      exists (l1s ++ m1), m2. split; [apply app_assoc|]. split; [constructor; auto|].
      apply (proj2 explore_ext _ _ _ Hb). intros x. rewrite !in_app_iff. tauto.
  Qed.

  Lemma pre_loop_explore fuel : forall stack vis ord l vl,
    pre_loop fuel g stack vis ord = Ok l -> (forall x, In x vis <-> In x vl) ->
    exists seg, l = rev ord ++ seg /\ explore_list vl stack seg.
  Proof.
    induction fuel as [|f IH]; intros stack vis ord l vl Hl Hv; cbn [pre_loop] in Hl; [discriminate|].
    destruct stack as [|node st].
    - injection Hl as <-. exists []. split; [rewrite app_nil_r; reflexivity|constructor].
    - destruct (ns_mem node vis) eqn:Hm.
      + apply ns_mem_in in Hm. destruct (IH _ _ _ _ vl Hl Hv) as [seg [-> Hseg]].
        exists seg. split; auto. change seg with ([] ++ seg). constructor; [apply ex_vis, Hv, Hm|exact Hseg].
      + apply ns_mem_false in Hm. destruct (succs_of g node) as [ss| |] eqn:Hss; try discriminate. cbn [bind] in Hl.
        destruct (IH _ _ _ _ (node :: vl) Hl) as [seg' [-> Hseg']].
        { intros x. rewrite ns_insert_in. cbn [In]. rewrite Hv. split; intros [?|?]; auto. }
        destruct (explore_list_app _ _ _ _ Hseg') as [l1 [l2 [-> [H1 H2]]]].
        exists ((node :: l1) ++ l2). split.
        * cbn [rev app]. rewrite <- app_assoc. reflexivity.
        * constructor.
          -- apply (ex_new vl node ss (rev ss) l1); [|exact Hss|apply Permutation_sym, Permutation_rev|exact H1].
             intros Hx. apply Hm, Hv, Hx.
          -- apply (proj2 explore_ext _ _ _ H2). intros x. rewrite !in_app_iff. cbn [In]. tauto.
  Qed.

  (* [U] pre_order_is_dfs *)
  Theorem compute_pre_order_is_dfs r l : compute_pre_order g r = Ok l -> explore [] r l.
  Proof.
    unfold compute_pre_order. destruct (negb (has_vertex g r)); [discriminate|]. intros Hl.
    destruct (pre_loop_explore _ _ _ _ _ [] Hl) as [seg [-> Hseg]]; [tauto|].
    cbn [rev app]. inversion Hseg as [|? ? ? l1 l2 H1 H2]; subst. inversion H2; subst. rewrite app_nil_r. exact H1.
  Qed.
End Dfs.
