(* Graph/SpecDfs.v -- textbook definitions (relational) for the search orders and derived graphs:
   depth-first pre-order, depth-first post-order, DFS spanning tree, acyclic restriction. *)
From Coq Require Import NArith List Bool.
From Falcon Require Import Graph.Spec.
Import ListNotations.
Local Open Scope N_scope.

Section SpecDfs.
  Variable es : list (N * N).

  (* dfs_pre vis v l : a depth-first search started at the unvisited vertex v, with the set vis already visited,
     lists exactly l (v first); at every vertex it goes on to ANY unvisited successor until there is none *)
  Inductive dfs_pre : list N -> N -> list N -> Prop :=
  | dp_new vis v seg : ~ In v vis -> dfs_kids (v :: vis) v seg -> dfs_pre vis v (v :: seg)
  with dfs_kids : list N -> N -> list N -> Prop :=
  | dk_done vis u : (forall b, edge es u b -> In b vis) -> dfs_kids vis u []
  | dk_step vis u w l1 l2 : edge es u w -> ~ In w vis -> dfs_pre vis w l1 -> dfs_kids (l1 ++ vis) u l2 ->
                            dfs_kids vis u (l1 ++ l2).

  Definition is_dfs_pre_order (r : N) (l : list N) : Prop := dfs_pre [] r l.

  (* a depth-first finishing order: the reachable vertices, each once, the root last, and an edge a -> b whose
     target is not listed before its source closes a cycle (b reaches a: b was an unfinished ancestor, or a itself) *)
  Definition is_dfs_post_order (r : N) (l : list N) : Prop :=
    NoDup l /\ (forall v, In v l <-> reach es r v) /\ (exists l', l = l' ++ [r]) /\
    (forall l1 a l2, l = l1 ++ a :: l2 -> forall b, edge es a b -> In b l1 \/ reach es b a).

  (* a spanning tree of the subgraph reachable from r, rooted at r, made of graph edges *)
  Definition is_spanning_tree (r : N) (tv : list N) (te : list (N * N)) : Prop :=
    (forall v, In v tv <-> reach es r v) /\
    (forall p v, In (p, v) te -> edge es p v /\ In p tv /\ In v tv /\ v <> r) /\
    (forall p p' v, In (p, v) te -> In (p', v) te -> p = p') /\
    (forall v, In v tv -> v <> r -> exists p, In (p, v) te) /\
    (forall v, In v tv -> reach te r v).

  (* compute_acyclic: all vertices, a subset of the edges with the same reachable set and no cycle reachable from r,
     where every edge dropped from a reachable source closed a cycle *)
  Definition is_acyclic_restriction (vs : list N) (r : N) (tv : list N) (te : list (N * N)) : Prop :=
    (forall v, In v tv <-> In v vs) /\
    (forall a b, In (a, b) te -> edge es a b) /\
    (forall v, reach te r v <-> reach es r v) /\
    ~ cyclic_from te r /\
    (forall a b, edge es a b -> reach es r a -> In (a, b) te \/ reach es b a).
End SpecDfs.
