(* Graph/DfsFacts.v -- [U] structural facts about depth-first pre-orders (relational definition of Graph/SpecDfs.v),
   the ones the Lengauer-Tarjan / Semi-NCA theory starts from:
   * sub-exploration: in a DFS pre-order l every listed vertex x heads a contiguous segment sx (its DFS subtree)
     that is itself a DFS pre-order from x with everything listed before it already visited;
   * no forward cross edges: an edge x -> y leads into the segment of x or to a vertex listed before x. *)
From Coq Require Import NArith List Bool Lia.
From Falcon Require Import Graph.GraphInv Graph.Spec Graph.SpecDfs Graph.Oracle Graph.OracleProofs Graph.OracleDfsProofs.
Import ListNotations.
Local Open Scope N_scope.

Section DfsFacts.
  Variable es : list (N * N).

  Lemma kids_closed : forall vis u seg, dfs_kids es vis u seg -> forall y, edge es u y -> In y (seg ++ vis).
  Proof.
    assert (Hboth : (forall vis v l, dfs_pre es vis v l -> True) /\
                    (forall vis u seg, dfs_kids es vis u seg -> forall y, edge es u y -> In y (seg ++ vis))).
    { apply (dfs_mutind es); auto.
      intros vis u w l1 l2 He Hn Hp _ Hk IH y Hy. specialize (IH y Hy). rewrite !in_app_iff in *. tauto. }
    apply Hboth.
  Qed.

  Lemma pre_closed vis x sx : dfs_pre es vis x sx -> forall y, edge es x y -> In y sx \/ In y vis.
  Proof.
    intros Hp y Hy. inversion Hp as [? ? seg Hn Hk]; subst.
    pose proof (kids_closed _ _ _ Hk y Hy) as Hin. rewrite in_app_iff in Hin. cbn [In] in *. tauto.
  Qed.

  Lemma pre_head vis x sx : dfs_pre es vis x sx -> exists t, sx = x :: t /\ ~ In x vis.
  Proof. intros Hp. inversion Hp; subst. eauto. Qed.

  (* sub-exploration *)
  Lemma sub_exploration :
    (forall vis v l, dfs_pre es vis v l -> forall x, In x l ->
       exists l1 sx l3, l = l1 ++ sx ++ l3 /\ dfs_pre es (l1 ++ vis) x sx) /\
    (forall vis u l, dfs_kids es vis u l -> forall x, In x l ->
       exists l1 sx l3, l = l1 ++ sx ++ l3 /\ dfs_pre es (l1 ++ vis) x sx).
  Proof.
    apply (dfs_mutind es).
    - intros vis v seg Hn Hk IH x Hx. destruct Hx as [<-|Hx].
      + exists [], (v :: seg), []. split; [rewrite app_nil_r; reflexivity|]. constructor; auto.
      + destruct (IH x Hx) as [a [sx [b [-> Hp]]]]. exists (v :: a), sx, b. split; [reflexivity|].
        apply (proj1 (dfs_ext es) _ _ _ Hp). intros y. rewrite !in_app_iff. cbn [In]. rewrite ?in_app_iff. tauto.
    - intros vis u _ x [].
    - intros vis u w p1 p2 He Hn Hp IH1 Hk IH2 x Hx. apply in_app_or in Hx. destruct Hx as [Hx|Hx].
      + destruct (IH1 x Hx) as [a [sx [b [-> Hq]]]]. exists a, sx, (b ++ p2). split; [rewrite <- !app_assoc; reflexivity|exact Hq].
      + destruct (IH2 x Hx) as [a [sx [b [-> Hq]]]]. exists (p1 ++ a), sx, b. split; [rewrite <- !app_assoc; reflexivity|].
        apply (proj1 (dfs_ext es) _ _ _ Hq). intros y. rewrite !in_app_iff. tauto.
  Qed.

  (* [U] no forward cross edges *)
  Theorem dfs_edge_lemma r l : is_dfs_pre_order es r l -> forall x y, In x l -> edge es x y ->
    exists l1 sx l3, l = l1 ++ sx ++ l3 /\ dfs_pre es l1 x sx /\ (In y l1 \/ In y sx).
  Proof.
    intros Hd x y Hx Hxy. destruct (proj1 sub_exploration _ _ _ Hd x Hx) as [l1 [sx [l3 [Heq Hp]]]].
    rewrite app_nil_r in Hp. exists l1, sx, l3. split; auto. split; auto.
    destruct (pre_closed _ _ _ Hp y Hxy); auto.
  Qed.

  (* every vertex of a DFS pre-order is listed once, and is reachable from the start *)
  Lemma dfs_nodup :
    (forall vis v l, dfs_pre es vis v l -> NoDup l /\ forall x, In x l -> ~ In x vis) /\
    (forall vis u l, dfs_kids es vis u l -> NoDup l /\ forall x, In x l -> ~ In x vis).
  Proof.
    apply (dfs_mutind es).
    - intros vis v seg Hn Hk [IH1 IH2]. split.
      + constructor; auto. intros Hx. apply (IH2 v Hx). left. reflexivity.
      + intros x [<-|Hx]; auto. intros Hv. apply (IH2 x Hx). right. exact Hv.
    - intros vis u _. split; [constructor|intros x []].
    - intros vis u w p1 p2 He Hn Hp [IHa IHb] Hk [IHc IHd]. split.
      + apply GraphInv.nodup_app; auto. intros x H1 H2. apply (IHd x H2). apply in_or_app. auto.
      + intros x Hx. apply in_app_or in Hx. destruct Hx as [Hx|Hx]; auto. intros Hv. apply (IHd x Hx). apply in_or_app. auto.
  Qed.
End DfsFacts.
