(* Graph/DomTreeProofs.v -- [U] compute_dominator_tree relative to compute_immediate_dominators: for a
   well-formed idom map (distinct keys, root not a key, every value is the root or a key) the routine returns
   a consistent graph whose vertices are the root and the keys and whose edges are exactly idom(v) -> v. *)
From Coq Require Import NArith List Bool Lia.
From Falcon Require Import Base.Res Graph.NMap Graph.NMapFacts Graph.Graph Graph.GraphInv Graph.Algo.
Import ListNotations.
Local Open Scope N_scope.

Lemma fold_insert_vertices (ks : list N) : forall t : tree,
  graph_inv t -> NoDup ks -> (forall k, In k ks -> has_vertex t k = false) ->
  exists t', fold_left (fun acc k => t0 <- acc ;; insert_vertex t0 k) ks (Ok t) = Ok t' /\ graph_inv t' /\
    (forall v, has_vertex t' v = has_vertex t v || existsb (N.eqb v) ks) /\ g_edges t' = g_edges t.
Proof.
  induction ks as [|k ks IH]; intros t Hgi Hnd Hfresh; cbn [fold_left].
  - exists t. split; [reflexivity|]. split; [exact Hgi|]. split; [|reflexivity]. intros v. cbn. rewrite orb_false_r. reflexivity.
  - inversion Hnd as [|? ? Hni Hnd']; subst. cbn [bind].
    destruct (insert_vertex_inv t k Hgi (Hfresh k (or_introl eq_refl))) as [t1 [Hr [Hgi1 [Hv1 He1]]]].
    unfold tree, null_vertex in *. rewrite Hr.
    assert (Hhv : forall v, has_vertex t1 v = (v =? k) || has_vertex t v).
    { intros v. unfold has_vertex. rewrite Hv1. apply nm_mem_insert. }
    destruct (IH t1 Hgi1 Hnd') as [t' [Hf [Hgi' [Hv' He']]]].
    { intros x Hx. rewrite Hhv, (Hfresh x (or_intror Hx)), orb_false_r. apply N.eqb_neq. intros ->. contradiction. }
    exists t'. split; [exact Hf|]. split; [exact Hgi'|]. split; [|congruence].
    intros v. rewrite Hv', Hhv. cbn [existsb]. destruct (v =? k), (has_vertex t v), (existsb (N.eqb v) ks); reflexivity.
Qed.

Lemma fold_insert_edges (m : list (N * N)) : forall t : tree,
  graph_inv t -> NoDup (map fst m) ->
  (forall v d, In (v, d) m -> has_vertex t v = true /\ has_vertex t d = true /\ forall d', has_edge t d' v = false) ->
  exists t', fold_left (fun acc p => t0 <- acc ;; insert_edge t0 (snd p, fst p)) m (Ok t) = Ok t' /\ graph_inv t' /\
    g_vertices t' = g_vertices t /\
    (forall d v, has_edge t' d v = has_edge t d v || existsb (fun p => (fst p =? v) && (snd p =? d)) m).
Proof.
  induction m as [|[v d] m IH]; intros t Hgi Hnd Hall; cbn [fold_left].
  - exists t. split; [reflexivity|]. split; [exact Hgi|]. split; [reflexivity|]. intros. cbn. rewrite orb_false_r. reflexivity.
  - cbn [map fst] in Hnd. inversion Hnd as [|? ? Hni Hnd']; subst. cbn [bind fst snd].
    destruct (Hall v d (or_introl eq_refl)) as [Hv [Hd Hne]].
    destruct (insert_edge_inv t (d, v) Hgi (Hne d) Hd Hv) as [t1 [Hr [Hgi1 [Hv1 He1]]]].
    unfold tree, null_vertex, null_edge in *. rewrite Hr. cbn [ehead etail null_edge_Edge fst snd] in He1.
    assert (Hhe : forall d' v', has_edge t1 d' v' = ((d' =? d) && (v' =? v)) || has_edge t d' v').
    { intros d' v'. unfold has_edge. rewrite He1, em_mem_insert. unfold edge_eqb, pair_eqb. cbn [fst snd]. reflexivity. }
    destruct (IH t1 Hgi1 Hnd') as [t' [Hf [Hgi' [Hv' He']]]].
    { intros v' d' Hin. destruct (Hall v' d' (or_intror Hin)) as [Hv'' [Hd'' Hne'']].
      unfold has_vertex. rewrite Hv1. split; [exact Hv''|]. split; [exact Hd''|].
      intros d2. rewrite Hhe, Hne'', orb_false_r. apply andb_false_iff. right. apply N.eqb_neq.
      intros ->. apply Hni. apply in_map_iff. exists (v, d'). auto. }
    exists t'. split; [exact Hf|]. split; [exact Hgi'|]. split; [congruence|].
    intros d' v'. rewrite He', Hhe. cbn [existsb fst snd].
    rewrite (N.eqb_sym v v'), (N.eqb_sym d d').
    destruct (d' =? d), (v' =? v), (has_edge t d' v'), (existsb (fun p => (fst p =? v') && (snd p =? d')) m); reflexivity.
Qed.

Section DomTree.
  Context {V E : Type} `{Vertex V} `{Edge E}.

  Theorem dominator_tree_of_idoms (g : graph V E) r m :
    compute_immediate_dominators g r = Ok m ->
    NoDup (map fst m) -> ~ In r (map fst m) ->
    (forall v d, In (v, d) m -> d = r \/ In d (map fst m)) ->
    exists t, compute_dominator_tree g r = Ok t /\ graph_inv t /\
      (forall v, has_vertex t v = true <-> (v = r \/ In v (map fst m))) /\
      (forall d v, has_edge t d v = true <-> In (v, d) m).
  Proof.
    intros Hm Hnd Hr Hvals. unfold compute_dominator_tree. rewrite Hm. cbn [bind]. unfold tree, null_vertex, null_edge, nmap in *.
    destruct (insert_vertex_inv (new : tree) r graph_inv_new eq_refl) as [t0 [Hr0 [Hgi0 [Hv0 He0]]]].
    cbn [vindex null_vertex_Vertex] in *. unfold tree, null_vertex, null_edge, nmap in *. rewrite Hr0. cbn [bind].
    assert (Hhv0 : forall v, has_vertex t0 v = (v =? r)).
    { intros v. unfold has_vertex. rewrite Hv0, nm_mem_insert. cbn. rewrite orb_false_r. reflexivity. }
    assert (Hmem : forall (l : list N) v, existsb (N.eqb v) l = true <-> In v l).
    { intros l v. rewrite existsb_exists. split.
      - intros [x [Hx Hq]]. apply N.eqb_eq in Hq. subst. exact Hx.
      - intros Hx. exists v. split; auto. apply N.eqb_refl. }
    assert (Hfold1 : fold_left (fun acc p => t <- acc ;; insert_vertex t (fst p)) m (Ok t0) =
                     fold_left (fun acc k => t <- acc ;; insert_vertex t k) (map fst m) (Ok t0)).
    { generalize (Ok t0 : res (graph N (N * N))). clear. induction m as [|p m IH]; intros acc; cbn; auto. }
    rewrite Hfold1.
    destruct (fold_insert_vertices (map fst m) t0 Hgi0 Hnd) as [t1 [Hf1 [Hgi1 [Hv1 He1]]]].
    { intros k Hk. rewrite Hhv0. apply N.eqb_neq. intros ->. contradiction. }
    unfold tree, null_vertex, null_edge, nmap in *. rewrite Hf1. cbn [bind].
    assert (Hhv1 : forall v, has_vertex t1 v = true <-> (v = r \/ In v (map fst m))).
    { intros v. rewrite Hv1, Hhv0, orb_true_iff, N.eqb_eq, Hmem. tauto. }
    assert (Hne1 : forall d v, has_edge t1 d v = false).
    { intros d v. unfold has_edge. rewrite He1, He0. reflexivity. }
    destruct (fold_insert_edges m t1 Hgi1 Hnd) as [t2 [Hf2 [Hgi2 [Hv2 He2]]]].
    { intros v d Hin. split; [|split].
      - apply Hhv1. right. apply in_map_iff. exists (v, d). auto.
      - apply Hhv1. apply (Hvals v d Hin).
      - intros d'. apply Hne1. }
    unfold tree, null_vertex, null_edge, nmap in *. exists t2. split; [exact Hf2|]. split; [exact Hgi2|]. split.
    - intros v. unfold has_vertex. rewrite Hv2. apply Hhv1.
    - intros d v. rewrite He2, Hne1, orb_false_l, existsb_exists. split.
      + intros [[v' d'] [Hin Hq]]. cbn [fst snd] in Hq. apply andb_true_iff in Hq. destruct Hq as [Hq1 Hq2].
        apply N.eqb_eq in Hq1, Hq2. subst. exact Hin.
      + intros Hin. exists (v, d). split; auto. cbn [fst snd]. rewrite !N.eqb_refl. reflexivity.
  Qed.
End DomTree.
