(* Graph/SemiDomTheory.v -- [U] semidominators over a depth-first pre-order (relational, Graph/SpecDfs.v) and the
   recurrence that the Lengauer-Tarjan / Semi-NCA algorithms evaluate (Lengauer-Tarjan Theorem 4):
     sdom(w) = min ( { v | v -> w, num v < num w }  U  { sdom(u) | num u > num w, u ancestor-or-self of some v -> w } ).
   Stated on candidates: s is a semidominator candidate of w when there is a walk s -> ... -> w (at least one edge)
   whose intermediate vertices all have a larger number than w.
   * sd_cand_edge / sd_cand_up: every element of the right-hand side is a candidate of w;
   * sdom_recurrence: a minimal candidate of w is itself an element of the right-hand side.
   This is the specification of the `semi` loop of compute_immediate_dominators, PROVIDED that (1) the model's DFS
   tree and numbering form a depth-first pre-order of the graph in the sense of SpecDfs with anc = tree ancestry, and
   (2) after compress, label[pred] is the minimum of semi over the tree path processed so far -- neither is proved. *)
From Coq Require Import NArith List Bool Lia PeanoNat.
From Falcon Require Import Graph.GraphInv Graph.Spec Graph.SpecDfs Graph.Oracle Graph.OracleProofs Graph.OracleDfsProofs
  Graph.DfsFacts Graph.AcyclicGraphModel Graph.FrontierModel Graph.PathLemma.
Import ListNotations.
Local Open Scope N_scope.

Lemma idx_inj l a b : In a l -> idx a l = idx b l -> a = b.
Proof.
  induction l as [|y l IH]; intros Ha Heq; [destruct Ha|]. cbn [idx] in Heq.
  destruct (N.eqb_spec a y) as [->|Hay]; destruct (N.eqb_spec b y) as [->|Hby]; auto; try discriminate.
  destruct Ha as [|Ha]; [congruence|]. apply IH; auto.
Qed.

Lemma path_split_app es x l1 c l2 z : path es x (l1 ++ c :: l2) z -> path es x (l1 ++ [c]) c /\ path es c l2 z.
Proof.
  revert x. induction l1 as [|a l1 IH]; intros x Hp; cbn [app] in *.
  - inversion Hp as [|? ? ? ? He Hp']; subst. split; auto. apply path_cons with (b := c); auto. constructor.
  - inversion Hp as [|? ? ? ? He Hp']; subst. destruct (IH _ Hp') as [Hq1 Hq2]. split; auto. apply path_cons with (b := a); auto.
Qed.

Section SemiDom.
  Variable es : list (N * N).
  Variable r : N.
  Variable l : list N.
  Hypothesis Hdfs : is_dfs_pre_order es r l.

  Definition num (x : N) : nat := idx x l.

  Definition sd_cand (w s : N) : Prop :=
    In s l /\ exists p, path es s p w /\ p <> [] /\ forall y, In y (removelast p) -> (num w < num y)%nat.

  Lemma anc_num z y : anc es l z y -> (num z <= num y)%nat /\ In y l /\ In z l.
  Proof.
    intros [l1 [sz [l3 [Heq [Hp Hy]]]]]. destruct (anc_pos es r l Hdfs z y l1 sz l3 Heq Hp) as [Hz Hseg].
    apply Hseg in Hy as Hy'. unfold num. split; [lia|]. split.
    - rewrite Heq. apply in_or_app. right. apply in_or_app. auto.
    - destruct (pre_head es _ _ _ Hp) as [t [-> _]]. rewrite Heq. apply in_or_app. right. left. reflexivity.
  Qed.

  (* walks from listed vertices stay among the listed vertices *)
  Lemma path_in_l a p b : path es a p b -> In a l -> forall y, In y p -> In y l.
  Proof.
    induction 1 as [a|a c p b Hac Hp IH]; intros Ha y Hy; [destruct Hy|].
    assert (Hc : In c l).
    { destruct (dfs_edge_lemma es r l Hdfs a c Ha Hac) as [l1 [sx [l3 [Heq [_ Hin]]]]]. rewrite Heq.
      destruct Hin; apply in_or_app; auto. right. apply in_or_app. auto. }
    destruct Hy as [<-|Hy]; auto.
  Qed.

  (* tree paths: a vertex reaches every vertex of its segment by a walk inside the segment *)
  Lemma seg_paths :
    (forall vis v l0, dfs_pre es vis v l0 -> forall x, In x l0 -> exists p, path es v p x /\ forall y, In y p -> In y l0) /\
    (forall vis u l0, dfs_kids es vis u l0 -> forall x, In x l0 -> exists p, path es u p x /\ forall y, In y p -> In y l0).
  Proof.
    apply (dfs_mutind es).
    - intros vis v seg Hn Hk IH x [<-|Hx].
      + exists []. split; [constructor|intros y []].
      + destruct (IH x Hx) as [p [Hp Hin]]. exists p. split; auto. intros y Hy. right. auto.
    - intros vis u _ x [].
    - intros vis u w l1 l2 He Hn Hp IH1 Hk IH2 x Hx. apply in_app_or in Hx. destruct Hx as [Hx|Hx].
      + destruct (IH1 x Hx) as [p [Hpp Hin]]. exists (w :: p). split; [apply path_cons with (b := w); auto|].
        intros y [<-|Hy]; apply in_or_app; left; auto. destruct (pre_head es _ _ _ Hp) as [t [-> _]]. left. reflexivity.
      + destruct (IH2 x Hx) as [p [Hpp Hin]]. exists p. split; auto. intros y Hy. apply in_or_app. right. auto.
  Qed.

  Lemma anc_path z x : anc es l z x -> exists p, path es z p x /\ forall y, In y p -> anc es l z y.
  Proof.
    intros [l1 [sz [l3 [Heq [Hp Hx]]]]]. destruct (proj1 seg_paths _ _ _ Hp x Hx) as [p [Hpp Hin]].
    exists p. split; auto. intros y Hy. exists l1, sz, l3. auto.
  Qed.

  (* every listed vertex other than the start was discovered from an earlier one *)
  Lemma discoverer :
    (forall vis v l0, dfs_pre es vis v l0 -> forall w, In w l0 -> w <> v ->
       exists u a b c, l0 = a ++ u :: b ++ w :: c /\ edge es u w) /\
    (forall vis u0 l0, dfs_kids es vis u0 l0 -> forall w, In w l0 ->
       edge es u0 w \/ exists u a b c, l0 = a ++ u :: b ++ w :: c /\ edge es u w).
  Proof.
    apply (dfs_mutind es).
    - intros vis v seg Hn Hk IH w [Hw|Hw] Hne; [congruence|]. destruct (IH w Hw) as [He|[u [a [b [c [-> He]]]]]].
      + destruct (in_split _ _ Hw) as [b [c ->]]. exists v, [], b, c. split; auto.
      + exists u, (v :: a), b, c. split; auto.
    - intros vis u _ w [].
    - intros vis u0 w0 l1 l2 He Hn Hp IH1 Hk IH2 w Hw. apply in_app_or in Hw. destruct Hw as [Hw|Hw].
      + destruct (N.eq_dec w w0) as [->|Hne]; [left; exact He|]. right.
        destruct (IH1 w Hw Hne) as [u [a [b [c [-> Hu]]]]]. exists u, a, b, (c ++ l2). split; auto.
        rewrite <- !app_assoc. cbn [app]. rewrite <- app_assoc. reflexivity.
      + destruct (IH2 w Hw) as [Hu|[u [a [b [c [-> Hu]]]]]]; auto. right. exists u, (l1 ++ a), b, c. split; auto.
        rewrite <- app_assoc. reflexivity.
  Qed.

  Lemma parent_exists w : In w l -> w <> r -> exists u, In u l /\ edge es u w /\ (num u < num w)%nat.
  Proof.
    intros Hw Hne. destruct (proj1 discoverer _ _ _ Hdfs w Hw Hne) as [u [a [b [c [Heq He]]]]].
    exists u. pose proof (l_nodup es r l Hdfs) as Hnd.
    assert (Hu : In u l) by (rewrite Heq; apply in_or_app; right; left; auto).
    split; auto. split; auto. unfold num.
    assert (Hua : ~ In u a).
    { rewrite Heq in Hnd. intros Hx. apply (nodup_app_disj a (u :: b ++ w :: c) u Hnd Hx). left. reflexivity. }
    assert (Hw' : ~ In w (a ++ u :: b)).
    { rewrite Heq in Hnd. replace (a ++ u :: b ++ w :: c) with ((a ++ u :: b) ++ w :: c) in Hnd by (rewrite <- app_assoc; reflexivity).
      intros Hx. apply (nodup_app_disj (a ++ u :: b) (w :: c) w Hnd Hx). left. reflexivity. }
    rewrite Heq at 1. rewrite (idx_split a u (b ++ w :: c) Hua).
    replace l with ((a ++ u :: b) ++ w :: c) by (rewrite Heq, <- app_assoc; reflexivity).
    rewrite (idx_split (a ++ u :: b) w c Hw'). rewrite app_length. cbn [length]. lia.
  Qed.

  (* ---------------------------------------------------------------- the right-hand side consists of candidates *)
  Lemma sd_cand_edge v w : In v l -> edge es v w -> sd_cand w v.
  Proof.
    intros Hv He. split; auto. exists [w]. split; [apply path_cons with (b := w); auto; constructor|]. split; [discriminate|intros y []].
  Qed.

  Lemma sd_cand_up v w u s : edge es v w -> anc es l u v -> (num w < num u)%nat -> sd_cand u s -> sd_cand w s.
  Proof.
    intros He Ha Hlt [Hs [p1 [Hp1 [Hne1 Hint1]]]]. split; auto.
    destruct (anc_path u v Ha) as [p2 [Hp2 Hin2]].
    exists (p1 ++ p2 ++ [w]). split; [|split].
    - eapply path_app; eauto. eapply path_snoc; eauto.
    - destruct p1; [congruence|discriminate].
    - intros y Hy. replace (p1 ++ p2 ++ [w]) with ((p1 ++ p2) ++ [w]) in Hy by (rewrite <- app_assoc; reflexivity).
      rewrite removelast_last in Hy. apply in_app_or in Hy. destruct Hy as [Hy|Hy].
      + pose proof (app_removelast_last 0 Hne1) as Hsplit. rewrite Hsplit in Hy. apply in_app_or in Hy.
        destruct Hy as [Hy|[<-|[]]].
        * specialize (Hint1 y Hy). lia.
        * assert (Hlast : last p1 0 = u).
          { clear -Hp1 Hne1. induction Hp1 as [a|a b p c Hab Hp IH]; [congruence|]. destruct p as [|x p]; [inversion Hp; subst; reflexivity|].
            change (last (b :: x :: p) 0) with (last (x :: p) 0). apply IH. discriminate. }
          rewrite Hlast. exact Hlt.
      + destruct (anc_num u y (Hin2 y Hy)) as [Hle _]. lia.
  Qed.

  (* ---------------------------------------------------------------- a minimal candidate is on the right-hand side *)
  Lemma argmin_split (I : list N) : I <> [] ->
    exists a u b, I = a ++ u :: b /\ (forall y, In y a -> (num u < num y)%nat) /\ (forall y, In y b -> (num u <= num y)%nat).
  Proof.
    induction I as [|x I IH]; intros Hne; [congruence|]. destruct I as [|x' I'].
    - exists [], x, []. split; auto. split; intros y [].
    - destruct IH as [a [u [b [Heq [Ha Hb]]]]]; [discriminate|].
      destruct (Nat.le_gt_cases (num x) (num u)) as [Hle|Hgt].
      + exists [], x, (x' :: I'). split; auto. split; [intros y []|]. intros y Hy. rewrite Heq in Hy.
        apply in_app_or in Hy. destruct Hy as [Hy|[<-|Hy]]; [specialize (Ha y Hy)|auto|specialize (Hb y Hy)]; lia.
      + exists (x :: a), u, b. split; [rewrite Heq; reflexivity|]. split; auto. intros y [<-|Hy]; auto.
  Qed.

  (* every candidate comes from an edge into w, either directly or through a higher-numbered ancestor u of the source *)
  Theorem cand_cases w s : In w l -> sd_cand w s ->
    edge es s w \/
    (exists u v, edge es v w /\ anc es l u v /\ (num w < num u)%nat /\ sd_cand u s).
  Proof.
    intros Hw [Hs [p [Hp [Hpne Hint]]]].
    destruct (path_last_edge_split es s p w Hp Hpne) as [I [y [Hpeq [HpI Hyw]]]].
    assert (HrI : removelast p = I) by (rewrite Hpeq; apply removelast_last).
    destruct I as [|i0 I0].
    - inversion HpI; subst. left. exact Hyw.
    - right. destruct (argmin_split (i0 :: I0)) as [a [u [b [Heq [Ha Hb]]]]]; [discriminate|].
      rewrite Heq in HpI. destruct (path_split_app es s a u b y HpI) as [Hsu Huy].
      assert (HuI : In u (removelast p)) by (rewrite HrI, Heq; apply in_or_app; right; left; auto).
      assert (Hul : In u l) by (apply (path_in_l s (a ++ [u]) u Hsu Hs); apply in_or_app; right; left; auto).
      exists u, y. split; [exact Hyw|]. split; [|split; [apply Hint; exact HuI|]].
      + assert (Hyin : In y (u :: b)) by (eapply path_end_in; eauto).
        assert (Hle : (idx u l <= idx y l)%nat).
        { destruct Hyin as [<-|Hy]; [lia|]. apply (Hb y Hy). }
        destruct (path_lemma es r l Hdfs u b y Huy Hul Hle) as [z [Hz [Hzu Hzy]]].
        destruct (anc_num z u Hzu) as [Hzle [_ Hzl]].
        assert (z = u) as ->; [|exact Hzy].
        destruct Hz as [<-|Hz]; auto. specialize (Hb z Hz). apply (idx_inj l z u Hzl). unfold num in *. lia.
      + split; auto. exists (a ++ [u]). split; auto. split; [destruct a; discriminate|].
        rewrite removelast_last. intros y0 Hy0. apply Ha. exact Hy0.
  Qed.

  Theorem sdom_recurrence w s : In w l -> w <> r -> sd_cand w s -> (forall s', sd_cand w s' -> (num s <= num s')%nat) ->
    (edge es s w /\ (num s < num w)%nat) \/
    (exists u v, edge es v w /\ anc es l u v /\ (num w < num u)%nat /\ sd_cand u s).
  Proof.
    intros Hw Hne [Hs [p [Hp [Hpne Hint]]]] Hmin.
    destruct (path_last_edge_split es s p w Hp Hpne) as [I [y [Hpeq [HpI Hyw]]]].
    assert (HrI : removelast p = I) by (rewrite Hpeq; apply removelast_last).
    destruct I as [|i0 I0].
    - (* a single edge s -> w *)
      inversion HpI; subst. left. split; auto.
      destruct (parent_exists w Hw Hne) as [u [Hu [Huw Hlt]]]. pose proof (Hmin u (sd_cand_edge u w Hu Huw)). lia.
    - right. destruct (argmin_split (i0 :: I0)) as [a [u [b [Heq [Ha Hb]]]]]; [discriminate|].
      rewrite Heq in HpI. destruct (path_split_app es s a u b y HpI) as [Hsu Huy].
      assert (HuI : In u (removelast p)) by (rewrite HrI, Heq; apply in_or_app; right; left; auto).
      assert (Hul : In u l) by (apply (path_in_l s (a ++ [u]) u Hsu Hs); apply in_or_app; right; left; auto).
      exists u, y. split; [exact Hyw|]. split; [|split; [apply Hint; exact HuI|]].
      + (* u is an ancestor of y: the common ancestor given by the path lemma has the minimal number, so it is u *)
        assert (Hyin : In y (u :: b)) by (eapply path_end_in; eauto).
        assert (Hle : (idx u l <= idx y l)%nat).
        { destruct Hyin as [<-|Hy]; [lia|]. apply (Hb y Hy). }
        destruct (path_lemma es r l Hdfs u b y Huy Hul Hle) as [z [Hz [Hzu Hzy]]].
        destruct (anc_num z u Hzu) as [Hzle [_ Hzl]].
        assert (z = u) as ->; [|exact Hzy].
        destruct Hz as [<-|Hz]; auto. specialize (Hb z Hz). apply (idx_inj l z u Hzl). unfold num in *. lia.
      + split; auto. exists (a ++ [u]). split; auto. split; [destruct a; discriminate|].
        rewrite removelast_last. intros y0 Hy0. apply Ha. exact Hy0.
  Qed.
End SemiDom.
