(* Graph/DfsTreeModel.v -- [U] compute_dfs_tree (stack of (pred, vertex) pairs, fuel included): on every consistent graph
   and root vertex it returns Ok t where t is a consistent graph that is a spanning tree of the subgraph reachable
   from the root: its vertices are exactly the reachable vertices, its edges are graph edges, the root has no
   incoming tree edge, every other vertex has exactly one, and every vertex is reachable from the root in the tree. *)
From Coq Require Import NArith List Bool Lia.
From Falcon Require Import Base.Res Graph.NMap Graph.NMapFacts Graph.Graph Graph.GraphInv Graph.Algo Graph.Spec
  Graph.Oracle Graph.OracleProofs Graph.LoopProofs Graph.PreOrderProofs.
Import ListNotations.
Local Open Scope N_scope.

Lemma pot_l_ext A B m : (forall x, ns_mem x A = ns_mem x B) -> pot_l A m = pot_l B m.
Proof. intros He. induction m as [|p m IH]; cbn [pot_l]; auto. unfold term. rewrite He, IH. reflexivity. Qed.

Section DfsTree.
  Context {V E : Type} `{Vertex V} `{Edge E}.
  Variable g : graph V E.
  Hypothesis Hgi : graph_inv g.
  Variable r : N.
  Hypothesis Hr : has_vertex g r = true.
  Let es := edge_keys g.

  Lemma edge_he' a b : edge es a b <-> has_edge g a b = true.
  Proof. unfold edge, es. symmetry. apply has_edge_keys. Qed.

  Record DI (stack : list (N * N)) (t : tree) : Prop := {
    di_inv : graph_inv t;
    di_root : has_vertex t r = true;
    di_stack : forall p v, In (p, v) stack -> has_vertex t p = true /\ edge es p v;
    di_v : forall v, has_vertex t v = true -> reach es r v /\ has_vertex g v = true;
    di_e : forall p v, has_edge t p v = true -> edge es p v /\ v <> r;
    di_uniq : forall p p' v, has_edge t p v = true -> has_edge t p' v = true -> p = p';
    di_par : forall v, has_vertex t v = true -> v <> r -> exists p, has_edge t p v = true;
    di_tr : forall v, has_vertex t v = true -> reach (edge_keys t) r v;
    di_cl : forall x y, has_vertex t x = true -> edge es x y -> has_vertex t y = true \/ In (x, y) stack }.

  Definition tvis (t : tree) : nset := vertex_indices t.
  Lemma tvis_mem (t : tree) x : ns_mem x (tvis t) = has_vertex t x.
  Proof.
    unfold tvis. destruct (has_vertex t x) eqn:Hv.
    - apply ns_mem_in, has_vertex_keys. exact Hv.
    - apply ns_mem_false. intros Hin. apply has_vertex_keys in Hin. congruence.
  Qed.

  (* one discovery step: insert the vertex and the tree edge *)
  Lemma discover (t : tree) pred index : graph_inv t -> has_vertex t index = false -> has_vertex t pred = true ->
    exists t1 t2, insert_vertex t index = Ok t1 /\ insert_edge t1 (pred, index) = Ok t2 /\ graph_inv t2 /\
      (forall x, has_vertex t2 x = (x =? index) || has_vertex t x) /\
      (forall a b, has_edge t2 a b = edge_eqb (a, b) (pred, index) || has_edge t a b).
  Proof.
    intros Hgt Hni Hp.
    destruct (insert_vertex_inv t index Hgt Hni) as [t1 [Hr1 [Hg1 [Hv1 He1]]]].
    assert (Hhv1 : forall x, has_vertex t1 x = (x =? index) || has_vertex t x).
    { intros x. unfold has_vertex. rewrite Hv1. apply nm_mem_insert. }
    assert (Hne : has_edge t1 pred index = false).
    { unfold has_edge. rewrite He1. destruct (em_mem (pred, index) (g_edges t)) eqn:Hx; auto.
      apply (gi_ends t Hgt) in Hx. destruct Hx as [_ Hx]. unfold has_vertex in Hni. congruence. }
    destruct (insert_edge_inv t1 (pred, index) Hg1 Hne) as [t2 [Hr2 [Hg2 [Hv2 He2]]]].
    { cbn. rewrite Hhv1, Hp. apply orb_true_r. }
    { cbn. rewrite Hhv1, N.eqb_refl. reflexivity. }
    exists t1, t2. split; [exact Hr1|]. split; [exact Hr2|]. split; [exact Hg2|]. split.
    - intros x. unfold has_vertex. rewrite Hv2. apply Hhv1.
    - intros a b. unfold has_edge. rewrite He2, em_mem_insert, He1. reflexivity.
  Qed.

  Lemma dfs_loop_correct fuel : forall stack t,
    DI stack t -> (length stack + pot g (tvis t) < fuel)%nat ->
    exists t', dfs_loop fuel g stack t = Ok t' /\ DI [] t'.
  Proof.
    induction fuel as [|f IH]; intros stack t Hdi Hm; [lia|]. cbn [dfs_loop].
    destruct stack as [|[pred index] st].
    - exists t. auto.
    - destruct (di_stack _ _ Hdi pred index (or_introl eq_refl)) as [Hpt Hpe].
      destruct (has_vertex t index) eqn:Hvi.
      + apply IH.
        * destruct Hdi. constructor; auto.
          -- intros p v Hin. apply di_stack0. right. exact Hin.
          -- intros x y Hx Hxy. destruct (di_cl0 x y Hx Hxy) as [|[[= <- <-]|Hin]]; auto.
        * cbn [length] in Hm. lia.
      + destruct (discover t pred index (di_inv _ _ Hdi) Hvi Hpt) as [t1 [t2 [Hd1 [Hd2 [Hg2 [Hv2 He2]]]]]].
        assert (Hig : has_vertex g index = true).
        { apply edge_he' in Hpe. apply (has_edge_vertices g pred index Hgi Hpe). }
        destruct (succs_of_spec g index Hgi Hig) as [ss [Hss [_ Hssin]]].
        rewrite Hd1. cbn [bind]. rewrite Hd2. cbn [bind]. rewrite Hss. cbn [bind].
        assert (Hir : index <> r). { intros ->. rewrite (di_root _ _ Hdi) in Hvi. discriminate. }
        assert (Hnoedge : forall a, has_edge t a index = false).
        { intros a. destruct (has_edge t a index) eqn:Hx; auto.
          apply (has_edge_vertices t a index (di_inv _ _ Hdi)) in Hx. destruct Hx as [_ Hx]. congruence. }
        assert (Hsub : forall a b, In (a, b) (edge_keys t) -> In (a, b) (edge_keys t2)).
        { intros a b Hab. apply has_edge_keys. rewrite He2. apply has_edge_keys in Hab. rewrite Hab. apply orb_true_r. }
        apply IH.
        * constructor; auto.
          -- rewrite Hv2, (di_root _ _ Hdi). apply orb_true_r.
          -- intros p v Hin. apply in_app_or in Hin. destruct Hin as [Hin|Hin].
             ++ apply in_rev, in_map_iff in Hin. destruct Hin as [s [[= <- <-] Hs]]. split.
                ** rewrite Hv2, N.eqb_refl. reflexivity.
                ** apply edge_he', Hssin. exact Hs.
             ++ destruct (di_stack _ _ Hdi p v (or_intror Hin)) as [Hp He]. split; auto. rewrite Hv2, Hp. apply orb_true_r.
          -- intros v. rewrite Hv2, orb_true_iff, N.eqb_eq. intros [->|Hv]; [|apply (di_v _ _ Hdi v Hv)].
             split; auto. destruct (proj1 (di_v _ _ Hdi pred Hpt)) as [l Hl]. exists (l ++ [index]). eapply path_snoc; eauto.
          -- intros p v. rewrite He2, orb_true_iff, edge_eqb_eq. intros [[= -> ->]|Hx]; [auto|apply (di_e _ _ Hdi p v Hx)].
          -- intros p p' v. rewrite !He2, !orb_true_iff, !edge_eqb_eq.
             intros Ha Hb. destruct Ha as [Ha|Ha], Hb as [Hb|Hb].
             ++ congruence.
             ++ injection Ha as -> ->. rewrite Hnoedge in Hb. discriminate.
             ++ injection Hb as -> ->. rewrite Hnoedge in Ha. discriminate.
             ++ eapply (di_uniq _ _ Hdi); eauto.
          -- intros v. rewrite Hv2, orb_true_iff, N.eqb_eq. intros [->|Hv] Hvr.
             ++ exists pred. rewrite He2. unfold edge_eqb, pair_eqb. cbn. rewrite !N.eqb_refl. reflexivity.
             ++ destruct (di_par _ _ Hdi v Hv Hvr) as [p Hp]. exists p. rewrite He2, Hp. apply orb_true_r.
          -- intros v. rewrite Hv2, orb_true_iff, N.eqb_eq. intros [->|Hv].
             ++ destruct (di_tr _ _ Hdi pred Hpt) as [l Hl]. exists (l ++ [index]).
                eapply path_snoc; [eapply path_ext; eauto|]. apply has_edge_keys. rewrite He2.
                unfold edge_eqb, pair_eqb. cbn. rewrite !N.eqb_refl. reflexivity.
             ++ destruct (di_tr _ _ Hdi v Hv) as [l Hl]. exists l. eapply path_ext; eauto.
          -- intros x y. rewrite !Hv2, !orb_true_iff, !N.eqb_eq. intros [->|Hx] Hxy.
             ++ right. apply in_or_app. left. apply in_rev. rewrite rev_involutive. apply in_map_iff. exists y. split; auto.
                apply Hssin, edge_he'. exact Hxy.
             ++ destruct (di_cl _ _ Hdi x y Hx Hxy) as [Hy|[[= <- <-]|Hin]]; auto. right. apply in_or_app. auto.
        * assert (Hget : In (index, ss) (g_successors g)).
          { unfold succs_of in Hss. destruct (nm_get index (g_successors g)) as [s|] eqn:Hg; [|discriminate].
            injection Hss as <-. unfold nm_get in Hg. apply om_get_some_in in Hg; auto. apply ncmp_eq. }
          assert (Hni : ~ In index (tvis t)) by (intros Hx; apply ns_mem_in in Hx; rewrite tvis_mem in Hx; congruence).
          pose proof (pot_l_insert index ss (tvis t) (g_successors g) Hget Hni) as Hp.
          assert (Hext : pot g (tvis t2) = pot_l (ns_insert index (tvis t)) (g_successors g)).
          { unfold pot. apply pot_l_ext. intros x. rewrite tvis_mem, Hv2.
            destruct (ns_mem x (ns_insert index (tvis t))) eqn:Hx.
            - apply ns_mem_in, ns_insert_in in Hx. destruct Hx as [->|Hx]; [rewrite N.eqb_refl; reflexivity|].
              apply ns_mem_in in Hx. rewrite tvis_mem in Hx. rewrite Hx. apply orb_true_r.
            - apply ns_mem_false in Hx. destruct (N.eqb_spec x index) as [->|Hne]; [exfalso; apply Hx, ns_insert_in; auto|].
              cbn. destruct (has_vertex t x) eqn:Hy; auto. exfalso. apply Hx, ns_insert_in. right.
              apply ns_mem_in. rewrite tvis_mem. exact Hy. }
          rewrite Hext. unfold pot in Hm. rewrite app_length, rev_length, map_length. cbn [length] in Hm. unfold nset in *. lia.
  Qed.

  (* [U] *)
  Theorem compute_dfs_tree_correct :
    exists t, compute_dfs_tree g r = Ok t /\ graph_inv t /\
      (forall v, has_vertex t v = true <-> reach es r v) /\
      (forall p v, has_edge t p v = true -> edge es p v /\ v <> r) /\
      (forall p p' v, has_edge t p v = true -> has_edge t p' v = true -> p = p') /\
      (forall v, reach es r v -> v <> r -> exists p, has_edge t p v = true) /\
      (forall v, reach es r v -> reach (edge_keys t) r v).
  Proof.
    unfold compute_dfs_tree. rewrite Hr. cbn [negb].
    destruct (insert_vertex_inv (new : tree) r graph_inv_new eq_refl) as [t0 [Hr0 [Hg0 [Hv0 He0]]]].
    cbn [vindex null_vertex_Vertex] in *. unfold tree, null_vertex, null_edge in *. rewrite Hr0. cbn [bind].
    destruct (succs_of_spec g r Hgi Hr) as [ss [Hss [_ Hssin]]]. rewrite Hss. cbn [bind].
    assert (Hhv0 : forall x, has_vertex t0 x = (x =? r)).
    { intros x. unfold has_vertex. rewrite Hv0, nm_mem_insert. cbn. rewrite orb_false_r. reflexivity. }
    assert (Hhe0 : forall a b, has_edge t0 a b = false) by (intros a b; unfold has_edge; rewrite He0; reflexivity).
    destruct (dfs_loop_correct (fuel_e g) (rev (map (fun s => (r, s)) ss)) t0) as [t [Hl Hdi]].
    - constructor; auto.
      + rewrite Hhv0. apply N.eqb_refl.
      + intros p v Hin. apply in_rev, in_map_iff in Hin. destruct Hin as [s [[= <- <-] Hs]].
        split; [rewrite Hhv0; apply N.eqb_refl|apply edge_he', Hssin; exact Hs].
      + intros v. rewrite Hhv0, N.eqb_eq. intros ->. split; auto. exists []. constructor.
      + intros p v. rewrite Hhe0. discriminate.
      + intros p p' v. rewrite Hhe0. discriminate.
      + intros v. rewrite Hhv0, N.eqb_eq. intros -> Hn. congruence.
      + intros v. rewrite Hhv0, N.eqb_eq. intros ->. exists []. constructor.
      + intros x y. rewrite Hhv0, N.eqb_eq. intros -> Hxy. right. apply in_rev. rewrite rev_involutive.
        apply in_map_iff. exists y. split; auto. apply Hssin, edge_he'. exact Hxy.
    - assert (Hget : In (r, ss) (g_successors g)).
      { unfold succs_of in Hss. destruct (nm_get r (g_successors g)) as [s|] eqn:Hg; [|discriminate].
        injection Hss as <-. unfold nm_get in Hg. apply om_get_some_in in Hg; auto. apply ncmp_eq. }
      pose proof (pot_l_insert r ss [] (g_successors g) Hget (fun x => x)) as Hp. rewrite pot_nil in Hp.
      assert (Hext : pot g (tvis t0) = pot_l (ns_insert r []) (g_successors g)).
      { unfold pot. apply pot_l_ext. intros x. rewrite tvis_mem, Hhv0. cbn. destruct (N.eqb_spec x r) as [->|Hne].
        - rewrite N.compare_refl. reflexivity.
        - destruct (N.compare x r) eqn:Hc; auto. apply N.compare_eq_iff in Hc. congruence. }
      rewrite Hext, rev_length, map_length.
      assert (Hl : length (g_successors g) = length (g_vertices g)).
      { rewrite <- (map_length fst (g_successors g)), (succ_keys_eq g Hgi), map_length. reflexivity. }
      unfold fuel_e. unfold nset in *. lia.
    - exists t. split; [exact Hl|]. split; [apply Hdi|]. split; [|split; [apply Hdi|split; [apply Hdi|split]]].
      + intros v. split; [apply (di_v _ _ Hdi)|]. intros [l Hp].
        assert (Hgen : forall a l b, path es a l b -> has_vertex t a = true -> has_vertex t b = true).
        { clear -Hdi. intros a l b Hp. induction Hp as [a|a c l b Hac Hp IH]; intros Ha; auto.
          apply IH. destruct (di_cl _ _ Hdi a c Ha Hac) as [|[]]; auto. }
        eapply Hgen; eauto. apply Hdi.
      + intros v Hre Hne. apply (di_par _ _ Hdi); auto.
        destruct Hre as [l Hp].
        assert (Hgen : forall a l b, path es a l b -> has_vertex t a = true -> has_vertex t b = true).
        { clear -Hdi. intros a l0 b Hp0. induction Hp0 as [a|a c l0 b Hac Hp0 IH]; intros Ha; auto.
          apply IH. destruct (di_cl _ _ Hdi a c Ha Hac) as [|[]]; auto. }
        eapply Hgen; eauto. apply Hdi.
      + intros v [l Hp]. apply (di_tr _ _ Hdi).
        assert (Hgen : forall a l b, path es a l b -> has_vertex t a = true -> has_vertex t b = true).
        { clear -Hdi. intros a l0 b Hp0. induction Hp0 as [a|a c l0 b Hac Hp0 IH]; intros Ha; auto.
          apply IH. destruct (di_cl _ _ Hdi a c Ha Hac) as [|[]]; auto. }
        eapply Hgen; eauto. apply Hdi.
  Qed.
End DfsTree.
