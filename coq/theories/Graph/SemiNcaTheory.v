(* Graph/SemiNcaTheory.v -- [U] the dominator theory behind the NCA step of Semi-NCA, over a depth-first pre-order
   (relational, Graph/SpecDfs.v):
   * anc_chain: an ancestor reaches its descendant by a walk all of whose vertices are ancestors of the descendant;
   * dom_anc: every dominator of a listed vertex is one of its DFS ancestors;
   * idom_anc_cand: the immediate dominator of w is an ancestor (or equal) of every semidominator candidate of w, so its
     number is at most the semidominator number;
   * cand_anc: a candidate of w numbered below w is a proper ancestor of w;
   * dom_between: a proper ancestor x of p that dominates p dominates every vertex on the tree path from x to p;
   * nca_step: if x is a proper ancestor of w whose number is at most that of every candidate of w and which dominates
     every proper ancestor of w below it, then x dominates w.  (With idom_anc_cand this is why walking up the
     dominator chain of parent(w) until the number drops to semi(w) stops exactly at idom(w).) *)
From Coq Require Import NArith List Bool Lia PeanoNat Wf_nat.
From Falcon Require Import Graph.GraphInv Graph.Spec Graph.SpecDfs Graph.Oracle Graph.OracleProofs Graph.OracleDfsProofs
  Graph.DomTheory Graph.DfsFacts Graph.AcyclicGraphModel Graph.PathLemma Graph.SemiDomTheory.
Import ListNotations.
Local Open Scope N_scope.

Section Theory.
  Variable es : list (N * N).
  Variable r : N.
  Variable l : list N.
  Hypothesis Hdfs : is_dfs_pre_order es r l.
  Notation anc := (anc es l).
  Notation num := (num l).

  (* a walk inside the segment all of whose vertices have the target in their own segment *)
  Lemma chain_paths :
    (forall vis v l0, dfs_pre es vis v l0 -> forall x, In x l0 ->
       exists p, path es v p x /\ forall y, In y p -> exists a sy b, l0 = a ++ sy ++ b /\ dfs_pre es (a ++ vis) y sy /\ In x sy) /\
    (forall vis u l0, dfs_kids es vis u l0 -> forall x, In x l0 ->
       exists p, path es u p x /\ forall y, In y p -> exists a sy b, l0 = a ++ sy ++ b /\ dfs_pre es (a ++ vis) y sy /\ In x sy).
  Proof.
    apply (dfs_mutind es).
    - intros vis v seg Hn Hk IH x [<-|Hx].
      + exists []. split; [constructor|intros y []].
      + destruct (IH x Hx) as [p [Hp Hall]]. exists p. split; auto. intros y Hy.
        destruct (Hall y Hy) as [a [sy [b [-> [Hd Hin]]]]]. exists (v :: a), sy, b. split; [reflexivity|]. split; auto.
        apply (proj1 (dfs_ext es) _ _ _ Hd). intros z. rewrite !in_app_iff. cbn [In]. rewrite ?in_app_iff. tauto.
    - intros vis u _ x [].
    - intros vis u w l1 l2 He Hn Hp IH1 Hk IH2 x Hx. apply in_app_or in Hx. destruct Hx as [Hx|Hx].
      + destruct (IH1 x Hx) as [p [Hpp Hall]]. exists (w :: p). split; [apply path_cons with (b := w); auto|].
        intros y [<-|Hy].
        * exists [], l1, l2. split; [reflexivity|]. split; auto.
        * destruct (Hall y Hy) as [a [sy [b [-> [Hd Hin]]]]]. exists a, sy, (b ++ l2). split; [rewrite <- !app_assoc; reflexivity|auto].
      + destruct (IH2 x Hx) as [p [Hpp Hall]]. exists p. split; auto. intros y Hy.
        destruct (Hall y Hy) as [a [sy [b [-> [Hd Hin]]]]]. exists (l1 ++ a), sy, b. split; [rewrite <- !app_assoc; reflexivity|]. split; auto.
        apply (proj1 (dfs_ext es) _ _ _ Hd). intros z. rewrite !in_app_iff. tauto.
  Qed.

  Lemma anc_chain z x : anc z x -> exists p, path es z p x /\ forall y, In y p -> anc z y /\ anc y x.
  Proof.
    intros [l1 [sz [l3 [Heq [Hp Hx]]]]]. destruct (proj1 chain_paths _ _ _ Hp x Hx) as [p [Hpp Hall]].
    exists p. split; auto. intros y Hy. destruct (Hall y Hy) as [a [sy [b [Hsz [Hd Hin]]]]]. split.
    - exists l1, sz, l3. split; auto. split; auto. rewrite Hsz. apply in_or_app. right. apply in_or_app. left.
      destruct (pre_head es _ _ _ Hd) as [t [-> _]]. left. reflexivity.
    - exists (l1 ++ a), sy, (b ++ l3). split; [rewrite Heq, Hsz, <- !app_assoc; reflexivity|]. split; auto.
      apply (proj1 (dfs_ext es) _ _ _ Hd). intros w. rewrite !in_app_iff. tauto.
  Qed.

  Lemma anc_root x : In x l -> anc r x.
  Proof.
    intros Hx. exists [], l, []. split; [rewrite app_nil_r; reflexivity|]. split; auto.
  Qed.

  Lemma listed_reach x : In x l <-> reach es r x.
  Proof.
    split.
    - intros Hx. destruct (anc_chain r x (anc_root x Hx)) as [p [Hp _]]. exists p. exact Hp.
    - intros [p Hp]. assert (Hr : In r l) by (inversion Hdfs; subst; left; reflexivity).
      destruct (path_end_in es r p x Hp) as [<-|Hin]; auto. eapply (path_in_l es r l Hdfs); eauto.
  Qed.

  Lemma anc_lt z x : anc z x -> z <> x -> (num z < num x)%nat.
  Proof.
    intros Ha Hne. destruct (anc_num es r l Hdfs z x Ha) as [Hle [Hx Hz]].
    destruct (Nat.eq_dec (num z) (num x)) as [Heq|]; [|lia]. exfalso. apply Hne. apply (idx_inj l z x Hz Heq).
  Qed.

  (* every dominator of a listed vertex is one of its ancestors *)
  Theorem dom_anc d x : In x l -> dom es r d x -> anc d x.
  Proof.
    intros Hx [_ Hd]. destruct (anc_chain r x (anc_root x Hx)) as [p [Hp Hall]].
    destruct (Hd p Hp) as [<-|Hin]; [apply anc_root; exact Hx|]. apply Hall. exact Hin.
  Qed.

  (* the immediate dominator lies above every semidominator candidate *)
  Theorem idom_anc_cand i w s : In w l -> idom es r i w -> sd_cand es l w s -> anc i s.
  Proof.
    intros Hw [[Hdom Hne] _] [Hs [p [Hp [Hpne Hint]]]].
    destruct (anc_chain r s (anc_root s Hs)) as [q [Hq Hall]].
    pose proof (dom_anc i w Hw Hdom) as Hai. destruct Hdom as [_ Hd]. specialize (Hd (q ++ p) (path_app es r q s p w Hq Hp)).
    change (r :: q ++ p) with ((r :: q) ++ p) in Hd. apply in_app_or in Hd. destruct Hd as [[<-|Hd]|Hd].
    - apply anc_root. exact Hs.
    - apply Hall. exact Hd.
    - exfalso. rewrite (app_removelast_last 0 Hpne) in Hd. apply in_app_or in Hd. destruct Hd as [Hd|[Hd|[]]].
      + specialize (Hint i Hd).
        destruct (anc_num es r l Hdfs i w Hai) as [Hle _]. unfold SemiDomTheory.num in *. lia.
      + assert (Hlast : last p 0 = w).
        { clear -Hp Hpne. induction Hp as [a|a b p c Hab Hp IH]; [congruence|]. destruct p as [|x p]; [inversion Hp; subst; reflexivity|].
          change (last (b :: x :: p) 0) with (last (x :: p) 0). apply IH. discriminate. }
        congruence.
  Qed.

  (* a candidate numbered below w is a proper ancestor of w *)
  Theorem cand_anc w s : In w l -> sd_cand es l w s -> (num s < num w)%nat -> anc s w.
  Proof.
    intros Hw [Hs [p [Hp [Hpne Hint]]]] Hlt.
    destruct (path_lemma es r l Hdfs s p w Hp Hs) as [z [Hz [Hzs Hzw]]]; [unfold SemiDomTheory.num in Hlt; lia|].
    destruct Hz as [<-|Hz]; auto. exfalso.
    destruct (anc_num es r l Hdfs z w Hzw) as [Hle _].
    rewrite (app_removelast_last 0 Hpne) in Hz. apply in_app_or in Hz. destruct Hz as [Hz|[Hz|[]]].
    - specialize (Hint z Hz). lia.
    - assert (Hlast : last p 0 = w).
      { clear -Hp Hpne. induction Hp as [a|a b p c Hab Hp IH]; [congruence|]. destruct p as [|x p]; [inversion Hp; subst; reflexivity|].
        change (last (b :: x :: p) 0) with (last (x :: p) 0). apply IH. discriminate. }
      rewrite Hlast in Hz. subst z. destruct (anc_num es r l Hdfs w s Hzs) as [Hle' _]. unfold SemiDomTheory.num in *. lia.
  Qed.

  (* a proper ancestor that dominates p dominates the whole tree path down to p *)
  Theorem dom_between x v p : anc x v -> anc v p -> x <> v -> dom es r x p -> dom es r x v.
  Proof.
    intros Hxv Hvp Hne [_ Hd].
    destruct (anc_num es r l Hdfs v p Hvp) as [_ [_ Hvl]]. split; [apply listed_reach; exact Hvl|].
    intros q Hq. destruct (anc_chain v p Hvp) as [t [Ht Hall]].
    specialize (Hd (q ++ t) (path_app es r q v t p Hq Ht)).
    change (r :: q ++ t) with ((r :: q) ++ t) in Hd. apply in_app_or in Hd. destruct Hd as [|Hin]; auto. exfalso.
    destruct (Hall x Hin) as [Hvx _]. pose proof (anc_lt x v Hxv Hne) as H1.
    destruct (anc_num es r l Hdfs v x Hvx) as [H2 _]. lia.
  Qed.

  Lemma last_sat (f : N -> bool) (L : list N) : existsb f L = true ->
    exists pre a post, L = pre ++ a :: post /\ f a = true /\ forall y, In y post -> f y = false.
  Proof.
    induction L as [|y L IH]; cbn [existsb]; intros Hex; [discriminate|].
    destruct (existsb f L) eqn:HL.
    - destruct (IH eq_refl) as [pre [a [post [-> [Ha Hp]]]]]. exists (y :: pre), a, post. auto.
    - rewrite orb_false_r in Hex. exists [], y, L. split; auto. split; auto. intros z Hz.
      destruct (f z) eqn:Hfz; auto. assert (existsb f L = true) by (apply existsb_exists; eauto). congruence.
  Qed.

  Lemma path_last es0 a p b : path es0 a p b -> p <> [] -> last p 0 = b.
  Proof.
    induction 1 as [a|a c p b Hac Hp IH]; intros Hne; [congruence|]. destruct p as [|x p]; [inversion Hp; subst; reflexivity|].
    change (last (c :: x :: p) 0) with (last (x :: p) 0). apply IH. discriminate.
  Qed.

  (* the NCA step *)
  Theorem nca_step x w : In w l -> w <> r -> anc x w -> x <> w ->
    (forall s, sd_cand es l w s -> (num x <= num s)%nat) ->
    (forall v, anc x v -> anc v w -> v <> w -> v <> x -> dom es r x v) ->
    dom es r x w.
  Proof.
    intros Hw Hwr Hxw Hne Hmin Hbetween. split; [apply listed_reach; exact Hw|].
    assert (Hhead : exists t, l = r :: t) by (inversion Hdfs; subst; eauto). destruct Hhead as [t0 Hl0].
    assert (Hnr : num r = O) by (unfold SemiDomTheory.num; rewrite Hl0; cbn [idx]; rewrite N.eqb_refl; reflexivity).
    assert (Hnw : (0 < num w)%nat).
    { unfold SemiDomTheory.num. rewrite Hl0. cbn [idx]. destruct (N.eqb_spec w r); [contradiction|lia]. }
    assert (Hrl : In r l) by (rewrite Hl0; left; reflexivity).
    assert (Hgen : forall n P, length P = n -> path es r P w -> ~ In x (r :: P) -> False).
    { induction n as [n IH] using lt_wf_ind. intros P Hlen HP Hnx.
      assert (HPne : P <> []) by (intros ->; inversion HP; congruence).
      pose proof (app_removelast_last 0 HPne) as HPsplit. rewrite (path_last es r P w HP HPne) in HPsplit.
      remember (removelast P) as I eqn:HIdef.
      destruct (in_dec N.eq_dec w I) as [HwI|HwI].
      { (* w occurs earlier: a shorter path *)
        destruct (in_split _ _ HwI) as [I1 [I2 HI]]. rewrite HPsplit, HI, <- app_assoc in HP. cbn [app] in HP.
        destruct (path_split_app es r I1 w (I2 ++ [w]) w HP) as [Hshort _].
        apply (IH (length (I1 ++ [w]))) with (P := I1 ++ [w]); auto.
        - rewrite <- Hlen, HPsplit, HI, !app_length. cbn [length]. lia.
        - intros Hin. apply Hnx. rewrite HPsplit, HI. destruct Hin as [|Hin]; [left; auto|right].
          apply in_app_or in Hin. apply in_or_app. left. apply in_or_app. destruct Hin as [|[<-|[]]]; auto. right. left. reflexivity. }
      assert (Hinl : forall y, In y P -> In y l) by (intros y Hy; eapply (path_in_l es r l Hdfs); eauto).
      destruct (last_sat (fun y => Nat.ltb (num y) (num w)) (r :: I)) as [pre [a [post [HL [Ha Hpost]]]]].
      { cbn [existsb]. rewrite Hnr. apply orb_true_iff. left. apply Nat.ltb_lt. exact Hnw. }
      apply Nat.ltb_lt in Ha.
      assert (Hpost' : forall y, In y post -> (num w < num y)%nat).
      { intros y Hy. specialize (Hpost y Hy). apply Nat.ltb_ge in Hpost.
        assert (HyI : In y I).
        { destruct pre as [|p0 pre']; cbn [app] in HL; injection HL as _ HL; rewrite HL; [exact Hy|]. apply in_or_app. right. right. exact Hy. }
        destruct (Nat.eq_dec (num y) (num w)) as [Heq|]; [|lia]. exfalso. apply HwI.
        assert (y = w); [|subst; exact HyI]. apply (idx_inj l y w); auto. apply Hinl. rewrite HPsplit. apply in_or_app. auto. }
      (* the walk a -> post -> w makes a a candidate *)
      assert (Hpaths : path es a (post ++ [w]) w /\ (forall y, In y (a :: post) -> In y (r :: P)) /\
                       exists q, path es r q a /\ forall y, In y (r :: q) -> In y (r :: P)).
      { destruct pre as [|p0 pre']; cbn [app] in HL; injection HL as Hp0 HL.
        - subst a. rewrite <- HL. rewrite <- HPsplit. split; [exact HP|]. split.
          + intros y [<-|Hy]; [left; auto|right]. rewrite HPsplit. apply in_or_app. left. exact Hy.
          + exists []. split; [constructor|]. intros y [<-|[]]. left. reflexivity.
        - subst p0. rewrite HPsplit, HL, <- app_assoc in HP. cbn [app] in HP.
          destruct (path_split_app es r pre' a (post ++ [w]) w HP) as [H1 H2]. split; [exact H2|]. split.
          + intros y Hy. right. rewrite HPsplit, HL. apply in_or_app. left. apply in_or_app. right. exact Hy.
          + exists (pre' ++ [a]). split; [exact H1|]. intros y [<-|Hy]; [left; auto|right].
            rewrite HPsplit, HL. apply in_or_app. left. apply in_app_or in Hy. apply in_or_app. destruct Hy as [|[<-|[]]]; auto. right. left. reflexivity. }
      destruct Hpaths as [Haw [Hsub [q [Hq Hqsub]]]].
      assert (Hal : In a l).
      { destruct (Hsub a (or_introl eq_refl)) as [<-|Hin]; auto. }
      assert (Hcand : sd_cand es l w a).
      { split; auto. exists (post ++ [w]). split; auto. split; [destruct post; discriminate|]. rewrite removelast_last. exact Hpost'. }
      pose proof (cand_anc w a Hw Hcand Ha) as Haanc.
      pose proof (Hmin a Hcand) as Hxa.
      (* x and a are both ancestors of w and x is numbered no later: a lies in the segment of x *)
      assert (Hxanc : anc x a).
      { destruct Hxw as [l1 [sx [l3 [Heq [Hpx Hwx]]]]]. exists l1, sx, l3. split; auto. split; auto.
        destruct (anc_pos es r l Hdfs x a l1 sx l3 Heq Hpx) as [Hix Hsega].
        destruct (anc_pos es r l Hdfs x w l1 sx l3 Heq Hpx) as [_ Hsegw]. apply Hsega. apply Hsegw in Hwx.
        unfold SemiDomTheory.num in *. lia. }
      assert (Hxin : In x (r :: q)).
      { destruct (N.eq_dec a x) as [->|Hax].
        - eapply path_end_in; eauto.
        - assert (Haw' : a <> w) by (intros ->; lia).
          destruct (Hbetween a Hxanc Haanc Haw' Hax) as [_ Hd]. apply Hd. exact Hq. }
      apply Hnx, Hqsub, Hxin. }
    intros P HP. destruct (in_dec N.eq_dec x (r :: P)) as [|Hnx]; auto. exfalso. eapply Hgen; eauto.
  Qed.
End Theory.
