(* Graph/OrderProofs.v -- [V] the validator for topological orderings is sound. *)
From Coq Require Import NArith List Bool Lia.
From Falcon Require Import Graph.Spec Graph.Oracle Graph.OracleProofs.
Import ListNotations.
Local Open Scope N_scope.

Lemma nodup_b_spec l : nodup_b l = true -> NoDup l.
Proof.
  induction l as [|a l IH]; cbn; intros Hn; constructor.
  - apply andb_true_iff in Hn. destruct Hn as [Hn _]. apply negb_true_iff, memb_false in Hn. exact Hn.
  - apply IH. apply andb_true_iff in Hn. tauto.
Qed.

Lemma pos_split x l : forall k i, pos x l k = Some i ->
  exists l1 l2, l = l1 ++ x :: l2 /\ i = k + N.of_nat (length l1).
Proof.
  induction l as [|y l IH]; intros k i Hp; cbn in Hp; [discriminate|].
  destruct (N.eqb_spec x y) as [->|Hne].
  - injection Hp as <-. exists [], l. split; auto. cbn. lia.
  - destruct (IH _ _ Hp) as [l1 [l2 [-> ->]]]. exists (y :: l1), l2. split; auto.
    cbn [length]. lia.
Qed.

Lemma before_split l a b : before l a b = true -> exists l1 l2 l3, l = l1 ++ a :: l2 ++ b :: l3.
Proof.
  unfold before. destruct (pos a l 0) as [i|] eqn:Ha; [|discriminate].
  destruct (pos b l 0) as [j|] eqn:Hb; [|discriminate]. intros Hlt. apply N.ltb_lt in Hlt.
  destruct (pos_split a l 0 i Ha) as [l1 [l2 [Hl ->]]].
  destruct (pos_split b l 0 j Hb) as [m1 [m2 [Hm ->]]].
  rewrite Hl in Hm. apply app_eq_app in Hm. destruct Hm as [z [[H1 H2]|[H1 H2]]].
  - exfalso. rewrite H1, app_length in Hlt. lia.
  - destruct z as [|a' z].
    + exfalso. rewrite app_nil_r in H1. subst m1. lia.
    + cbn in H2. injection H2 as <- ->. exists l1, z, m2. exact Hl.
Qed.

(* [V] an accepted list is a topological order of the graph (vs, es) *)
Theorem topo_ok_sound vs es l : topo_ok vs es l = true -> topo_order es vs l.
Proof.
  unfold topo_ok, topo_order. rewrite !andb_true_iff. intros [[Hs Hn] Hf]. split; [|split].
  - apply nodup_b_spec. exact Hn.
  - apply seteq_b_spec. exact Hs.
  - intros a b Hab. rewrite forallb_forall in Hf. apply (before_split l a b). apply (Hf (a, b) Hab).
Qed.

(* ------------------------------------------------------------------ transitive predecessors *)
Lemma rev_edges_in es a b : In (a, b) (rev_edges es) <-> In (b, a) es.
Proof.
  unfold rev_edges. rewrite in_map_iff. split.
  - intros [[x y] [[= <- <-] Hin]]. exact Hin.
  - intros Hin. exists (b, a). auto.
Qed.

(* a walk in the reversed graph is a walk in the graph, backwards *)
Lemma path_rev es a l b : path (rev_edges es) a l b -> exists l', path es b l' a.
Proof.
  induction 1 as [a|a c l b He Hp IH].
  - exists []. constructor.
  - destruct IH as [l' Hl']. exists (l' ++ [a]). eapply path_snoc; eauto.
    apply rev_edges_in. exact He.
Qed.
Lemma path_rev' es a l b : path es a l b -> exists l', path (rev_edges es) b l' a.
Proof.
  induction 1 as [a|a c l b He Hp IH].
  - exists []. constructor.
  - destruct IH as [l' Hl']. exists (l' ++ [a]). eapply path_snoc; eauto.
    apply rev_edges_in. exact He.
Qed.

Lemma reach_plus_last es p v : reach_plus es p v <-> exists s l, path es p l s /\ edge es s v.
Proof.
  unfold reach_plus. split.
  - intros [c [l [He Hp]]]. revert p He. induction Hp as [c|c d l v Hcd Hp IH]; intros p He.
    + exists p, []. split; [constructor|exact He].
    + destruct (IH c Hcd) as [s [l' [Hp' Hs]]]. exists s, (c :: l'). split; auto.
      apply path_cons with (1 := He). exact Hp'.
  - intros [s [l [Hp He]]]. induction Hp as [s|p c l s Hpc Hp IH].
    + exists v, []. split; [exact He|constructor].
    + destruct (IH He) as [c' [l' [Hc' Hp']]]. exists c, (c' :: l'). split; auto.
      apply path_cons with (1 := Hc'). exact Hp'.
Qed.

(* [V] an accepted map lists, for every vertex, exactly its transitive predecessors (non-empty walks) *)
Theorem trans_preds_ok_sound vs es m : trans_preds_ok vs es m = true ->
  forall v P, In (v, P) m -> forall p, In p P <-> trans_pred es p v.
Proof.
  unfold trans_preds_ok. rewrite !andb_true_iff. intros [_ Hall] v P Hin p.
  rewrite forallb_forall in Hall. specialize (Hall _ Hin). cbn [fst snd] in Hall.
  rewrite !andb_true_iff in Hall. destruct Hall as [[Hcl Hs] _].
  rewrite (proj1 (seteq_b_spec _ _) Hs p). unfold trans_pred. rewrite reach_plus_last.
  rewrite forallb_forall in Hcl.
  assert (Hfold : forall l acc x,
            In x (fold_left (fun acc s => fold_left add_new (cl (rev_edges es) (fun _ => false) s) acc) l acc) <->
            In x acc \/ exists s, In s l /\ In x (cl (rev_edges es) (fun _ => false) s)).
  { induction l as [|s l IH]; intros acc x; cbn [fold_left].
    - split; auto. intros [Hx|[s [[] _]]]. exact Hx.
    - rewrite IH, fold_add_new_in. split.
      + intros [[Hx|Hx]|[s' [Hs' Hx]]]; eauto. right. exists s. split; [left; auto|exact Hx]. right. exists s'. split; [right; auto|exact Hx].
      + intros [Hx|[s' [[<-|Hs'] Hx]]]; eauto. }
  rewrite Hfold. split.
  - intros [[]|[s [Hs' Hx]]]. apply opred_in in Hs' as Hedge.
    apply (cl_sound (rev_edges es) _ s (Hcl s Hs')) in Hx. destruct Hx as [l [Hp _]].
    destruct (path_rev es s l p Hp) as [l' Hl']. exists s, l'. split; auto.
  - intros [s [l [Hp He]]]. right. exists s. split; [apply opred_in; exact He|].
    assert (Hs' : In s (opred es v)) by (apply opred_in; exact He).
    apply (cl_sound (rev_edges es) _ s (Hcl s Hs')).
    destruct (path_rev' es p l s Hp) as [l' Hl']. exists l'. split; auto. intros x _. reflexivity.
Qed.

(* ------------------------------------------------------------------ cycles *)
Lemma on_cycle_b_sound es a b : on_cycle_b es a = Some b -> (b = true <-> reach_plus es a a).
Proof.
  unfold on_cycle_b. destruct (forallb _ (osucc es a)) eqn:Hok; [|discriminate].
  intros [= <-]. rewrite forallb_forall in Hok. rewrite existsb_exists. unfold reach_plus. split.
  - intros [s [Hs Hm]]. apply memb_in in Hm. apply (cl_sound es _ s (Hok s Hs)) in Hm.
    destruct Hm as [l [Hp _]]. exists s, l. split; auto. apply osucc_in. exact Hs.
  - intros [c [l [He Hp]]]. apply osucc_in in He. exists c. split; auto. apply memb_in.
    apply (cl_sound es _ c (Hok c He)). exists l. split; auto. intros x _. reflexivity.
Qed.

Lemma has_cycle_b_sound es among : forall c, has_cycle_b es among = Some c ->
  (c = true <-> exists a, In a among /\ reach_plus es a a).
Proof.
  unfold has_cycle_b.
  assert (Hgen : forall l acc c,
            fold_left (fun acc a => match acc, on_cycle_b es a with
                                    | Some x, Some y => Some (x || y) | _, _ => None end) l acc = Some c ->
            exists c0, acc = Some c0 /\ (c = true <-> c0 = true \/ exists a, In a l /\ reach_plus es a a)).
  { induction l as [|a l IH]; intros acc c Hf; cbn [fold_left] in Hf.
    - exists c. split; auto. split; auto. intros [Hc|[a [[] _]]]. exact Hc.
    - destruct (IH _ _ Hf) as [c1 [Hacc Hiff]].
      destruct acc as [x|]; [|discriminate]. destruct (on_cycle_b es a) as [y|] eqn:Hy; [|discriminate].
      injection Hacc as <-. exists x. split; auto. rewrite Hiff, orb_true_iff.
      rewrite (on_cycle_b_sound es a y Hy). split.
      + intros [[Hx|Ha]|[a' [Ha' Hc']]]; auto; right; [exists a|exists a']; split; auto; [left|right]; auto.
      + intros [Hx|[a' [[<-|Ha'] Hc']]]; auto. right. exists a'. auto. }
  intros c Hf. destruct (Hgen _ _ _ Hf) as [c0 [[= <-] Hiff]]. rewrite Hiff. split.
  - intros [Hc|Hx]; [discriminate|exact Hx].
  - auto.
Qed.

(* [V] the oracle of is_acyclic: the answer computed from the definition is "a cycle is reachable from r" *)
Theorem acyclic_check_sound vs es r c : tab_ok vs es r = true ->
  has_cycle_b es (t_all (mk_tab vs es r)) = Some c -> (c = true <-> cyclic_from es r).
Proof.
  intros Hok Hc. rewrite (has_cycle_b_sound _ _ _ Hc). unfold cyclic_from. split.
  - intros [a [Ha Hcy]]. exists a. split; auto. apply (reach_b_spec vs es r Hok). apply memb_in. exact Ha.
  - intros [a [Ha Hcy]]. exists a. split; auto. apply (reach_b_spec vs es r Hok) in Ha. apply memb_in in Ha. exact Ha.
Qed.

(* ------------------------------------------------------------------ completeness of the topological-order validator
   (no false alarm): every topological order of (vs, es) is accepted *)
Lemma nodup_b_complete l : NoDup l -> nodup_b l = true.
Proof.
  induction 1 as [|a l Hn _ IH]; cbn; [reflexivity|].
  apply andb_true_iff. split; [apply negb_true_iff, memb_false; exact Hn|exact IH].
Qed.

Lemma pos_app_notin x l1 l2 : forall k, ~ In x l1 -> pos x (l1 ++ x :: l2) k = Some (k + N.of_nat (length l1)).
Proof.
  induction l1 as [|y l1 IH]; intros k Hn; cbn [app pos length].
  - rewrite N.eqb_refl. f_equal. cbn. lia.
  - destruct (N.eqb_spec x y) as [->|Hne]; [exfalso; apply Hn; left; reflexivity|].
    rewrite IH; [f_equal; lia|intros H; apply Hn; right; exact H].
Qed.

Lemma before_complete l1 a l2 b l3 :
  NoDup (l1 ++ a :: l2 ++ b :: l3) -> before (l1 ++ a :: l2 ++ b :: l3) a b = true.
Proof.
  intros Hn. unfold before.
  assert (E : l1 ++ a :: l2 ++ b :: l3 = (l1 ++ a :: l2) ++ b :: l3) by (rewrite <- app_assoc; reflexivity).
  assert (Ha : ~ In a l1).
  { pose proof (NoDup_remove_2 _ _ _ Hn) as H. intros Hi. apply H. apply in_or_app. left. exact Hi. }
  assert (Hb : ~ In b (l1 ++ a :: l2)).
  { rewrite E in Hn. pose proof (NoDup_remove_2 _ _ _ Hn) as H. intros Hi. apply H. apply in_or_app. left. exact Hi. }
  assert (Pb : pos b (l1 ++ a :: l2 ++ b :: l3) 0 = Some (0 + N.of_nat (length (l1 ++ a :: l2))))
    by (rewrite E; apply pos_app_notin; exact Hb).
  rewrite (pos_app_notin a l1 (l2 ++ b :: l3) 0 Ha), Pb.
  apply N.ltb_lt. rewrite app_length. cbn [length]. lia.
Qed.

Theorem topo_ok_complete vs es l : topo_order es vs l -> topo_ok vs es l = true.
Proof.
  unfold topo_ok, topo_order. intros [Hn [Hs Hf]]. rewrite !andb_true_iff. split; [split|].
  - apply seteq_b_spec. exact Hs.
  - apply nodup_b_complete. exact Hn.
  - apply forallb_forall. intros [a b] He. cbn [fst snd].
    destruct (Hf a b He) as (l1 & l2 & l3 & ->). apply before_complete. exact Hn.
Qed.
