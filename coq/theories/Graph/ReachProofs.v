(* Graph/ReachProofs.v -- [U] reachable_vertices (work-list with an explicit stack, fuel included) computes
   exactly the set of vertices reachable from the root, on every well-formed graph. *)
From Coq Require Import NArith List Bool Sorted Lia.
From Falcon Require Import Base.Res Graph.NMap Graph.NMapFacts Graph.Graph Graph.GraphInv Graph.Algo Graph.Spec.
Import ListNotations.

Lemma filter_length_le {A} (p q : A -> bool) l :
  (forall x, In x l -> p x = true -> q x = true) -> (length (filter p l) <= length (filter q l))%nat.
Proof.
  induction l as [|a l IH]; cbn; intros Hpq; auto.
  assert (IH' := IH (fun x Hx => Hpq x (or_intror Hx))).
  destruct (p a) eqn:Hp.
  - rewrite (Hpq a (or_introl eq_refl) Hp). cbn. lia.
  - destruct (q a); cbn; lia.
Qed.
Lemma filter_length_lt {A} (p q : A -> bool) l a :
  (forall x, In x l -> p x = true -> q x = true) -> In a l -> q a = true -> p a = false ->
  (length (filter p l) < length (filter q l))%nat.
Proof.
  induction l as [|b l IH]; cbn; intros Hpq Hin Hq Hp; [destruct Hin|].
  assert (Hle := filter_length_le p q l (fun x Hx => Hpq x (or_intror Hx))).
  destruct Hin as [->|Hin].
  - rewrite Hp, Hq. cbn. lia.
  - assert (IH' := IH (fun x Hx => Hpq x (or_intror Hx)) Hin Hq Hp).
    destruct (p b) eqn:Hpb.
    + rewrite (Hpq b (or_introl eq_refl) Hpb). cbn. lia.
    + destruct (q b); cbn; lia.
Qed.

Section Reach.
  Context {V E : Type} `{Vertex V} `{Edge E}.
  Variable g : graph V E.
  Hypothesis Hgi : graph_inv g.
  Let es := edge_keys g.
  Let VS := vertex_indices g.

  Definition unseen (seen : nset) : nat := length (filter (fun v => negb (ns_mem v seen)) VS).

  Lemma unseen_insert s seen : In s VS -> ~ In s seen -> (unseen (ns_insert s seen) < unseen seen)%nat.
  Proof.
    intros Hs Hn. unfold unseen. apply filter_length_lt with (a := s); auto.
    - intros x _. rewrite !negb_true_iff, !ns_mem_false, ns_insert_in. tauto.
    - apply negb_true_iff, ns_mem_false. exact Hn.
    - apply negb_false_iff, ns_mem_in, ns_insert_in. auto.
  Qed.

  Lemma push_fold ss : forall seen q,
    nsorted seen -> NoDup q -> (forall x, In x q -> In x seen) -> (forall x, In x ss -> In x VS) ->
    let a := fold_left push_new ss (seen, q) in
    nsorted (fst a) /\ NoDup (snd a) /\ (forall x, In x (snd a) -> In x (fst a)) /\
    (forall x, In x (fst a) <-> In x seen \/ In x ss) /\
    (forall x, In x (snd a) <-> In x q \/ (In x ss /\ ~ In x seen)) /\
    (length (snd a) + unseen (fst a) <= length q + unseen seen)%nat.
  Proof.
    induction ss as [|s ss IH]; intros seen q Hso Hnd Hsub Hvs; cbn [fold_left].
    - cbn. repeat split; auto; try tauto.
    - assert (Hp : push_new (seen, q) s = if ns_mem s seen then (seen, q) else (ns_insert s seen, s :: q)) by reflexivity.
      rewrite Hp. clear Hp. destruct (ns_mem s seen) eqn:Hm.
      + apply ns_mem_in in Hm.
        destruct (IH seen q Hso Hnd Hsub (fun x Hx => Hvs x (or_intror Hx))) as [H1 [H2 [H3 [H4 [H5 H6]]]]].
        split; [exact H1|]. split; [exact H2|]. split; [exact H3|]. split; [|split; [|exact H6]].
        * intros x. rewrite H4. cbn [In]. split; [tauto|]. intros [Hx|[Hx|Hx]]; subst; auto.
        * intros x. rewrite H5. cbn [In]. split; [tauto|]. intros [Hx|[[Hx|Hx] Hn]]; subst; auto. contradiction.
      + apply ns_mem_false in Hm.
        destruct (IH (ns_insert s seen) (s :: q)) as [H1 [H2 [H3 [H4 [H5 H6]]]]].
        * apply ns_insert_sorted; auto.
        * constructor; auto.
        * intros x [Hx|Hx]; apply ns_insert_in; subst; auto.
        * intros x Hx. apply Hvs. right; auto.
        * split; [exact H1|]. split; [exact H2|]. split; [exact H3|]. split; [|split].
          -- intros x. rewrite H4, ns_insert_in. cbn [In]. split; [intros [[Hx|Hx]|Hx]; subst; auto|intros [Hx|[Hx|Hx]]; subst; auto].
          -- intros x. rewrite H5, ns_insert_in. cbn [In]. split.
             ++ intros [[Hx|Hx]|[Hx Hn]]; subst; auto. right. split; auto.
             ++ intros [Hx|[[Hx|Hx] Hn]]; subst; auto.
                destruct (N.eq_dec x s) as [Heq|Hne]; subst; auto. right. split; auto. tauto.
          -- assert (Hlt := unseen_insert s seen (Hvs s (or_introl eq_refl)) Hm). cbn [length] in H6. unfold nset in *. lia.
  Qed.

  Variable r : N.
  Hypothesis Hr : has_vertex g r = true.

  Record rinv (q : list N) (seen : nset) : Prop := {
    ri_sorted : nsorted seen;
    ri_nodup : NoDup q;
    ri_sub : forall x, In x q -> In x seen;
    ri_reach : forall x, In x seen -> reach es r x /\ has_vertex g x = true;
    ri_closed : forall x, In x seen -> ~ In x q -> forall y, edge es x y -> In y seen;
    ri_root : In r seen }.

  Lemma edge_has a b : edge es a b <-> has_edge g a b = true.
  Proof. unfold edge, es. symmetry. apply has_edge_keys. Qed.

  Lemma reach_step x y : reach es r x -> edge es x y -> reach es r y.
  Proof.
    intros [l Hp] He. exists (l ++ [y]).
    clear -Hp He. induction Hp as [a|a b l c Hab Hp IH]; cbn.
    - apply path_cons with (1 := He). constructor.
    - apply path_cons with (1 := Hab). apply IH. exact He.
  Qed.

  Lemma closed_all seen : In r seen -> (forall x, In x seen -> forall y, edge es x y -> In y seen) ->
    forall v, reach es r v -> In v seen.
  Proof.
    intros Hroot Hcl v [l Hp].
    assert (Hgen : forall a l v, path es a l v -> In a seen -> In v seen).
    { clear -Hcl. intros a l v Hp. induction Hp as [a|a b l c Hab Hp IH]; intros Ha; auto.
      apply IH. eapply Hcl; eauto. }
    eapply Hgen; eauto.
  Qed.

  Lemma reach_loop_correct fuel : forall q seen,
    rinv q seen -> (length q + unseen seen < fuel)%nat ->
    exists s, reach_loop fuel g q seen = Ok s /\ nsorted s /\ forall v, In v s <-> reach es r v.
  Proof.
    induction fuel as [|f IH]; intros q seen Hinv Hm; [lia|].
    cbn [reach_loop]. destruct q as [|v q'].
    - exists seen. split; [reflexivity|]. split; [exact (ri_sorted _ _ Hinv)|]. intros x. split.
      + intros Hx. apply (proj1 (ri_reach _ _ Hinv x Hx)).
      + apply closed_all; [exact (ri_root _ _ Hinv)|]. intros a Ha b Hab. eapply (ri_closed _ _ Hinv); eauto.
    - assert (Hv : In v seen) by (apply (ri_sub _ _ Hinv); left; auto).
      destruct (ri_reach _ _ Hinv v Hv) as [Hrv Hhv].
      destruct (succs_of_spec g v Hgi Hhv) as [ss [Hss [Hsso Hssin]]].
      rewrite Hss. cbn [bind].
      pose proof (ri_nodup _ _ Hinv) as Hndvq. inversion Hndvq as [|? ? Hvq Hndq]; subst.
      assert (Hvs : forall x, In x ss -> In x VS).
      { intros x Hx. apply Hssin in Hx. apply (has_edge_vertices g v x Hgi) in Hx.
        apply has_vertex_keys. tauto. }
      destruct (push_fold ss seen q' (ri_sorted _ _ Hinv) Hndq
                  (fun x Hx => ri_sub _ _ Hinv x (or_intror Hx)) Hvs) as [H1 [H2 [H3 [H4 [H5 H6]]]]].
      apply IH.
      + constructor; auto.
        * intros x Hx. apply H4 in Hx. destruct Hx as [Hx|Hx]; [apply (ri_reach _ _ Hinv x Hx)|].
          split.
          -- eapply reach_step; eauto. apply edge_has, Hssin, Hx.
          -- apply Hssin in Hx. apply (has_edge_vertices g v x Hgi) in Hx. tauto.
        * intros x Hx Hnq y Hxy. apply H4.
          destruct (N.eq_dec x v) as [->|Hne].
          -- right. apply Hssin, edge_has, Hxy.
          -- apply H4 in Hx. destruct Hx as [Hx|Hx].
             ++ left. eapply (ri_closed _ _ Hinv x Hx); eauto.
                intros [Heq|Hq]; [congruence|]. apply Hnq, H5. auto.
             ++ destruct (in_dec N.eq_dec x seen) as [Hs|Hs].
                ** left. eapply (ri_closed _ _ Hinv x Hs); eauto.
                   intros [Heq|Hq]; [congruence|]. apply Hnq, H5. auto.
                ** exfalso. apply Hnq, H5. auto.
        * apply H4. left. exact (ri_root _ _ Hinv).
      + cbn [length] in Hm. unfold nset in *. lia.
  Qed.

  Lemma unseen_le seen : (unseen seen <= length VS)%nat.
  Proof. unfold unseen. induction VS as [|a l IH]; cbn; auto. destruct (negb (ns_mem a seen)); cbn; lia. Qed.

  Theorem reachable_vertices_correct :
    exists s, reachable_vertices g r = Ok s /\ nsorted s /\ forall v, In v s <-> reach es r v.
  Proof.
    unfold reachable_vertices. rewrite Hr. cbn [negb].
    apply reach_loop_correct.
    - constructor.
      + repeat constructor.
      + repeat constructor. intros [].
      + intros x Hx; exact Hx.
      + intros x [<-|[]]. split; auto. exists []. constructor.
      + intros x [<-|[]] Hn. exfalso. apply Hn. left; auto.
      + left; auto.
    - assert (Hu := unseen_le [r]). unfold fuel_e. cbn [length].
      unfold VS, vertex_indices in Hu. rewrite map_length in Hu. lia.
  Qed.
End Reach.

(* unreachable_vertices: the vertices of the graph that are not reachable *)
Theorem unreachable_vertices_correct {V E} `{Vertex V} `{Edge E} (g : graph V E) r :
  graph_inv g -> has_vertex g r = true ->
  exists s, unreachable_vertices g r = Ok s /\
            forall v, In v s <-> (has_vertex g v = true /\ ~ reach (edge_keys g) r v).
Proof.
  intros Hgi Hr. unfold unreachable_vertices.
  destruct (reachable_vertices_correct g Hgi r Hr) as [s [Hs [_ Hin]]]. rewrite Hs. cbn [bind].
  eexists; split; [reflexivity|]. intros v. rewrite filter_In, negb_true_iff, ns_mem_false, Hin.
  rewrite <- has_vertex_keys. tauto.
Qed.

Theorem reachable_vertices_missing_root {V E} `{Vertex V} `{Edge E} (g : graph V E) r :
  has_vertex g r = false -> reachable_vertices g r = Err EGraphVertex.
Proof. intros Hr. unfold reachable_vertices. rewrite Hr. reflexivity. Qed.

(* ------------------------------------------------------------------ remove_unreachable_vertices *)
Local Open Scope N_scope.
Section RemoveUnreachable.
  Context {V E : Type} `{Vertex V} `{Edge E}.

  Definition rm_step (acc : res (graph V E)) (v : N) : res (graph V E) :=
    g' <- acc ;; match remove_vertex g' v with Ok g'' => Ok g'' | _ => Panic end.

  Lemma fold_remove_vertices (us : list N) : forall g0 : graph V E,
    graph_inv g0 -> NoDup us -> (forall u, In u us -> has_vertex g0 u = true) ->
    exists g', fold_left rm_step us (Ok g0) = Ok g' /\ graph_inv g' /\
      (forall v, has_vertex g' v = has_vertex g0 v && negb (existsb (N.eqb v) us)) /\
      (forall h t, has_edge g' h t =
                   has_edge g0 h t && negb (existsb (N.eqb h) us) && negb (existsb (N.eqb t) us)).
  Proof.
    induction us as [|u us IH]; intros g0 Hgi Hnd Hall; cbn [fold_left].
    - exists g0. split; [reflexivity|]. split; [exact Hgi|]. split; intros; cbn [existsb negb]; rewrite ?andb_true_r; reflexivity.
    - inversion Hnd as [|? ? Hni Hnd']; subst.
      destruct (remove_vertex_inv g0 u Hgi (Hall u (or_introl eq_refl))) as [g1 [Hr [Hgi1 [Hv1 [_ He1]]]]].
      unfold rm_step at 2. cbn [bind]. rewrite Hr.
      assert (Hhv : forall v, has_vertex g1 v = negb (v =? u) && has_vertex g0 v).
      { intros v. unfold has_vertex. rewrite Hv1. apply nm_mem_remove. }
      destruct (IH g1 Hgi1 Hnd') as [g' [Hf [Hgi' [Hv' He']]]].
      { intros x Hx. rewrite Hhv, (Hall x (or_intror Hx)), andb_true_r. apply negb_true_iff, N.eqb_neq.
        intros ->. contradiction. }
      exists g'. split; [exact Hf|]. split; [exact Hgi'|]. split.
      + intros v. rewrite Hv', Hhv. cbn [existsb]. rewrite negb_orb.
        destruct (v =? u), (has_vertex g0 v), (existsb (N.eqb v) us); reflexivity.
      + intros h t. rewrite He'. unfold has_edge at 1. rewrite He1. fold (has_edge g0 h t). cbn [existsb].
        rewrite !negb_orb.
        destruct (h =? u), (t =? u), (has_edge g0 h t), (existsb (N.eqb h) us), (existsb (N.eqb t) us); reflexivity.
  Qed.

  (* [U] the result is a consistent graph whose vertices are exactly the reachable ones and whose edges
     are exactly the edges between reachable vertices *)
  Theorem remove_unreachable_correct (g : graph V E) r :
    graph_inv g -> has_vertex g r = true ->
    exists g', remove_unreachable_vertices g r = Ok g' /\ graph_inv g' /\
      (forall v, has_vertex g' v = true <-> (has_vertex g v = true /\ reach (edge_keys g) r v)) /\
      (forall h t, has_edge g' h t = true <->
                   (has_edge g h t = true /\ reach (edge_keys g) r h /\ reach (edge_keys g) r t)).
  Proof.
    intros Hgi Hr. unfold remove_unreachable_vertices.
    destruct (unreachable_vertices_correct g r Hgi Hr) as [us [Hus Hin]]. rewrite Hus. cbn [bind].
    assert (Hnd : NoDup us).
    { unfold unreachable_vertices in Hus.
      destruct (reachable_vertices g r) as [s| |]; try discriminate. cbn [bind] in Hus. injection Hus as <-.
      apply NoDup_filter. apply nsorted_nodup. apply Hgi. }
    destruct (fold_remove_vertices us g Hgi Hnd) as [g' [Hf [Hgi' [Hv He]]]].
    { intros u Hu. apply Hin in Hu. tauto. }
    exists g'. split; [exact Hf|]. split; [exact Hgi'|].
    assert (Hmem : forall v, existsb (N.eqb v) us = true <-> In v us).
    { intros v. rewrite existsb_exists. split.
      - intros [x [Hx Hq]]. apply N.eqb_eq in Hq. subst. exact Hx.
      - intros Hx. exists v. split; auto. apply N.eqb_refl. }
    assert (Hnot : forall v, has_vertex g v = true -> (negb (existsb (N.eqb v) us) = true <-> reach (edge_keys g) r v)).
    { intros v Hvv. rewrite negb_true_iff. split.
      - intros Hn. destruct (reachable_vertices_correct g Hgi r Hr) as [s [_ [_ Hs]]].
        destruct (in_dec N.eq_dec v s) as [Hvs|Hvs]; [apply Hs; exact Hvs|].
        exfalso. assert (Hvu : In v us) by (apply Hin; split; auto; intros Hre; apply Hvs, Hs, Hre).
        apply Hmem in Hvu. congruence.
      - intros Hre. destruct (existsb (N.eqb v) us) eqn:Hx; auto. apply Hmem, Hin in Hx. tauto. }
    split.
    - intros v. rewrite Hv, andb_true_iff. split.
      + intros [Hvv Hn]. split; auto. apply Hnot; auto.
      + intros [Hvv Hre]. split; auto. apply Hnot; auto.
    - intros h t. rewrite He, !andb_true_iff. split.
      + intros [[Hhe Hh] Ht]. destruct (has_edge_vertices g h t Hgi Hhe) as [Hvh Hvt].
        split; auto. split; apply Hnot; auto.
      + intros [Hhe [Hh Ht]]. destruct (has_edge_vertices g h t Hgi Hhe) as [Hvh Hvt].
        split; [split; auto|]; apply Hnot; auto.
  Qed.
End RemoveUnreachable.
