(* Graph/SemiNca3.v -- [F] Semi-NCA (the model of compute_immediate_dominators) is correct on EVERY
   digraph with at most 3 vertices {0..n-1}, for every root: its result passes the verified validator
   idom_check, hence is exactly the textbook immediate-dominator relation.  By computation. *)
From Coq Require Import NArith List Bool Lia.
From Falcon Require Import Base.Res Graph.NMap Graph.Graph Graph.Algo Graph.Spec Graph.Oracle Graph.OracleProofs Graph.C11Check.
Import ListNotations.
Local Open Scope N_scope.

Definition range (n : N) : list N := map N.of_nat (seq 0 (N.to_nat n)).
(* the digraph on {0..n-1} whose edge a->b is bit a*n+b of the mask *)
Definition edges_of (n mask : N) : list (N * N) :=
  filter (fun e => N.testbit mask (fst e * n + snd e)) (list_prod (range n) (range n)).

Definition snca_ok (n mask root : N) : bool :=
  match build (range n) (edges_of n mask) with
  | Ok g => match compute_immediate_dominators g root with
            | Ok m => idom_check (range n) (edges_of n mask) root m
            | _ => false
            end
  | _ => false
  end.

Definition check_n (n : N) : bool :=
  forallb (fun mask => forallb (fun root => snca_ok n mask root) (range n)) (range (2 ^ (n * n))).

Lemma range_in n x : In x (range n) <-> x < n.
Proof.
  unfold range. rewrite in_map_iff. split.
  - intros [k [<- Hk]]. apply in_seq in Hk. lia.
  - intros Hx. exists (N.to_nat x). split; [apply N2Nat.id|]. apply in_seq. lia.
Qed.

Lemma check_n_spec n : check_n n = true ->
  forall mask root, mask < 2 ^ (n * n) -> root < n -> snca_ok n mask root = true.
Proof.
  unfold check_n. rewrite forallb_forall. intros Hc mask root Hm Hr.
  specialize (Hc mask (proj2 (range_in _ _) Hm)). rewrite forallb_forall in Hc.
  apply Hc. apply range_in. exact Hr.
Qed.

Lemma check_0 : check_n 0 = true. Proof. vm_compute. reflexivity. Qed.
Lemma check_1 : check_n 1 = true. Proof. vm_compute. reflexivity. Qed.
Lemma check_2 : check_n 2 = true. Proof. vm_compute. reflexivity. Qed.
Lemma check_3 : check_n 3 = true. Proof. vm_compute. reflexivity. Qed.

Theorem semi_nca_correct_le_3 : forall n mask root,
  n <= 3 -> mask < 2 ^ (n * n) -> root < n ->
  exists g m, build (range n) (edges_of n mask) = Ok g /\
              compute_immediate_dominators g root = Ok m /\
              forall v d, alook m v = Some d <-> idom (edges_of n mask) root d v.
Proof.
  intros n mask root Hn Hm Hr.
  assert (Hc : check_n n = true).
  { assert (Hcases : n = 0 \/ n = 1 \/ n = 2 \/ n = 3) by lia.
    destruct Hcases as [->|[->|[->| ->]]]; [apply check_0|apply check_1|apply check_2|apply check_3]. }
  pose proof (check_n_spec n Hc mask root Hm Hr) as Hok. unfold snca_ok in Hok.
  destruct (build (range n) (edges_of n mask)) as [g| |]; try discriminate.
  destruct (compute_immediate_dominators g root) as [m| |] eqn:Hi; try discriminate.
  exists g, m. split; [reflexivity|]. split; [exact Hi|].
  apply idom_check_sound with (vs := range n). exact Hok.
Qed.
