(* Graph/IdomExists.v -- [U] every vertex that is reachable from the root and is not the root has exactly one
   immediate dominator (the dominator tree exists): the strict dominators of a vertex are totally ordered by
   dominance, and the one closest to the vertex is dominated by all the others. *)
From Coq Require Import NArith List Bool Lia.
From Falcon Require Import Graph.Spec Graph.Oracle Graph.OracleProofs Graph.DomTheory Graph.ClosureTotal.
Import ListNotations.
Local Open Scope N_scope.

Section Exists.
  Variable es : list (N * N).
  Variable r : N.

  (* split a walk at the LAST vertex satisfying p *)
  Lemma path_last_split (p : N -> bool) a l b : path es a l b -> existsb p (a :: l) = true ->
    exists x l1 l2, p x = true /\ l = l1 ++ l2 /\ path es a l1 x /\ path es x l2 b /\ forall y, In y l2 -> p y = false.
  Proof.
    induction 1 as [a|a c l b He Hp IH]; intros Hex.
    - cbn in Hex. rewrite orb_false_r in Hex. exists a, [], []. repeat split; auto; try constructor. intros y [].
    - destruct (existsb p (c :: l)) eqn:Hc.
      + destruct (IH eq_refl) as [x [l1 [l2 [Hx [-> [H1 [H2 Hall]]]]]]].
        exists x, (c :: l1), l2. repeat split; auto. apply path_cons with (1 := He). exact H1.
      + assert (Hpa : p a = true).
        { change (existsb p (a :: c :: l)) with (p a || existsb p (c :: l)) in Hex. rewrite Hc, orb_false_r in Hex. exact Hex. }
        exists a, [], (c :: l). repeat split; auto; [constructor|apply path_cons with (1 := He); exact Hp|].
        intros y Hy. destruct (p y) eqn:Hpy; auto. exfalso.
        assert (Ht : existsb p (c :: l) = true) by (apply existsb_exists; exists y; auto). congruence.
  Qed.

  (* the strict dominators of a vertex form a chain *)
  Lemma sdom_total a b v : sdom es r a v -> sdom es r b v -> dom es r a b \/ dom es r b a.
  Proof.
    intros [Hav Hane] [Hbv Hbne].
    destruct (dom_dec es r a b) as [|Hnab]; auto. destruct (dom_dec es r b a) as [|Hnba]; auto. exfalso.
    pose proof (dom_reach_dominator es r a v Hav) as Hra. pose proof (dom_reach_dominator es r b v Hbv) as Hrb.
    destruct (not_dom_path es r a b Hrb Hnab) as [Q [HQ HQa]].
    destruct (not_dom_path es r b a Hra Hnba) as [R [HR HRb]].
    destruct Hav as [[P HP] Hav]. destruct Hbv as [_ Hbv].
    set (p := fun x => (x =? a) || (x =? b)).
    assert (Hex : existsb p (r :: P) = true).
    { apply existsb_exists. exists a. split; [apply Hav; exact HP|]. unfold p. rewrite N.eqb_refl. reflexivity. }
    destruct (path_last_split p r P v HP Hex) as [x [l1 [l2 [Hx [-> [H1 [H2 Hall]]]]]]].
    assert (Hl2 : ~ In a l2 /\ ~ In b l2).
    { split; intros Hin; specialize (Hall _ Hin); unfold p in Hall; rewrite N.eqb_refl in Hall;
        [discriminate|rewrite orb_true_r in Hall; discriminate]. }
    unfold p in Hx. apply orb_true_iff in Hx. destruct Hx as [Hx|Hx]; apply N.eqb_eq in Hx; subst x.
    - (* the last of a, b on P is a: R followed by the rest of P avoids b *)
      specialize (Hbv (R ++ l2) (path_app es r R a l2 v HR H2)).
      change (r :: R ++ l2) with ((r :: R) ++ l2) in Hbv. apply in_app_or in Hbv. tauto.
    - specialize (Hav (Q ++ l2) (path_app es r Q b l2 v HQ H2)).
      change (r :: Q ++ l2) with ((r :: Q) ++ l2) in Hav. apply in_app_or in Hav. tauto.
  Qed.

  Lemma pick_closest v (L : list N) : forall best, sdom es r best v ->
    exists i, sdom es r i v /\ dom es r best i /\ forall e, In e L -> sdom es r e v -> dom es r e i.
  Proof.
    induction L as [|e L IH]; intros best Hb.
    - exists best. split; auto. split; [|intros e []].
      apply dom_refl. eapply dom_reach_dominator. apply Hb.
    - destruct (sdom_dec es r e v) as [He|Hne].
      + destruct (sdom_total best e v Hb He) as [Hbe|Heb].
        * destruct (IH e He) as [i [Hi [Hei Hall]]]. exists i. split; auto. split; [eapply dom_trans; eauto|].
          intros e' [<-|Hin] Hs; auto.
        * destruct (IH best Hb) as [i [Hi [Hbi Hall]]]. exists i. split; auto. split; auto.
          intros e' [<-|Hin] Hs; auto. eapply dom_trans; eauto.
      + destruct (IH best Hb) as [i [Hi [Hbi Hall]]]. exists i. split; auto. split; auto.
        intros e' [<-|Hin] Hs; auto. contradiction.
  Qed.

  (* [U] existence *)
  Theorem idom_exists v : reach es r v -> v <> r -> exists i, idom es r i v.
  Proof.
    intros Hrv Hne. destruct Hrv as [P HP].
    assert (Hr : sdom es r r v).
    { split; [apply dom_root_all; exists P; exact HP|auto]. }
    destruct (pick_closest v (r :: P) r Hr) as [i [Hi [_ Hall]]].
    exists i. split; auto. intros e He. apply Hall; auto. destruct He as [[_ Hd] _]. apply Hd. exact HP.
  Qed.

  (* [U] uniqueness *)
  Theorem idom_unique i j v : idom es r i v -> idom es r j v -> i = j.
  Proof.
    intros [Hi Hai] [Hj Haj]. apply (dom_antisym es r); auto.
  Qed.
End Exists.
