(* Graph/PathLemma.v -- [U] the path lemma of Lengauer-Tarjan (Lemma 1) for depth-first pre-orders in the relational
   sense of Graph/SpecDfs.v: if v is listed no later than w, every walk from v to w passes through a common
   ancestor of v and w in the DFS forest (z is an ancestor of x when x lies in the segment explored from z).
   Ingredients: determinism of the exploration given the list (prefix uniqueness), nesting of segments. *)
From Coq Require Import NArith List Bool Lia PeanoNat.
From Falcon Require Import Graph.GraphInv Graph.Spec Graph.SpecDfs Graph.Oracle Graph.OracleProofs Graph.OracleDfsProofs
  Graph.DfsFacts Graph.AcyclicGraphModel.
Import ListNotations.
Local Open Scope N_scope.

Lemma idx_app_in x l1 rest : In x l1 -> idx x (l1 ++ rest) = idx x l1.
Proof.
  induction l1 as [|y l1 IH]; intros Hin; [destruct Hin|]. cbn [app idx].
  destruct (N.eqb_spec x y); auto. destruct Hin as [|Hin]; [congruence|]. rewrite IH; auto.
Qed.
Lemma idx_app_notin x l1 rest : ~ In x l1 -> idx x (l1 ++ rest) = (length l1 + idx x rest)%nat.
Proof.
  induction l1 as [|y l1 IH]; intros Hn; cbn [app idx length]; auto.
  destruct (N.eqb_spec x y) as [->|]; [exfalso; apply Hn; left; auto|]. rewrite IH; auto. intros Hx. apply Hn. right. exact Hx.
Qed.
Lemma idx_lt x l : In x l <-> (idx x l < length l)%nat.
Proof.
  induction l as [|y l IH]; cbn [idx length In]; [split; [tauto|lia]|].
  destruct (N.eqb_spec x y) as [->|Hne]; [split; [lia|auto]|]. split.
  - intros [Hq|Hin]; [congruence|]. apply IH in Hin. lia.
  - intros Hlt. right. apply IH. lia.
Qed.

Lemma nodup_app_disj (a b : list N) x : NoDup (a ++ b) -> In x a -> In x b -> False.
Proof.
  induction a as [|y a IH]; intros Hn Ha Hb; [destruct Ha|]. cbn [app] in Hn. inversion Hn as [|? ? Hni Hn']; subst.
  destruct Ha as [->|Ha]; [apply Hni; apply in_or_app; auto|eauto].
Qed.

(* membership in a contiguous segment of a duplicate-free list, by position *)
Lemma seg_pos (l1 s l3 : list N) x : NoDup (l1 ++ s ++ l3) ->
  (In x s <-> (length l1 <= idx x (l1 ++ s ++ l3) < length l1 + length s)%nat).
Proof.
  intros Hnd. destruct (in_dec N.eq_dec x l1) as [H1|H1].
  - pose proof (idx_lt_in x l1 (s ++ l3) H1). split; [|lia]. intros Hs. exfalso.
    apply (nodup_app_disj l1 (s ++ l3) x Hnd H1). apply in_or_app. auto.
  - rewrite (idx_app_notin x l1 (s ++ l3) H1). split.
    + intros Hs. rewrite (idx_app_in x s l3 Hs). apply idx_lt in Hs. lia.
    + intros Hb. destruct (in_dec N.eq_dec x s) as [|H2]; auto. exfalso.
      rewrite (idx_app_notin x s l3 H2) in Hb. lia.
Qed.

Section PathLemma.
  Variable es : list (N * N).

  (* the exploration is determined by the list: two explorations from the same state that are prefixes of the same
     list coincide *)
  Lemma prefix_unique :
    (forall vis v s1, dfs_pre es vis v s1 -> forall vis' s2 t1 t2, (forall x, In x vis <-> In x vis') ->
       dfs_pre es vis' v s2 -> s1 ++ t1 = s2 ++ t2 -> s1 = s2) /\
    (forall vis u k1, dfs_kids es vis u k1 -> forall vis' k2 t1 t2, (forall x, In x vis <-> In x vis') ->
       dfs_kids es vis' u k2 -> k1 ++ t1 = k2 ++ t2 -> k1 = k2).
  Proof.
    apply (dfs_mutind es).
    - intros vis v seg Hn Hk IH vis' s2 t1 t2 He H2 Heq. inversion H2 as [? ? seg' Hn' Hk']; subst.
      cbn [app] in Heq. injection Heq as Heq. f_equal. apply (IH (v :: vis') seg' t1 t2); auto.
      intros x. cbn [In]. rewrite He. tauto.
    - intros vis u Hall vis' k2 t1 t2 He H2 _. inversion H2 as [|? ? w l1 l2 Hw Hnw _ _]; subst; auto.
      exfalso. apply Hnw, He, Hall, Hw.
    - intros vis u w l1 l2 Hw Hnw Hp IH1 Hk IH2 vis' k2 t1 t2 He H2 Heq.
      inversion H2 as [? ? Hall|? ? w' l1' l2' Hw' Hnw' Hp' Hk']; subst.
      + exfalso. apply Hnw, He, Hall, Hw.
      + destruct (pre_head es _ _ _ Hp) as [a [-> _]]. destruct (pre_head es _ _ _ Hp') as [a' [-> _]].
        assert (w = w') by (cbn [app] in Heq; congruence). subst w'.
        rewrite <- !app_assoc in Heq.
        assert (Hl1 : w :: a = w :: a') by (eapply IH1; eauto). rewrite Hl1 in *.
        apply app_inv_head in Heq. f_equal. eapply IH2; eauto.
        intros x. rewrite !in_app_iff, He. tauto.
  Qed.

  Variable r : N.
  Variable l : list N.
  Hypothesis Hdfs : is_dfs_pre_order es r l.

  Lemma l_nodup : NoDup l.
  Proof. apply (proj1 (dfs_nodup es) _ _ _ Hdfs). Qed.

  (* x lies in the segment explored from z *)
  Definition anc (z x : N) : Prop :=
    exists l1 sz l3, l = l1 ++ sz ++ l3 /\ dfs_pre es l1 z sz /\ In x sz.

  Lemma anc_self x : In x l -> anc x x.
  Proof.
    intros Hx. destruct (proj1 (sub_exploration es) _ _ _ Hdfs x Hx) as [l1 [sx [l3 [Heq Hp]]]].
    rewrite app_nil_r in Hp. exists l1, sx, l3. split; auto. split; auto.
    destruct (pre_head es _ _ _ Hp) as [t [-> _]]. left. reflexivity.
  Qed.

  Lemma anc_pos z x l1 sz l3 : l = l1 ++ sz ++ l3 -> dfs_pre es l1 z sz ->
    idx z l = length l1 /\ (In x sz <-> (length l1 <= idx x l < length l1 + length sz)%nat).
  Proof.
    intros Heq Hp. pose proof l_nodup as Hnd. rewrite Heq in Hnd |- *. split; [|apply seg_pos; exact Hnd].
    destruct (pre_head es _ _ _ Hp) as [t [-> Hnz]]. cbn [app]. apply idx_split. exact Hnz.
  Qed.

  (* nesting: the segment of a vertex of the segment of v lies inside the segment of v *)
  Lemma anc_nested v z y : anc v z -> anc z y -> anc v y.
  Proof.
    intros [l1 [sv [l3 [Heq [Hpv Hz]]]]] [l1' [sz [l3' [Heq' [Hpz Hy]]]]].
    exists l1, sv, l3. split; auto. split; auto.
    destruct (proj1 (sub_exploration es) _ _ _ Hpv z Hz) as [a [s'' [b [Hsv Hp'']]]].
    destruct (pre_head es _ _ _ Hp'') as [t'' [Hs'' _]]. destruct (pre_head es _ _ _ Hpz) as [tz [Hsz _]].
    assert (Hl : l = (l1 ++ a) ++ z :: (t'' ++ b ++ l3)).
    { rewrite Heq, Hsv, Hs''. rewrite <- !app_assoc. cbn [app]. reflexivity. }
    assert (Hl' : l = l1' ++ z :: (tz ++ l3')) by (rewrite Heq', Hsz; reflexivity).
    assert (Hpre : l1 ++ a = l1').
    { apply (nodup_split_unique (l1 ++ a) l1' (t'' ++ b ++ l3) (tz ++ l3') z); [rewrite <- Hl; apply l_nodup|congruence]. }
    assert (Hrest : s'' ++ (b ++ l3) = sz ++ l3').
    { rewrite Hs'', Hsz. cbn [app]. f_equal. rewrite Hl in Hl'. rewrite Hpre in Hl'. apply app_inv_head in Hl'. congruence. }
    assert (Hsame : s'' = sz).
    { eapply (proj1 prefix_unique); eauto. intros x. rewrite <- Hpre, !in_app_iff. tauto. }
    rewrite Hsv. apply in_or_app. right. apply in_or_app. left. rewrite Hsame. exact Hy.
  Qed.

  (* [U] the path lemma *)
  Theorem path_lemma : forall v p w, path es v p w -> In v l -> (idx v l <= idx w l)%nat ->
    exists z, In z (v :: p) /\ anc z v /\ anc z w.
  Proof.
    intros v p w Hp. induction Hp as [v|v c rest w Hvc Hp IH]; intros Hv Hle.
    - exists v. split; [left; auto|]. split; apply anc_self; exact Hv.
    - destruct (dfs_edge_lemma es r l Hdfs v c Hv Hvc) as [l1 [sv [l3 [Heq [Hpv Hc]]]]].
      assert (Hwl : forall y, In y (l1 ++ sv) -> In y l) by (intros y Hy; rewrite Heq, app_assoc; apply in_or_app; auto).
      assert (Hcl : In c l) by (apply Hwl; apply in_or_app; tauto).
      destruct (anc_pos v w l1 sv l3 Heq Hpv) as [Hiv Hsegw].
      destruct (anc_pos v c l1 sv l3 Heq Hpv) as [_ Hsegc].
      destruct (anc_pos v v l1 sv l3 Heq Hpv) as [_ Hsegv].
      assert (Hvv : In v sv) by (destruct (pre_head es _ _ _ Hpv) as [t [-> _]]; left; auto).
      destruct (in_dec N.eq_dec w sv) as [Hw|Hw].
      + exists v. split; [left; auto|]. split; exists l1, sv, l3; auto.
      + assert (Hwfar : (length l1 + length sv <= idx w l)%nat) by (rewrite Hsegw in Hw; lia).
        assert (Hcw : (idx c l <= idx w l)%nat).
        { destruct Hc as [Hc|Hc]; [|apply Hsegc in Hc; lia].
          pose proof (idx_lt_in c l1 (sv ++ l3) Hc) as Hlt. rewrite <- Heq in Hlt. lia. }
        destruct (IH Hcl Hcw) as [z [Hz [Hzc Hzw]]].
        exists z. split; [right; exact Hz|]. split; [|exact Hzw].
        destruct Hzw as [m1 [sz [m3 [Heqz [Hpz Hwz]]]]].
        destruct (anc_pos z w m1 sz m3 Heqz Hpz) as [Hiz Hzsegw].
        destruct (anc_pos z v m1 sz m3 Heqz Hpz) as [_ Hzsegv].
        destruct (anc_pos z c m1 sz m3 Heqz Hpz) as [_ Hzsegc].
        assert (Hcz : In c sz).
        { destruct Hzc as [n1 [sz' [n3 [Heqz' [Hpz' Hcz']]]]].
          destruct (pre_head es _ _ _ Hpz) as [tz [Hsz _]]. destruct (pre_head es _ _ _ Hpz') as [tz' [Hsz' _]].
          assert (Hn : m1 = n1).
          { apply (nodup_split_unique m1 n1 (tz ++ m3) (tz' ++ n3) z); [|rewrite Hsz in Heqz; rewrite Hsz' in Heqz'; cbn [app] in *; congruence].
            rewrite Hsz in Heqz. cbn [app] in Heqz. rewrite <- Heqz. apply l_nodup. }
          subst n1. assert (Hsame : sz = sz').
          { eapply (proj1 prefix_unique); [exact Hpz| |exact Hpz'|]; [tauto|]. rewrite Heqz in Heqz'. apply app_inv_head in Heqz'. exact Heqz'. }
          rewrite Hsame. exact Hcz'. }
        exists m1, sz, m3. split; auto. split; auto. apply Hzsegv.
        apply Hzsegw in Hwz. apply Hzsegc in Hcz.
        destruct Hc as [Hc|Hc].
        * pose proof (idx_lt_in c l1 (sv ++ l3) Hc) as Hlt. rewrite <- Heq in Hlt. lia.
        * apply Hsegc in Hc. destruct (Nat.le_gt_cases (length m1) (idx v l)) as [|Hgt]; [lia|]. exfalso.
          (* z lies strictly inside the segment of v: its own segment is nested there, but contains w *)
          assert (Hzin : In z sv).
          { apply (proj2 (anc_pos v z l1 sv l3 Heq Hpv)). rewrite Hiz. lia. }
          apply Hw. assert (Ha : anc v w).
          { apply (anc_nested v z w); [exists l1, sv, l3; auto|exists m1, sz, m3; split; auto; split; auto; apply Hzsegw; exact Hwz]. }
          destruct Ha as [k1 [sv' [k3 [Heqv [Hpv' Hwv']]]]].
          destruct (pre_head es _ _ _ Hpv) as [tv [Hsv _]]. destruct (pre_head es _ _ _ Hpv') as [tv' [Hsv' _]].
          assert (Hk : l1 = k1).
          { apply (nodup_split_unique l1 k1 (tv ++ l3) (tv' ++ k3) v); [|rewrite Hsv in Heq; rewrite Hsv' in Heqv; cbn [app] in *; congruence].
            rewrite Hsv in Heq. cbn [app] in Heq. rewrite <- Heq. apply l_nodup. }
          subst k1. assert (Hsame : sv = sv').
          { eapply (proj1 prefix_unique); [exact Hpv| |exact Hpv'|]; [tauto|]. rewrite Heq in Heqv. apply app_inv_head in Heqv. exact Heqv. }
          rewrite Hsame. exact Hwv'.
  Qed.
End PathLemma.
