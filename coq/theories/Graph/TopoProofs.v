(* Graph/TopoProofs.v -- [U] compute_topological_ordering (recursive DFS with temporary / permanent marks, fuel
   included): on every consistent graph it returns either Ok l with l a topological order of all vertices, or
   Err (Custom "Graph contains a loop") and the graph has a cycle; and it returns Err exactly when there is a cycle. *)
From Coq Require Import NArith List Bool Lia.
From Falcon Require Import Base.Res Graph.NMap Graph.NMapFacts Graph.Graph Graph.GraphInv Graph.Algo Graph.Spec
  Graph.ReachProofs Graph.Oracle Graph.OracleProofs.
Import ListNotations.

Lemma fold_bind_err {A B} (f : A -> B -> res A) e l :
  fold_left (fun acc b => a <- acc ;; f a b) l (Err e) = Err e.
Proof. induction l; cbn; auto. Qed.

Section Topo.
  Context {V E : Type} `{Vertex V} `{Edge E}.
  Variable g : graph V E.
  Hypothesis Hgi : graph_inv g.
  Let es := edge_keys g.
  Let VS := vertex_indices g.

  Definition cntT (T : nset) : nat := length (filter (fun v => negb (ns_mem v T)) VS).
  Lemma cntT_ext T1 T2 : (forall x, In x T1 <-> In x T2) -> cntT T1 = cntT T2.
  Proof.
    intros He. unfold cntT. f_equal. apply filter_ext. intros v. f_equal.
    destruct (ns_mem v T1) eqn:H1; destruct (ns_mem v T2) eqn:H2; auto.
    - apply ns_mem_in, He, ns_mem_in in H1. congruence.
    - apply ns_mem_in, He, ns_mem_in in H2. congruence.
  Qed.
  Lemma cntT_insert v T : In v VS -> ~ In v T -> (cntT (ns_insert v T) < cntT T)%nat.
  Proof.
    intros Hv Hn. unfold cntT. apply filter_length_lt with (a := v); auto.
    - intros x _. rewrite !negb_true_iff, !ns_mem_false, ns_insert_in. tauto.
    - apply negb_true_iff, ns_mem_false. exact Hn.
    - apply negb_false_iff, ns_mem_in, ns_insert_in. auto.
  Qed.
  Lemma cntT_le T : (cntT T <= length VS)%nat.
  Proof. unfold cntT. induction VS as [|a l IH]; cbn; auto. destruct (negb (ns_mem a T)); cbn; lia. Qed.

  Lemma edge_has'' a b : edge es a b <-> has_edge g a b = true.
  Proof. unfold edge, es. symmetry. apply has_edge_keys. Qed.

  Record TI (st : topo_state) : Prop := {
    ti_po : forall x, In x (tp_perm st) <-> In x (tp_order st);
    ti_nd : NoDup (tp_order st);
    ti_closed : forall x y, In x (tp_perm st) -> edge es x y -> In y (tp_perm st);
    ti_ord : forall l1 x l2, tp_order st = l1 ++ x :: l2 -> forall y, edge es x y -> In y l2;
    ti_vp : forall x, In x (tp_perm st) -> has_vertex g x = true;
    ti_vt : forall x, In x (tp_temp st) -> has_vertex g x = true;
    ti_disj : forall x, In x (tp_perm st) -> In x (tp_temp st) -> False;
    ti_acyc : forall x, In x (tp_perm st) -> ~ reach_plus es x x }.

  Lemma closed_stay st : TI st -> forall a l b, path es a l b -> In a (tp_perm st) -> In b (tp_perm st).
  Proof.
    intros Hti a l b Hp. induction Hp as [a|a c l b He Hp IH]; intros Ha; auto.
    apply IH. eapply ti_closed; eauto.
  Qed.

  Definition good (T0 P0 : nset) (req : list N) (r : res topo_state) : Prop :=
    (exists st', r = Ok st' /\ TI st' /\ (forall x, In x (tp_temp st') <-> In x T0) /\
                 (forall x, In x P0 -> In x (tp_perm st')) /\ (forall s, In s req -> In s (tp_perm st')))
    \/ (r = Err ECustom /\ has_cycle es).

  Definition WL (f : nat) : Prop := forall node st,
    TI st -> has_vertex g node = true -> (forall t, In t (tp_temp st) -> reach_plus es t node) ->
    (cntT (tp_temp st) < f)%nat -> good (tp_temp st) (tp_perm st) [node] (topo_walk f g node st).

  Lemma FL f : WL f -> forall ss T0,
    (forall s, In s ss -> has_vertex g s = true /\ forall t, In t T0 -> reach_plus es t s) ->
    (cntT T0 < f)%nat ->
    forall st, TI st -> (forall x, In x (tp_temp st) <-> In x T0) ->
    good T0 (tp_perm st) ss (fold_left (fun acc s => a <- acc ;; topo_walk f g s a) ss (Ok st)).
  Proof.
    intros Hwl ss T0. induction ss as [|s ss IH]; intros Hss Hc st Hti HT; cbn [fold_left].
    - left. exists st. split; [reflexivity|]. split; [exact Hti|]. split; [exact HT|]. split; [auto|intros s []].
    - cbn [bind]. destruct (Hss s (or_introl eq_refl)) as [Hvs Hts].
      destruct (Hwl s st Hti Hvs) as [[st1 [Hr [Hti1 [HT1 [HP1 Hreq1]]]]]|[Hr Hcyc]].
      + intros t Ht. apply Hts, HT, Ht.
      + rewrite (cntT_ext _ T0 HT). exact Hc.
      + rewrite Hr.
        destruct (IH (fun s' Hs' => Hss s' (or_intror Hs')) Hc st1 Hti1) as [[st2 [Hr2 [Hti2 [HT2 [HP2 Hreq2]]]]]|[Hr2 Hcyc]].
        * intros x. rewrite HT1. apply HT.
        * left. exists st2. split; [exact Hr2|]. split; [exact Hti2|]. split; [exact HT2|]. split.
          -- intros x Hx. apply HP2, HP1, Hx.
          -- intros s' [<-|Hs']; [apply HP2, Hreq1; left; auto|apply Hreq2; exact Hs'].
        * right. auto.
      + right. rewrite Hr, fold_bind_err. auto.
  Qed.

  Lemma WL_all f : WL f.
  Proof.
    induction f as [|f IH]; intros node st Hti Hv Hanc Hc; [lia|]. cbn [topo_walk].
    destruct (ns_mem node (tp_perm st)) eqn:Hp.
    - apply ns_mem_in in Hp. left. exists st. split; [reflexivity|]. split; [exact Hti|]. split; [tauto|]. split; [auto|].
      intros s [<-|[]]. exact Hp.
    - apply ns_mem_false in Hp. destruct (ns_mem node (tp_temp st)) eqn:Ht.
      + apply ns_mem_in in Ht. right. split; auto. exists node. apply Hanc. exact Ht.
      + apply ns_mem_false in Ht.
        destruct (succs_of_spec g node Hgi Hv) as [ss [Hss [_ Hssin]]]. rewrite Hss. cbn [bind].
        set (st1 := mkTopo (tp_perm st) (ns_insert node (tp_temp st)) (tp_order st)).
        assert (Hti1 : TI st1).
        { destruct Hti. constructor; cbn; auto.
          - intros x Hx. apply ns_insert_in in Hx. destruct Hx as [->|Hx]; auto.
          - intros x Hx Hx'. apply ns_insert_in in Hx'. destruct Hx' as [->|Hx']; eauto. }
        assert (HnodeVS : In node VS) by (apply has_vertex_keys; exact Hv).
        destruct (FL f IH ss (ns_insert node (tp_temp st))) with (st := st1) as [[st' [Hr [Hti' [HT' [HP' Hreq']]]]]|[Hr Hcyc]]; auto.
        * intros s Hs. apply Hssin in Hs. split; [apply (has_edge_vertices g node s Hgi Hs)|].
          apply edge_has'' in Hs. intros t Htt. apply ns_insert_in in Htt. destruct Htt as [->|Htt].
          -- exists s, []. split; auto. constructor.
          -- destruct (Hanc t Htt) as [c [l [He Hpth]]]. exists c, (l ++ [s]). split; auto.
             eapply path_snoc; eauto.
        * pose proof (cntT_insert node (tp_temp st) HnodeVS Ht). lia.
        * cbn. tauto.
        * rewrite Hr. left. eexists. split; [reflexivity|].
          assert (Hnp : ~ In node (tp_perm st')).
          { intros Hx. apply (ti_disj st' Hti' node Hx). apply HT'. apply ns_insert_in. auto. }
          assert (Hsucc : forall y, edge es node y -> In y (tp_perm st')).
          { intros y Hy. apply Hreq', Hssin, edge_has''. exact Hy. }
          split; [|split; [|split]].
          -- constructor; cbn.
             ++ intros x. rewrite ns_insert_in, (ti_po st' Hti' x). split; intros [Hx|Hx]; subst; auto.
             ++ constructor; [|apply Hti']. intros Hx. apply Hnp. apply (ti_po st' Hti'). exact Hx.
             ++ intros x y Hx Hxy. apply ns_insert_in. right. apply ns_insert_in in Hx. destruct Hx as [->|Hx]; auto.
                eapply ti_closed; eauto.
             ++ intros l1 x l2 Heq y Hxy. destruct l1 as [|a l1]; cbn in Heq.
                ** injection Heq as <- <-. apply (ti_po st' Hti'), Hsucc, Hxy.
                ** injection Heq as _ Heq. eapply (ti_ord st' Hti'); eauto.
             ++ intros x Hx. apply ns_insert_in in Hx. destruct Hx as [->|Hx]; auto. apply (ti_vp st' Hti' x Hx).
             ++ intros x Hx. apply ns_remove_in in Hx. apply (ti_vt st' Hti' x), Hx.
             ++ intros x Hx Hx'. apply ns_remove_in in Hx'. destruct Hx' as [Hne Hx'].
                apply ns_insert_in in Hx. destruct Hx as [->|Hx]; [congruence|]. eapply (ti_disj st' Hti'); eauto.
             ++ intros x Hx Hcy. apply ns_insert_in in Hx. destruct Hx as [->|Hx]; [|eapply (ti_acyc st' Hti'); eauto].
                destruct Hcy as [c [l [He Hpth]]]. apply Hnp. eapply closed_stay; eauto.
          -- cbn. intros x. rewrite ns_remove_in, HT', ns_insert_in. split; [intros [? [?|?]]; [congruence|auto]|].
             intros Hx. split; auto. intros ->. contradiction.
          -- cbn. intros x Hx. apply ns_insert_in. right. apply HP'. exact Hx.
          -- cbn. intros s [<-|[]]. apply ns_insert_in. auto.
        * rewrite Hr. right. auto.
  Qed.

  Definition top_fold : res topo_state :=
    fold_left (fun acc v => a <- acc ;; topo_walk (fuel_v g) g v a) VS (Ok (mkTopo [] [] [])).

  Lemma TI_init : TI (mkTopo [] [] []).
  Proof. constructor; cbn; try tauto; try constructor. intros l1 x l2 Heq. destruct l1; discriminate. Qed.

  Lemma top_fold_good : good [] [] VS top_fold.
  Proof.
    unfold top_fold. apply (FL (fuel_v g) (WL_all _)) with (st := mkTopo [] [] []).
    - intros s Hs. split; [apply has_vertex_keys; exact Hs|intros t []].
    - pose proof (cntT_le []). unfold fuel_v. unfold VS, vertex_indices in *. rewrite map_length in *. lia.
    - apply TI_init.
    - cbn. tauto.
  Qed.

  Lemma cycle_vertex v : reach_plus es v v -> In v VS.
  Proof.
    intros [c [l [He _]]]. apply has_vertex_keys. apply edge_has'' in He. apply (has_edge_vertices g v c Hgi He).
  Qed.

  (* [U] topo_correct + topo_error_iff_cycle *)
  Theorem compute_topological_ordering_correct :
    (exists l, compute_topological_ordering g = Ok l /\ topo_order es VS l /\ ~ has_cycle es) \/
    (compute_topological_ordering g = Err ECustom /\ has_cycle es).
  Proof.
    unfold compute_topological_ordering. fold VS. fold top_fold.
    destruct top_fold_good as [[st [Hr [Hti [_ [_ Hall]]]]]|[Hr Hcyc]]; rewrite Hr; cbn [bind].
    - left. exists (tp_order st). split; [reflexivity|]. split.
      + split; [apply Hti|]. split.
        * intros v. rewrite <- (ti_po st Hti v). split; [|apply Hall]. intros Hv. apply has_vertex_keys, (ti_vp st Hti v Hv).
        * intros a b Hab.
          assert (Ha : In a (tp_order st)).
          { apply (ti_po st Hti), Hall, has_vertex_keys. apply edge_has'' in Hab. apply (has_edge_vertices g a b Hgi Hab). }
          destruct (in_split _ _ Ha) as [l1 [rest Heq]].
          pose proof (ti_ord st Hti l1 a rest Heq b Hab) as Hb.
          destruct (in_split _ _ Hb) as [l2 [l3 Heq2]]. exists l1, l2, l3. rewrite Heq, Heq2. reflexivity.
      + intros [v Hcy]. apply (ti_acyc st Hti v); auto. apply Hall. apply cycle_vertex. exact Hcy.
    - right. auto.
  Qed.

  Corollary topo_error_iff_cycle : compute_topological_ordering g = Err ECustom <-> has_cycle es.
  Proof.
    destruct compute_topological_ordering_correct as [[l [Hl [_ Hn]]]|[He Hc]].
    - rewrite Hl. split; [discriminate|]. intros Hc. contradiction.
    - tauto.
  Qed.
End Topo.
