(* Graph/Small3.v -- [F] on EVERY digraph with vertex set {0..n-1}, n <= 3, and every root (unreachable
   vertices, self loops and irreducible shapes included), every routine of the model returns Ok and its
   result satisfies the executable reflection of its textbook definition (Graph/Oracle.v): reachability,
   pre/post order, DFS tree, immediate dominators, dominator tree, dominators, dominance frontiers,
   transitive predecessors, compute_acyclic, is_acyclic, is_reducible (both definitions), natural
   loops, loop nesting, topological ordering.  By computation. *)
From Coq Require Import NArith List Bool Lia.
From Falcon Require Import Base.Res Graph.NMap Graph.Graph Graph.Algo Graph.Oracle Graph.C11Check Graph.SemiNca3.
Import ListNotations.
Local Open Scope N_scope.

Definition model_ok (n mask root : N) : bool :=
  match build (range n) (edges_of n mask) with
  | Ok g => all_true (alg_oracle (range n) (edges_of n mask) root (model_obs g root))
  | _ => false
  end.
Definition check_all (n : N) : bool :=
  forallb (fun mask => forallb (fun root => model_ok n mask root) (range n)) (range (2 ^ (n * n))).

Lemma check_all_spec n : check_all n = true ->
  forall mask root, mask < 2 ^ (n * n) -> root < n -> model_ok n mask root = true.
Proof.
  unfold check_all. rewrite forallb_forall. intros Hc mask root Hm Hr.
  specialize (Hc mask (proj2 (range_in _ _) Hm)). rewrite forallb_forall in Hc.
  apply Hc. apply range_in. exact Hr.
Qed.

Lemma check_all_1 : check_all 1 = true. Proof. vm_compute. reflexivity. Qed.
Lemma check_all_2 : check_all 2 = true. Proof. vm_compute. reflexivity. Qed.
Lemma check_all_3 : check_all 3 = true. Proof. vm_compute. reflexivity. Qed.

Theorem algorithms_correct_le_3 : forall n mask root,
  1 <= n <= 3 -> mask < 2 ^ (n * n) -> root < n ->
  exists g, build (range n) (edges_of n mask) = Ok g /\
            all_true (alg_oracle (range n) (edges_of n mask) root (model_obs g root)) = true.
Proof.
  intros n mask root Hn Hm Hr.
  assert (Hc : check_all n = true).
  { assert (Hcases : n = 1 \/ n = 2 \/ n = 3) by lia.
    destruct Hcases as [->|[->| ->]]; [apply check_all_1|apply check_all_2|apply check_all_3]. }
  pose proof (check_all_spec n Hc mask root Hm Hr) as Hok. unfold model_ok in Hok.
  destruct (build (range n) (edges_of n mask)) as [g| |]; try discriminate.
  exists g. split; [reflexivity|exact Hok].
Qed.
