(* Graph/PreOrderDfs.v -- [U] the order produced by compute_pre_order is a search order: every vertex other than
   the root is listed after one of its predecessors (its discoverer).  On a tree this is "parent before child",
   which is what compute_dominators needs when it walks the dominator tree. *)
From Coq Require Import NArith List Bool Lia.
From Falcon Require Import Base.Res Graph.NMap Graph.Graph Graph.Algo.
Import ListNotations.

Section PreDfs.
  Context {V E : Type} `{Vertex V} `{Edge E}.
  Variable g : graph V E.
  Variable r : N.

  Definition sedge (p x : N) : Prop := exists ss, succs_of g p = Ok ss /\ In x ss.

  (* on the REVERSED order: the head was listed last *)
  Fixpoint PFr (o : list N) : Prop :=
    match o with
    | [] => True
    | x :: t => (x = r \/ exists p, In p t /\ sedge p x) /\ PFr t
    end.

  Lemma pre_loop_parent fuel : forall stack visited o l,
    pre_loop fuel g stack visited o = Ok l ->
    (forall x, In x stack -> x = r \/ exists p, In p o /\ sedge p x) -> PFr o ->
    exists o', l = rev o' /\ PFr o'.
  Proof.
    induction fuel as [|f IH]; intros stack visited o l Hl Hst Ho; cbn [pre_loop] in Hl; [discriminate|].
    destruct stack as [|node st].
    - injection Hl as <-. exists o. auto.
    - destruct (ns_mem node visited).
      + eapply IH; eauto. intros x Hx. apply Hst. right. exact Hx.
      + destruct (succs_of g node) as [ss| |] eqn:Hss; try discriminate. cbn [bind] in Hl.
        eapply IH; [exact Hl| |].
        * intros x Hx. apply in_app_or in Hx. destruct Hx as [Hx|Hx].
          -- right. exists node. split; [left; reflexivity|]. exists ss. split; auto. apply in_rev. exact Hx.
          -- destruct (Hst x (or_intror Hx)) as [->|[p [Hp Hpx]]]; auto. right. exists p. split; [right; exact Hp|exact Hpx].
        * cbn [PFr]. split; [|exact Ho]. apply Hst. left. reflexivity.
  Qed.

  Theorem compute_pre_order_parent l : compute_pre_order g r = Ok l -> exists o, l = rev o /\ PFr o.
  Proof.
    unfold compute_pre_order. destruct (negb (has_vertex g r)); [discriminate|]. intros Hl.
    eapply pre_loop_parent; eauto.
    - intros x [<-|[]]. left. reflexivity.
    - exact I.
  Qed.
End PreDfs.
