(* Graph/NMap.v -- BTreeMap / BTreeSet as key-sorted association lists (iteration order = ascending
   key order, which is observable in falcon's graph library).  No proofs here: see Graph/NMapFacts.v. *)
From Coq Require Import NArith List Bool.
Import ListNotations.

Section OMap.
  Context {K : Type} (cmp : K -> K -> comparison).

  (* BTreeSet<K> : strictly ascending list *)
  Fixpoint os_mem (k : K) (s : list K) : bool :=
    match s with
    | [] => false
    | k' :: t => match cmp k k' with Eq => true | _ => os_mem k t end
    end.
  Fixpoint os_insert (k : K) (s : list K) : list K :=
    match s with
    | [] => [k]
    | k' :: t => match cmp k k' with
                 | Eq => s
                 | Lt => k :: s
                 | Gt => k' :: os_insert k t
                 end
    end.
  Fixpoint os_remove (k : K) (s : list K) : list K :=
    match s with
    | [] => []
    | k' :: t => match cmp k k' with Eq => os_remove k t | _ => k' :: os_remove k t end
    end.

  Context {A : Type}.

  (* BTreeMap<K, A> : list of (key, value), strictly ascending in the key *)
  Fixpoint om_get (k : K) (m : list (K * A)) : option A :=
    match m with
    | [] => None
    | (k', a) :: t => match cmp k k' with Eq => Some a | _ => om_get k t end
    end.
  Definition om_mem (k : K) (m : list (K * A)) : bool :=
    match om_get k m with Some _ => true | None => false end.
  (* BTreeMap::insert: replaces the value of an existing key *)
  Fixpoint om_insert (k : K) (a : A) (m : list (K * A)) : list (K * A) :=
    match m with
    | [] => [(k, a)]
    | (k', a') :: t => match cmp k k' with
                       | Eq => (k, a) :: t
                       | Lt => (k, a) :: m
                       | Gt => (k', a') :: om_insert k a t
                       end
    end.
  Fixpoint om_remove (k : K) (m : list (K * A)) : list (K * A) :=
    match m with
    | [] => []
    | (k', a') :: t => match cmp k k' with Eq => om_remove k t | _ => (k', a') :: om_remove k t end
    end.
End OMap.

(* lexicographic order on (usize, usize) *)
Definition ecmp (a b : N * N) : comparison :=
  match N.compare (fst a) (fst b) with Eq => N.compare (snd a) (snd b) | c => c end.

(* maps keyed by vertex index *)
Definition nmap (A : Type) := list (N * A).
Definition nm_get {A} (k : N) (m : nmap A) : option A := om_get N.compare k m.
Definition nm_mem {A} (k : N) (m : nmap A) : bool := om_mem N.compare k m.
Definition nm_insert {A} (k : N) (a : A) (m : nmap A) : nmap A := om_insert N.compare k a m.
Definition nm_remove {A} (k : N) (m : nmap A) : nmap A := om_remove N.compare k m.
Definition nm_keys {A} (m : nmap A) : list N := map fst m.

(* maps keyed by (head, tail) *)
Definition emap (A : Type) := list ((N * N) * A).
Definition em_get {A} (k : N * N) (m : emap A) : option A := om_get ecmp k m.
Definition em_mem {A} (k : N * N) (m : emap A) : bool := om_mem ecmp k m.
Definition em_insert {A} (k : N * N) (a : A) (m : emap A) : emap A := om_insert ecmp k a m.
Definition em_remove {A} (k : N * N) (m : emap A) : emap A := om_remove ecmp k m.

(* sets of vertex indices / of edges *)
Definition nset := list N.
Definition ns_mem (k : N) (s : nset) : bool := os_mem N.compare k s.
Definition ns_insert (k : N) (s : nset) : nset := os_insert N.compare k s.
Definition ns_remove (k : N) (s : nset) : nset := os_remove N.compare k s.
Definition ns_of_list (l : list N) : nset := fold_left (fun s k => ns_insert k s) l [].
Definition eset := list (N * N).
Definition es_mem (k : N * N) (s : eset) : bool := os_mem ecmp k s.
Definition es_insert (k : N * N) (s : eset) : eset := os_insert ecmp k s.
Definition es_of_list (l : list (N * N)) : eset := fold_left (fun s k => es_insert k s) l [].

Definition list_eqb {A} (eqb : A -> A -> bool) : list A -> list A -> bool :=
  fix go l1 l2 := match l1, l2 with
                  | [], [] => true
                  | a :: t1, b :: t2 => eqb a b && go t1 t2
                  | _, _ => false
                  end.
Definition pair_eqb {A B} (ea : A -> A -> bool) (eb : B -> B -> bool) (x y : A * B) : bool :=
  ea (fst x) (fst y) && eb (snd x) (snd y).
Definition option_eqb {A} (eqb : A -> A -> bool) (x y : option A) : bool :=
  match x, y with Some a, Some b => eqb a b | None, None => true | _, _ => false end.
Definition edge_eqb : N * N -> N * N -> bool := pair_eqb N.eqb N.eqb.
