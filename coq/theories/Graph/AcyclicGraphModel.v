(* Graph/AcyclicGraphModel.v -- [U] compute_acyclic (breadth-first walk that drops the edges closing a cycle, using the
   transitive predecessor sets; fuel included): on every consistent graph and start vertex it returns Ok t, t is a
   consistent graph with all the vertices, and (vertices, edges) is an acyclic restriction in the sense of
   Graph/SpecDfs.v: edges are graph edges, the same vertices are reachable from the start, no cycle is reachable
   from the start, and every edge dropped from a reachable source closed a cycle. *)
From Coq Require Import NArith List Bool Lia.
From Falcon Require Import Base.Res Graph.NMap Graph.NMapFacts Graph.Graph Graph.GraphInv Graph.Algo Graph.Spec
  Graph.SpecDfs Graph.Oracle Graph.OracleProofs Graph.DomTheory Graph.LoopProofs Graph.DomTreeProofs Graph.TopoProofs
  Graph.TransPredsModel Graph.BackEdges.
Import ListNotations.
Local Open Scope N_scope.

(* position of the first occurrence *)
Fixpoint idx (x : N) (l : list N) : nat :=
  match l with [] => O | y :: t => if x =? y then O else S (idx x t) end.
Lemma idx_split l1 a l2 : ~ In a l1 -> idx a (l1 ++ a :: l2) = length l1.
Proof.
  induction l1 as [|y l1 IH]; intros Hn; cbn [app idx length].
  - rewrite N.eqb_refl. reflexivity.
  - destruct (N.eqb_spec a y) as [->|Hne]; [exfalso; apply Hn; left; auto|]. rewrite IH; auto. intros Hx. apply Hn. right. exact Hx.
Qed.
Lemma idx_lt_in x l1 rest : In x l1 -> (idx x (l1 ++ rest) < length l1)%nat.
Proof.
  induction l1 as [|y l1 IH]; intros Hin; [destruct Hin|]. cbn [app idx length].
  destruct (N.eqb_spec x y) as [->|Hne]; [lia|]. destruct Hin as [Hq|Hin]; [congruence|]. specialize (IH Hin). lia.
Qed.

Section AcyclicGraph.
  Context {V E : Type} `{Vertex V} `{Edge E}.
  Variable g : graph V E.
  Hypothesis Hgi : graph_inv g.
  Variable r : N.
  Hypothesis Hr : has_vertex g r = true.
  Let es := edge_keys g.
  Let VS := vertex_indices g.
  Variable P : nmap nset.
  Hypothesis HPk : forall v, nm_mem v P = has_vertex g v.
  Hypothesis HPs : forall v s, nm_get v P = Some s -> forall p, In p s <-> reach_plus es p v.

  Lemma ehe a b : edge es a b <-> has_edge g a b = true.
  Proof. unfold edge, es. symmetry. apply has_edge_keys. Qed.

  Record CI (queue : list N) (visited : nset) (L : list N) (t : tree) : Prop := {
    ci_inv : graph_inv t;
    ci_vs : forall v, has_vertex t v = has_vertex g v;
    ci_L : forall x, In x visited <-> In x L;
    ci_Lnd : NoDup L;
    ci_qnd : NoDup queue;
    ci_qv : forall x, In x queue -> ~ In x visited;
    ci_reach : forall x, In x queue \/ In x visited -> reach es r x /\ reach (edge_keys t) r x;
    ci_e : forall a b, has_edge t a b = true -> edge es a b /\ In a visited;
    ci_keep : forall a b, In a visited -> edge es a b -> has_edge t a b = true \/ reach_plus es b a;
    ci_cl : forall a b, In a visited -> edge es a b -> In b visited \/ In b queue;
    ci_ord : forall l1 a l2 b, L = l1 ++ a :: l2 -> has_edge t a b = true -> In b (a :: l2) -> ~ reach_plus es b a;
    ci_root : In r visited \/ In r queue }.

  Definition astep (v : N) (visited vp : nset) (acc : res (list N * tree)) (s : N) : res (list N * tree) :=
    a <- acc ;;
    if ns_mem s visited && ns_mem s vp then Ok a else
    let q' := if negb (ns_mem s visited) && negb (existsb (N.eqb s) (fst a)) then fst a ++ [s] else fst a in
    t' <- insert_edge (snd a) (v, s) ;; Ok (q', t').

  Lemma exb_in s (l : list N) : existsb (N.eqb s) l = true <-> In s l.
  Proof.
    rewrite existsb_exists. split.
    - intros [x [Hx Hq]]. apply N.eqb_eq in Hq. subst. exact Hx.
    - intros Hx. exists s. split; auto. apply N.eqb_refl.
  Qed.

  (* the loop over the successors of the vertex v being processed; `todo` are the successors still to come *)
  Record II (v : N) (vis : nset) (vp : nset) (done : list N) (q0 : list N) (t0 : tree) (q : list N) (t : tree) : Prop := {
    ii_inv : graph_inv t;
    ii_vs : forall x, has_vertex t x = has_vertex g x;
    ii_e : forall a b, has_edge t a b = (has_edge t0 a b || ((a =? v) && existsb (N.eqb b) done && negb (ns_mem b vis && ns_mem b vp)));
    ii_q : forall x, In x q <-> In x q0 \/ (In x done /\ ~ In x vis);
    ii_qnd : NoDup q }.

  Lemma inner v vis vp (Hv : has_vertex g v = true) : forall todo done q0 t0 q t,
    II v vis vp done q0 t0 q t -> NoDup (done ++ todo) ->
    (forall s, In s todo -> has_vertex g s = true) -> (forall b, has_edge t0 v b = false) ->
    exists q' t', fold_left (astep v vis vp) todo (Ok (q, t)) = Ok (q', t') /\ II v vis vp (done ++ todo) q0 t0 q' t'.
  Proof.
    induction todo as [|s todo IH]; intros done q0 t0 q t Hi Hnd Hvs Hfresh; cbn [fold_left].
    - exists q, t. rewrite app_nil_r. auto.
    - assert (Hsd : ~ In s done).
      { intros Hx. apply NoDup_remove_2 in Hnd. apply Hnd. apply in_or_app. auto. }
      assert (Hnd' : NoDup ((done ++ [s]) ++ todo)) by (rewrite <- app_assoc; exact Hnd).
      unfold astep at 2. cbn [bind fst snd].
      destruct (ns_mem s vis && ns_mem s vp) eqn:Hskip.
      + destruct (IH (done ++ [s]) q0 t0 q t) as [q' [t' [Hf Hi']]]; auto.
        * destruct Hi. constructor; auto.
          -- intros a b. rewrite ii_e0. f_equal. rewrite existsb_app. cbn [existsb]. rewrite orb_false_r.
             destruct (N.eqb_spec b s) as [->|Hne].
             ++ rewrite Hskip. cbn [negb]. rewrite !andb_false_r. reflexivity.
             ++ rewrite orb_false_r. reflexivity.
          -- intros x. rewrite ii_q0, in_app_iff. cbn [In]. split; [tauto|]. intros [?|[[?|[<-|[]]] Hn]]; auto.
             apply andb_true_iff in Hskip. destruct Hskip as [Hs _]. apply ns_mem_in in Hs. contradiction.
        * intros s' Hs'. apply Hvs. right. exact Hs'.
        * exists q', t'. split; [exact Hf|]. rewrite <- app_assoc in Hi'. exact Hi'.
      + assert (Hne : has_edge t v s = false).
        { rewrite (ii_e _ _ _ _ _ _ _ _ Hi), Hfresh, N.eqb_refl. cbn.
          destruct (existsb (N.eqb s) done) eqn:Hx; auto. apply exb_in in Hx. contradiction. }
        destruct (insert_edge_inv t (v, s) (ii_inv _ _ _ _ _ _ _ _ Hi) Hne) as [t1 [Hr1 [Hg1 [Hv1 He1]]]].
        { cbn. rewrite (ii_vs _ _ _ _ _ _ _ _ Hi). exact Hv. }
        { cbn. rewrite (ii_vs _ _ _ _ _ _ _ _ Hi). apply Hvs. left. reflexivity. }
        unfold tree, null_vertex, null_edge in *. rewrite Hr1. cbn [bind].
        cbn [ehead etail null_edge_Edge fst snd] in He1.
        set (q1 := if negb (ns_mem s vis) && negb (existsb (N.eqb s) q) then q ++ [s] else q).
        destruct (IH (done ++ [s]) q0 t0 q1 t1) as [q' [t' [Hf Hi']]]; auto.
        * destruct Hi. constructor; auto; unfold tree, null_vertex, null_edge in *.
          -- intros x. unfold has_vertex. rewrite Hv1. apply ii_vs0.
          -- intros a b. unfold has_edge at 1. rewrite He1, em_mem_insert. fold (has_edge t a b). rewrite ii_e0.
             rewrite existsb_app. cbn [existsb]. rewrite orb_false_r. unfold edge_eqb, pair_eqb. cbn [fst snd].
             destruct (N.eqb_spec b s) as [->|Hnb].
             ++ rewrite Hskip.
                assert (Hx : existsb (N.eqb s) done = false).
                { destruct (existsb (N.eqb s) done) eqn:Hx; auto. apply exb_in in Hx. contradiction. }
                rewrite Hx. cbn. destruct (a =? v), (has_edge t0 a s); reflexivity.
             ++ rewrite orb_false_r, andb_false_r. cbn [orb]. reflexivity.
          -- intros x. unfold q1. destruct (negb (ns_mem s vis) && negb (existsb (N.eqb s) q)) eqn:Hpush.
             ++ apply andb_true_iff in Hpush. destruct Hpush as [Hnv _]. apply negb_true_iff, ns_mem_false in Hnv.
                rewrite !in_app_iff, ii_q0. cbn [In]. split; [intros [[?|[? ?]]|[<-|[]]]; auto|].
                intros [?|[[?|[<-|[]]] Hn]]; auto.
             ++ rewrite ii_q0, in_app_iff. cbn [In]. split; [tauto|]. intros [?|[[?|[<-|[]]] Hn]]; auto.
                apply andb_false_iff in Hpush. destruct Hpush as [Hp|Hp]; apply negb_false_iff in Hp.
                ** apply ns_mem_in in Hp. contradiction.
                ** apply exb_in in Hp. apply ii_q0 in Hp. exact Hp.
          -- unfold q1. destruct (negb (ns_mem s vis) && negb (existsb (N.eqb s) q)) eqn:Hpush; auto.
             apply andb_true_iff in Hpush. destruct Hpush as [_ Hnq]. apply negb_true_iff in Hnq.
             apply GraphInv.nodup_app; auto; [constructor; [intros []|constructor]|].
             intros x Hx [<-|[]]. apply exb_in in Hx. congruence.
        * intros s' Hs'. apply Hvs. right. exact Hs'.
        * exists q', t'. split; [exact Hf|]. rewrite <- app_assoc in Hi'. exact Hi'.
  Qed.

  Lemma loop_correct fuel : forall queue visited L t,
    CI queue visited L t -> (cntT g visited < fuel)%nat ->
    exists t' visited' L', acyclic_loop fuel g P queue visited t = Ok t' /\ CI [] visited' L' t'.
  Proof.
    induction fuel as [|f IH]; intros queue visited L t Hci Hm; [lia|]. cbn [acyclic_loop].
    destruct queue as [|v q].
    - exists t, visited, L. auto.
    - destruct (ci_reach _ _ _ _ Hci v (or_introl (or_introl eq_refl))) as [Hrv Hrtv].
      assert (Hvv : has_vertex g v = true) by (apply (BackEdges.reach_has_vertex g Hgi r Hr); exact Hrv).
      assert (Hnv : ~ In v visited) by (apply (ci_qv _ _ _ _ Hci); left; auto).
      assert (Hgv : exists vp, nm_get v P = Some vp) by (apply nm_mem_get; rewrite HPk; exact Hvv).
      destruct Hgv as [vp Hgv]. unfold nm_idx. rewrite Hgv. cbn [res_of_option bind].
      destruct (succs_of_spec g v Hgi Hvv) as [ss [Hss [Hsso Hssin]]]. rewrite Hss. cbn [bind].
      set (vis := ns_insert v visited).
      pose proof (ci_qnd _ _ _ _ Hci) as Hqnd. inversion Hqnd as [|? ? Hvq Hqnd']; subst.
      destruct (inner v vis vp Hvv ss [] q t q t) as [q' [t' [Hf Hi]]].
      + constructor; try apply Hci; auto.
        * intros a b. cbn. rewrite andb_false_r, orb_false_r. reflexivity.
        * intros x. cbn. tauto.
      + cbn [app]. apply nsorted_nodup. exact Hsso.
      + intros s Hs. apply Hssin in Hs. apply (has_edge_vertices g v s Hgi Hs).
      + intros b. destruct (has_edge t v b) eqn:Hx; auto. apply (ci_e _ _ _ _ Hci) in Hx. tauto.
      + change (fold_left _ ss (Ok (q, t))) with (fold_left (astep v vis vp) ss (Ok (q, t))). rewrite Hf. cbn [bind fst snd].
        cbn [app] in Hi.
        assert (Hvis : forall x, In x vis <-> x = v \/ In x visited) by (intros x; unfold vis; apply ns_insert_in).
        assert (Hedge : forall a b, has_edge t' a b = true <->
                   has_edge t a b = true \/ (a = v /\ edge es v b /\ ~ (In b vis /\ reach_plus es b v))).
        { intros a b. rewrite (ii_e _ _ _ _ _ _ _ _ Hi), orb_true_iff, !andb_true_iff, N.eqb_eq, exb_in, Hssin, <- ehe, negb_true_iff.
          rewrite <- (HPs v vp Hgv b). split.
          - intros [Hx|[[Hav Hvb] Hn]]; [left; auto|right]. split; auto. split; auto.
            intros [Hb1 Hb2]. apply ns_mem_in in Hb1, Hb2. rewrite Hb1, Hb2 in Hn. discriminate.
          - intros [Hx|[Hav [Hvb Hn]]]; [left; auto|right]. split; [split; auto|].
            destruct (ns_mem b vis) eqn:Hm1, (ns_mem b vp) eqn:Hm2; auto. exfalso. apply Hn. split; apply ns_mem_in; auto. }
        assert (Hsub : forall a b, In (a, b) (edge_keys t) -> In (a, b) (edge_keys t')).
        { intros a b Hab. apply has_edge_keys, Hedge. left. apply has_edge_keys. exact Hab. }
        apply (IH q' vis (v :: L) t').
        * constructor.
          -- apply Hi.
          -- apply Hi.
          -- intros x. rewrite Hvis, (ci_L _ _ _ _ Hci x). cbn [In]. split; intros [?|?]; auto.
          -- constructor; [|apply Hci]. intros Hx. apply Hnv, (ci_L _ _ _ _ Hci). exact Hx.
          -- apply Hi.
          -- intros x Hx. apply (ii_q _ _ _ _ _ _ _ _ Hi) in Hx. rewrite Hvis. destruct Hx as [Hx|[_ Hx]]; [|intros Hy; apply Hx, Hvis, Hy].
             intros [->|Hxv]; [contradiction|]. apply (ci_qv _ _ _ _ Hci x (or_intror Hx) Hxv).
          -- intros x Hx.
             assert (Hold : forall y, In y q \/ In y visited \/ y = v -> reach es r y /\ reach (edge_keys t') r y).
             { intros y Ho. assert (Hc : reach es r y /\ reach (edge_keys t) r y).
               { destruct Ho as [Ho|[Ho| ->]]; [apply (ci_reach _ _ _ _ Hci); left; right; auto|apply (ci_reach _ _ _ _ Hci); auto|auto]. }
               destruct Hc as [H1 [l Hl]]. split; auto. exists l. eapply path_ext; eauto. }
             destruct Hx as [Hx|Hx].
             ++ apply (ii_q _ _ _ _ _ _ _ _ Hi) in Hx. destruct Hx as [Hx|[Hx Hn]]; [apply Hold; auto|].
                apply Hssin in Hx. split.
                ** destruct Hrv as [l Hl]. exists (l ++ [x]). eapply path_snoc; eauto. apply ehe. exact Hx.
                ** destruct (Hold v (or_intror (or_intror eq_refl))) as [_ [l Hl]]. exists (l ++ [x]). eapply path_snoc; eauto.
                   apply has_edge_keys, Hedge. right. split; auto. split; [apply ehe; exact Hx|tauto].
             ++ apply Hvis in Hx. destruct Hx as [->|Hx]; apply Hold; auto.
          -- intros a b Hab. apply Hedge in Hab. rewrite Hvis. destruct Hab as [Hab|[-> [He _]]]; [|auto].
             destruct (ci_e _ _ _ _ Hci a b Hab). auto.
          -- intros a b Ha Hab. apply Hvis in Ha. destruct Ha as [->|Ha].
             ++ destruct (in_dec N.eq_dec b vis) as [Hbv|Hbv].
                ** destruct (in_dec N.eq_dec b vp) as [Hbp|Hbp]; [right; apply (HPs v vp Hgv); exact Hbp|].
                   left. apply Hedge. right. split; auto. split; auto. intros [_ Hrp]. apply Hbp, (HPs v vp Hgv), Hrp.
                ** left. apply Hedge. right. split; auto. split; auto. tauto.
             ++ destruct (ci_keep _ _ _ _ Hci a b Ha Hab) as [Hk|Hk]; auto. left. apply Hedge. auto.
          -- intros a b Ha Hab. rewrite Hvis. apply Hvis in Ha. destruct Ha as [->|Ha].
             ++ destruct (in_dec N.eq_dec b vis) as [Hbv|Hbv]; [left; apply Hvis; exact Hbv|].
                right. apply (ii_q _ _ _ _ _ _ _ _ Hi). right. split; auto. apply Hssin, ehe. exact Hab.
             ++ destruct (ci_cl _ _ _ _ Hci a b Ha Hab) as [Hb|[<-|Hb]]; auto.
                right. apply (ii_q _ _ _ _ _ _ _ _ Hi). auto.
          -- intros l1 a l2 b Heq Hab Hin. apply Hedge in Hab. destruct l1 as [|x l1]; cbn [app] in Heq.
             ++ injection Heq as <- <-. destruct Hab as [Hab|[_ [_ Hn]]].
                ** apply (ci_e _ _ _ _ Hci) in Hab. tauto.
                ** intros Hrp. apply Hn. split; auto. apply Hvis. destruct Hin as [<-|Hin]; auto. right. apply (ci_L _ _ _ _ Hci). exact Hin.
             ++ injection Heq as <- Heq. destruct Hab as [Hab|[-> _]].
                ** eapply (ci_ord _ _ _ _ Hci); eauto.
                ** exfalso. apply Hnv, (ci_L _ _ _ _ Hci). rewrite Heq. apply in_or_app. right. left. reflexivity.
          -- destruct (ci_root _ _ _ _ Hci) as [Hx|[<-|Hx]]; [left; apply Hvis; auto|left; apply Hvis; auto|].
             right. apply (ii_q _ _ _ _ _ _ _ _ Hi). auto.
        * assert (HvVS : In v (vertex_indices g)) by (apply has_vertex_keys; exact Hvv).
          pose proof (cntT_insert g v visited HvVS Hnv). fold vis in H1. lia.
  Qed.
End AcyclicGraph.

Section AcyclicTop.
  Context {V E : Type} `{Vertex V} `{Edge E}.
  Variable g : graph V E.
  Hypothesis Hgi : graph_inv g.
  Variable r : N.
  Hypothesis Hr : has_vertex g r = true.
  Let es := edge_keys g.

  (* [U] *)
  Theorem compute_acyclic_correct :
    exists t, compute_acyclic g r = Ok t /\ graph_inv t /\
      is_acyclic_restriction es (vertex_indices g) r (vertex_indices t) (edge_keys t).
  Proof.
    unfold compute_acyclic.
    destruct (fold_insert_vertices (vertex_indices g) (new : tree) graph_inv_new) as [t0 [Hf0 [Hg0 [Hv0 He0]]]].
    { apply nsorted_nodup. apply Hgi. } { intros k _. reflexivity. }
    unfold tree, null_vertex, null_edge in *. rewrite Hf0. cbn [bind].
    destruct (compute_predecessors_correct g Hgi) as [P [HP [_ [HPk HPs]]]]. rewrite HP. cbn [bind].
    assert (Hhv0 : forall v, has_vertex t0 v = has_vertex g v).
    { intros v. rewrite Hv0. replace (has_vertex (new : graph N (N * N)) v) with false by reflexivity. cbn [orb].
      destruct (has_vertex g v) eqn:Hv.
      - apply existsb_exists. exists v. split; [apply has_vertex_keys; exact Hv|apply N.eqb_refl].
      - destruct (existsb (N.eqb v) (vertex_indices g)) eqn:Hx; auto. apply existsb_exists in Hx. destruct Hx as [x [Hx Hq]].
        apply N.eqb_eq in Hq. subst. apply has_vertex_keys in Hx. congruence. }
    assert (Hhe0 : forall a b, has_edge t0 a b = false) by (intros a b; unfold has_edge; rewrite He0; reflexivity).
    destruct (loop_correct g Hgi r Hr P HPk HPs (fuel_v g) [r] [] [] t0) as [t [visited [L [Hl Hci]]]].
    - constructor.
      + exact Hg0.
      + exact Hhv0.
      + intros x. cbn. tauto.
      + constructor.
      + constructor; [intros []|constructor].
      + intros x _ [].
      + intros x [[<-|[]]|[]]. split; exists []; constructor.
      + intros a b. rewrite Hhe0. discriminate.
      + intros a b [].
      + intros a b [].
      + intros l1 a l2 b Heq. destruct l1; discriminate.
      + right. left. reflexivity.
    - pose proof (cntT_le g []) as Hle. unfold fuel_v. unfold vertex_indices in Hle. rewrite map_length in Hle. lia.
    - exists t. split; [exact Hl|]. split; [apply Hci|].
      assert (Hroot : In r visited) by (destruct (ci_root _ _ _ _ _ _ Hci) as [|[]]; auto).
      assert (Hclosed : forall v, reach es r v -> In v visited).
      { intros v [l Hp]. assert (Hgen : forall a l b, path es a l b -> In a visited -> In b visited).
        { clear -Hci. intros a l b Hp. induction Hp as [a|a c l b Hac Hp IH]; intros Ha; auto.
          apply IH. destruct (ci_cl _ _ _ _ _ _ Hci a c Ha Hac) as [|[]]; auto. }
        eapply Hgen; eauto. }
      assert (Hsub : forall a b, In (a, b) (edge_keys t) -> edge es a b).
      { intros a b Hab. apply has_edge_keys in Hab. apply (ci_e _ _ _ _ _ _ Hci a b Hab). }
      split; [|split; [exact Hsub|split; [|split]]].
      + intros v. rewrite <- !has_vertex_keys. rewrite (ci_vs _ _ _ _ _ _ Hci). tauto.
      + intros v. split.
        * intros [l Hp]. exists l. eapply path_ext; eauto.
        * intros Hre. apply (ci_reach _ _ _ _ _ _ Hci). right. apply Hclosed. exact Hre.
      + (* no cycle: around a cycle the processing position would decrease strictly *)
        intros [v [_ [c [l [Hvc Hp]]]]].
        set (te := edge_keys t) in *.
        assert (Hes : forall a l b, path te a l b -> path es a l b) by (intros a l0 b Hx; eapply path_ext; eauto).
        assert (Hdec : forall a b, In (a, b) te -> reach es b a -> (idx b L < idx a L)%nat).
        { intros a b Hab Hba. apply has_edge_keys in Hab.
          assert (Ha : In a L) by (apply (ci_L _ _ _ _ _ _ Hci), (ci_e _ _ _ _ _ _ Hci a b Hab)).
          destruct (in_split _ _ Ha) as [l1 [l2 Heq]].
          assert (Hn1 : ~ In a l1).
          { pose proof (ci_Lnd _ _ _ _ _ _ Hci) as Hnd. rewrite Heq in Hnd. apply NoDup_remove_2 in Hnd.
            intros Hx. apply Hnd. apply in_or_app. auto. }
          assert (Hrp : reach_plus es b a).
          { destruct (N.eq_dec b a) as [->|Hne].
            - exists a, []. split; [apply (ci_e _ _ _ _ _ _ Hci a a Hab)|constructor].
            - destruct Hba as [l0 Hl0]. destruct l0 as [|x l0]; [inversion Hl0; congruence|].
              inversion Hl0; subst. exists x, l0. auto. }
          assert (Hb : In b L).
          { apply (ci_L _ _ _ _ _ _ Hci), Hclosed.
            destruct (proj1 (ci_reach _ _ _ _ _ _ Hci a (or_intror (proj2 (ci_L _ _ _ _ _ _ Hci a) Ha)))) as [la Hla].
            exists (la ++ [b]). eapply path_snoc; eauto. apply (ci_e _ _ _ _ _ _ Hci a b Hab). }
          rewrite Heq in Hb |- *. rewrite (idx_split l1 a l2 Hn1).
          apply in_app_or in Hb. destruct Hb as [Hb|Hb]; [apply idx_lt_in; exact Hb|].
          exfalso. exact (ci_ord _ _ _ _ _ _ Hci l1 a l2 b Heq Hab Hb Hrp). }
        assert (Hwalk : forall a l0 b, path te a l0 b -> reach es b a -> (idx b L <= idx a L)%nat).
        { intros a l0 b Hpath. induction Hpath as [a|a x l0 b Hax Hpath IHp]; intros Hba; [lia|].
          assert (Hxa : reach es x a).
          { destruct Hba as [lb Hlb]. exists (l0 ++ lb). eapply path_app; eauto. }
          pose proof (Hdec a x Hax Hxa) as H1.
          assert (Hbx : reach es b x).
          { destruct Hba as [lb Hlb]. exists (lb ++ [x]). eapply path_snoc; eauto. }
          specialize (IHp Hbx). lia. }
        assert (Hcv : reach es c v) by (exists l; apply Hes; exact Hp).
        assert (Hvc' : reach es v c) by (exists [c]; apply path_cons with (b := c); [apply Hsub; exact Hvc|constructor]).
        pose proof (Hdec v c Hvc Hcv) as H1.
        pose proof (Hwalk c l v Hp Hvc') as H2.
        lia.
      + intros a b Hab Hra. destruct (ci_keep _ _ _ _ _ _ Hci a b (Hclosed a Hra) Hab) as [Hk|[c [l [Hc Hp]]]].
        * left. apply has_edge_keys. exact Hk.
        * right. exists (c :: l). apply path_cons with (b := c); auto.
  Qed.
End AcyclicTop.
