(* Graph/DfsOrderModel.v -- [U] the pre-order of the DFS tree IS the depth-first pre-order of the graph:
     compute_dfs_tree g r = Ok T -> compute_pre_order T r = Ok l -> compute_pre_order g r = Ok l
   (three-way simulation: dfs_loop on g, pre_loop on g, pre_loop on the final tree T), and every tree edge (p, w) joins
   w to the LATEST-numbered graph predecessor of w that is numbered before w (which is the DFS parent). *)
From Coq Require Import NArith List Bool Lia PeanoNat Sorted.
From Falcon Require Import Base.Res Graph.NMap Graph.NMapFacts Graph.Graph Graph.GraphInv Graph.Algo Graph.Spec
  Graph.SpecDfs Graph.PreOrderProofs Graph.DomModel Graph.DfsTreeModel Graph.AcyclicGraphModel Graph.PathLemma.
Import ListNotations.
Local Open Scope N_scope.

Lemma nsorted_filter f l : nsorted l -> nsorted (filter f l).
Proof.
  unfold nsorted, ksorted. induction 1 as [|a l Hs IH Hall]; cbn [filter]; [constructor|].
  destruct (f a); auto. constructor; auto. rewrite Forall_forall in *. intros x Hx. apply filter_In in Hx. apply Hall. tauto.
Qed.

Lemma ns_mem_ins x w vis : ns_mem x (ns_insert w vis) = (x =? w) || ns_mem x vis.
Proof.
  destruct (ns_mem x (ns_insert w vis)) eqn:H1.
  - apply ns_mem_in, ns_insert_in in H1. destruct H1 as [->|H1]; [rewrite N.eqb_refl; reflexivity|].
    apply ns_mem_in in H1. rewrite H1. symmetry. apply orb_true_r.
  - apply ns_mem_false in H1. symmetry. apply orb_false_iff. split.
    + apply N.eqb_neq. intros ->. apply H1, ns_insert_in. auto.
    + apply ns_mem_false. intros Hx. apply H1, ns_insert_in. auto.
Qed.

Lemma pre_loop_prefix {V E : Type} `{Vertex V} `{Edge E} (gg : graph V E) f : forall st vis orev l,
  pre_loop f gg st vis orev = Ok l -> exists rest, l = rev orev ++ rest.
Proof.
  induction f as [|f IH]; intros st vis orev l Hl; [discriminate|]. cbn [pre_loop] in Hl.
  destruct st as [|n st].
  - injection Hl as <-. exists []. rewrite app_nil_r. reflexivity.
  - destruct (ns_mem n vis); [eapply IH; eauto|].
    destruct (succs_of gg n) as [ss| |]; cbn [bind] in Hl; try discriminate.
    apply IH in Hl. destruct Hl as [rest ->]. cbn [rev]. exists (n :: rest). rewrite <- app_assoc. reflexivity.
Qed.

Lemma idx_rev x (l : list N) : NoDup l -> In x l -> (idx x (rev l) + idx x l + 1 = length l)%nat.
Proof.
  induction l as [|a l IH]; intros Hnd Hin; [destruct Hin|]. inversion Hnd as [|? ? Hna Hnd']; subst. cbn [rev idx length].
  destruct (N.eqb_spec x a) as [->|Hne].
  - rewrite idx_app_notin by (rewrite <- in_rev; exact Hna). cbn [idx]. rewrite N.eqb_refl, rev_length. lia.
  - destruct Hin as [|Hin]; [congruence|]. rewrite idx_app_in by (rewrite <- in_rev; exact Hin). specialize (IH Hnd' Hin). lia.
Qed.

Lemma ss_impl {A} (R R' : A -> A -> Prop) l : (forall a b, In a l -> In b l -> R a b -> R' a b) ->
  StronglySorted R l -> StronglySorted R' l.
Proof.
  induction l as [|a l IH]; intros Hi Hs; [constructor|]. inversion Hs as [|? ? Hs' Hall]; subst. constructor.
  - apply IH; auto. intros x y Hx Hy. apply Hi; right; assumption.
  - rewrite Forall_forall in *. intros x Hx. apply Hi; [left; reflexivity|right; exact Hx|apply Hall; exact Hx].
Qed.
Lemma ss_app {A} (R : A -> A -> Prop) W l : (forall a b, In a W -> In b (W ++ l) -> R a b) ->
  StronglySorted R l -> StronglySorted R (W ++ l).
Proof.
  induction W as [|a W IH]; intros Hi Hs; [exact Hs|]. cbn [app]. constructor.
  - apply IH; auto. intros x y Hx Hy. apply Hi; right; assumption.
  - apply Forall_forall. intros x Hx. apply Hi; [left; reflexivity|right; exact Hx].
Qed.

Section Sim.
  Context {V E : Type} `{Vertex V} `{Edge E}.
  Variable g : graph V E.
  Hypothesis Hgi : graph_inv g.
  Let es := edge_keys g.
  Variable T : tree.
  Hypothesis HgT : graph_inv T.
  Hypothesis HTe : forall a b, has_edge T a b = true -> has_edge g a b = true.

  Definition inT (e : N * N) : bool := has_edge T (fst e) (snd e).
  Definition GOOD (l : list N) (p w : N) : Prop :=
    (idx p l < idx w l)%nat /\
    forall x, In x l -> edge es x w -> (idx x l < idx w l)%nat -> (idx x l <= idx p l)%nat.

  Record SI (st : list (N * N)) (t : tree) (vis : nset) (orev : list N) : Prop := {
    si_inv : graph_inv t;
    si_vis : forall x, ns_mem x vis = has_vertex t x;
    si_or : forall x, In x orev <-> has_vertex t x = true;
    si_nd : NoDup orev;
    si_st : forall p w, In (p, w) st -> has_vertex t p = true /\ edge es p w;
    si_K : forall x y, has_vertex t x = true -> edge es x y -> has_vertex t y = true \/ In (x, y) st;
    si_S : StronglySorted (fun e1 e2 => (idx (fst e1) orev <= idx (fst e2) orev)%nat) st }.

  Lemma succs_T w ss : has_vertex T w = true -> has_vertex g w = true -> succs_of g w = Ok ss ->
    succs_of T w = Ok (filter (fun s => has_edge T w s) ss).
  Proof.
    intros Hw Hgw Hss. destruct (succs_of_spec T w HgT Hw) as [sT [HsT [Hsort Hin]]].
    destruct (succs_of_spec g w Hgi Hgw) as [ss' [Hss' [Hsort' Hin']]]. rewrite Hss' in Hss. injection Hss as <-.
    rewrite HsT. f_equal. eapply (ksorted_ext N.compare); eauto using ncmp_eq, ncmp_trans.
    - apply nsorted_filter. exact Hsort'.
    - intros x. rewrite filter_In, Hin, Hin'. split; [intros Hx; split; auto|tauto].
  Qed.

  Lemma filt_W (w : N) (ss : list N) : map snd (filter inT (rev (map (fun s => (w, s)) ss))) = rev (filter (fun s => has_edge T w s) ss).
  Proof.
    induction ss as [|a ss IH]; [reflexivity|]. cbn [map rev filter]. rewrite filter_app, map_app, IH. cbn [filter].
    unfold inT at 1. cbn [fst snd]. destruct (has_edge T w a); cbn [map snd rev]; [reflexivity|apply app_nil_r].
  Qed.
  Lemma map_W (w : N) (ss : list N) : map snd (rev (map (fun s => (w, s)) ss)) = rev ss.
  Proof. rewrite map_rev, map_map. cbn [snd]. rewrite map_id. reflexivity. Qed.

  Lemma dfs_mono f : forall st t, graph_inv t -> (forall p w, In (p, w) st -> has_vertex t p = true) ->
    dfs_loop f g st t = Ok T -> forall a b, has_edge t a b = true -> has_edge T a b = true.
  Proof.
    induction f as [|f IH]; intros st t Hgt Hst Hd a b Hab; [discriminate|]. cbn [dfs_loop] in Hd.
    destruct st as [|[p w] st]; [injection Hd as <-; exact Hab|].
    destruct (has_vertex t w) eqn:Hvw.
    - apply (IH st t Hgt (fun p' w' Hin => Hst p' w' (or_intror Hin)) Hd a b Hab).
    - destruct (discover t p w Hgt Hvw (Hst p w (or_introl eq_refl))) as [t1 [t2 [Hd1 [Hd2 [Hg2 [Hv2 He2]]]]]].
      rewrite Hd1 in Hd. cbn [bind] in Hd. rewrite Hd2 in Hd. cbn [bind] in Hd.
      destruct (succs_of g w) as [ss| |]; cbn [bind] in Hd; try discriminate.
      apply (IH _ t2 Hg2) with (2 := Hd).
      + intros p' w' Hin. rewrite Hv2. apply in_app_or in Hin. destruct Hin as [Hin|Hin].
        * apply in_rev, in_map_iff in Hin. destruct Hin as [s [[= <- <-] _]]. rewrite N.eqb_refl. reflexivity.
        * rewrite (Hst p' w' (or_intror Hin)). apply orb_true_r.
      + rewrite He2, Hab. apply orb_true_r.
  Qed.

  Lemma sim f1 : forall st t vis orev, SI st t vis orev -> dfs_loop f1 g st t = Ok T ->
    forall fg fT lg lT, pre_loop fg g (map snd st) vis orev = Ok lg ->
      pre_loop fT T (map snd (filter inT st)) vis orev = Ok lT ->
      lg = lT /\ (forall p w, has_edge T p w = true -> has_edge t p w = false -> GOOD lg p w).
  Proof.
    induction f1 as [|f IH]; intros st t vis orev Hsi Hd fg fT lg lT Hg HT; [discriminate|]. cbn [dfs_loop] in Hd.
    destruct st as [|[p w] st].
    - injection Hd as <-. cbn [map filter] in Hg, HT.
      destruct fg; [discriminate|]. destruct fT; [discriminate|]. cbn [pre_loop] in Hg, HT.
      split; [congruence|]. intros p w Hx1 Hx2. congruence.
    - destruct (si_st _ _ _ _ Hsi p w (or_introl eq_refl)) as [Hpt Hpe].
      cbn [map snd] in Hg. destruct fg as [|fg]; [discriminate|]. cbn [pre_loop] in Hg. rewrite (si_vis _ _ _ _ Hsi w) in Hg.
      destruct (has_vertex t w) eqn:Hvw.
      + assert (HT' : exists fT', pre_loop fT' T (map snd (filter inT st)) vis orev = Ok lT).
        { cbn [filter] in HT. destruct (inT (p, w)); [|eauto]. cbn [map snd] in HT.
          destruct fT as [|fT]; [discriminate|]. cbn [pre_loop] in HT. rewrite (si_vis _ _ _ _ Hsi w), Hvw in HT. eauto. }
        destruct HT' as [fT' HT'].
        apply (IH st t vis orev) with (fg := fg) (fT := fT'); auto.
        destruct Hsi. constructor; auto.
        * intros p' w' Hin. apply si_st0. right. exact Hin.
        * intros x y Hx Hxy. destruct (si_K0 x y Hx Hxy) as [|[[= <- <-]|Hin]]; auto.
        * inversion si_S0; assumption.
      + destruct (discover t p w (si_inv _ _ _ _ Hsi) Hvw Hpt) as [t1 [t2 [Hd1 [Hd2 [Hg2 [Hv2 He2]]]]]].
        rewrite Hd1 in Hd. cbn [bind] in Hd. rewrite Hd2 in Hd. cbn [bind] in Hd.
        assert (Hgw : has_vertex g w = true).
        { apply has_edge_keys in Hpe. apply (has_edge_vertices g p w Hgi Hpe). }
        destruct (succs_of_spec g w Hgi Hgw) as [ss [Hss [Hsorted Hssin]]].
        rewrite Hss in Hd, Hg. cbn [bind] in Hd, Hg.
        assert (Hwo : ~ In w orev) by (intros Hx; apply (si_or _ _ _ _ Hsi) in Hx; congruence).
        assert (Hsi' : SI (rev (map (fun s => (w, s)) ss) ++ st) t2 (ns_insert w vis) (w :: orev)).
        { destruct Hsi. constructor; auto.
          - intros x. rewrite ns_mem_ins, Hv2, si_vis0. reflexivity.
          - intros x. rewrite Hv2, orb_true_iff, N.eqb_eq. cbn [In]. rewrite si_or0. split; intros [Hx|Hx]; auto.
          - constructor; auto.
          - intros a b Hin. apply in_app_or in Hin. destruct Hin as [Hin|Hin].
            + apply in_rev, in_map_iff in Hin. destruct Hin as [s [[= <- <-] Hs]]. split.
              * rewrite Hv2, N.eqb_refl. reflexivity.
              * apply has_edge_keys, Hssin. exact Hs.
            + destruct (si_st0 a b (or_intror Hin)) as [Ha Hab]. split; auto. rewrite Hv2, Ha. apply orb_true_r.
          - intros x y. rewrite !Hv2, !orb_true_iff, !N.eqb_eq. intros [->|Hx] Hxy.
            + right. apply in_or_app. left. apply in_rev. rewrite rev_involutive. apply in_map_iff. exists y. split; auto.
              apply Hssin, has_edge_keys. exact Hxy.
            + destruct (si_K0 x y Hx Hxy) as [Hy|[[= <- <-]|Hin]]; auto. right. apply in_or_app. auto.
          - apply ss_app.
            + intros a b Ha _. apply in_rev, in_map_iff in Ha. destruct Ha as [s [<- _]]. cbn [fst idx]. rewrite N.eqb_refl. lia.
            + inversion si_S0 as [|? ? Hs' _]; subst. eapply ss_impl; [|exact Hs'].
              intros [a1 b1] [a2 b2] Hx1 Hx2. cbn [fst idx].
              destruct (si_st0 a1 b1 (or_intror Hx1)) as [Hv1 _]. destruct (si_st0 a2 b2 (or_intror Hx2)) as [Hv2' _].
              destruct (N.eqb_spec a1 w) as [->|_]; [congruence|]. destruct (N.eqb_spec a2 w) as [->|_]; [congruence|]. lia. }
        assert (HTpw : has_edge T p w = true).
        { apply (dfs_mono f _ t2 Hg2 (fun a b Hin => proj1 (si_st _ _ _ _ Hsi' a b Hin)) Hd).
          rewrite He2. unfold edge_eqb, pair_eqb. cbn. rewrite !N.eqb_refl. reflexivity. }
        assert (HTw : has_vertex T w = true) by apply (has_edge_vertices T p w HgT HTpw).
        pose proof (succs_T w ss HTw Hgw Hss) as HsT.
        cbn [filter] in HT. unfold inT at 1 in HT. cbn [fst snd] in HT. rewrite HTpw in HT. cbn [map snd] in HT.
        destruct fT as [|fT]; [discriminate|]. cbn [pre_loop] in HT. rewrite (si_vis _ _ _ _ Hsi w), Hvw, HsT in HT. cbn [bind] in HT.
        rewrite <- (filt_W w ss), <- map_app, <- filter_app in HT.
        rewrite <- (map_W w ss), <- map_app in Hg.
        destruct (IH _ t2 _ _ Hsi' Hd fg fT lg lT Hg HT) as [Heq Hgood]. split; [exact Heq|].
        intros a b Hab Hnab. destruct (edge_eqb (a, b) (p, w)) eqn:Heab.
        * apply edge_eqb_eq in Heab. injection Heab as -> ->.
          destruct (pre_loop_prefix g fg _ _ _ _ Hg) as [rest Hlg]. cbn [rev] in Hlg. rewrite <- app_assoc in Hlg. cbn [app] in Hlg.
          assert (Hwr : ~ In w (rev orev)) by (rewrite <- in_rev; exact Hwo).
          assert (Hpo : In p orev) by (apply (si_or _ _ _ _ Hsi); exact Hpt).
          assert (Hidw : idx w lg = length (rev orev)) by (rewrite Hlg; apply idx_split; exact Hwr).
          assert (Hidin : forall x, In x orev -> idx x lg = idx x (rev orev)).
          { intros x Hx. rewrite Hlg. apply idx_app_in. rewrite <- in_rev. exact Hx. }
          split.
          -- rewrite Hidw, (Hidin p Hpo). apply idx_lt. rewrite <- in_rev. exact Hpo.
          -- intros x Hx Hxw Hlt. rewrite Hidw in Hlt.
             assert (Hxo : In x orev).
             { destruct (in_dec N.eq_dec x (rev orev)) as [Hi|Hni]; [apply in_rev; exact Hi|].
               rewrite Hlg, (idx_app_notin x _ _ Hni) in Hlt. lia. }
             rewrite (Hidin x Hxo), (Hidin p Hpo).
             destruct (Nat.le_gt_cases (idx x (rev orev)) (idx p (rev orev))) as [|Hgt]; auto. exfalso.
             pose proof (idx_rev x orev (si_nd _ _ _ _ Hsi) Hxo). pose proof (idx_rev p orev (si_nd _ _ _ _ Hsi) Hpo).
             assert (Hxt : has_vertex t x = true) by (apply (si_or _ _ _ _ Hsi); exact Hxo).
             destruct (si_K _ _ _ _ Hsi x w Hxt Hxw) as [Hy|[[= ->]|Hin]]; [congruence|lia|].
             pose proof (si_S _ _ _ _ Hsi) as Hs. inversion Hs as [|? ? _ Hall]; subst. rewrite Forall_forall in Hall.
             specialize (Hall _ Hin). cbn [fst] in Hall. lia.
        * apply Hgood; auto. rewrite He2, Heab, Hnab. reflexivity.
  Qed.
End Sim.

Lemma pre_loop_first {V E : Type} `{Vertex V} `{Edge E} (gg : graph V E) f r' :
  pre_loop (S f) gg [r'] [] [] = (ss <- succs_of gg r' ;; pre_loop f gg (rev ss ++ []) (ns_insert r' []) [r']).
Proof. reflexivity. Qed.

Section Top.
  Context {V E : Type} `{Vertex V} `{Edge E}.
  Variable g : graph V E.
  Hypothesis Hgi : graph_inv g.
  Variable r : N.
  Hypothesis Hr : has_vertex g r = true.
  Let es := edge_keys g.

  (* [U] the numbering Semi-NCA uses (pre-order of the DFS tree) is the depth-first pre-order of the graph itself, and
     the tree parent of w is the latest-numbered predecessor of w among those numbered before w *)
  Theorem dfs_tree_pre_order T l : compute_dfs_tree g r = Ok T -> compute_pre_order T r = Ok l ->
    compute_pre_order g r = Ok l /\ forall p w, has_edge T p w = true -> GOOD g l p w.
  Proof.
    intros HT Hl.
    destruct (compute_dfs_tree_correct g Hgi r Hr) as [t [Ht [HgT [Fv [Fe _]]]]]. rewrite HT in Ht. injection Ht as <-.
    destruct (compute_pre_order_correct g Hgi r Hr) as [lg [Hlg0 _]]. pose proof Hlg0 as Hlg.
    assert (HTe : forall a b, has_edge T a b = true -> has_edge g a b = true).
    { intros a b Hab. apply has_edge_keys. apply (Fe a b Hab). }
    assert (HTr : has_vertex T r = true) by (apply Fv; exists []; constructor).
    unfold compute_pre_order in Hlg, Hl. rewrite Hr in Hlg. rewrite HTr in Hl. cbn [negb] in Hlg, Hl.
    unfold fuel_e in Hlg, Hl. rewrite pre_loop_first in Hlg. rewrite pre_loop_first in Hl.
    destruct (succs_of_spec g r Hgi Hr) as [ss [Hss [_ Hssin]]].
    rewrite Hss in Hlg. pose proof (succs_T g Hgi T HgT HTe r ss HTr Hr Hss) as HsT. rewrite HsT in Hl. cbn [bind] in Hlg, Hl.
    rewrite app_nil_r, <- (map_W r ss) in Hlg. rewrite app_nil_r, <- (filt_W T r ss) in Hl.
    unfold compute_dfs_tree in HT. rewrite Hr in HT. cbn [negb] in HT.
    destruct (insert_vertex_inv (new : tree) r graph_inv_new eq_refl) as [t0 [Hr0 [Hg0 [Hv0 He0]]]].
    cbn [vindex null_vertex_Vertex] in *. unfold tree, null_vertex, null_edge in *. rewrite Hr0 in HT. cbn [bind] in HT.
    rewrite Hss in HT. cbn [bind] in HT.
    assert (Hhv0 : forall x, has_vertex t0 x = (x =? r)).
    { intros x. unfold has_vertex. rewrite Hv0, nm_mem_insert. cbn. rewrite orb_false_r. reflexivity. }
    assert (Hhe0 : forall a b, has_edge t0 a b = false) by (intros a b; unfold has_edge; rewrite He0; reflexivity).
    assert (Hsi : SI g (rev (map (fun s => (r, s)) ss)) t0 (ns_insert r []) [r]).
    { constructor; auto.
      - intros x. rewrite ns_mem_ins, Hhv0. change (ns_mem x []) with false. apply orb_false_r.
      - intros x. rewrite Hhv0, N.eqb_eq. cbn [In]. split; [intros [->|[]]; reflexivity|auto].
      - constructor; [intros []|constructor].
      - intros p w Hin. apply in_rev, in_map_iff in Hin. destruct Hin as [s [[= <- <-] Hs]]. split.
        + rewrite Hhv0. apply N.eqb_refl.
        + apply has_edge_keys, Hssin. exact Hs.
      - intros x y. rewrite Hhv0, N.eqb_eq. intros -> Hxy. right. apply in_rev. rewrite rev_involutive. apply in_map_iff.
        exists y. split; auto. apply Hssin, has_edge_keys. exact Hxy.
      - rewrite <- (app_nil_r (rev _)). apply ss_app; [|constructor].
        intros a b Ha _. apply in_rev, in_map_iff in Ha. destruct Ha as [s [<- _]]. cbn [fst idx]. rewrite N.eqb_refl. lia. }
    destruct (sim g Hgi T HgT HTe _ _ _ _ _ Hsi HT _ _ lg l Hlg Hl) as [Heq Hgood].
    split; [rewrite <- Heq; exact Hlg0|]. intros p w Hpw. rewrite <- Heq. apply Hgood; auto.
  Qed.
End Top.
