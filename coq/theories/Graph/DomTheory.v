(* Graph/DomTheory.v -- facts about the textbook dominance relation that justify the derivations the
   code performs from the immediate-dominator map (compute_dominators walks the dominator tree and
   sets doms(v) = {v} + doms(idom v); doms(root) = {root}). *)
From Coq Require Import NArith List Bool Lia Wf_nat.
From Falcon Require Import Graph.Spec Graph.Oracle Graph.OracleProofs.
Import ListNotations.
Local Open Scope N_scope.

Section DomTheory.
  Variable es : list (N * N).
  Variable r : N.

  Lemma path_split a l b x : path es a l b -> In x (a :: l) ->
    exists l1 l2, l = l1 ++ l2 /\ path es a l1 x /\ path es x l2 b.
  Proof.
    induction 1 as [a|a b' l c He Hp IH]; intros Hx.
    - destruct Hx as [<-|[]]. exists [], []. repeat split; constructor.
    - destruct Hx as [<-|Hx].
      + exists [], (b' :: l). repeat split; [constructor|]. apply path_cons with (1 := He). exact Hp.
      + destruct (IH Hx) as [l1 [l2 [-> [H1 H2]]]]. exists (b' :: l1), l2. repeat split; auto.
        apply path_cons with (1 := He). exact H1.
  Qed.

  Lemma reach_root : reach es r r.
  Proof. exists []. constructor. Qed.

  Lemma dom_reach_dominator d v : dom es r d v -> reach es r d.
  Proof.
    intros [[l Hp] Hd]. destruct (path_split r l v d Hp (Hd l Hp)) as [l1 [_ [_ [H1 _]]]]. exists l1. exact H1.
  Qed.

  Lemma dom_trans d i v : dom es r d i -> dom es r i v -> dom es r d v.
  Proof.
    intros [_ Hdi] [Hrv Hiv]. split; auto. intros l Hp.
    destruct (path_split r l v i Hp (Hiv l Hp)) as [l1 [l2 [-> [H1 _]]]].
    specialize (Hdi l1 H1). destruct Hdi as [<-|Hin]; [left; auto|]. right. apply in_or_app. auto.
  Qed.

  (* the root is dominated by itself only *)
  Lemma dom_root d : dom es r d r <-> d = r.
  Proof.
    split.
    - intros [_ Hd]. specialize (Hd [] (path_nil es r)). destruct Hd as [<-|[]]. reflexivity.
    - intros ->. apply dom_refl. apply reach_root.
  Qed.

  (* the root dominates every reachable vertex *)
  Lemma dom_root_all v : reach es r v -> dom es r r v.
  Proof. intros Hr. split; auto. intros l _. left. reflexivity. Qed.

  (* [U] the derivation of compute_dominators: the dominators of v are v and the dominators of idom v *)
  Theorem dom_of_idom i v : idom es r i v -> forall d, dom es r d v <-> (d = v \/ dom es r d i).
  Proof.
    intros [[Hiv Hne] Hall] d. split.
    - intros Hd. destruct (N.eq_dec d v) as [->|Hdv]; auto. right. apply Hall. split; auto.
    - intros [->|Hdi].
      + apply dom_refl. apply Hiv.
      + eapply dom_trans; eauto.
  Qed.

  (* a vertex that has an immediate dominator is reachable and is not the root *)
  Lemma idom_not_root i v : idom es r i v -> v <> r /\ reach es r v.
  Proof.
    intros [[Hiv Hne] _]. split; [|apply Hiv]. intros ->. apply dom_root in Hiv. congruence.
  Qed.

  (* back edges are exactly the edges whose target is in the dominator set of the source *)
  Lemma back_edge_dom a b : back_edge es r a b <-> (edge es a b /\ dom es r b a).
  Proof. unfold back_edge. tauto. Qed.

  (* dominance is antisymmetric: from a path to b one gets a strictly shorter one, ad infinitum *)
  Lemma dom_antisym a b : dom es r a b -> dom es r b a -> a = b.
  Proof.
    intros [[l0 Hp0] Hab] [_ Hba]. destruct (N.eq_dec a b) as [|Hne]; auto. exfalso.
    assert (Hdesc : forall n l, length l = n -> path es r l b -> False).
    { induction n as [n IH] using lt_wf_ind. intros l Hlen Hp.
      destruct (path_split r l b a Hp (Hab l Hp)) as [l1 [l2 [-> [H1 H2]]]].
      assert (Hl2 : l2 <> []) by (intros ->; inversion H2; congruence).
      destruct (path_split r l1 a b H1 (Hba l1 H1)) as [m1 [m2 [-> [H3 _]]]].
      assert (Hlt : (length m1 < n)%nat).
      { rewrite <- Hlen, !app_length. destruct l2; [congruence|]. cbn. lia. }
      exact (IH _ Hlt m1 eq_refl H3). }
    eapply Hdesc; eauto.
  Qed.

  (* [U] the derivation of compute_dominance_frontiers at a join point y with immediate dominator i:
     y is in the frontier of exactly the dominators x of a predecessor p of y that do not dominate i
     -- the vertices the runner visits walking up the idom chain from p until it meets i *)
  Theorem df_of_idom i y : idom es r i y ->
    forall x, in_DF es r x y <-> exists p, edge es p y /\ dom es r x p /\ ~ dom es r x i.
  Proof.
    intros [[Hiy Hne] Hall] x. unfold in_DF. split.
    - intros [p [Hp [Hxp Hns]]]. exists p. split; [exact Hp|]. split; [exact Hxp|].
      intros Hxi. apply Hns. split; [eapply dom_trans; eauto|].
      intros ->. apply Hne. apply dom_antisym; auto.
    - intros [p [Hp [Hxp Hnd]]]. exists p. split; [exact Hp|]. split; [exact Hxp|].
      intros Hs. apply Hnd. apply Hall. exact Hs.
  Qed.

  (* ... and at the start node, which nothing dominates strictly: the whole chain of every predecessor *)
  Theorem df_of_root x : in_DF es r x r <-> exists p, edge es p r /\ dom es r x p.
  Proof.
    unfold in_DF. split.
    - intros [p [Hp [Hxp _]]]. eauto.
    - intros [p [Hp Hxp]]. exists p. split; [exact Hp|]. split; [exact Hxp|].
      intros [Hd Hne]. apply dom_root in Hd. congruence.
  Qed.
End DomTheory.
