(* Graph/FrontierModel.v -- [U] the MODEL function compute_dominance_frontiers (runner loops with the start-node case,
   fuel included) is correct whenever the idom map passes idom_check: it returns Ok, every vertex of the graph is
   a key, and y is in the set of x exactly when y is in the textbook dominance frontier of x.  In particular a
   vertex that is unreachable from the start node has an empty frontier and occurs in no frontier. *)
From Coq Require Import NArith List Bool Lia Wf_nat.
From Falcon Require Import Base.Res Graph.NMap Graph.NMapFacts Graph.Graph Graph.GraphInv Graph.Algo Graph.Spec
  Graph.Oracle Graph.OracleProofs Graph.DomTheory Graph.ClosureTotal Graph.IdomExists Graph.LoopProofs
  Graph.BackEdges Graph.ReachProofs Graph.DomModel.
Import ListNotations.
Local Open Scope N_scope.

Lemma path_last_edge_split es a l b : path es a l b -> l <> [] ->
  exists l1 q, l = l1 ++ [b] /\ path es a l1 q /\ edge es q b.
Proof.
  induction 1 as [a|a c l b He Hp IH]; intros Hne; [congruence|].
  destruct l as [|d l].
  - inversion Hp; subst. exists [], a. repeat split; auto. constructor.
  - destruct IH as [l1 [q [Heq [H1 H2]]]]; [discriminate|]. rewrite Heq.
    exists (c :: l1), q. repeat split; auto. apply path_cons with (1 := He). exact H1.
Qed.

Section Frontier.
  Context {V E : Type} `{Vertex V} `{Edge E}.
  Variable g : graph V E.
  Hypothesis Hgi : graph_inv g.
  Variable r : N.
  Hypothesis Hr : has_vertex g r = true.
  Let es := edge_keys g.
  Let vs := vertex_indices g.
  Variable m : nmap N.
  Hypothesis Hm : compute_immediate_dominators g r = Ok m.
  Hypothesis Hchk : idom_check vs es r m = true.

  Lemma m_get x d : nm_get x m = Some d <-> idom es r d x.
  Proof.
    rewrite (nm_get_in x d m (idoms_sorted g r m Hm)). apply (m_spec g r m Hm Hchk).
  Qed.
  Lemma m_none x : nm_get x m = None <-> (x = r \/ ~ reach es r x).
  Proof.
    rewrite <- nm_mem_false_get. pose proof (key_spec g r m Hm Hchk x) as Hk. rewrite <- nm_mem_in in Hk.
    destruct (nm_mem x m).
    - split; [discriminate|]. intros [Hx|Hn]; destruct (proj1 Hk eq_refl) as [Hre Hne]; [contradiction|contradiction].
    - split; auto. intros _. destruct (N.eq_dec x r); auto. right. intros Hre.
      assert (false = true) by (apply Hk; auto). discriminate.
  Qed.
  Lemma reach_vertex x : reach es r x -> has_vertex g x = true.
  Proof. apply (reach_has_vertex g Hgi r Hr). Qed.

  (* the measure that bounds the walks up the idom chain: the number of keys that dominate the runner *)
  Let tab := mk_tab [] es r.
  Definition cnt (x : N) : nat := length (filter (fun k => dom_b tab k x) (map fst m)).
  Lemma dom_b_tab k x : dom_b tab k x = true <-> dom es r k x.
  Proof. apply (dom_b_spec [] es r (tab_ok_always _ _ _)). Qed.
  Lemma cnt_le x : (cnt x <= length m)%nat.
  Proof.
    unfold cnt. rewrite <- (map_length fst m). generalize (map fst m). intros l.
    induction l as [|a l IH]; cbn; auto. destruct (dom_b tab a x); cbn; lia.
  Qed.
  Lemma cnt_step p p' : idom es r p' p -> (cnt p' < cnt p)%nat.
  Proof.
    intros Hi. unfold cnt. apply filter_length_lt with (a := p).
    - intros k _. rewrite !dom_b_tab. intros Hk. eapply dom_trans; eauto. apply Hi.
    - apply (key_spec g r m Hm Hchk). destruct (idom_not_root es r p' p Hi). tauto.
    - apply dom_b_tab. apply dom_refl. apply Hi.
    - destruct (dom_b tab p p') eqn:Hb; auto. exfalso. apply dom_b_tab in Hb.
      destruct Hi as [[Hd Hne] _]. apply Hne. apply (dom_antisym es r); auto.
  Qed.

  (* what a frontier map means *)
  Definition DFI (df : nmap nset) (S : N -> N -> Prop) : Prop :=
    (forall x, nm_mem x df = has_vertex g x) /\
    forall x F, nm_get x df = Some F -> forall z, In z F <-> S x z.
  Lemma DFI_ext df S S' : (forall x z, S x z <-> S' x z) -> DFI df S -> DFI df S'.
  Proof. intros He [Hk Hs]. split; auto. intros x F Hg z. rewrite (Hs x F Hg z). apply He. Qed.

  Lemma DFI_add df S p y : DFI df S -> has_vertex g p = true ->
    exists s, nm_idx p df = Ok s /\ DFI (nm_insert p (ns_insert y s) df) (fun x z => S x z \/ (z = y /\ x = p)).
  Proof.
    intros [Hk Hs] Hp. assert (Hmem : nm_mem p df = true) by (rewrite Hk; exact Hp).
    apply nm_mem_get in Hmem. destruct Hmem as [s Hg]. exists s. unfold nm_idx. rewrite Hg. split; [reflexivity|]. split.
    - intros x. rewrite nm_mem_insert, Hk. destruct (N.eqb_spec x p) as [->|]; auto.
    - intros x F. destruct (N.eq_dec x p) as [->|Hne].
      + rewrite nm_get_insert_same. intros [= <-] z. rewrite ns_insert_in, (Hs p s Hg z). intuition.
      + rewrite nm_get_insert_other by assumption. intros Hgx z. rewrite (Hs x F Hgx z). intuition.
  Qed.

  (* runner with a stop vertex: `while runner != i { df[runner].insert(y); runner = idoms[runner] }` *)
  Lemma run_some i y fuel : forall df p S,
    DFI df S -> dom es r i p -> (cnt p < fuel)%nat ->
    exists df', df_run fuel m df p (Some i) y = Ok df' /\
                DFI df' (fun x z => S x z \/ (z = y /\ dom es r x p /\ ~ dom es r x i)).
  Proof.
    induction fuel as [|f IH]; intros df p S HD Hip Hc; [lia|]. cbn [df_run].
    destruct (N.eqb_spec p i) as [->|Hne].
    - exists df. split; [reflexivity|]. eapply DFI_ext; [|exact HD]. intros x z. tauto.
    - assert (Hrp : reach es r p) by apply Hip.
      destruct (DFI_add df S p y HD (reach_vertex p Hrp)) as [s [Hs HD']]. rewrite Hs. cbn [bind].
      assert (Hpr : p <> r). { intros ->. apply dom_root in Hip. congruence. }
      destruct (idom_exists es r p Hrp Hpr) as [p' Hp'].
      rewrite (proj2 (m_get p p') Hp').
      assert (Hip' : dom es r i p') by (apply Hp'; split; auto).
      destruct (IH _ p' _ HD' Hip') as [df' [Hrun HD'']].
      { pose proof (cnt_step p p' Hp'). lia. }
      exists df'. split; [exact Hrun|]. eapply DFI_ext; [|exact HD'']. intros x z. cbn beta.
      rewrite (dom_of_idom es r p' p Hp' x). split.
      + intros [[Hs0|[-> ->]]|[-> [Hd Hn]]]; auto. right. split; auto. split; auto.
        intros Hpi. apply Hne. apply (dom_antisym es r); auto.
      + intros [Hs0|[-> [[->|Hd] Hn]]]; auto.
  Qed.

  (* runner of the start-node case: `loop { df[runner].insert(start); if no idom {break}; runner = idoms[runner] }` *)
  Lemma run_none fuel : forall df p S,
    DFI df S -> reach es r p -> (cnt p < fuel)%nat ->
    exists df', df_run fuel m df p None r = Ok df' /\ DFI df' (fun x z => S x z \/ (z = r /\ dom es r x p)).
  Proof.
    induction fuel as [|f IH]; intros df p S HD Hrp Hc; [lia|]. cbn [df_run].
    destruct (DFI_add df S p r HD (reach_vertex p Hrp)) as [s [Hs HD']]. rewrite Hs. cbn [bind].
    destruct (N.eq_dec p r) as [->|Hpr].
    - rewrite (proj2 (m_none r) (or_introl eq_refl)). eexists. split; [reflexivity|].
      eapply DFI_ext; [|exact HD']. intros x z. cbn beta. rewrite dom_root. tauto.
    - destruct (idom_exists es r p Hrp Hpr) as [p' Hp']. rewrite (proj2 (m_get p p') Hp').
      assert (Hrp' : reach es r p') by exact (dom_reach_dominator es r p' p (proj1 (proj1 Hp'))).
      destruct (IH _ p' _ HD' Hrp') as [df' [Hrun HD'']].
      { pose proof (cnt_step p p' Hp'). lia. }
      exists df'. split; [exact Hrun|]. eapply DFI_ext; [|exact HD'']. intros x z. cbn beta.
      rewrite (dom_of_idom es r p' p Hp' x). split.
      + intros [[Hs0|[-> ->]]|[-> Hd]]; auto.
      + intros [Hs0|[-> [->|Hd]]]; auto.
  Qed.

  Lemma reachable_pred_spec p : df_reachable_pred m r p = true <-> reach es r p.
  Proof.
    unfold df_reachable_pred. rewrite orb_true_iff, N.eqb_eq, nm_mem_in, (key_spec g r m Hm Hchk p). split.
    - intros [->|[? _]]; auto. apply reach_root.
    - intros Hre. destruct (N.eq_dec p r); auto.
  Qed.

  Definition fuel0 : nat := S (S (length m)).
  Lemma fuel0_ok x : (cnt x < fuel0)%nat.
  Proof. pose proof (cnt_le x). unfold fuel0. lia. Qed.

  Lemma idom_dom_pred i y p : idom es r i y -> edge es p y -> reach es r p -> dom es r i p.
  Proof.
    intros [[[_ Hd] Hne] _] He Hrp. split; auto. intros l Hp.
    specialize (Hd (l ++ [y]) (path_snoc es r l p y Hp He)).
    change (r :: l ++ [y]) with ((r :: l) ++ [y]) in Hd. apply in_app_or in Hd.
    destruct Hd as [|[->|[]]]; auto. congruence.
  Qed.

  Lemma inner_some i y (ps : list N) : idom es r i y -> (forall p, In p ps -> edge es p y) ->
    forall df S, DFI df S ->
    exists df', fold_left (fun acc2 p => df2 <- acc2 ;;
                             if negb (df_reachable_pred m r p) then Ok df2
                             else df_run fuel0 m df2 p (Some i) y) ps (Ok df) = Ok df' /\
                DFI df' (fun x z => S x z \/ (z = y /\ exists p, In p ps /\ dom es r x p /\ ~ dom es r x i)).
  Proof.
    intros Hi. induction ps as [|p ps IH]; intros Hed df S HD; cbn [fold_left].
    - exists df. split; [reflexivity|]. eapply DFI_ext; [|exact HD]. intros x z. split; auto.
      intros [|[_ [p [[] _]]]]; auto.
    - cbn [bind]. destruct (df_reachable_pred m r p) eqn:Hrp; cbn [negb].
      + apply reachable_pred_spec in Hrp.
        destruct (run_some i y fuel0 df p S HD (idom_dom_pred i y p Hi (Hed p (or_introl eq_refl)) Hrp) (fuel0_ok p))
          as [df1 [Hrun HD1]]. rewrite Hrun.
        destruct (IH (fun q Hq => Hed q (or_intror Hq)) df1 _ HD1) as [df' [Hf HD']].
        exists df'. split; [exact Hf|]. eapply DFI_ext; [|exact HD']. intros x z. cbn beta. split.
        * intros [[Hs|[-> Hc]]|[-> [q [Hq Hc]]]]; auto; right; split; auto; [exists p|exists q]; split; auto; [left|right]; auto.
        * intros [Hs|[-> [q [[<-|Hq] Hc]]]]; auto. right. split; auto. exists q. auto.
      + assert (Hnr : ~ reach es r p) by (intros Hre; apply reachable_pred_spec in Hre; congruence).
        destruct (IH (fun q Hq => Hed q (or_intror Hq)) df S HD) as [df' [Hf HD']].
        exists df'. split; [exact Hf|]. eapply DFI_ext; [|exact HD']. intros x z. cbn beta. split.
        * intros [Hs|[-> [q [Hq Hc]]]]; auto. right. split; auto. exists q. split; [right|]; auto.
        * intros [Hs|[-> [q [[<-|Hq] Hc]]]]; auto; [|right; split; auto; exists q; auto].
          exfalso. apply Hnr. apply Hc.
  Qed.

  Lemma inner_none (ps : list N) : forall df S, DFI df S ->
    exists df', fold_left (fun acc p => df <- acc ;;
                             if negb (df_reachable_pred m r p) then Ok df
                             else df_run fuel0 m df p None r) ps (Ok df) = Ok df' /\
                DFI df' (fun x z => S x z \/ (z = r /\ exists p, In p ps /\ dom es r x p)).
  Proof.
    induction ps as [|p ps IH]; intros df S HD; cbn [fold_left].
    - exists df. split; [reflexivity|]. eapply DFI_ext; [|exact HD]. intros x z. split; auto.
      intros [|[_ [p [[] _]]]]; auto.
    - cbn [bind]. destruct (df_reachable_pred m r p) eqn:Hrp; cbn [negb].
      + apply reachable_pred_spec in Hrp.
        destruct (run_none fuel0 df p S HD Hrp (fuel0_ok p)) as [df1 [Hrun HD1]]. rewrite Hrun.
        destruct (IH df1 _ HD1) as [df' [Hf HD']].
        exists df'. split; [exact Hf|]. eapply DFI_ext; [|exact HD']. intros x z. cbn beta. split.
        * intros [[Hs|[-> Hc]]|[-> [q [Hq Hc]]]]; auto; right; split; auto; [exists p|exists q]; split; auto; [left|right]; auto.
        * intros [Hs|[-> [q [[<-|Hq] Hc]]]]; auto. right. split; auto. exists q. auto.
      + assert (Hnr : ~ reach es r p) by (intros Hre; apply reachable_pred_spec in Hre; congruence).
        destruct (IH df S HD) as [df' [Hf HD']].
        exists df'. split; [exact Hf|]. eapply DFI_ext; [|exact HD']. intros x z. cbn beta. split.
        * intros [Hs|[-> [q [Hq Hc]]]]; auto. right. split; auto. exists q. split; [right|]; auto.
        * intros [Hs|[-> [q [[<-|Hq] Hc]]]]; auto; [|right; split; auto; exists q; auto].
          exfalso. apply Hnr. apply Hc.
  Qed.

  (* a vertex other than the root with fewer than two predecessors is in no frontier *)
  Lemma few_preds_no_df y (ps : list N) x : y <> r -> (forall p, In p ps <-> edge es p y) -> (length ps < 2)%nat ->
    ~ in_DF es r x y.
  Proof.
    intros Hyr Hps Hlen [p [Hpy [Hxp Hns]]].
    assert (Hall : forall q, edge es q y -> q = p).
    { intros q Hq. apply Hps in Hq. apply Hps in Hpy. destruct ps as [|a [|b ps]]; cbn in Hlen; try lia.
      - destruct Hq.
      - destruct Hq as [<-|[]]. destruct Hpy as [<-|[]]. reflexivity. }
    assert (Hry : reach es r y).
    { destruct Hxp as [[l Hl] _]. exists (l ++ [y]). eapply path_snoc; eauto. }
    assert (Hdec : forall l, path es r l y -> exists l1, l = l1 ++ [y] /\ path es r l1 p).
    { intros l Hl. assert (Hne : l <> []) by (intros ->; inversion Hl; congruence).
      destruct (path_last_edge_split es r l y Hl Hne) as [l1 [q [-> [H1 H2]]]].
      apply Hall in H2. subst q. eauto. }
    apply Hns. split.
    - split; auto. intros l Hl. destruct (Hdec l Hl) as [l1 [-> H1]].
      destruct Hxp as [_ Hd]. specialize (Hd l1 H1).
      change (r :: l1 ++ [y]) with ((r :: l1) ++ [y]). apply in_or_app. auto.
    - intros ->.
      (* y would dominate its only predecessor: every path to y contains a strictly shorter one *)
      assert (Hdesc : forall n l, length l = n -> path es r l y -> False).
      { induction n as [n IH] using lt_wf_ind. intros l Hlen' Hl.
        destruct (Hdec l Hl) as [l1 [-> H1]].
        destruct Hxp as [_ Hd]. specialize (Hd l1 H1).
        destruct (path_split es r l1 p y H1 Hd) as [a [b [-> [Ha _]]]].
        apply (IH (length a)) with (l := a); auto. rewrite <- Hlen', !app_length. cbn. lia. }
      destruct Hry as [l Hl]. eapply Hdesc; eauto.
  Qed.

  Definition Sdone (done : list N) (x z : N) : Prop := In z done /\ z <> r /\ in_DF es r x z.

  Definition vstep (acc : res (nmap nset)) (vertex : N) : res (nmap nset) :=
    df <- acc ;;
    ps <- preds_of g vertex ;;
    if (2 <=? N.of_nat (length ps)) then
      match nm_get vertex m with
      | None => Ok df
      | Some idom =>
        fold_left (fun acc2 p => df2 <- acc2 ;;
                     if negb (df_reachable_pred m r p) then Ok df2
                     else df_run fuel0 m df2 p (Some idom) vertex) ps (Ok df)
      end
    else Ok df.

  Lemma in_DF_reach x z : in_DF es r x z -> reach es r z.
  Proof. intros [p [Hp [[[l Hl] _] _]]]. exists (l ++ [z]). eapply path_snoc; eauto. Qed.

  Lemma outer (L : list N) : forall done df, (forall y, In y L -> has_vertex g y = true) -> DFI df (Sdone done) ->
    exists df', fold_left vstep L (Ok df) = Ok df' /\ DFI df' (Sdone (done ++ L)).
  Proof.
    induction L as [|y L IH]; intros done df Hv HD; cbn [fold_left].
    - exists df. rewrite app_nil_r. auto.
    - assert (Hstep : exists df1, vstep (Ok df) y = Ok df1 /\ DFI df1 (Sdone (done ++ [y]))).
      { unfold vstep. cbn [bind].
        destruct (preds_of_spec g y Hgi (Hv y (or_introl eq_refl))) as [ps [Hps [_ Hpsin]]]. rewrite Hps. cbn [bind].
        assert (Hpse : forall p, In p ps <-> edge es p y).
        { intros p. rewrite Hpsin. unfold edge, es. apply has_edge_keys. }
        assert (Hext : forall C : N -> Prop, (forall x, C x <-> (y <> r /\ in_DF es r x y)) ->
                  forall x z, (Sdone done x z \/ (z = y /\ C x)) <-> Sdone (done ++ [y]) x z).
        { intros C HC x z. unfold Sdone. rewrite in_app_iff. cbn [In]. split.
          - intros [[H1 [H2 H3]]|[-> Hc]]; [tauto|]. apply HC in Hc. tauto.
          - intros [[H1|[<-|[]]] [H2 H3]]; [tauto|]. right. split; auto. apply HC. auto. }
        destruct (2 <=? N.of_nat (length ps)) eqn:Hlen.
        - destruct (nm_get y m) as [i|] eqn:Hgy.
          + apply m_get in Hgy.
            destruct (inner_some i y ps Hgy (fun p Hp => proj1 (Hpse p) Hp) df _ HD) as [df1 [Hf HD1]].
            exists df1. split; [exact Hf|]. eapply DFI_ext; [|exact HD1].
            apply Hext with (C := fun x => exists p, In p ps /\ dom es r x p /\ ~ dom es r x i).
            intros x. rewrite (df_of_idom es r i y Hgy x). destruct (idom_not_root es r i y Hgy) as [Hyr _]. split.
            * intros [p [Hp Hc]]. split; auto. exists p. split; [apply Hpse; exact Hp|exact Hc].
            * intros [_ [p [Hp Hc]]]. exists p. split; [apply Hpse; exact Hp|exact Hc].
          + exists df. split; [reflexivity|]. eapply DFI_ext; [|exact HD].
            intros x z. rewrite <- (Hext (fun _ => False)); [tauto|].
            intros x0. split; [intros []|]. intros [Hyr Hin]. apply m_none in Hgy.
            destruct Hgy as [|Hn]; [congruence|]. apply Hn. eapply in_DF_reach; eauto.
        - exists df. split; [reflexivity|]. eapply DFI_ext; [|exact HD].
          intros x z. rewrite <- (Hext (fun _ => False)); [tauto|].
          intros x0. split; [intros []|]. intros [Hyr Hin].
          apply N.leb_gt in Hlen. eapply (few_preds_no_df y ps x0 Hyr Hpse); eauto. lia. }
      destruct Hstep as [df1 [Hs1 HD1]]. rewrite Hs1.
      destruct (IH (done ++ [y]) df1 (fun z Hz => Hv z (or_intror Hz)) HD1) as [df' [Hf HD']].
      exists df'. split; [exact Hf|]. rewrite <- app_assoc in HD'. exact HD'.
  Qed.

  Theorem compute_dominance_frontiers_correct :
    exists df, compute_dominance_frontiers g r = Ok df /\
      (forall x, nm_mem x df = has_vertex g x) /\
      (forall x F, nm_get x df = Some F -> forall y, In y F <-> in_DF es r x y).
  Proof.
    unfold compute_dominance_frontiers. rewrite Hm. cbn [bind].
    set (df0 := (map (fun v => (v, @nil N)) (vertex_indices g) : nmap nset)).
    assert (HD0 : DFI df0 (Sdone [])).
    { split.
      - intros x. unfold has_vertex.
        assert (Hkeys : map fst df0 = map fst (g_vertices g)).
        { unfold df0, vertex_indices. rewrite map_map. cbn [fst]. apply map_id. }
        destruct (nm_mem x df0) eqn:H1; destruct (nm_mem x (g_vertices g)) eqn:H2; auto.
        + apply nm_mem_in in H1. rewrite Hkeys in H1. apply nm_mem_in in H1. congruence.
        + apply nm_mem_in in H2. rewrite <- Hkeys in H2. apply nm_mem_in in H2. congruence.
      - intros x F Hg z. unfold nm_get in Hg. apply om_get_some_in in Hg; [|apply ncmp_eq].
        unfold df0 in Hg. apply in_map_iff in Hg. destruct Hg as [v [[= _ <-] _]]. unfold Sdone. cbn. tauto. }
    change (fold_left _ (vertex_indices g) (Ok df0)) with (fold_left vstep (vertex_indices g) (Ok df0)).
    destruct (outer (vertex_indices g) [] df0) as [df1 [Hf1 HD1]]; auto.
    { intros y Hy. apply has_vertex_keys. exact Hy. }
    rewrite Hf1. cbn [bind app] in *.
    destruct (preds_of_spec g r Hgi Hr) as [ps [Hps [_ Hpsin]]]. rewrite Hps. cbn [bind].
    destruct (inner_none ps df1 _ HD1) as [df2 [Hf2 HD2]].
    exists df2. split; [exact Hf2|]. destruct HD2 as [Hk Hs]. split; [exact Hk|].
    intros x F Hg y. rewrite (Hs x F Hg y). unfold Sdone. split.
    - intros [[_ [_ Hin]]|[-> [p [Hp Hd]]]]; auto. apply df_of_root. exists p. split; auto.
      unfold edge, es. apply has_edge_keys, Hpsin, Hp.
    - intros Hin. destruct (N.eq_dec y r) as [->|Hne].
      + right. split; auto. apply df_of_root in Hin. destruct Hin as [p [Hp Hd]]. exists p. split; auto.
        apply Hpsin, has_edge_keys. exact Hp.
      + left. split; [|auto]. apply has_vertex_keys. apply reach_vertex. eapply in_DF_reach; eauto.
  Qed.
End Frontier.
