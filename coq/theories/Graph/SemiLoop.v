(* Graph/SemiLoop.v -- towards unbounded Semi-NCA: the link-eval part of the model.
   `compress` (recursive path compression over the `ancestor` / `label` maps) is correct with respect to the forest
   invariant FI: for every processed vertex v (number > k), ancestor[v] = Some a with a a proper ancestor of v on the
   parent chain and label[v] = the minimum of semi over the chain (a, v]; unprocessed vertices have ancestor None and
   label = their own number.  After compress v, ancestor[v] is the first unprocessed vertex of the chain and label[v] the
   minimum of semi over all processed vertices of the chain of v. *)
From Coq Require Import NArith List Bool Lia.
From Falcon Require Import Base.Res Graph.NMap Graph.NMapFacts Graph.Graph Graph.GraphInv Graph.Algo.
Import ListNotations.
Local Open Scope N_scope.

Section Compress.
  Variable nn : N -> N.                 (* DFS number *)
  Variable par : N -> option N.         (* DFS tree parent *)
  Variable inord : N -> Prop.           (* numbered (reachable) vertices *)
  Hypothesis par_lt : forall v p, par v = Some p -> nn p < nn v /\ inord p.

  Variable S : nmap N.                  (* semi *)

  (* pmin a v m : m is the minimum of semi over the parent chain from v (included) up to a (excluded) *)
  Inductive pmin : N -> N -> N -> Prop :=
  | pm_one v a sv : par v = Some a -> nm_get v S = Some sv -> pmin a v sv
  | pm_step v p a sv m : par v = Some p -> nm_get v S = Some sv -> pmin a p m -> pmin a v (N.min sv m).

  Lemma pmin_lt a v m : pmin a v m -> nn a < nn v.
  Proof.
    induction 1 as [v a sv Hp _|v p a sv m Hp _ _ IH].
    - apply (par_lt v a Hp).
    - pose proof (proj1 (par_lt v p Hp)). lia.
  Qed.
  Lemma pmin_trans a u v m1 m2 : pmin u v m2 -> pmin a u m1 -> pmin a v (N.min m2 m1).
  Proof.
    induction 1 as [v u sv Hp Hs|v p u sv m Hp Hs Hpm IH]; intros Ha.
    - eapply pm_step; eauto.
    - specialize (IH Ha). rewrite <- N.min_assoc. eapply pm_step; eauto.
  Qed.

  Variable k : N.                       (* vertices with number > k are processed *)

  Record FI (anc : nmap (option N)) (lab : nmap N) : Prop := {
    fi_un : forall v, inord v -> nn v <= k -> nm_get v anc = Some None /\ nm_get v lab = Some (nn v);
    fi_pr : forall v, inord v -> k < nn v ->
              exists a m, nm_get v anc = Some (Some a) /\ nm_get v lab = Some m /\ pmin a v m /\ inord a }.

  Lemma compress_correct fuel : forall anc lab v,
    FI anc lab -> inord v -> k < nn v -> nn v < N.of_nat fuel ->
    exists anc' lab', compress fuel anc lab v = Ok (anc', lab') /\ FI anc' lab' /\
      (exists a m, nm_get v anc' = Some (Some a) /\ nm_get v lab' = Some m /\ pmin a v m /\ inord a /\ nn a <= k) /\
      (forall x, nn v < nn x -> nm_get x anc' = nm_get x anc /\ nm_get x lab' = nm_get x lab).
  Proof.
    induction fuel as [|f IH]; intros anc lab v Hfi Hv Hk Hf; [lia|]. cbn [compress].
    destruct (fi_pr _ _ Hfi v Hv Hk) as [u [mv [Hau [Hlv [Hpm Hu]]]]].
    unfold nm_idx. rewrite Hau. cbn [res_of_option bind].
    pose proof (pmin_lt u v mv Hpm) as Huv.
    destruct (N.le_gt_cases (nn u) k) as [Hle|Hgt].
    - destruct (fi_un _ _ Hfi u Hu Hle) as [Hnone _]. rewrite Hnone. cbn [res_of_option bind].
      exists anc, lab. split; [reflexivity|]. split; [exact Hfi|]. split; [exists u, mv; auto|auto].
    - destruct (fi_pr _ _ Hfi u Hu Hgt) as [a0 [m0 [Hau0 _]]]. rewrite Hau0. cbn [res_of_option bind].
      destruct (IH anc lab u Hfi Hu Hgt) as [anc1 [lab1 [Hc [Hfi1 [[a' [mu [Ha' [Hlu [Hpmu [Hina' Hka']]]]]] Hframe]]]]]; [lia|].
      rewrite Hc. cbn [bind fst snd].
      destruct (Hframe v Huv) as [Hav1 Hlv1].
      rewrite Hlu, Hlv1, Hlv. cbn [res_of_option bind]. rewrite Ha'. cbn [res_of_option bind].
      set (lab2 := if mu <? mv then nm_insert v mu lab1 else lab1).
      assert (Hlab2v : nm_get v lab2 = Some (N.min mv mu)).
      { unfold lab2. destruct (N.ltb_spec mu mv) as [Hlt|Hge].
        - rewrite nm_get_insert_same. f_equal. lia.
        - rewrite Hlv1, Hlv. f_equal. lia. }
      assert (Hlab2o : forall x, x <> v -> nm_get x lab2 = nm_get x lab1).
      { intros x Hx. unfold lab2. destruct (mu <? mv); auto. apply nm_get_insert_other. exact Hx. }
      exists (nm_insert v (Some a') anc1), lab2. split; [reflexivity|].
      pose proof (pmin_trans a' u v mu mv Hpm Hpmu) as Hpmv.
      split; [|split].
      + constructor.
        * intros x Hx Hxk. assert (Hne : x <> v) by (intros ->; lia).
          rewrite nm_get_insert_other, Hlab2o by assumption. apply (fi_un _ _ Hfi1 x Hx Hxk).
        * intros x Hx Hxk. destruct (N.eq_dec x v) as [->|Hne].
          -- exists a', (N.min mv mu). rewrite nm_get_insert_same. auto.
          -- rewrite nm_get_insert_other, Hlab2o by assumption. apply (fi_pr _ _ Hfi1 x Hx Hxk).
      + exists a', (N.min mv mu). rewrite nm_get_insert_same. auto.
      + intros x Hx. assert (Hne : x <> v) by (intros ->; lia).
        rewrite nm_get_insert_other, Hlab2o by assumption. apply Hframe. lia.
  Qed.
End Compress.

(* ------------------------------------------------------------------ facts about pmin *)
Section PminFacts.
  Variable nn : N -> N.
  Variable par : N -> option N.
  Variable inord : N -> Prop.
  Hypothesis par_lt : forall v p, par v = Some p -> nn p < nn v /\ inord p.

  (* u lies on the parent chain of v (v itself included) *)
  Inductive chainp : N -> N -> Prop :=
  | ch_refl v : chainp v v
  | ch_step v p u : par v = Some p -> chainp p u -> chainp v u.

  Lemma chainp_le v u : chainp v u -> nn u <= nn v.
  Proof. induction 1 as [|v p u Hp _ IH]; [lia|]. pose proof (proj1 (par_lt v p Hp)). lia. Qed.

  Lemma pmin_mono S S' a v m : (forall x sv, nm_get x S = Some sv -> nm_get x S' = Some sv) ->
    pmin par S a v m -> pmin par S' a v m.
  Proof. intros Hs. induction 1; [eapply pm_one|eapply pm_step]; eauto. Qed.

  Lemma pmin_chain S a v m : pmin par S a v m -> chainp v a.
  Proof. induction 1; eapply ch_step; eauto. constructor. Qed.

  (* the minimum is attained on the chain segment *)
  Lemma pmin_elem S a v m : pmin par S a v m -> exists u, chainp v u /\ nn a < nn u /\ nm_get u S = Some m.
  Proof.
    induction 1 as [v a sv Hp Hs|v p a sv m Hp Hs Hpm IH].
    - exists v. split; [constructor|]. split; auto. apply (par_lt v a Hp).
    - destruct IH as [u [Hc [Hlt Hu]]]. destruct (N.le_gt_cases sv m) as [Hle|Hgt].
      + exists v. split; [constructor|]. split; [|rewrite N.min_l by lia; exact Hs].
        pose proof (pmin_lt nn par inord par_lt S a p m Hpm). pose proof (proj1 (par_lt v p Hp)). lia.
      + exists u. split; [eapply ch_step; eauto|]. split; auto. rewrite N.min_r by lia. exact Hu.
  Qed.

  (* ... and is a lower bound for every element of the segment *)
  Lemma pmin_le S a v m : pmin par S a v m -> forall u, chainp v u -> nn a < nn u ->
    exists su, nm_get u S = Some su /\ m <= su.
  Proof.
    induction 1 as [v a sv Hp Hs|v p a sv m Hp Hs Hpm IH]; intros u Hc Hlt.
    - inversion Hc as [|? p' ? Hp' Hc']; subst; [exists sv; split; auto; lia|].
      rewrite Hp in Hp'. injection Hp' as <-. pose proof (chainp_le _ _ Hc'). lia.
    - inversion Hc as [|? p' ? Hp' Hc']; subst; [exists sv; split; auto; lia|].
      rewrite Hp in Hp'. injection Hp' as <-. destruct (IH u Hc' Hlt) as [su [Hsu Hle]]. exists su. split; auto. lia.
  Qed.
End PminFacts.
