(* Graph/Graph.v -- falcon::graph::Graph<V, E>: the data structure and its basic operations ONLY.
   Faithful transcription of /repo/lib/graph/mod.rs (struct Graph and the non-algorithmic methods).
   No proofs, no heavy imports: lemmas are in Graph/GraphInv.v, algorithms in Graph/Algo.v.

   Representation: the four BTreeMaps are key-sorted association lists (Graph/NMap.v); BTreeSet<usize> is
   a strictly ascending `list N`.  Iteration order of every view is ascending key order, as in Rust.
   Vertex ids are `N` (usize).  The payload types are generic; the Rust traits `Vertex`/`Edge` are the
   classes below (`vindex`, `ehead`, `etail`).

   Results: a method that can fail returns `res` (Ok | Err kind | Panic): `Err` for the `Error` values
   the Rust code returns, `Panic` for `unwrap()` / `map[&k]` on a missing adjacency entry.  Methods
   that cannot fail return plain values.  A mutator returns the new graph: `Err`/`Panic` means the
   caller keeps the old graph.  (In Rust every `Err` of insert_vertex / insert_edge / remove_edge and
   the initial GraphVertexNotFound of remove_vertex are returned BEFORE any mutation; the only
   error-after-partial-mutation is remove_vertex's inner `remove_edge(..)?`, which is unreachable on
   well-formed graphs: GraphInv.remove_vertex_ok.) *)
From Coq Require Import NArith List Bool.
From Falcon Require Import Base.Res Graph.NMap.
Import ListNotations.

Class Vertex (V : Type) := { vindex : V -> N }.
Class Edge (E : Type) := { ehead : E -> N; etail : E -> N }.

(* NullVertex { index } and NullEdge { head, tail } *)
Definition null_vertex := N.
Definition null_edge := (N * N)%type.
#[global] Instance null_vertex_Vertex : Vertex null_vertex := {| vindex := fun i => i |}.
#[global] Instance null_edge_Edge : Edge null_edge := {| ehead := fst; etail := snd |}.

Record graph (V E : Type) := mkGraph {
  g_vertices : nmap V;                (* BTreeMap<usize, V> *)
  g_edges : emap E;                   (* BTreeMap<(usize, usize), E> *)
  g_successors : nmap nset;           (* BTreeMap<usize, BTreeSet<usize>> *)
  g_predecessors : nmap nset;         (* BTreeMap<usize, BTreeSet<usize>> *)
}.
Arguments mkGraph {V E}.
Arguments g_vertices {V E}.
Arguments g_edges {V E}.
Arguments g_successors {V E}.
Arguments g_predecessors {V E}.

Section Ops.
  Context {V E : Type} `{Vertex V} `{Edge E}.
  Notation graph := (graph V E).

  Definition new : graph := mkGraph [] [] [] [].

  Definition num_vertices (g : graph) : N := N.of_nat (length (g_vertices g)).
  Definition has_vertex (g : graph) (i : N) : bool := nm_mem i (g_vertices g).
  Definition has_edge (g : graph) (h t : N) : bool := em_mem (h, t) (g_edges g).

  (* fn remove_edge(&mut self, head, tail) *)
  Definition remove_edge (g : graph) (h t : N) : res graph :=
    if negb (has_edge g h t) then Err EGraphEdge else
    let edges' := em_remove (h, t) (g_edges g) in
    match nm_get t (g_predecessors g) with
    | None => Panic                                            (* get_mut(&tail).unwrap() *)
    | Some ps =>
      let preds' := nm_insert t (ns_remove h ps) (g_predecessors g) in
      match nm_get h (g_successors g) with
      | None => Panic                                          (* get_mut(&head).unwrap() *)
      | Some ss =>
        Ok (mkGraph (g_vertices g) edges' (nm_insert h (ns_remove t ss) (g_successors g)) preds')
      end
    end.

  (* fn remove_vertex(&mut self, index).  The incident edges are collected into a hash set (the self
     loop (i,i) appears once) and removed one by one; the removal order is unobservable when all
     removals succeed.  Here: out-edges ascending, then the in-edges not yet listed. *)
  Definition incident_edges (g : graph) (i : N) : list (N * N) :=
    let es1 := match nm_get i (g_successors g) with Some ss => map (fun s => (i, s)) ss | None => [] end in
    let es2 := match nm_get i (g_predecessors g) with Some ps => map (fun p => (p, i)) ps | None => [] end in
    es1 ++ filter (fun e => negb (existsb (edge_eqb e) es1)) es2.

  Definition remove_vertex (g : graph) (i : N) : res graph :=
    if negb (has_vertex g i) then Err EGraphVertex else
    let g1 := mkGraph (nm_remove i (g_vertices g)) (g_edges g) (g_successors g) (g_predecessors g) in
    g2 <- fold_left (fun acc e => g' <- acc ;; remove_edge g' (fst e) (snd e)) (incident_edges g i) (Ok g1) ;;
    Ok (mkGraph (g_vertices g2) (g_edges g2) (nm_remove i (g_successors g2)) (nm_remove i (g_predecessors g2))).

  (* fn insert_vertex(&mut self, v) : Err("duplicate vertex index") = ECustom *)
  Definition insert_vertex (g : graph) (v : V) : res graph :=
    let i := vindex v in
    if nm_mem i (g_vertices g) then Err ECustom else
    Ok (mkGraph (nm_insert i v (g_vertices g)) (g_edges g)
                (nm_insert i [] (g_successors g)) (nm_insert i [] (g_predecessors g))).

  (* fn insert_edge(&mut self, edge) *)
  Definition insert_edge (g : graph) (e : E) : res graph :=
    let h := ehead e in
    let t := etail e in
    if em_mem (h, t) (g_edges g) then Err ECustom                      (* "duplicate edge" *)
    else if negb (nm_mem h (g_vertices g)) then Err EGraphVertex
    else if negb (nm_mem t (g_vertices g)) then Err EGraphVertex
    else
      let edges' := em_insert (h, t) e (g_edges g) in
      match nm_get h (g_successors g) with
      | None => Panic
      | Some ss =>
        let succs' := nm_insert h (ns_insert t ss) (g_successors g) in
        match nm_get t (g_predecessors g) with
        | None => Panic
        | Some ps => Ok (mkGraph (g_vertices g) edges' succs' (nm_insert t (ns_insert h ps) (g_predecessors g)))
        end
      end.

  (* `self.vertices.get(index).unwrap()` for each index of an adjacency set *)
  Fixpoint lookup_all {A} (m : nmap A) (l : list N) : res (list A) :=
    match l with
    | [] => Ok []
    | i :: t => match nm_get i m with
                | None => Panic
                | Some a => r <- lookup_all m t ;; Ok (a :: r)
                end
    end.

  Definition successor_indices (g : graph) (i : N) : res (list N) :=
    if negb (nm_mem i (g_vertices g)) then Err EGraphVertex else
    res_of_option (nm_get i (g_successors g)).                         (* self.successors[&index] *)
  Definition predecessor_indices (g : graph) (i : N) : res (list N) :=
    if negb (nm_mem i (g_vertices g)) then Err EGraphVertex else
    res_of_option (nm_get i (g_predecessors g)).

  Definition successors (g : graph) (i : N) : res (list V) :=
    ss <- successor_indices g i ;; lookup_all (g_vertices g) ss.
  Definition predecessors (g : graph) (i : N) : res (list V) :=
    ps <- predecessor_indices g i ;; lookup_all (g_vertices g) ps.

  (* `.filter(|v| self.predecessors.get(&v.index()).unwrap().is_empty())` over vertices.values() *)
  Fixpoint filter_isolated (adj : nmap nset) (vs : list V) : res (list V) :=
    match vs with
    | [] => Ok []
    | v :: t => match nm_get (vindex v) adj with
                | None => Panic
                | Some s => r <- filter_isolated adj t ;;
                            Ok (match s with [] => v :: r | _ => r end)
                end
    end.
  Definition vertices (g : graph) : list V := map snd (g_vertices g).
  Definition vertex_indices (g : graph) : list N := map fst (g_vertices g).   (* self.vertices.keys() *)
  Definition edges (g : graph) : list E := map snd (g_edges g).
  Definition edge_keys (g : graph) : list (N * N) := map fst (g_edges g).     (* self.edges.keys() *)
  Definition vertices_without_predecessors (g : graph) : res (list V) :=
    filter_isolated (g_predecessors g) (vertices g).
  Definition vertices_without_successors (g : graph) : res (list V) :=
    filter_isolated (g_successors g) (vertices g).

  Definition vertex (g : graph) (i : N) : res V :=
    match nm_get i (g_vertices g) with Some v => Ok v | None => Err EGraphVertex end.
  Definition edge (g : graph) (h t : N) : res E :=
    match em_get (h, t) (g_edges g) with Some e => Ok e | None => Err EGraphEdge end.

  (* vertex_mut / edge_mut followed by an in-place update of the payload (the key is not touched) *)
  Definition update_vertex (g : graph) (i : N) (f : V -> V) : res graph :=
    match nm_get i (g_vertices g) with
    | Some v => Ok (mkGraph (nm_insert i (f v) (g_vertices g)) (g_edges g) (g_successors g) (g_predecessors g))
    | None => Err EGraphVertex
    end.
  Definition update_edge (g : graph) (h t : N) (f : E -> E) : res graph :=
    match em_get (h, t) (g_edges g) with
    | Some e => Ok (mkGraph (g_vertices g) (em_insert (h, t) (f e) (g_edges g)) (g_successors g) (g_predecessors g))
    | None => Err EGraphEdge
    end.

  (* `&self.edges[&(a, b)]` for each listed key *)
  Fixpoint lookup_edges (m : emap E) (l : list (N * N)) : res (list E) :=
    match l with
    | [] => Ok []
    | k :: t => match em_get k m with
                | None => Panic
                | Some a => r <- lookup_edges m t ;; Ok (a :: r)
                end
    end.
  Definition edges_out (g : graph) (i : N) : res (list E) :=
    match nm_get i (g_successors g) with
    | None => Err EGraphVertex
    | Some ss => lookup_edges (g_edges g) (map (fun s => (i, s)) ss)
    end.
  Definition edges_in (g : graph) (i : N) : res (list E) :=
    match nm_get i (g_predecessors g) with
    | None => Err EGraphVertex
    | Some ps => lookup_edges (g_edges g) (map (fun p => (p, i)) ps)
    end.

  (* raw adjacency access used by the algorithms: `self.successors[&v]`, `self.predecessors[&v]` *)
  Definition succs_of (g : graph) (i : N) : res nset := res_of_option (nm_get i (g_successors g)).
  Definition preds_of (g : graph) (i : N) : res nset := res_of_option (nm_get i (g_predecessors g)).

  (* derived PartialEq *)
  Definition graph_eqb (veqb : V -> V -> bool) (eeqb : E -> E -> bool) (a b : graph) : bool :=
    list_eqb (pair_eqb N.eqb veqb) (g_vertices a) (g_vertices b)
    && list_eqb (pair_eqb edge_eqb eeqb) (g_edges a) (g_edges b)
    && list_eqb (pair_eqb N.eqb (list_eqb N.eqb)) (g_successors a) (g_successors b)
    && list_eqb (pair_eqb N.eqb (list_eqb N.eqb)) (g_predecessors a) (g_predecessors b).
End Ops.

Arguments new {V E}.
