(* Graph/SemiNca4.v -- [F] Semi-NCA on ALL digraphs with vertex set {0,1,2,3} (65 536 graphs x 4 roots).
   Not in the dependency cone of Props/C11.v (minutes of vm_compute): build it with
     make -C coq theories/Graph/SemiNca4.vo
   in the thorough tier. *)
From Coq Require Import NArith List Bool Lia.
From Falcon Require Import Base.Res Graph.NMap Graph.Graph Graph.Algo Graph.Spec Graph.Oracle Graph.OracleProofs
  Graph.C11Check Graph.SemiNca3.
Import ListNotations.
Local Open Scope N_scope.

(* all masks below 2^k, by doubling (no big unary numbers) *)
Fixpoint masks (k : nat) : list N :=
  match k with
  | O => [0]
  | S k' => masks k' ++ map (N.add (2 ^ N.of_nat k')) (masks k')
  end.

Lemma masks_in k : forall m, m < 2 ^ N.of_nat k -> In m (masks k).
Proof.
  induction k as [|k IH]; intros m Hm.
  - cbn in Hm. left. lia.
  - cbn [masks]. apply in_or_app.
    rewrite Nat2N.inj_succ, N.pow_succ_r' in Hm.
    destruct (N.lt_ge_cases m (2 ^ N.of_nat k)) as [Hlt|Hge].
    + left. apply IH. exact Hlt.
    + right. apply in_map_iff. exists (m - 2 ^ N.of_nat k). split; [lia|]. apply IH. lia.
Qed.

Definition check4 : bool :=
  forallb (fun mask => forallb (fun root => snca_ok 4 mask root) [0; 1; 2; 3]) (masks 16).

Lemma check4_true : check4 = true.
Proof. vm_compute. reflexivity. Qed.

Theorem semi_nca_correct_4 : forall mask root,
  mask < 2 ^ 16 -> root < 4 ->
  exists g m, build (range 4) (edges_of 4 mask) = Ok g /\
              compute_immediate_dominators g root = Ok m /\
              forall v d, alook m v = Some d <-> idom (edges_of 4 mask) root d v.
Proof.
  intros mask root Hm Hr.
  pose proof check4_true as Hc. unfold check4 in Hc. rewrite forallb_forall in Hc.
  specialize (Hc mask (masks_in 16 mask Hm)). rewrite forallb_forall in Hc.
  assert (Hroot : In root [0; 1; 2; 3]).
  { assert (Hcases : root = 0 \/ root = 1 \/ root = 2 \/ root = 3) by lia. cbn. intuition. }
  specialize (Hc root Hroot). unfold snca_ok in Hc.
  destruct (build (range 4) (edges_of 4 mask)) as [g| |]; try discriminate.
  destruct (compute_immediate_dominators g root) as [m| |] eqn:Hi; try discriminate.
  exists g, m. split; [reflexivity|]. split; [exact Hi|].
  apply idom_check_sound with (vs := range 4). exact Hc.
Qed.
