(* Graph/Spec.v -- textbook definitions (relational), over a bare edge relation given as a list of
   (head, tail) pairs.  Written from the property text, independent of the model in Graph.v/Algo.v. *)
From Coq Require Import NArith List Bool.
Import ListNotations.
Local Open Scope N_scope.

Section Spec.
  Variable es : list (N * N).          (* the edges: (a, b) is an edge from a to b *)

  Definition edge (a b : N) : Prop := In (a, b) es.

  (* path a l b : a walk from a to b; l lists the vertices after a (so it ends with b unless empty) *)
  Inductive path : N -> list N -> N -> Prop :=
  | path_nil a : path a [] a
  | path_cons a b l c : edge a b -> path b l c -> path a (b :: l) c.

  Definition reach (r v : N) : Prop := exists l, path r l v.
  (* a walk with at least one edge *)
  Definition reach_plus (a b : N) : Prop := exists c l, edge a c /\ path c l b.

  (* d dominates v (w.r.t. root r): v is reachable and every path from the root to v passes through d *)
  Definition dom (r d v : N) : Prop := reach r v /\ forall l, path r l v -> In d (r :: l).
  Definition sdom (r d v : N) : Prop := dom r d v /\ d <> v.
  (* the immediate dominator: the strict dominator that every strict dominator dominates *)
  Definition idom (r d v : N) : Prop := sdom r d v /\ forall e, sdom r e v -> dom r e d.
  (* dominance frontier *)
  Definition in_DF (r x y : N) : Prop := exists p, edge p y /\ dom r x p /\ ~ sdom r x y.
  (* back edge: an edge whose target dominates its source *)
  Definition back_edge (r a b : N) : Prop := edge a b /\ dom r b a.
  (* a walk none of whose vertices (end points included) is h *)
  Definition path_avoiding (h a : N) (l : list N) (b : N) : Prop := path a l b /\ ~ In h (a :: l).
  (* natural loop of header h: h and every (reachable) vertex that reaches the source of a back edge
     into h without passing through h *)
  Definition in_loop (r h x : N) : Prop :=
    (exists t, back_edge r t h) /\
    (x = h \/ (reach r x /\ exists t l, back_edge r t h /\ path_avoiding h x l t)).
  Definition is_header (r h : N) : Prop := exists t, back_edge r t h.
  Definition loop_nested (r outer inner : N) : Prop :=      (* loop of `inner` nested in loop of `outer` *)
    outer <> inner /\ is_header r outer /\ is_header r inner /\ forall x, in_loop r inner x -> in_loop r outer x.
  (* cycle reachable from r *)
  Definition cyclic_from (r : N) : Prop := exists v, reach r v /\ reach_plus v v.
  Definition has_cycle : Prop := exists v, reach_plus v v.
  (* transitive predecessor *)
  Definition trans_pred (p v : N) : Prop := reach_plus p v.
  (* topological order of a vertex list *)
  Definition topo_order (vs l : list N) : Prop :=
    NoDup l /\ (forall v, In v l <-> In v vs) /\
    forall a b, edge a b -> exists l1 l2 l3, l = l1 ++ a :: l2 ++ b :: l3.
End Spec.

(* Hecht-Ullman: the flow graph (reachable part) without its back edges is acyclic *)
Definition forward_edges_acyclic (es : list (N * N)) (r : N) : Prop :=
  forall fe, (forall a b, In (a, b) fe <-> (edge es a b /\ reach es r a /\ ~ back_edge es r a b)) ->
             ~ has_cycle fe.
