(* Graph/Algo.v -- the algorithms of falcon::graph::Graph, transcribed with their data structures and
   iteration orders (after the C11 repairs, see notes/C11.md).  No proofs here.

   Conventions: FxHashSet<usize> / FxHashMap<usize,_> are modelled by their canonical (key-sorted)
   forms `nset` / `nmap` -- hash iteration order never reaches a result (checked function by function,
   see notes).  `Vec` used as a stack: list with the top at the head.  `m[&k]` / `unwrap` -> Panic.
   Loops and recursion run on a small `nat` fuel computed from the graph size; running out of fuel is
   `Err EOther`, a value the Rust code never produces (lemmas in GraphInv/ReachProofs show the fuel
   suffices on well-formed graphs; the tie would expose it otherwise). *)
From Coq Require Import NArith List Bool.
From Falcon Require Import Base.Res Graph.NMap Graph.Graph.
Import ListNotations.
Local Open Scope N_scope.

Definition nm_idx {A} (k : N) (m : nmap A) : res A := res_of_option (nm_get k m).   (* m[&k] *)
Definition fuel_out {A} : res A := Err EOther.
Definition usize_max : N := 18446744073709551615.
Definition ns_union (a b : nset) : nset := fold_left (fun s k => ns_insert k s) a b.   (* b.extend(a) *)

Definition tree := graph null_vertex null_edge.

(* struct Loop { header, nodes } *)
Definition loop := (N * nset)%type.
#[global] Instance loop_Vertex : Vertex loop := {| vindex := fst |}.
Definition loop_tree := graph loop null_edge.
(* Loop::is_nesting *)
Definition is_nesting (l1 l2 : loop) : bool := negb (fst l1 =? fst l2) && ns_mem (fst l2) (snd l1).

Section Algo.
  Context {V E : Type} `{Vertex V} `{Edge E}.
  Notation graph := (graph V E).

  Definition adj_entries (m : nmap nset) : nat := fold_right (fun p n => (length (snd p) + n)%nat) O m.
  Definition fuel_v (g : graph) : nat := S (S (length (g_vertices g) + length (g_successors g))).
  Definition fuel_e (g : graph) : nat :=
    S (S (length (g_vertices g) + adj_entries (g_successors g) + adj_entries (g_predecessors g))).

  (* ---------------------------------------------------------------- reachability *)
  Definition push_new (acc : nset * list N) (s : N) : nset * list N :=
    if ns_mem s (fst acc) then acc else (ns_insert s (fst acc), s :: snd acc).

  Fixpoint reach_loop (fuel : nat) (g : graph) (q : list N) (seen : nset) : res nset :=
    match fuel with
    | O => fuel_out
    | S f =>
      match q with
      | [] => Ok seen
      | v :: q' =>
        ss <- succs_of g v ;;
        let a := fold_left push_new ss (seen, q') in
        reach_loop f g (snd a) (fst a)
      end
    end.

  Definition reachable_vertices (g : graph) (index : N) : res nset :=
    if negb (has_vertex g index) then Err EGraphVertex
    else reach_loop (fuel_e g) g [index] [index].

  Definition unreachable_vertices (g : graph) (index : N) : res nset :=
    r <- reachable_vertices g index ;;
    Ok (filter (fun v => negb (ns_mem v r)) (vertex_indices g)).

  (* for_each(|vertex| self.remove_vertex(vertex).unwrap()) *)
  Definition remove_unreachable_vertices (g : graph) (head : N) : res graph :=
    us <- unreachable_vertices g head ;;
    fold_left (fun acc v => g' <- acc ;;
                 match remove_vertex g' v with Ok g'' => Ok g'' | _ => Panic end) us (Ok g).

  (* ---------------------------------------------------------------- pre-order: explicit stack, visited on pop *)
  Fixpoint pre_loop (fuel : nat) (g : graph) (stack : list N) (visited : nset) (order_rev : list N)
    : res (list N) :=
    match fuel with
    | O => fuel_out
    | S f =>
      match stack with
      | [] => Ok (rev order_rev)
      | node :: st =>
        if ns_mem node visited then pre_loop f g st visited order_rev
        else ss <- succs_of g node ;;
             pre_loop f g (rev ss ++ st) (ns_insert node visited) (node :: order_rev)
      end
    end.
  Definition compute_pre_order (g : graph) (root : N) : res (list N) :=
    if negb (has_vertex g root) then Err EGraphVertex
    else pre_loop (fuel_e g) g [root] [] [].

  (* ---------------------------------------------------------------- post-order: recursive, ascending successors *)
  Fixpoint post_walk (fuel : nat) (g : graph) (node : N) (st : nset * list N) : res (nset * list N) :=
    match fuel with
    | O => fuel_out
    | S f =>
      let visited := ns_insert node (fst st) in
      ss <- succs_of g node ;;
      st' <- fold_left (fun acc s => a <- acc ;;
                          if ns_mem s (fst a) then Ok a else post_walk f g s a)
                       ss (Ok (visited, snd st)) ;;
      Ok (fst st', node :: snd st')
    end.
  Definition compute_post_order (g : graph) (root : N) : res (list N) :=
    st <- post_walk (fuel_v g) g root ([], []) ;; Ok (rev (snd st)).

  (* ---------------------------------------------------------------- DFS tree: stack of (pred, vertex) *)
  Fixpoint dfs_loop (fuel : nat) (g : graph) (stack : list (N * N)) (t : tree) : res tree :=
    match fuel with
    | O => fuel_out
    | S f =>
      match stack with
      | [] => Ok t
      | (pred, index) :: st =>
        if has_vertex t index then dfs_loop f g st t
        else t1 <- insert_vertex t index ;;
             t2 <- insert_edge t1 (pred, index) ;;
             ss <- succs_of g index ;;
             dfs_loop f g (rev (map (fun s => (index, s)) ss) ++ st) t2
      end
    end.
  Definition compute_dfs_tree (g : graph) (start : N) : res tree :=
    if negb (has_vertex g start) then Err EGraphVertex else
    t <- insert_vertex (new : tree) start ;;
    ss <- succs_of g start ;;
    dfs_loop (fuel_e g) g (rev (map (fun s => (start, s)) ss)) t.
End Algo.

(* ---------------------------------------------------------------- Semi-NCA immediate dominators *)
Fixpoint number_from (i : N) (l : list N) : nmap N :=
  match l with [] => [] | v :: t => nm_insert v i (number_from (N.succ i) t) end.

(* `dfs.predecessors[&vertex].iter().next().cloned()` *)
Definition dfs_parent (dfs : tree) (v : N) : res (option N) := ps <- preds_of dfs v ;; Ok (hd_error ps).

Fixpoint compress (fuel : nat) (anc : nmap (option N)) (lab : nmap N) (v : N)
  : res (nmap (option N) * nmap N) :=
  match fuel with
  | O => fuel_out
  | S f =>
    av <- nm_idx v anc ;;
    match av with
    | None => Panic                                           (* ancestor[&v].unwrap() *)
    | Some u =>
      au <- nm_idx u anc ;;
      match au with
      | None => Ok (anc, lab)
      | Some _ =>
        r <- compress f anc lab u ;;
        lu <- nm_idx u (snd r) ;;
        lv <- nm_idx v (snd r) ;;
        let lab2 := if lu <? lv then nm_insert v lu (snd r) else snd r in
        au1 <- nm_idx u (fst r) ;;
        Ok (nm_insert v au1 (fst r), lab2)
      end
    end
  end.

Record snca_state := mkSt { st_anc : nmap (option N); st_lab : nmap N; st_semi : nmap N }.

Section SemiNca.
  Context {V E : Type} `{Vertex V} `{Edge E}.
  Notation graph := (graph V E).

  Definition semi_pred (fuel : nat) (num : nmap N) (acc : res (nmap (option N) * nmap N * N)) (pred : N)
    : res (nmap (option N) * nmap N * N) :=
    a <- acc ;;
    if negb (nm_mem pred num) then Ok a else                  (* unreachable from the root: skipped *)
    ap <- nm_idx pred (fst (fst a)) ;;
    al <- match ap with
          | Some _ => compress fuel (fst (fst a)) (snd (fst a)) pred
          | None => Ok (fst a)
          end ;;
    lp <- nm_idx pred (snd al) ;;
    Ok (fst al, snd al, N.min (snd a) lp).

  Definition semi_step (fuel : nat) (g : graph) (dfs : tree) (num : nmap N) (st : res snca_state) (vertex : N)
    : res snca_state :=
    s <- st ;;
    ps <- preds_of g vertex ;;
    r <- fold_left (semi_pred fuel num) ps (Ok (st_anc s, st_lab s, usize_max)) ;;
    let ms := snd r in
    par <- dfs_parent dfs vertex ;;
    Ok (mkSt (nm_insert vertex par (fst (fst r))) (nm_insert vertex ms (snd (fst r)))
             (nm_insert vertex ms (st_semi s))).

  Fixpoint idom_climb (fuel : nat) (idoms : nmap N) (sv idom : N) : res N :=
    match fuel with
    | O => fuel_out
    | S f => if sv <? idom then (i <- nm_idx idom idoms ;; idom_climb f idoms sv i) else Ok idom
    end.

  Definition idom_step (fuel : nat) (dfs : tree) (num semi : nmap N) (acc : res (nmap N)) (vertex : N)
    : res (nmap N) :=
    idoms <- acc ;;
    par <- dfs_parent dfs vertex ;;
    match par with
    | None => Panic                                           (* dfs_parent(vertex).unwrap() *)
    | Some p =>
      pn <- nm_idx p num ;;
      sv <- nm_idx vertex semi ;;
      i <- idom_climb fuel idoms sv pn ;;
      vn <- nm_idx vertex num ;;
      Ok (nm_insert vn i idoms)
    end.

  Definition vec_idx (l : list N) (i : N) : res N := res_of_option (nth_error l (N.to_nat i)).

  Definition compute_immediate_dominators (g : graph) (root : N) : res (nmap N) :=
    if negb (has_vertex g root) then Err EGraphVertex else
    dfs <- compute_dfs_tree g root ;;
    order <- compute_pre_order dfs root ;;
    let fuel := S (length order) in
    let num := number_from 0 order in
    let anc0 := fold_left (fun m v => nm_insert v None m) order [] in
    let lab0 := fold_left (fun m v => match nm_get v num with Some n => nm_insert v n m | None => m end) order [] in
    st <- fold_left (semi_step fuel g dfs num) (rev (tl order)) (Ok (mkSt anc0 lab0 [])) ;;
    idoms <- fold_left (idom_step fuel dfs num (st_semi st)) (tl order) (Ok []) ;;
    fold_left (fun acc p => m <- acc ;;
                 v <- vec_idx order (fst p) ;; d <- vec_idx order (snd p) ;;
                 Ok (nm_insert v d m)) idoms (Ok []).

  (* dominator tree: the root and every vertex that has an immediate dominator (= reachable vertices) *)
  Definition compute_dominator_tree (g : graph) (start : N) : res tree :=
    idoms <- compute_immediate_dominators g start ;;
    t0 <- insert_vertex (new : tree) start ;;
    t1 <- fold_left (fun acc p => t <- acc ;; insert_vertex t (fst p)) idoms (Ok t0) ;;
    fold_left (fun acc p => t <- acc ;; insert_edge t (snd p, fst p)) idoms (Ok t1).

  Definition compute_dominators (g : graph) (start : N) : res (nmap nset) :=
    if negb (has_vertex g start) then Err EGraphVertex else
    dt <- compute_dominator_tree g start ;;
    pre <- compute_pre_order dt start ;;
    fold_left (fun acc vertex =>
                 doms <- acc ;;
                 ps <- preds_of dt vertex ;;
                 d <- fold_left (fun a p => s <- a ;; dp <- nm_idx p doms ;; Ok (ns_union dp s)) ps (Ok [vertex]) ;;
                 Ok (nm_insert vertex d doms))
              pre (Ok []).

  (* ---------------------------------------------------------------- dominance frontiers *)
  (* while runner != stop { df[runner].insert(vertex); if !idoms.contains_key(runner) {break}; runner = idoms[runner] }
     (`stop = None` is the unconditional `loop` of the start-node case) *)
  Fixpoint df_run (fuel : nat) (idoms : nmap N) (df : nmap nset) (runner : N) (stop : option N) (vertex : N)
    : res (nmap nset) :=
    match fuel with
    | O => fuel_out
    | S f =>
      if match stop with Some s => runner =? s | None => false end then Ok df else
      s <- nm_idx runner df ;;
      let df' := nm_insert runner (ns_insert vertex s) df in
      match nm_get runner idoms with
      | None => Ok df'
      | Some r' => df_run f idoms df' r' stop vertex
      end
    end.

  Definition df_reachable_pred (idoms : nmap N) (start p : N) : bool := (p =? start) || nm_mem p idoms.

  Definition compute_dominance_frontiers (g : graph) (start : N) : res (nmap nset) :=
    let df0 : nmap nset := map (fun v => (v, [])) (vertex_indices g) in
    idoms <- compute_immediate_dominators g start ;;
    let fuel := S (S (length idoms)) in
    df1 <- fold_left (fun acc vertex =>
              df <- acc ;;
              ps <- preds_of g vertex ;;
              if (2 <=? N.of_nat (length ps)) then
                match nm_get vertex idoms with
                | None => Ok df
                | Some idom =>
                  fold_left (fun acc2 p => df2 <- acc2 ;;
                               if negb (df_reachable_pred idoms start p) then Ok df2
                               else df_run fuel idoms df2 p (Some idom) vertex) ps (Ok df)
                end
              else Ok df)
            (vertex_indices g) (Ok df0) ;;
    ps <- preds_of g start ;;
    fold_left (fun acc p => df <- acc ;;
                 if negb (df_reachable_pred idoms start p) then Ok df
                 else df_run fuel idoms df p None start) ps (Ok df1).

  (* ---------------------------------------------------------------- transitive predecessors (work list) *)
  Fixpoint preds_loop (fuel : nat) (g : graph) (queue : list N) (P : nmap nset) : res (nmap nset) :=
    match fuel with
    | O => fuel_out
    | S f =>
      match queue with
      | [] => Ok P
      | v :: q =>
        this <- nm_idx v P ;;
        ss <- succs_of g v ;;
        r <- fold_left (fun acc s => a <- acc ;;
                          sp <- nm_idx s (fst a) ;;
                          let sp' := ns_union this sp in
                          let changed := negb (Nat.eqb (length sp') (length sp)) in
                          Ok (nm_insert s sp' (fst a), if changed then snd a ++ [s] else snd a))
                       ss (Ok (P, q)) ;;
        preds_loop f g (snd r) (fst r)
      end
    end.
  Definition compute_predecessors (g : graph) : res (nmap nset) :=
    let n := length (g_vertices g) in
    P0 <- fold_left (fun acc v => P <- acc ;; ps <- preds_of g v ;; Ok (nm_insert v ps P))
                    (vertex_indices g) (Ok []) ;;
    preds_loop (S (S (n * n + n))) g (vertex_indices g) P0.

  (* ---------------------------------------------------------------- compute_acyclic *)
  Fixpoint acyclic_loop (fuel : nat) (g : graph) (P : nmap nset) (queue : list N) (visited : nset) (t : tree)
    : res tree :=
    match fuel with
    | O => fuel_out
    | S f =>
      match queue with
      | [] => Ok t
      | v :: q =>
        let visited := ns_insert v visited in
        vp <- nm_idx v P ;;
        ss <- succs_of g v ;;
        r <- fold_left (fun acc s => a <- acc ;;
                          if ns_mem s visited && ns_mem s vp then Ok a else
                          let q' := if negb (ns_mem s visited) && negb (existsb (N.eqb s) (fst a))
                                    then fst a ++ [s] else fst a in
                          t' <- insert_edge (snd a) (v, s) ;;
                          Ok (q', t'))
                       ss (Ok (q, t)) ;;
        acyclic_loop f g P (fst r) visited (snd r)
      end
    end.
  Definition compute_acyclic (g : graph) (start : N) : res tree :=
    t0 <- fold_left (fun acc v => t <- acc ;; insert_vertex t v) (vertex_indices g) (Ok (new : tree)) ;;
    P <- compute_predecessors g ;;
    acyclic_loop (fuel_v g) g P [start] [] t0.

  (* ---------------------------------------------------------------- is_acyclic *)
  Fixpoint acyc_walk (fuel : nat) (g : graph) (node : N) (st : nset * nset) : res (bool * (nset * nset)) :=
    match fuel with
    | O => fuel_out
    | S f =>
      if ns_mem node (fst st) then Ok (true, st)               (* permanent mark *)
      else if ns_mem node (snd st) then Ok (false, st)         (* temporary mark *)
      else
        let st1 := (fst st, ns_insert node (snd st)) in
        ss <- succs_of g node ;;
        r <- fold_left (fun (acc : res (bool * (nset * nset))) s => a <- acc ;;
                          if fst a then acyc_walk f g s (snd a) else Ok a)     (* Iterator::all short-circuits *)
                       ss (Ok (true, st1)) ;;
        if negb (fst r) then Ok (false, snd r)
        else Ok (true, (ns_insert node (fst (snd r)), ns_remove node (snd (snd r))))
    end.
  Definition is_acyclic (g : graph) (root : N) : res bool :=
    r <- acyc_walk (fuel_v g) g root ([], []) ;; Ok (fst r).

  (* ---------------------------------------------------------------- back edges, reducibility, loops *)
  Definition compute_back_edges (g : graph) (head : N) : res eset :=
    doms <- compute_dominators g head ;;
    fold_left (fun acc nd => be <- acc ;;
                 ss <- succs_of g (fst nd) ;;
                 Ok (fold_left (fun b s => if ns_mem s (snd nd) then es_insert (fst nd, s) b else b) ss be))
              doms (Ok []).
End SemiNca.

Section Loops.
  Context {V E : Type} `{Vertex V} `{Edge E}.
  Notation graph := (graph V E).

  Definition is_reducible (g : graph) (head : N) : res bool :=
    back <- compute_back_edges g head ;;
    reachable <- reachable_vertices g head ;;
    fe0 <- fold_left (fun acc v => t <- acc ;;
                        if ns_mem v reachable then insert_vertex t v else Ok t)
                     (vertex_indices g) (Ok (new : tree)) ;;
    fe <- fold_left (fun acc e => t <- acc ;;
                       if ns_mem (fst e) reachable && negb (es_mem e back) then insert_edge t e else Ok t)
                    (edge_keys g) (Ok fe0) ;;
    un <- unreachable_vertices fe head ;;
    match un with
    | [] => is_acyclic fe head
    | _ => Ok false
    end.

  Fixpoint loop_walk (fuel : nat) (g : graph) (reachable : nset) (queue : list N) (nodes : nset) : res nset :=
    match fuel with
    | O => fuel_out
    | S f =>
      match queue with
      | [] => Ok nodes
      | node :: q =>
        ps <- preds_of g node ;;
        let a := fold_left (fun a p => if ns_mem p reachable then push_new a p else a) ps (nodes, q) in
        loop_walk f g reachable (snd a) (fst a)
      end
    end.

  Definition compute_loops (g : graph) (head : N) : res (list loop) :=
    back <- compute_back_edges g head ;;
    reachable <- reachable_vertices g head ;;
    fold_left (fun acc e => loops <- acc ;;
                 let tail := fst e in
                 let header := snd e in
                 let nodes0 := match nm_get header loops with Some s => s | None => [] end in
                 let nodes1 := ns_insert header nodes0 in
                 let a := push_new (nodes1, []) tail in
                 nodes <- loop_walk (fuel_e g) g reachable (snd a) (fst a) ;;
                 Ok (nm_insert header nodes loops))
              back (Ok ([] : nmap nset)).

  Definition compute_loop_tree (g : graph) (head : N) : res loop_tree :=
    loops <- compute_loops g head ;;
    t0 <- fold_left (fun acc l => t <- acc ;; insert_vertex t l) loops (Ok (new : loop_tree)) ;;
    fold_left (fun acc l1 =>
                 fold_left (fun acc2 l2 => t <- acc2 ;;
                              if is_nesting l1 l2 then insert_edge t (fst l1, fst l2) else Ok t)
                           loops acc)
              loops (Ok t0).

  (* ---------------------------------------------------------------- topological ordering *)
  Record topo_state := mkTopo { tp_perm : nset; tp_temp : nset; tp_order : list N (* reversed pushes *) }.
  Fixpoint topo_walk (fuel : nat) (g : graph) (node : N) (st : topo_state) : res topo_state :=
    match fuel with
    | O => fuel_out
    | S f =>
      if ns_mem node (tp_perm st) then Ok st
      else if ns_mem node (tp_temp st) then Err ECustom        (* "Graph contains a loop" *)
      else
        ss <- succs_of g node ;;
        st' <- fold_left (fun acc s => a <- acc ;; topo_walk f g s a) ss
                         (Ok (mkTopo (tp_perm st) (ns_insert node (tp_temp st)) (tp_order st))) ;;
        Ok (mkTopo (ns_insert node (tp_perm st')) (ns_remove node (tp_temp st')) (node :: tp_order st'))
    end.
  (* order.into_iter().rev(): the reversed push list is the result *)
  Definition compute_topological_ordering (g : graph) : res (list N) :=
    st <- fold_left (fun acc v => a <- acc ;; topo_walk (fuel_v g) g v a) (vertex_indices g)
                    (Ok (mkTopo [] [] [])) ;;
    Ok (tp_order st).
End Loops.
