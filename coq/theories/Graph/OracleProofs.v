(* Graph/OracleProofs.v -- soundness of the executable reflections of Graph/Oracle.v with respect to
   the relational definitions of Graph/Spec.v.  Main result: idom_check_sound. *)
From Coq Require Import NArith List Bool Lia.
From Falcon Require Import Graph.Spec Graph.Oracle.
Import ListNotations.
Local Open Scope N_scope.

Lemma memb_in x l : memb x l = true <-> In x l.
Proof.
  unfold memb. rewrite existsb_exists. split.
  - intros [y [Hy He]]. apply N.eqb_eq in He. subst. exact Hy.
  - intros Hx. exists x. split; auto. apply N.eqb_refl.
Qed.
Lemma memb_false x l : memb x l = false <-> ~ In x l.
Proof. rewrite <- memb_in. destruct (memb x l); split; congruence. Qed.

Lemma osucc_in es a b : In b (osucc es a) <-> In (a, b) es.
Proof.
  unfold osucc. rewrite in_map_iff. split.
  - intros [[x y] [Hy Hin]]. apply filter_In in Hin. destruct Hin as [Hin He]. cbn in *.
    apply N.eqb_eq in He. subst. exact Hin.
  - intros Hin. exists (a, b). split; auto. apply filter_In. split; auto. cbn. apply N.eqb_refl.
Qed.
Lemma opred_in es a b : In a (opred es b) <-> In (a, b) es.
Proof.
  unfold opred. rewrite in_map_iff. split.
  - intros [[x y] [Hy Hin]]. apply filter_In in Hin. destruct Hin as [Hin He]. cbn in *.
    apply N.eqb_eq in He. subst. exact Hin.
  - intros Hin. exists (a, b). split; auto. apply filter_In. split; auto. cbn. apply N.eqb_refl.
Qed.

Lemma add_new_in acc b x : In x (add_new acc b) <-> x = b \/ In x acc.
Proof.
  unfold add_new. destruct (memb b acc) eqn:Hm.
  - apply memb_in in Hm. split; auto. intros [->|]; auto.
  - cbn. intuition.
Qed.
Lemma fold_add_new_in l : forall acc x, In x (fold_left add_new l acc) <-> In x l \/ In x acc.
Proof.
  induction l as [|b t IH]; intros acc x; cbn.
  - intuition.
  - rewrite IH, add_new_in. intuition.
Qed.

(* ------------------------------------------------------------------ paths *)
Section Paths.
  Variable es : list (N * N).

  Lemma path_snoc a l b c : path es a l b -> edge es b c -> path es a (l ++ [c]) c.
  Proof.
    induction 1 as [a|a b' l c' He Hp IH]; intros Hbc; cbn.
    - apply path_cons with (1 := Hbc). constructor.
    - apply path_cons with (1 := He). apply IH. exact Hbc.
  Qed.
  Lemma path_app a l1 b l2 c : path es a l1 b -> path es b l2 c -> path es a (l1 ++ l2) c.
  Proof.
    induction 1 as [a|a b' l c' He Hp IH]; intros H2; cbn; [exact H2|].
    apply path_cons with (1 := He). apply IH. exact H2.
  Qed.
  Lemma path_end_in a l b : path es a l b -> In b (a :: l).
  Proof.
    induction 1 as [a|a b' l c' He Hp IH]; [left; auto|]. right. exact IH.
  Qed.

  (* every vertex of a walk from r is r itself or the target of an edge *)
  Lemma path_targets a l b : path es a l b -> forall x, In x l -> In x (map snd es).
  Proof.
    induction 1 as [a|a b l c He Hp IH]; intros x Hx; [destruct Hx|].
    destruct Hx as [Hx|Hx]; [|apply IH; exact Hx]. subst x.
    apply in_map_iff. exists (a, b). split; [reflexivity|exact He].
  Qed.
  Lemma path_verts vs r l v : path es r l v -> forall x, In x (r :: l) -> In x (verts vs es r).
  Proof.
    intros Hp x Hx. unfold verts. apply fold_add_new_in. left.
    destruct Hx as [Hx|Hx]; [left; auto|]. right. apply in_or_app. right. apply in_or_app. right.
    eapply path_targets; eauto.
  Qed.

  (* -------------------------------------------------------------- closure *)
  Definition avoids (av : N -> bool) (l : list N) : Prop := forall x, In x l -> av x = false.

  Lemma grow_sound av r fuel : forall X,
    (forall x, In x X -> exists l, path es r l x /\ avoids av (r :: l)) ->
    forall x, In x (grow fuel es av X) -> exists l, path es r l x /\ avoids av (r :: l).
  Proof.
    induction fuel as [|f IH]; intros X HX x Hx; cbn in Hx; auto.
    destruct (Nat.eqb _ _); auto.
    apply IH in Hx; auto. clear x Hx. intros x Hx.
    apply fold_add_new_in in Hx. destruct Hx as [Hx|Hx]; auto.
    apply filter_In in Hx. destruct Hx as [Hx Hav]. apply negb_true_iff in Hav.
    apply in_flat_map in Hx. destruct Hx as [a [Ha Hx]]. apply osucc_in in Hx.
    destruct (HX a Ha) as [l [Hp Hl]]. exists (l ++ [x]). split.
    - eapply path_snoc; eauto.
    - intros y Hy. change (r :: l ++ [x]) with ((r :: l) ++ [x]) in Hy. apply in_app_or in Hy.
      destruct Hy as [Hy|[<-|[]]]; auto.
  Qed.
  Lemma grow_mono av fuel : forall X x, In x X -> In x (grow fuel es av X).
  Proof.
    induction fuel as [|f IH]; intros X x Hx; cbn; auto.
    destruct (Nat.eqb _ _); auto. apply IH. apply fold_add_new_in. auto.
  Qed.

  Lemma closed_path av X : closed_b es av X = true ->
    forall a l b, path es a l b -> In a X -> avoids av l -> In b X.
  Proof.
    intros Hc a l b Hp. induction Hp as [a|a b l c He Hp IH]; intros Ha Hl; auto.
    apply IH.
    - unfold closed_b in Hc. rewrite forallb_forall in Hc. specialize (Hc a Ha).
      rewrite forallb_forall in Hc. specialize (Hc b (proj2 (osucc_in es a b) He)).
      rewrite (Hl b (or_introl eq_refl)) in Hc. cbn in Hc. apply memb_in. exact Hc.
    - intros x Hx. apply Hl. right. exact Hx.
  Qed.

  Theorem cl_sound av r : cl_ok es av r = true ->
    forall v, In v (cl es av r) <-> exists l, path es r l v /\ avoids av (r :: l).
  Proof.
    unfold cl_ok, cl. intros Hok v. destruct (av r) eqn:Hr.
    - split; [intros []|]. intros [l [_ Hl]]. rewrite (Hl r (or_introl eq_refl)) in Hr. discriminate.
    - split.
      + apply grow_sound. intros x [<-|[]]. exists []. split; [constructor|]. intros y [<-|[]]. exact Hr.
      + intros [l [Hp Hl]]. eapply closed_path; eauto.
        * apply grow_mono. left; reflexivity.
        * intros x Hx. apply Hl. right. exact Hx.
  Qed.
End Paths.

(* ------------------------------------------------------------------ dominators by deletion *)
Section Dom.
  Variables (vs : list N) (es : list (N * N)) (r : N).
  Hypothesis Hok : tab_ok vs es r = true.
  Let t := mk_tab vs es r.
  Let vv := verts vs es r.

  Lemma tab_all : cl_ok es (fun _ => false) r = true.
  Proof. unfold tab_ok in Hok. apply andb_true_iff in Hok. tauto. Qed.
  Lemma tab_del d : In d vv -> cl_ok es (N.eqb d) r = true.
  Proof.
    intros Hd. unfold tab_ok in Hok. apply andb_true_iff in Hok. destruct Hok as [_ H2].
    rewrite forallb_forall in H2. apply H2. exact Hd.
  Qed.

  Lemma reach_b_spec v : reach_b t v = true <-> reach es r v.
  Proof.
    unfold reach_b, t, mk_tab. cbn [t_all t_del]. rewrite memb_in, (cl_sound es _ r tab_all). split.
    - intros [l [Hp _]]. exists l. exact Hp.
    - intros [l Hp]. exists l. split; auto. intros x _. reflexivity.
  Qed.

  Lemma tlook_map (f : N -> list N) d dflt l :
    tlook d (map (fun d => (d, f d)) l) dflt = if memb d l then f d else dflt.
  Proof.
    induction l as [|a l IH]; cbn; auto.
    rewrite (N.eqb_sym d a). destruct (N.eqb_spec a d) as [->|Hne]; cbn; auto.
  Qed.

  Lemma reach_in_vv v : reach es r v -> In v vv.
  Proof. intros [l Hp]. eapply path_verts; eauto. eapply path_end_in; eauto. Qed.

  Lemma dom_b_spec d v : dom_b t d v = true <-> dom es r d v.
  Proof.
    unfold dom_b. rewrite andb_true_iff, reach_b_spec, orb_true_iff, N.eqb_eq, negb_true_iff.
    unfold dom. split.
    - intros [Hr Hd]. split; auto. intros l Hp.
      destruct Hd as [->|Hd]; [eapply path_end_in; eauto|].
      destruct (in_dec N.eq_dec d (r :: l)) as [Hin|Hni]; auto. exfalso.
      unfold t, mk_tab in Hd. cbn [t_all t_del] in Hd. rewrite tlook_map in Hd.
      destruct (memb d (verts vs es r)) eqn:Hm.
      + apply memb_in in Hm. apply memb_false in Hd. apply Hd.
        apply (cl_sound es _ r (tab_del d Hm)). exists l. split; auto.
        intros x Hx. apply N.eqb_neq. intros ->. contradiction.
      + apply memb_false in Hd. apply Hd. apply (cl_sound es _ r tab_all).
        exists l. split; auto. intros x _. reflexivity.
    - intros [Hr Hd]. split; auto.
      destruct (N.eq_dec d v) as [->|Hne]; auto. right.
      unfold t, mk_tab. cbn [t_all t_del]. rewrite tlook_map.
      destruct (memb d (verts vs es r)) eqn:Hm.
      + apply memb_in in Hm. apply memb_false. intros Hin.
        apply (cl_sound es _ r (tab_del d Hm)) in Hin. destruct Hin as [l [Hp Hl]].
        specialize (Hd l Hp). specialize (Hl d Hd). rewrite N.eqb_refl in Hl. discriminate.
      + exfalso. apply memb_false in Hm. destruct Hr as [l Hp]. apply Hm.
        eapply path_verts; eauto.
  Qed.

  Lemma sdom_b_spec d v : sdom_b t d v = true <-> sdom es r d v.
  Proof.
    unfold sdom_b, sdom. rewrite andb_true_iff, dom_b_spec, negb_true_iff, N.eqb_neq. tauto.
  Qed.

  Lemma sdom_in_vv d v : sdom es r d v -> In d vv /\ In v vv.
  Proof.
    intros [[Hr Hd] _]. split; [|apply reach_in_vv; auto].
    destruct Hr as [l Hp]. eapply path_verts; eauto.
  Qed.

  Lemma idom_b_spec d v : idom_b t vv d v = true <-> idom es r d v.
  Proof.
    unfold idom_b, idom. rewrite andb_true_iff, sdom_b_spec, forallb_forall. split.
    - intros [Hs Hall]. split; auto. intros e He.
      specialize (Hall e (proj1 (sdom_in_vv e v He))).
      apply orb_true_iff in Hall. destruct Hall as [Hn|Hd].
      + apply negb_true_iff in Hn. apply sdom_b_spec in He. congruence.
      + apply dom_b_spec. exact Hd.
    - intros [Hs Hall]. split; auto. intros e _.
      destruct (sdom_b t e v) eqn:He; cbn; auto.
      apply dom_b_spec, Hall, sdom_b_spec, He.
  Qed.
End Dom.

Lemma alook_in m v d : alook m v = Some d -> In (v, d) m.
Proof.
  induction m as [|[a b] m IH]; cbn; [discriminate|].
  destruct (N.eqb_spec a v) as [->|]; auto. intros [= ->]. auto.
Qed.

(* THE VALIDATOR IS SOUND: if the check succeeds, the map is exactly the immediate-dominator relation
   of the textbook definition (every path from the root to v passes through d, ...). *)
Theorem idom_check_sound vs es r m :
  idom_check vs es r m = true ->
  forall v d, alook m v = Some d <-> idom es r d v.
Proof.
  unfold idom_check, idom_check_t. rewrite !andb_true_iff. intros [Hok [Hkeys Hall]] v d.
  rewrite forallb_forall in Hkeys, Hall.
  assert (Hin : (alook m v = Some d \/ idom es r d v) -> In v (verts vs es r) /\ In d (verts vs es r)).
  { intros [Ha|Hi].
    - apply alook_in in Ha. specialize (Hkeys _ Ha). cbn [fst snd] in Hkeys.
      apply andb_true_iff in Hkeys. rewrite !memb_in in Hkeys. tauto.
    - destruct Hi as [Hs _]. destruct (sdom_in_vv vs es r d v Hs); auto. }
  split; intros Hx; destruct (Hin (ltac:(auto))) as [Hv Hd];
    specialize (Hall v Hv); rewrite forallb_forall in Hall; specialize (Hall d Hd);
    apply eqb_prop in Hall.
  - apply (idom_b_spec vs es r Hok). rewrite <- Hall, Hx. apply N.eqb_refl.
  - apply (idom_b_spec vs es r Hok) in Hx. rewrite Hx in Hall.
    destruct (alook m v) as [d'|]; [|discriminate]. apply N.eqb_eq in Hall. congruence.
Qed.

(* the immediate dominator is unique, so a map that passes the check is a function *)
Lemma dom_refl es r v : reach es r v -> dom es r v v.
Proof. intros Hr. split; auto. intros l Hp. eapply path_end_in; eauto. Qed.

(* ------------------------------------------------------------------ validators for the derived structures *)
Lemma subset_b_spec a b : subset_b a b = true <-> forall x, In x a -> In x b.
Proof.
  unfold subset_b. rewrite forallb_forall. split; intros Hs x Hx; specialize (Hs x Hx); apply memb_in; exact Hs.
Qed.
Lemma seteq_b_spec a b : seteq_b a b = true <-> forall x, In x a <-> In x b.
Proof.
  unfold seteq_b. rewrite andb_true_iff, !subset_b_spec. split.
  - intros [H1 H2] x. split; auto.
  - intros Hx. split; intros x; apply Hx.
Qed.

Section Derived.
  Variables (vs : list N) (es : list (N * N)) (r : N).
  Hypothesis Hok : tab_ok vs es r = true.
  Let t := mk_tab vs es r.
  Let vv := verts vs es r.

  Lemma dom_in_vv d v : dom es r d v -> In d vv.
  Proof. intros [[l Hp] Hd]. eapply path_verts; eauto. Qed.

  (* the dominator sets: keys = reachable vertices, each set = { d | every path from r to v passes through d } *)
  Theorem dominators_ok_sound m : dominators_ok t vv m = true ->
    (forall v, In v (map fst m) <-> reach es r v) /\
    (forall v D, In (v, D) m -> forall d, In d D <-> dom es r d v).
  Proof.
    unfold dominators_ok. rewrite !andb_true_iff. intros [[Hk _] Hall]. split.
    - intros v. rewrite (proj1 (seteq_b_spec _ _) Hk v). rewrite <- memb_in. apply (reach_b_spec vs es r Hok).
    - intros v D Hin d. rewrite forallb_forall in Hall. specialize (Hall _ Hin). cbn [fst snd] in Hall.
      apply andb_true_iff in Hall. destruct Hall as [Hs _].
      rewrite (proj1 (seteq_b_spec _ _) Hs d). unfold set_of. rewrite filter_In. cbn beta. unfold t. rewrite (dom_b_spec vs es r Hok).
      split; [tauto|]. intros Hd. split; auto. eapply dom_in_vv; eauto.
  Qed.

  Lemma in_df_b_spec x y : in_df_b t es x y = true <-> in_DF es r x y.
  Proof.
    unfold in_df_b, in_DF. unfold t. rewrite andb_true_iff, existsb_exists, negb_true_iff. split.
    - intros [[p [Hp Hd]] Hn]. exists p. split; [apply opred_in; exact Hp|]. split.
      + apply (dom_b_spec vs es r Hok). exact Hd.
      + intros Hs. apply (sdom_b_spec vs es r Hok) in Hs. congruence.
    - intros [p [Hp [Hd Hn]]]. split.
      + exists p. split; [apply opred_in; exact Hp|]. apply (dom_b_spec vs es r Hok). exact Hd.
      + destruct (sdom_b (mk_tab vs es r) x y) eqn:Hs; auto. exfalso. apply Hn. apply (sdom_b_spec vs es r Hok). exact Hs.
  Qed.

  (* the dominance frontiers *)
  Theorem df_ok_sound m : df_ok t vv es m = true ->
    forall x F, In (x, F) m -> forall y, In y F <-> in_DF es r x y.
  Proof.
    unfold df_ok. rewrite !andb_true_iff. intros [_ Hall] x F Hin y.
    rewrite forallb_forall in Hall. specialize (Hall _ Hin). cbn [fst snd] in Hall.
    apply andb_true_iff in Hall. destruct Hall as [Hs _].
    rewrite (proj1 (seteq_b_spec _ _) Hs y). unfold set_of. rewrite filter_In. cbn beta. rewrite in_df_b_spec.
    split; [tauto|]. intros Hd. split; auto.
    destruct Hd as [p [Hp _]]. unfold vv, verts. apply fold_add_new_in. left. right.
    apply in_or_app. right. apply in_or_app. right. apply in_map_iff. exists (p, y). auto.
  Qed.

  (* back edges *)
  Lemma back_edge_b_spec a b : In (a, b) es -> (back_edge_b t (a, b) = true <-> back_edge es r a b).
  Proof.
    intros Hin. unfold back_edge_b, back_edge. unfold t. cbn [fst snd]. rewrite (dom_b_spec vs es r Hok). unfold edge. tauto.
  Qed.
End Derived.
