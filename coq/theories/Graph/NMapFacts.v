(* Graph/NMapFacts.v -- facts about the sorted association lists / sets of Graph/NMap.v *)
From Coq Require Import NArith List Bool Sorted Lia.
From Falcon Require Import Graph.NMap.
Import ListNotations.

Section Facts.
  Context {K : Type} (cmp : K -> K -> comparison).
  Hypothesis cmp_eq : forall a b, cmp a b = Eq <-> a = b.
  Hypothesis cmp_trans : forall a b c, cmp a b = Lt -> cmp b c = Lt -> cmp a c = Lt.
  Hypothesis cmp_anti : forall a b, cmp a b = CompOpp (cmp b a).

  Definition ksorted (l : list K) : Prop := StronglySorted (fun a b => cmp a b = Lt) l.

  Lemma cmp_refl a : cmp a a = Eq.
  Proof. apply cmp_eq; reflexivity. Qed.
  Lemma cmp_gt_lt a b : cmp a b = Gt -> cmp b a = Lt.
  Proof. intros Hg. rewrite cmp_anti, Hg. reflexivity. Qed.
  Lemma cmp_lt_neq a b : cmp a b = Lt -> a <> b.
  Proof. intros Hl ->. rewrite cmp_refl in Hl. discriminate. Qed.

  Lemma ksorted_nodup l : ksorted l -> NoDup l.
  Proof.
    induction 1 as [|a l Hs IH Hall]; constructor; auto.
    intros Hin. rewrite Forall_forall in Hall. specialize (Hall _ Hin).
    rewrite cmp_refl in Hall. discriminate.
  Qed.

  Lemma ksorted_tail a l : ksorted (a :: l) -> ksorted l.
  Proof. inversion 1; assumption. Qed.

  (* two sorted lists with the same elements are equal *)
  Lemma ksorted_ext l1 : forall l2, ksorted l1 -> ksorted l2 -> (forall x, In x l1 <-> In x l2) -> l1 = l2.
  Proof.
    induction l1 as [|a t IH]; intros [|b u] H1 H2 Hx.
    - reflexivity.
    - exfalso. apply (proj2 (Hx b)). left; reflexivity.
    - exfalso. apply (proj1 (Hx a)). left; reflexivity.
    - inversion H1 as [|? ? Hs1 Ha]; inversion H2 as [|? ? Hs2 Hb]; subst.
      rewrite Forall_forall in Ha, Hb.
      assert (a = b) as ->.
      { destruct (proj1 (Hx a) (or_introl eq_refl)) as [Hab|Hin]; [congruence|].
        destruct (proj2 (Hx b) (or_introl eq_refl)) as [Hab|Hin2]; [congruence|].
        specialize (Hb _ Hin). specialize (Ha _ Hin2).
        pose proof (cmp_trans _ _ _ Ha Hb) as Hc. rewrite cmp_refl in Hc. discriminate. }
      f_equal. apply IH; auto. intros x; split; intros Hin.
      + destruct (proj1 (Hx x) (or_intror Hin)) as [Hbx|]; auto. subst x.
        specialize (Ha _ Hin). rewrite cmp_refl in Ha. discriminate.
      + destruct (proj2 (Hx x) (or_intror Hin)) as [Hbx|]; auto. subst x.
        specialize (Hb _ Hin). rewrite cmp_refl in Hb. discriminate.
  Qed.

  (* ------------------------------------------------------------ sets *)
  Lemma os_mem_in k s : os_mem cmp k s = true <-> In k s.
  Proof.
    induction s as [|a t IH]; cbn; [split; [discriminate|tauto]|].
    destruct (cmp k a) eqn:Hc.
    - apply cmp_eq in Hc. subst. split; auto.
    - rewrite IH. split; auto. intros [->|]; auto. rewrite cmp_refl in Hc. discriminate.
    - rewrite IH. split; auto. intros [->|]; auto. rewrite cmp_refl in Hc. discriminate.
  Qed.
  Lemma os_mem_false k s : os_mem cmp k s = false <-> ~ In k s.
  Proof. rewrite <- os_mem_in. destruct (os_mem cmp k s); split; congruence. Qed.

  Lemma os_insert_in k s x : In x (os_insert cmp k s) <-> x = k \/ In x s.
  Proof.
    induction s as [|a t IH]; cbn; [intuition|].
    destruct (cmp k a) eqn:Hc; cbn.
    - apply cmp_eq in Hc. subst. intuition.
    - intuition.
    - rewrite IH. intuition.
  Qed.
  Lemma os_remove_in k s x : In x (os_remove cmp k s) <-> x <> k /\ In x s.
  Proof.
    induction s as [|a t IH]; cbn; [intuition|].
    destruct (cmp k a) eqn:Hc; cbn.
    - apply cmp_eq in Hc. subst. rewrite IH. intuition congruence.
    - rewrite IH. split; [intros [->|[? ?]]|intros [? [->|?]]]; auto.
      split; auto. intros ->. rewrite cmp_refl in Hc. discriminate.
    - rewrite IH. split; [intros [->|[? ?]]|intros [? [->|?]]]; auto.
      split; auto. intros ->. rewrite cmp_refl in Hc. discriminate.
  Qed.

  Lemma os_insert_sorted k s : ksorted s -> ksorted (os_insert cmp k s).
  Proof.
    induction 1 as [|a t Hs IH Hall]; cbn.
    - repeat constructor.
    - destruct (cmp k a) eqn:Hc.
      + constructor; auto.
      + constructor; [constructor; auto|]. constructor; auto.
        rewrite Forall_forall in *. intros x Hx. eapply cmp_trans; eauto.
      + constructor; auto. rewrite Forall_forall in *. intros x Hx.
        apply os_insert_in in Hx. destruct Hx as [->|Hx]; auto. apply cmp_gt_lt; auto.
  Qed.
  Lemma os_remove_sorted k s : ksorted s -> ksorted (os_remove cmp k s).
  Proof.
    induction 1 as [|a t Hs IH Hall]; cbn; [constructor|].
    assert (ksorted (a :: os_remove cmp k t)).
    { constructor; auto. rewrite Forall_forall in *. intros x Hx. apply os_remove_in in Hx. apply Hall, Hx. }
    destruct (cmp k a); auto.
  Qed.

  (* ------------------------------------------------------------ maps *)
  Context {A : Type}.
  Implicit Types m : list (K * A).

  Lemma om_get_insert_same k a m : om_get cmp k (om_insert cmp k a m) = Some a.
  Proof.
    induction m as [|[k1 a1] t IH]; cbn.
    - rewrite cmp_refl. reflexivity.
    - destruct (cmp k k1) eqn:Hc; cbn; rewrite ?cmp_refl, ?Hc; auto.
  Qed.
  Lemma om_get_insert_other k k' a m : k' <> k -> om_get cmp k' (om_insert cmp k a m) = om_get cmp k' m.
  Proof.
    intros Hne. assert (Hk : cmp k' k <> Eq) by (rewrite cmp_eq; auto).
    induction m as [|[k1 a1] t IH]; cbn.
    - destruct (cmp k' k); congruence.
    - destruct (cmp k k1) eqn:Hc; cbn.
      + apply cmp_eq in Hc. subst k1. destruct (cmp k' k); congruence.
      + destruct (cmp k' k); congruence.
      + rewrite IH. reflexivity.
  Qed.
  Lemma om_get_remove_same k m : om_get cmp k (om_remove cmp k m) = None.
  Proof.
    induction m as [|[k1 a1] t IH]; cbn; auto.
    destruct (cmp k k1) eqn:Hc; cbn; rewrite ?Hc; auto.
  Qed.
  Lemma om_get_remove_other k k' m : k' <> k -> om_get cmp k' (om_remove cmp k m) = om_get cmp k' m.
  Proof.
    intros Hne. induction m as [|[k1 a1] t IH]; cbn; auto.
    destruct (cmp k k1) eqn:Hc; cbn; rewrite ?IH; auto.
    apply cmp_eq in Hc. subst k1.
    destruct (cmp k' k) eqn:Hc2; auto. apply cmp_eq in Hc2. congruence.
  Qed.

  Lemma om_mem_in k m : om_mem cmp k m = true <-> In k (map fst m).
  Proof.
    unfold om_mem. induction m as [|[k1 a1] t IH]; cbn; [split; [discriminate|tauto]|].
    destruct (cmp k k1) eqn:Hc.
    - apply cmp_eq in Hc. subst. split; auto.
    - rewrite IH. split; auto. intros [->|]; auto. rewrite cmp_refl in Hc. discriminate.
    - rewrite IH. split; auto. intros [->|]; auto. rewrite cmp_refl in Hc. discriminate.
  Qed.
  Lemma om_mem_get k m : om_mem cmp k m = true <-> exists a, om_get cmp k m = Some a.
  Proof.
    unfold om_mem. destruct (om_get cmp k m); split; eauto; try discriminate. intros [a Ha]; discriminate.
  Qed.
  Lemma om_mem_false_get k m : om_mem cmp k m = false <-> om_get cmp k m = None.
  Proof. unfold om_mem. destruct (om_get cmp k m); split; congruence. Qed.

  Lemma om_mem_insert k k' a m : om_mem cmp k' (om_insert cmp k a m) = match cmp k' k with Eq => true | _ => om_mem cmp k' m end.
  Proof.
    unfold om_mem. destruct (cmp k' k) eqn:Hc.
    - apply cmp_eq in Hc. subst. rewrite om_get_insert_same. reflexivity.
    - rewrite om_get_insert_other; auto. intros ->. rewrite cmp_refl in Hc. discriminate.
    - rewrite om_get_insert_other; auto. intros ->. rewrite cmp_refl in Hc. discriminate.
  Qed.
  Lemma om_mem_remove k k' m : om_mem cmp k' (om_remove cmp k m) = match cmp k' k with Eq => false | _ => om_mem cmp k' m end.
  Proof.
    unfold om_mem. destruct (cmp k' k) eqn:Hc.
    - apply cmp_eq in Hc. subst. rewrite om_get_remove_same. reflexivity.
    - rewrite om_get_remove_other; auto. intros ->. rewrite cmp_refl in Hc. discriminate.
    - rewrite om_get_remove_other; auto. intros ->. rewrite cmp_refl in Hc. discriminate.
  Qed.

  Lemma om_insert_keys k a m x : In x (map fst (om_insert cmp k a m)) <-> x = k \/ In x (map fst m).
  Proof.
    induction m as [|[k1 a1] t IH]; cbn; [intuition|].
    destruct (cmp k k1) eqn:Hc; cbn.
    - apply cmp_eq in Hc. subst. intuition.
    - intuition.
    - rewrite IH. intuition.
  Qed.
  Lemma om_remove_keys k m x : In x (map fst (om_remove cmp k m)) <-> x <> k /\ In x (map fst m).
  Proof.
    induction m as [|[k1 a1] t IH]; cbn; [intuition|].
    destruct (cmp k k1) eqn:Hc; cbn.
    - apply cmp_eq in Hc. subst. rewrite IH. intuition congruence.
    - rewrite IH. split; [intros [->|[? ?]]|intros [? [->|?]]]; auto.
      split; auto. intros ->. rewrite cmp_refl in Hc. discriminate.
    - rewrite IH. split; [intros [->|[? ?]]|intros [? [->|?]]]; auto.
      split; auto. intros ->. rewrite cmp_refl in Hc. discriminate.
  Qed.

  Lemma om_insert_sorted k a m : ksorted (map fst m) -> ksorted (map fst (om_insert cmp k a m)).
  Proof.
    induction m as [|[k1 a1] t IH]; cbn; intros Hs.
    - repeat constructor.
    - inversion Hs as [|? ? Hs' Hall]; subst. destruct (cmp k k1) eqn:Hc; cbn.
      + apply cmp_eq in Hc. subst. constructor; auto.
      + constructor; auto. constructor; auto.
        rewrite Forall_forall in *. intros x Hx. eapply cmp_trans; eauto.
      + constructor; [apply IH; exact Hs'|]. rewrite Forall_forall in Hall. apply Forall_forall. intros x Hx.
        apply om_insert_keys in Hx. destruct Hx as [->|Hx]; auto. apply cmp_gt_lt; auto.
  Qed.
  Lemma om_remove_sorted k m : ksorted (map fst m) -> ksorted (map fst (om_remove cmp k m)).
  Proof.
    induction m as [|[k1 a1] t IH]; cbn; intros Hs; [constructor|].
    inversion Hs as [|? ? Hs' Hall]; subst.
    assert (ksorted (k1 :: map fst (om_remove cmp k t))).
    { constructor; [apply IH; exact Hs'|]. rewrite Forall_forall in Hall. apply Forall_forall.
      intros x Hx. apply om_remove_keys in Hx. apply Hall, Hx. }
    destruct (cmp k k1); auto.
  Qed.

  (* get on a sorted map = membership of the pair *)
  Lemma om_get_in k a m : ksorted (map fst m) -> (om_get cmp k m = Some a <-> In (k, a) m).
  Proof.
    induction m as [|[k1 a1] t IH]; cbn; intros Hs; [split; [discriminate|tauto]|].
    inversion Hs as [|? ? Hs' Hall]; subst. rewrite Forall_forall in Hall.
    destruct (cmp k k1) eqn:Hc.
    - apply cmp_eq in Hc. subst. split; [intros [= ->]; auto|].
      intros [[= ->]|Hin]; auto. exfalso.
      assert (Hk : In k1 (map fst t)) by (apply in_map_iff; exists (k1, a); auto).
      specialize (Hall _ Hk). rewrite cmp_refl in Hall. discriminate.
    - rewrite IH by assumption. split; auto. intros [[= -> ->]|]; auto. rewrite cmp_refl in Hc. discriminate.
    - rewrite IH by assumption. split; auto. intros [[= -> ->]|]; auto. rewrite cmp_refl in Hc. discriminate.
  Qed.
  Lemma om_get_some_in k a m : om_get cmp k m = Some a -> In (k, a) m.
  Proof.
    induction m as [|[k1 a1] t IH]; cbn; [discriminate|].
    destruct (cmp k k1) eqn:Hc; auto. apply cmp_eq in Hc. subst. intros [= ->]. auto.
  Qed.

  Lemma om_remove_filter k m :
    om_remove cmp k m = filter (fun p => match cmp k (fst p) with Eq => false | _ => true end) m.
  Proof. induction m as [|[k1 a1] t IH]; cbn; auto. destruct (cmp k k1); cbn; rewrite IH; auto. Qed.
End Facts.

(* ------------------------------------------------------------ instances: N and N * N keys *)
Lemma ncmp_eq a b : N.compare a b = Eq <-> a = b.
Proof. apply N.compare_eq_iff. Qed.
Lemma ncmp_trans a b c : N.compare a b = Lt -> N.compare b c = Lt -> N.compare a c = Lt.
Proof. rewrite !N.compare_lt_iff. lia. Qed.
Lemma ncmp_anti a b : N.compare a b = CompOpp (N.compare b a).
Proof. apply N.compare_antisym. Qed.

Lemma ecmp_eq a b : ecmp a b = Eq <-> a = b.
Proof.
  destruct a as [a1 a2], b as [b1 b2]. unfold ecmp; cbn.
  destruct (N.compare a1 b1) eqn:H1.
  - apply N.compare_eq_iff in H1. subst. rewrite N.compare_eq_iff. split; congruence.
  - split; [discriminate|]. intros [= -> ->]. rewrite N.compare_refl in H1. discriminate.
  - split; [discriminate|]. intros [= -> ->]. rewrite N.compare_refl in H1. discriminate.
Qed.
Lemma ecmp_trans a b c : ecmp a b = Lt -> ecmp b c = Lt -> ecmp a c = Lt.
Proof.
  destruct a as [a1 a2], b as [b1 b2], c as [c1 c2]. unfold ecmp; cbn.
  destruct (N.compare a1 b1) eqn:H1; destruct (N.compare b1 c1) eqn:H2; try discriminate;
    destruct (N.compare a1 c1) eqn:H3; intros Ha Hb; auto;
    rewrite ?N.compare_eq_iff, ?N.compare_lt_iff, ?N.compare_gt_iff in *; try lia.
Qed.
Lemma ecmp_anti a b : ecmp a b = CompOpp (ecmp b a).
Proof.
  destruct a as [a1 a2], b as [b1 b2]. unfold ecmp; cbn.
  rewrite (N.compare_antisym b1 a1). destruct (N.compare b1 a1); cbn; auto. apply N.compare_antisym.
Qed.

Definition nsorted := ksorted N.compare.
Definition esorted := ksorted ecmp.
