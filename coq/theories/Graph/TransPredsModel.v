(* Graph/TransPredsModel.v -- [U] compute_predecessors (work list over a VecDeque, fuel |V|^2+|V|+2 included): on
   every consistent graph it returns Ok P, every vertex is a key, and p is in P[v] exactly when there is a
   non-empty walk from p to v. *)
From Coq Require Import NArith List Bool Lia PeanoNat.
From Falcon Require Import Base.Res Graph.NMap Graph.NMapFacts Graph.Graph Graph.GraphInv Graph.Algo Graph.Spec
  Graph.Oracle Graph.OracleProofs.
Import ListNotations.

Lemma ns_union_spec a : forall b x, In x (ns_union a b) <-> In x a \/ In x b.
Proof.
  unfold ns_union. induction a as [|k a IH]; intros b x; cbn [fold_left].
  - cbn [In]. tauto.
  - rewrite IH, ns_insert_in. cbn [In]. split; [intros [?|[->|?]]|intros [[->|?]|?]]; auto.
Qed.
Lemma ns_union_sorted a : forall b, nsorted b -> nsorted (ns_union a b).
Proof. unfold ns_union. induction a as [|k a IH]; intros b Hb; cbn [fold_left]; auto. apply IH, ns_insert_sorted, Hb. Qed.

Lemma nodup_len_le (a b : list N) : NoDup a -> (forall x, In x a -> In x b) -> (length a <= length b)%nat.
Proof. intros Hn Hi. apply NoDup_incl_length; auto. Qed.
Lemma nodup_len_eq_incl (a b : list N) : NoDup a -> NoDup b -> (forall x, In x a -> In x b) ->
  length a = length b -> forall x, In x b -> In x a.
Proof. intros Ha Hb Hi Hl. apply NoDup_length_incl; auto. lia. Qed.

Section TP.
  Context {V E : Type} `{Vertex V} `{Edge E}.
  Variable g : graph V E.
  Hypothesis Hgi : graph_inv g.
  Let es := edge_keys g.
  Let VS := vertex_indices g.
  Let n := length (g_vertices g).

  Lemma edge_he a b : edge es a b <-> has_edge g a b = true.
  Proof. unfold edge, es. symmetry. apply has_edge_keys. Qed.
  Lemma VS_nodup : NoDup VS.
  Proof. apply nsorted_nodup. apply Hgi. Qed.
  Lemma VS_len : length VS = n.
  Proof. unfold VS, vertex_indices, n. apply map_length. Qed.

  Definition slack (P : nmap nset) : nat := fold_right (fun e acc => (n - length (snd e) + acc)%nat) O P.

  Lemma slack_replace (P : nmap nset) k s s' :
    nsorted (map fst P) -> nm_get k P = Some s -> (length s' <= n)%nat -> (length s <= length s')%nat ->
    (slack (nm_insert k s' P) + (length s' - length s) = slack P)%nat.
  Proof.
    unfold nm_get, nm_insert. induction P as [|[k1 a1] t IH]; cbn [om_get om_insert map fst]; intros Hs Hg Hn Hle; [discriminate|].
    inversion Hs as [|? ? Hs' Hall]; subst. destruct (N.compare k k1) eqn:Hc.
    - injection Hg as ->. cbn [slack fold_right snd]. fold (slack t). lia.
    - exfalso. apply om_get_some_in in Hg; [|apply ncmp_eq]. rewrite Forall_forall in Hall.
      assert (Hk : In k (map fst t)) by (apply in_map_iff; exists (k, s); auto). specialize (Hall k Hk).
      rewrite N.compare_lt_iff in Hc, Hall. lia.
    - cbn [slack fold_right snd]. fold (slack t). fold (slack (om_insert N.compare k s' t)).
      specialize (IH Hs' Hg Hn Hle). lia.
  Qed.

  Record TPI (queue : list N) (P : nmap nset) : Prop := {
    tp_keys : forall v, nm_mem v P = has_vertex g v;
    tp_sorted : nsorted (map fst P);
    tp_sets : forall v s, nm_get v P = Some s ->
                nsorted s /\ forall p, In p s -> has_vertex g p = true /\ reach_plus es p v;
    tp_base : forall p v s, edge es p v -> nm_get v P = Some s -> In p s;
    tp_q : forall a b sa sb, edge es a b -> nm_get a P = Some sa -> nm_get b P = Some sb ->
             (forall x, In x sa -> In x sb) \/ In a queue;
    tp_qv : forall x, In x queue -> has_vertex g x = true }.

  Lemma set_len_le P v s q : TPI q P -> nm_get v P = Some s -> (length s <= n)%nat.
  Proof.
    intros Hi Hg. destruct (tp_sets _ _ Hi v s Hg) as [Hs Hm]. rewrite <- VS_len. apply nodup_len_le.
    - apply nsorted_nodup. exact Hs.
    - intros x Hx. apply has_vertex_keys, Hm, Hx.
  Qed.

  (* the inner loop over the successors of the popped vertex v, whose set at the time of the pop is `this` *)
  Definition istep (this : nset) (acc : res (nmap nset * list N)) (s : N) : res (nmap nset * list N) :=
    a <- acc ;;
    sp <- nm_idx s (fst a) ;;
    let sp' := ns_union this sp in
    let changed := negb (Nat.eqb (length sp') (length sp)) in
    Ok (nm_insert s sp' (fst a), if changed then snd a ++ [s] else snd a).

  (* invariant during the inner loop: like TPI, except that the edges v -> b with b still to be processed are exempt *)
  Record IPI (v : N) (this : nset) (todo : list N) (queue : list N) (P : nmap nset) : Prop := {
    ip_keys : forall x, nm_mem x P = has_vertex g x;
    ip_sorted : nsorted (map fst P);
    ip_sets : forall x s, nm_get x P = Some s ->
                nsorted s /\ forall p, In p s -> has_vertex g p = true /\ reach_plus es p x;
    ip_base : forall p x s, edge es p x -> nm_get x P = Some s -> In p s;
    ip_this : forall s, nm_get v P = Some s -> forall x, In x s <-> In x this;
    ip_q : forall a b sa sb, edge es a b -> nm_get a P = Some sa -> nm_get b P = Some sb ->
             (forall x, In x sa -> In x sb) \/ In a queue \/ (a = v /\ In b todo);
    ip_qv : forall x, In x queue -> has_vertex g x = true }.

  Lemma inner v this : forall todo queue P,
    IPI v this todo queue P -> NoDup todo -> (forall s, In s todo -> edge es v s) ->
    (forall p, In p this -> has_vertex g p = true /\ reach_plus es p v) ->
    exists P' queue', fold_left (istep this) todo (Ok (P, queue)) = Ok (P', queue') /\
      IPI v this [] queue' P' /\ (length queue' + slack P' <= length queue + slack P)%nat.
  Proof.
    induction todo as [|s todo IH]; intros queue P Hi Hnd Hed Hthis; cbn [fold_left].
    - exists P, queue. split; [reflexivity|]. split; [exact Hi|lia].
    - inversion Hnd as [|? ? Hns Hnd']; subst.
      assert (Hvs : edge es v s) by (apply Hed; left; auto).
      assert (Hsv : has_vertex g s = true).
      { apply edge_he in Hvs. apply (has_edge_vertices g v s Hgi Hvs). }
      assert (Hgs : exists sp, nm_get s P = Some sp) by (apply nm_mem_get; rewrite (ip_keys _ _ _ _ _ Hi); exact Hsv).
      destruct Hgs as [sp Hgs]. unfold istep at 2. cbn [bind fst snd]. unfold nm_idx. rewrite Hgs. cbn [res_of_option bind].
      set (sp' := ns_union this sp).
      destruct (ip_sets _ _ _ _ _ Hi s sp Hgs) as [Hsps Hspm].
      assert (Hsp's : nsorted sp') by (apply ns_union_sorted; exact Hsps).
      assert (Hsp'm : forall p, In p sp' -> has_vertex g p = true /\ reach_plus es p s).
      { intros p Hp. apply ns_union_spec in Hp. destruct Hp as [Hp|Hp]; [|apply Hspm; exact Hp].
        destruct (Hthis p Hp) as [Hpv [c [l [He Hpth]]]]. split; auto. exists c, (l ++ [s]). split; auto. eapply path_snoc; eauto. }
      assert (Hlen_le : (length sp <= length sp')%nat).
      { apply nodup_len_le; [apply nsorted_nodup; exact Hsps|]. intros x Hx. apply ns_union_spec. auto. }
      assert (Hlen_n : (length sp' <= n)%nat).
      { rewrite <- VS_len. apply nodup_len_le; [apply nsorted_nodup; exact Hsp's|]. intros x Hx. apply has_vertex_keys, Hsp'm, Hx. }
      set (changed := negb (Nat.eqb (length sp') (length sp))).
      set (P1 := nm_insert s sp' P). set (q1 := if changed then queue ++ [s] else queue).
      assert (Hget1 : forall x, nm_get x P1 = if N.eqb x s then Some sp' else nm_get x P).
      { intros x. unfold P1. destruct (N.eqb_spec x s) as [->|Hne]; [apply nm_get_insert_same|apply nm_get_insert_other; exact Hne]. }
      assert (Hunch : changed = false -> forall x, In x sp' -> In x sp).
      { unfold changed. intros Hc. apply negb_false_iff, Nat.eqb_eq in Hc.
        apply nodup_len_eq_incl; auto; try (apply nsorted_nodup; assumption). intros x Hx. apply ns_union_spec. auto. }
      assert (Hi1 : IPI v this todo q1 P1).
      { constructor.
        - intros x. unfold P1. rewrite nm_mem_insert, (ip_keys _ _ _ _ _ Hi). destruct (N.eqb_spec x s) as [->|]; auto.
        - unfold P1. apply nm_insert_sorted. apply Hi.
        - intros x s0. rewrite Hget1. destruct (N.eqb_spec x s) as [->|Hne]; [intros [= <-]; auto|apply Hi].
        - intros p x s0 Hpx. rewrite Hget1. destruct (N.eqb_spec x s) as [->|Hne].
          + intros [= <-]. apply ns_union_spec. right. eapply (ip_base _ _ _ _ _ Hi); eauto.
          + apply (ip_base _ _ _ _ _ Hi p x s0 Hpx).
        - intros s0. rewrite Hget1. destruct (N.eqb_spec v s) as [->|Hne].
          + intros [= <-] x. unfold sp'. rewrite ns_union_spec, (ip_this _ _ _ _ _ Hi sp Hgs x). tauto.
          + apply Hi.
        - intros a b sa sb Hab. rewrite !Hget1.
          destruct (N.eqb_spec a s) as [->|Has]; destruct (N.eqb_spec b s) as [->|Hbs].
          + intros [= <-] [= <-]. left. auto.
          + intros [= <-] Hgb.
            destruct changed eqn:Hch.
            * right. left. unfold q1. apply in_or_app. right. left. reflexivity.
            * destruct (ip_q _ _ _ _ _ Hi s b sp sb Hab Hgs Hgb) as [Hinc|[Hq|[-> Hb]]].
              -- left. intros x Hx. apply Hinc, Hunch; auto.
              -- right. left. exact Hq.
              -- right. right. split; auto. destruct Hb as [<-|Hb]; [congruence|exact Hb].
          + intros Hga [= <-].
            destruct (ip_q _ _ _ _ _ Hi a s sa sp Hab Hga Hgs) as [Hinc|[Hq|[-> Hb]]].
            * left. intros x Hx. apply ns_union_spec. right. apply Hinc. exact Hx.
            * right. left. unfold q1. destruct changed; [apply in_or_app|]; auto.
            * left. intros x Hx. apply ns_union_spec. left. apply (ip_this _ _ _ _ _ Hi sa Hga x). exact Hx.
          + intros Hga Hgb.
            destruct (ip_q _ _ _ _ _ Hi a b sa sb Hab Hga Hgb) as [Hinc|[Hq|[-> Hb]]]; auto.
            * right. left. unfold q1. destruct changed; [apply in_or_app|]; auto.
            * right. right. split; auto. destruct Hb as [<-|Hb]; [congruence|exact Hb].
        - intros x Hx. unfold q1 in Hx. destruct changed; [|apply (ip_qv _ _ _ _ _ Hi x Hx)].
          apply in_app_or in Hx. destruct Hx as [Hx|[<-|[]]]; auto. apply (ip_qv _ _ _ _ _ Hi x Hx). }
      destruct (IH q1 P1 Hi1 Hnd' (fun s' Hs' => Hed s' (or_intror Hs')) Hthis) as [P' [q' [Hf [Hi' Hm']]]].
      exists P', q'. split; [exact Hf|]. split; [exact Hi'|].
      pose proof (slack_replace P s sp sp' (ip_sorted _ _ _ _ _ Hi) Hgs Hlen_n Hlen_le) as Hsl. fold P1 in Hsl.
      assert (Hq1 : (length q1 + slack P1 <= length queue + slack P)%nat).
      { unfold q1, P1. destruct changed eqn:Hch.
        - unfold changed in Hch. apply negb_true_iff, Nat.eqb_neq in Hch. rewrite app_length. cbn [length]. unfold nset in *. lia.
        - unfold nset in *. lia. }
      unfold nset in *. lia.
  Qed.

  Lemma loop_correct fuel : forall queue P,
    TPI queue P -> (length queue + slack P < fuel)%nat ->
    exists P', preds_loop fuel g queue P = Ok P' /\ TPI [] P'.
  Proof.
    induction fuel as [|f IH]; intros queue P Hi Hm; [lia|]. cbn [preds_loop].
    destruct queue as [|v q].
    - exists P. auto.
    - assert (Hvv : has_vertex g v = true) by (apply (tp_qv _ _ Hi); left; auto).
      assert (Hgv : exists this, nm_get v P = Some this) by (apply nm_mem_get; rewrite (tp_keys _ _ Hi); exact Hvv).
      destruct Hgv as [this Hgv]. unfold nm_idx. rewrite Hgv. cbn [res_of_option bind].
      destruct (succs_of_spec g v Hgi Hvv) as [ss [Hss [Hsso Hssin]]]. rewrite Hss. cbn [bind].
      destruct (tp_sets _ _ Hi v this Hgv) as [Hths Hthm].
      destruct (inner v this ss q P) as [P' [q' [Hf [Hi' Hm']]]].
      + constructor; try apply Hi.
        * intros s Hg x. rewrite Hgv in Hg. injection Hg as <-. tauto.
        * intros a b sa sb Hab Hga Hgb. destruct (tp_q _ _ Hi a b sa sb Hab Hga Hgb) as [|[<-|Hq]]; auto.
          right. right. split; auto. apply Hssin, edge_he. exact Hab.
        * intros x Hx. apply (tp_qv _ _ Hi). right. exact Hx.
      + apply nsorted_nodup. exact Hsso.
      + intros s Hs. apply edge_he, Hssin. exact Hs.
      + exact Hthm.
      + change (fold_left _ ss (Ok (P, q))) with (fold_left (istep this) ss (Ok (P, q))). rewrite Hf. cbn [bind fst snd].
        apply IH.
        * destruct Hi'. constructor; auto.
          intros a b sa sb Hab Hga Hgb. destruct (ip_q0 a b sa sb Hab Hga Hgb) as [|[|[_ []]]]; auto.
        * cbn [length] in Hm. lia.
  Qed.

  Definition init_step (acc : res (nmap nset)) (v : N) : res (nmap nset) :=
    P <- acc ;; ps <- preds_of g v ;; Ok (nm_insert v ps P).

  Lemma init_fold (l : list N) : forall P, (forall v, In v l -> has_vertex g v = true) -> nsorted (map fst P) ->
    exists P', fold_left init_step l (Ok P) = Ok P' /\ nsorted (map fst P') /\
      (forall v, nm_mem v P' = existsb (N.eqb v) l || nm_mem v P) /\
      (forall v s, nm_get v P' = Some s -> (In v l /\ preds_of g v = Ok s) \/ (~ In v l /\ nm_get v P = Some s)) /\
      (slack P' <= slack P + n * length l)%nat.
  Proof.
    induction l as [|v l IH]; intros P Hv Hs; cbn [fold_left].
    - exists P. split; [reflexivity|]. split; [exact Hs|]. split; [intros; reflexivity|]. split; [intros v s Hg; right; auto|lia].
    - unfold init_step at 2. cbn [bind].
      destruct (preds_of_spec g v Hgi (Hv v (or_introl eq_refl))) as [ps [Hps _]]. rewrite Hps. cbn [bind].
      destruct (IH (nm_insert v ps P) (fun x Hx => Hv x (or_intror Hx)) (nm_insert_sorted v ps P Hs)) as [P' [Hf [Hs' [Hk' [Hg' Hsl']]]]].
      exists P'. split; [exact Hf|]. split; [exact Hs'|]. split; [|split].
      + intros x. rewrite Hk', nm_mem_insert. cbn [existsb]. destruct (N.eqb x v), (existsb (N.eqb x) l), (nm_mem x P); reflexivity.
      + intros x s Hg. destruct (Hg' x s Hg) as [[Hin Hp]|[Hn Hgx]]; [left; split; auto; right; auto|].
        destruct (N.eq_dec x v) as [->|Hne].
        * rewrite nm_get_insert_same in Hgx. injection Hgx as <-. left. split; [left; auto|exact Hps].
        * rewrite nm_get_insert_other in Hgx by assumption. right. split; auto. intros [Heq|Hin]; [congruence|contradiction].
      + assert (Hins : (slack (nm_insert v ps P) <= slack P + n)%nat).
        { clear. unfold nm_insert. induction P as [|[k1 a1] t IHt]; cbn [om_insert slack fold_right snd]; [lia|].
          destruct (N.compare v k1); cbn [slack fold_right snd]; fold (slack t); try fold (slack (om_insert N.compare v ps t)); lia. }
        cbn [length]. lia.
  Qed.

  (* [U] transitive_preds_correct *)
  Theorem compute_predecessors_correct :
    exists P, compute_predecessors g = Ok P /\ nsorted (map fst P) /\
      (forall v, nm_mem v P = has_vertex g v) /\
      (forall v s, nm_get v P = Some s -> forall p, In p s <-> trans_pred es p v).
  Proof.
    unfold compute_predecessors. fold n.
    change (fold_left _ (vertex_indices g) (Ok [])) with (fold_left init_step VS (Ok [])).
    destruct (init_fold VS []) as [P0 [Hf0 [Hs0 [Hk0 [Hg0 Hsl0]]]]].
    { intros v Hv. apply has_vertex_keys. exact Hv. } { constructor. }
    rewrite Hf0. cbn [bind].
    assert (Hmem : forall v, existsb (N.eqb v) VS = has_vertex g v).
    { intros v. destruct (has_vertex g v) eqn:Hv.
      - apply existsb_exists. exists v. split; [apply has_vertex_keys; exact Hv|apply N.eqb_refl].
      - destruct (existsb (N.eqb v) VS) eqn:Hx; auto. apply existsb_exists in Hx. destruct Hx as [x [Hx Hq]].
        apply N.eqb_eq in Hq. subst. apply has_vertex_keys in Hx. congruence. }
    assert (Hget0 : forall v s, nm_get v P0 = Some s -> has_vertex g v = true /\ nsorted s /\ forall p, In p s <-> edge es p v).
    { intros v s Hg. destruct (Hg0 v s Hg) as [[Hin Hp]|[_ Hn]]; [|discriminate].
      assert (Hv : has_vertex g v = true) by (apply has_vertex_keys; exact Hin).
      destruct (preds_of_spec g v Hgi Hv) as [ps [Hps [Hso Hpin]]]. rewrite Hps in Hp. injection Hp as <-.
      split; auto. split; auto. intros p. rewrite Hpin. symmetry. apply edge_he. }
    destruct (loop_correct (S (S (n * n + n))) VS P0) as [P [Hl Hi]].
    - constructor.
      + intros v. rewrite Hk0, Hmem. cbn. rewrite orb_false_r. reflexivity.
      + exact Hs0.
      + intros v s Hg. destruct (Hget0 v s Hg) as [Hv [Hso Hin]]. split; auto. intros p Hp. apply Hin in Hp. split.
        * apply edge_he in Hp. apply (has_edge_vertices g p v Hgi Hp).
        * exists v, []. split; auto. constructor.
      + intros p v s Hpv Hg. apply (Hget0 v s Hg). exact Hpv.
      + intros a b sa sb Hab Hga Hgb. right. apply has_vertex_keys. apply (Hget0 a sa Hga).
      + intros x Hx. apply has_vertex_keys. exact Hx.
    - rewrite VS_len. cbn [slack fold_right] in Hsl0. rewrite VS_len in Hsl0. lia.
    - exists P. split; [exact Hl|]. split; [apply Hi|]. split; [apply Hi|].
      intros v s Hg p. split; [apply (tp_sets _ _ Hi v s Hg)|].
      intros [c [l [Hpc Hpth]]].
      assert (Hgen : forall a l b, path es a l b -> forall sa, nm_get a P = Some sa -> In p sa ->
                       forall sb, nm_get b P = Some sb -> In p sb).
      { clear -Hi Hgi. intros a l b Hp. induction Hp as [a|a c l b Hac Hp IH]; intros sa Hga Hpa sb Hgb.
        - rewrite Hga in Hgb. injection Hgb as <-. exact Hpa.
        - assert (Hcv : has_vertex g c = true). { apply edge_he in Hac. apply (has_edge_vertices g a c Hgi Hac). }
          assert (Hgc : exists sc, nm_get c P = Some sc) by (apply nm_mem_get; rewrite (tp_keys _ _ Hi); exact Hcv).
          destruct Hgc as [sc Hgc]. apply (IH sc Hgc); auto.
          destruct (tp_q _ _ Hi a c sa sc Hac Hga Hgc) as [Hinc|[]]. apply Hinc. exact Hpa. }
      assert (Hcv : has_vertex g c = true). { apply edge_he in Hpc. apply (has_edge_vertices g p c Hgi Hpc). }
      assert (Hgc : exists sc, nm_get c P = Some sc) by (apply nm_mem_get; rewrite (tp_keys _ _ Hi); exact Hcv).
      destruct Hgc as [sc Hgc]. apply (Hgen c l v Hpth sc Hgc); auto. eapply (tp_base _ _ Hi); eauto.
  Qed.
End TP.
