(* Graph/SemiNcaFinal.v -- (a) the validator idom_check is COMPLETE: the exact immediate-dominator relation passes it;
   (b) Semi-NCA model, final form: GIVEN the three DFS facts listed below, compute_immediate_dominators returns exactly
   the textbook immediate-dominator relation and its result passes idom_check -- for every graph.
   What is still assumed (see notes/C11.md, "what remains for unbounded Semi-NCA"):
     H1  the pre-order of the DFS tree is a depth-first pre-order of the GRAPH (SpecDfs.is_dfs_pre_order);
     H2  a tree edge (p, v) joins v to a proper ancestor p in that order, and every ancestor of v is on v's tree path;
     H3  the number of reachable vertices fits in usize. *)
From Coq Require Import NArith List Bool Lia PeanoNat.
From Falcon Require Import Base.Res Graph.NMap Graph.NMapFacts Graph.Graph Graph.GraphInv Graph.Algo Graph.Spec
  Graph.SpecDfs Graph.Oracle Graph.OracleProofs Graph.ClosureTotal Graph.LoopProofs Graph.BackEdges Graph.DomTheory
  Graph.IdomExists Graph.DomModel Graph.DfsTreeModel Graph.PathLemma Graph.SemiDomTheory Graph.SemiNcaTheory
  Graph.SemiLoop Graph.SemiLoopMain Graph.PreOrderProofs Graph.PreOrderSpec Graph.DfsOrderModel Graph.DfsParent.
Import ListNotations.
Local Open Scope N_scope.

Theorem idom_check_complete vs es r (m : list (N * N)) :
  NoDup (map fst m) -> (forall v d, In (v, d) m <-> idom es r d v) -> idom_check vs es r m = true.
Proof.
  intros Hnd Hm. unfold idom_check, idom_check_t. pose proof (tab_ok_always vs es r) as Hok. rewrite Hok. cbn [andb].
  apply andb_true_iff. split.
  - apply forallb_forall. intros [v d] Hin. cbn [fst snd]. apply Hm in Hin. destruct Hin as [Hs _].
    destruct (sdom_in_vv vs es r d v Hs) as [Hd Hv]. apply andb_true_iff. split; apply memb_in; assumption.
  - apply forallb_forall. intros v _. apply forallb_forall. intros d _.
    destruct (idom_b (mk_tab vs es r) (verts vs es r) d v) eqn:Hb.
    + apply (idom_b_spec vs es r Hok) in Hb. apply Hm in Hb. rewrite (alook_nodup m v d Hnd Hb), N.eqb_refl. reflexivity.
    + destruct (alook m v) as [d'|] eqn:Ha; [|reflexivity].
      destruct (N.eqb_spec d' d) as [->|Hne]; [|reflexivity]. exfalso.
      apply alook_in in Ha. apply Hm in Ha. apply (idom_b_spec vs es r Hok) in Ha. congruence.
Qed.

(* the tree parent read by the model: dfs_parent = first predecessor in the DFS tree *)
Definition tpar (dfs : tree) (v : N) : option N :=
  if has_vertex dfs v then match preds_of dfs v with Ok ps => hd_error ps | _ => None end else None.

Section Final.
  Context {V E : Type} `{Vertex V} `{Edge E}.
  Variable g : graph V E.
  Hypothesis Hgi : graph_inv g.
  Variable r : N.
  Hypothesis Hr : has_vertex g r = true.
  Let es := edge_keys g.
  Let vs := vertex_indices g.

  Theorem snca_correct_given_dfs_facts dfs order :
    compute_dfs_tree g r = Ok dfs -> compute_pre_order dfs r = Ok order ->
    (* H1 *) is_dfs_pre_order es r order ->
    (* H2 *) (forall p v, has_edge dfs p v = true -> anc es order p v /\ p <> v) ->
             (forall u v, anc es order u v -> chainp (tpar dfs) v u) ->
    (* H3 *) N.of_nat (length order) <= usize_max ->
    exists m, compute_immediate_dominators g r = Ok m /\
              (forall v d, In (v, d) m <-> idom es r d v) /\
              idom_check vs es r m = true.
  Proof.
    intros Hm1 Hm2 Hdfs Hanc Hchain Hsize.
    destruct (compute_dfs_tree_correct g Hgi r Hr) as [t [Ht [Hgt [Fv [Fe [Fu [Fp _]]]]]]].
    fold es in Fv, Fe, Fp. rewrite Hm1 in Ht. injection Ht as <-.
    assert (Hin : forall v, In v order <-> reach es r v) by (intros v; apply (listed_reach es r order Hdfs)).
    assert (Hps : forall v, In v order -> exists s, preds_of dfs v = Ok s /\ forall h, In h s <-> has_edge dfs h v = true).
    { intros v Hv. apply Hin, Fv in Hv. destruct (preds_of_spec dfs v Hgt Hv) as [s [Hs [_ Hs']]]. exists s. auto. }
    assert (Htp : forall v p, tpar dfs v = Some p -> has_edge dfs p v = true).
    { intros v p. unfold tpar. destruct (has_vertex dfs v) eqn:Hvd; [|discriminate].
      destruct (preds_of dfs v) as [s| |] eqn:Hs; try discriminate. intros Hh.
      destruct (preds_of_spec dfs v Hgt Hvd) as [s' [Hs1 [_ Hs2]]]. rewrite Hs in Hs1. injection Hs1 as <-.
      apply Hs2. destruct s as [|a s]; [discriminate|]. injection Hh as ->. left. reflexivity. }
    destruct (snca_correct_given_dfs g r dfs order (tpar dfs) Hgi Hm1 Hm2 Hdfs) as [m [Hm Hspec]]; auto.
    - intros w Hw. apply (reach_has_vertex g Hgi r Hr). apply Hin. exact Hw.
    - intros v Hv. destruct (Hps v Hv) as [s [Hs _]]. unfold dfs_parent, tpar. rewrite (proj2 (Fv v) (proj1 (Hin v) Hv)), Hs. reflexivity.
    - intros v Hv Hne. destruct (Hps v Hv) as [s [Hs Hs']]. destruct (Fp v (proj1 (Hin v) Hv) Hne) as [p Hp].
      apply Hs' in Hp. unfold tpar. rewrite (proj2 (Fv v) (proj1 (Hin v) Hv)), Hs. destruct s as [|a s]; [destruct Hp|]. exists a. reflexivity.
    - intros v p Hp. apply Htp in Hp. destruct (Hanc p v Hp) as [Ha Hne]. destruct (Fe p v Hp) as [He _].
      destruct (anc_num es r order Hdfs p v Ha) as [_ [_ Hpo]]. auto.
    - exists m. split; [exact Hm|]. pose proof (idoms_sorted g r m Hm) as Hsorted.
      assert (Hspec' : forall v d, In (v, d) m <-> idom es r d v).
      { intros v d. rewrite <- (nm_get_in v d m Hsorted). apply Hspec. }
      split; [exact Hspec'|]. apply idom_check_complete; [apply nsorted_nodup; exact Hsorted|exact Hspec'].
  Qed.

  (* [U] Semi-NCA, unconditional: on EVERY consistent graph (with at most usize::MAX vertices) and root vertex the model
     of compute_immediate_dominators returns Ok m, m is exactly the textbook immediate-dominator relation, and m
     passes the validator idom_check *)
  Theorem snca_correct :
    N.of_nat (length (vertex_indices g)) <= usize_max ->
    exists m, compute_immediate_dominators g r = Ok m /\
              (forall v d, In (v, d) m <-> idom es r d v) /\
              idom_check vs es r m = true.
  Proof.
    intros Hsz.
    destruct (compute_dfs_tree_correct g Hgi r Hr) as [T [HT [HgT [Fv [Fe [Fu [Fp _]]]]]]]. fold es in Fv, Fe, Fp.
    assert (HTr : has_vertex T r = true) by (apply Fv; exists []; constructor).
    destruct (compute_pre_order_correct T HgT r HTr) as [order [Hord _]].
    destruct (dfs_tree_pre_order g Hgi r Hr T order HT Hord) as [Hordg Hgood].
    pose proof (compute_pre_order_is_dfs_spec g Hgi r order Hordg) as Hdfs. fold es in Hdfs.
    assert (Hin : forall v, In v order <-> reach es r v) by (intros v; apply (listed_reach es r order Hdfs)).
    assert (Htp : forall v p, tpar T v = Some p -> has_edge T p v = true).
    { intros v p. unfold tpar. destruct (has_vertex T v) eqn:Hvd; [|discriminate].
      destruct (preds_of T v) as [s| |] eqn:Hs; try discriminate. intros Hh.
      destruct (preds_of_spec T v HgT Hvd) as [s' [Hs1 [_ Hs2]]]. rewrite Hs in Hs1. injection Hs1 as <-.
      apply Hs2. destruct s as [|a s]; [discriminate|]. injection Hh as ->. left. reflexivity. }
    assert (Hps : forall v, In v order -> v <> r -> exists p, tpar T v = Some p).
    { intros v Hv Hne. pose proof (proj2 (Fv v) (proj1 (Hin v) Hv)) as Hvd.
      destruct (preds_of_spec T v HgT Hvd) as [s [Hs [_ Hs']]]. destruct (Fp v (proj1 (Hin v) Hv) Hne) as [p Hp].
      apply Hs' in Hp. unfold tpar. rewrite Hvd, Hs. destruct s as [|a s]; [destruct Hp|]. exists a. reflexivity. }
    assert (Hpe : forall p v, has_edge T p v = true -> edge es p v /\ In p order /\ In v order /\ good es order p v).
    { intros p v Hpv. destruct (has_edge_vertices T p v HgT Hpv) as [Hp Hv]. split; [apply (Fe p v Hpv)|].
      split; [apply Hin, Fv; exact Hp|]. split; [apply Hin, Fv; exact Hv|]. exact (Hgood p v Hpv). }
    apply (snca_correct_given_dfs_facts T order HT Hord Hdfs).
    - intros p v Hpv. apply (pe_anc es r order Hdfs (fun p v => has_edge T p v = true) Hpe p v Hpv).
    - intros u v Ha. apply (anc_chain es r order Hdfs (fun p v => has_edge T p v = true) Hpe (tpar T) Htp Hps u v Ha).
    - assert (Hle : (length order <= length (vertex_indices g))%nat).
      { apply NoDup_incl_length; [apply (l_nodup es r order Hdfs)|]. intros v Hv. apply has_vertex_keys.
        apply (reach_has_vertex g Hgi r Hr). apply Hin. exact Hv. }
      lia.
  Qed.
End Final.
