(* Graph/DfsParent.v -- DFS theory: in a depth-first pre-order l of (es, r), if every vertex v other than the root is
   given a "parent" p that is the LATEST-numbered predecessor of v among those numbered before v, then p is a proper
   DFS ancestor of v, and the parent chain of v runs through every DFS ancestor of v (p is the DFS-tree parent). *)
From Coq Require Import NArith List Bool Lia PeanoNat Wf_nat.
From Falcon Require Import Graph.Spec Graph.SpecDfs Graph.AcyclicGraphModel Graph.DfsFacts Graph.PathLemma
  Graph.SemiDomTheory Graph.SemiLoop.
Import ListNotations.
Local Open Scope N_scope.

Definition good (es : list (N * N)) (l : list N) (p w : N) : Prop :=
  (idx p l < idx w l)%nat /\
  forall x, In x l -> edge es x w -> (idx x l < idx w l)%nat -> (idx x l <= idx p l)%nat.

Lemma idx_before (a : list N) u b w c : NoDup (a ++ u :: b ++ w :: c) ->
  idx u (a ++ u :: b ++ w :: c) = length a /\ idx w (a ++ u :: b ++ w :: c) = (length a + 1 + length b)%nat.
Proof.
  intros Hnd. split.
  - apply idx_split. intros Hx. apply (nodup_app_disj a (u :: b ++ w :: c) u Hnd Hx). left. reflexivity.
  - replace (a ++ u :: b ++ w :: c) with ((a ++ u :: b) ++ w :: c) in * by (rewrite <- app_assoc; reflexivity).
    rewrite idx_split; [rewrite app_length; cbn [length]; lia|].
    intros Hx. apply (nodup_app_disj (a ++ u :: b) (w :: c) w Hnd Hx). left. reflexivity.
Qed.

Section DfsParent.
  Variable es : list (N * N).
  Variable r : N.
  Variable l : list N.
  Hypothesis Hdfs : is_dfs_pre_order es r l.
  Variable pe : N -> N -> Prop.            (* tree edge p -> v *)
  Hypothesis Hpe : forall p v, pe p v -> edge es p v /\ In p l /\ In v l /\ good es l p v.
  Variable par : N -> option N.
  Hypothesis Hpar : forall v p, par v = Some p -> pe p v.
  Hypothesis Hps : forall v, In v l -> v <> r -> exists p, par v = Some p.

  Lemma pe_anc p v : pe p v -> anc es l p v /\ p <> v.
  Proof.
    intros Hp. destruct (Hpe p v Hp) as [He [Hpl [Hvl [Hlt _]]]]. split; [|intros ->; lia].
    destruct (dfs_edge_lemma es r l Hdfs p v Hpl He) as [l1 [sx [l3 [Heq [Hpre Hin]]]]].
    exists l1, sx, l3. split; auto. split; auto. destruct Hin as [Hin|Hin]; auto. exfalso.
    destruct (anc_pos es r l Hdfs p v l1 sx l3 Heq Hpre) as [Hip _].
    pose proof (idx_lt_in v l1 (sx ++ l3) Hin) as Hv. rewrite <- Heq in Hv. lia.
  Qed.

  Lemma root_first : idx r l = 0%nat.
  Proof. destruct (pre_head es _ _ _ Hdfs) as [t [-> _]]. cbn [idx]. rewrite N.eqb_refl. reflexivity. Qed.

  Lemma anc_chainp : forall n v, idx v l = n -> forall u, anc es l u v -> chainp par v u.
  Proof.
    induction n as [n IH] using lt_wf_ind. intros v Hn u Ha.
    destruct (N.eq_dec u v) as [->|Hne]; [apply ch_refl|].
    destruct (anc_num es r l Hdfs u v Ha) as [Hle [Hvl Hul]]. unfold num in Hle.
    assert (Hlt : (idx u l < idx v l)%nat).
    { destruct (Nat.eq_dec (idx u l) (idx v l)) as [Heq|]; [|lia]. exfalso. apply Hne. apply (idx_inj l u v Hul Heq). }
    assert (Hvr : v <> r) by (intros ->; rewrite root_first in Hlt; lia).
    destruct (Hps v Hvl Hvr) as [p Hp]. pose proof (Hpar v p Hp) as Hpv.
    destruct (Hpe p v Hpv) as [He [Hpl [_ [Hplt Hmax]]]].
    destruct Ha as [l1 [su [l3 [Heq [Hpre Hvin]]]]].
    destruct (anc_pos es r l Hdfs u v l1 su l3 Heq Hpre) as [Hiu Hseg].
    assert (Hup : (idx u l <= idx p l)%nat).
    { destruct (Nat.le_gt_cases (idx u l) (idx p l)) as [|Hgt]; auto. exfalso.
      destruct (proj1 (discoverer es) _ _ _ Hpre v Hvin (fun e => Hne (eq_sym e))) as [u' [a [b [c [Hsu He']]]]].
      assert (Hl : l = (l1 ++ a) ++ u' :: b ++ v :: (c ++ l3)).
      { rewrite Heq, Hsu. repeat (rewrite <- app_assoc; cbn [app]). reflexivity. }
      pose proof (l_nodup es r l Hdfs) as Hnd. rewrite Hl in Hnd. destruct (idx_before _ _ _ _ _ Hnd) as [I1 I2].
      rewrite <- Hl in I1, I2. rewrite app_length in I1, I2.
      assert (Hu'l : In u' l) by (rewrite Hl; apply in_or_app; right; left; reflexivity).
      assert (Hlt' : (idx u' l < idx v l)%nat) by lia.
      specialize (Hmax u' Hu'l He' Hlt'). lia. }
    assert (Hpin : In p su).
    { apply (proj2 (anc_pos es r l Hdfs u p l1 su l3 Heq Hpre)). apply Hseg in Hvin. lia. }
    apply (ch_step par v p u Hp). apply (IH (idx p l)); [lia|reflexivity|]. exists l1, su, l3. auto.
  Qed.

  Theorem anc_chain u v : anc es l u v -> chainp par v u.
  Proof. intros Ha. apply (anc_chainp (idx v l) v eq_refl u Ha). Qed.
End DfsParent.
