(* Graph/ClosureTotal.v -- the closure computation of Graph/Oracle.v always reaches a closed set with the fuel
   it is given: cl_ok and tab_ok are always true.  Consequences: reachability-avoiding-a-set, dominance,
   strict dominance and immediate dominance are decidable, and the hypothesis `tab_ok .. = true` of the
   validator theorems is always satisfied. *)
From Coq Require Import NArith List Bool Lia PeanoNat.
From Falcon Require Import Graph.Spec Graph.Oracle Graph.OracleProofs.
Import ListNotations.
Local Open Scope N_scope.

Lemma add_new_nodup X b : NoDup X -> NoDup (add_new X b).
Proof.
  intros Hn. unfold add_new. destruct (memb b X) eqn:Hm; auto. constructor; auto. apply memb_false. exact Hm.
Qed.
Lemma fold_add_new_nodup l : forall X, NoDup X -> NoDup (fold_left add_new l X).
Proof. induction l as [|b l IH]; intros X Hn; cbn; auto. apply IH, add_new_nodup, Hn. Qed.
Lemma fold_add_new_length l : forall X, (length X <= length (fold_left add_new l X))%nat.
Proof.
  induction l as [|b l IH]; intros X; cbn; auto.
  specialize (IH (add_new X b)). unfold add_new in *. destruct (memb b X); cbn in *; lia.
Qed.
Lemma fold_add_new_grows l : forall X b, In b l -> ~ In b X -> (length X < length (fold_left add_new l X))%nat.
Proof.
  induction l as [|c l IH]; intros X b Hin Hn; [destruct Hin|]. cbn [fold_left].
  destruct Hin as [->|Hin].
  - pose proof (fold_add_new_length l (add_new X b)) as Hl. unfold add_new in *.
    apply memb_false in Hn. rewrite Hn in *. cbn in Hl. lia.
  - destruct (in_dec N.eq_dec b (add_new X c)) as [Hi|Hi].
    + pose proof (fold_add_new_length l (add_new X c)) as Hl.
      apply add_new_in in Hi. destruct Hi as [->|Hi]; [|contradiction].
      unfold add_new in *. apply memb_false in Hn. rewrite Hn in *. cbn in Hl. lia.
    + specialize (IH _ _ Hin Hi). unfold add_new in *. destruct (memb c X); cbn in *; lia.
Qed.

Section Total.
  Variable es : list (N * N).
  Variable av : N -> bool.

  Definition step_list (X : list N) : list N := filter (fun b => negb (av b)) (flat_map (osucc es) X).

  Lemma stop_closed X : length (fold_left add_new (step_list X) X) = length X -> closed_b es av X = true.
  Proof.
    intros Hlen. unfold closed_b. apply forallb_forall. intros a Ha. apply forallb_forall. intros b Hb.
    destruct (av b) eqn:Hav; auto. cbn. apply memb_in.
    destruct (in_dec N.eq_dec b X) as [|Hn]; auto. exfalso.
    assert (Hin : In b (step_list X)).
    { unfold step_list. apply filter_In. split; [|rewrite Hav; reflexivity]. apply in_flat_map. exists a. auto. }
    pose proof (fold_add_new_grows _ _ _ Hin Hn). lia.
  Qed.

  Lemma grow_closed (U : list N) fuel : forall X,
    NoDup X -> incl X U -> (forall a b, In (a, b) es -> In b U) ->
    (length U < fuel + length X)%nat -> closed_b es av (grow fuel es av X) = true.
  Proof.
    induction fuel as [|f IH]; intros X Hn Hinc HU Hlen.
    - pose proof (NoDup_incl_length Hn Hinc). lia.
    - cbn [grow]. fold (step_list X).
      destruct (Nat.eqb (length (fold_left add_new (step_list X) X)) (length X)) eqn:Heq.
      + apply Nat.eqb_eq in Heq. apply stop_closed. exact Heq.
      + apply Nat.eqb_neq in Heq. pose proof (fold_add_new_length (step_list X) X) as Hge.
        apply IH; auto.
        * apply fold_add_new_nodup. exact Hn.
        * intros x Hx. apply fold_add_new_in in Hx. destruct Hx as [Hx|Hx]; [|apply Hinc; exact Hx].
          unfold step_list in Hx. apply filter_In in Hx. destruct Hx as [Hx _].
          apply in_flat_map in Hx. destruct Hx as [a [_ Hx]]. apply osucc_in in Hx. eapply HU; eauto.
        * lia.
  Qed.

  Theorem cl_ok_always r : cl_ok es av r = true.
  Proof.
    unfold cl_ok, cl. destruct (av r); [reflexivity|].
    apply grow_closed with (U := r :: map snd es).
    - constructor; [intros []|constructor].
    - intros x [<-|[]]. left. reflexivity.
    - intros a b Hin. right. apply in_map_iff. exists (a, b). auto.
    - cbn [length]. rewrite map_length. lia.
  Qed.
End Total.

Theorem tab_ok_always vs es r : tab_ok vs es r = true.
Proof.
  unfold tab_ok. rewrite cl_ok_always. cbn. apply forallb_forall. intros d _. apply cl_ok_always.
Qed.

(* decidability of the textbook relations, through their reflections *)
Lemma reach_dec es r v : {reach es r v} + {~ reach es r v}.
Proof.
  destruct (reach_b (mk_tab [] es r) v) eqn:Hb.
  - left. apply (reach_b_spec [] es r (tab_ok_always _ _ _)). exact Hb.
  - right. intros Hr. apply (reach_b_spec [] es r (tab_ok_always _ _ _)) in Hr. congruence.
Qed.
Lemma dom_dec es r d v : {dom es r d v} + {~ dom es r d v}.
Proof.
  destruct (dom_b (mk_tab [] es r) d v) eqn:Hb.
  - left. apply (dom_b_spec [] es r (tab_ok_always _ _ _)). exact Hb.
  - right. intros Hr. apply (dom_b_spec [] es r (tab_ok_always _ _ _)) in Hr. congruence.
Qed.
Lemma sdom_dec es r d v : {sdom es r d v} + {~ sdom es r d v}.
Proof.
  destruct (dom_dec es r d v) as [Hd|Hd]; [|right; intros [? ?]; contradiction].
  destruct (N.eq_dec d v) as [->|Hne]; [right; intros [_ ?]; congruence|left; split; auto].
Qed.

(* a vertex that is reachable but not dominated by d is reached by a walk that avoids d *)
Lemma not_dom_path es r d v : reach es r v -> ~ dom es r d v -> exists l, path es r l v /\ ~ In d (r :: l).
Proof.
  intros Hr Hnd.
  destruct (in_dec N.eq_dec v (cl es (N.eqb d) r)) as [Hin|Hni].
  - apply (cl_sound es _ r (cl_ok_always es _ r)) in Hin. destruct Hin as [l [Hp Hav]].
    exists l. split; auto. intros Hd. specialize (Hav d Hd). rewrite N.eqb_refl in Hav. discriminate.
  - exfalso. apply Hnd. split; auto. intros l Hp.
    destruct (in_dec N.eq_dec d (r :: l)) as [|Hn]; auto. exfalso. apply Hni.
    apply (cl_sound es _ r (cl_ok_always es _ r)). exists l. split; auto.
    intros x Hx. apply N.eqb_neq. intros ->. contradiction.
Qed.
