(* Graph/Unconditional.v -- with Semi-NCA proved for every graph (SemiNcaFinal.snca_correct), the theorems about the
   dominator family / loops / reducibility that were stated "given that the idom map passes idom_check" hold
   unconditionally: for every consistent graph with at most usize::MAX vertices and every root vertex. *)
From Coq Require Import NArith List Bool.
From Falcon Require Import Base.Res Graph.NMap Graph.NMapFacts Graph.Graph Graph.GraphInv Graph.Algo Graph.Spec
  Graph.Oracle Graph.DomModel Graph.FrontierModel Graph.ReducibleModel Graph.LoopModel Graph.LoopTreeModel
  Graph.SemiNcaFinal.
Import ListNotations.
Local Open Scope N_scope.

Section Uncond.
  Context {V E : Type} `{Vertex V} `{Edge E}.
  Variable g : graph V E.
  Hypothesis Hgi : graph_inv g.
  Variable r : N.
  Hypothesis Hr : has_vertex g r = true.
  Hypothesis Hsz : N.of_nat (length (vertex_indices g)) <= usize_max.
  Let es := edge_keys g.

  Theorem immediate_dominators_all :
    exists m, compute_immediate_dominators g r = Ok m /\ nsorted (map fst m) /\
              forall v d, In (v, d) m <-> idom es r d v.
  Proof.
    destruct (snca_correct g Hgi r Hr Hsz) as [m [Hm [Hspec _]]]. exists m. split; auto. split; auto.
    eapply idoms_sorted; eauto.
  Qed.

  Theorem dominator_tree_all :
    exists t, compute_dominator_tree g r = Ok t /\ graph_inv t /\
      (forall v, has_vertex t v = true <-> reach es r v) /\
      (forall d v, has_edge t d v = true <-> idom es r d v).
  Proof. destruct (snca_correct g Hgi r Hr Hsz) as [m [Hm [_ Hc]]]. eapply DomModel.dominator_tree_correct; eauto. Qed.

  Theorem dominators_all :
    exists doms, compute_dominators g r = Ok doms /\ nsorted (map fst doms) /\
      (forall v, In v (map fst doms) <-> reach es r v) /\
      (forall v D, In (v, D) doms -> forall d, In d D <-> dom es r d v).
  Proof. destruct (snca_correct g Hgi r Hr Hsz) as [m [Hm [_ Hc]]]. eapply DomModel.compute_dominators_correct; eauto. Qed.

  Theorem back_edges_all :
    exists be, compute_back_edges g r = Ok be /\ forall a b, In (a, b) be <-> back_edge es r a b.
  Proof. destruct (snca_correct g Hgi r Hr Hsz) as [m [Hm [_ Hc]]]. eapply DomModel.compute_back_edges_correct; eauto. Qed.

  Theorem dominance_frontiers_all :
    exists df, compute_dominance_frontiers g r = Ok df /\
      (forall x, nm_mem x df = has_vertex g x) /\
      (forall x F, nm_get x df = Some F -> forall y, In y F <-> in_DF es r x y).
  Proof. destruct (snca_correct g Hgi r Hr Hsz) as [m [Hm [_ Hc]]]. eapply FrontierModel.compute_dominance_frontiers_correct; eauto. Qed.

  Theorem is_reducible_all :
    exists b, is_reducible g r = Ok b /\ (b = true <-> forward_edges_acyclic es r).
  Proof. destruct (snca_correct g Hgi r Hr Hsz) as [m [Hm [_ Hc]]]. eapply ReducibleModel.is_reducible_correct; eauto. Qed.

  Theorem loops_all :
    exists loops, compute_loops g r = Ok loops /\ nsorted (map fst loops) /\
      (forall h, In h (map fst loops) <-> is_header es r h) /\
      (forall h L, In (h, L) loops -> forall x, In x L <-> in_loop es r h x).
  Proof. destruct (snca_correct g Hgi r Hr Hsz) as [m [Hm [_ Hc]]]. eapply LoopModel.compute_loops_correct; eauto. Qed.

  Theorem loop_tree_all :
    exists loops t, compute_loops g r = Ok loops /\ compute_loop_tree g r = Ok t /\ graph_inv t /\
      (forall h L, vertex t h = Ok (h, L) <-> In (h, L) loops) /\
      (forall h, has_vertex t h = true <-> is_header es r h) /\
      (forall a b, has_edge t a b = true <-> loop_nested es r a b).
  Proof. destruct (snca_correct g Hgi r Hr Hsz) as [m [Hm [_ Hc]]]. eapply LoopTreeModel.compute_loop_tree_correct; eauto. Qed.
End Uncond.
