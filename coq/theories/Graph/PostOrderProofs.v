(* Graph/PostOrderProofs.v -- [U] compute_post_order (recursive DFS, ascending successors, fuel included): on every
   consistent graph and root vertex it returns Ok l where l is a duplicate-free enumeration of exactly the
   reachable vertices, the root is last, and l is a valid DFS finishing order: whenever a -> b is an edge,
   b is listed before a or b reaches a (b was an unfinished ancestor, or a itself). *)
From Coq Require Import NArith List Bool Lia.
From Falcon Require Import Base.Res Graph.NMap Graph.NMapFacts Graph.Graph Graph.GraphInv Graph.Algo Graph.Spec
  Graph.ReachProofs Graph.Oracle Graph.OracleProofs Graph.TopoProofs.
Import ListNotations.

Section PostOrder.
  Context {V E : Type} `{Vertex V} `{Edge E}.
  Variable g : graph V E.
  Hypothesis Hgi : graph_inv g.
  Let es := edge_keys g.
  Let VS := vertex_indices g.
  Variable root : N.

  Notation pstate := (nset * list N)%type.

  Lemma cntT_mono A B : (forall x, In x A -> In x B) -> (cntT g B <= cntT g A)%nat.
  Proof.
    intros Hs. unfold cntT. apply filter_length_le. intros x _.
    rewrite !negb_true_iff, !ns_mem_false. intros Hn Hx. apply Hn, Hs, Hx.
  Qed.

  Record PI (st : pstate) : Prop := {
    pi_ov : forall x, In x (snd st) -> In x (fst st);
    pi_nd : NoDup (snd st);
    pi_succ : forall x y, In x (snd st) -> edge es x y -> In y (fst st);
    pi_v : forall x, In x (fst st) -> has_vertex g x = true;
    pi_reach : forall x, In x (fst st) -> reach es root x;
    pi_dfs : forall l1 x l2, snd st = l1 ++ x :: l2 -> forall y, edge es x y -> In y l2 \/ reach es y x }.

  Definition pgood (st : pstate) (req : list N) (r : res pstate) : Prop :=
    exists vis' new, r = Ok (vis', new ++ snd st) /\ PI (vis', new ++ snd st) /\
      (forall x, In x vis' <-> In x (fst st) \/ In x new) /\
      (forall x, In x new -> ~ In x (fst st)) /\ (forall s, In s req -> In s vis').

  Definition PWL (f : nat) : Prop := forall node st,
    PI st -> has_vertex g node = true -> ~ In node (fst st) -> reach es root node ->
    (forall t, In t (fst st) -> ~ In t (snd st) -> reach es t node) ->
    (cntT g (fst st) < f)%nat ->
    exists vis' new, post_walk f g node st = Ok (vis', node :: new ++ snd st) /\ PI (vis', node :: new ++ snd st) /\
      (forall x, In x vis' <-> In x (fst st) \/ x = node \/ In x new) /\
      (forall x, In x new -> ~ In x (fst st) /\ x <> node).

  Definition pfold f (ss : list N) (init : res pstate) : res pstate :=
    fold_left (fun acc s => a <- acc ;; if ns_mem s (fst a) then Ok a else post_walk f g s a) ss init.

  Lemma PFL f node : PWL f -> forall ss,
    (forall s, In s ss -> edge es node s) -> reach es root node ->
    forall st, PI st -> (forall t, In t (fst st) -> ~ In t (snd st) -> reach es t node) ->
    (cntT g (fst st) < f)%nat ->
    pgood st ss (pfold f ss (Ok st)).
  Proof.
    intros Hwl ss. induction ss as [|s ss IH]; intros Hed Hrn st Hpi Hanc Hc; cbn [pfold fold_left].
    - exists (fst st), []. cbn [app]. destruct st as [vis ord]. cbn [fst snd] in *. split; [reflexivity|]. split; [exact Hpi|].
      split; [intros x; cbn; tauto|]. split; [intros x []|intros s []].
    - cbn [bind]. fold (pfold f ss).
      assert (Hes : edge es node s) by (apply Hed; left; auto).
      assert (Hvs : has_vertex g s = true).
      { apply (edge_has'' g) in Hes. apply (has_edge_vertices g node s Hgi Hes). }
      destruct (ns_mem s (fst st)) eqn:Hm.
      + apply ns_mem_in in Hm.
        destruct (IH (fun s' Hs' => Hed s' (or_intror Hs')) Hrn st Hpi Hanc Hc) as [vis' [new [Hr [Hpi' [Hv' [Hn' Hreq']]]]]].
        exists vis', new. split; [exact Hr|]. split; [exact Hpi'|]. split; [exact Hv'|]. split; [exact Hn'|].
        intros s' [<-|Hs']; [apply Hv'; auto|apply Hreq'; exact Hs'].
      + apply ns_mem_false in Hm.
        destruct (Hwl s st Hpi Hvs Hm) as [vis1 [new1 [Hr1 [Hpi1 [Hv1 Hn1]]]]]; auto.
        * destruct Hrn as [l Hl]. exists (l ++ [s]). eapply path_snoc; eauto.
        * intros t Ht Hto. destruct (Hanc t Ht Hto) as [l Hl]. exists (l ++ [s]). eapply path_snoc; eauto.
        * rewrite Hr1.
          destruct (IH (fun s' Hs' => Hed s' (or_intror Hs')) Hrn (vis1, s :: new1 ++ snd st) Hpi1) as [vis' [new [Hr [Hpi' [Hv' [Hn' Hreq']]]]]].
          -- cbn [fst snd]. intros t Ht Hto. apply Hanc.
             ++ apply Hv1 in Ht. destruct Ht as [|[->|Ht]]; auto; exfalso; apply Hto; [left; auto|right; apply in_or_app; auto].
             ++ intros Hx. apply Hto. right. apply in_or_app. auto.
          -- cbn [fst]. pose proof (cntT_mono (fst st) vis1) as Hmo. assert (Hsub : forall x, In x (fst st) -> In x vis1) by (intros x Hx; apply Hv1; auto).
             specialize (Hmo Hsub). lia.
          -- cbn [fst snd] in *. exists vis', (new ++ s :: new1). rewrite <- app_assoc. cbn [app].
             split; [exact Hr|]. split; [exact Hpi'|]. split; [|split].
             ++ intros x. rewrite Hv', Hv1, in_app_iff. cbn [In]. split; [intros [[?|[?|?]]|?]|intros [?|[?|[?|?]]]]; subst; auto.
             ++ intros x Hx. apply in_app_or in Hx. destruct Hx as [Hx|[<-|Hx]]; auto.
                ** intros Hf. apply (Hn' x Hx). apply Hv1. auto.
                ** apply Hn1. exact Hx.
             ++ intros s' [<-|Hs']; [apply Hv', or_introl, Hv1; auto|apply Hreq'; exact Hs'].
  Qed.

  Lemma PWL_all f : PWL f.
  Proof.
    induction f as [|f IH]; intros node st Hpi Hv Hnv Hrn Hanc Hc; [lia|]. cbn [post_walk].
    destruct (succs_of_spec g node Hgi Hv) as [ss [Hss [_ Hssin]]]. rewrite Hss. cbn [bind].
    set (st1 := (ns_insert node (fst st), snd st)).
    assert (Hpi1 : PI st1).
    { destruct Hpi. constructor; cbn [fst snd st1]; auto.
      - intros x Hx. apply ns_insert_in. auto.
      - intros x y Hx Hxy. apply ns_insert_in. right. eauto.
      - intros x Hx. apply ns_insert_in in Hx. destruct Hx as [->|Hx]; auto.
      - intros x Hx. apply ns_insert_in in Hx. destruct Hx as [->|Hx]; auto. }
    assert (HnodeVS : In node VS) by (apply has_vertex_keys; exact Hv).
    change (fold_left _ ss (Ok st1)) with (pfold f ss (Ok st1)).
    destruct (PFL f node IH ss) with (st := st1) as [vis' [new [Hr [Hpi' [Hv' [Hn' Hreq']]]]]]; auto.
    - intros s Hs. apply (edge_has'' g), Hssin. exact Hs.
    - cbn [fst snd st1]. intros t Ht Hto. apply ns_insert_in in Ht. destruct Ht as [->|Ht]; [exists []; constructor|auto].
    - cbn [fst st1]. pose proof (cntT_insert g node (fst st) HnodeVS Hnv). lia.
    - cbn [fst snd st1] in *. rewrite Hr. cbn [bind fst snd].
      assert (Hnn : ~ In node (new ++ snd st)).
      { intros Hx. apply in_app_or in Hx. destruct Hx as [Hx|Hx].
        - apply (Hn' node Hx). apply ns_insert_in. auto.
        - apply Hnv. apply (pi_ov st Hpi). exact Hx. }
      exists vis', new. split; [reflexivity|]. split; [|split].
      + constructor; cbn [fst snd].
        * intros x [<-|Hx]; [apply Hv'; left; apply ns_insert_in; auto|apply (pi_ov _ Hpi' x Hx)].
        * constructor; [exact Hnn|apply Hpi'].
        * intros x y [<-|Hx] Hxy; [apply Hreq', Hssin, (edge_has'' g); exact Hxy|eapply (pi_succ _ Hpi'); eauto].
        * apply Hpi'.
        * apply Hpi'.
        * intros l1 x l2 Heq y Hxy. destruct l1 as [|a l1']; cbn in Heq.
          -- injection Heq as <- <-.
             assert (Hy : In y vis') by (apply Hreq', Hssin, (edge_has'' g); exact Hxy).
             destruct (in_dec N.eq_dec y (new ++ snd st)) as [|Hny]; auto. right.
             apply Hv' in Hy. destruct Hy as [Hy|Hy]; [|exfalso; apply Hny, in_or_app; auto].
             apply ns_insert_in in Hy. destruct Hy as [->|Hy]; [exists []; constructor|].
             apply Hanc; auto. intros Hyo. apply Hny, in_or_app. auto.
          -- injection Heq as _ Heq. eapply (pi_dfs _ Hpi'); eauto.
      + intros x. rewrite Hv', ns_insert_in. tauto.
      + intros x Hx. split.
        * intros Hf. apply (Hn' x Hx). apply ns_insert_in. auto.
        * intros ->. apply (Hn' node Hx). apply ns_insert_in. auto.
  Qed.

  (* [U] post_order_perm + valid DFS post-order *)
  Theorem compute_post_order_correct : has_vertex g root = true ->
    exists l, compute_post_order g root = Ok l /\ NoDup l /\ (forall v, In v l <-> reach es root v) /\
      (exists l', l = l' ++ [root]) /\
      (forall l1 a l2, l = l1 ++ a :: l2 -> forall b, edge es a b -> In b l1 \/ reach es b a).
  Proof.
    intros Hr. unfold compute_post_order.
    assert (Hpi0 : PI ([], [])).
    { constructor; cbn [fst snd].
      - intros x [].
      - constructor.
      - intros x y [].
      - intros x [].
      - intros x [].
      - intros l1 x l2 Heq. destruct l1; discriminate. }
    destruct (PWL_all (fuel_v g) root ([], []) Hpi0 Hr) as [vis' [new [Hres [Hpi [Hv Hn]]]]].
    - cbn. tauto.
    - exists []. constructor.
    - cbn. tauto.
    - cbn [fst]. pose proof (cntT_le g []) as Hle. unfold fuel_v. unfold vertex_indices in Hle. rewrite map_length in Hle. lia.
    - rewrite Hres. cbn [bind snd]. rewrite app_nil_r in *. cbn [fst snd] in *.
      exists (rev (root :: new)). split; [reflexivity|]. split; [apply NoDup_rev, Hpi|]. split; [|split].
      + intros v. rewrite <- in_rev. split.
        * intros Hx. apply (pi_reach _ Hpi), (pi_ov _ Hpi). exact Hx.
        * intros [l Hl].
          assert (Hgen : forall a l v, path es a l v -> In a (root :: new) -> In v (root :: new)).
          { clear -Hpi Hv. intros a l v Hp. induction Hp as [a|a b l c Hab Hp IH]; intros Ha; auto.
            apply IH. pose proof (pi_succ _ Hpi a b Ha Hab) as Hb. cbn [fst] in Hb. apply Hv in Hb.
            destruct Hb as [[]|[->|Hb]]; [left|right]; auto. }
          eapply Hgen; eauto. left; auto.
      + exists (rev new). reflexivity.
      + intros l1 a l2 Heq b Hab.
        assert (Hrev : root :: new = rev l2 ++ a :: rev l1).
        { rewrite <- (rev_involutive (root :: new)), Heq, rev_app_distr. cbn [rev]. rewrite <- app_assoc. reflexivity. }
        destruct (pi_dfs _ Hpi (rev l2) a (rev l1) Hrev b Hab) as [Hb|Hb]; auto. left. apply in_rev. exact Hb.
  Qed.
End PostOrder.
