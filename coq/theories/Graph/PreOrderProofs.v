(* Graph/PreOrderProofs.v -- [U] compute_pre_order (explicit stack, visited on pop, fuel included) returns a
   duplicate-free enumeration of exactly the vertices reachable from the root. *)
From Coq Require Import NArith List Bool Sorted Lia.
From Falcon Require Import Base.Res Graph.NMap Graph.NMapFacts Graph.Graph Graph.GraphInv Graph.Algo Graph.Spec.
Import ListNotations.

Section PreOrder.
  Context {V E : Type} `{Vertex V} `{Edge E}.
  Variable g : graph V E.
  Hypothesis Hgi : graph_inv g.
  Let es := edge_keys g.
  Variable r : N.
  Hypothesis Hr : has_vertex g r = true.

  (* potential: one unit per unvisited vertex plus one per out-edge of an unvisited vertex *)
  Definition term (visited : nset) (p : N * nset) : nat := if ns_mem (fst p) visited then O else S (length (snd p)).
  Fixpoint pot_l (visited : nset) (m : nmap nset) : nat :=
    match m with [] => O | p :: t => (term visited p + pot_l visited t)%nat end.
  Definition pot (visited : nset) : nat := pot_l visited (g_successors g).

  Lemma term_mono v visited p : (term (ns_insert v visited) p <= term visited p)%nat.
  Proof.
    unfold term. destruct (ns_mem (fst p) visited) eqn:Hm; destruct (ns_mem (fst p) (ns_insert v visited)) eqn:Hi;
      try lia.
    exfalso. apply ns_mem_in in Hm. apply ns_mem_false in Hi. apply Hi, ns_insert_in. auto.
  Qed.
  Lemma pot_l_mono v visited m : (pot_l (ns_insert v visited) m <= pot_l visited m)%nat.
  Proof. induction m as [|p m IH]; cbn [pot_l]; auto. pose proof (term_mono v visited p). lia. Qed.
  Lemma pot_l_insert v ss visited m : In (v, ss) m -> ~ In v visited ->
    (pot_l (ns_insert v visited) m + S (length ss) <= pot_l visited m)%nat.
  Proof.
    induction m as [|p m IH]; cbn [pot_l In]; intros Hin Hn; [destruct Hin|].
    destruct Hin as [->|Hin].
    - pose proof (pot_l_mono v visited m). unfold term. cbn [fst snd].
      assert (Hq1 : ns_mem v (ns_insert v visited) = true) by (apply ns_mem_in, ns_insert_in; auto).
      assert (Hq2 : ns_mem v visited = false) by (apply ns_mem_false; auto).
      rewrite Hq1, Hq2. lia.
    - specialize (IH Hin Hn). pose proof (term_mono v visited p). lia.
  Qed.

  Lemma edge_has' a b : edge es a b <-> has_edge g a b = true.
  Proof. unfold edge, es. symmetry. apply has_edge_keys. Qed.
  Lemma reach_step' x y : reach es r x -> edge es x y -> reach es r y.
  Proof.
    intros [l Hp] He. exists (l ++ [y]).
    clear -Hp He. induction Hp as [a|a b l c Hab Hp IH]; cbn.
    - apply path_cons with (1 := He). constructor.
    - apply path_cons with (1 := Hab). apply IH. exact He.
  Qed.

  Record pinv (stack : list N) (visited : nset) (order_rev : list N) : Prop := {
    pi_order : forall x, In x visited <-> In x order_rev;
    pi_nodup : NoDup order_rev;
    pi_stack : forall x, In x stack -> reach es r x /\ has_vertex g x = true;
    pi_vis : forall x, In x visited -> reach es r x;
    pi_closed : forall x, In x visited -> forall y, edge es x y -> In y visited \/ In y stack;
    pi_root : In r visited \/ In r stack }.

  Lemma pre_loop_correct fuel : forall stack visited order_rev,
    pinv stack visited order_rev -> (length stack + pot visited < fuel)%nat ->
    exists l, pre_loop fuel g stack visited order_rev = Ok l /\ NoDup l /\ forall v, In v l <-> reach es r v.
  Proof.
    induction fuel as [|f IH]; intros stack visited order_rev Hinv Hm; [lia|].
    cbn [pre_loop]. destruct stack as [|node st].
    - exists (rev order_rev). split; [reflexivity|]. split.
      + apply NoDup_rev. apply Hinv.
      + intros v. rewrite <- in_rev, <- (pi_order _ _ _ Hinv v). split; [apply Hinv|].
        intros [l Hp].
        assert (Hroot : In r visited) by (destruct (pi_root _ _ _ Hinv) as [|[]]; auto).
        assert (Hgen : forall a l v, path es a l v -> In a visited -> In v visited).
        { clear -Hinv. intros a l v Hp. induction Hp as [a|a b l c Hab Hp IH]; intros Ha; auto.
          apply IH. destruct (pi_closed _ _ _ Hinv a Ha b Hab) as [|[]]; auto. }
        eapply Hgen; eauto.
    - destruct (pi_stack _ _ _ Hinv node (or_introl eq_refl)) as [Hrn Hvn].
      destruct (ns_mem node visited) eqn:Hmem.
      + apply ns_mem_in in Hmem. apply IH.
        * constructor; try apply Hinv.
          -- intros x Hx. apply (pi_stack _ _ _ Hinv). right; auto.
          -- intros x Hx y Hxy. destruct (pi_closed _ _ _ Hinv x Hx y Hxy) as [|[<-|]]; auto.
          -- destruct (pi_root _ _ _ Hinv) as [|[<-|]]; auto.
        * cbn [length] in Hm. lia.
      + apply ns_mem_false in Hmem.
        destruct (succs_of_spec g node Hgi Hvn) as [ss [Hss [_ Hssin]]].
        rewrite Hss. cbn [bind]. apply IH.
        * constructor.
          -- intros x. rewrite ns_insert_in. cbn [In]. rewrite (pi_order _ _ _ Hinv x). split; intros [Hx|Hx]; subst; auto.
          -- constructor; [|apply Hinv]. intros Hx. apply Hmem, (pi_order _ _ _ Hinv). exact Hx.
          -- intros x Hx. apply in_app_or in Hx. destruct Hx as [Hx|Hx].
             ++ apply in_rev in Hx. apply Hssin in Hx. split.
                ** eapply reach_step'; eauto. apply edge_has'. exact Hx.
                ** apply (has_edge_vertices g node x Hgi) in Hx. tauto.
             ++ apply (pi_stack _ _ _ Hinv). right; auto.
          -- intros x Hx. apply ns_insert_in in Hx. destruct Hx as [->|Hx]; auto. apply (pi_vis _ _ _ Hinv x Hx).
          -- intros x Hx y Hxy. apply ns_insert_in in Hx. destruct Hx as [->|Hx].
             ++ right. apply in_or_app. left. apply in_rev. rewrite rev_involutive. apply Hssin, edge_has', Hxy.
             ++ destruct (pi_closed _ _ _ Hinv x Hx y Hxy) as [Hy|[<-|Hy]].
                ** left. apply ns_insert_in. auto.
                ** left. apply ns_insert_in. auto.
                ** right. apply in_or_app. auto.
          -- destruct (pi_root _ _ _ Hinv) as [Hx|[<-|Hx]].
             ++ left. apply ns_insert_in; auto.
             ++ left. apply ns_insert_in; auto.
             ++ right. apply in_or_app; auto.
        * assert (Hget : In (node, ss) (g_successors g)).
          { unfold succs_of in Hss. destruct (nm_get node (g_successors g)) as [s|] eqn:Hg; [|discriminate].
            injection Hss as <-. unfold nm_get in Hg. apply om_get_some_in in Hg; auto. apply ncmp_eq. }
          pose proof (pot_l_insert node ss visited (g_successors g) Hget Hmem) as Hp. fold (pot (ns_insert node visited)) in Hp.
          fold (pot visited) in Hp. rewrite app_length, rev_length. cbn [length] in Hm. unfold nset in *. lia.
  Qed.

  Lemma pot_nil m : pot_l [] m = (length m + adj_entries m)%nat.
  Proof.
    induction m as [|p m IH]; cbn [pot_l length]; [reflexivity|].
    change (adj_entries (p :: m)) with (length (snd p) + adj_entries m)%nat. rewrite IH.
    unfold term. replace (ns_mem (fst p) []) with false by reflexivity. unfold nset in *. lia.
  Qed.

  Lemma succ_keys_eq : map fst (g_successors g) = map fst (g_vertices g).
  Proof.
    eapply (ksorted_ext N.compare); eauto using ncmp_eq, ncmp_trans.
    - apply (ai_ssorted g (gi_adj g Hgi)).
    - apply (gi_vsorted g Hgi).
    - intros x. rewrite <- !nm_mem_in. rewrite (gi_skeys g Hgi). tauto.
  Qed.

  (* [U] pre_order_perm *)
  Theorem compute_pre_order_correct :
    exists l, compute_pre_order g r = Ok l /\ NoDup l /\ forall v, In v l <-> reach es r v.
  Proof.
    unfold compute_pre_order. rewrite Hr. cbn [negb]. apply pre_loop_correct.
    - constructor.
      + intros x. tauto.
      + constructor.
      + intros x [<-|[]]. split; auto. exists []. constructor.
      + intros x [].
      + intros x [].
      + right. left. reflexivity.
    - unfold pot. rewrite pot_nil. unfold fuel_e. cbn [length].
      assert (Hl : length (g_successors g) = length (g_vertices g)).
      { rewrite <- (map_length fst (g_successors g)), succ_keys_eq, map_length. reflexivity. }
      lia.
  Qed.
End PreOrder.
