(* Graph/ReducibleModel.v -- [U] the MODEL function is_reducible is correct whenever the idom map passes idom_check:
   it returns Ok b and b = true exactly when the flow graph reachable from the head, without its back edges
   (edges whose target dominates their source), is acyclic (Hecht-Ullman).  Unreachable vertices play no role. *)
From Coq Require Import NArith List Bool Lia Wf_nat.
From Falcon Require Import Base.Res Graph.NMap Graph.NMapFacts Graph.Graph Graph.GraphInv Graph.Algo Graph.Spec
  Graph.Oracle Graph.OracleProofs Graph.DomTheory Graph.ClosureTotal Graph.LoopProofs Graph.BackEdges
  Graph.DomTreeProofs Graph.ReachProofs Graph.DomModel Graph.FrontierModel Graph.AcyclicProofs.
Import ListNotations.
Local Open Scope N_scope.

Lemma bind_ret {A} (r : res A) : (t <- r ;; Ok t) = r.
Proof. destruct r; reflexivity. Qed.

Lemma fold_cond_vertices (c : N -> bool) (l : list N) : forall acc : res tree,
  fold_left (fun acc v => t <- acc ;; if c v then insert_vertex t v else Ok t) l acc =
  fold_left (fun acc v => t <- acc ;; insert_vertex t v) (filter c l) acc.
Proof.
  induction l as [|v l IH]; intros acc; cbn [fold_left filter]; auto.
  destruct (c v); cbn [fold_left]; rewrite IH; auto. rewrite bind_ret. reflexivity.
Qed.
Lemma fold_cond_edges (c : N * N -> bool) (l : list (N * N)) : forall acc : res tree,
  fold_left (fun acc e => t <- acc ;; if c e then insert_edge t e else Ok t) l acc =
  fold_left (fun acc e => t <- acc ;; insert_edge t e) (filter c l) acc.
Proof.
  induction l as [|v l IH]; intros acc; cbn [fold_left filter]; auto.
  destruct (c v); cbn [fold_left]; rewrite IH; auto. rewrite bind_ret. reflexivity.
Qed.

Lemma fold_insert_edge_list (el : list (N * N)) : forall t : tree,
  graph_inv t -> NoDup el ->
  (forall a b, In (a, b) el -> has_vertex t a = true /\ has_vertex t b = true /\ has_edge t a b = false) ->
  exists t', fold_left (fun acc e => t0 <- acc ;; insert_edge t0 e) el (Ok t) = Ok t' /\ graph_inv t' /\
    g_vertices t' = g_vertices t /\
    (forall a b, has_edge t' a b = has_edge t a b || existsb (edge_eqb (a, b)) el).
Proof.
  induction el as [|[a b] el IH]; intros t Hgi Hnd Hall; cbn [fold_left].
  - exists t. split; [reflexivity|]. split; [exact Hgi|]. split; [reflexivity|]. intros. cbn. rewrite orb_false_r. reflexivity.
  - inversion Hnd as [|? ? Hni Hnd']; subst. cbn [bind].
    destruct (Hall a b (or_introl eq_refl)) as [Ha [Hb Hne]].
    destruct (insert_edge_inv t (a, b) Hgi Hne Ha Hb) as [t1 [Hr [Hgi1 [Hv1 He1]]]].
    unfold tree, null_vertex, null_edge in *. rewrite Hr. cbn [ehead etail null_edge_Edge fst snd] in He1.
    assert (Hhe : forall a' b', has_edge t1 a' b' = edge_eqb (a', b') (a, b) || has_edge t a' b').
    { intros a' b'. unfold has_edge. rewrite He1, em_mem_insert. reflexivity. }
    destruct (IH t1 Hgi1 Hnd') as [t' [Hf [Hgi' [Hv' He']]]].
    { intros a' b' Hin. destruct (Hall a' b' (or_intror Hin)) as [Ha' [Hb' Hne']].
      unfold has_vertex. rewrite Hv1. split; [exact Ha'|]. split; [exact Hb'|].
      rewrite Hhe, Hne', orb_false_r. destruct (edge_eqb (a', b') (a, b)) eqn:Heq; auto.
      apply edge_eqb_eq in Heq. injection Heq as -> ->. contradiction. }
    exists t'. split; [exact Hf|]. split; [exact Hgi'|]. split; [congruence|].
    intros a' b'. rewrite He', Hhe. cbn [existsb].
    destruct (edge_eqb (a', b') (a, b)), (has_edge t a' b'), (existsb (edge_eqb (a', b')) el); reflexivity.
Qed.

Section Reducible.
  Context {V E : Type} `{Vertex V} `{Edge E}.
  Variable g : graph V E.
  Hypothesis Hgi : graph_inv g.
  Variable r : N.
  Hypothesis Hr : has_vertex g r = true.
  Let es := edge_keys g.
  Let vs := vertex_indices g.
  Variable m : nmap N.
  Hypothesis Hm : compute_immediate_dominators g r = Ok m.
  Hypothesis Hchk : idom_check vs es r m = true.

  (* the forward-edge relation *)
  Definition FE (a b : N) : Prop := edge es a b /\ reach es r a /\ ~ back_edge es r a b.

  (* Hecht-Ullman, easy half: removing the back edges does not disconnect anything *)
  Lemma fe_reach (fe : list (N * N)) : (forall a b, In (a, b) fe <-> FE a b) ->
    forall v, reach es r v -> reach fe r v.
  Proof.
    intros Hfe.
    assert (Hgen : forall n v l, path es r l v -> length l = n -> reach fe r v).
    { induction n as [n IH] using lt_wf_ind. intros v l Hp Hlen.
      destruct l as [|x l0].
      - inversion Hp; subst. exists []. constructor.
      - destruct (path_last_edge_split es r (x :: l0) v Hp) as [l1 [q [Heq [H1 H2]]]]; [discriminate|].
        assert (Hl1 : (length l1 < n)%nat). { rewrite <- Hlen, Heq, app_length. cbn. lia. }
        destruct (dom_dec es r v q) as [Hd|Hnd].
        + (* q -> v is a back edge: v already occurs on the path to q *)
          destruct Hd as [_ Hd]. destruct (path_split es r l1 q v H1 (Hd l1 H1)) as [a [b [Hab [Ha _]]]].
          apply (IH (length a)) with (l := a); auto. rewrite Hab, app_length in Hl1. lia.
        + destruct (IH _ Hl1 q l1 H1 eq_refl) as [lq Hlq]. exists (lq ++ [v]). eapply path_snoc; eauto.
          apply Hfe. split; auto. split; [exists l1; exact H1|]. intros [_ Hd]. contradiction. }
    intros v [l Hl]. eapply Hgen; eauto.
  Qed.

  Theorem is_reducible_correct :
    exists b, is_reducible g r = Ok b /\ (b = true <-> forward_edges_acyclic es r).
  Proof.
    unfold is_reducible.
    destruct (compute_back_edges_correct g Hgi r Hr m Hm Hchk) as [back [Hback Hbin]]. rewrite Hback. cbn [bind].
    destruct (reachable_vertices_correct g Hgi r Hr) as [rs [Hrs [_ Hrin]]]. rewrite Hrs. cbn [bind].
    (* vertices of the forward-edge graph *)
    rewrite fold_cond_vertices.
    destruct (fold_insert_vertices (filter (fun v => ns_mem v rs) (vertex_indices g)) (new : tree) graph_inv_new)
      as [fe0 [Hf0 [Hgi0 [Hv0 He0]]]].
    { apply NoDup_filter. apply nsorted_nodup. apply Hgi. }
    { intros k _. reflexivity. }
    unfold tree, null_vertex, null_edge in *. rewrite Hf0. cbn [bind].
    assert (Hmem : forall (l : list N) v, existsb (N.eqb v) l = true <-> In v l).
    { intros l v. rewrite existsb_exists. split.
      - intros [x [Hx Hq]]. apply N.eqb_eq in Hq. subst. exact Hx.
      - intros Hx. exists v. split; auto. apply N.eqb_refl. }
    assert (Hfe0v : forall v, has_vertex fe0 v = true <-> reach es r v).
    { intros v. rewrite Hv0. cbn [orb]. replace (has_vertex (new : graph N (N * N)) v) with false by reflexivity. cbn [orb].
      rewrite Hmem, filter_In, ns_mem_in, Hrin. split; [tauto|]. intros Hre. split; auto.
      apply has_vertex_keys. apply (reach_has_vertex g Hgi r Hr). exact Hre. }
    (* edges of the forward-edge graph *)
    rewrite fold_cond_edges.
    set (keep := fun e : N * N => ns_mem (fst e) rs && negb (es_mem e back)).
    assert (Hkeep : forall a b, In (a, b) (filter keep (edge_keys g)) <-> FE a b).
    { intros a b. rewrite filter_In. unfold keep, FE, edge. cbn [fst].
      rewrite andb_true_iff, ns_mem_in, Hrin, negb_true_iff. fold es. split.
      - intros [He [Hra Hnb]]. split; auto. split; auto. intros Hb. apply Hbin, es_mem_in in Hb. congruence.
      - intros [He [Hra Hnb]]. split; auto. split; auto. destruct (es_mem (a, b) back) eqn:Hx; auto.
        apply es_mem_in, Hbin in Hx. contradiction. }
    destruct (fold_insert_edge_list (filter keep (edge_keys g)) fe0 Hgi0) as [fe [Hf [Hgif [Hvf Hef]]]].
    { apply NoDup_filter. apply (ksorted_nodup ecmp ecmp_eq). apply Hgi. }
    { intros a b Hin. apply Hkeep in Hin. destruct Hin as [He [Hra _]]. split; [apply Hfe0v; exact Hra|]. split.
      - apply Hfe0v. destruct Hra as [l Hl]. exists (l ++ [b]). eapply path_snoc; eauto.
      - unfold has_edge, null_vertex, null_edge in *. rewrite He0. reflexivity. }
    unfold tree, null_vertex, null_edge in *. rewrite Hf. cbn [bind].
    assert (Hfee : forall a b, In (a, b) (edge_keys fe) <-> FE a b).
    { intros a b. rewrite <- has_edge_keys, Hef. unfold has_edge at 1. rewrite He0. cbn [orb].
      replace (em_mem (a, b) (g_edges (new : graph N (N * N)))) with false by reflexivity. cbn [orb].
      rewrite <- Hkeep, existsb_exists. split.
      - intros [x [Hx Hq]]. apply edge_eqb_eq in Hq. subst. exact Hx.
      - intros Hx. exists (a, b). split; auto. apply edge_eqb_eq. reflexivity. }
    assert (Hfev : forall v, has_vertex fe v = true <-> reach es r v).
    { intros v. unfold has_vertex. rewrite Hvf. apply Hfe0v. }
    assert (Hfer : has_vertex fe r = true) by (apply Hfev, reach_root).
    (* every vertex of the forward-edge graph is reachable in it *)
    destruct (unreachable_vertices_correct fe r Hgif Hfer) as [us [Hus Huin]]. rewrite Hus. cbn [bind].
    assert (us = []) as ->.
    { destruct us as [|u us]; auto. exfalso. destruct (proj1 (Huin u) (or_introl eq_refl)) as [Hu Hnu].
      apply Hnu. apply (fe_reach (edge_keys fe) Hfee). apply Hfev. exact Hu. }
    destruct (is_acyclic_correct fe Hgif r Hfer) as [b [Hb Hbiff]]. exists b. split; [exact Hb|].
    rewrite Hbiff. unfold forward_edges_acyclic. split.
    - intros Hnc fe' Hfe' [v [c [l [He Hp]]]]. apply Hnc. exists v. split.
      + apply (fe_reach (edge_keys fe) Hfee). apply Hfe' in He. apply He.
      + exists c, l. split; [apply Hfee, Hfe'; exact He|].
        eapply path_ext; [|exact Hp]. intros a b' Hab. apply Hfee, Hfe'. exact Hab.
    - intros Hall [v [_ Hcy]]. apply (Hall (edge_keys fe)); [|exists v; exact Hcy].
      intros a b'. unfold FE in Hfee. apply Hfee.
  Qed.
End Reducible.
