(* Graph/OracleDfsProofs.v -- [V] soundness of the remaining executable oracles against the relational definitions of
   Graph/SpecDfs.v: pre-order (recursive-descent checker), post-order, DFS tree, compute_acyclic.  With these, every
   oracle used by C11Check.alg_oracle has a soundness theorem. *)
From Coq Require Import NArith List Bool Lia.
From Falcon Require Import Graph.Spec Graph.SpecDfs Graph.Oracle Graph.OracleProofs Graph.ClosureTotal Graph.OrderProofs
  Graph.LoopProofs.
Import ListNotations.
Local Open Scope N_scope.

(* ------------------------------------------------------------------ pre-order *)
Section Pre.
  Variable es : list (N * N).

  Scheme dfs_pre_ind2 := Minimality for dfs_pre Sort Prop
    with dfs_kids_ind2 := Minimality for dfs_kids Sort Prop.
  Combined Scheme dfs_mutind from dfs_pre_ind2, dfs_kids_ind2.

  Lemma dfs_ext :
    (forall vis v l, dfs_pre es vis v l -> forall vis', (forall x, In x vis <-> In x vis') -> dfs_pre es vis' v l) /\
    (forall vis u l, dfs_kids es vis u l -> forall vis', (forall x, In x vis <-> In x vis') -> dfs_kids es vis' u l).
  Proof.
    apply dfs_mutind.
    - intros vis v seg Hn _ IH vis' He. constructor.
      + intros Hx. apply Hn, He, Hx.
      + apply IH. intros x. cbn [In]. rewrite He. tauto.
    - intros vis u Hall vis' He. constructor. intros b Hb. apply He, Hall, Hb.
    - intros vis u w l1 l2 He Hn _ IH1 _ IH2 vis' Hv. eapply dk_step; eauto.
      + intros Hx. apply Hn, Hv, Hx.
      + apply IH2. intros x. rewrite !in_app_iff, Hv. tauto.
  Qed.

  Lemma chk_sound fuel :
    (forall vis v l vis' rest, chk_v fuel es vis v l = Some (vis', rest) ->
       exists seg, l = seg ++ rest /\ dfs_pre es vis v seg /\ forall x, In x vis' <-> In x seg \/ In x vis) /\
    (forall vis u l vis' rest, chk_kids fuel es vis u l = Some (vis', rest) ->
       exists seg, l = seg ++ rest /\ dfs_kids es vis u seg /\ forall x, In x vis' <-> In x seg \/ In x vis).
  Proof.
    induction fuel as [|f [IHv IHk]]; [split; intros; discriminate|]. split.
    - intros vis v l vis' rest Hc. cbn [chk_v] in Hc. destruct l as [|x l']; [discriminate|].
      destruct ((x =? v) && negb (memb v vis)) eqn:Hg; [|discriminate].
      apply andb_true_iff in Hg. destruct Hg as [Hx Hnv]. apply N.eqb_eq in Hx. subst x.
      apply negb_true_iff, memb_false in Hnv.
      destruct (IHk _ _ _ _ _ Hc) as [seg [-> [Hk Hvis]]]. exists (v :: seg). split; [reflexivity|]. split.
      + constructor; auto.
      + intros x. rewrite Hvis. cbn [In]. split; [intros [?|[?|?]]|intros [[?|?]|?]]; auto.
    - intros vis u l vis' rest Hc. cbn [chk_kids] in Hc.
      destruct (filter (fun s => negb (memb s vis)) (osucc es u)) as [|c0 cs] eqn:Hcands.
      + injection Hc as <- <-. exists []. split; [reflexivity|]. split; [|intros x; cbn; tauto].
        constructor. intros b Hb. destruct (in_dec N.eq_dec b vis) as [|Hn]; auto. exfalso.
        assert (Hin : In b (filter (fun s => negb (memb s vis)) (osucc es u))).
        { apply filter_In. split; [apply osucc_in; exact Hb|]. apply negb_true_iff, memb_false. exact Hn. }
        rewrite Hcands in Hin. destruct Hin.
      + destruct l as [|w l']; [discriminate|].
        destruct (memb w (c0 :: cs)) eqn:Hw; [|discriminate].
        apply memb_in in Hw. rewrite <- Hcands in Hw. apply filter_In in Hw. destruct Hw as [Hsw Hnw].
        apply osucc_in in Hsw. apply negb_true_iff, memb_false in Hnw.
        destruct (chk_v f es vis w (w :: l')) as [[vis1 rest1]|] eqn:Hv; [|discriminate].
        destruct (IHv _ _ _ _ _ Hv) as [seg1 [Hl1 [Hp1 Hvis1]]].
        destruct (IHk _ _ _ _ _ Hc) as [seg2 [Hl2 [Hk2 Hvis2]]].
        exists (seg1 ++ seg2). split; [rewrite Hl1, Hl2; apply app_assoc|]. split.
        * eapply dk_step; eauto. apply (proj2 dfs_ext _ _ _ Hk2). intros x. rewrite Hvis1, in_app_iff. tauto.
        * intros x. rewrite Hvis2, Hvis1, in_app_iff. tauto.
  Qed.

  (* [V] an accepted list is a depth-first pre-order from r *)
  Theorem pre_dfs_check_sound r l : pre_dfs_check es r l = true -> is_dfs_pre_order es r l.
  Proof.
    unfold pre_dfs_check, is_dfs_pre_order.
    destruct (chk_v _ es [] r l) as [[vis' rest]|] eqn:Hc; [|discriminate]. destruct rest; [|discriminate]. intros _.
    destruct (proj1 (chk_sound _) _ _ _ _ _ Hc) as [seg [-> [Hp _]]]. rewrite app_nil_r. exact Hp.
  Qed.
End Pre.

(* ------------------------------------------------------------------ post-order *)
Lemma nodup_split_unique (l1 m1 l2 m2 : list N) a : NoDup (l1 ++ a :: l2) -> l1 ++ a :: l2 = m1 ++ a :: m2 -> l1 = m1.
Proof.
  revert m1. induction l1 as [|x l1 IH]; intros m1 Hn Heq.
  - destruct m1 as [|y m1]; auto. cbn [app] in Heq. injection Heq as Hy Hl2. subst y. exfalso.
    cbn [app] in Hn. inversion Hn as [|? ? Hni _]; subst. apply Hni. apply in_or_app. right. left. reflexivity.
  - destruct m1 as [|y m1]; cbn [app] in Heq.
    + injection Heq as Hx Hl. subst x. exfalso. cbn [app] in Hn. inversion Hn as [|? ? Hni _]; subst.
      apply Hni. apply in_or_app. right. left. reflexivity.
    + injection Heq as Hx Hl. subst y. f_equal. apply IH; auto. cbn [app] in Hn. inversion Hn; auto.
Qed.

Theorem post_order_ok_sound vs es r l :
  post_order_ok (mk_tab vs es r) es r l = true -> is_dfs_post_order es r l.
Proof.
  unfold post_order_ok. rewrite !andb_true_iff. intros [[[Hs Hn] Hlast] Hed].
  pose proof (tab_ok_always vs es r) as Hok. apply nodup_b_spec in Hn.
  split; [exact Hn|]. split; [|split].
  - intros v. rewrite (proj1 (seteq_b_spec _ _) Hs v). rewrite <- memb_in. apply (reach_b_spec vs es r Hok).
  - destruct (rev l) as [|x t] eqn:Hr; [discriminate|]. apply N.eqb_eq in Hlast. subst x.
    exists (rev t). rewrite <- (rev_involutive l), Hr. reflexivity.
  - intros l1 a l2 Heq b Hab. rewrite forallb_forall in Hed. specialize (Hed (a, b) Hab). cbn [fst snd] in Hed.
    assert (Ha : In a l) by (rewrite Heq; apply in_or_app; right; left; auto).
    rewrite !orb_true_iff in Hed. destruct Hed as [[Hx|Hbef]|Hcl].
    + apply negb_true_iff, memb_false in Hx. contradiction.
    + left. destruct (before_split l b a Hbef) as [x1 [x2 [x3 Hsp]]].
      assert (Hl1 : l1 = x1 ++ b :: x2).
      { apply (nodup_split_unique l1 (x1 ++ b :: x2) l2 x3 a); [rewrite <- Heq; exact Hn|].
        rewrite <- Heq, Hsp, <- app_assoc. reflexivity. }
      rewrite Hl1. apply in_or_app. right. left. reflexivity.
    + right. apply andb_true_iff in Hcl. destruct Hcl as [Hc Hm]. apply memb_in in Hm.
      apply (cl_sound es _ b Hc) in Hm. destruct Hm as [p [Hp _]]. exists p. exact Hp.
Qed.

(* ------------------------------------------------------------------ DFS tree *)
Theorem dfs_tree_ok_sound vs es r tv te :
  dfs_tree_ok (mk_tab vs es r) es r tv te = true -> is_spanning_tree es r tv te.
Proof.
  unfold dfs_tree_ok. rewrite !andb_true_iff. intros [[[[[Hs _] Hed] Hpar] Hcl] Hreach].
  pose proof (tab_ok_always vs es r) as Hok.
  rewrite forallb_forall in Hed, Hpar.
  assert (Hedge : forall p v, In (p, v) te -> edge es p v /\ In p tv /\ In v tv).
  { intros p v Hin. specialize (Hed _ Hin). cbn [fst snd] in Hed. rewrite !andb_true_iff, !memb_in in Hed.
    destruct Hed as [[He Hp] Hv]. split; auto. apply ememb_in. exact He. }
  split; [|split; [|split; [|split]]].
  - intros v. rewrite (proj1 (seteq_b_spec _ _) Hs v). rewrite <- memb_in. apply (reach_b_spec vs es r Hok).
  - intros p v Hin. destruct (Hedge p v Hin) as [He [Hp Hv]]. repeat split; auto. intros ->.
    specialize (Hpar r Hv). rewrite N.eqb_refl in Hpar.
    assert (Hx : In p (opred te r)) by (apply opred_in; exact Hin). destruct (opred te r); [destruct Hx|discriminate].
  - intros p p' v H1 H2. destruct (Hedge p v H1) as [_ [_ Hv]]. specialize (Hpar v Hv).
    assert (Hp : In p (opred te v)) by (apply opred_in; exact H1).
    assert (Hp' : In p' (opred te v)) by (apply opred_in; exact H2).
    destruct (v =? r); destruct (opred te v) as [|a [|b t]]; try discriminate; try (destruct Hp; fail).
    destruct Hp as [<-|[]], Hp' as [<-|[]]. reflexivity.
  - intros v Hv Hne. specialize (Hpar v Hv). destruct (N.eqb_spec v r); [contradiction|].
    destruct (opred te v) as [|a [|b t]] eqn:Ho; try discriminate. exists a. apply opred_in. rewrite Ho. left. reflexivity.
  - intros v Hv. apply (proj1 (seteq_b_spec _ _) Hreach v) in Hv. apply (cl_sound te _ r Hcl) in Hv.
    destruct Hv as [l [Hp _]]. exists l. exact Hp.
Qed.

(* ------------------------------------------------------------------ compute_acyclic *)
Theorem acyclic_graph_ok_sound vs es r tv te :
  acyclic_graph_ok (mk_tab vs es r) vs es r tv te = true -> is_acyclic_restriction es vs r tv te.
Proof.
  unfold acyclic_graph_ok. rewrite !andb_true_iff. intros [[[[[[Hcl Hs] _] Hsub] Hre] Hcyc] Hdrop].
  pose proof (tab_ok_always vs es r) as Hok. rewrite forallb_forall in Hsub, Hdrop.
  assert (Hreach : forall v, reach te r v <-> reach es r v).
  { intros v. rewrite <- (reach_b_spec vs es r Hok v). unfold reach_b. rewrite memb_in.
    rewrite <- (proj1 (seteq_b_spec _ _) Hre v). rewrite (cl_sound te _ r Hcl v). split.
    - intros [l Hl]. exists l. split; auto. intros x _. reflexivity.
    - intros [l [Hl _]]. exists l. exact Hl. }
  split; [apply seteq_b_spec; exact Hs|]. split; [|split; [exact Hreach|split]].
  - intros a b Hin. apply ememb_in. apply Hsub. exact Hin.
  - destruct (has_cycle_b te (t_all (mk_tab vs es r))) as [c|] eqn:Hc; [|discriminate].
    apply negb_true_iff in Hcyc. subst c. intros [v [Hrv Hcy]].
    assert (Hf : false = true); [|discriminate]. apply (has_cycle_b_sound te _ false Hc). exists v. split; auto.
    apply memb_in. apply (reach_b_spec vs es r Hok). apply Hreach. exact Hrv.
  - intros a b Hab Hra. specialize (Hdrop (a, b) Hab). cbn [fst snd] in Hdrop. rewrite !orb_true_iff in Hdrop.
    destruct Hdrop as [[Hin|Hnr]|Hc].
    + left. apply ememb_in. exact Hin.
    + apply negb_true_iff in Hnr. apply (reach_b_spec vs es r Hok) in Hra. congruence.
    + right. apply andb_true_iff in Hc. destruct Hc as [Hc Hm]. apply memb_in in Hm.
      apply (cl_sound es _ b Hc) in Hm. destruct Hm as [l [Hl _]]. exists l. exact Hl.
Qed.
