(* Graph/DomModel.v -- [U] the MODEL functions compute_dominator_tree, compute_dominators and compute_back_edges are
   correct whenever the idom map returned by compute_immediate_dominators passes the validator idom_check
   (i.e. is the textbook immediate-dominator relation): no failure, results mention reachable vertices only. *)
From Coq Require Import NArith List Bool Lia Wf_nat.
From Falcon Require Import Base.Res Graph.NMap Graph.NMapFacts Graph.Graph Graph.GraphInv Graph.Algo Graph.Spec
  Graph.Oracle Graph.OracleProofs Graph.DomTheory Graph.ClosureTotal Graph.IdomExists Graph.LoopProofs
  Graph.BackEdges Graph.DomTreeProofs Graph.PreOrderProofs Graph.PreOrderDfs.
Import ListNotations.
Local Open Scope N_scope.

Lemma bind_ok {A B} (r : res A) (f : A -> res B) b : bind r f = Ok b -> exists a, r = Ok a /\ f a = Ok b.
Proof. destruct r; cbn; intros Hb; try discriminate. eauto. Qed.

Lemma fold_not_ok {A B} (f : res A -> B -> res A) (Hf : forall x b, (forall a, x <> Ok a) -> forall a, f x b <> Ok a) l :
  forall x, (forall a, x <> Ok a) -> forall a, fold_left f l x <> Ok a.
Proof. induction l as [|b l IH]; intros x Hx a; cbn; auto. Qed.

Section Sorted.
  Context {V E : Type} `{Vertex V} `{Edge E}.

  Lemma idoms_fold_sorted (order : list N) l : forall m0 m,
    fold_left (fun acc p => m <- acc ;; v <- vec_idx order (fst p) ;; d <- vec_idx order (snd p) ;; Ok (nm_insert v d m))
              l (Ok m0) = Ok m ->
    nsorted (map fst m0) -> nsorted (map fst m).
  Proof.
    induction l as [|p l IH]; intros m0 m Hf Hs; cbn [fold_left] in Hf.
    - injection Hf as <-. exact Hs.
    - cbn [bind] in Hf.
      destruct (vec_idx order (fst p)) as [v| |] eqn:Hv; cbn [bind] in Hf.
      + destruct (vec_idx order (snd p)) as [d| |] eqn:Hd; cbn [bind] in Hf.
        * eapply IH; eauto. apply nm_insert_sorted. exact Hs.
        * exfalso. revert Hf. apply fold_not_ok; [|intros; discriminate].
          intros x b Hx a. destruct x; cbn; try discriminate. exfalso. eapply Hx; eauto.
        * exfalso. revert Hf. apply fold_not_ok; [|intros; discriminate].
          intros x b Hx a. destruct x; cbn; try discriminate. exfalso. eapply Hx; eauto.
      + exfalso. revert Hf. apply fold_not_ok; [|intros; discriminate].
        intros x b Hx a. destruct x; cbn; try discriminate. exfalso. eapply Hx; eauto.
      + exfalso. revert Hf. apply fold_not_ok; [|intros; discriminate].
        intros x b Hx a. destruct x; cbn; try discriminate. exfalso. eapply Hx; eauto.
  Qed.

  Lemma idoms_sorted (g : graph V E) r m : compute_immediate_dominators g r = Ok m -> nsorted (map fst m).
  Proof.
    unfold compute_immediate_dominators. destruct (negb (has_vertex g r)); [discriminate|]. intros Hm.
    apply bind_ok in Hm. destruct Hm as [dfs [_ Hm]].
    apply bind_ok in Hm. destruct Hm as [order [_ Hm]]. cbv zeta in Hm.
    apply bind_ok in Hm. destruct Hm as [st [_ Hm]].
    apply bind_ok in Hm. destruct Hm as [idoms [_ Hm]].
    eapply idoms_fold_sorted; eauto. constructor.
  Qed.
End Sorted.

Section DomModel.
  Context {V E : Type} `{Vertex V} `{Edge E}.
  Variable g : graph V E.
  Hypothesis Hgi : graph_inv g.
  Variable r : N.
  Hypothesis Hr : has_vertex g r = true.
  Let es := edge_keys g.
  Let vs := vertex_indices g.
  Variable m : nmap N.
  Hypothesis Hm : compute_immediate_dominators g r = Ok m.
  Hypothesis Hchk : idom_check vs es r m = true.

  Lemma m_nodup : NoDup (map fst m).
  Proof. apply nsorted_nodup. eapply idoms_sorted; eauto. Qed.

  Lemma m_spec v d : In (v, d) m <-> idom es r d v.
  Proof.
    rewrite <- (idom_check_sound vs es r m Hchk v d). split.
    - apply alook_nodup. apply m_nodup.
    - apply alook_in.
  Qed.

  Lemma key_spec v : In v (map fst m) <-> (reach es r v /\ v <> r).
  Proof.
    rewrite in_map_iff. split.
    - intros [[v' d] [Heq Hin]]. cbn in Heq. subst v'. apply m_spec in Hin.
      destruct (idom_not_root es r d v Hin). tauto.
    - intros [Hre Hne]. destruct (idom_exists es r v Hre Hne) as [i Hi]. exists (v, i). split; auto. apply m_spec. exact Hi.
  Qed.

  Lemma m_wf : ~ In r (map fst m) /\ forall v d, In (v, d) m -> d = r \/ In d (map fst m).
  Proof.
    split.
    - intros Hin. apply key_spec in Hin. tauto.
    - intros v d Hin. apply m_spec in Hin. destruct (N.eq_dec d r) as [|Hne]; auto. right.
      apply key_spec. split; auto. destruct Hin as [[Hd _] _]. eapply dom_reach_dominator; eauto.
  Qed.

  (* ---------------------------------------------------------------- dominator tree *)
  Theorem dominator_tree_correct :
    exists t, compute_dominator_tree g r = Ok t /\ graph_inv t /\
      (forall v, has_vertex t v = true <-> reach es r v) /\
      (forall d v, has_edge t d v = true <-> idom es r d v).
  Proof.
    destruct m_wf as [Hnr Hvals].
    destruct (dominator_tree_of_idoms g r m Hm m_nodup Hnr Hvals) as [t [Ht [Hgt [Hv He]]]].
    exists t. split; auto. split; auto. split.
    - intros v. rewrite Hv, key_spec. split.
      + intros [->|[Hre _]]; auto. apply reach_root.
      + intros Hre. destruct (N.eq_dec v r); auto.
    - intros d v. rewrite He. apply m_spec.
  Qed.

  (* ---------------------------------------------------------------- dominators *)
  Section WithTree.
    Variable t : tree.
    Hypothesis Hgt : graph_inv t.
    Hypothesis Htv : forall v, has_vertex t v = true <-> reach es r v.
    Hypothesis Hte : forall d v, has_edge t d v = true <-> idom es r d v.

    Lemma tree_edge d v : edge (edge_keys t) d v <-> idom es r d v.
    Proof. unfold edge. rewrite <- has_edge_keys. apply Hte. Qed.

    (* every reachable vertex is reachable in the dominator tree: follow the idom chain, by induction on the
       length of a path from the root *)
    Lemma tree_reach n : forall v l, path es r l v -> (length l <= n)%nat -> reach (edge_keys t) r v.
    Proof.
      induction n as [n IH] using lt_wf_ind. intros v l Hp Hlen.
      destruct (N.eq_dec v r) as [->|Hne]; [exists []; constructor|].
      destruct (idom_exists es r v (ex_intro _ l Hp) Hne) as [i Hi].
      pose proof Hi as [[[_ Hdi] Hiv] _].
      destruct (path_split es r l v i Hp (Hdi l Hp)) as [l1 [l2 [-> [H1 H2]]]].
      assert (Hl2 : l2 <> []) by (intros ->; inversion H2; congruence).
      assert (Hlt : (length l1 < n)%nat).
      { rewrite app_length in Hlen. destruct l2; [congruence|]. cbn in Hlen. lia. }
      destruct (IH _ Hlt i l1 H1 (le_n _)) as [lt Hlt'].
      exists (lt ++ [v]). eapply path_snoc; eauto. apply tree_edge. exact Hi.
    Qed.

    Lemma sedge_idom p x : sedge t p x -> idom es r p x.
    Proof.
      intros [ss [Hss Hin]]. apply Hte.
      unfold succs_of in Hss. destruct (nm_get p (g_successors t)) as [s|] eqn:Hg; [|discriminate].
      injection Hss as <-. apply (ai_succ t (gi_adj t Hgt)). eauto.
    Qed.

    Definition dstep (acc : res (nmap nset)) (vertex : N) : res (nmap nset) :=
      doms <- acc ;;
      ps <- preds_of t vertex ;;
      d <- fold_left (fun a p => s <- a ;; dp <- nm_idx p doms ;; Ok (ns_union dp s)) ps (Ok [vertex]) ;;
      Ok (nm_insert vertex d doms).

    Lemma ns_union_in a b x : In x (ns_union a b) <-> In x a \/ In x b.
    Proof.
      unfold ns_union. revert b. induction a as [|k a IH]; intros b; cbn [fold_left].
      - cbn [In]. tauto.
      - rewrite IH, ns_insert_in. cbn [In]. split; [intros [?|[->|?]]|intros [[->|?]|?]]; auto.
    Qed.

    Lemma single_list (ps : list N) p : NoDup ps -> (forall h, In h ps <-> h = p) -> ps = [p].
    Proof.
      intros Hn Hall. destruct ps as [|a ps]; [exfalso; apply (proj2 (Hall p) eq_refl)|].
      assert (a = p) as -> by (apply Hall; left; auto). f_equal.
      destruct ps as [|b ps]; auto. exfalso. inversion Hn as [|? ? Hni _]; subst.
      assert (b = p) by (apply Hall; right; left; auto). subst b. apply Hni. left; auto.
    Qed.

    Lemma doms_fold (o : list N) : PFr t r o -> NoDup o -> (forall x, In x o -> reach es r x) ->
      exists doms, fold_left dstep (rev o) (Ok []) = Ok doms /\
        (forall x, In x (map fst doms) <-> In x o) /\ nsorted (map fst doms) /\
        (forall x D, nm_get x doms = Some D -> forall d, In d D <-> dom es r d x).
    Proof.
      induction o as [|x o IH]; intros Hpf Hnd Hre.
      - exists []. cbn [rev fold_left]. split; [reflexivity|]. split; [intros x; cbn; tauto|]. split; [constructor|].
        intros x D Hg. discriminate.
      - cbn [PFr] in Hpf. destruct Hpf as [Hx Hpf]. inversion Hnd as [|? ? Hni Hnd']; subst.
        destruct (IH Hpf Hnd' (fun y Hy => Hre y (or_intror Hy))) as [doms [Hf [Hk [Hs Hd]]]].
        cbn [rev]. rewrite fold_left_app, Hf. cbn [fold_left]. unfold dstep at 1. cbn [bind].
        assert (Hvx : has_vertex t x = true) by (apply Htv, Hre; left; auto).
        destruct (preds_of_spec t x Hgt Hvx) as [ps [Hps [Hpso Hpsin]]]. rewrite Hps. cbn [bind].
        assert (Hpsid : forall h, In h ps <-> idom es r h x) by (intros h; rewrite Hpsin; apply Hte).
        destruct (N.eq_dec x r) as [->|Hne].
        + (* the root: no tree predecessor *)
          assert (ps = []) as ->.
          { destruct ps as [|h ps]; auto. exfalso. assert (Hi : idom es r h r) by (apply Hpsid; left; auto).
            destruct (idom_not_root es r h r Hi). congruence. }
          cbn [fold_left bind]. eexists. split; [reflexivity|]. split; [|split].
          * intros y. rewrite nm_insert_keys, Hk. cbn [In]. split; intros [?|?]; auto.
          * apply nm_insert_sorted. exact Hs.
          * intros y D. destruct (N.eq_dec y r) as [->|Hny].
            -- rewrite nm_get_insert_same. intros [= <-] d. cbn [In]. rewrite dom_root. split; [intros [?|[]]|]; auto.
            -- rewrite nm_get_insert_other by assumption. apply Hd.
        + destruct Hx as [|[p [Hp Hpx]]]; [contradiction|].
          pose proof (sedge_idom p x Hpx) as Hidom.
          assert (ps = [p]) as ->.
          { apply single_list; [apply nsorted_nodup; exact Hpso|]. intros h. rewrite Hpsid. split.
            - intros Hh. eapply idom_unique; eauto.
            - intros ->. exact Hidom. }
          assert (Hpk : In p (map fst doms)) by (apply Hk; exact Hp).
          apply nm_mem_in, nm_mem_get in Hpk. destruct Hpk as [Dp HDp].
          cbn [fold_left bind]. unfold nm_idx. rewrite HDp. cbn [res_of_option bind].
          eexists. split; [reflexivity|]. split; [|split].
          * intros y. rewrite nm_insert_keys, Hk. cbn [In]. split; intros [?|?]; auto.
          * apply nm_insert_sorted. exact Hs.
          * intros y D. destruct (N.eq_dec y x) as [->|Hny].
            -- rewrite nm_get_insert_same. intros [= <-] d. rewrite ns_union_in. cbn [In].
               rewrite (dom_of_idom es r p x Hidom d), (Hd p Dp HDp d). split; [intros [?|[?|[]]]|intros [?|?]]; auto.
            -- rewrite nm_get_insert_other by assumption. apply Hd.
    Qed.
  End WithTree.

  Theorem compute_dominators_correct :
    exists doms, compute_dominators g r = Ok doms /\ nsorted (map fst doms) /\
      (forall v, In v (map fst doms) <-> reach es r v) /\
      (forall v D, In (v, D) doms -> forall d, In d D <-> dom es r d v).
  Proof.
    destruct dominator_tree_correct as [t [Ht [Hgt [Htv Hte]]]].
    unfold compute_dominators. rewrite Hr. cbn [negb]. rewrite Ht. cbn [bind].
    assert (Htr : has_vertex t r = true) by (apply Htv, reach_root).
    destruct (compute_pre_order_correct t Hgt r Htr) as [pre [Hpre [Hnd Hin]]].
    rewrite Hpre. cbn [bind].
    destruct (compute_pre_order_parent t r pre Hpre) as [o [-> Hpf]].
    assert (Hreach : forall x, In x o <-> reach es r x).
    { intros x. rewrite in_rev, Hin. split.
      - intros Hx. apply Htv. apply (reach_has_vertex t Hgt r Htr). exact Hx.
      - intros [l Hp]. eapply tree_reach; eauto. }
    destruct (doms_fold t Hgt Htv Hte o Hpf) as [doms [Hf [Hk [Hs Hd]]]].
    { apply NoDup_rev in Hnd. rewrite rev_involutive in Hnd. exact Hnd. }
    { intros x Hx. apply Hreach. exact Hx. }
    exists doms. split; [exact Hf|]. split; [exact Hs|]. split.
    - intros v. rewrite Hk. apply Hreach.
    - intros v D HvD. apply Hd. apply nm_get_in; auto.
  Qed.

  (* ---------------------------------------------------------------- back edges *)
  Theorem compute_back_edges_correct :
    exists be, compute_back_edges g r = Ok be /\ forall a b, In (a, b) be <-> back_edge es r a b.
  Proof.
    destruct compute_dominators_correct as [doms [Hd [_ [Hk Hs]]]].
    exact (back_edges_correct g Hgi r doms Hr Hd Hk Hs).
  Qed.
End DomModel.
