(* Graph/LoopModel.v -- [U] the MODEL function compute_loops is correct whenever the idom map passes idom_check: it
   returns Ok, the headers are exactly the targets of back edges, and the node set of the loop of h is exactly the
   textbook natural loop: h plus the reachable vertices that reach the source of a back edge into h without
   passing through h.  Vertices unreachable from the head are never absorbed. *)
From Coq Require Import NArith List Bool Lia.
From Falcon Require Import Base.Res Graph.NMap Graph.NMapFacts Graph.Graph Graph.GraphInv Graph.Algo Graph.Spec
  Graph.Oracle Graph.OracleProofs Graph.DomTheory Graph.LoopProofs Graph.BackEdges Graph.ReachProofs Graph.DomModel.
Import ListNotations.
Local Open Scope N_scope.

Section LoopModel.
  Context {V E : Type} `{Vertex V} `{Edge E}.
  Variable g : graph V E.
  Hypothesis Hgi : graph_inv g.
  Variable r : N.
  Hypothesis Hr : has_vertex g r = true.
  Let es := edge_keys g.
  Let VS := vertex_indices g.
  Variable R : nset.
  Hypothesis HR : forall v, In v R <-> reach es r v.

  Lemma fold_cond_push ps : forall a,
    fold_left (fun a p => if ns_mem p R then push_new a p else a) ps a =
    fold_left push_new (filter (fun p => ns_mem p R) ps) a.
  Proof. induction ps as [|p ps IH]; intros a; cbn [fold_left filter]; auto. destruct (ns_mem p R); cbn [fold_left]; auto. Qed.

  Lemma edge_he a b : edge es a b <-> has_edge g a b = true.
  Proof. unfold edge, es. symmetry. apply has_edge_keys. Qed.
  Lemma reach_edge' a b : reach es r a -> edge es a b -> reach es r b.
  Proof. intros [l Hl] He. exists (l ++ [b]). eapply path_snoc; eauto. Qed.

  Definition Lspec (h : N) (Tp : N -> Prop) (x : N) : Prop :=
    x = h \/ (reach es r x /\ exists t l, Tp t /\ path es x l t /\ ~ In h (x :: l)).

  Record LI (h : N) (Tp : N -> Prop) (q : list N) (nodes : nset) : Prop := {
    li_sorted : nsorted nodes;
    li_nd : NoDup q;
    li_sub : forall x, In x q -> In x nodes;
    li_h : In h nodes;
    li_hq : ~ In h q;
    li_v : forall x, In x nodes -> In x VS;
    li_sound : forall x, In x nodes -> Lspec h Tp x;
    li_cl : forall y p, In y nodes -> y <> h -> ~ In y q -> edge es p y -> reach es r p -> In p nodes }.

  Lemma walk_correct h Tp fuel : forall q nodes,
    LI h Tp q nodes -> (length q + unseen g nodes < fuel)%nat ->
    exists nodes', loop_walk fuel g R q nodes = Ok nodes' /\ LI h Tp [] nodes' /\ forall x, In x nodes -> In x nodes'.
  Proof.
    induction fuel as [|f IH]; intros q nodes Hli Hm; [lia|]. cbn [loop_walk].
    destruct q as [|node q'].
    - exists nodes. auto.
    - assert (Hnn : In node nodes) by (apply (li_sub _ _ _ _ Hli); left; auto).
      assert (Hnh : node <> h) by (intros ->; apply (li_hq _ _ _ _ Hli); left; auto).
      assert (Hvn : has_vertex g node = true) by (apply has_vertex_keys, (li_v _ _ _ _ Hli), Hnn).
      destruct (preds_of_spec g node Hgi Hvn) as [ps [Hps [_ Hpsin]]]. rewrite Hps. cbn [bind].
      rewrite fold_cond_push. set (psf := filter (fun p => ns_mem p R) ps).
      pose proof (li_nd _ _ _ _ Hli) as Hndq. inversion Hndq as [|? ? Hnq Hndq']; subst.
      assert (Hpsf : forall p, In p psf <-> (edge es p node /\ reach es r p)).
      { intros p. unfold psf. rewrite filter_In, ns_mem_in, HR, Hpsin, edge_he. tauto. }
      destruct (push_fold g psf nodes q' (li_sorted _ _ _ _ Hli) Hndq'
                  (fun x Hx => li_sub _ _ _ _ Hli x (or_intror Hx))) as [H1 [H2 [H3 [H4 [H5 H6]]]]].
      { intros x Hx. apply Hpsf in Hx. destruct Hx as [Hx _]. apply edge_he in Hx.
        apply has_vertex_keys. apply (has_edge_vertices g x node Hgi Hx). }
      destruct (li_sound _ _ _ _ Hli node Hnn) as [|[Hrn [t [l [Ht [Hpth Hav]]]]]]; [contradiction|].
      destruct (IH (snd (fold_left push_new psf (nodes, q'))) (fst (fold_left push_new psf (nodes, q')))) as [nodes' [Hw [Hli' Hsub]]].
      + constructor; auto.
        * apply H4. left. apply (li_h _ _ _ _ Hli).
        * intros Hx. apply H5 in Hx. destruct Hx as [Hx|[_ Hx]].
          -- apply (li_hq _ _ _ _ Hli). right. exact Hx.
          -- apply Hx, (li_h _ _ _ _ Hli).
        * intros x Hx. apply H4 in Hx. destruct Hx as [Hx|Hx]; [apply (li_v _ _ _ _ Hli x Hx)|].
          apply Hpsf in Hx. destruct Hx as [Hx _]. apply edge_he in Hx. apply has_vertex_keys. apply (has_edge_vertices g x node Hgi Hx).
        * intros x Hx. apply H4 in Hx. destruct Hx as [Hx|Hx]; [apply (li_sound _ _ _ _ Hli x Hx)|].
          destruct (in_dec N.eq_dec x nodes) as [Hxn|Hxn]; [apply (li_sound _ _ _ _ Hli x Hxn)|].
          apply Hpsf in Hx. destruct Hx as [Hxe Hxr]. right. split; auto. exists t, (node :: l). split; auto. split.
          -- apply path_cons with (b := node); auto.
          -- intros [Hx|Hx]; [subst; apply Hxn, (li_h _ _ _ _ Hli)|contradiction].
        * intros y p Hy Hyh Hyq Hpy Hrp. apply H4.
          destruct (N.eq_dec y node) as [->|Hyn].
          -- right. apply Hpsf. auto.
          -- apply H4 in Hy. destruct Hy as [Hy|Hy].
             ++ left. eapply (li_cl _ _ _ _ Hli y p); eauto. intros [Hx|Hx]; [congruence|]. apply Hyq, H5. auto.
             ++ destruct (in_dec N.eq_dec y nodes) as [Hyn'|Hyn'].
                ** left. eapply (li_cl _ _ _ _ Hli y p); eauto. intros [Hx|Hx]; [congruence|]. apply Hyq, H5. auto.
                ** exfalso. apply Hyq, H5. auto.
      + cbn [length] in Hm. unfold nset in *. lia.
      + exists nodes'. split; [exact Hw|]. split; [exact Hli'|]. intros x Hx. apply Hsub, H4. auto.
  Qed.

  (* a closed, sound node set that contains the tails is exactly the specified loop *)
  Lemma li_char h Tp nodes : LI h Tp [] nodes -> (forall t, Tp t -> In t nodes) ->
    forall x, In x nodes <-> Lspec h Tp x.
  Proof.
    intros Hli Ht x. split; [apply (li_sound _ _ _ _ Hli)|].
    intros [->|[Hrx [t [l [Htt [Hp Hav]]]]]]; [apply (li_h _ _ _ _ Hli)|].
    specialize (Ht t Htt). clear Htt.
    revert Hrx Hav. induction Hp as [a|a c l b He Hp IH]; intros Hra Hav; auto.
    assert (Hc : In c nodes).
    { apply IH; auto. eapply reach_edge'; eauto. intros Hx. apply Hav. right. exact Hx. }
    eapply (li_cl _ _ _ _ Hli c a); eauto. intros ->. apply Hav. right. left. reflexivity.
  Qed.

  Lemma LI_mono h (Tp Tp' : N -> Prop) q nodes : (forall t, Tp t -> Tp' t) -> LI h Tp q nodes -> LI h Tp' q nodes.
  Proof.
    intros Hm [H1 H2 H3 H4 H5 H6 H7 H8]. constructor; auto.
    intros x Hx. destruct (H7 x Hx) as [|[Hrx [t [l [Ht Hrest]]]]]; [left; auto|]. right. split; auto. exists t, l. auto.
  Qed.

  (* ---------------------------------------------------------------- the fold over the back edges *)
  Variable back : eset.
  Hypothesis Hback : forall a b, In (a, b) back <-> back_edge es r a b.

  Definition Inv (done : list (N * N)) (loops : nmap nset) : Prop :=
    nsorted (map fst loops) /\
    (forall h, nm_mem h loops = true <-> exists t, In (t, h) done) /\
    (forall h s, nm_get h loops = Some s ->
       LI h (fun t => In (t, h) done) [] s /\ forall t, In (t, h) done -> In t s).

  Definition lstep (acc : res (nmap nset)) (e : N * N) : res (nmap nset) :=
    loops <- acc ;;
    let tail := fst e in
    let header := snd e in
    let nodes0 := match nm_get header loops with Some s => s | None => [] end in
    let nodes1 := ns_insert header nodes0 in
    let a := push_new (nodes1, []) tail in
    nodes <- loop_walk (fuel_e g) g R (snd a) (fst a) ;;
    Ok (nm_insert header nodes loops).

  Lemma lstep_ok done loops t h : Inv done loops -> back_edge es r t h ->
    exists loops', lstep (Ok loops) (t, h) = Ok loops' /\ Inv (done ++ [(t, h)]) loops'.
  Proof.
    intros [Hso [Hkeys Hsets]] [Hedge Hdom]. unfold lstep. cbn [bind fst snd].
    assert (Hrt : reach es r t) by apply Hdom.
    assert (Hrh : reach es r h) by (eapply reach_edge'; eauto).
    assert (Hvh : In h VS) by (apply has_vertex_keys, (reach_has_vertex g Hgi r Hr), Hrh).
    assert (Hvt : In t VS) by (apply has_vertex_keys, (reach_has_vertex g Hgi r Hr), Hrt).
    set (Tp := fun t' => In (t', h) done).
    set (Tp' := fun t' => In (t', h) (done ++ [(t, h)])).
    set (nodes0 := match nm_get h loops with Some s => s | None => [] end).
    assert (Hn0 : nsorted nodes0 /\ (forall x, In x nodes0 -> In x VS /\ Lspec h Tp x) /\
                 (forall y p, In y nodes0 -> y <> h -> edge es p y -> reach es r p -> In p nodes0) /\
                 (forall t', Tp t' -> In t' nodes0)).
    { unfold nodes0. destruct (nm_get h loops) as [s|] eqn:Hg.
      - destruct (Hsets h s Hg) as [Hli Ht]. split; [apply Hli|]. split; [|split].
        + intros x Hx. split; [apply (li_v _ _ _ _ Hli x Hx)|apply (li_sound _ _ _ _ Hli x Hx)].
        + intros y p Hy Hyh Hpy Hrp. eapply (li_cl _ _ _ _ Hli y p); eauto.
        + exact Ht.
      - split; [constructor|]. split; [intros x []|]. split; [intros y p []|].
        intros t' Ht'. exfalso. apply nm_mem_false_get in Hg.
        assert (nm_mem h loops = true) by (apply Hkeys; exists t'; exact Ht'). congruence. }
    destruct Hn0 as [Hs0 [Hsd0 [Hcl0 Ht0]]].
    set (nodes1 := ns_insert h nodes0).
    assert (HTp : forall t', Tp t' -> Tp' t') by (intros t' Ht'; unfold Tp'; apply in_or_app; auto).
    assert (Hli1 : LI h Tp' (snd (push_new (nodes1, []) t)) (fst (push_new (nodes1, []) t))).
    { unfold push_new. cbn [fst snd]. destruct (ns_mem t nodes1) eqn:Hmt; cbn [fst snd].
      - constructor; auto.
        + apply ns_insert_sorted. exact Hs0.
        + constructor.
        + intros x [].
        + apply ns_insert_in. auto.
        + intros x Hx. apply ns_insert_in in Hx. destruct Hx as [->|Hx]; auto. apply Hsd0. exact Hx.
        + intros x Hx. apply ns_insert_in in Hx. destruct Hx as [->|Hx]; [left; auto|].
          destruct (proj2 (Hsd0 x Hx)) as [|[Hrx [t' [l [Ht' Hrest]]]]]; [left; auto|]. right. split; auto. exists t', l. auto.
        + intros y p Hy Hyh _ Hpy Hrp. apply ns_insert_in. right. apply ns_insert_in in Hy. destruct Hy as [|Hy]; [contradiction|].
          eapply Hcl0; eauto.
      - apply ns_mem_false in Hmt.
        assert (Hth : t <> h) by (intros ->; apply Hmt, ns_insert_in; auto).
        constructor; auto.
        + apply ns_insert_sorted, ns_insert_sorted. exact Hs0.
        + constructor; [intros []|constructor].
        + intros x [<-|[]]. apply ns_insert_in. auto.
        + apply ns_insert_in. right. apply ns_insert_in. auto.
        + intros [Hx|[]]. congruence.
        + intros x Hx. apply ns_insert_in in Hx. destruct Hx as [->|Hx]; auto.
          apply ns_insert_in in Hx. destruct Hx as [->|Hx]; auto. apply Hsd0. exact Hx.
        + intros x Hx. apply ns_insert_in in Hx. destruct Hx as [->|Hx].
          * right. split; auto. exists t, []. split; [unfold Tp'; apply in_or_app; right; left; auto|].
            split; [constructor|]. intros [Hx|[]]. congruence.
          * apply ns_insert_in in Hx. destruct Hx as [->|Hx]; [left; auto|].
            destruct (proj2 (Hsd0 x Hx)) as [|[Hrx [t' [l [Ht' Hrest]]]]]; [left; auto|]. right. split; auto. exists t', l. auto.
        + intros y p Hy Hyh Hyq Hpy Hrp. apply ns_insert_in. right. apply ns_insert_in. right.
          apply ns_insert_in in Hy. destruct Hy as [->|Hy]; [exfalso; apply Hyq; left; auto|].
          apply ns_insert_in in Hy. destruct Hy as [|Hy]; [contradiction|]. eapply Hcl0; eauto. }
    destruct (walk_correct h Tp' (fuel_e g) _ _ Hli1) as [nodes' [Hw [Hli' Hsub]]].
    { pose proof (unseen_le g (fst (push_new (nodes1, []) t))) as Hu.
      assert (Hq : (length (snd (push_new (nodes1, []) t)) <= 1)%nat).
      { unfold push_new. cbn [fst snd]. destruct (ns_mem t nodes1); cbn; lia. }
      unfold fuel_e. unfold vertex_indices in Hu. rewrite map_length in Hu. lia. }
    fold nodes0. fold nodes1. rewrite Hw. cbn [bind]. eexists. split; [reflexivity|].
    assert (Htin : In t nodes').
    { apply Hsub. unfold push_new. cbn [fst snd]. destruct (ns_mem t nodes1) eqn:Hmt; cbn [fst].
      - apply ns_mem_in. exact Hmt.
      - apply ns_insert_in. auto. }
    split; [apply nm_insert_sorted; exact Hso|]. split.
    - intros h'. rewrite nm_mem_insert, orb_true_iff, N.eqb_eq, Hkeys. split.
      + intros [->|[t' Ht']]; [exists t; apply in_or_app; right; left; auto|exists t'; apply in_or_app; auto].
      + intros [t' Ht']. apply in_app_or in Ht'. destruct Ht' as [Ht'|[[= -> ->]|[]]]; eauto.
    - intros h' s. destruct (N.eq_dec h' h) as [->|Hne].
      + rewrite nm_get_insert_same. intros [= <-]. split; [exact Hli'|].
        intros t' Ht'. apply in_app_or in Ht'. destruct Ht' as [Ht'|[[= ->]|[]]]; auto.
        apply Hsub. unfold push_new. cbn [fst snd]. assert (Hx : In t' nodes1) by (apply ns_insert_in; right; apply Ht0; exact Ht').
        destruct (ns_mem t nodes1); cbn [fst]; auto. apply ns_insert_in. auto.
      + rewrite nm_get_insert_other by assumption. intros Hg. destruct (Hsets h' s Hg) as [Hli'' Ht''].
        assert (Hiff : forall t', In (t', h') (done ++ [(t, h)]) <-> In (t', h') done).
        { intros t'. rewrite in_app_iff. cbn [In]. split; [intros [?|[[= _ ?]|[]]]|]; auto. congruence. }
        split.
        * eapply LI_mono; [|exact Hli'']. intros t' Ht'. apply Hiff. exact Ht'.
        * intros t' Ht'. apply Ht'', Hiff. exact Ht'.
  Qed.

  Lemma lfold (l : list (N * N)) : forall done loops, (forall a b, In (a, b) l -> back_edge es r a b) -> Inv done loops ->
    exists loops', fold_left lstep l (Ok loops) = Ok loops' /\ Inv (done ++ l) loops'.
  Proof.
    induction l as [|[t h] l IH]; intros done loops Hb Hinv; cbn [fold_left].
    - exists loops. rewrite app_nil_r. auto.
    - destruct (lstep_ok done loops t h Hinv (Hb t h (or_introl eq_refl))) as [loops1 [Hs1 Hinv1]]. rewrite Hs1.
      destruct (IH (done ++ [(t, h)]) loops1 (fun a b Hab => Hb a b (or_intror Hab)) Hinv1) as [loops' [Hf Hinv']].
      exists loops'. split; [exact Hf|]. rewrite <- app_assoc in Hinv'. exact Hinv'.
  Qed.

  Lemma loops_fold_correct :
    exists loops, fold_left lstep back (Ok []) = Ok loops /\ nsorted (map fst loops) /\
      (forall h, In h (map fst loops) <-> is_header es r h) /\
      (forall h L, In (h, L) loops -> forall x, In x L <-> in_loop es r h x).
  Proof.
    destruct (lfold back [] []) as [loops [Hf [Hso [Hkeys Hsets]]]].
    { intros a b Hab. apply Hback. exact Hab. }
    { split; [constructor|]. split; [|intros h s Hg; discriminate].
      intros h. split; [discriminate|intros [t []]]. }
    cbn [app] in *. exists loops. split; [exact Hf|]. split; [exact Hso|]. split.
    - intros h. rewrite <- nm_mem_in, Hkeys. unfold is_header. split; intros [t Ht]; exists t; apply Hback; exact Ht.
    - intros h L HhL x. apply nm_get_in in HhL; auto. destruct (Hsets h L HhL) as [Hli Ht].
      rewrite (li_char h _ L Hli Ht x). unfold Lspec, in_loop, path_avoiding.
      assert (Hhd : exists t, back_edge es r t h).
      { assert (Hm : nm_mem h loops = true) by (apply nm_mem_get; eauto). apply Hkeys in Hm. destruct Hm as [t Ht']. exists t. apply Hback. exact Ht'. }
      split.
      + intros [->|[Hrx [t [l [Htb [Hp Hav]]]]]]; split; auto. right. split; auto. exists t, l. split; [apply Hback; exact Htb|auto].
      + intros [_ [->|[Hrx [t [l [Htb [Hp Hav]]]]]]]; auto. right. split; auto. exists t, l. split; [apply Hback; exact Htb|auto].
  Qed.
End LoopModel.

Section LoopsTop.
  Context {V E : Type} `{Vertex V} `{Edge E}.
  Variable g : graph V E.
  Hypothesis Hgi : graph_inv g.
  Variable r : N.
  Hypothesis Hr : has_vertex g r = true.
  Variable m : nmap N.
  Hypothesis Hm : compute_immediate_dominators g r = Ok m.
  Hypothesis Hchk : idom_check (vertex_indices g) (edge_keys g) r m = true.

  (* [U] loops_correct for the MODEL function *)
  Theorem compute_loops_correct :
    exists loops, compute_loops g r = Ok loops /\ nsorted (map fst loops) /\
      (forall h, In h (map fst loops) <-> is_header (edge_keys g) r h) /\
      (forall h L, In (h, L) loops -> forall x, In x L <-> in_loop (edge_keys g) r h x).
  Proof.
    unfold compute_loops.
    destruct (compute_back_edges_correct g Hgi r Hr m Hm Hchk) as [back [Hback Hbin]]. rewrite Hback. cbn [bind].
    destruct (reachable_vertices_correct g Hgi r Hr) as [rs [Hrs [_ Hrin]]]. rewrite Hrs. cbn [bind].
    exact (loops_fold_correct g Hgi r Hr rs Hrin back Hbin).
  Qed.
End LoopsTop.
