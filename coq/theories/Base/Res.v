(* Base/Res.v -- results of modelled Rust functions: Ok value | Err kind | Panic.
   A Rust `unwrap` on None, an index out of range, an arithmetic overflow in a
   debug build are all `Panic`: a value of the model, never abstracted away. *)
From Coq Require Import ZArith List Bool.
Import ListNotations.

Inductive err :=
| ESort            (* Error::Sort *)
| EDivZero         (* Error::DivideByZero *)
| EExecScalar          (* Error::ExecutorScalar *)
| EAddrBits        (* Error::TooManyAddressBits *)
| EUnmapped        (* Error::AccessUnmappedMemory *)
| ENoLocation      (* Error::ExecutorNoValidLocation *)
| ENoEdgeCond      (* Error::ExecutorNoEdgeCondition *)
| EIntrinsic       (* Error::UnhandledIntrinsic *)
| EMaxSteps        (* Error::FixedPointMaxSteps *)
| EOrdering        (* Error::FixedPointOrdering *)
| ENoEntry         (* Error::FixedPointRequiresEntry / ...EntryExitNotFound *)
| ENoExit
| EGraphVertex     (* Error::GraphVertexNotFound *)
| EGraphEdge       (* Error::GraphEdgeNotFound *)
| ECustom          (* Error::Custom(_) and every other string-carrying error *)
| EInvalidAddress  (* Error::ExecutorInvalidAddress *)
| EOther.

Definition err_eqb (a b : err) : bool :=
  match a, b with
  | ESort, ESort | EDivZero, EDivZero | EExecScalar, EExecScalar | EAddrBits, EAddrBits
  | EUnmapped, EUnmapped | ENoLocation, ENoLocation | ENoEdgeCond, ENoEdgeCond
  | EIntrinsic, EIntrinsic | EMaxSteps, EMaxSteps | EOrdering, EOrdering
  | ENoEntry, ENoEntry | ENoExit, ENoExit | EGraphVertex, EGraphVertex
  | EGraphEdge, EGraphEdge | ECustom, ECustom | EInvalidAddress, EInvalidAddress | EOther, EOther => true
  | _, _ => false
  end.

Lemma err_eqb_eq a b : err_eqb a b = true <-> a = b.
Proof. destruct a, b; cbn; split; congruence. Qed.

Inductive res (A : Type) := Ok (a : A) | Err (e : err) | Panic.
Arguments Ok {A} a. Arguments Err {A} e. Arguments Panic {A}.

Definition bind {A B} (r : res A) (f : A -> res B) : res B :=
  match r with Ok a => f a | Err e => Err e | Panic => Panic end.
Notation "x <- r ;; k" := (bind r (fun x => k))
  (at level 61, r at next level, right associativity).

Definition res_eqb {A} (eqb : A -> A -> bool) (x y : res A) : bool :=
  match x, y with
  | Ok a, Ok b => eqb a b
  | Err e, Err f => err_eqb e f
  | Panic, Panic => true
  | _, _ => false
  end.

Lemma res_eqb_eq {A} (eqb : A -> A -> bool) :
  (forall a b, eqb a b = true <-> a = b) ->
  forall x y, res_eqb eqb x y = true <-> x = y.
Proof.
  intros H x y. destruct x as [a|e|], y as [b|f|]; cbn; try (split; congruence).
  - rewrite H. split; congruence.
  - rewrite err_eqb_eq. split; congruence.
Qed.

Definition is_ok {A} (r : res A) : bool := match r with Ok _ => true | _ => false end.

Definition res_of_option {A} (o : option A) : res A :=
  match o with Some a => Ok a | None => Panic end.   (* Option::unwrap *)

(* indices (0-based) of the [false] entries of a list: what the case files print *)
Fixpoint failing_from (i : N) (l : list bool) : list N :=
  match l with
  | [] => []
  | true :: t => failing_from (N.succ i) t
  | false :: t => i :: failing_from (N.succ i) t
  end.
Definition failing (l : list bool) : list N := failing_from 0%N l.

Lemma failing_from_nil i l : failing_from i l = [] <-> forallb (fun b => b) l = true.
Proof.
  revert i; induction l as [|b t IH]; intros i; cbn; [tauto|].
  destruct b; cbn; [apply IH|split; discriminate].
Qed.
