(* Props/C05.v -- property theorems only.
   C05: "Lifting any bytes is total and yields well-formed, deterministic IL".
   Proved here: the two validators that the check runs on every dumped BlockTranslationResult are sound for
   ALL results and ALL valuations.  Not provable in Coq (explored by the sweep, see notes/C05.md): that the
   Rust/C decoders and lifters return at all (no panic / abort / non-termination) on every byte string. *)
From Coq Require Import ZArith List Bool Lia.
From Falcon Require Import Base.Res IL.Const IL.Expr IL.Func Exec.Sem Lift.Wf Lift.GuardDecide Lift.WfProofs Lift.C05Check
  Lift.MirrorWf Lift.MirrorA64.
From Falcon Require Isa.Mips Isa.MipsLift Isa.Ppc Isa.PpcLift Isa.A64 Isa.A64Lift.
Import ListNotations.
Local Open Scope Z_scope.

(* 1. [U] the well-formedness validator: every expression well sorted, every assignment / load / store /
      branch target / guard of the width its operation requires, every instruction graph with an entry and
      an exit naming existing blocks, exit reachable from entry, every edge between existing blocks *)
Theorem wf_result_sound : forall ab r, wf_result ab r = true -> Wf_result ab r.
Proof. exact WfProofs.wf_result_sound. Qed.
Print Assumptions wf_result_sound.

(* 2. [U] the guard validator: for EVERY valuation that defines the scalars of the guards with their widths,
      exactly one out-edge of every block with out-edges, and exactly one successor of the lifted block,
      is enabled (denotes 1 under Exec.Sem.den) and every other one denotes 0 *)
Theorem guards_det_sound : forall r, guards_det_check r = true -> Det_result r.
Proof. exact GuardDecide.guards_det_sound. Qed.
Print Assumptions guards_det_sound.

(* the same, for one list of guards *)
Theorem exactly_one_sound : forall gs, exactly_one gs = true ->
  forall en, env_ok en (guards_scalars gs) -> one_enabled en gs.
Proof. exact GuardDecide.exactly_one_sound. Qed.
Print Assumptions exactly_one_sound.

(* 3. [U] the sort rules of the validator are those of the IL's checked constructors: an accepted
      expression is rebuilt unchanged by mk_bin / mk_ext / mk_ite *)
Theorem wf_expr_constructors : forall e, wf_expr e = true -> rebuild e = Ok e.
Proof. exact WfProofs.wf_expr_constructors. Qed.
Print Assumptions wf_expr_constructors.

(* 4. [U] what a passing case means: the oracle of C05Check accepts an observation only if it is an error
      or a result that is well formed and deterministic *)
Theorem oracle_sound : forall ab relift known o, snd (ck (KLift ab relift known o)) = true ->
  relift = true /\ (o = LErr \/ exists r, o = LOk r /\ Wf_result ab r /\ Det_result r).
Proof. exact C05Check.oracle_sound. Qed.
Print Assumptions oracle_sound.

(* 5. the hypothesis of (2) is satisfiable for every accepted guard list: the all-zero valuation *)
Theorem env_ok_satisfiable : forall l, scalars_consistent l = true ->
  forallb (fun t => 1 <=? sbits t) l = true -> env_ok (zero_env l) l.
Proof. exact GuardDecide.env_ok_satisfiable. Qed.
Print Assumptions env_ok_satisfiable.

(* 6. [U] the lifter MIRRORS (Gallina transcriptions of the Rust builders, tied per encoding to the real lifters by the
      syntactic ties of C02 / C03) are total and produce only well-formed, deterministic blocks, for EVERY value of
      every register / immediate / shift / extend / address / temporary-id field -- no range hypothesis for MIPS
      and PPC (the fields are arbitrary integers), the encodable ranges (established by decode) for A64. *)

(* MIPS: every block of the mirror -- one plain instruction, or a branch + delay slot + branch graph with its
   (merged) successors -- for every word, address, byte order, temporary numbering *)
Theorem mips_mirror_block_good : forall bg addr ws temps l len,
  MipsLift.mirror_block bg addr ws temps = Some l ->
  wf_result 32 (mkbr (fst l) addr len (snd l)) = true /\ Det_result (mkbr (fst l) addr len (snd l)).
Proof. exact MirrorWf.MipsW.mirror_block_good. Qed.
Print Assumptions mips_mirror_block_good.

(* MIPS: a mirrored builder never fails -- neither Panic nor a sort error -- whatever the fields *)
Theorem mips_lift_always_ok : forall bg i a ts r, MipsLift.lift_plain bg i a ts = Some r -> exists g, r = Ok g.
Proof. exact MirrorWf.MipsW.mips_always_ok. Qed.
Print Assumptions mips_lift_always_ok.
Theorem mips_branch_no_panic : forall b a, MipsLift.pre_graph b a <> Some Panic /\ MipsLift.post_graph b a <> Some Panic.
Proof. exact MirrorWf.MipsW.mips_branch_no_panic. Qed.
Print Assumptions mips_branch_no_panic.

(* PPC *)
Theorem ppc_mirror_block_good : forall addr w temps l len,
  PpcLift.pmirror_block addr w temps = Some l ->
  wf_result 32 (mkbr (fst l) addr len (snd l)) = true /\ Det_result (mkbr (fst l) addr len (snd l)).
Proof. exact MirrorWf.PpcW.pmirror_block_good. Qed.
Print Assumptions ppc_mirror_block_good.
Theorem ppc_lift_always_ok : forall i a ts r ss, PpcLift.plift i a ts = Some (r, ss) -> exists g, r = Ok g.
Proof. exact MirrorWf.PpcW.ppc_no_panic. Qed.
Print Assumptions ppc_lift_always_ok.

(* A64: fields in their encodable ranges (MirrorA64.A64W.fields_ok; every decoded word satisfies it) *)
Theorem a64_no_panic : forall addr i, MirrorA64.A64W.fields_ok i -> A64Lift.lift addr i <> Panic.
Proof. exact MirrorA64.A64W.a64_no_panic. Qed.
Print Assumptions a64_no_panic.
Theorem a64_block_good : forall addr i b len, MirrorA64.A64W.fields_ok i -> A64Lift.lift addr i = Ok b ->
  wf_result 64 (mkbr [(addr, A64Lift.graph_of addr (fst b))] addr len (snd b)) = true /\
  Det_result (mkbr [(addr, A64Lift.graph_of addr (fst b))] addr len (snd b)).
Proof. exact MirrorA64.A64W.a64_block_good. Qed.
Print Assumptions a64_block_good.
Theorem a64_word_good : forall addr w i, A64.decode w = Some i ->
  A64Lift.lift addr i <> Panic /\
  forall b len, A64Lift.lift addr i = Ok b ->
    wf_result 64 (mkbr [(addr, A64Lift.graph_of addr (fst b))] addr len (snd b)) = true /\
    Det_result (mkbr [(addr, A64Lift.graph_of addr (fst b))] addr len (snd b)).
Proof. exact MirrorA64.A64W.a64_word_good. Qed.
Print Assumptions a64_word_good.

(* examples: a complementary pair over a wide comparison is accepted, and the theorem applies *)
Definition ex_x : expr := EScalar (mks 0%N 32 None).
Definition ex_pair : list (option expr) :=
  [Some (EBin Cmpeq ex_x (EConst (mkc 32 0))); Some (EBin Cmpneq ex_x (EConst (mkc 32 0)))].
Example ex_pair_accepted : exactly_one ex_pair = true.
Proof. vm_compute. reflexivity. Qed.
Example ex_pair_env : env_ok [((0%N, None), mkc 32 7)] (guards_scalars ex_pair).
Proof.
  intros s Hs. cbn in Hs. exists (mkc 32 7).
  destruct Hs as [<- | [<- | []]]; (split; [reflexivity|]; split; [reflexivity|]; cbn; lia).
Qed.
(* an overlapping pair (x = 0, x <u 5) and a lone guarded edge are rejected *)
Example ex_overlap_rejected :
  exactly_one [Some (EBin Cmpeq ex_x (EConst (mkc 32 0))); Some (EBin Cmpltu ex_x (EConst (mkc 32 5)))] = false.
Proof. vm_compute. reflexivity. Qed.
Example ex_lone_rejected : exactly_one [Some (EBin Cmpeq ex_x (EConst (mkc 32 0)))] = false.
Proof. vm_compute. reflexivity. Qed.
