(* Props/C20.v -- property theorems only *)
From Coq Require Import ZArith List Bool String.
From Falcon Require Import Base.Res Arch.Descr Arch.CcSpec Arch.CcOk Arch.C20Check Arch.C20Example.
Import ListNotations.

(* [U] soundness of the checker: tables that pass every clause check satisfy the statement of C20
   (Arch/CcOk.v, Record C20_statement) for the ABI of the architecture they name. *)
Theorem cc_ok_sound : forall t : dump,
  cc_ok t = true -> exists a, abi_of (d_name t) = Some a /\ C20_statement a t.
Proof. exact Arch.CcOk.cc_ok_sound. Qed.
Print Assumptions cc_ok_sound.

(* the per-run cases (one per architecture and clause) add up to cc_ok of the regenerated tables *)
Theorem cases_are_cc_ok : forall t : dump,
  forallb (fun k => snd (ck (K k t))) all_clauses = true <-> cc_ok t = true.
Proof. exact Arch.C20Check.ck_all_cc_ok. Qed.
Print Assumptions cases_are_cc_ok.

Theorem coverage_sound : forall names, coverage_ok names = true -> names = seven.
Proof. exact Arch.CcOk.coverage_ok_sound. Qed.
Print Assumptions coverage_sound.

Theorem coverage_complete : forall names, names = seven -> coverage_ok names = true.
Proof. exact Arch.CcOk.coverage_ok_complete. Qed.
Print Assumptions coverage_complete.

(* the hypotheses are satisfiable: a correct table (System V x86-64) passes and therefore satisfies C20 *)
Example cc_ok_example : cc_ok example_amd64 = true.
Proof. exact Arch.C20Example.example_amd64_ok. Qed.
Example c20_statement_example : C20_statement abi_amd64 example_amd64.
Proof. exact Arch.C20Example.example_amd64_statement. Qed.
(* ... and the checker is not vacuous: the pre-repair AArch64 table fails it *)
Example cc_ok_refutes_old_aarch64 : cc_ok old_aarch64 = false.
Proof. exact Arch.C20Example.old_aarch64_refuted. Qed.

(* no false alarm: completeness of the checker.  Tables of a supported architecture that satisfy the statement of
   C20, and whose dumped query answers are the model's (queries_tie, a separate case of every run), pass every
   clause check -- with cc_ok_sound: for tied dumps, cc_ok decides C20_statement exactly. *)
Theorem cc_ok_complete : forall (t : dump) (a : abi),
  abi_of (d_name t) = Some a -> C20_statement a t -> queries_tie t = true -> cc_ok t = true.
Proof. exact Arch.CcOk.cc_ok_complete. Qed.
Print Assumptions cc_ok_complete.

(* per clause: ten of the twelve checks are implied by the clause's part of the statement alone; CStackBase when
   the ABI's first stack slot fits a usize; CStackStride (which also compares the dumped answers d_argtypes) under
   the tie and for word sizes that are whole bytes *)
Theorem clause_complete_partial : forall (a : abi) (t : dump) (k : clause),
  C20_statement a t -> In k iff_clauses -> clause_ok a t k = true.
Proof. exact Arch.CcOk.clause_complete_partial. Qed.
Print Assumptions clause_complete_partial.

Theorem clause_complete_stack_base : forall (a : abi) (t : dump),
  C20_statement a t -> (a_stack_base a <= usize_max)%Z -> clause_ok a t CStackBase = true.
Proof. exact Arch.CcOk.clause_complete_stack_base. Qed.
Print Assumptions clause_complete_stack_base.

Theorem clause_complete_stack_stride : forall (a : abi) (t : dump),
  C20_statement a t -> queries_tie t = true ->
  (a_word a mod 8 = 0)%Z -> (a_stack_base a + a_word a / 8 <= usize_max)%Z -> (0 <= a_word a / 8)%Z ->
  clause_ok a t CStackStride = true.
Proof. exact Arch.CcOk.clause_complete_stack_stride. Qed.
Print Assumptions clause_complete_stack_stride.

Example complete_example_tie :
  abi_of (d_name example_amd64) = Some abi_amd64 /\ queries_tie example_amd64 = true.
Proof. split; vm_compute; reflexivity. Qed.

(* the hypotheses are satisfiable (System V x86-64 tables) and the ten clauses are the ones named *)
Example complete_example :
  iff_clauses = [CDescr; CLifted; CStackOps; CArgs; CRet; CRetAddr; CDisjoint; CClasses; CNamed; CSpPreserved] /\
  (a_stack_base abi_amd64 <= usize_max)%Z /\
  forallb (clause_ok abi_amd64 example_amd64) (CStackBase :: iff_clauses) = true.
Proof.
  split; [reflexivity|]. split; [vm_compute; discriminate|].
  apply forallb_forall. intros k [<-|Hk].
  - apply clause_complete_stack_base; [exact c20_statement_example|vm_compute; discriminate].
  - apply clause_complete_partial; [exact c20_statement_example|exact Hk].
Qed.
