(* Props/C15.v -- property theorems only (proofs in Cfg/SProofs.v; model Cfg/SOps.v, the static-view
   restatement of Cfg/CfgOps.v; both are run against the implementation by Cfg/C15Check.v) *)
From Coq Require Import ZArith List.
From Falcon Require Import Graph.NMap Graph.Graph Graph.GraphInv.
From Falcon Require Import Base.Res IL.Const IL.Expr IL.Func Cfg.CfgOps Cfg.SOps Cfg.SProofs Cfg.Lang Cfg.MergeProofs Cfg.MergeExit Cfg.AppendProofs Cfg.AppendLang Cfg.EProofs Cfg.Refine.
Import ListNotations.
Local Open Scope Z_scope.

(* 1. every graph obtained from ControlFlowGraph::new() by any sequence of the public operations
      (new_block, un/conditional_edge, set_entry/exit, Block pushes, remove_instruction, set_address,
      merge, append, insert -- failing operations included, with their partial effects) satisfies
      cfg_inv: blocks/edges in key order, every edge joins existing blocks, instruction indices
      pairwise distinct per block and below next_instruction_index, block indices below next_index,
      entry/exit (when Some) name existing blocks *)
Theorem cfg_inv_preserved : forall g, reachable g -> cfg_inv g = true.
Proof. exact SProofs.cfg_inv_preserved. Qed.
Print Assumptions cfg_inv_preserved.

(* one step, any operation, any outcome *)
Theorem s_run_inv : forall g o, sinv g ->
  (forall other, o = SAppend other \/ o = SInsert other -> sinv other) -> sinv (s_run g o).
Proof. exact SProofs.s_run_inv. Qed.
Print Assumptions s_run_inv.

Theorem sinv_cfg_inv : forall g, sinv g -> cfg_inv g = true.
Proof. exact SProofs.sinv_cfg_inv. Qed.
Print Assumptions sinv_cfg_inv.

(* BlockTranslationResult::blockify only composes public operations *)
Theorem blockify_reachable : forall gs, (forall x, In x gs -> reachable x) -> reachable (fst (s_blockify gs)).
Proof. exact SProofs.blockify_reachable. Qed.
Print Assumptions blockify_reachable.

(* 2. merge: on every invariant-satisfying graph it terminates (the fuel of the model is never
      exhausted), returns Ok, keeps the invariant, and leaves unchanged the set [lang] of finite words
      of (operation | guard) read along paths from the entry block *)
Theorem merge_lang : forall g, sinv g ->
  snd (s_merge g) = Ok tt /\ sinv (fst (s_merge g)) /\ forall w, lang (fst (s_merge g)) w <-> lang g w.
Proof. exact MergeProofs.merge_lang. Qed.
Print Assumptions merge_lang.

(* one merge step on a mergeable pair (m has the single unconditional out-edge m -> s, s has that
   single in-edge, s is not the entry, m <> s) *)
Theorem merge_step_lang : forall g m s, sinv g -> mergeable g m s ->
  snd (s_merge_one g m s) = Ok tt /\ forall w, lang (fst (s_merge_one g m s)) w <-> lang g w.
Proof. exact MergeProofs.merge_step_lang. Qed.
Print Assumptions merge_step_lang.

(* 2-exit. the words that END at the exit block: with a terminal exit block (no out-edge -- every lifter
      graph, and what append relies on) merge preserves the words leading from the entry to the end of the
      exit block, the exit being redirected to the absorbing block when it is merged away, and the exit
      stays terminal.  The proviso is necessary: [cx_*] below is a graph whose exit block absorbs its
      successor and whose complete words change. *)
Theorem merge_clang : forall g, sinv g -> exit_terminal g ->
  exit_terminal (fst (s_merge g)) /\ forall w, clang (fst (s_merge g)) w <-> clang g w.
Proof. exact MergeExit.merge_clang. Qed.
Print Assumptions merge_clang.

Theorem merge_step_clang : forall g m s, sinv g -> mergeable g m s -> exit_terminal g ->
  (forall w, clang (fst (s_merge_one g m s)) w <-> clang g w) /\ exit_terminal (fst (s_merge_one g m s)).
Proof. exact MergeExit.merge_step_clang. Qed.
Print Assumptions merge_step_clang.

Example merge_clang_needs_terminal_exit :
  clang cx_g [] /\ ~ clang (fst (s_merge cx_g)) [] /\ ~ exit_terminal cx_g.
Proof.
  split; [exact cx_before|]. split; [exact cx_after|].
  intros H. apply (H 0 eq_refl (mkedge 0 1 None)); [left; reflexivity | reflexivity].
Qed.

(* 3. append (to a non-empty graph with entry and exit; the appended graph has entry and exit):
      never fails; the result is the disjoint union of g and a copy of [other] re-indexed by the
      injective map [rho] onto fresh indices, plus exactly the one unconditional edge
      exit(g) -> rho(entry(other)); entry = entry(g), exit = rho(exit(other)) *)
Theorem append_struct : forall g other ex oen oex,
  sinv g -> sinv other -> g_blocks g <> [] -> g_entry g <> None -> g_exit g = Some ex ->
  g_entry other = Some oen -> g_exit other = Some oex ->
  exists g',
    s_append g other = (g', Ok tt) /\ sinv g' /\
    g_next_index g' = g_next_index g + Z.of_nat (length (g_blocks other)) /\
    (forall b, In b (g_blocks g') <->
       In b (g_blocks g) \/ exists b0, In b0 (g_blocks other) /\ b = block_clone_new_index b0 (rho g other (b_index b0))) /\
    (forall e, In e (g_edges g') <->
       In e (g_edges g) \/
       (exists e0, In e0 (g_edges other) /\ e = mkedge (rho g other (e_head e0)) (rho g other (e_tail e0)) (e_cond e0)) \/
       e = mkedge ex (rho g other oen) None) /\
    g_entry g' = g_entry g /\ g_exit g' = Some (rho g other oex).
Proof. exact AppendProofs.append_struct. Qed.
Print Assumptions append_struct.

Theorem rho_fresh_injective : forall g other,
  (forall i, has_block other i = true ->
     g_next_index g <= rho g other i < g_next_index g + Z.of_nat (length (g_blocks other))) /\
  (forall i j, has_block other i = true -> has_block other j = true -> rho g other i = rho g other j -> i = j).
Proof. intros g other. split; [apply AppendProofs.rho_fresh | apply AppendProofs.rho_inj]. Qed.
Print Assumptions rho_fresh_injective.

(* 3-lang. "appending runs the first graph and then the second": the words executable from the entry of
      append g other are those of g, or a complete word of g (entry to the end of the exit block) followed
      by a word of other; complete words of the result are concatenations of complete words *)
Theorem append_runs_first_then_second : forall g other en ex oen oex,
  sinv g -> sinv other -> g_blocks g <> [] -> g_entry g = Some en -> g_exit g = Some ex ->
  g_entry other = Some oen -> g_exit other = Some oex ->
  let g' := fst (s_append g other) in
  (forall w, lang g' w <-> lang g w \/ exists w1 w2, w = w1 ++ w2 /\ clang g w1 /\ lang other w2) /\
  (forall w, clang g' w <-> exists w1 w2, w = w1 ++ w2 /\ clang g w1 /\ clang other w2).
Proof. exact AppendLang.append_runs_first_then_second. Qed.
Print Assumptions append_runs_first_then_second.

(* 3'. insert: never fails when [other] has entry and exit; disjoint union, no new edge, entry/exit
       cleared, the returned pair is the image of other's (entry, exit) *)
Theorem insert_struct : forall g other oen oex,
  sinv g -> sinv other -> g_entry other = Some oen -> g_exit other = Some oex ->
  exists g',
    s_insert g other = (g', Ok (rho g other oen, rho g other oex)) /\ sinv g' /\
    g_next_index g' = g_next_index g + Z.of_nat (length (g_blocks other)) /\
    (forall b, In b (g_blocks g') <->
       In b (g_blocks g) \/ exists b0, In b0 (g_blocks other) /\ b = block_clone_new_index b0 (rho g other (b_index b0))) /\
    (forall e, In e (g_edges g') <->
       In e (g_edges g) \/
       (exists e0, In e0 (g_edges other) /\ e = mkedge (rho g other (e_head e0)) (rho g other (e_tail e0)) (e_cond e0))) /\
    g_entry g' = None /\ g_exit g' = None.
Proof. exact AppendProofs.insert_struct. Qed.
Print Assumptions insert_struct.

(* 4. on the four-map model (Cfg/CfgOps.v over Graph/Graph.v): after any history of operations from
      ControlFlowGraph::new() -- any outcomes, arbitrary graphs handed to append/insert -- the graph
      satisfies C11's graph_inv, and the successor / predecessor queries agree with the edge set *)
Theorem graph_inv_preserved : forall ops,
  @graph_inv block edge block_Vertex edge_Edge (eg (fold_left e_run ops ecfg_new)).
Proof. exact EProofs.graph_inv_preserved. Qed.
Print Assumptions graph_inv_preserved.

Theorem adjacency_agrees : forall ops i, let g := eg (fold_left e_run ops ecfg_new) in
  has_vertex g i = true ->
  (exists s, successor_indices g i = Ok s /\ forall t, In t s <-> has_edge g i t = true) /\
  (exists p, predecessor_indices g i = Ok p /\ forall h, In h p <-> has_edge g h i = true).
Proof. exact EProofs.adjacency_agrees. Qed.
Print Assumptions adjacency_agrees.

(* 5. the four-map model refines the static model: for histories with non-negative (usize) arguments the
      static view after the history on the four-map model is the state of the static model after the same
      history; hence theorem 1 and the merge theorem hold for the four-map model too *)
Theorem history_refines : forall ops, Forall eop_args_ok ops ->
  to_static (fold_left e_run ops ecfg_new) = fold_left s_run (map sop_of ops) s_new.
Proof. exact Refine.history_refines. Qed.
Print Assumptions history_refines.

Theorem e_run_refines : forall c o, erel c -> eop_args_ok o ->
  to_static (e_run c o) = s_run (to_static c) (sop_of o) /\ erel (e_run c o).
Proof. exact Refine.e_run_refines. Qed.
Print Assumptions e_run_refines.

Theorem fourmap_cfg_inv : forall ops, Forall eop_args_ok ops -> Forall eop_other_ok ops ->
  cfg_inv (to_static (fold_left e_run ops ecfg_new)) = true.
Proof. exact Refine.fourmap_cfg_inv. Qed.
Print Assumptions fourmap_cfg_inv.

Theorem fourmap_merge_lang : forall c, erel c -> sinv (to_static c) ->
  snd (merge c) = Ok tt /\ forall w, lang (to_static (fst (merge c))) w <-> lang (to_static c) w.
Proof. exact Refine.fourmap_merge_lang. Qed.
Print Assumptions fourmap_merge_lang.

(* the hypotheses are satisfiable: four blocks, a cycle 0 -> 1 -> 3 -> 0, a self-loop on 1,
   conditional edges, an empty block (2), a removed instruction *)
Definition ex_op (k : Z) : operation := ONop None.
Definition ex_hist : list sop :=
  [SNewBlock; SNewBlock; SNewBlock; SNewBlock;
   SPush 0 (ONop None); SPush 0 (ONop None); SPush 1 (ONop None); SPush 3 (ONop None); SRemoveInstr 0 0;
   SCond 0 1 (EConst (mkc 1 1)); SCond 0 2 (EConst (mkc 1 0)); SCond 1 1 (EConst (mkc 1 1)); SCond 1 3 (EConst (mkc 1 0));
   SUncond 2 3; SUncond 3 0; SSetEntry 0; SSetExit 3].
Definition ex_g : cfg := fold_left s_run ex_hist s_new.
Example ex_reachable : reachable ex_g /\ cfg_inv ex_g = true /\ length (g_blocks ex_g) = 4%nat /\ length (g_edges ex_g) = 6%nat.
Proof.
  split; [apply reachable_fold; [exact reach_new | repeat constructor] | repeat split; reflexivity].
Qed.
(* merging it: only 2 -> 3 qualifies? no: 3 has two in-edges; nothing to merge, the graph is unchanged *)
Example ex_merge : s_merge ex_g = (ex_g, Ok tt).
Proof. reflexivity. Qed.
(* a straight line 0 -> 1 -> 2 collapses into block 0 and the exit follows *)
Definition ex_line : cfg :=
  fold_left s_run [SNewBlock; SNewBlock; SNewBlock; SPush 0 (ONop None); SPush 1 (ONop None); SPush 2 (ONop None);
                   SUncond 0 1; SUncond 1 2; SSetEntry 0; SSetExit 2; SMerge] s_new.
Example ex_line_merged : map b_index (g_blocks ex_line) = [0] /\ g_exit ex_line = Some 0 /\
  map i_index (b_instrs (hd (block_new 9) (g_blocks ex_line))) = [0; 1; 2].
Proof. repeat split; reflexivity. Qed.
