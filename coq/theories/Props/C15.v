(* Props/C15.v -- property theorems only (proofs in Cfg/SProofs.v; model Cfg/SOps.v, the static-view
   restatement of Cfg/CfgOps.v; both are run against the implementation by Cfg/C15Check.v) *)
From Coq Require Import ZArith List.
From Falcon Require Import Base.Res IL.Func Cfg.CfgOps Cfg.SOps Cfg.SProofs Cfg.Lang Cfg.MergeProofs.
Import ListNotations.
Local Open Scope Z_scope.

(* 1. every graph obtained from ControlFlowGraph::new() by any sequence of the public operations
      (new_block, un/conditional_edge, set_entry/exit, Block pushes, remove_instruction, set_address,
      merge, append, insert -- failing operations included, with their partial effects) satisfies
      cfg_inv: blocks/edges in key order, every edge joins existing blocks, instruction indices
      pairwise distinct per block and below next_instruction_index, block indices below next_index,
      entry/exit (when Some) name existing blocks *)
Theorem cfg_inv_preserved : forall g, reachable g -> cfg_inv g = true.
Proof. exact SProofs.cfg_inv_preserved. Qed.
Print Assumptions cfg_inv_preserved.

(* one step, any operation, any outcome *)
Theorem s_run_inv : forall g o, sinv g ->
  (forall other, o = SAppend other \/ o = SInsert other -> sinv other) -> sinv (s_run g o).
Proof. exact SProofs.s_run_inv. Qed.
Print Assumptions s_run_inv.

Theorem sinv_cfg_inv : forall g, sinv g -> cfg_inv g = true.
Proof. exact SProofs.sinv_cfg_inv. Qed.
Print Assumptions sinv_cfg_inv.

(* BlockTranslationResult::blockify only composes public operations *)
Theorem blockify_reachable : forall gs, (forall x, In x gs -> reachable x) -> reachable (fst (s_blockify gs)).
Proof. exact SProofs.blockify_reachable. Qed.
Print Assumptions blockify_reachable.

(* 2. merge: on every invariant-satisfying graph it terminates (the fuel of the model is never
      exhausted), returns Ok, keeps the invariant, and leaves unchanged the set [lang] of finite words
      of (operation | guard) read along paths from the entry block *)
Theorem merge_lang : forall g, sinv g ->
  snd (s_merge g) = Ok tt /\ sinv (fst (s_merge g)) /\ forall w, lang (fst (s_merge g)) w <-> lang g w.
Proof. exact MergeProofs.merge_lang. Qed.
Print Assumptions merge_lang.

(* one merge step on a mergeable pair (m has the single unconditional out-edge m -> s, s has that
   single in-edge, s is not the entry, m <> s) *)
Theorem merge_step_lang : forall g m s, sinv g -> mergeable g m s ->
  snd (s_merge_one g m s) = Ok tt /\ forall w, lang (fst (s_merge_one g m s)) w <-> lang g w.
Proof. exact MergeProofs.merge_step_lang. Qed.
Print Assumptions merge_step_lang.
