(* Props/C09.v -- property theorems only.
   All statements are about the engine model Flow/FixedPoint.v ([run] = fixed_point_forward_options,
   [run_nobudget] = fixed_point_backward_options), abstract in the analysis and in the location graph.
   Proofs: Flow/FixedPointProofs.v.  Every theorem is unbounded ([U]). *)
From Coq Require Import List Bool Arith.
From Falcon Require Import Base.Res IL.Func IL.Loc IL.LocProofs Flow.FixedPoint Flow.FixedPointProofs Flow.FpIL Flow.FpILProofs Flow.C09Example.
Import ListNotations.

Section C09.
  Variables (L S : Type) (eqb : L -> L -> bool).
  Hypothesis eqb_spec : forall a b, reflect (a = b) (eqb a b).
  (* the engine's neighbour accessors (forward engine: join_from = backward(), push_to = forward();
     backward engine: the other way round), the transfer function, join, partial_cmp *)
  Variables join_from push_to : L -> res (list L).
  Variable trans : L -> option S -> res S.
  Variable join : S -> S -> res S.
  Variable cmp : S -> S -> option comparison.
  (* the location graph: successors / predecessors as total functions, the start location *)
  Variables succ pred : L -> list L.
  Variable entry : L.

  Notation reach := (reach L succ entry).
  Notation run := (FixedPoint.run L S eqb join_from push_to trans join cmp).
  Notation run_nobudget := (FixedPoint.run_nobudget L S eqb join_from push_to trans join cmp).
  Notation In_dom := (In_dom L S eqb).
  Notation lookup := (FixedPoint.lookup L S eqb).
  Notation join_neighbours := (FixedPoint.join_neighbours L S eqb join).
  Notation term := (term L S eqb join_from push_to trans join cmp).
  Notation nsteps := (nsteps L S eqb join_from push_to trans join cmp).
  Notation le := (FixedPointProofs.le S cmp).
  Notation ole := (FixedPointProofs.ole S cmp).
  (* holds R m l :  exists st new s,  join of the states of those pred l that have one = st,
                    trans l st = Ok new,  m l = s,  R new s *)
  Notation holds := (holds L S eqb trans join pred).
  Notation eqn_ok := (eqn_ok L S eqb trans join cmp pred).        (* R new s := cmp new s = Some Eq *)
  Notation eqn_forced := (eqn_forced L S eqb trans join cmp pred). (* ... \/ exists old, join new old = Ok s *)
  Notation nonmono_at := (nonmono_at L S eqb trans join cmp pred).
  Notation Below := (Below L S eqb cmp).

  (* the accessors are total on the locations reachable from the start, and converse there (C18) *)
  Hypothesis from_ok : forall l, reach l -> join_from l = Ok (pred l).
  Hypothesis to_ok : forall l, reach l -> push_to l = Ok (succ l).
  Hypothesis converse : forall a b, reach a -> reach b -> (In b (succ a) <-> In a (pred b)).

  (* ---- 1. whatever is returned is a solution on exactly the reachable locations; no monotonicity ---- *)
  Theorem fp_solution : (forall s, cmp s s = Some Eq) -> forall fuel max m,
    run fuel false max 0 [] [entry] = Done m ->
    (forall l, In_dom m l <-> reach l) /\ (forall l, In_dom m l -> eqn_ok m l).
  Proof. exact (FixedPointProofs.fp_solution L S eqb eqb_spec join_from push_to trans join cmp succ pred entry from_ok to_ok converse). Qed.

  Theorem fp_solution_backward : (forall s, cmp s s = Some Eq) -> forall fuel m,
    run_nobudget fuel false [] [entry] = Done m ->
    (forall l, In_dom m l <-> reach l) /\ (forall l, In_dom m l -> eqn_ok m l).
  Proof. exact (FixedPointProofs.fp_solution_nobudget L S eqb eqb_spec join_from push_to trans join cmp succ pred entry from_ok to_ok converse). Qed.

  (* force = true: same domain; each state is the transfer result or a join of it with another state,
     hence (join an upper bound) a post-fixpoint *)
  Theorem fp_forced : (forall s, cmp s s = Some Eq) -> forall fuel force max m,
    run fuel force max 0 [] [entry] = Done m ->
    (forall l, In_dom m l <-> reach l) /\ (forall l, In_dom m l -> eqn_forced m l).
  Proof. exact (FixedPointProofs.fp_forced L S eqb eqb_spec join_from push_to trans join cmp succ pred entry from_ok to_ok converse). Qed.

  Theorem fp_forced_backward : (forall s, cmp s s = Some Eq) -> forall fuel force m,
    run_nobudget fuel force [] [entry] = Done m ->
    (forall l, In_dom m l <-> reach l) /\ (forall l, In_dom m l -> eqn_forced m l).
  Proof. exact (FixedPointProofs.fp_forced_nobudget L S eqb eqb_spec join_from push_to trans join cmp succ pred entry from_ok to_ok converse). Qed.

  Theorem fp_forced_postfix : (forall s, cmp s s = Some Eq) -> forall fuel force max m,
    (forall a b j, join a b = Ok j -> le a j) ->
    run fuel force max 0 [] [entry] = Done m -> forall l, In_dom m l -> holds le m l.
  Proof. exact (FixedPointProofs.fp_forced_postfix L S eqb eqb_spec join_from push_to trans join cmp succ pred entry from_ok to_ok converse). Qed.

  Theorem fp_forced_postfix_backward : (forall s, cmp s s = Some Eq) -> forall fuel force m,
    (forall a b j, join a b = Ok j -> le a j) ->
    run_nobudget fuel force [] [entry] = Done m -> forall l, In_dom m l -> holds le m l.
  Proof. exact (FixedPointProofs.fp_forced_postfix_nobudget L S eqb eqb_spec join_from push_to trans join cmp succ pred entry from_ok to_ok converse). Qed.

  (* ---- 2. leastness: below every post-fixpoint (a fortiori every solution) m' ---- *)
  Theorem fp_least :
    (forall a b c, le a b -> le b c -> le a c) ->
    (forall a b j, join a b = Ok j -> le a j /\ le b j /\ (forall c, le a c -> le b c -> le j c)) ->
    (forall l x y a b, reach l -> (x = None -> l = entry) -> ole x y -> trans l x = Ok a -> trans l y = Ok b -> le a b) ->
    forall m', (forall l, reach l -> holds le m' l) ->
    forall fuel force max m, run fuel force max 0 [] [entry] = Done m ->
    forall l s, lookup m l = Some s -> exists s', lookup m' l = Some s' /\ le s s'.
  Proof. exact (FixedPointProofs.fp_least L S eqb eqb_spec join_from push_to trans join cmp succ pred entry from_ok to_ok converse). Qed.

  Theorem fp_least_backward :
    (forall a b c, le a b -> le b c -> le a c) ->
    (forall a b j, join a b = Ok j -> le a j /\ le b j /\ (forall c, le a c -> le b c -> le j c)) ->
    (forall l x y a b, reach l -> (x = None -> l = entry) -> ole x y -> trans l x = Ok a -> trans l y = Ok b -> le a b) ->
    forall m', (forall l, reach l -> holds le m' l) ->
    forall fuel force m, run_nobudget fuel force [] [entry] = Done m ->
    forall l s, lookup m l = Some s -> exists s', lookup m' l = Some s' /\ le s s'.
  Proof. exact (FixedPointProofs.fp_least_nobudget L S eqb eqb_spec join_from push_to trans join cmp succ pred entry from_ok to_ok converse). Qed.

  (* the absent input is presented to trans only at the start location *)
  Theorem none_only_at_entry : forall force k m l q',
    nsteps force k [] [entry] m (l :: q') -> join_neighbours m (pred l) = Ok None -> l = entry.
  Proof. exact (FixedPointProofs.none_only_at_entry L S eqb eqb_spec join_from push_to trans join cmp succ pred entry to_ok converse). Qed.

  (* ---- 3. termination and the step budget ---- *)
  (* [term force m q n o]: the loop without budget, started in (m, q), stops after exactly n pops with o;
     [nsteps force k m q m2 q2]: k pops succeed and lead to (m2, q2) *)
  Theorem fp_terminates : forall force (rank : S -> nat) h,
    (forall s, rank s <= h) -> (forall a b, cmp a b = Some Gt -> rank b < rank a) ->
    (force = true -> forall new old j, cmp new old <> Some Eq -> join new old = Ok j -> rank old < rank j) ->
    forall U, NoDup U -> (forall l, reach l -> In l U) ->
    forall d, (forall l, reach l -> length (succ l) <= d) ->
    exists n o, n <= 1 + d * (length U * Datatypes.S h) /\ term force [] [entry] n o.
  Proof. exact (FixedPointProofs.fp_terminates L S eqb eqb_spec join_from push_to trans join cmp succ entry to_ok). Qed.

  Theorem fp_terminates_backward : forall force (rank : S -> nat) h,
    (forall s, rank s <= h) -> (forall a b, cmp a b = Some Gt -> rank b < rank a) ->
    (force = true -> forall new old j, cmp new old <> Some Eq -> join new old = Ok j -> rank old < rank j) ->
    forall U, NoDup U -> (forall l, reach l -> In l U) ->
    forall d, (forall l, reach l -> length (succ l) <= d) ->
    forall fuel, 1 + d * (length U * Datatypes.S h) < fuel -> run_nobudget fuel force [] [entry] <> OutOfFuel.
  Proof. exact (FixedPointProofs.fp_terminates_nobudget L S eqb eqb_spec join_from push_to trans join cmp succ entry to_ok). Qed.

  Theorem fp_budget_suffices : forall force (rank : S -> nat) h,
    (forall s, rank s <= h) -> (forall a b, cmp a b = Some Gt -> rank b < rank a) ->
    (force = true -> forall new old j, cmp new old <> Some Eq -> join new old = Ok j -> rank old < rank j) ->
    forall U, NoDup U -> (forall l, reach l -> In l U) ->
    forall d, (forall l, reach l -> length (succ l) <= d) ->
    forall max, 1 + d * (length U * Datatypes.S h) <= Datatypes.S max ->
    exists n o, term force [] [entry] n o /\ run (Datatypes.S (Datatypes.S max)) force max 0 [] [entry] = o.
  Proof. exact (FixedPointProofs.fp_budget_suffices L S eqb eqb_spec join_from push_to trans join cmp succ entry to_ok). Qed.

  Theorem fp_no_maxsteps : forall force (rank : S -> nat) h,
    (forall s, rank s <= h) -> (forall a b, cmp a b = Some Gt -> rank b < rank a) ->
    (force = true -> forall new old j, cmp new old <> Some Eq -> join new old = Ok j -> rank old < rank j) ->
    forall U, NoDup U -> (forall l, reach l -> In l U) ->
    forall d, (forall l, reach l -> length (succ l) <= d) ->
    forall max, (forall l st, trans l st <> Err EMaxSteps) -> (forall a b, join a b <> Err EMaxSteps) ->
    1 + d * (length U * Datatypes.S h) <= Datatypes.S max ->
    run (Datatypes.S (Datatypes.S max)) force max 0 [] [entry] <> Fail EMaxSteps.
  Proof. exact (FixedPointProofs.fp_no_maxsteps L S eqb eqb_spec join_from push_to trans join cmp succ pred entry from_ok to_ok). Qed.

  (* the budget, exactly: with the fuel Flow/FpIL.v supplies (max+2), (a) stopping within max+1 pops gives
     the unbudgeted outcome, (b) a pop number max+2 being needed gives MaxSteps, (c) one of the two applies *)
  Theorem fp_budget : forall force max m q,
    (forall n o, term force m q n o -> n <= Datatypes.S max -> run (Datatypes.S (Datatypes.S max)) force max 0 m q = o) /\
    (forall m2 l q2, nsteps force (Datatypes.S max) m q m2 (l :: q2) ->
        run (Datatypes.S (Datatypes.S max)) force max 0 m q = Fail EMaxSteps) /\
    ((exists n o, n <= Datatypes.S max /\ term force m q n o) \/
     (exists m2 l q2, nsteps force (Datatypes.S max) m q m2 (l :: q2))).
  Proof. exact (FixedPointProofs.fp_budget L S eqb join_from push_to trans join cmp). Qed.

  Theorem fp_maxsteps_iff : forall force max m q,
    run (Datatypes.S (Datatypes.S max)) force max 0 m q = Fail EMaxSteps <->
    (exists m2 l q2, nsteps force (Datatypes.S max) m q m2 (l :: q2)) \/
    (exists n, n <= Datatypes.S max /\ term force m q n (Fail EMaxSteps)).
  Proof. exact (FixedPointProofs.fp_maxsteps_iff L S eqb join_from push_to trans join cmp). Qed.

  Theorem run_never_out_of_fuel : forall fuel force max steps m q,
    max + 2 <= fuel + steps -> steps <= Datatypes.S max -> run fuel force max steps m q <> OutOfFuel.
  Proof. exact (FixedPointProofs.run_never_out_of_fuel L S eqb join_from push_to trans join cmp). Qed.

  (* ---- 4. a non-ascending step is an error, never an answer ---- *)
  (* nonmono_at m l : trans l (join of preds) = new, m l = old, and partial_cmp new old is Less or None *)
  Theorem fp_error_not_unsound : forall k m l q' max,
    nsteps false k [] [entry] m (l :: q') -> nonmono_at m l ->
    run (Datatypes.S (Datatypes.S max)) false max 0 [] [entry] = (if k <=? max then Fail EOrdering else Fail EMaxSteps) /\
    (forall fuel max' m', run fuel false max' 0 [] [entry] <> Done m').
  Proof. exact (FixedPointProofs.fp_error_not_unsound L S eqb eqb_spec join_from push_to trans join cmp succ pred entry from_ok to_ok). Qed.

  Theorem fp_error_not_unsound_backward : forall k m l q',
    nsteps false k [] [entry] m (l :: q') -> nonmono_at m l ->
    forall fuel, run_nobudget fuel false [] [entry] = (if k <? fuel then Fail EOrdering else OutOfFuel).
  Proof. exact (FixedPointProofs.fp_error_not_unsound_nobudget L S eqb eqb_spec join_from push_to trans join cmp succ pred entry from_ok to_ok). Qed.

  Theorem fp_ordering_origin : forall n,
    (forall l st, trans l st <> Err EOrdering) ->
    term false [] [entry] n (Fail EOrdering) ->
    exists k m l q', n = Datatypes.S k /\ nsteps false k [] [entry] m (l :: q') /\ nonmono_at m l.
  Proof. exact (FixedPointProofs.fp_ordering_origin L S eqb eqb_spec join_from push_to trans join cmp succ pred entry from_ok to_ok). Qed.
  (* ---- 5. monotone analysis over a finite-height lattice: the engines terminate with a map ---- *)
  Section Monotone.
    Hypothesis cmp_refl : forall s, cmp s s = Some Eq.
    Hypothesis le_trans : forall a b c, le a b -> le b c -> le a c.
    Hypothesis join_lub : forall a b j, join a b = Ok j -> le a j /\ le b j /\ (forall c, le a c -> le b c -> le j c).
    Hypothesis trans_mono : forall l x y a b, reach l -> (x = None -> l = entry) -> ole x y ->
      trans l x = Ok a -> trans l y = Ok b -> le a b.
    Hypothesis cmp_ge : forall a b, le b a -> cmp a b = Some Gt \/ cmp a b = Some Eq.
    Hypothesis join_total : forall a b, exists j, join a b = Ok j.
    Hypothesis trans_total : forall l st, reach l -> (st = None -> l = entry) -> exists s, trans l st = Ok s.

    Theorem fp_monotone_no_error : forall n o, term false [] [entry] n o -> exists m, o = Done m.
    Proof. exact (FixedPointProofs.fp_monotone_no_error L S eqb eqb_spec join_from push_to trans join cmp succ pred entry from_ok to_ok converse
                    cmp_refl le_trans join_lub trans_mono cmp_ge join_total trans_total). Qed.

    Theorem fp_complete : forall (rank : S -> nat) h U d max,
      (forall s, rank s <= h) -> (forall a b, cmp a b = Some Gt -> rank b < rank a) ->
      NoDup U -> (forall l, reach l -> In l U) -> (forall l, reach l -> length (succ l) <= d) ->
      1 + d * (length U * Datatypes.S h) <= Datatypes.S max ->
      exists m, run (Datatypes.S (Datatypes.S max)) false max 0 [] [entry] = Done m.
    Proof. exact (FixedPointProofs.fp_complete L S eqb eqb_spec join_from push_to trans join cmp succ pred entry from_ok to_ok converse
                    cmp_refl le_trans join_lub trans_mono cmp_ge join_total trans_total). Qed.

    Theorem fp_complete_backward : forall (rank : S -> nat) h U d fuel,
      (forall s, rank s <= h) -> (forall a b, cmp a b = Some Gt -> rank b < rank a) ->
      NoDup U -> (forall l, reach l -> In l U) -> (forall l, reach l -> length (succ l) <= d) ->
      1 + d * (length U * Datatypes.S h) < fuel ->
      exists m, run_nobudget fuel false [] [entry] = Done m.
    Proof. exact (FixedPointProofs.fp_complete_nobudget L S eqb eqb_spec join_from push_to trans join cmp succ pred entry from_ok to_ok converse
                    cmp_refl le_trans join_lub trans_mono cmp_ge join_total trans_total). Qed.
  End Monotone.
  (* ---- 5'. the same, with the lattice hypotheses required only on a set [good] of states closed under
          trans and join (clients whose transfer function is partial / whose order is only well-behaved
          on the states that arise) ---- *)
  Section Relative.
    Variable good : S -> Prop.
    Notation ogood := (ogood S good).     (* ogood x := forall s, x = Some s -> good s *)
    Notation Good := (Good L S eqb good). (* every state stored in the map is good *)
    Hypothesis good_trans : forall l st a, reach l -> (st = None -> l = entry) -> ogood st -> trans l st = Ok a -> good a.
    Hypothesis good_join : forall a b j, good a -> good b -> join a b = Ok j -> good j.
    Hypothesis le_trans : forall a b c, good a -> good b -> good c -> le a b -> le b c -> le a c.
    Hypothesis join_lub : forall a b j, good a -> good b -> join a b = Ok j ->
      le a j /\ le b j /\ (forall c, good c -> le a c -> le b c -> le j c).
    Hypothesis trans_mono : forall l x y a b, reach l -> (x = None -> l = entry) -> ogood x -> ogood y -> ole x y ->
      trans l x = Ok a -> trans l y = Ok b -> le a b.

    Theorem fp_good : forall fuel force max m, run fuel force max 0 [] [entry] = Done m -> Good m.
    Proof. exact (FixedPointProofs.fp_good L S eqb eqb_spec join_from push_to trans join cmp succ pred entry from_ok to_ok converse
                    good good_trans good_join). Qed.

    Theorem fp_least_rel : forall m', Good m' -> (forall l, reach l -> holds le m' l) ->
      forall fuel force max m, run fuel force max 0 [] [entry] = Done m ->
      forall l s, lookup m l = Some s -> exists s', lookup m' l = Some s' /\ le s s'.
    Proof. exact (FixedPointProofs.fp_least_rel L S eqb eqb_spec join_from push_to trans join cmp succ pred entry from_ok to_ok converse
                    good good_trans good_join le_trans join_lub trans_mono). Qed.

    (* finite height required on good states only (clients whose state type is unbounded) *)
    Theorem fp_terminates_rel : forall (rank : S -> nat) h,
      (forall s, good s -> rank s <= h) -> (forall a b, good a -> good b -> cmp a b = Some Gt -> rank b < rank a) ->
      forall U, NoDup U -> (forall l, reach l -> In l U) ->
      forall d, (forall l, reach l -> length (succ l) <= d) ->
      exists n o, n <= 1 + d * (length U * Datatypes.S h) /\ term false [] [entry] n o.
    Proof. exact (FixedPointProofs.fp_terminates_rel L S eqb eqb_spec join_from push_to trans join cmp succ pred entry from_ok to_ok converse
                    good good_trans good_join). Qed.

    Theorem fp_budget_suffices_rel : forall (rank : S -> nat) h,
      (forall s, good s -> rank s <= h) -> (forall a b, good a -> good b -> cmp a b = Some Gt -> rank b < rank a) ->
      forall U, NoDup U -> (forall l, reach l -> In l U) ->
      forall d, (forall l, reach l -> length (succ l) <= d) ->
      forall max, 1 + d * (length U * Datatypes.S h) <= Datatypes.S max ->
      exists n o, term false [] [entry] n o /\ run (Datatypes.S (Datatypes.S max)) false max 0 [] [entry] = o.
    Proof. exact (FixedPointProofs.fp_budget_suffices_rel L S eqb eqb_spec join_from push_to trans join cmp succ pred entry from_ok to_ok converse
                    good good_trans good_join). Qed.

    Hypothesis cmp_refl : forall s, cmp s s = Some Eq.
    Hypothesis cmp_ge : forall a b, good a -> good b -> le b a -> cmp a b = Some Gt \/ cmp a b = Some Eq.
    Hypothesis join_total : forall a b, good a -> good b -> exists j, join a b = Ok j.
    Hypothesis trans_total : forall l st, reach l -> (st = None -> l = entry) -> ogood st -> exists s, trans l st = Ok s.

    Theorem fp_monotone_no_error_rel : forall n o, term false [] [entry] n o -> exists m, o = Done m.
    Proof. exact (FixedPointProofs.fp_monotone_no_error_rel L S eqb eqb_spec join_from push_to trans join cmp succ pred entry from_ok to_ok converse
                    cmp_refl good good_trans good_join le_trans join_lub trans_mono cmp_ge join_total trans_total). Qed.

    Theorem fp_complete_rel : forall (rank : S -> nat) h U d max,
      (forall s, rank s <= h) -> (forall a b, cmp a b = Some Gt -> rank b < rank a) ->
      NoDup U -> (forall l, reach l -> In l U) -> (forall l, reach l -> length (succ l) <= d) ->
      1 + d * (length U * Datatypes.S h) <= Datatypes.S max ->
      exists m, run (Datatypes.S (Datatypes.S max)) false max 0 [] [entry] = Done m.
    Proof. exact (FixedPointProofs.fp_complete_rel L S eqb eqb_spec join_from push_to trans join cmp succ pred entry from_ok to_ok converse
                    cmp_refl good good_trans good_join le_trans join_lub trans_mono cmp_ge join_total trans_total). Qed.
  End Relative.
End C09.

Print Assumptions fp_solution.
Print Assumptions fp_solution_backward.
Print Assumptions fp_forced.
Print Assumptions fp_forced_backward.
Print Assumptions fp_forced_postfix.
Print Assumptions fp_forced_postfix_backward.
Print Assumptions fp_least.
Print Assumptions fp_least_backward.
Print Assumptions none_only_at_entry.
Print Assumptions fp_terminates.
Print Assumptions fp_terminates_backward.
Print Assumptions fp_budget_suffices.
Print Assumptions fp_no_maxsteps.
Print Assumptions fp_budget.
Print Assumptions fp_maxsteps_iff.
Print Assumptions run_never_out_of_fuel.
Print Assumptions fp_error_not_unsound.
Print Assumptions fp_error_not_unsound_backward.
Print Assumptions fp_ordering_origin.
Print Assumptions fp_monotone_no_error.
Print Assumptions fp_complete.
Print Assumptions fp_complete_backward.
Print Assumptions fp_good.
Print Assumptions fp_least_rel.
Print Assumptions fp_monotone_no_error_rel.
Print Assumptions fp_complete_rel.
Print Assumptions fp_terminates_rel.
Print Assumptions fp_budget_suffices_rel.

(* the hypotheses are jointly satisfiable: entry on a cycle, a self-loop, counter lattice of height 3 --
   every hypothesis of fp_complete (hence of all theorems above) is discharged for this instance *)
Example c09_example_complete :
  exists m, FixedPoint.run bool nat Bool.eqb (fun l => Ok (xpred l)) (fun l => Ok (xsucc l)) xtrans xjoin xcmp 20 false 18 0 [] [true] = Done m.
Proof. exact C09Example.c09_example_complete. Qed.
Example c09_example_value :
  FixedPoint.run bool nat Bool.eqb (fun l => Ok (xpred l)) (fun l => Ok (xsucc l)) xtrans xjoin xcmp 20 false 18 0 [] [true]
  = Done [(true, 3); (false, 3)].
Proof. exact C09Example.c09_example_value. Qed.

(* ---- 6. on IL functions (Flow/FpIL.v = fixed_point_forward_options / fixed_point_backward_options on
        il::Function), with C18's location lemmas discharging the location hypotheses; cfg_inv is C15's
        invariant of control-flow graphs ---- *)
Theorem fp_forward_solution : forall S f, cfg_inv (f_cfg f) = true -> forall trans join cmp max m, (forall s, cmp s s = Some Eq) ->
  fp_forward S f trans join cmp false max = Ok m ->
  exists e b, g_entry (f_cfg f) = Some e /\ f_block f e = Ok b /\
    (forall l, dom S m l <-> reach floc (succ_f f) (block_first_loc b) l) /\
    (forall l, dom S m l -> eqn_ok floc S floc_eqb trans join cmp (pred_f f) m l).
Proof. exact FpILProofs.fp_forward_solution. Qed.
Print Assumptions fp_forward_solution.

Theorem fp_backward_solution : forall S f, cfg_inv (f_cfg f) = true -> forall trans join cmp fuel m, (forall s, cmp s s = Some Eq) ->
  fp_backward S f trans join cmp fuel false = Ok m ->
  exists e b, g_exit (f_cfg f) = Some e /\ f_block f e = Ok b /\
    (forall l, dom S m l <-> reach floc (pred_f f) (block_last_loc b) l) /\
    (forall l, dom S m l -> eqn_ok floc S floc_eqb trans join cmp (succ_f f) m l).
Proof. exact FpILProofs.fp_backward_solution. Qed.
Print Assumptions fp_backward_solution.

(* the location hypotheses (from_ok, to_ok, converse) of every theorem above hold for IL functions *)
Theorem il_location_hyps_forward : forall f, cfg_inv (f_cfg f) = true -> forall en, valid_loc f en = true ->
  (forall l, reach floc (succ_f f) en l -> backward f l = Ok (pred_f f l)) /\
  (forall l, reach floc (succ_f f) en l -> forward f l = Ok (succ_f f l)) /\
  (forall a b, reach floc (succ_f f) en a -> reach floc (succ_f f) en b -> (In b (succ_f f a) <-> In a (pred_f f b))).
Proof. exact FpILProofs.il_location_hyps_forward. Qed.
Print Assumptions il_location_hyps_forward.

Theorem il_location_hyps_backward : forall f, cfg_inv (f_cfg f) = true -> forall en, valid_loc f en = true ->
  (forall l, reach floc (pred_f f) en l -> forward f l = Ok (succ_f f l)) /\
  (forall l, reach floc (pred_f f) en l -> backward f l = Ok (pred_f f l)) /\
  (forall a b, reach floc (pred_f f) en a -> reach floc (pred_f f) en b -> (In b (pred_f f a) <-> In a (succ_f f b))).
Proof. exact FpILProofs.il_location_hyps_backward. Qed.
Print Assumptions il_location_hyps_backward.

Theorem fp_forward_budget : forall S f, cfg_inv (f_cfg f) = true -> forall trans join cmp (rank : S -> nat) h d max,
  (forall s, rank s <= h) -> (forall a b, cmp a b = Some Gt -> rank b < rank a) ->
  (forall l, valid_loc f l = true -> length (succ_f f l) <= d) ->
  (forall l st, trans l st <> Err EMaxSteps) -> (forall a b, join a b <> Err EMaxSteps) ->
  1 + d * (length (locations f) * Datatypes.S h) <= Datatypes.S max ->
  fp_forward S f trans join cmp false max <> Err EMaxSteps.
Proof. exact FpILProofs.fp_forward_budget. Qed.
Print Assumptions fp_forward_budget.

Theorem fp_backward_terminates : forall S f, cfg_inv (f_cfg f) = true -> forall trans join cmp (rank : S -> nat) h d fuel e b,
  (forall s, rank s <= h) -> (forall a b, cmp a b = Some Gt -> rank b < rank a) ->
  (forall l, valid_loc f l = true -> length (pred_f f l) <= d) ->
  1 + d * (length (locations f) * Datatypes.S h) < fuel ->
  g_exit (f_cfg f) = Some e -> f_block f e = Ok b ->
  run_nobudget floc S floc_eqb (forward f) (backward f) trans join cmp fuel false [] [block_last_loc b] <> OutOfFuel.
Proof. exact FpILProofs.fp_backward_terminates. Qed.
Print Assumptions fp_backward_terminates.
