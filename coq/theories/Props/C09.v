(* Props/C09.v -- property theorems only *)
From Coq Require Import List Bool Arith.
From Falcon Require Import Base.Res Flow.FixedPoint Flow.FixedPointProofs.
Import ListNotations.
