(* Props/C16.v -- property theorems only *)
From Coq Require Import ZArith List.
From Falcon Require Import Base.Res IL.Const Mem.Backing Mem.BackingSpec.
