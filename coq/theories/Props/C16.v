(* Props/C16.v -- property theorems only.
   Model: Mem/Backing.v (lib/memory/backing.rs after the repairs of notes/C16.md), specification:
   Mem/BackingSpec.v, proofs: Mem/BackingProofs.v.  P is the permission payload (any type).

   wf 0 s        : representation invariant (keys increasing, sections non-empty, consecutive sections
                   do not overlap, every exclusive end at most 2^64)
   abs s         : the partial map address -> (byte, permissions) a section list denotes
   region_ok a d : the written region does not wrap the address space (0 <= a, a + |d| <= 2^64;
                   the last byte of the address space may be written)
   run_writes    : a sequence of set_memory calls; run_ops: set_memory / set32 histories
   write_all     : last-writer-wins map of a sequence of region writes (specification) *)
From Coq Require Import ZArith List.
From Falcon Require Import Base.Res IL.Const Mem.Backing Mem.BackingSpec Mem.BackingProofs Mem.BackingRegions.
Import ListNotations.
Local Open Scope Z_scope.

(* [U] after every history of region writes (not wrapping) and 32-bit writes that did not panic,
   the stored sections are sorted, pairwise non-overlapping and non-empty *)
Theorem sections_disjoint : forall (P : Type) (be : bool) (ops : list (@hop P)) (s : sections P),
  Forall hop_ok ops -> run_ops be [] ops = Ok s ->
  wf 0 s /\ ForallOrdPairs no_overlap s /\ Forall (fun y => 0 < len (fst (snd y))) s.
Proof. exact @sections_disjoint_thm. Qed.
Print Assumptions sections_disjoint.

(* [U] one region write of any overlap shape (left, right, inside, covering, disjoint, adjacent, empty):
   never panics, keeps the invariant, and denotes `overwrite` *)
Theorem abs_set_memory_step : forall (P : Type) (s : sections P) (a : Z) (d : list Z) (p : P),
  wf 0 s -> 0 <= a -> a + len d <= U64 ->
  exists s', set_memory s a d p = Ok s' /\ wf 0 s' /\ forall x, abs s' x = overwrite (abs s) a d p x.
Proof. exact @set_memory_spec. Qed.
Print Assumptions abs_set_memory_step.

(* [U] every sequence of region writes from the empty memory denotes the last-writer-wins map *)
Theorem abs_set_memory : forall (P : Type) (ws : list (Z * list Z * P)),
  Forall (fun w => region_ok (fst (fst w)) (snd (fst w))) ws ->
  exists s, run_writes [] ws = Ok s /\ wf 0 s /\ forall x, abs s x = write_all empty_map ws x.
Proof. exact @abs_set_memory_thm. Qed.
Print Assumptions abs_set_memory.

(* [U] byte and permission reads are the pointwise reads of the denoted map (never Panic) *)
Theorem get8_spec : forall (P : Type) (s : sections P) (x : Z),
  wf 0 s -> get8 s x = Ok (read8 (abs s) x).
Proof. exact @get8_spec. Qed.
Print Assumptions get8_spec.

Theorem permissions_spec : forall (P : Type) (s : sections P) (x : Z),
  wf 0 s -> permissions s x = Ok (tag_at (abs s) x).
Proof. exact @permissions_spec. Qed.
Print Assumptions permissions_spec.

(* [U] arbitrary-width reads: the bytes at x .. x + bits/8 - 1 of the denoted map -- whichever sections
   hold them -- assembled in the memory's endianness; None exactly when one of them is unmapped; never Panic *)
Theorem get_spec : forall (P : Type) (be : bool) (s : sections P) (x bits : Z),
  wf 0 s -> bits mod 8 = 0 -> 0 < bits -> get be s x bits = Ok (read be (abs s) x bits).
Proof. exact @get_spec. Qed.
Print Assumptions get_spec.

(* [U] 32-bit reads: inside one stored section the four bytes in the memory's endianness, otherwise None *)
Theorem get32_spec : forall (P : Type) (be : bool) (s : sections P) (x : Z), wf 0 s ->
  match find_sec s x with
  | Some (a, (d, _)) =>
      if x + 4 <=? a + len d
      then exists v, read32 be (abs s) x = Some v /\ get32 be s x = Ok (Some v)
      else get32 be s x = Ok None
  | None => get32 be s x = Ok None
  end.
Proof. exact @get32_spec_thm. Qed.
Print Assumptions get32_spec.

(* [U] 32-bit writes: inside one stored section exactly the four bytes change (write32 keeps every other
   cell and every permission), the layout (addresses, lengths, permissions) is unchanged; a mapped start
   with fewer than four bytes left is refused, an unmapped start panics (as written in the code) *)
Theorem set32_spec : forall (P : Type) (be : bool) (s : sections P) (x v : Z), wf 0 s ->
  match find_sec s x with
  | Some (a, (d, _)) =>
      if x + 4 <=? a + len d
      then exists s', set32 be s x v = Ok s' /\ wf 0 s' /\
                      (forall y, abs s' y = write32 be (abs s) x v y) /\
                      map (fun kv => (fst kv, len (fst (snd kv)), snd (snd kv))) s' =
                      map (fun kv => (fst kv, len (fst (snd kv)), snd (snd kv))) s
      else set32 be s x v = Err ECustom
  | None => set32 be s x v = Panic
  end.
Proof. exact @set32_spec_thm. Qed.
Print Assumptions set32_spec.

(* [U] "region" as the property means it -- the visible part of one region write: run the history with every
   write tagged by its index (the code never inspects the payload; erasing the tags, pmap fst, gives the real
   run).  Whenever four consecutive addresses show the same region write, get32 returns their bytes in the
   memory's endianness and set32 replaces exactly them (write32 keeps every other cell, permission and writer) *)
Theorem region_access : forall (P : Type) (be : bool) (ops : list (@hop P)) (s : sections (P * nat)) (x : Z),
  Forall hop_ok ops -> run_ops be [] (tag_ops 0 ops) = Ok s -> same_write (abs s) x ->
  run_ops be [] ops = Ok (pmap fst s) /\
  (exists v, read32 be (abs s) x = Some v /\ get32 be (pmap fst s) x = Ok (Some v)) /\
  (forall v, exists s', set32 be s x v = Ok s' /\ set32 be (pmap fst s) x v = Ok (pmap fst s') /\
                        wf 0 s' /\ forall y, abs s' y = write32 be (abs s) x v y).
Proof. exact @region_access_thm. Qed.
Print Assumptions region_access.

(* find_sec s x is the stored section covering x *)
Theorem find_sec_is_cover : forall (P : Type) (s : sections P) (x : Z), wf 0 s ->
  match find_sec s x with
  | Some (a, (d, p)) => In (a, (d, p)) s /\ a <= x < a + len d
  | None => forall a d p, In (a, (d, p)) s -> ~ (a <= x < a + len d)
  end.
Proof. exact @find_sec_spec. Qed.
Print Assumptions find_sec_is_cover.

(* [U] an address no region of the history covers is unmapped *)
Theorem never_covered_unmapped : forall (P : Type) (ws : list (Z * list Z * P)) (x : Z),
  Forall (fun w => region_ok (fst (fst w)) (snd (fst w))) ws ->
  Forall (fun w => ~ covers w x) ws ->
  exists s, run_writes [] ws = Ok s /\ get8 s x = Ok None /\ permissions s x = Ok None.
Proof. exact @never_covered_thm. Qed.
Print Assumptions never_covered_unmapped.

(* the hypotheses are satisfiable and the statements are not vacuous: a nested write splits a section *)
Example split_example :
  run_writes [] [(16, [1; 2; 3; 4], 5); (18, [9], 7)] = Ok [(16, ([1; 2], 5)); (18, ([9], 7)); (19, ([4], 5))]
  /\ get true [(16, ([1; 2], 5)); (18, ([9], 7)); (19, ([4], 5))] 17 24 = Ok (Some (mkc 24 133380))
  /\ get false [(16, ([1; 2], 5)); (18, ([9], 7)); (19, ([4], 5))] 17 32 = Ok None.
Proof. vm_compute. repeat split; reflexivity. Qed.

(* a region may end exactly at 2^64: the last byte of the address space is readable, a wide read that would
   leave the address space is absent, not a panic *)
Example top_example :
  run_writes [] [(18446744073709551612, [1; 2; 3; 4], 5)] = Ok [(18446744073709551612, ([1; 2; 3; 4], 5))]
  /\ get8 [(18446744073709551612, ([1; 2; 3; 4], 5))] 18446744073709551615 = Ok (Some 4)
  /\ get false [(18446744073709551612, ([1; 2; 3; 4], 5))] 18446744073709551614 32 = Ok None
  /\ get32 true [(18446744073709551612, ([1; 2; 3; 4], 5))] 18446744073709551612 = Ok (Some 16909060).
Proof. vm_compute. repeat split; reflexivity. Qed.
