(* Props/C18.v -- property theorems only (proofs in IL/LocProofs.v) *)
From Coq Require Import ZArith List.
From Falcon Require Import Graph.NMap Graph.Graph Graph.GraphInv Graph.Algo.
From Falcon Require Import Base.Res IL.Const IL.Expr IL.Func IL.Loc IL.LocProofs Cfg.CfgOps Cfg.Refine Cfg.ReachLink.
Import ListNotations.
Local Open Scope Z_scope.

(* 0. forward / backward are exactly the one-step relation [step] of the static structure *)
Theorem forward_spec : forall f, cfg_inv (f_cfg f) = true -> forall a b, valid_loc f a = true ->
  ((exists l, forward f a = Ok l /\ In b l) <-> step f a b).
Proof. exact LocProofs.forward_spec. Qed.
Print Assumptions forward_spec.

Theorem backward_spec : forall f, cfg_inv (f_cfg f) = true -> forall a b, valid_loc f b = true ->
  ((exists l, backward f b = Ok l /\ In a l) <-> step f a b).
Proof. exact LocProofs.backward_spec. Qed.
Print Assumptions backward_spec.

(* 1. stepping forward and backward are converse relations *)
Theorem fwd_bwd_converse : forall f, cfg_inv (f_cfg f) = true -> forall a b,
  valid_loc f a = true -> valid_loc f b = true ->
  ((exists l, forward f a = Ok l /\ In b l) <-> (exists l, backward f b = Ok l /\ In a l)).
Proof. exact LocProofs.fwd_bwd_converse. Qed.
Print Assumptions fwd_bwd_converse.

(* ... total on valid locations and closed in them *)
Theorem forward_total : forall f, cfg_inv (f_cfg f) = true -> forall a, valid_loc f a = true ->
  exists l, forward f a = Ok l /\ forall b, In b l -> valid_loc f b = true.
Proof. exact LocProofs.forward_total. Qed.
Print Assumptions forward_total.

Theorem backward_total : forall f, cfg_inv (f_cfg f) = true -> forall b, valid_loc f b = true ->
  exists l, backward f b = Ok l /\ forall a, In a l -> valid_loc f a = true.
Proof. exact LocProofs.backward_total. Qed.
Print Assumptions backward_total.

(* 2. every instruction, empty block and edge is enumerated, nothing else, each exactly once *)
Theorem locations_complete : forall f l,
  In l (locations f) <->
  (exists b i, In b (f_blocks f) /\ In i (b_instrs b) /\ l = LInstr (b_index b) (i_index i))
  \/ (exists b, In b (f_blocks f) /\ b_instrs b = [] /\ l = LEmpty (b_index b))
  \/ (exists e, In e (f_edges f) /\ l = LEdge (e_head e) (e_tail e)).
Proof. exact LocProofs.locations_complete. Qed.
Print Assumptions locations_complete.

Theorem locations_nodup : forall f, cfg_inv (f_cfg f) = true -> NoDup (locations f).
Proof. exact LocProofs.locations_nodup. Qed.
Print Assumptions locations_nodup.

Theorem locations_valid : forall f l, cfg_inv (f_cfg f) = true -> (In l (locations f) <-> valid_loc f l = true).
Proof. exact LocProofs.locations_valid. Qed.
Print Assumptions locations_valid.

(* 3. closure of the entry location under forward = locations on paths from the entry block *)
Theorem forward_closure_eq_paths : forall f, cfg_inv (f_cfg f) = true -> forall l,
  fclosure f l <-> (valid_loc f l = true /\ on_entry_path f l).
Proof. exact LocProofs.forward_closure_eq_paths. Qed.
Print Assumptions forward_closure_eq_paths.

(* 3'. ... and that reachability is the graph library's: for the four-map graph [c] of a
       ControlFlowGraph ([rel c]: C11's graph_inv + non-negative indices, which holds after every
       history of operations, ReachLink.history_erel) and a function over its static view, the closure
       of the entry location under forward = the locations of the blocks in
       Graph::reachable_vertices(entry) (proved correct against the textbook definition by C11) *)
Theorem forward_closure_eq_graph_reachable : forall c f en,
  rel c -> f_cfg f = to_static c -> cfg_inv (f_cfg f) = true -> e_entry c = Some en ->
  exists s, reachable_vertices (eg c) (zn en) = Ok s /\
            forall l, fclosure f l <-> (valid_loc f l = true /\ In (zn (loc_block l)) s).
Proof. exact ReachLink.forward_closure_eq_graph_reachable. Qed.
Print Assumptions forward_closure_eq_graph_reachable.

Theorem breach_graph_reachable : forall c, rel c -> forall en,
  e_entry c = Some en -> 0 <= en -> has_block (to_static c) en = true ->
  exists s, reachable_vertices (eg c) (zn en) = Ok s /\
            forall b, 0 <= b -> (breach (to_static c) b <-> In (zn b) s).
Proof. exact ReachLink.breach_graph_reachable. Qed.
Print Assumptions breach_graph_reachable.

(* 4. owned form, applied to the same or an equal program, is the identity *)
Theorem apply_from_id : forall p' fi f f' l,
  f_index f = Some fi -> valid_loc f l = true ->
  program_function p' fi = Some f' -> f_cfg f' = f_cfg f ->
  ploc_apply p' (ploc_of f l) = Ok (fi, l) /\ floc_apply f' l = Ok l.
Proof. exact LocProofs.apply_from_id. Qed.
Print Assumptions apply_from_id.

Theorem apply_from_id_same : forall p fi f l,
  prog_inv p = true -> In (fi, f) (p_funcs p) -> valid_loc f l = true ->
  ploc_apply p (ploc_of f l) = Ok (fi, l).
Proof. exact LocProofs.apply_from_id_same. Qed.
Print Assumptions apply_from_id_same.

Theorem migrate_id : forall p' fi f f' l,
  f_index f = Some fi -> valid_loc f l = true ->
  program_function p' fi = Some f' -> f_cfg f' = f_cfg f ->
  migrate p' f l = Ok (fi, l).
Proof. exact LocProofs.migrate_id. Qed.
Print Assumptions migrate_id.

(* 5. address look-up *)
Theorem from_address_complete : forall p a,
  (has_addr p a -> exists k l, from_address p a = Some (k, l)) /\
  (~ has_addr p a -> from_address p a = None).
Proof. exact LocProofs.from_address_complete. Qed.
Print Assumptions from_address_complete.

Theorem from_address_sound : forall p a k l,
  prog_inv p = true -> (forall k f, In (k, f) (p_funcs p) -> cfg_inv (f_cfg f) = true) ->
  from_address p a = Some (k, l) ->
  exists f i, program_function p k = Some f /\ valid_loc f l = true /\
              loc_instruction f l = Some i /\ i_addr i = Some a.
Proof. exact LocProofs.from_address_sound. Qed.
Print Assumptions from_address_sound.

(* the hypotheses are satisfiable: two blocks (one empty, with a self-loop), non-contiguous
   instruction indices, a duplicated address *)
Definition ex_nop i a := mkinstr i (ONop None) (Some a).
Definition ex_f : func :=
  mkfunc 100 (mkcfg [mkblock 0 4 [ex_nop 0 100; ex_nop 3 100] []; mkblock 1 0 [] []]
                    [mkedge 0 1 None; mkedge 1 1 None] 2 (Some 0) (Some 1)) (Some 0).
Example ex_hyps : cfg_inv (f_cfg ex_f) = true /\ prog_inv (mkprog [(0, ex_f)]) = true.
Proof. split; reflexivity. Qed.
Example ex_locations :
  locations ex_f = [LInstr 0 0; LInstr 0 3; LEmpty 1; LEdge 0 1; LEdge 1 1]
  /\ forward ex_f (LInstr 0 3) = Ok [LEdge 0 1] /\ backward ex_f (LEmpty 1) = Ok [LEdge 0 1; LEdge 1 1]
  /\ from_address (mkprog [(0, ex_f)]) 100 = Some (0, LInstr 0 0).
Proof. repeat split; reflexivity. Qed.
