(* Props/C18.v -- property theorems only *)
From Coq Require Import ZArith List.
From Falcon Require Import Base.Res IL.Func IL.Loc IL.LocProofs.
Import ListNotations.
Local Open Scope Z_scope.
