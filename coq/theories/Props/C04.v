(* Props/C04.v -- property theorems only *)
From Coq Require Import ZArith List.
Import ListNotations.
From Falcon Require Import Base.Res IL.Const IL.ConstSpec IL.Expr IL.ExprSpec IL.ConstProofs IL.ExprProofs IL.ConstCost IL.ConstCostProofs.
Local Open Scope Z_scope.

(* 1. every binary operator, every width: the model of Constant is the bit-vector specification
      (sp_bin encodes the DivideByZero cases) *)
Theorem c_bin_spec : forall o w a b, 1 <= w < 2 ^ 64 -> inr w a -> inr w b ->
  c_bin o (mkc w a) (mkc w b) = sp_bin o w a b.
Proof. exact ExprProofs.c_bin_spec. Qed.
Print Assumptions c_bin_spec.

(* the usize bound on the width is needed by the three shifts only *)
Theorem c_bin_spec_noshift : forall o w a b, is_shift o = false -> 1 <= w -> inr w a -> inr w b ->
  c_bin o (mkc w a) (mkc w b) = sp_bin o w a b.
Proof. exact ExprProofs.c_bin_spec_noshift. Qed.
Print Assumptions c_bin_spec_noshift.

(* 2. sort errors and extensions *)
Theorem c_bin_sort_error : forall o a b, cbits a <> cbits b -> c_bin o a b = Err ESort.
Proof. exact ExprProofs.c_bin_sort_error. Qed.
Print Assumptions c_bin_sort_error.

Theorem c_ext_spec : forall o bits w a, 1 <= w -> 1 <= bits -> inr w a ->
  c_ext o bits (mkc w a) = sp_ext o bits (mkc w a).
Proof. exact ExprProofs.c_ext_spec. Qed.
Print Assumptions c_ext_spec.

(* 3. the constructor trims; results are in range *)
Theorem new_big_spec : forall v w, 0 <= w -> new_big v w = mkc w (U w v).
Proof. exact ConstProofs.new_big_spec. Qed.
Print Assumptions new_big_spec.

Theorem c_bin_inr : forall o w a b c, 0 <= w -> c_bin o (mkc w a) (mkc w b) = Ok c ->
  cbits c = (if is_cmp o then 1 else w) /\ inr (cbits c) (cval c).
Proof. exact ExprProofs.c_bin_inr. Qed.
Print Assumptions c_bin_inr.

Theorem c_ext_inr : forall o bits a c, 0 <= bits -> c_ext o bits a = Ok c ->
  cbits c = bits /\ inr (cbits c) (cval c).
Proof. exact ExprProofs.c_ext_inr. Qed.
Print Assumptions c_ext_inr.

(* 4. no operand value makes an operator panic (only a zero width can) *)
Theorem no_panic : forall w a b, 1 <= w ->
  (forall o, c_bin o (mkc w a) (mkc w b) <> Panic) /\ (forall o bits, c_ext o bits (mkc w a) <> Panic).
Proof. exact ExprProofs.no_panic. Qed.
Print Assumptions no_panic.

(* 5. raw trees: whenever the specification has an opinion on a well-sorted closed tree, building it through
      the checked constructors and evaluating it yields exactly that (value, DivideByZero or ExecutorScalar);
      includes the derived builders RSra (= s_ashr) and RRotl (= s_rotl for amounts <= width).
      rbounded: every width mentioned in the tree fits a usize. *)
Theorem eval_den : forall r w x, rbounded r -> rsort r = SW w -> rden (fun _ => None) r = Some x ->
  (e <- build r ;; eval e) = x.
Proof. exact ExprProofs.eval_den. Qed.
Print Assumptions eval_den.

Theorem build_sort_error : forall r, rsort r = SErr -> (e <- build r ;; eval e) = Err ESort.
Proof. exact ExprProofs.build_sort_error. Qed.
Print Assumptions build_sort_error.

(* 6. scalar substitution (all raw constructors, including RSra / RRotl) *)
Theorem replace_scalar_subst : forall r w s v x, rbounded r -> rsort r = SW w -> 1 <= sbits s < 2 ^ 64 ->
  rden (env1 s (mkc (sbits s) (U (sbits s) v))) r = Some x ->
  (e <- build r ;; e1 <- replace_scalar e s (EConst (new_big v (sbits s))) ;; eval e1) = x.
Proof. exact ExprProofs.replace_scalar_subst. Qed.
Print Assumptions replace_scalar_subst.

(* the two successive substitutions performed by the checker's KReplace cases *)
Theorem replace_scalar_subst2 : forall r w s1 v1 s2 v2 x, rbounded r -> rsort r = SW w ->
  1 <= sbits s1 < 2 ^ 64 -> 1 <= sbits s2 < 2 ^ 64 ->
  rden (fun t => if scalar_eqb t s1 then Some (mkc (sbits s1) (U (sbits s1) v1))
                 else if scalar_eqb t s2 then Some (mkc (sbits s2) (U (sbits s2) v2)) else None) r = Some x ->
  (e <- build r ;;
   e1 <- replace_scalar e s1 (EConst (new_big v1 (sbits s1))) ;;
   e2 <- replace_scalar e1 s2 (EConst (new_big v2 (sbits s2))) ;; eval e2) = x.
Proof. exact ExprProofs.replace_scalar_subst2. Qed.
Print Assumptions replace_scalar_subst2.

(* 7. non-vacuity: the hypotheses are satisfiable and the conclusions are the expected bit-vector values,
      at widths 1, 7, 64, 65, 128, 200 (by computation) *)
Example ex_w1 :
  (1 <= 1 < 2 ^ 64) /\ inr 1 1 /\
  c_bin Add (mkc 1 1) (mkc 1 1) = Ok (mkc 1 0) /\ sp_bin Add 1 1 1 = Ok (mkc 1 0) /\
  c_bin AShr (mkc 1 1) (mkc 1 1) = Ok (mkc 1 1) /\ sp_bin AShr 1 1 1 = Ok (mkc 1 1) /\
  c_bin Divs (mkc 1 1) (mkc 1 1) = Ok (mkc 1 1) /\ sp_bin Divs 1 1 1 = Ok (mkc 1 1) /\
  c_bin Cmplts (mkc 1 1) (mkc 1 0) = Ok (mkc 1 1) /\ sp_bin Cmplts 1 1 0 = Ok (mkc 1 1).
Proof. vm_compute; repeat split; try reflexivity; try discriminate. Qed.

Example ex_w7 :
  (1 <= 7 < 2 ^ 64) /\ inr 7 125 /\ inr 7 2 /\
  c_bin Divs (mkc 7 125) (mkc 7 2) = Ok (mkc 7 127) /\ sp_bin Divs 7 125 2 = Ok (mkc 7 127) /\
  c_bin Mods (mkc 7 125) (mkc 7 2) = Ok (mkc 7 127) /\ sp_bin Mods 7 125 2 = Ok (mkc 7 127) /\
  c_bin Divu (mkc 7 125) (mkc 7 0) = Err EDivZero /\ sp_bin Divu 7 125 0 = Err EDivZero /\
  c_bin Add (mkc 7 125) (mkc 8 2) = Err ESort /\
  c_ext Sext 12 (mkc 7 125) = Ok (mkc 12 4093) /\ sp_ext Sext 12 (mkc 7 125) = Ok (mkc 12 4093).
Proof. vm_compute; repeat split; try reflexivity; try discriminate. Qed.

Example ex_w64 :
  (1 <= 64 < 2 ^ 64) /\ inr 64 (2 ^ 63) /\ inr 64 65 /\
  c_bin AShr (mkc 64 (2 ^ 63)) (mkc 64 65) = Ok (mkc 64 (2 ^ 64 - 1)) /\
  sp_bin AShr 64 (2 ^ 63) 65 = Ok (mkc 64 (2 ^ 64 - 1)) /\
  c_bin Shl (mkc 64 (2 ^ 63)) (mkc 64 64) = Ok (mkc 64 0) /\ sp_bin Shl 64 (2 ^ 63) 64 = Ok (mkc 64 0) /\
  c_bin Sub (mkc 64 0) (mkc 64 1) = Ok (mkc 64 (2 ^ 64 - 1)) /\ sp_bin Sub 64 0 1 = Ok (mkc 64 (2 ^ 64 - 1)).
Proof. vm_compute; repeat split; try reflexivity; try discriminate. Qed.

Example ex_w65 :
  (1 <= 65 < 2 ^ 64) /\ inr 65 (2 ^ 64 + 1) /\
  c_bin Mul (mkc 65 (2 ^ 64 + 1)) (mkc 65 (2 ^ 64 + 1)) = Ok (mkc 65 1) /\
  sp_bin Mul 65 (2 ^ 64 + 1) (2 ^ 64 + 1) = Ok (mkc 65 1) /\
  c_bin Shl (mkc 65 1) (mkc 65 64) = Ok (mkc 65 (2 ^ 64)) /\ sp_bin Shl 65 1 64 = Ok (mkc 65 (2 ^ 64)) /\
  c_ext Trun 64 (mkc 65 (2 ^ 64 + 1)) = Ok (mkc 64 1) /\ sp_ext Trun 64 (mkc 65 (2 ^ 64 + 1)) = Ok (mkc 64 1) /\
  c_ext Trun 65 (mkc 65 1) = Err ESort /\ sp_ext Trun 65 (mkc 65 1) = Err ESort.
Proof. vm_compute; repeat split; try reflexivity; try discriminate. Qed.

(* 2^127:128 >>> 2^64:128 (amount beyond usize) is the sign fill; INT_MIN / -1 wraps *)
Example ex_w128 :
  (1 <= 128 < 2 ^ 64) /\ inr 128 (2 ^ 127) /\ inr 128 (2 ^ 64) /\
  c_bin AShr (mkc 128 (2 ^ 127)) (mkc 128 (2 ^ 64)) = Ok (mkc 128 (2 ^ 128 - 1)) /\
  sp_bin AShr 128 (2 ^ 127) (2 ^ 64) = Ok (mkc 128 (2 ^ 128 - 1)) /\
  c_bin Divs (mkc 128 (2 ^ 127)) (mkc 128 (2 ^ 128 - 1)) = Ok (mkc 128 (2 ^ 127)) /\
  sp_bin Divs 128 (2 ^ 127) (2 ^ 128 - 1) = Ok (mkc 128 (2 ^ 127)).
Proof. vm_compute; repeat split; try reflexivity; try discriminate. Qed.

Example ex_w200 :
  (1 <= 200 < 2 ^ 64) /\ inr 200 (2 ^ 199) /\ inr 200 3 /\
  c_bin AShr (mkc 200 (2 ^ 199)) (mkc 200 3) = Ok (mkc 200 (2 ^ 199 + 2 ^ 198 + 2 ^ 197 + 2 ^ 196)) /\
  sp_bin AShr 200 (2 ^ 199) 3 = Ok (mkc 200 (2 ^ 199 + 2 ^ 198 + 2 ^ 197 + 2 ^ 196)) /\
  c_bin Sub (mkc 200 0) (mkc 200 1) = Ok (mkc 200 (2 ^ 200 - 1)) /\
  c_ext Zext 201 (mkc 200 (2 ^ 199)) = Ok (mkc 201 (2 ^ 199)) /\
  c_ext Sext 201 (mkc 200 (2 ^ 199)) = Ok (mkc 201 (2 ^ 200 + 2 ^ 199)) /\
  sp_ext Sext 201 (mkc 200 (2 ^ 199)) = Ok (mkc 201 (2 ^ 200 + 2 ^ 199)).
Proof. vm_compute; repeat split; try reflexivity; try discriminate. Qed.

(* hypotheses of eval_den / build_sort_error / replace_scalar_subst are satisfiable, with the derived builders:
   sra(0x80:8, 9:8) = 0xff, rotl(0x81:8, 1:8) = 0x03, a zero divisor, a free scalar, an ill-sorted tree,
   a tree at width 200, and a substitution *)
Example ex_tree_sra :
  let r := RSra (RConst 128 8) (RConst 9 8) in
  rbounded r /\ rsort r = SW 8 /\ rden (fun _ => None) r = Some (Ok (mkc 8 255)) /\
  (e <- build r ;; eval e) = Ok (mkc 8 255).
Proof. vm_compute; repeat split; try reflexivity; try discriminate. Qed.

Example ex_tree_rotl :
  let r := RRotl (RConst 129 8) (RConst 1 8) in
  rbounded r /\ rsort r = SW 8 /\ rden (fun _ => None) r = Some (Ok (mkc 8 3)) /\
  (e <- build r ;; eval e) = Ok (mkc 8 3).
Proof. vm_compute; repeat split; try reflexivity; try discriminate. Qed.

Example ex_tree_w200 :
  let r := RIte (RBin Cmplts (RConst (2 ^ 199) 200) (RConst 0 200))
                (RSra (RConst (2 ^ 199) 200) (RConst 201 200))
                (RExt Zext 200 (RBin Divu (RConst 1 65) (RConst 0 65))) in
  rbounded r /\ rsort r = SW 200 /\ rden (fun _ => None) r = Some (Ok (mkc 200 (2 ^ 200 - 1))) /\
  (e <- build r ;; eval e) = Ok (mkc 200 (2 ^ 200 - 1)).
Proof. vm_compute; repeat split; try reflexivity; try discriminate. Qed.

Example ex_tree_errors :
  let d := RBin Mods (RConst 5 7) (RConst 0 7) in
  let s := RBin Add (RScalar (mks 1%N 64 None)) (RConst 1 64) in
  let b := RBin Add (RConst 1 64) (RConst 1 65) in
  (rbounded d /\ rsort d = SW 7 /\ rden (fun _ => None) d = Some (Err EDivZero) /\
   (e <- build d ;; eval e) = Err EDivZero) /\
  (rbounded s /\ rsort s = SW 64 /\ rden (fun _ => None) s = Some (Err EExecScalar) /\
   (e <- build s ;; eval e) = Err EExecScalar) /\
  (rsort b = SErr /\ (e <- build b ;; eval e) = Err ESort).
Proof. vm_compute; repeat split; try reflexivity; try discriminate. Qed.

Example ex_replace :
  let s := mks 1%N 65 None in
  let r := RSra (RBin Sub (RScalar s) (RConst 1 65)) (RConst 64 65) in
  rbounded r /\ rsort r = SW 65 /\ (1 <= sbits s < 2 ^ 64) /\
  rden (env1 s (mkc 65 (U 65 0))) r = Some (Ok (mkc 65 (2 ^ 65 - 1))) /\
  (e <- build r ;; e1 <- replace_scalar e s (EConst (new_big 0 65)) ;; eval e1) = Ok (mkc 65 (2 ^ 65 - 1)).
Proof. vm_compute; repeat split; try reflexivity; try discriminate. Qed.

(* the oracles of the differential check (C04Check.ck), literally: what the case files test on samples
   holds for every input *)
Theorem rspec_sound : forall r x, rbounded r -> rspec (fun _ => None) r = Some x ->
  (e <- build r ;; eval e) = x.
Proof. exact ExprProofs.rspec_sound. Qed.
Print Assumptions rspec_sound.

Theorem c_bin_spec_c : forall o a b, 1 <= cbits a < 2 ^ 64 -> 1 <= cbits b ->
  inr (cbits a) (cval a) -> inr (cbits b) (cval b) -> c_bin o a b = sp_bin_c o a b.
Proof. exact ExprProofs.c_bin_spec_c. Qed.
Print Assumptions c_bin_spec_c.

(* 8. "no unbounded allocation": ConstCost.v transcribes constant.rs a second time, logging every big integer
      the Rust code materialises (c_bin_i / c_ext_i / eval_i : result * list of intermediates).
      Consistency: the instrumented functions compute exactly the results of the model ... *)
Theorem c_bin_i_fst : forall o a b, fst (c_bin_i o a b) = c_bin o a b.
Proof. exact ConstCostProofs.c_bin_i_fst. Qed.
Print Assumptions c_bin_i_fst.

Theorem c_ext_i_fst : forall o bits a, fst (c_ext_i o bits a) = c_ext o bits a.
Proof. exact ConstCostProofs.c_ext_i_fst. Qed.
Print Assumptions c_ext_i_fst.

(* ... and every intermediate is smaller than 2^(2w+2) (2^(w+bits+2) for extensions): bounded by the widths
   alone, never by an operand value such as a shift amount of 2^64-1 *)
Theorem alloc_bounded : forall w a b, 1 <= w -> inr w a -> inr w b ->
  (forall o, Forall (fun v => Z.abs v < 2 ^ (2 * w + 2)) (c_bin_inter o (mkc w a) (mkc w b))) /\
  (forall o bits, 0 <= bits -> Forall (fun v => Z.abs v < 2 ^ (w + bits + 2)) (c_ext_inter o bits (mkc w a))).
Proof. exact ConstCostProofs.alloc_bounded. Qed.
Print Assumptions alloc_bounded.

(* evaluation of a built tree: rmaxw r is the largest width mentioned in the raw tree *)
Theorem eval_alloc_bounded : forall r w e, rbounded r -> rsort r = SW w -> build r = Ok e ->
  fst (eval_i e) = eval e /\ Forall (fun v => Z.abs v < 2 ^ (2 * rmaxw r + 2)) (eval_inter e).
Proof. exact ConstCostProofs.eval_alloc_bounded. Qed.
Print Assumptions eval_alloc_bounded.

Theorem eval_i_fst : forall e, fst (eval_i e) = eval e.
Proof. exact ConstCostProofs.eval_i_fst. Qed.
Print Assumptions eval_i_fst.

(* non-vacuity: 1:64 << (2^64-1):64 and 2^63:64 >>> (2^64-1):64 materialise a handful of integers below 2^65;
   a shift by 63 really builds the 127-bit product *)
Example ex_alloc :
  c_bin_i Shl (mkc 64 1) (mkc 64 (2 ^ 64 - 1)) = (Ok (mkc 64 0), [0; 2 ^ 64; 2 ^ 64 - 1; 0]) /\
  c_bin_inter AShr (mkc 64 (2 ^ 63)) (mkc 64 (2 ^ 64 - 1)) = [1; 2 ^ 64; 2 ^ 64 - 1; 2 ^ 64 - 1; 2 ^ 64; 2 ^ 64 - 1; 2 ^ 64 - 1] /\
  c_bin_inter Shl (mkc 64 (2 ^ 64 - 1)) (mkc 64 63) = [(2 ^ 64 - 1) * 2 ^ 63; 2 ^ 64; 2 ^ 64 - 1; 2 ^ 63] /\
  c_ext_inter Sext 12 (mkc 4 8) = [1; 2 ^ 12; 2 ^ 12 - 1; (2 ^ 12 - 1) * 2 ^ 4; (2 ^ 12 - 1) * 2 ^ 4 + 8; 2 ^ 12; 2 ^ 12 - 1; 4088].
Proof. vm_compute; repeat split; try reflexivity; try discriminate. Qed.

Example ex_alloc_tree :
  let r := RSra (RConst (2 ^ 63) 64) (RConst (2 ^ 64 - 1) 64) in
  rbounded r /\ rsort r = SW 64 /\ rmaxw r = 64 /\
  (e <- build r ;; fst (eval_i e)) = Ok (mkc 64 (2 ^ 64 - 1)) /\
  match build r with Ok e => forallb (fun v => Z.abs v <? 2 ^ 65) (eval_inter e) | _ => false end = true.
Proof. vm_compute; repeat split; try reflexivity; try discriminate. Qed.
