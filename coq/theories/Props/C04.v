(* Props/C04.v -- property theorems only *)
From Coq Require Import ZArith.
From Falcon Require Import Base.Res IL.Const IL.ConstSpec IL.Expr IL.ExprSpec IL.ConstProofs IL.ExprProofs.
Local Open Scope Z_scope.

(* 1. every binary operator, every width: the model of Constant is the bit-vector specification
      (sp_bin encodes the DivideByZero cases) *)
Theorem c_bin_spec : forall o w a b, 1 <= w < 2 ^ 64 -> inr w a -> inr w b ->
  c_bin o (mkc w a) (mkc w b) = sp_bin o w a b.
Proof. exact ExprProofs.c_bin_spec. Qed.
Print Assumptions c_bin_spec.

(* the usize bound on the width is needed by the three shifts only *)
Theorem c_bin_spec_noshift : forall o w a b, is_shift o = false -> 1 <= w -> inr w a -> inr w b ->
  c_bin o (mkc w a) (mkc w b) = sp_bin o w a b.
Proof. exact ExprProofs.c_bin_spec_noshift. Qed.
Print Assumptions c_bin_spec_noshift.

(* 2. sort errors and extensions *)
Theorem c_bin_sort_error : forall o a b, cbits a <> cbits b -> c_bin o a b = Err ESort.
Proof. exact ExprProofs.c_bin_sort_error. Qed.
Print Assumptions c_bin_sort_error.

Theorem c_ext_spec : forall o bits w a, 1 <= w -> 1 <= bits -> inr w a ->
  c_ext o bits (mkc w a) = sp_ext o bits (mkc w a).
Proof. exact ExprProofs.c_ext_spec. Qed.
Print Assumptions c_ext_spec.

(* 3. the constructor trims; results are in range *)
Theorem new_big_spec : forall v w, 0 <= w -> new_big v w = mkc w (U w v).
Proof. exact ConstProofs.new_big_spec. Qed.
Print Assumptions new_big_spec.

Theorem c_bin_inr : forall o w a b c, 0 <= w -> c_bin o (mkc w a) (mkc w b) = Ok c ->
  cbits c = (if is_cmp o then 1 else w) /\ inr (cbits c) (cval c).
Proof. exact ExprProofs.c_bin_inr. Qed.
Print Assumptions c_bin_inr.

Theorem c_ext_inr : forall o bits a c, 0 <= bits -> c_ext o bits a = Ok c ->
  cbits c = bits /\ inr (cbits c) (cval c).
Proof. exact ExprProofs.c_ext_inr. Qed.
Print Assumptions c_ext_inr.

(* 4. no operand value makes an operator panic (only a zero width can) *)
Theorem no_panic : forall w a b, 1 <= w ->
  (forall o, c_bin o (mkc w a) (mkc w b) <> Panic) /\ (forall o bits, c_ext o bits (mkc w a) <> Panic).
Proof. exact ExprProofs.no_panic. Qed.
Print Assumptions no_panic.
