(* Props/C04.v -- property theorems only *)
From Coq Require Import ZArith.
From Falcon Require Import Base.Res IL.Const IL.ConstSpec IL.Expr IL.ExprSpec.
