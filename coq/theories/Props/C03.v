(* Props/C03.v -- property theorems only.
   C03: the AArch64 lifter agrees with the Arm ARM pseudocode (Isa/A64.v, trusted transcription).
   [sim addr i] (Isa/A64Sim.v): from every well-formed machine state and every IL state representing it
   (architectural scalars equal, IL memory a partial view that maps the accessed bytes), if the lifter
   accepts the instruction and the architecture defines the outcome, running the lifted IL in Exec/Sem.v
   ends in an IL state representing the architecture's result state, at the architecture's next pc.
   Each [*_sim] theorem is UNBOUNDED: all register / immediate fields of the form, all addresses, all
   states.  [tie_transfers] carries a [*_sim] theorem to every enumerated encoding whose dumped IL the
   checker found equal to the mirror (syntactic tie, evaluated per run in the kernel). *)
From Coq Require Import ZArith List.
From Falcon Require Import Base.Res IL.Const IL.Expr IL.Func Exec.Sem
     Isa.A64 Isa.A64Lift Isa.A64Run Isa.A64Proofs Isa.A64Sim Isa.A64Arith Isa.A64Arith2
     Isa.A64Branch Isa.A64Branch2 Isa.C03Check Isa.A64Tie Isa.A64Flags Isa.A64Flags2 Isa.A64Mem Isa.A64Load Isa.A64Store Isa.A64Pair Isa.A64Pair2 Isa.A64Wb Isa.A64Pair3 Isa.A64RegOff Isa.A64Shift Isa.A64Ext Isa.A64Decode.
Import ListNotations.
Local Open Scope Z_scope.

(* 0. the runner: Sem.sem_step over a lifted single-block instruction graph = its operations in order *)
Theorem run_graph_straight : forall addr ops st, (length ops < 64)%nat ->
  run_graph (graph_of addr ops) st = run_ops ops st.
Proof. exact A64Proofs.run_graph_straight. Qed.
Print Assumptions run_graph_straight.

(* 1. the syntactic tie transfers a per-form theorem to the REAL lifter's output for an encoding *)
Theorem tie_transfers : forall addr i g succs,
  syntactic_tie addr i g succs = true -> sim addr i ->
  forall s st s', wf s -> apc s = addr -> addr + 4 < 2 ^ 64 -> emb s st -> mapped st (footprint i s) ->
    a64step i s = Done s' ->
    exists st', run_lifted g succs st = Ok (st', apc s') /\ emb s' st'.
Proof. exact A64Tie.tie_transfers. Qed.
Print Assumptions tie_transfers.

(* 2. ADD / SUB (immediate), both widths, both shifts, register 31 = SP, incl. MOV (to/from SP) *)
Theorem addsub_imm_sim : forall addr sf sub sh imm12 rn rd,
  0 <= imm12 < 4096 -> 0 <= rn < 32 -> 0 <= rd < 32 ->
  sim addr (IAddSubImm sf sub false sh imm12 rn rd).
Proof. exact A64Arith.addsub_imm_sim. Qed.
Print Assumptions addsub_imm_sim.

(* 3. ADD / SUB (shifted register) with LSL / LSR, both widths, register 31 = ZR *)
Theorem addsub_shift_sim : forall addr sf sub k rm imm6 rn rd,
  lsl_or_lsr k -> 0 <= imm6 < dsize sf -> 0 <= rm < 32 -> 0 <= rn < 32 -> 0 <= rd < 32 ->
  sim addr (IAddSubShift sf sub false k rm imm6 rn rd).
Proof. exact A64Arith2.addsub_shift_sim. Qed.
Print Assumptions addsub_shift_sim.

(* 4. moves: MOV (register) = ORR Rd, ZR, Rm ; MOV (wide / inverted wide immediate) = MOVZ / MOVN *)
Theorem mov_reg_sim : forall addr sf rm rd, 0 <= rm < 32 -> 0 <= rd < 32 ->
  sim addr (IOrrShift sf SLSL rm 0 31 rd).
Proof. exact A64Arith2.mov_reg_sim. Qed.
Print Assumptions mov_reg_sim.

Theorem mov_wide_sim : forall addr (sf : bool) opc hw imm16 rd,
  (opc = 0 \/ opc = 2) -> 0 <= hw < (if sf then 4 else 2) -> 0 <= imm16 < 65536 -> 0 <= rd < 32 ->
  sim addr (IMovWide sf opc hw imm16 rd).
Proof. exact A64Arith2.mov_wide_sim. Qed.
Print Assumptions mov_wide_sim.

(* 4b. ADDS (immediate; shifted register LSL / LSR): registers AND all four flags *)
Theorem adds_imm_sim : forall addr (sf sh : bool) imm12 rn rd,
  0 <= imm12 < 4096 -> 0 <= rn < 32 -> 0 <= rd < 32 -> sim addr (IAddSubImm sf false true sh imm12 rn rd).
Proof. exact A64Flags2.adds_imm_sim. Qed.
Print Assumptions adds_imm_sim.
Theorem adds_shift_sim : forall addr (sf : bool) k rm imm6 rn rd,
  lsl_or_lsr k -> 0 <= imm6 < dsize sf -> 0 <= rm < 32 -> 0 <= rn < 32 -> 0 <= rd < 32 ->
  sim addr (IAddSubShift sf false true k rm imm6 rn rd).
Proof. exact A64Flags2.adds_shift_sim. Qed.
Print Assumptions adds_shift_sim.

(* 4c. SUBS: known finding kf:subs-carry-is-borrow.  What IS proved ([sim_c true]): the destination,
   every other register, N, Z, V, memory and the next pc agree with the architecture, and the IL's c
   is exactly the NEGATION of the architectural C.  What is refuted: [sim] itself, on a witness. *)
Theorem subs_imm_sim_partial : forall addr (sf sh : bool) imm12 rn rd,
  0 <= imm12 < 4096 -> 0 <= rn < 32 -> 0 <= rd < 32 -> sim_c true addr (IAddSubImm sf true true sh imm12 rn rd).
Proof. intros. apply A64Flags2.addsubs_imm_simc; assumption. Qed.
Print Assumptions subs_imm_sim_partial.
Theorem subs_shift_sim_partial : forall addr (sf : bool) k rm imm6 rn rd,
  lsl_or_lsr k -> 0 <= imm6 < dsize sf -> 0 <= rm < 32 -> 0 <= rn < 32 -> 0 <= rd < 32 ->
  sim_c true addr (IAddSubShift sf true true k rm imm6 rn rd).
Proof. intros. apply A64Flags2.addsubs_shift_simc; assumption. Qed.
Print Assumptions subs_shift_sim_partial.
(* subs x0, x1, x2 = 0xeb020020 at 0x1000, x1 = 1, x2 = 0 *)
Theorem subs_carry_refuted : decode 3942776864 = Some wit_instr /\ ~ sim 4096 wit_instr.
Proof. split; [exact A64Flags2.wit_decodes|exact A64Flags2.subs_carry_refuted]. Qed.
Print Assumptions subs_carry_refuted.

(* 4d. single-register LOADS without write-back: LDR (W, X), LDRB, LDRH, LDRSB (W, X), LDRSH (W, X), LDRSW;
   unsigned-offset (scaled = true) and unscaled LDUR forms; base register 31 = SP; both data endiannesses.
   [mapped] (a hypothesis of sim): the bytes of the access are present in the IL memory *)
Theorem ldr_imm_sim : forall addr size opc (scaled : bool) imm rn rt,
  0 <= size < 4 -> 1 <= opc < 4 -> decode_ldst_opc_ok size opc = true ->
  0 <= rn < 32 -> 0 <= rt < 32 ->
  sim addr (ILdStImm size opc WOffset scaled imm rn rt).
Proof. exact A64Load.ldr_imm_sim. Qed.
Print Assumptions ldr_imm_sim.

(* 4e. single-register STORES without write-back: STR (W, X), STRB, STRH; unsigned-offset and unscaled STUR forms;
   transfer register 31 = ZR, base 31 = SP; both data endiannesses *)
Theorem str_imm_sim : forall addr size (scaled : bool) imm rn rt,
  0 <= size < 4 -> 0 <= rn < 32 -> 0 <= rt < 32 ->
  sim addr (ILdStImm size 0 WOffset scaled imm rn rt).
Proof. exact A64Store.str_imm_sim. Qed.
Print Assumptions str_imm_sim.
(* 4f. LDAR / LDLAR / STLR / STLLR and their B / H variants *)
Theorem ldst_ord_sim : forall addr size (load o0 : bool) rn rt,
  0 <= size < 4 -> 0 <= rn < 32 -> 0 <= rt < 32 -> sim addr (ILdStOrd size load o0 rn rt).
Proof. exact A64Store.ldst_ord_sim. Qed.
Print Assumptions ldst_ord_sim.

(* 4g. pairs: STP / STNP and LDP / LDNP, 32- and 64-bit, signed-offset / pre-index / post-index / no-allocate,
   with the write-back of the base (register 31 = SP); base = transfer register coincidences are
   CONSTRAINED UNPREDICTABLE in the architecture (a64step = Undef) and hence outside the statement *)
Theorem stp_sim : forall addr opc mode imm7 rt2 rn rt,
  (opc = 0 \/ opc = 2) -> 0 <= rt < 32 -> 0 <= rt2 < 32 -> 0 <= rn < 32 ->
  sim addr (ILdStPair opc mode false imm7 rt2 rn rt).
Proof. exact A64Pair.stp_sim. Qed.
Print Assumptions stp_sim.
Theorem ldp_sim : forall addr opc mode imm7 rt2 rn rt,
  (opc = 0 \/ opc = 2) -> 0 <= rt < 32 -> 0 <= rt2 < 32 -> 0 <= rn < 32 ->
  sim addr (ILdStPair opc mode true imm7 rt2 rn rt).
Proof. exact A64Pair2.ldp_sim. Qed.
Print Assumptions ldp_sim.

(* 4h. ALL single-register immediate-mode loads and stores: offset, pre-index and post-index (write-back of the
   base, register 31 = SP), scaled and unscaled; every (size, opc) the decoder accepts.  Subsumes 4d and 4e. *)
Theorem ldst_imm_sim : forall addr size opc mode (scaled : bool) imm rn rt,
  0 <= size < 4 -> 0 <= opc < 4 -> decode_ldst_opc_ok size opc = true ->
  0 <= rn < 32 -> 0 <= rt < 32 ->
  sim addr (ILdStImm size opc mode scaled imm rn rt).
Proof. exact A64Wb.ldst_imm_sim. Qed.
Print Assumptions ldst_imm_sim.

(* 4i. LDPSW (pre-index, post-index, signed offset) *)
Theorem ldpsw_sim : forall addr mode imm7 rt2 rn rt,
  mode <> PNoAlloc -> 0 <= rt < 32 -> 0 <= rt2 < 32 -> 0 <= rn < 32 ->
  sim addr (ILdStPair 1 mode true imm7 rt2 rn rt).
Proof. exact A64Pair3.ldpsw_sim. Qed.
Print Assumptions ldpsw_sim.
(* 4j. register-offset addressing: LDR/STR (register) and all B / H / SB / SH / SW variants, offset register
   extended with UXTW / LSL / SXTW / SXTX (option<1> = 1, as decoded), optionally scaled by the access size *)
Theorem ldst_reg_sim : forall addr size opc rm option (sbit : bool) rn rt,
  0 <= size < 4 -> 0 <= opc < 4 -> decode_ldst_opc_ok size opc = true ->
  (option = 2 \/ option = 3 \/ option = 6 \/ option = 7) ->
  0 <= rm < 32 -> 0 <= rn < 32 -> 0 <= rt < 32 ->
  sim addr (ILdStReg size opc rm option sbit rn rt).
Proof. exact A64RegOff.ldst_reg_sim. Qed.
Print Assumptions ldst_reg_sim.

(* 5. branches *)
Theorem b_sim : forall addr imm26, sim addr (IBImm false imm26).
Proof. exact A64Branch.b_sim. Qed.
Print Assumptions b_sim.
Theorem bl_sim : forall addr imm26, sim addr (IBImm true imm26).
Proof. exact A64Branch.bl_sim. Qed.
Print Assumptions bl_sim.
Theorem br_sim : forall addr rn, 0 <= rn < 32 -> sim addr (IBReg 0 rn).
Proof. exact A64Branch.br_sim. Qed.
Print Assumptions br_sim.
Theorem blr_sim : forall addr rn, 0 <= rn < 32 -> sim addr (IBReg 1 rn).
Proof. exact A64Branch.blr_sim. Qed.
Print Assumptions blr_sim.
Theorem ret_sim : forall addr rn, 0 <= rn < 32 -> sim addr (IBReg 2 rn).
Proof. exact A64Branch.ret_sim. Qed.
Print Assumptions ret_sim.
Theorem bcond_sim : forall addr cond imm19, 0 <= cond < 16 -> sim addr (IBCond cond imm19).
Proof. exact A64Branch2.bcond_sim. Qed.
Print Assumptions bcond_sim.
Theorem cb_sim : forall addr sf nz imm19 rt, 0 <= rt < 32 -> sim addr (ICB sf nz imm19 rt).
Proof. exact A64Branch2.cb_sim. Qed.
Print Assumptions cb_sim.
Theorem tb_sim : forall addr (b5 : bool) nz b40 imm14 rt, 0 <= b40 < 32 -> 0 <= rt < 32 ->
  sim addr (ITB b5 nz b40 imm14 rt).
Proof. exact A64Branch2.tb_sim. Qed.
Print Assumptions tb_sim.

(* 6. the remaining add/sub operand forms: every shift kind (LSL LSR ASR ROR), every extend (UXTB .. SXTX, amount 0..4) *)
Theorem addsub_shift_sim_all : forall addr sf sub k rm imm6 rn rd,
  0 <= imm6 < dsize sf -> 0 <= rm < 32 -> 0 <= rn < 32 -> 0 <= rd < 32 ->
  sim addr (IAddSubShift sf sub false k rm imm6 rn rd).
Proof. exact A64Shift.addsub_shift_sim_all. Qed.
Print Assumptions addsub_shift_sim_all.
Theorem adds_shift_sim_all : forall addr (sf : bool) k rm imm6 rn rd,
  0 <= imm6 < dsize sf -> 0 <= rm < 32 -> 0 <= rn < 32 -> 0 <= rd < 32 ->
  sim addr (IAddSubShift sf false true k rm imm6 rn rd).
Proof. intros. apply sim_c_false. apply A64Shift.addsubs_shift_simc_all; assumption. Qed.
Print Assumptions adds_shift_sim_all.
Theorem subs_shift_sim_all_partial : forall addr (sf : bool) k rm imm6 rn rd,
  0 <= imm6 < dsize sf -> 0 <= rm < 32 -> 0 <= rn < 32 -> 0 <= rd < 32 ->
  sim_c true addr (IAddSubShift sf true true k rm imm6 rn rd).
Proof. intros. apply A64Shift.addsubs_shift_simc_all; assumption. Qed.
Print Assumptions subs_shift_sim_all_partial.
Theorem addsub_ext_sim : forall addr sf sub k rm imm3 rn rd,
  0 <= imm3 <= 4 -> 0 <= rm < 32 -> 0 <= rn < 32 -> 0 <= rd < 32 ->
  sim addr (IAddSubExt sf sub false k rm imm3 rn rd).
Proof. exact A64Ext.addsub_ext_sim. Qed.
Print Assumptions addsub_ext_sim.
Theorem adds_ext_sim : forall addr (sf : bool) k rm imm3 rn rd,
  0 <= imm3 <= 4 -> 0 <= rm < 32 -> 0 <= rn < 32 -> 0 <= rd < 32 ->
  sim addr (IAddSubExt sf false true k rm imm3 rn rd).
Proof. intros. apply sim_c_false. apply A64Ext.addsubs_ext_simc; assumption. Qed.
Print Assumptions adds_ext_sim.
Theorem subs_ext_sim_partial : forall addr (sf : bool) k rm imm3 rn rd,
  0 <= imm3 <= 4 -> 0 <= rm < 32 -> 0 <= rn < 32 -> 0 <= rd < 32 ->
  sim_c true addr (IAddSubExt sf true true k rm imm3 rn rd).
Proof. intros. apply A64Ext.addsubs_ext_simc; assumption. Qed.
Print Assumptions subs_ext_sim_partial.

(* 6b. MOV (bitmask immediate) = ORR (immediate) alias (DecodeBitMasks); NOP / PRFM / PRFUM *)
Theorem orr_imm_sim : forall addr sf n immr imms rn rd, 0 <= rn < 32 -> 0 <= rd < 32 -> sim addr (IOrrImm sf n immr imms rn rd).
Proof. exact A64Decode.orr_imm_sim. Qed.
Print Assumptions orr_imm_sim.
Theorem nop_sim : forall addr, sim addr INop.
Proof. exact A64Decode.nop_sim. Qed.
Print Assumptions nop_sim.

(* 7. the decoder delivers the field ranges the theorems above assume *)
Theorem decode_fields : forall w i, decode w = Some i -> fields_ok i.
Proof. exact A64Decode.decode_fields. Qed.
Print Assumptions decode_fields.

(* 8. EVERY decoded form: [sim] ([sim_c true] for SUBS: everything but the polarity of C); forms the lifter
      rejects (CMP/CMN/NEG aliases, MOVK, non-alias ORR, LDR literal) hold vacuously *)
Theorem sim_all : forall addr i, fields_ok i -> is_vector i = false -> sim_c (is_subs i) addr i.
Proof. exact A64Decode.sim_all. Qed.
Print Assumptions sim_all.

(* 9. END TO END, for the IL the real lifter dumped: decode + syntactic tie => the run of the dumped IL is the
      architecture's step, from every state (SUBS: with C inverted, the known finding) *)
Theorem c03_end_to_end : forall w i addr g succs,
  decode w = Some i -> is_vector i = false -> syntactic_tie addr i g succs = true ->
  forall s st s', wf s -> apc s = addr -> addr + 4 < 2 ^ 64 -> emb s st -> mapped st (footprint i s) ->
    a64step i s = Done s' ->
    exists st', run_lifted g succs st = Ok (st', apc s') /\ emb (if is_subs i then flipC s' else s') st'.
Proof. exact A64Decode.c03_end_to_end. Qed.
Print Assumptions c03_end_to_end.

(* the hypotheses of [sim] are satisfiable: the oracle's embedding of a well-formed state *)
Example emb_embed : forall s mapped_bytes, emb s (embed s mapped_bytes).
Proof. exact A64Tie.emb_embed. Qed.
Print Assumptions emb_embed.
