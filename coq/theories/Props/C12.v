(* Props/C12.v -- property theorems only.
   "execution", "last_writer", "reaches", "loc_reads", "flow" are the specification notions of
   Flow/RDSpec.v over the reference semantics Exec/Sem.v; reaching_definitions / use_def / def_use are the
   models of Flow/RD.v, Flow/UseDef.v (tied to the Rust code by the case files);
   the only hypothesis on the function is C15's structural invariant cfg_inv. *)
From Coq Require Import ZArith List Bool.
From Falcon Require Import Base.Res IL.Const IL.Expr IL.Func IL.Loc Exec.Sem
     Flow.RD Flow.UseDef Flow.RDSpec Flow.RDProofs.
Import ListNotations.
Local Open Scope Z_scope.

(* 1a. after executing a location, the last writer of every scalar is among the reported definitions
       (all functions -- loops included --, all executions, all fuel) *)
Theorem rd_sound : forall f m,
  cfg_inv (f_cfg f) = true -> reaching_definitions f = Ok m ->
  forall tr, execution f tr ->
  forall pre it, prefix (pre ++ [it]) tr -> ti_executed it = true ->
  forall x d, last_writer f (pre ++ [it]) x = Some d ->
  exists s, rd_lookup m (ti_loc it) = Some s /\ In d s.
Proof. exact (fun f m => rd_sound_max f MAX_STEPS m). Qed.
Print Assumptions rd_sound.

(* 1b. every reported assignment or load reaches the location along a path of the location graph on
       which no later location is an assignment or load of the same scalar *)
Theorem rd_precise : forall f m,
  cfg_inv (f_cfg f) = true -> reaching_definitions f = Ok m ->
  forall l s d x, rd_lookup m l = Some s -> In d s -> assign_or_load_of f d = Some x -> reaches f d l.
Proof. exact (fun f m => rd_precise_max f MAX_STEPS m). Qed.
Print Assumptions rd_precise.

(* 2a. the use-definition chain of every location an execution reaches (instruction or taken edge,
       executed or faulting) contains the last writer of every scalar it reads *)
Theorem ud_contains_last_writer : forall f ud,
  cfg_inv (f_cfg f) = true -> use_def f = Ok ud ->
  forall tr, execution f tr ->
  forall pre it, prefix (pre ++ [it]) tr ->
  forall x d, loc_reads f (ti_loc it) x = true -> last_writer f pre x = Some d ->
  In_ud ud (ti_loc it) d.
Proof. exact (fun f ud => ud_contains_last_writer_max f MAX_STEPS ud). Qed.
Print Assumptions ud_contains_last_writer.

(* 2b. ... and so does the chain of every guarded edge whose guard is evaluated after an executed
       location, taken or not *)
Theorem ud_guards_contain_last_writer : forall f ud,
  cfg_inv (f_cfg f) = true -> use_def f = Ok ud ->
  forall tr, execution f tr ->
  forall pre it, prefix (pre ++ [it]) tr -> ti_executed it = true ->
  forall e, flow f (ti_loc it) e ->
  forall x d, loc_reads f e x = true -> last_writer f (pre ++ [it]) x = Some d ->
  In_ud ud e d.
Proof. exact (fun f ud => ud_guards_contain_last_writer_max f MAX_STEPS ud). Qed.
Print Assumptions ud_guards_contain_last_writer.

(* 3. definition-use chains are exactly the inverse relation (no hypothesis on the function) *)
Theorem du_inverse : forall f ud du,
  use_def f = Ok ud -> def_use f = Ok du ->
  forall l d, In_du du d l <-> In_ud ud l d.
Proof. exact (fun f ud du => du_inverse_max f MAX_STEPS ud du). Qed.
Print Assumptions du_inverse.

(* the hypotheses are satisfiable: the two shapes the unrepaired code got wrong.
     B0: x = x - 4 ; z = x + y      (one block, no successor) *)
Definition sx := mks 1%N 32 None.
Definition sy := mks 2%N 32 None.
Definition sz := mks 3%N 32 None.
Definition f_ex : func :=
  mkfunc 0 (mkcfg [mkblock 0 2 [mkinstr 0 (OAssign sx (EBin Sub (EScalar sx) (EConst (mkc 32 4)))) None;
                                mkinstr 1 (OAssign sz (EBin Add (EScalar sx) (EScalar sy))) None] []]
                  [] 1 (Some 0) (Some 0)) None.
Example ex_hyps : cfg_inv (f_cfg f_ex) = true /\
  use_def f_ex = Ok [(LInstr 0 0, []); (LInstr 0 1, [LInstr 0 0])] /\
  def_use f_ex = Ok [(LInstr 0 0, [LInstr 0 1]); (LInstr 0 1, [])].
Proof. vm_compute. repeat split. Qed.
