(* Props/C11.v -- property theorems only (statements at full strength; proofs are in Graph/*.v).
   [U] unbounded, [F] finite domain by computation, [V] verified validator evaluated on every output. *)
From Coq Require Import NArith List Bool.
From Falcon Require Import Base.Res Graph.NMap Graph.NMapFacts Graph.Graph Graph.GraphInv Graph.Algo Graph.Spec
  Graph.Oracle Graph.OracleProofs Graph.ReachProofs Graph.C11Check Graph.SemiNca3 Graph.Small3 Graph.DomTheory
  Graph.OrderProofs Graph.LoopProofs Graph.BackEdges Graph.PreOrderProofs Graph.DomTreeProofs Graph.ClosureTotal Graph.IdomExists Graph.PreOrderDfs
  Graph.DomModel Graph.FrontierModel Graph.Unreachable Graph.TopoProofs Graph.AcyclicProofs Graph.PostOrderProofs Graph.ReducibleModel Graph.PreOrderIsDfs Graph.LoopModel Graph.LoopTreeModel Graph.TransPredsModel Graph.SpecDfs
  Graph.OracleDfsProofs Graph.PreOrderSpec Graph.DfsTreeModel Graph.AcyclicGraphModel Graph.SemiNcaFacts Graph.DfsFacts
  Graph.PathLemma Graph.SemiDomTheory Graph.SemiNcaTheory Graph.SemiLoop Graph.SemiLoopMain Graph.DfsOrderModel
  Graph.DfsParent Graph.SemiNcaFinal Graph.Unconditional.
Import ListNotations.
Local Open Scope N_scope.

(* [U] the four views stay mutually consistent (GraphInv.graph_inv: sorted unique keys, payload index =
   key, successors/predecessors have exactly the vertex keys and describe exactly the edge set, every
   edge end is a vertex) after ANY sequence of insert/remove operations from the empty graph; failing
   operations return Err (never Panic) and leave the graph unchanged (gstep). *)
Theorem graph_inv : forall (V E : Type) (HV : Vertex V) (HE : Edge E) (ops : list (@gop V E)),
  GraphInv.graph_inv (fold_left gstep ops (new : graph V E)) /\
  forall pre o post, ops = pre ++ o :: post -> gapply (fold_left gstep pre (new : graph V E)) o <> Panic.
Proof. intros V E HV HE ops. exact (graph_inv_ops ops new graph_inv_new). Qed.
Print Assumptions graph_inv.

(* [U] one step, from any consistent graph *)
Theorem graph_inv_step : forall (V E : Type) (HV : Vertex V) (HE : Edge E) (g : graph V E) (o : @gop V E),
  GraphInv.graph_inv g -> gapply g o <> Panic /\ GraphInv.graph_inv (gstep g o).
Proof. intros V E HV HE g o. exact (gapply_inv g o). Qed.
Print Assumptions graph_inv_step.

(* [U] remove_vertex removes exactly the vertex and its incident edges *)
Theorem remove_vertex_effect : forall (V E : Type) (HV : Vertex V) (HE : Edge E) (g : graph V E) i,
  GraphInv.graph_inv g -> has_vertex g i = true ->
  exists g', remove_vertex g i = Ok g' /\ GraphInv.graph_inv g' /\
    g_vertices g' = nm_remove i (g_vertices g) /\
    g_edges g' = fold_left (fun m e => em_remove e m) (incident_edges g i) (g_edges g) /\
    (forall h t, em_mem (h, t) (g_edges g') = negb (h =? i) && negb (t =? i) && em_mem (h, t) (g_edges g)).
Proof. intros V E HV HE g i. exact (remove_vertex_inv g i). Qed.
Print Assumptions remove_vertex_effect.

(* [U] reachability: the work-list routine returns exactly { v | there is a path from r to v } *)
Theorem reachable_correct : forall (V E : Type) (HV : Vertex V) (HE : Edge E) (g : graph V E) r,
  GraphInv.graph_inv g -> has_vertex g r = true ->
  exists s, reachable_vertices g r = Ok s /\ nsorted s /\ forall v, In v s <-> reach (edge_keys g) r v.
Proof. intros V E HV HE g r Hgi Hr. exact (reachable_vertices_correct g Hgi r Hr). Qed.
Print Assumptions reachable_correct.

Theorem unreachable_correct : forall (V E : Type) (HV : Vertex V) (HE : Edge E) (g : graph V E) r,
  GraphInv.graph_inv g -> has_vertex g r = true ->
  exists s, unreachable_vertices g r = Ok s /\
            forall v, In v s <-> (has_vertex g v = true /\ ~ reach (edge_keys g) r v).
Proof. intros V E HV HE g r. exact (unreachable_vertices_correct g r). Qed.
Print Assumptions unreachable_correct.

(* [U]/[V] the validator evaluated in the kernel on every idom map the Rust code returns: if it
   accepts, the map is exactly the textbook immediate-dominator relation (d strictly dominates v --
   every path from the root to v passes through d -- and every strict dominator of v dominates d) *)
Theorem idom_check_sound : forall vs es r m,
  idom_check vs es r m = true -> forall v d, alook m v = Some d <-> idom es r d v.
Proof. exact OracleProofs.idom_check_sound. Qed.
Print Assumptions idom_check_sound.

Example idom_check_accepts :
  idom_check [0; 1; 2; 3] [(0, 1); (0, 2); (1, 3); (2, 3); (3, 1)] 0 [(1, 0); (2, 0); (3, 0)] = true.
Proof. vm_compute. reflexivity. Qed.
Example idom_check_rejects :
  idom_check [0; 1; 2; 3] [(0, 1); (0, 2); (1, 3); (2, 3); (3, 1)] 0 [(1, 0); (2, 0); (3, 1)] = false.
Proof. vm_compute. reflexivity. Qed.

(* [V] validators for the structures derived from the idom map *)
Theorem dominators_check_sound : forall vs es r m,
  tab_ok vs es r = true -> dominators_ok (mk_tab vs es r) (verts vs es r) m = true ->
  (forall v, In v (map fst m) <-> reach es r v) /\
  (forall v D, In (v, D) m -> forall d, In d D <-> dom es r d v).
Proof. intros vs es r m Hok. exact (dominators_ok_sound vs es r Hok m). Qed.
Print Assumptions dominators_check_sound.

Theorem df_check_sound : forall vs es r m,
  tab_ok vs es r = true -> df_ok (mk_tab vs es r) (verts vs es r) es m = true ->
  forall x F, In (x, F) m -> forall y, In y F <-> in_DF es r x y.
Proof. intros vs es r m Hok. exact (df_ok_sound vs es r Hok m). Qed.
Print Assumptions df_check_sound.

(* [F] Semi-NCA (with compress) is correct on ALL digraphs with vertex set {0..n-1}, n <= 3, for every
   root, unreachable vertices included: it returns Ok and its result is the immediate-dominator relation.
   Bound n <= 3 (1 + 2 + 32 + 1536 graph/root pairs), by vm_compute.  Since round 3 the unbounded theorem is
   snca_correct (end of this file); this one is kept as an independent cross-check of specification and validator. *)
Theorem semi_nca_correct_le_3 : forall n mask root,
  n <= 3 -> mask < 2 ^ (n * n) -> root < n ->
  exists g m, build (range n) (edges_of n mask) = Ok g /\
              compute_immediate_dominators g root = Ok m /\
              forall v d, alook m v = Some d <-> idom (edges_of n mask) root d v.
Proof. exact SemiNca3.semi_nca_correct_le_3. Qed.
Print Assumptions semi_nca_correct_le_3.

(* [F] on the same finite domain EVERY routine of the model returns Ok and satisfies the executable
   reflection of its textbook definition (17 routines; see Graph/C11Check.alg_oracle) *)
Theorem algorithms_correct_le_3 : forall n mask root,
  1 <= n <= 3 -> mask < 2 ^ (n * n) -> root < n ->
  exists g, build (range n) (edges_of n mask) = Ok g /\
            all_true (alg_oracle (range n) (edges_of n mask) root (model_obs g root)) = true.
Proof. exact Small3.algorithms_correct_le_3. Qed.
Print Assumptions algorithms_correct_le_3.

(* [U] the derivation compute_dominators performs from the idom map: doms(v) = {v} + doms(idom v), doms(r) = {r} *)
Theorem dom_of_idom : forall es r i v, idom es r i v -> forall d, dom es r d v <-> (d = v \/ dom es r d i).
Proof. exact DomTheory.dom_of_idom. Qed.
Print Assumptions dom_of_idom.
Theorem dom_of_root : forall es r d, dom es r d r <-> d = r.
Proof. exact DomTheory.dom_root. Qed.
Print Assumptions dom_of_root.

(* [U] the derivation compute_dominance_frontiers performs from the idom map: at a join point y with
   immediate dominator i the runner started at a predecessor p visits exactly the dominators of p that do
   not dominate i; at the start node (which nothing dominates strictly) it visits the whole chain *)
Theorem df_of_idom : forall es r i y, idom es r i y ->
  forall x, in_DF es r x y <-> exists p, edge es p y /\ dom es r x p /\ ~ dom es r x i.
Proof. exact DomTheory.df_of_idom. Qed.
Print Assumptions df_of_idom.
Theorem df_of_root : forall es r x, in_DF es r x r <-> exists p, edge es p r /\ dom es r x p.
Proof. exact DomTheory.df_of_root. Qed.
Print Assumptions df_of_root.
Theorem dom_antisym : forall es r a b, dom es r a b -> dom es r b a -> a = b.
Proof. exact DomTheory.dom_antisym. Qed.
Print Assumptions dom_antisym.

(* [V] the validator for topological orderings *)
Theorem topo_check_sound : forall vs es l, topo_ok vs es l = true -> topo_order es vs l.
Proof. exact OrderProofs.topo_ok_sound. Qed.
Print Assumptions topo_check_sound.
(* ... and complete: every topological order is accepted (the validator cannot raise a false alarm) *)
Theorem topo_check_complete : forall vs es l, topo_order es vs l -> topo_ok vs es l = true.
Proof. exact OrderProofs.topo_ok_complete. Qed.
Print Assumptions topo_check_complete.

(* [V] the validator for transitive predecessors (p is in the set of v iff there is a non-empty walk p ->+ v) *)
Theorem trans_preds_check_sound : forall vs es m, trans_preds_ok vs es m = true ->
  forall v P, In (v, P) m -> forall p, In p P <-> trans_pred es p v.
Proof. exact OrderProofs.trans_preds_ok_sound. Qed.
Print Assumptions trans_preds_check_sound.

(* [V] the oracle of is_acyclic *)
Theorem acyclic_check_sound : forall vs es r c, tab_ok vs es r = true ->
  has_cycle_b es (t_all (mk_tab vs es r)) = Some c -> (c = true <-> cyclic_from es r).
Proof. exact OrderProofs.acyclic_check_sound. Qed.
Print Assumptions acyclic_check_sound.

(* [V] the validator for the dominator tree *)
Theorem domtree_check_sound : forall vs es r tv te,
  tab_ok vs es r = true -> domtree_ok (mk_tab vs es r) (verts vs es r) tv te = true ->
  (forall v, In v tv <-> reach es r v) /\ (forall d v, In (d, v) te <-> idom es r d v).
Proof. exact LoopProofs.domtree_ok_sound. Qed.
Print Assumptions domtree_check_sound.

(* [V] the oracle of is_reducible (Hecht-Ullman form; the check additionally compares with T1/T2) *)
Theorem reducible_check_sound : forall vs es r b,
  tab_ok vs es r = true -> reducible_fe_b (mk_tab vs es r) es = Some b ->
  (b = true <-> forward_edges_acyclic es r).
Proof. exact LoopProofs.reducible_fe_sound. Qed.
Print Assumptions reducible_check_sound.

(* [V] the validator for natural loops *)
Theorem loops_check_sound : forall vs es r ls,
  tab_ok vs es r = true -> loops_ok (mk_tab vs es r) es ls = true ->
  (forall h, In h (map fst ls) <-> is_header es r h) /\
  (forall h L, In (h, L) ls -> forall x, In x L <-> in_loop es r h x).
Proof. intros vs es r ls Hok. exact (LoopProofs.loops_ok_sound vs es r Hok ls). Qed.
Print Assumptions loops_check_sound.

(* [U] compute_back_edges relative to compute_dominators: given the textbook dominator sets, the routine
   returns exactly the edges whose target dominates their source *)
Theorem back_edges_correct : forall (V E : Type) (HV : Vertex V) (HE : Edge E) (g : graph V E) r doms,
  GraphInv.graph_inv g -> has_vertex g r = true ->
  compute_dominators g r = Ok doms ->
  (forall v, In v (map fst doms) <-> reach (edge_keys g) r v) ->
  (forall v D, In (v, D) doms -> forall d, In d D <-> dom (edge_keys g) r d v) ->
  exists be, compute_back_edges g r = Ok be /\ forall a b, In (a, b) be <-> back_edge (edge_keys g) r a b.
Proof. intros V E HV HE g r doms Hgi. exact (BackEdges.back_edges_correct g Hgi r doms). Qed.
Print Assumptions back_edges_correct.

(* [U] remove_unreachable_vertices: a consistent graph with exactly the reachable vertices and the edges
   between them *)
Theorem remove_unreachable_correct : forall (V E : Type) (HV : Vertex V) (HE : Edge E) (g : graph V E) r,
  GraphInv.graph_inv g -> has_vertex g r = true ->
  exists g', remove_unreachable_vertices g r = Ok g' /\ GraphInv.graph_inv g' /\
    (forall v, has_vertex g' v = true <-> (has_vertex g v = true /\ reach (edge_keys g) r v)) /\
    (forall h t, has_edge g' h t = true <->
                 (has_edge g h t = true /\ reach (edge_keys g) r h /\ reach (edge_keys g) r t)).
Proof. intros V E HV HE g r. exact (ReachProofs.remove_unreachable_correct g r). Qed.
Print Assumptions remove_unreachable_correct.

(* [U] compute_pre_order (explicit stack, visited on pop): a duplicate-free enumeration of exactly the
   reachable vertices (that it is a DFS pre-order is checked per output by the oracle pre_order_ok) *)
Theorem pre_order_perm : forall (V E : Type) (HV : Vertex V) (HE : Edge E) (g : graph V E) r,
  GraphInv.graph_inv g -> has_vertex g r = true ->
  exists l, compute_pre_order g r = Ok l /\ NoDup l /\ forall v, In v l <-> reach (edge_keys g) r v.
Proof. intros V E HV HE g r Hgi Hr. exact (PreOrderProofs.compute_pre_order_correct g Hgi r Hr). Qed.
Print Assumptions pre_order_perm.

(* [U] compute_dominator_tree relative to compute_immediate_dominators: for a well-formed idom map (distinct
   keys, the root is not a key, every value is the root or a key) the construction never fails and yields a
   consistent graph with vertices {root} + keys and exactly the edges idom(v) -> v *)
Theorem dominator_tree_of_idoms : forall (V E : Type) (HV : Vertex V) (HE : Edge E) (g : graph V E) r m,
  compute_immediate_dominators g r = Ok m ->
  NoDup (map fst m) -> ~ In r (map fst m) ->
  (forall v d, In (v, d) m -> d = r \/ In d (map fst m)) ->
  exists t, compute_dominator_tree g r = Ok t /\ GraphInv.graph_inv t /\
    (forall v, has_vertex t v = true <-> (v = r \/ In v (map fst m))) /\
    (forall d v, has_edge t d v = true <-> In (v, d) m).
Proof. intros V E HV HE g r m. exact (DomTreeProofs.dominator_tree_of_idoms g r m). Qed.
Print Assumptions dominator_tree_of_idoms.

(* [V] the validator for the loop nesting: edge outer -> inner iff the loop of inner is nested in the loop of outer *)
Theorem looptree_check_sound : forall vs es r ls tv te,
  tab_ok vs es r = true -> loops_ok (mk_tab vs es r) es ls = true -> looptree_ok ls tv te = true ->
  forall outer inner, In (outer, inner) te <-> loop_nested es r outer inner.
Proof. exact LoopProofs.looptree_ok_sound. Qed.
Print Assumptions looptree_check_sound.

(* ================================================================== round 2 *)

(* [U] the closure computations of the validators always terminate with a closed set: the hypothesis
   `tab_ok vs es r = true` of the validator theorems above is always satisfied *)
Theorem tab_ok_always : forall vs es r, tab_ok vs es r = true.
Proof. exact ClosureTotal.tab_ok_always. Qed.
Print Assumptions tab_ok_always.

(* [U] the dominator tree exists: every reachable vertex other than the root has exactly one immediate
   dominator, so the conclusion of idom_check_sound is never vacuous *)
Theorem idom_exists : forall es r v, reach es r v -> v <> r -> exists i, idom es r i v.
Proof. exact IdomExists.idom_exists. Qed.
Print Assumptions idom_exists.
Theorem idom_unique : forall es r i j v, idom es r i v -> idom es r j v -> i = j.
Proof. exact IdomExists.idom_unique. Qed.
Print Assumptions idom_unique.

(* [U] MODEL functions, given that the idom map of the model passes idom_check (= is the idom relation; the premise is
   discharged for every graph by snca_correct, see the *_all theorems at the end of this file):
   compute_dominator_tree, compute_dominators, compute_back_edges, compute_dominance_frontiers return Ok and
   are exactly the textbook objects *)
Theorem dominator_tree_correct : forall (V E : Type) (HV : Vertex V) (HE : Edge E) (g : graph V E) r m,
  compute_immediate_dominators g r = Ok m -> idom_check (vertex_indices g) (edge_keys g) r m = true ->
  exists t, compute_dominator_tree g r = Ok t /\ GraphInv.graph_inv t /\
    (forall v, has_vertex t v = true <-> reach (edge_keys g) r v) /\
    (forall d v, has_edge t d v = true <-> idom (edge_keys g) r d v).
Proof. intros V E HV HE g r m. exact (DomModel.dominator_tree_correct g r m). Qed.
Print Assumptions dominator_tree_correct.

Theorem compute_dominators_correct : forall (V E : Type) (HV : Vertex V) (HE : Edge E) (g : graph V E) r m,
  has_vertex g r = true ->
  compute_immediate_dominators g r = Ok m -> idom_check (vertex_indices g) (edge_keys g) r m = true ->
  exists doms, compute_dominators g r = Ok doms /\ nsorted (map fst doms) /\
    (forall v, In v (map fst doms) <-> reach (edge_keys g) r v) /\
    (forall v D, In (v, D) doms -> forall d, In d D <-> dom (edge_keys g) r d v).
Proof. intros V E HV HE g r m Hr. exact (DomModel.compute_dominators_correct g r Hr m). Qed.
Print Assumptions compute_dominators_correct.

Theorem compute_back_edges_correct : forall (V E : Type) (HV : Vertex V) (HE : Edge E) (g : graph V E) r m,
  GraphInv.graph_inv g -> has_vertex g r = true ->
  compute_immediate_dominators g r = Ok m -> idom_check (vertex_indices g) (edge_keys g) r m = true ->
  exists be, compute_back_edges g r = Ok be /\ forall a b, In (a, b) be <-> back_edge (edge_keys g) r a b.
Proof. intros V E HV HE g r m Hgi Hr. exact (DomModel.compute_back_edges_correct g Hgi r Hr m). Qed.
Print Assumptions compute_back_edges_correct.

Theorem compute_dominance_frontiers_correct : forall (V E : Type) (HV : Vertex V) (HE : Edge E) (g : graph V E) r m,
  GraphInv.graph_inv g -> has_vertex g r = true ->
  compute_immediate_dominators g r = Ok m -> idom_check (vertex_indices g) (edge_keys g) r m = true ->
  exists df, compute_dominance_frontiers g r = Ok df /\
    (forall x, nm_mem x df = has_vertex g x) /\
    (forall x F, nm_get x df = Some F -> forall y, In y F <-> in_DF (edge_keys g) r x y).
Proof. intros V E HV HE g r m Hgi Hr. exact (FrontierModel.compute_dominance_frontiers_correct g Hgi r Hr m). Qed.
Print Assumptions compute_dominance_frontiers_correct.

(* [U] unreachable vertices are excluded rather than causing a failure (model functions) *)
Theorem unreachable_excluded : forall (V E : Type) (HV : Vertex V) (HE : Edge E) (g : graph V E) r m,
  GraphInv.graph_inv g -> has_vertex g r = true ->
  compute_immediate_dominators g r = Ok m -> idom_check (vertex_indices g) (edge_keys g) r m = true ->
  (exists s, reachable_vertices g r = Ok s /\ forall v, In v s -> reach (edge_keys g) r v) /\
  (exists l, compute_pre_order g r = Ok l /\ forall v, In v l -> reach (edge_keys g) r v) /\
  (forall v d, In (v, d) m -> reach (edge_keys g) r v /\ reach (edge_keys g) r d) /\
  (exists t, compute_dominator_tree g r = Ok t /\ forall v, has_vertex t v = true -> reach (edge_keys g) r v) /\
  (exists doms, compute_dominators g r = Ok doms /\
                forall v D, In (v, D) doms -> reach (edge_keys g) r v /\ forall d, In d D -> reach (edge_keys g) r d) /\
  (exists be, compute_back_edges g r = Ok be /\
              forall a b, In (a, b) be -> reach (edge_keys g) r a /\ reach (edge_keys g) r b) /\
  (exists df, compute_dominance_frontiers g r = Ok df /\
              forall x F, nm_get x df = Some F -> forall y, In y F -> reach (edge_keys g) r x /\ reach (edge_keys g) r y).
Proof. intros V E HV HE g r m Hgi Hr. exact (Unreachable.unreachable_excluded g Hgi r Hr m). Qed.
Print Assumptions unreachable_excluded.

(* [U] the pre-order is a search order: every listed vertex other than the root comes after one of its
   predecessors (PFr is stated on the reversed list) *)
Theorem pre_order_search_order : forall (V E : Type) (HV : Vertex V) (HE : Edge E) (g : graph V E) r l,
  compute_pre_order g r = Ok l -> exists o, l = rev o /\ PFr g r o.
Proof. intros V E HV HE g r l. exact (PreOrderDfs.compute_pre_order_parent g r l). Qed.
Print Assumptions pre_order_search_order.

(* [U] topo_correct + topo_error_iff_cycle for the MODEL function: either Ok l with l a topological order of all
   vertices (and the graph has no cycle), or Err (Custom) and the graph has a cycle *)
Theorem topo_correct : forall (V E : Type) (HV : Vertex V) (HE : Edge E) (g : graph V E),
  GraphInv.graph_inv g ->
  (exists l, compute_topological_ordering g = Ok l /\ topo_order (edge_keys g) (vertex_indices g) l /\
             ~ has_cycle (edge_keys g)) \/
  (compute_topological_ordering g = Err ECustom /\ has_cycle (edge_keys g)).
Proof. intros V E HV HE g Hgi. exact (TopoProofs.compute_topological_ordering_correct g Hgi). Qed.
Print Assumptions topo_correct.
Theorem topo_error_iff_cycle : forall (V E : Type) (HV : Vertex V) (HE : Edge E) (g : graph V E),
  GraphInv.graph_inv g -> (compute_topological_ordering g = Err ECustom <-> has_cycle (edge_keys g)).
Proof. intros V E HV HE g Hgi. exact (TopoProofs.topo_error_iff_cycle g Hgi). Qed.
Print Assumptions topo_error_iff_cycle.

(* [U] is_acyclic_iff for the MODEL function *)
Theorem is_acyclic_iff : forall (V E : Type) (HV : Vertex V) (HE : Edge E) (g : graph V E) root,
  GraphInv.graph_inv g -> has_vertex g root = true ->
  exists b, is_acyclic g root = Ok b /\ (b = true <-> ~ cyclic_from (edge_keys g) root).
Proof. intros V E HV HE g root Hgi. exact (AcyclicProofs.is_acyclic_correct g Hgi root). Qed.
Print Assumptions is_acyclic_iff.

(* [U] post_order_perm + valid DFS post-order for the MODEL function: a duplicate-free enumeration of exactly the
   reachable vertices, root last, and for every edge a -> b: b is listed before a, or b reaches a (b was an
   unfinished ancestor of a, or a itself) *)
Theorem post_order_correct : forall (V E : Type) (HV : Vertex V) (HE : Edge E) (g : graph V E) root,
  GraphInv.graph_inv g -> has_vertex g root = true ->
  exists l, compute_post_order g root = Ok l /\ NoDup l /\ (forall v, In v l <-> reach (edge_keys g) root v) /\
    (exists l', l = l' ++ [root]) /\
    (forall l1 a l2, l = l1 ++ a :: l2 -> forall b, edge (edge_keys g) a b -> In b l1 \/ reach (edge_keys g) b a).
Proof. intros V E HV HE g root Hgi. exact (PostOrderProofs.compute_post_order_correct g Hgi root). Qed.
Print Assumptions post_order_correct.

(* [U] reducible_correct for the MODEL function, given that the idom map passes idom_check: Hecht-Ullman *)
Theorem is_reducible_correct : forall (V E : Type) (HV : Vertex V) (HE : Edge E) (g : graph V E) r m,
  GraphInv.graph_inv g -> has_vertex g r = true ->
  compute_immediate_dominators g r = Ok m -> idom_check (vertex_indices g) (edge_keys g) r m = true ->
  exists b, is_reducible g r = Ok b /\ (b = true <-> forward_edges_acyclic (edge_keys g) r).
Proof. intros V E HV HE g r m Hgi Hr. exact (ReducibleModel.is_reducible_correct g Hgi r Hr m). Qed.
Print Assumptions is_reducible_correct.

(* [U] pre_order_is_dfs: the list returned by the MODEL of compute_pre_order is a depth-first pre-order in the
   relational sense (PreOrderIsDfs.explore: recursive DFS exploring the successors of each new vertex in some order) *)
Theorem pre_order_is_dfs : forall (V E : Type) (HV : Vertex V) (HE : Edge E) (g : graph V E) r l,
  compute_pre_order g r = Ok l -> explore g [] r l.
Proof. intros V E HV HE g r l. exact (PreOrderIsDfs.compute_pre_order_is_dfs g r l). Qed.
Print Assumptions pre_order_is_dfs.

(* [U] loops_correct for the MODEL function, given that the idom map passes idom_check: headers = targets of back
   edges, node set of the loop of h = the textbook natural loop (unreachable vertices are never absorbed) *)
Theorem compute_loops_correct : forall (V E : Type) (HV : Vertex V) (HE : Edge E) (g : graph V E) r m,
  GraphInv.graph_inv g -> has_vertex g r = true ->
  compute_immediate_dominators g r = Ok m -> idom_check (vertex_indices g) (edge_keys g) r m = true ->
  exists loops, compute_loops g r = Ok loops /\ nsorted (map fst loops) /\
    (forall h, In h (map fst loops) <-> is_header (edge_keys g) r h) /\
    (forall h L, In (h, L) loops -> forall x, In x L <-> in_loop (edge_keys g) r h x).
Proof. intros V E HV HE g r m Hgi Hr. exact (LoopModel.compute_loops_correct g Hgi r Hr m). Qed.
Print Assumptions compute_loops_correct.

(* [U] loop_tree_correct for the MODEL function, given that the idom map passes idom_check: a consistent graph
   whose vertices are exactly the natural loops (keyed by header) with an edge outer -> inner exactly when the
   loop of inner is nested in the loop of outer *)
Theorem compute_loop_tree_correct : forall (V E : Type) (HV : Vertex V) (HE : Edge E) (g : graph V E) r m,
  GraphInv.graph_inv g -> has_vertex g r = true ->
  compute_immediate_dominators g r = Ok m -> idom_check (vertex_indices g) (edge_keys g) r m = true ->
  exists loops t, compute_loops g r = Ok loops /\ compute_loop_tree g r = Ok t /\ GraphInv.graph_inv t /\
    (forall h L, vertex t h = Ok (h, L) <-> In (h, L) loops) /\
    (forall h, has_vertex t h = true <-> is_header (edge_keys g) r h) /\
    (forall a b, has_edge t a b = true <-> loop_nested (edge_keys g) r a b).
Proof. intros V E HV HE g r m Hgi Hr. exact (LoopTreeModel.compute_loop_tree_correct g Hgi r Hr m). Qed.
Print Assumptions compute_loop_tree_correct.

(* [U] transitive_preds_correct for the MODEL function (work list, fuel |V|^2+|V|+2): every vertex is a key and p is
   in the set of v exactly when there is a non-empty walk p ->+ v *)
Theorem transitive_preds_correct : forall (V E : Type) (HV : Vertex V) (HE : Edge E) (g : graph V E),
  GraphInv.graph_inv g ->
  exists P, compute_predecessors g = Ok P /\ nsorted (map fst P) /\
    (forall v, nm_mem v P = has_vertex g v) /\
    (forall v s, nm_get v P = Some s -> forall p, In p s <-> trans_pred (edge_keys g) p v).
Proof. intros V E HV HE g Hgi. exact (TransPredsModel.compute_predecessors_correct g Hgi). Qed.
Print Assumptions transitive_preds_correct.

(* ================================================================== round 3 *)

(* [U] compute_dfs_tree (model): a consistent graph that is a spanning tree of the reachable subgraph, rooted at
   the root, made of graph edges *)
Theorem compute_dfs_tree_correct : forall (V E : Type) (HV : Vertex V) (HE : Edge E) (g : graph V E) r,
  GraphInv.graph_inv g -> has_vertex g r = true ->
  exists t, compute_dfs_tree g r = Ok t /\ GraphInv.graph_inv t /\
    (forall v, has_vertex t v = true <-> reach (edge_keys g) r v) /\
    (forall p v, has_edge t p v = true -> edge (edge_keys g) p v /\ v <> r) /\
    (forall p p' v, has_edge t p v = true -> has_edge t p' v = true -> p = p') /\
    (forall v, reach (edge_keys g) r v -> v <> r -> exists p, has_edge t p v = true) /\
    (forall v, reach (edge_keys g) r v -> reach (edge_keys t) r v).
Proof. intros V E HV HE g r Hgi Hr. exact (DfsTreeModel.compute_dfs_tree_correct g Hgi r Hr). Qed.
Print Assumptions compute_dfs_tree_correct.

(* [U] compute_acyclic (model) *)
Theorem compute_acyclic_correct : forall (V E : Type) (HV : Vertex V) (HE : Edge E) (g : graph V E) r,
  GraphInv.graph_inv g -> has_vertex g r = true ->
  exists t, compute_acyclic g r = Ok t /\ GraphInv.graph_inv t /\
    is_acyclic_restriction (edge_keys g) (vertex_indices g) r (vertex_indices t) (edge_keys t).
Proof. intros V E HV HE g r Hgi Hr. exact (AcyclicGraphModel.compute_acyclic_correct g Hgi r Hr). Qed.
Print Assumptions compute_acyclic_correct.

(* [U] the model's pre-order is a depth-first pre-order in the sense of Graph/SpecDfs.v *)
Theorem pre_order_is_dfs_spec : forall (V E : Type) (HV : Vertex V) (HE : Edge E) (g : graph V E) r l,
  GraphInv.graph_inv g -> compute_pre_order g r = Ok l -> is_dfs_pre_order (edge_keys g) r l.
Proof. intros V E HV HE g r l Hgi. exact (PreOrderSpec.compute_pre_order_is_dfs_spec g Hgi r l). Qed.
Print Assumptions pre_order_is_dfs_spec.

(* [V] soundness of the last four executable oracles against Graph/SpecDfs.v: no oracle of the check is unverified *)
Theorem pre_order_check_sound : forall es r l, pre_dfs_check es r l = true -> is_dfs_pre_order es r l.
Proof. exact OracleDfsProofs.pre_dfs_check_sound. Qed.
Print Assumptions pre_order_check_sound.
Theorem post_order_check_sound : forall vs es r l,
  post_order_ok (mk_tab vs es r) es r l = true -> is_dfs_post_order es r l.
Proof. exact OracleDfsProofs.post_order_ok_sound. Qed.
Print Assumptions post_order_check_sound.
Theorem dfs_tree_check_sound : forall vs es r tv te,
  dfs_tree_ok (mk_tab vs es r) es r tv te = true -> is_spanning_tree es r tv te.
Proof. exact OracleDfsProofs.dfs_tree_ok_sound. Qed.
Print Assumptions dfs_tree_check_sound.
Theorem acyclic_graph_check_sound : forall vs es r tv te,
  acyclic_graph_ok (mk_tab vs es r) vs es r tv te = true -> is_acyclic_restriction es vs r tv te.
Proof. exact OracleDfsProofs.acyclic_graph_ok_sound. Qed.
Print Assumptions acyclic_graph_check_sound.

(* [U] towards Semi-NCA: the DFS-numbering facts for the very objects the model computes (dfs tree, its pre-order,
   number_from, dfs_parent): every reachable vertex and no other has a number, the number is the position in the
   order, the root is first and has no parent, every other reachable vertex has exactly one tree parent, which is a
   graph predecessor with a SMALLER number *)
Theorem snca_numbering : forall (V E : Type) (HV : Vertex V) (HE : Edge E) (g : graph V E) r,
  GraphInv.graph_inv g -> has_vertex g r = true ->
  exists dfs order, compute_dfs_tree g r = Ok dfs /\ compute_pre_order dfs r = Ok order /\
    NoDup order /\ (forall v, In v order <-> reach (edge_keys g) r v) /\ (exists rest, order = r :: rest) /\
    (forall v, (exists n, nm_get v (number_from 0 order) = Some n) <-> reach (edge_keys g) r v) /\
    (forall l1 v l2, order = l1 ++ v :: l2 -> nm_get v (number_from 0 order) = Some (N.of_nat (length l1))) /\
    dfs_parent dfs r = Ok None /\
    (forall v, reach (edge_keys g) r v -> v <> r ->
       exists p, dfs_parent dfs v = Ok (Some p) /\ edge (edge_keys g) p v /\ has_edge dfs p v = true /\
         exists np nv, nm_get p (number_from 0 order) = Some np /\ nm_get v (number_from 0 order) = Some nv /\ np < nv).
Proof. intros V E HV HE g r Hgi Hr. exact (SemiNcaFacts.snca_numbering g Hgi r Hr). Qed.
Print Assumptions snca_numbering.

(* [U] depth-first pre-orders (relational, Graph/SpecDfs.v) have no forward cross edges: an edge x -> y leads into the
   segment explored from x (the DFS subtree of x) or to a vertex listed before x *)
Theorem dfs_edge_lemma : forall es r l, is_dfs_pre_order es r l -> forall x y, In x l -> edge es x y ->
  exists l1 sx l3, l = l1 ++ sx ++ l3 /\ dfs_pre es l1 x sx /\ (In y l1 \/ In y sx).
Proof. exact DfsFacts.dfs_edge_lemma. Qed.
Print Assumptions dfs_edge_lemma.

(* [U] the path lemma of Lengauer-Tarjan: if v is listed no later than w in a depth-first pre-order, every walk from
   v to w passes through a common ancestor of v and w (anc z x: x lies in the segment explored from z) *)
Theorem path_lemma : forall es r l, is_dfs_pre_order es r l ->
  forall v p w, path es v p w -> In v l -> (idx v l <= idx w l)%nat ->
  exists z, In z (v :: p) /\ anc es l z v /\ anc es l z w.
Proof. intros es r l Hd. exact (PathLemma.path_lemma es r l Hd). Qed.
Print Assumptions path_lemma.

(* [U] semidominators over a depth-first pre-order and the recurrence evaluated by the `semi` loop (Lengauer-Tarjan
   Theorem 4, on candidates: sd_cand w s = there is a walk s -> .. -> w with at least one edge whose intermediate
   vertices are all numbered higher than w) *)
Theorem sd_cand_edge : forall es r l, is_dfs_pre_order es r l -> forall v w, In v l -> edge es v w -> sd_cand es l w v.
Proof. intros es r l Hd. exact (SemiDomTheory.sd_cand_edge es l). Qed.
Print Assumptions sd_cand_edge.
Theorem sd_cand_up : forall es r l, is_dfs_pre_order es r l -> forall v w u s,
  edge es v w -> anc es l u v -> (num l w < num l u)%nat -> sd_cand es l u s -> sd_cand es l w s.
Proof. intros es r l Hd. exact (SemiDomTheory.sd_cand_up es r l Hd). Qed.
Print Assumptions sd_cand_up.
Theorem sdom_recurrence : forall es r l, is_dfs_pre_order es r l -> forall w s,
  In w l -> w <> r -> sd_cand es l w s -> (forall s', sd_cand es l w s' -> (num l s <= num l s')%nat) ->
  (edge es s w /\ (num l s < num l w)%nat) \/
  (exists u v, edge es v w /\ anc es l u v /\ (num l w < num l u)%nat /\ sd_cand es l u s).
Proof. intros es r l Hd. exact (SemiDomTheory.sdom_recurrence es r l Hd). Qed.
Print Assumptions sdom_recurrence.

(* [U] the dominator theory behind the NCA step of Semi-NCA, over a depth-first pre-order *)
Theorem dom_anc : forall es r l, is_dfs_pre_order es r l -> forall d x, In x l -> dom es r d x -> anc es l d x.
Proof. exact SemiNcaTheory.dom_anc. Qed.
Print Assumptions dom_anc.
Theorem idom_anc_cand : forall es r l, is_dfs_pre_order es r l -> forall i w s,
  In w l -> idom es r i w -> sd_cand es l w s -> anc es l i s.
Proof. exact SemiNcaTheory.idom_anc_cand. Qed.
Print Assumptions idom_anc_cand.
Theorem cand_anc : forall es r l, is_dfs_pre_order es r l -> forall w s,
  In w l -> sd_cand es l w s -> (num l s < num l w)%nat -> anc es l s w.
Proof. exact SemiNcaTheory.cand_anc. Qed.
Print Assumptions cand_anc.
Theorem dom_between : forall es r l, is_dfs_pre_order es r l -> forall x v p,
  anc es l x v -> anc es l v p -> x <> v -> dom es r x p -> dom es r x v.
Proof. exact SemiNcaTheory.dom_between. Qed.
Print Assumptions dom_between.
(* the NCA step: a proper ancestor x of w numbered no later than any semidominator candidate of w, which dominates the
   proper ancestors of w below it, dominates w *)
Theorem nca_step : forall es r l, is_dfs_pre_order es r l -> forall x w,
  In w l -> w <> r -> anc es l x w -> x <> w ->
  (forall s, sd_cand es l w s -> (num l x <= num l s)%nat) ->
  (forall v, anc es l x v -> anc es l v w -> v <> w -> v <> x -> dom es r x v) ->
  dom es r x w.
Proof. exact SemiNcaTheory.nca_step. Qed.
Print Assumptions nca_step.

(* ======================================================================================================
   Round 3, part 2: UNBOUNDED Semi-NCA.  The model of compute_immediate_dominators is correct on EVERY graph. *)

(* [U] the validator is complete: the exact immediate-dominator relation (as a map with unique keys) passes it *)
Theorem idom_check_complete : forall vs es r (m : list (N * N)),
  NoDup (map fst m) -> (forall v d, In (v, d) m <-> idom es r d v) -> idom_check vs es r m = true.
Proof. exact SemiNcaFinal.idom_check_complete. Qed.
Print Assumptions idom_check_complete.

(* [U] the numbering Semi-NCA uses -- the pre-order of the DFS tree -- IS the depth-first pre-order of the graph, and
   the tree parent of w is the latest-numbered graph predecessor of w among those numbered before w *)
Theorem dfs_tree_pre_order : forall (V E : Type) (HV : Vertex V) (HE : Edge E) (g : graph V E) r T l,
  GraphInv.graph_inv g -> has_vertex g r = true ->
  compute_dfs_tree g r = Ok T -> compute_pre_order T r = Ok l ->
  compute_pre_order g r = Ok l /\ forall p w, has_edge T p w = true -> good (edge_keys g) l p w.
Proof. intros V E HV HE g r T l Hgi Hr. exact (DfsOrderModel.dfs_tree_pre_order g Hgi r Hr T l). Qed.
Print Assumptions dfs_tree_pre_order.

(* [U] DFS theory: latest-numbered earlier predecessor = DFS-tree parent (proper ancestor; its chain runs through
   every DFS ancestor) *)
Theorem dfs_parent_chain : forall es r l, is_dfs_pre_order es r l ->
  forall (pe : N -> N -> Prop), (forall p v, pe p v -> edge es p v /\ In p l /\ In v l /\ good es l p v) ->
  (forall p v, pe p v -> anc es l p v /\ p <> v) /\
  forall par, (forall v p, par v = Some p -> pe p v) -> (forall v, In v l -> v <> r -> exists p, par v = Some p) ->
    forall u v, anc es l u v -> chainp par v u.
Proof.
  intros es r l Hd pe Hpe. split; [exact (DfsParent.pe_anc es r l Hd pe Hpe)|].
  intros par. exact (DfsParent.anc_chain es r l Hd pe Hpe par).
Qed.
Print Assumptions dfs_parent_chain.

(* [U] SEMI-NCA: on every consistent graph with at most usize::MAX vertices and every root vertex, the model of
   compute_immediate_dominators (DFS tree, pre-order numbering, semidominator loop with path compression, NCA loop,
   translation back; all fuels included) returns Ok m, m is EXACTLY the textbook immediate-dominator relation
   (Spec.idom: dominators by path quantification), and m passes the validator idom_check *)
Theorem snca_correct : forall (V E : Type) (HV : Vertex V) (HE : Edge E) (g : graph V E) r,
  GraphInv.graph_inv g -> has_vertex g r = true -> N.of_nat (length (vertex_indices g)) <= usize_max ->
  exists m, compute_immediate_dominators g r = Ok m /\
            (forall v d, In (v, d) m <-> idom (edge_keys g) r d v) /\
            idom_check (vertex_indices g) (edge_keys g) r m = true.
Proof. intros V E HV HE g r Hgi Hr. exact (SemiNcaFinal.snca_correct g Hgi r Hr). Qed.
Print Assumptions snca_correct.

(* [U] hence the dominator family, loops and reducibility of the MODEL are correct unconditionally *)
Theorem dominator_tree_all : forall (V E : Type) (HV : Vertex V) (HE : Edge E) (g : graph V E) r,
  GraphInv.graph_inv g -> has_vertex g r = true -> N.of_nat (length (vertex_indices g)) <= usize_max ->
  exists t, compute_dominator_tree g r = Ok t /\ GraphInv.graph_inv t /\
    (forall v, has_vertex t v = true <-> reach (edge_keys g) r v) /\
    (forall d v, has_edge t d v = true <-> idom (edge_keys g) r d v).
Proof. intros V E HV HE g r Hgi Hr. exact (Unconditional.dominator_tree_all g Hgi r Hr). Qed.
Print Assumptions dominator_tree_all.
Theorem dominators_all : forall (V E : Type) (HV : Vertex V) (HE : Edge E) (g : graph V E) r,
  GraphInv.graph_inv g -> has_vertex g r = true -> N.of_nat (length (vertex_indices g)) <= usize_max ->
  exists doms, compute_dominators g r = Ok doms /\ nsorted (map fst doms) /\
    (forall v, In v (map fst doms) <-> reach (edge_keys g) r v) /\
    (forall v D, In (v, D) doms -> forall d, In d D <-> dom (edge_keys g) r d v).
Proof. intros V E HV HE g r Hgi Hr. exact (Unconditional.dominators_all g Hgi r Hr). Qed.
Print Assumptions dominators_all.
Theorem back_edges_all : forall (V E : Type) (HV : Vertex V) (HE : Edge E) (g : graph V E) r,
  GraphInv.graph_inv g -> has_vertex g r = true -> N.of_nat (length (vertex_indices g)) <= usize_max ->
  exists be, compute_back_edges g r = Ok be /\ forall a b, In (a, b) be <-> back_edge (edge_keys g) r a b.
Proof. intros V E HV HE g r Hgi Hr. exact (Unconditional.back_edges_all g Hgi r Hr). Qed.
Print Assumptions back_edges_all.
Theorem dominance_frontiers_all : forall (V E : Type) (HV : Vertex V) (HE : Edge E) (g : graph V E) r,
  GraphInv.graph_inv g -> has_vertex g r = true -> N.of_nat (length (vertex_indices g)) <= usize_max ->
  exists df, compute_dominance_frontiers g r = Ok df /\
    (forall x, nm_mem x df = has_vertex g x) /\
    (forall x F, nm_get x df = Some F -> forall y, In y F <-> in_DF (edge_keys g) r x y).
Proof. intros V E HV HE g r Hgi Hr. exact (Unconditional.dominance_frontiers_all g Hgi r Hr). Qed.
Print Assumptions dominance_frontiers_all.
Theorem is_reducible_all : forall (V E : Type) (HV : Vertex V) (HE : Edge E) (g : graph V E) r,
  GraphInv.graph_inv g -> has_vertex g r = true -> N.of_nat (length (vertex_indices g)) <= usize_max ->
  exists b, is_reducible g r = Ok b /\ (b = true <-> forward_edges_acyclic (edge_keys g) r).
Proof. intros V E HV HE g r Hgi Hr. exact (Unconditional.is_reducible_all g Hgi r Hr). Qed.
Print Assumptions is_reducible_all.
Theorem loops_all : forall (V E : Type) (HV : Vertex V) (HE : Edge E) (g : graph V E) r,
  GraphInv.graph_inv g -> has_vertex g r = true -> N.of_nat (length (vertex_indices g)) <= usize_max ->
  exists loops, compute_loops g r = Ok loops /\ nsorted (map fst loops) /\
    (forall h, In h (map fst loops) <-> is_header (edge_keys g) r h) /\
    (forall h L, In (h, L) loops -> forall x, In x L <-> in_loop (edge_keys g) r h x).
Proof. intros V E HV HE g r Hgi Hr. exact (Unconditional.loops_all g Hgi r Hr). Qed.
Print Assumptions loops_all.
Theorem loop_tree_all : forall (V E : Type) (HV : Vertex V) (HE : Edge E) (g : graph V E) r,
  GraphInv.graph_inv g -> has_vertex g r = true -> N.of_nat (length (vertex_indices g)) <= usize_max ->
  exists loops t, compute_loops g r = Ok loops /\ compute_loop_tree g r = Ok t /\ GraphInv.graph_inv t /\
    (forall h L, vertex t h = Ok (h, L) <-> In (h, L) loops) /\
    (forall h, has_vertex t h = true <-> is_header (edge_keys g) r h) /\
    (forall a b, has_edge t a b = true <-> loop_nested (edge_keys g) r a b).
Proof. intros V E HV HE g r Hgi Hr. exact (Unconditional.loop_tree_all g Hgi r Hr). Qed.
Print Assumptions loop_tree_all.
