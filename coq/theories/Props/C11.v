(* Props/C11.v -- property theorems only *)
From Coq Require Import NArith List.
From Falcon Require Import Base.Res Graph.NMap Graph.Graph Graph.Algo Graph.Spec Graph.Oracle Graph.C11Check.
