(* Props/C02.v -- property theorems only (MIPS part; the PowerPC part of C02 is covered by the sampled
   comparison only, see notes/C02.md) *)
From Coq Require Import ZArith List.
From Falcon Require Import Base.Res IL.Func Exec.Sem Isa.ILRun Isa.Mips Isa.MipsLift Isa.MipsProofs Isa.MipsAll Isa.C02Check Isa.MipsRefuted.
From Falcon Require Isa.Ppc Isa.PpcLift Isa.PpcProofs.
Import ListNotations.
Local Open Scope Z_scope.

(* 1. [U] per-form correctness of the lifter mirror, EVERY non-control form the lifter handles except rdhwr
      (proved_plain): add addu sub subu and or xor nor slt sltu movn movz mul, sll srl sra, sllv srlv srav,
      addi addiu slti sltiu andi ori xori, lui, clz clo (induction on the counter), mult multu div divu madd maddu
      msub msubu, mfhi mflo mthi mtlo, lb lbu lh lhu lw ll lwl lwr, sb sh sw sc swl swr (both endiannesses),
      teq break syscall sync pref (and capstone's aliases move, negu, nop).
      For ALL register / immediate fields, ALL lifting addresses, ALL well-formed machine states and ALL IL states
      embedding them (memory forms: whose memory maps the bytes read, and for which the ISA raises no
      AddressError -- `access_ok`): the builder raises no sort error, and running its graph yields the state (or
      the exception) the ISA specification prescribes; `branching_condition` is left alone. *)
Theorem mips_plain_forms_correct : forall bg i, proved_plain i = true -> fields_ok i -> plain_correct bg i.
Proof. exact proved_plain_correct. Qed.
Print Assumptions mips_plain_forms_correct.

(* 2. [U] the translated block of one non-control instruction: graphs, then the successor = next pc *)
Theorem mips_single_block_correct : forall bg a w i temps s st,
  decode w = Some i -> is_control i = false -> plain_correct bg i ->
  wf_m s -> big s = bg -> pc s = a -> 0 <= a -> a + 8 < 2 ^ 32 -> emb s st -> temps_ok (nth 0 temps []) ->
  access_ok i s (st_mem st) -> temps_distinct i (nth 0 temps []) ->
  match mirror_block bg a [w] temps with
  | None => True
  | Some l => block_post (mrun [w] s) st (run_block (map snd (fst l)) (snd l) st)
  end.
Proof. exact single_block_correct. Qed.
Print Assumptions mips_single_block_correct.

(* 3. [U] every branch / jump form (j jal jr jalr beq bne blez bgtz bltz bgez bltzal bgezal, aliases b beqz
      bnez bal), for EVERY delay-slot instruction form that has a per-form theorem: condition, target
      and link value come from the state before the branch, the slot executes, then control transfers.
      jr / jalr: for slots that leave the target register unchanged (`target_stable`; the complement is
      the known finding kf:mips-jr-jalr-target-read-after-slot, witness below). *)
Theorem mips_control_correct : forall bg b, is_control b = true -> branch_correct bg b.
Proof. exact control_correct. Qed.
Print Assumptions mips_control_correct.

Theorem mips_branch_block_correct : forall bg a w1 w2 b sl temps s st,
  decode w1 = Some b -> decode w2 = Some sl -> is_control b = true -> is_control sl = false ->
  branch_correct bg b -> plain_correct bg sl -> branch_ok a b -> target_stable b sl s ->
  wf_m s -> big s = bg -> pc s = a -> 0 <= a -> a + 8 < 2 ^ 32 -> emb s st -> temps_ok (nth 1 temps []) ->
  access_ok sl (link_state b s) (st_mem st) -> temps_distinct sl (nth 1 temps []) ->
  match mirror_block bg a [w1; w2] temps with
  | None => True
  | Some l => block_post (mrun [w1; w2] s) st (run_block (map snd (fst l)) (snd l) st)
  end.
Proof. exact branch_block_correct. Qed.
Print Assumptions mips_branch_block_correct.

(* 4. the executable side conditions the tie evaluates imply the theorems' hypotheses *)
Theorem mips_fields_okb_ok : forall i, fields_okb i = true -> fields_ok i.
Proof. exact fields_okb_ok. Qed.
Print Assumptions mips_fields_okb_ok.
Theorem mips_nodup_temps_distinct : forall i ts, nodupN ts = true -> (2 <= length ts)%nat -> temps_distinct i ts.
Proof. exact nodupN_distinct. Qed.
Print Assumptions mips_nodup_temps_distinct.
Theorem mips_branch_okb_ok : forall a b, branch_okb a b = true -> branch_ok a b.
Proof. exact branch_okb_ok. Qed.
Print Assumptions mips_branch_okb_ok.
(* ... and conversely: the executable tests are exactly the hypotheses, so the tie never excludes an encoding
   that the theorems cover *)
Theorem mips_fields_okb_complete : forall i, fields_ok i -> fields_okb i = true.
Proof. exact fields_okb_complete. Qed.
Print Assumptions mips_fields_okb_complete.
Theorem mips_branch_okb_complete : forall a b, branch_ok a b -> branch_okb a b = true.
Proof. exact branch_okb_complete. Qed.
Print Assumptions mips_branch_okb_complete.

(* 5. known findings: witnesses *)
Theorem mips_jr_target_read_after_slot_refuted :
  witness_ok true 4198400 [52428808; 658046980] (mksample [(25, 4096)] 0 0 0) = false.
Proof. exact jr_target_read_after_slot_refuted. Qed.
Print Assumptions mips_jr_target_read_after_slot_refuted.
Theorem mips_unaligned_lw_refuted : witness_ok true 4198400 [2349334529] (mksample [] 0 0 7) = false.
Proof. exact unaligned_lw_refuted. Qed.
Print Assumptions mips_unaligned_lw_refuted.
(* 6. PowerPC [U]: every form the lifter accepts except stmw -- add subf addze addi/li addis/lis cmpwi cmplwi lbz lwz
      lwzu stw stwu mr nop rlwinm/slwi srawi mtlr mtctr mflr b bl blr bctr -- at the level of the translated block:
      for ALL fields, ALL lift addresses, ALL well-formed machine states and ALL IL states embedding them
      (GPRs, LR, CTR, CA, the 32 CR bits, memory sub-map), the builder raises no sort error and running graph +
      successor yields the ISA's next state and next instruction address.  Side conditions: cmpwi/cmplwi for
      states whose crN-so already equals XER[SO] (the IL has no XER[SO]); loads from mapped bytes; `b` with
      its target inside [0, 2^32). *)
Theorem ppc_forms_correct : forall i, PpcLift.pproved i = true -> PpcProofs.pfields_ok i -> PpcProofs.pcorrect i.
Proof. exact PpcProofs.pproved_correct. Qed.
Print Assumptions ppc_forms_correct.
Theorem ppc_fields_okb_ok : forall i, PpcLift.pfields_okb i = true -> PpcProofs.pfields_ok i.
Proof. exact PpcProofs.pfields_okb_ok. Qed.
Print Assumptions ppc_fields_okb_ok.
Theorem ppc_fields_okb_complete : forall i, PpcProofs.pfields_ok i -> PpcLift.pfields_okb i = true.
Proof. exact PpcProofs.pfields_okb_complete. Qed.
Print Assumptions ppc_fields_okb_complete.

(* the hypotheses are satisfiable: the sampled states of the check are well formed and embedded *)
Example mips_hypotheses_satisfiable :
  let s := mk_mstate true 4198400 (mksample [(8, 5)] 1 2 3) in
  wf_m s /\ emb s (embed s []).
Proof. exact hypotheses_satisfiable. Qed.
