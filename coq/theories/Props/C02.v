(* Props/C02.v -- property theorems only *)
From Coq Require Import ZArith.
From Falcon Require Import Isa.Mips Isa.ILRun Isa.MipsLift.
Local Open Scope Z_scope.
