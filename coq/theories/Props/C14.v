(* Props/C14.v -- property theorems only (filled in as the proofs land) *)
From Coq Require Import ZArith.
From Falcon Require Import Base.Res.
