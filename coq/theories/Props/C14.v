(* Props/C14.v -- property theorems only.
   func_shape / runs_equiv (lockstep) are the specification notions of Flow/DCESpec.v over the reference
   semantics Exec/Sem.v; dead_code_elimination is the model of Flow/DCE.v (tied to the Rust code by the
   case files). *)
From Coq Require Import ZArith List Bool.
From Falcon Require Import Base.Res IL.Const IL.Expr IL.Func IL.Loc Exec.Sem
     Flow.RD Flow.UseDef Flow.DCE Flow.DCESpec Flow.DCEProofs.
Import ListNotations.
Local Open Scope Z_scope.

(* 1. only operations are replaced, and only by `nop`: address, index, entry, exit, edges, block
      indices, phi nodes, instruction indices / addresses / positions are the input's.  Every function. *)
Theorem dce_shape : forall f g, dead_code_elimination f = Ok g -> func_shape f g.
Proof. exact (dce_shape_max MAX_STEPS). Qed.
Print Assumptions dce_shape.

(* 2. observational equivalence, by lock-step simulation: for every fuel and every initial state, as long
      as the input does not fault both runs are at the same location and take the same step, perform the
      same store (address and value) or none, reach an indirect branch with the same target and equal
      whole scalar states, reach an intrinsic with equal whole scalar states, and end a block without
      successors with equal whole scalar states.
      Hypotheses: C15's structural invariant, and scalars name their (name, ssa) key consistently
      (the typing discipline of Exec/Sem.v; executable sufficient condition: key_consistent_b). *)
Theorem dce_equiv : forall f g,
  cfg_inv (f_cfg f) = true -> key_consistent f -> dead_code_elimination f = Ok g ->
  forall fuel st, runs_equiv f g fuel st = true.
Proof. exact (dce_equiv_max MAX_STEPS). Qed.
Print Assumptions dce_equiv.

Theorem key_consistent_check : forall f,
  cfg_inv (f_cfg f) = true -> key_consistent_b f = true -> key_consistent f.
Proof. exact key_consistent_b_sound. Qed.
Print Assumptions key_consistent_check.

(* ... and the executable test is exactly the hypothesis: it never rejects a function that is key-consistent *)
Theorem key_consistent_check_complete : forall f, key_consistent f -> key_consistent_b f = true.
Proof. exact key_consistent_b_complete. Qed.
Print Assumptions key_consistent_check_complete.

(* the hypotheses are satisfiable, and elimination happens:
     B0: y = 7 ; x = y + y ; x = 1 ; intrinsic(undeclared effects)      -- only `x = y + y` is dead *)
Definition sx := mks 1%N 32 None.
Definition sy := mks 2%N 32 None.
Definition f_ex : func :=
  mkfunc 0 (mkcfg [mkblock 0 4 [mkinstr 0 (OAssign sy (EConst (mkc 32 7))) None;
                                mkinstr 1 (OAssign sx (EBin Add (EScalar sy) (EScalar sy))) None;
                                mkinstr 2 (OAssign sx (EConst (mkc 32 1))) None;
                                mkinstr 3 (OIntrinsic (mkintr 0%N [] None None)) None] []]
                  [] 1 (Some 0) (Some 0)) None.
Example ex_hyps : cfg_inv (f_cfg f_ex) = true /\ key_consistent_b f_ex = true /\
  match dead_code_elimination f_ex with
  | Ok g => List.map (fun b => List.map i_op (b_instrs b)) (f_blocks g) =
            [[OAssign sy (EConst (mkc 32 7)); ONop None; OAssign sx (EConst (mkc 32 1)); OIntrinsic (mkintr 0%N [] None None)]]
  | _ => False
  end.
Proof. vm_compute. repeat split. Qed.
