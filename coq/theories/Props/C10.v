(* Props/C10.v -- property theorems only *)
From Coq Require Import ZArith List NArith.
From Falcon Require Import Base.Res IL.Const IL.Expr IL.Func IL.Loc Exec.Sem SSA.SemSSA SSA.FuncEq SSA.SsaCheck
     SSA.SsaSound SSA.SsaModel SSA.SsaTotal SSA.SsaFresh SSA.SsaArity SSA.SsaIdf SSA.SsaIdfModel SSA.SsaNonLocal SSA.SsaComplete SSA.SsaUncond SSA.SsaRenameEq SSA.C10Check.
From Falcon Require Graph.Spec Graph.Graph Graph.Algo.
Import ListNotations.
Local Open Scope Z_scope.

(* [U] The validator is sound.  If it accepts (f, f') then
   - f' differs from f only in `ssa` fields and phi nodes (erase_func f' = f);
   - f' is valid SSA (SsaSound.ssa_valid): every versioned scalar has exactly one definition and every
     versioned use is defined; along EVERY path from the entry every operand, declared intrinsic read,
     edge guard and phi slot names the most recent definition of its name (or is the unversioned entry
     value when there is none); every phi node has exactly one slot per predecessor, the `entry` slot
     iff its block is the entry;
   - f under Exec/Sem and f' under SSA/SemSSA (phi nodes select by incoming edge, in parallel) run in
     lock step from EVERY initial state for EVERY number of steps (SsaSound.simulates): same
     locations, same events (values assigned / loaded / stored, branch targets), same memory, same
     faults, and at every step sigma'(x, Gamma x) = sigma x for the names Gamma tracks, which include
     every scalar the instruction reads. *)
Theorem ssa_check_sound : forall f f', ssa_check f f' = true ->
  erase_func f' = f /\ ssa_valid f' /\ simulates f f'.
Proof. exact SsaSound.ssa_check_sound. Qed.
Print Assumptions ssa_check_sound.

(* the typing search is not trusted: ANY typing that passes the local-consistency check will do *)
Theorem check_typing_sound : forall f' T, check_typing f' T = true ->
  ssa_valid f' /\ simulates (erase_func f') f'.
Proof.
  intros f' T H. split; [exact (SsaSound.check_typing_valid f' T H)|exact (SsaSound.check_typing_simulates f' T H)].
Qed.
Print Assumptions check_typing_sound.

(* the one-step form of the simulation *)
Theorem ssa_step_sim : forall f' T, check_typing f' T = true ->
  forall l G st st', loc_ty f' T l = Some G -> st_rel G st st' ->
  res_sim (loc_ty f' T) (sem_step (erase_func f') l st) (ssa_step f' l st').
Proof. exact SsaSound.step_sim. Qed.
Print Assumptions ssa_step_sim.

(* reading of the typing inside [simulates]: at every step every operand of the instruction about to run
   has, at the version it names, the binding its name has in the original state *)
Theorem ssa_operands_agree : forall f' ty a b, item_sim f' ty a b ->
  forall i rs s, loc_instruction f' (ti_loc a) = Some i -> op_scalars_read (i_op i) = Some rs -> In s rs ->
  env_get (st_env (ti_before b)) (skey_of s) = env_get (st_env (ti_before a)) (sname s, None).
Proof. exact SsaSound.item_operands_agree. Qed.
Print Assumptions ssa_operands_agree.

(* [F] `ssa_model_passes_small` (74 676 enumerated functions) lives in SSA/SsaSmall.v, outside this file's
   dependency cone: several CPU-minutes of vm_compute, built by `bin/vcheck C10 --tier thorough`
   (PROP["coq_targets_thorough"]); its `Print Assumptions` is at the end of that file. *)

(* ================= round 2: the MODEL of the algorithm (SsaModel.ssa_model, tied to the Rust code [D]) ======= *)

(* [U] totality: on every function with an entry, cfg_inv and a block count that fits a usize the model returns Ok
   -- no Err, no Panic, no fuel exhaustion.  (Round 4: C11's unbounded correctness of Semi-NCA,
   Graph.SemiNcaFinal.snca_correct, discharges the former hypothesis `semi_nca_ok`.) *)
Theorem ssa_total : forall f e,
  cfg_inv (f_cfg f) = true -> g_entry (f_cfg f) = Some e -> blocks_fit (f_cfg f) ->
  exists f', ssa_model f = Ok f' /\ erase_func f' = erase_func f.
Proof. exact SsaUncond.ssa_total. Qed.
Print Assumptions ssa_total.

(* [U] unconditional: whatever the model returns differs from its input only in ssa fields and phi nodes *)
Theorem ssa_model_erase : forall f f', ssa_model f = Ok f' -> erase_func f' = erase_func f.
Proof. exact SsaFresh.ssa_model_erase. Qed.
Print Assumptions ssa_model_erase.

(* [U] unconditional: if the input carries no versions, the versioned definitions of the output are pairwise
   distinct (versions are fresh by construction of ScalarVersioning) *)
Theorem ssa_model_single_def : forall f f', ssa_model f = Ok f' ->
  (forall s, In s (all_defs f) -> sssa s = None) -> NoDup (def_keys f').
Proof. exact SsaFresh.ssa_model_single_def. Qed.
Print Assumptions ssa_model_single_def.

(* [U] unconditional: phi arity by construction of mk_phi -- condition (4) of the validator, as its boolean *)
Theorem ssa_model_arity : forall f f', ssa_model f = Ok f' ->
  (forall b, In b (f_blocks f) -> b_phis b = []) ->
  NoDup (map (fun e => (e_head e, e_tail e)) (f_edges f)) ->
  forallb (fun b => forallb (phi_arity_ok f' b) (b_phis b)) (f_blocks f') = true.
Proof. exact SsaArity.ssa_model_arity. Qed.
Print Assumptions ssa_model_arity.

(* completeness.  NOT proved:  ssa_correct_full :=
     forall f e, cfg_inv (f_cfg f) = true -> g_entry (f_cfg f) = Some e -> erase_func f = f ->
     exists f', ssa_model f = Ok f' /\ ssa_check f f' = true.
   Proved [U]: the model returns Ok f' and ssa_check f f' = remaining f', where
   `remaining` = (every versioned use is defined) && (local consistency of the inferred typing: block_ok,
   edge_check, entry_ok); conditions (1), struct_ok, the uniqueness half of (2) and (4) hold.
   `remaining f' = true` for the model's output (SsaComplete.ssa_remaining_open) is open: its dominance-frontier
   content is proved below (the idf_ theorems), the renaming invariant of the dominator-tree walk is not. *)
Theorem ssa_correct_partial : forall f e,
  cfg_inv (f_cfg f) = true -> g_entry (f_cfg f) = Some e -> erase_func f = f -> blocks_fit (f_cfg f) ->
  exists f', ssa_model f = Ok f' /\
             erase_func f' = f /\ func_eqb (erase_func f') f = true /\ struct_ok f' = true /\
             NoDup (map skey_of (filter versioned (all_defs f'))) /\
             forallb (fun b => forallb (phi_arity_ok f' b) (b_phis b)) (f_blocks f') = true /\
             ssa_check f f' = remaining f'.
Proof. exact SsaUncond.ssa_correct_partial'. Qed.
Print Assumptions ssa_correct_partial.

(* [U] unconditional: what the (repaired) compute_non_local_scalars guarantees -- every read not preceded by a write
   in its block, be it an operand, a declared intrinsic read or the guard of an outgoing edge, is non-local
   (the pristine code did not scan the guards: defect (b)) *)
Theorem non_locals_cover : forall g b, In b (g_blocks g) ->
  (forall pre i rest, b_instrs b = pre ++ i :: rest -> forall s, In s (reads i) ->
     mem_scalar s (compute_non_local_scalars g) = true \/ In s (flat_map writes pre)) /\
  (forall es e c s, cfg_edges_out g (b_index b) = Ok es -> In e es -> e_cond e = Some c -> In s (scalars c) ->
     mem_scalar s (compute_non_local_scalars g) = true \/ In s (flat_map writes (b_instrs b))).
Proof. exact SsaNonLocal.non_locals_cover. Qed.
Print Assumptions non_locals_cover.

(* [U] the classical iterated-dominance-frontier property of the placement (was to be the hypothesis
   `idf_covered`; it is proved): for every written non-local scalar sc the blocks INS that
   received a phi node for sc satisfy  DF(defs(sc) + INS) <= INS  for the textbook frontier in_DF *)
Theorem idf_covered_model : forall g g1 e, cfg_inv g = true -> g_entry g = Some e -> blocks_fit g ->
  insert_phi_nodes g = Ok g1 ->
  exists gr, cfg_graph g = Ok gr /\
    forall sc defs, In (sc, defs) (scalars_mutated_in_blocks g) ->
      mem_scalar sc (compute_non_local_scalars g) = true ->
      exists INS, (forall i, In i INS -> has_phi g1 i sc) /\
        forall d y, In (Z.of_N d) defs \/ In (Z.of_N d) INS ->
                    Spec.in_DF (Graph.edge_keys gr) (Z.to_N e) d y -> In (Z.of_N y) INS.
Proof. exact SsaUncond.idf_covered. Qed.
Print Assumptions idf_covered_model.

(* [U] what that closure buys (pure dominance, Graph/Spec.v): at a block s without a phi node every predecessor p
   sees exactly the definers that dominate idom(s) -- so dominator-tree renaming gives p's end and idom(s)'s end the
   same version --, and at an entry without phi no definer dominates a predecessor (the value is the entry value) *)
Theorem idf_no_phi_agree : forall es r (D Dphi : N -> Prop),
  (forall d y, D d -> Spec.in_DF es r d y -> Dphi y) ->
  forall i s p a, Spec.idom es r i s -> ~ Dphi s -> Spec.edge es p s -> Spec.reach es r p ->
  D a -> (Spec.dom es r a p <-> Spec.dom es r a i).
Proof. exact SsaIdf.no_phi_agree. Qed.
Print Assumptions idf_no_phi_agree.
Theorem idf_no_phi_entry : forall es r (D Dphi : N -> Prop),
  (forall d y, D d -> Spec.in_DF es r d y -> Dphi y) ->
  forall p a, ~ Dphi r -> Spec.edge es p r -> D a -> ~ Spec.dom es r a p.
Proof. exact SsaIdf.no_phi_entry. Qed.
Print Assumptions idf_no_phi_entry.

(* [U] reduction of the validator's edge obligations (names without phi node at the target) to the LOCAL equations
   of dominator-tree renaming: vin b / vout b = version of a fixed name in scope at the entry (after phi nodes) /
   at the end of block b.  Given the frontier closure (idf_covered_model) and
     (E1) idom i s, no phi at s -> vin s = vout i     (E3) no instruction write in b -> vout b = vin b
     (E0) no phi at the entry -> vin r = v0
   every predecessor of a phi-less block ends with the version the block starts with, and every predecessor of a
   phi-less entry ends with the entry value.  Open: that SsaModel.dom_walk establishes (E0)-(E3) for its output. *)
Theorem rename_edge_agree : forall (es : list (N * N)) (r : N) (vs : list N),
  (forall v, Spec.reach es r v -> In v vs) ->
  forall defs phi : N -> Prop,
  (forall d y, defs d \/ phi d -> Spec.in_DF es r d y -> phi y) ->
  forall (A : Type) (vin vout : N -> A),
  (forall i s, Spec.idom es r i s -> ~ phi s -> vin s = vout i) ->
  (forall b, Spec.reach es r b -> ~ defs b -> vout b = vin b) ->
  forall i s p, Spec.idom es r i s -> ~ phi s -> Spec.edge es p s -> Spec.reach es r p -> vout p = vin s.
Proof. exact SsaRenameEq.edge_agree. Qed.
Print Assumptions rename_edge_agree.
Theorem rename_entry_agree : forall (es : list (N * N)) (r : N) (vs : list N),
  (forall v, Spec.reach es r v -> In v vs) ->
  forall defs phi : N -> Prop,
  (forall d y, defs d \/ phi d -> Spec.in_DF es r d y -> phi y) ->
  forall (A : Type) (vin vout : N -> A) (v0 : A),
  (forall i s, Spec.idom es r i s -> ~ phi s -> vin s = vout i) ->
  (forall b, Spec.reach es r b -> ~ defs b -> vout b = vin b) ->
  (~ phi r -> vin r = v0) ->
  forall p, ~ phi r -> Spec.edge es p r -> Spec.reach es r p -> vout p = v0.
Proof. exact SsaRenameEq.entry_agree. Qed.
Print Assumptions rename_entry_agree.

(* ---- the hypotheses are satisfiable; the validator is not vacuous ---- *)
Definition sx (v : option N) := mks 0%N 32 v.
Definition sy (v : option N) := mks 1%N 32 v.
Definition sc := mks 2%N 1 None.
Definition k32 (v : Z) := EConst (mkc 32 v).
Definition not_ (e : expr) := EBin Cmpeq e (EConst (mkc 1 0)).

(* B0 -[c]-> B1{x=1}, B0 -[!c]-> B2{x=2}, B1,B2 -> B3{y=x} *)
Definition ex_f : func :=
  mkfunc 0 (mkcfg
    [mkblock 0 0 [] [];
     mkblock 1 1 [mkinstr 0 (OAssign (sx None) (k32 1)) None] [];
     mkblock 2 1 [mkinstr 0 (OAssign (sx None) (k32 2)) None] [];
     mkblock 3 1 [mkinstr 0 (OAssign (sy None) (EScalar (sx None))) None] []]
    [mkedge 0 1 (Some (EScalar sc)); mkedge 0 2 (Some (not_ (EScalar sc))); mkedge 1 3 None; mkedge 2 3 None]
    4 (Some 0) None) None.
Definition ex_f' : func :=
  mkfunc 0 (mkcfg
    [mkblock 0 0 [] [];
     mkblock 1 1 [mkinstr 0 (OAssign (sx (Some 1%N)) (k32 1)) None] [];
     mkblock 2 1 [mkinstr 0 (OAssign (sx (Some 2%N)) (k32 2)) None] [];
     mkblock 3 1 [mkinstr 0 (OAssign (sy (Some 1%N)) (EScalar (sx (Some 3%N)))) None]
                 [mkphi [(1, sx (Some 1%N)); (2, sx (Some 2%N))] None (sx (Some 3%N))]]
    [mkedge 0 1 (Some (EScalar sc)); mkedge 0 2 (Some (not_ (EScalar sc))); mkedge 1 3 None; mkedge 2 3 None]
    4 (Some 0) None) None.
Example ssa_check_accepts : ssa_check ex_f ex_f' = true.
Proof. vm_compute. reflexivity. Qed.

(* the defect found on the pristine tree: x assigned on both arms, read ONLY by the guards after the
   join: no phi node, guards keep the unversioned x *)
Definition gx (v : option N) := EBin Cmpeq (EScalar (sx v)) (k32 1).
Definition kf_blocks (v1 v2 : option N) (phis : list phi) :=
  [mkblock 0 0 [] [];
   mkblock 1 1 [mkinstr 0 (OAssign (sx v1) (k32 1)) None] [];
   mkblock 2 1 [mkinstr 0 (OAssign (sx v2) (k32 2)) None] [];
   mkblock 3 0 [] phis; mkblock 4 0 [] []; mkblock 5 0 [] []].
Definition kf_edges (vg : option N) :=
  [mkedge 0 1 (Some (EScalar sc)); mkedge 0 2 (Some (not_ (EScalar sc))); mkedge 1 3 None; mkedge 2 3 None;
   mkedge 3 4 (Some (gx vg)); mkedge 3 5 (Some (not_ (gx vg)))].
Definition kf_f : func := mkfunc 0 (mkcfg (kf_blocks None None []) (kf_edges None) 6 (Some 0) None) None.
Definition kf_f'_pristine : func :=
  mkfunc 0 (mkcfg (kf_blocks (Some 1%N) (Some 2%N) []) (kf_edges None) 6 (Some 0) None) None.
Definition kf_f'_fixed : func :=
  mkfunc 0 (mkcfg (kf_blocks (Some 1%N) (Some 2%N)
                     [mkphi [(1, sx (Some 1%N)); (2, sx (Some 2%N))] None (sx (Some 3%N))])
                  (kf_edges (Some 3%N)) 6 (Some 0) None) None.
Definition kf_state : sstate :=
  mkst [((0%N, None), mkc 32 0); ((2%N, None), mkc 1 1)] (mkbmem false []).

Example guard_only_output_rejected :
  ssa_check kf_f kf_f'_pristine = false /\ run_agree kf_f kf_f'_pristine 8 kf_state = false.
Proof. vm_compute. split; reflexivity. Qed.
Example guard_only_fixed_output_accepted :
  ssa_check kf_f kf_f'_fixed = true /\ run_agree kf_f kf_f'_fixed 8 kf_state = true.
Proof. vm_compute. split; reflexivity. Qed.

(* the hypotheses of ssa_total are satisfiable *)
Example ssa_total_ex : exists f', ssa_model ex_f = Ok f' /\ erase_func f' = erase_func ex_f.
Proof.
  apply (SsaUncond.ssa_total ex_f 0); [vm_compute; reflexivity|reflexivity|].
  unfold blocks_fit. vm_compute. intros H. discriminate H.
Qed.
