(* Props/C10.v -- property theorems only *)
From Coq Require Import ZArith List.
From Falcon Require Import Base.Res IL.Const IL.Expr IL.Func IL.Loc Exec.Sem SSA.SemSSA SSA.FuncEq SSA.SsaCheck.

(* condition (1) of the validator really is equality with the erasure *)
Theorem ssa_check_erase : forall f f', ssa_check f f' = true -> erase_func f' = f.
Proof.
  intros f f' H. unfold ssa_check in H. apply Bool.andb_true_iff in H. destruct H as [H _].
  apply func_eqb_sound. exact H.
Qed.
Print Assumptions ssa_check_erase.
