(* Props/C19.v -- property theorems only.
   Model: Elf/ElfModel.v (lib/loader/elf/elf.rs and the x86 path of elf_linker.rs after the repairs of
   notes/C19.md); inputs = what goblin parsed (header, program headers, symbol tables, PLT relocations) and
   the file bytes.  Specification and proofs: Elf/ElfProofs.v, on top of the C16 refinement.

   image_at file base phs x : the cell (byte, permissions) the property prescribes at address x:
       file bytes at p_vaddr + base, zero fill up to p_memsz, R/W/X translated; None outside every PT_LOAD
   seg_wf file base ph      : a PT_LOAD header is well-formed (inside the file, filesz <= memsz, no u64 wrap)
   rebase_ok e B            : every address the object mentions, plus B, is still a u64 *)
From Coq Require Import ZArith List String Lia.
From Falcon Require Import Base.Res Mem.Backing Mem.BackingSpec Mem.BackingProofs Mem.BackingShift Mem.BackingFree Elf.ElfModel Elf.ElfProofs Elf.ElfLink Elf.ElfMips Elf.ElfLinkN Elf.ElfMipsFull.
Import ListNotations.
Local Open Scope Z_scope.

(* [U] the memory denotes exactly the image -- file bytes, zero fill, permissions, nothing else -- and its
   sections are sorted, pairwise disjoint and non-empty (wf, from C16) *)
Theorem memory_image : forall (e : elfd) (base : Z),
  Forall (seg_wf (e_file e) base) (e_phdrs e) ->
  exists m, memory e base = Ok m /\ wf 0 m /\ forall x, abs m x = image_at (e_file e) base (e_phdrs e) x.
Proof. exact memory_image_thm. Qed.
Print Assumptions memory_image.

(* [U] architecture and endianness are those named in the header; PPC little-endian and every other
   machine are refused with an error, never a panic *)
Theorem arch_of_header : forall (machine : Z) (big : bool),
  match arch_of machine big with
  | Ok a =>
      (machine = 3 /\ arch_name a = "x86"%string) \/ (machine = 62 /\ arch_name a = "amd64"%string) \/
      (machine = 8 /\ arch_name a = (if big then "mips" else "mipsel")%string /\ arch_big a = big) \/
      (machine = 20 /\ big = true /\ arch_name a = "ppc"%string /\ arch_big a = true) \/
      (machine = 183 /\ arch_name a = (if big then "aarch64eb" else "aarch64")%string /\ arch_big a = big)
  | Err _ => (machine = 20 /\ big = false) \/ ~ In machine [3; 8; 20; 62; 183]
  | Panic => False
  end.
Proof. exact arch_of_header_thm. Qed.
Print Assumptions arch_of_header.

(* [U] rebase_uniform, four parts: memory (as a map: every cell B higher), function entries, symbols,
   program entry *)
Theorem rebase_uniform_memory : forall (e : elfd) (base : Z),
  Forall (seg_wf (e_file e) base) (e_phdrs e) -> Forall (seg_wf (e_file e) 0) (e_phdrs e) ->
  exists m0 mb, memory e 0 = Ok m0 /\ memory e base = Ok mb /\ forall x, abs mb (x + base) = abs m0 x.
Proof. exact memory_rebase_thm. Qed.
Print Assumptions rebase_uniform_memory.

(* ... and on the stored sections themselves: sections() at base B is sections() at base 0 with every key B higher
   (same cuts, same data, same permissions) *)
Theorem rebase_uniform_sections : forall (e : elfd) (B : Z),
  Forall (seg_wf (e_file e) B) (e_phdrs e) -> Forall (seg_wf (e_file e) 0) (e_phdrs e) ->
  exists m0, memory e 0 = Ok m0 /\ memory e B = Ok (kshift B m0).
Proof. exact sections_rebase_thm. Qed.
Print Assumptions rebase_uniform_sections.

Theorem rebase_uniform_entries : forall (e : elfd) (B : Z), rebase_ok e B ->
  exists l0, function_entries e 0 = Ok l0 /\ function_entries e B = Ok (map (shift1 B) l0).
Proof. exact entries_rebase_thm. Qed.
Print Assumptions rebase_uniform_entries.

Theorem rebase_uniform_symbols : forall (e : elfd) (B : Z), rebase_ok e B ->
  exists l0, symbols e 0 = Ok l0 /\ symbols e B = Ok (map (shiftS B) l0).
Proof. exact symbols_rebase_thm. Qed.
Print Assumptions rebase_uniform_symbols.

Theorem rebase_uniform_program_entry : forall (e : elfd) (B : Z), rebase_ok e B ->
  program_entry e 0 = Ok (e_entry e) /\ program_entry e B = Ok (e_entry e + B).
Proof. exact program_entry_rebase_thm. Qed.
Print Assumptions rebase_uniform_program_entry.

(* [U] entries_are: the function entries are exactly the defined function symbols (.dynsym and .symtab),
   the program entry and the user-supplied entries (stated at base 0; rebase_uniform_entries moves them) *)
Theorem entries_are : forall (e : elfd) (l : list fentry), rebase_ok e 0 -> function_entries e 0 = Ok l ->
  forall a, In a (map fst l) <->
            (exists s, In s (e_dynsyms e ++ e_syms e) /\ defined_function s /\ s_value s = a) \/
            a = e_entry e \/ In a (e_users e).
Proof. exact entries_are_thm. Qed.
Print Assumptions entries_are.

(* [U] reloc_once_partial: what is proved of reloc_once.  In the modelled two-object link (link2: main at base 0
   needing one library at 0x4200_0000) every value the relocations can write is looked up in the table
   st_add (st_add [] exports(main)) exports(lib), and every entry of that table is the st_value of a defined
   dynamic symbol plus the base of ITS object, added once.  Missing for the full statement: that after
   relocs_x86 each relocated word of the memory still holds that value (set32/frame reasoning over the whole
   relocation list) -- checked differentially only. *)
Theorem reloc_once_partial : forall (main lib : elfd) (ex1 ex2 : list symbol) (n : string) (v : Z),
  exported 0 (e_dynsyms main) = Ok ex1 -> exported LIB_BASE (e_dynsyms lib) = Ok ex2 ->
  st_get (st_add (st_add [] ex1) ex2) n = Some v ->
  (exists s, In s (e_dynsyms main) /\ n = s_name s /\ v = s_value s + 0) \/
  (exists s, In s (e_dynsyms lib) /\ n = s_name s /\ v = s_value s + LIB_BASE).
Proof. exact link_symbols_once_thm. Qed.
Print Assumptions reloc_once_partial.

(* [U] reloc_once, the memory side: the modelled x86 relocation pass (relocations_x86 over R_386_32 / GLOB_DAT /
   JMP_SLOT entries whose 4-byte slots are pairwise disjoint, each inside one stored section, each symbol
   registered) succeeds; afterwards every slot reads the registered address of its symbol mod 2^32, the section
   layout is unchanged and no other cell is altered.  With reloc_once_partial (the registered address is
   st_value + the base of the defining object, once) this is reloc_once for the two-object link. *)
Theorem reloc_once : forall (B : Z) (dynsyms : list sym) (st : symtab) (rs : list rel) (m : sections Z),
  wf 0 m -> 0 <= B -> Forall symbolic rs -> ForallOrdPairs apart rs ->
  Forall (fun r => 0 <= r_offset r /\ slot_ok m (r_offset r + B)) rs ->
  Forall (fun r => exists v, resolves dynsyms st r v) rs ->
  exists m', relocs_x86 B dynsyms st rs m = Ok m' /\ wf 0 m' /\ shape m' = shape m /\
    (forall r v, In r rs -> resolves dynsyms st r v -> read32 false (abs m') (r_offset r + B) = Some (v mod 4294967296)) /\
    (forall y, (forall r, In r rs -> ~ (r_offset r + B <= y < r_offset r + B + 4)) -> abs m' y = abs m y).
Proof. exact relocs_x86_once. Qed.
Print Assumptions reloc_once.

(* [U] the general x86 pass, R_386_RELATIVE included: rel_val is the word a relocation must leave in its slot --
   the registered address of its symbol mod 2^32 (R_386_32 / GLOB_DAT / JMP_SLOT), or the word found there plus
   the object's base (R_386_RELATIVE: rebased once; the code's u32 addition must not overflow).  Slots pairwise
   disjoint and inside one stored section: the pass succeeds, every slot reads its rel_val, layout and every other
   cell unchanged *)
Theorem reloc_once_relative : forall (B : Z) (dynsyms : list sym) (st : symtab) (rs : list rel) (m : sections Z),
  wf 0 m -> 0 <= B -> ForallOrdPairs apart rs ->
  Forall (fun r => 0 <= r_offset r /\ slot_ok m (r_offset r + B)) rs ->
  Forall (fun r => exists w, rel_val B dynsyms st m r w) rs ->
  exists m', relocs_x86 B dynsyms st rs m = Ok m' /\ wf 0 m' /\ shape m' = shape m /\
    (forall r w, In r rs -> rel_val B dynsyms st m r w -> read32 false (abs m') (r_offset r + B) = Some w) /\
    (forall y, (forall r, In r rs -> ~ (r_offset r + B <= y < r_offset r + B + 4)) -> abs m' y = abs m y).
Proof. exact relocs_x86_all. Qed.
Print Assumptions reloc_once_relative.

(* [U] reloc_once for the whole two-object link, hypotheses on the DESCRIPTION only (link_wf: PT_LOAD headers
   well-formed and pairwise apart within and across the objects, library without relocations of its own, main's
   relocation slots pairwise disjoint and each inside one PT_LOAD of main): the link succeeds and every slot
   reads the registered address of its symbol (= st_value + base of the defining object, reloc_once_partial).
   "Inside one stored section" is discharged: disjoint PT_LOADs end as one stored section each (Mem/BackingFree.v) *)
Theorem reloc_once_link : forall (main : elfd) (mrels : list rel) (lib : elfd) (lrels : list rel) (ex1 ex2 : list symbol),
  link_wf main mrels lib lrels ->
  exported 0 (e_dynsyms main) = Ok ex1 -> exported LIB_BASE (e_dynsyms lib) = Ok ex2 ->
  Forall symbolic (mrels ++ e_pltrelocs main) ->
  Forall (fun r => exists v, resolves (e_dynsyms main) (st_add (st_add [] ex1) ex2) r v) (mrels ++ e_pltrelocs main) ->
  exists m', link2 main mrels lib lrels = Ok m' /\ wf 0 m' /\
    forall r v, In r (mrels ++ e_pltrelocs main) -> resolves (e_dynsyms main) (st_add (st_add [] ex1) ex2) r v ->
                read32 false (abs m') (r_offset r + 0) = Some (v mod 4294967296).
Proof. exact link2_reloc_once. Qed.
Print Assumptions reloc_once_link.

(* link_wf is satisfiable: main = one 16-byte RW segment at 0x1000 with a JMP_SLOT for "f" at 0x1004,
   library = one segment at 0x100 defining the global function f = 0x104; the slot ends up holding 0x42000104 *)
Definition ex_main : elfd :=
  mkelfd 3 false 4096 [mkph 1 6 0 4096 16 16] [1; 2; 3; 4; 5; 6; 7; 8; 9; 10; 11; 12; 13; 14; 15; 16]
         [mksym "" 0 0 0; mksym "f" 0 0 18] [] [mkrel 4100 1 7] [].
Definition ex_lib : elfd :=
  mkelfd 3 false 0 [mkph 1 5 0 256 8 8] [1; 2; 3; 4; 5; 6; 7; 8] [mksym "" 0 0 0; mksym "f" 260 1 18] [] [] [].
Example link_wf_example : link_wf ex_main [] ex_lib [].
Proof.
  constructor.
  - repeat constructor; cbn; unfold U64, len, LIB_BASE; cbn; lia.
  - repeat constructor; cbn; unfold U64, len, LIB_BASE; cbn; lia.
  - repeat constructor.
  - repeat constructor.
  - intros a b [Ha|[]] [Hb|[]] _ _; subst; cbn; unfold LIB_BASE; lia.
  - reflexivity.
  - repeat constructor.
  - repeat constructor; cbn; [lia|]. eexists. split; [left; reflexivity|]. cbn. lia.
Qed.
Example link_example :
  option_map (fun m => read32 false (abs m) 4100) (match link2 ex_main [] ex_lib [] with Ok m => Some m | _ => None end)
  = Some (Some 1107296516).
Proof. vm_compute. reflexivity. Qed.

(* [U] reloc_once for relocations_mips (both endiannesses): whenever the pass succeeds on an invariant memory, every
   external global GOT entry (index i in [gotsym, symtabno), st_shndx = 0) holds the registered address of the
   symbol it names mod 2^32 -- for a symbol of another object its st_value + that object's base, once
   (reloc_once_partial) -- provided no R_MIPS_REL32 slot overlaps that GOT word *)
Theorem reloc_once_mips : forall (be : bool) (B : Z) (dynsyms : list sym) (st : symtab) (dyns : list (Z * Z)) (rels : list rel)
                                 (m m' : sections Z) (lg gs sn pg : Z),
  wf 0 m -> 0 <= B -> 0 <= pg -> 0 <= lg ->
  dyn_get dyns 1879048202 = Some lg -> dyn_get dyns 1879048211 = Some gs ->
  dyn_get dyns 1879048209 = Some sn -> dyn_get dyns 3 = Some pg ->
  relocs_mips be B dynsyms st dyns rels m = Ok m' ->
  wf 0 m' /\
  forall i s v, gs <= i < sn -> nth_sym dynsyms i = Some s -> s_shndx s = 0 -> st_get st (s_name s) = Some v ->
    (forall r, In r rels -> r_type r = 3 ->
       r_offset r + B + 4 <= pg + B + lg * 4 + 4 * (i - gs) \/ pg + B + lg * 4 + 4 * (i - gs) + 4 <= r_offset r + B) ->
    read32 be (abs m') (pg + B + lg * 4 + 4 * (i - gs)) = Some (v mod U32).
Proof. exact relocs_mips_once. Qed.
Print Assumptions reloc_once_mips.

(* [U] k DT_NEEDED libraries (linkn), hypotheses on the descriptions only (linkn_wf: main's and every library's
   PT_LOAD headers well-formed and pairwise apart, library i at 0x40000000 + i * 0x02000000 clear of every object
   before it, libraries without relocations of their own, symbol values exportable, main's slots pairwise disjoint
   and inside one PT_LOAD of main): the link succeeds, every symbolic slot of main reads the registered address
   of its symbol, and outside those slots the memory is exactly the union of the objects' images at their bases
   (libs_img: rebase_uniform for every object of the link -- each image is the base-0 image shifted, image_shift) *)
Theorem reloc_once_linkn : forall (main : elfd) (mrels : list rel) (libs : list (elfd * list rel)) (ex1 exs : list symbol),
  linkn_wf main mrels libs ->
  exported 0 (e_dynsyms main) = Ok ex1 -> libs_exports libs LIB_BASE0 = Ok exs ->
  Forall symbolic (mrels ++ e_pltrelocs main) ->
  Forall (fun r => exists v, resolves (e_dynsyms main) (st_add [] (ex1 ++ exs)) r v) (mrels ++ e_pltrelocs main) ->
  exists m', linkn main mrels libs = Ok m' /\ wf 0 m' /\
     (forall r v, In r (mrels ++ e_pltrelocs main) -> resolves (e_dynsyms main) (st_add [] (ex1 ++ exs)) r v ->
                  read32 false (abs m') (r_offset r + 0) = Some (v mod 4294967296)) /\
     (forall y, (forall r, In r (mrels ++ e_pltrelocs main) -> ~ (r_offset r + 0 <= y < r_offset r + 0 + 4)) ->
                abs m' y = libs_img libs LIB_BASE0 (image_at (e_file main) 0 (e_phdrs main)) y).
Proof. exact linkn_reloc_once. Qed.
Print Assumptions reloc_once_linkn.

(* [U] first definition wins: the registered address of a name is the first export carrying it, in the order
   main, library 1, ..., library k ... *)
Theorem link_symbol_first : forall (ex1 exs : list symbol) (n : string),
  st_get (st_add [] (ex1 ++ exs)) n = first_def n (ex1 ++ exs).
Proof. exact link_symbol_first. Qed.
Print Assumptions link_symbol_first.

(* [U] ... and every export of the k-th library (k = 0, 1, ...) is st_value + 0x40000000 + (k+1) * 0x02000000, once *)
Theorem link_exports_once : forall (libs : list (elfd * list rel)) (base : Z) (exs : list symbol),
  libs_exports libs base = Ok exs ->
  forall a n, In (a, n) exs ->
    exists l lr k s, nth_error libs k = Some (l, lr) /\ In s (e_dynsyms l) /\ n = s_name s /\
                     a = s_value s + (base + LIB_STEP * (Z.of_nat k + 1)) /\ s_value s <> 0 /\ s_shndx s <> 0.
Proof. exact libs_exports_once. Qed.
Print Assumptions link_exports_once.

(* [U] just_interpreter: hypotheses on the descriptions only; the loaded image is exactly main at 0 plus the PT_INTERP
   object at 0x40000000 (DT_NEEDED is not loaded), and main's slots read the registered addresses *)
Theorem interp_image : forall (main : elfd) (mrels : list rel) (interp : elfd) (irels : list rel) (ex1 ex2 : list symbol),
  linkn_wf_at INTERP_B0 main mrels [(interp, irels)] ->
  exported 0 (e_dynsyms main) = Ok ex1 -> exported LIB_BASE0 (e_dynsyms interp) = Ok ex2 ->
  Forall symbolic (mrels ++ e_pltrelocs main) ->
  Forall (fun r => exists v, resolves (e_dynsyms main) (st_add [] (ex1 ++ ex2)) r v) (mrels ++ e_pltrelocs main) ->
  exists m', link_interp main mrels interp irels = Ok m' /\ wf 0 m' /\
     (forall r v, In r (mrels ++ e_pltrelocs main) -> resolves (e_dynsyms main) (st_add [] (ex1 ++ ex2)) r v ->
                  read32 false (abs m') (r_offset r + 0) = Some (v mod 4294967296)) /\
     (forall y, (forall r, In r (mrels ++ e_pltrelocs main) -> ~ (r_offset r + 0 <= y < r_offset r + 0 + 4)) ->
                abs m' y = match image_at (e_file interp) LIB_BASE0 (e_phdrs interp) y with
                           | Some c => Some c
                           | None => image_at (e_file main) 0 (e_phdrs main) y
                           end).
Proof. exact link_interp_image. Qed.
Print Assumptions interp_image.

(* [U] the k-library link with R_386_RELATIVE in main as well, description level: rel_val_at is rel_val with the
   pre-relocation memory replaced by the image of the link (the addend of a RELATIVE relocation is the image word) *)
Theorem reloc_once_linkn_relative : forall (b0 : Z) (main : elfd) (mrels : list rel) (libs : list (elfd * list rel)) (ex1 exs : list symbol),
  linkn_wf_at b0 main mrels libs ->
  exported 0 (e_dynsyms main) = Ok ex1 -> libs_exports libs b0 = Ok exs ->
  let img := libs_img libs b0 (image_at (e_file main) 0 (e_phdrs main)) in
  let st := st_add [] (ex1 ++ exs) in
  Forall (fun r => exists w, rel_val_at 0 (e_dynsyms main) st img r w) (mrels ++ e_pltrelocs main) ->
  exists m', linkn_at b0 main mrels libs = Ok m' /\ wf 0 m' /\
     (forall r w, In r (mrels ++ e_pltrelocs main) -> rel_val_at 0 (e_dynsyms main) st img r w ->
                  read32 false (abs m') (r_offset r + 0) = Some w) /\
     (forall y, (forall r, In r (mrels ++ e_pltrelocs main) -> ~ (r_offset r + 0 <= y < r_offset r + 0 + 4)) -> abs m' y = img y).
Proof. exact linkn_at_reloc_all. Qed.
Print Assumptions reloc_once_linkn_relative.

(* [U] relocations_mips, all of it (memory level, both endiannesses): whenever the pass succeeds on an invariant memory
   and the R_MIPS_REL32 slots are pairwise disjoint and clear of the GOT [pg + B, pg + B + 4 * (lg + sn - gs)):
   (a) local GOT entries and (b) defined global entries hold their word + the base (the word of a defined global entry
   is its st_value in a linked object: st_value + base, once); (c) external entries hold the registered address of
   their symbol; (d) every R_MIPS_REL32 word holds addend + the address of the symbol it names (mod 2^32) -- the base
   for r_sym = 0, st_value + base for a local symbol, the RELOCATED GOT entry for a global one (the case repaired in
   90896ec); (e) every other cell is unchanged *)
Theorem reloc_once_mips_full : forall (be : bool) (B : Z) (dynsyms : list sym) (st : symtab) (dyns : list (Z * Z)) (rels : list rel)
                                      (m m' : sections Z) (lg gs sn pg : Z),
  wf 0 m -> 0 <= B -> 0 <= pg -> 0 <= lg -> 0 <= gs <= sn ->
  dyn_get dyns 1879048202 = Some lg -> dyn_get dyns 1879048211 = Some gs ->
  dyn_get dyns 1879048209 = Some sn -> dyn_get dyns 3 = Some pg ->
  ForallOrdPairs (fun r1 r2 => is_rel32 r1 -> is_rel32 r2 -> apart r1 r2) rels ->
  (forall r, In r rels -> is_rel32 r ->
     r_offset r + B + 4 <= pg + B \/ pg + B + 4 * (lg + (sn - gs)) <= r_offset r + B) ->
  Forall (fun r => is_rel32 r -> r_sym r < sn) rels ->
  relocs_mips be B dynsyms st dyns rels m = Ok m' ->
  let got j := pg + B + 4 * j in
  wf 0 m' /\
  (forall j, 0 <= j < lg -> exists v, read32 be (abs m) (got j) = Some v /\ read32 be (abs m') (got j) = Some ((v + B mod U32) mod U32)) /\
  (forall i s, gs <= i < sn -> nth_sym dynsyms i = Some s -> s_shndx s <> 0 ->
     exists v, read32 be (abs m) (got (lg + (i - gs))) = Some v /\ read32 be (abs m') (got (lg + (i - gs))) = Some ((v + B mod U32) mod U32)) /\
  (forall i s v, gs <= i < sn -> nth_sym dynsyms i = Some s -> s_shndx s = 0 -> st_get st (s_name s) = Some v ->
     read32 be (abs m') (got (lg + (i - gs))) = Some (v mod U32)) /\
  (forall r, In r rels -> is_rel32 r ->
     exists v add, read32 be (abs m) (r_offset r + B) = Some v /\ sym_add_spec be B dynsyms gs lg pg (abs m') r add /\
                   read32 be (abs m') (r_offset r + B) = Some ((v + add) mod 4294967296)) /\
  (forall y, ~ (pg + B <= y < pg + B + 4 * (lg + (sn - gs))) ->
             (forall r, In r rels -> is_rel32 r -> ~ (r_offset r + B <= y < r_offset r + B + 4)) -> abs m' y = abs m y).
Proof. exact relocs_mips_full. Qed.
Print Assumptions reloc_once_mips_full.

(* two libraries both defining f: the first (0x42000000) wins *)
Definition ex_lib2 : elfd :=
  mkelfd 3 false 0 [mkph 1 5 0 512 8 8] [1; 2; 3; 4; 5; 6; 7; 8] [mksym "" 0 0 0; mksym "f" 516 1 18] [] [] [].
Example linkn_example :
  option_map (fun m => read32 false (abs m) 4100)
             (match linkn ex_main [] [(ex_lib, []); (ex_lib2, [])] with Ok m => Some m | _ => None end)
  = Some (Some 1107296516).
Proof. vm_compute. reflexivity. Qed.

(* the hypotheses are satisfiable: a two-segment object with zero fill, loaded at 0x1000 *)
Example image_example :
  let e := mkelfd 3 false 4100 [mkph 1 5 0 4096 4 6; mkph 1 6 4 8192 2 2] [1; 2; 3; 4; 5; 6]
                  [] [mksym "f" 4100 1 18] [] [] in
  memory e 4096 = Ok [(8192, ([1; 2; 3; 4; 0; 0], 5)); (12288, ([5; 6], 3))]
  /\ function_entries e 4096 = Ok [(8196, Some "f"%string)]
  /\ program_entry e 4096 = Ok 8196.
Proof. vm_compute. repeat split; reflexivity. Qed.
