(* Props/C19.v -- property theorems only.
   Model: Elf/ElfModel.v (lib/loader/elf/elf.rs and the x86 path of elf_linker.rs after the repairs of
   notes/C19.md); inputs = what goblin parsed (header, program headers, symbol tables, PLT relocations) and
   the file bytes.  Specification and proofs: Elf/ElfProofs.v, on top of the C16 refinement.

   image_at file base phs x : the cell (byte, permissions) the property prescribes at address x:
       file bytes at p_vaddr + base, zero fill up to p_memsz, R/W/X translated; None outside every PT_LOAD
   seg_wf file base ph      : a PT_LOAD header is well-formed (inside the file, filesz <= memsz, no u64 wrap)
   rebase_ok e B            : every address the object mentions, plus B, is still a u64 *)
From Coq Require Import ZArith List String.
From Falcon Require Import Base.Res Mem.Backing Mem.BackingSpec Mem.BackingProofs Mem.BackingShift Elf.ElfModel Elf.ElfProofs Elf.ElfLink.
Import ListNotations.
Local Open Scope Z_scope.

(* [U] the memory denotes exactly the image -- file bytes, zero fill, permissions, nothing else -- and its
   sections are sorted, pairwise disjoint and non-empty (wf, from C16) *)
Theorem memory_image : forall (e : elfd) (base : Z),
  Forall (seg_wf (e_file e) base) (e_phdrs e) ->
  exists m, memory e base = Ok m /\ wf 0 m /\ forall x, abs m x = image_at (e_file e) base (e_phdrs e) x.
Proof. exact memory_image_thm. Qed.
Print Assumptions memory_image.

(* [U] architecture and endianness are those named in the header; PPC little-endian and every other
   machine are refused with an error, never a panic *)
Theorem arch_of_header : forall (machine : Z) (big : bool),
  match arch_of machine big with
  | Ok a =>
      (machine = 3 /\ arch_name a = "x86"%string) \/ (machine = 62 /\ arch_name a = "amd64"%string) \/
      (machine = 8 /\ arch_name a = (if big then "mips" else "mipsel")%string /\ arch_big a = big) \/
      (machine = 20 /\ big = true /\ arch_name a = "ppc"%string /\ arch_big a = true) \/
      (machine = 183 /\ arch_name a = (if big then "aarch64eb" else "aarch64")%string /\ arch_big a = big)
  | Err _ => (machine = 20 /\ big = false) \/ ~ In machine [3; 8; 20; 62; 183]
  | Panic => False
  end.
Proof. exact arch_of_header_thm. Qed.
Print Assumptions arch_of_header.

(* [U] rebase_uniform, four parts: memory (as a map: every cell B higher), function entries, symbols,
   program entry *)
Theorem rebase_uniform_memory : forall (e : elfd) (base : Z),
  Forall (seg_wf (e_file e) base) (e_phdrs e) -> Forall (seg_wf (e_file e) 0) (e_phdrs e) ->
  exists m0 mb, memory e 0 = Ok m0 /\ memory e base = Ok mb /\ forall x, abs mb (x + base) = abs m0 x.
Proof. exact memory_rebase_thm. Qed.
Print Assumptions rebase_uniform_memory.

(* ... and on the stored sections themselves: sections() at base B is sections() at base 0 with every key B higher
   (same cuts, same data, same permissions) *)
Theorem rebase_uniform_sections : forall (e : elfd) (B : Z),
  Forall (seg_wf (e_file e) B) (e_phdrs e) -> Forall (seg_wf (e_file e) 0) (e_phdrs e) ->
  exists m0, memory e 0 = Ok m0 /\ memory e B = Ok (kshift B m0).
Proof. exact sections_rebase_thm. Qed.
Print Assumptions rebase_uniform_sections.

Theorem rebase_uniform_entries : forall (e : elfd) (B : Z), rebase_ok e B ->
  exists l0, function_entries e 0 = Ok l0 /\ function_entries e B = Ok (map (shift1 B) l0).
Proof. exact entries_rebase_thm. Qed.
Print Assumptions rebase_uniform_entries.

Theorem rebase_uniform_symbols : forall (e : elfd) (B : Z), rebase_ok e B ->
  exists l0, symbols e 0 = Ok l0 /\ symbols e B = Ok (map (shiftS B) l0).
Proof. exact symbols_rebase_thm. Qed.
Print Assumptions rebase_uniform_symbols.

Theorem rebase_uniform_program_entry : forall (e : elfd) (B : Z), rebase_ok e B ->
  program_entry e 0 = Ok (e_entry e) /\ program_entry e B = Ok (e_entry e + B).
Proof. exact program_entry_rebase_thm. Qed.
Print Assumptions rebase_uniform_program_entry.

(* [U] entries_are: the function entries are exactly the defined function symbols (.dynsym and .symtab),
   the program entry and the user-supplied entries (stated at base 0; rebase_uniform_entries moves them) *)
Theorem entries_are : forall (e : elfd) (l : list fentry), rebase_ok e 0 -> function_entries e 0 = Ok l ->
  forall a, In a (map fst l) <->
            (exists s, In s (e_dynsyms e ++ e_syms e) /\ defined_function s /\ s_value s = a) \/
            a = e_entry e \/ In a (e_users e).
Proof. exact entries_are_thm. Qed.
Print Assumptions entries_are.

(* [U] reloc_once_partial: what is proved of reloc_once.  In the modelled two-object link (link2: main at base 0
   needing one library at 0x4200_0000) every value the relocations can write is looked up in the table
   st_add (st_add [] exports(main)) exports(lib), and every entry of that table is the st_value of a defined
   dynamic symbol plus the base of ITS object, added once.  Missing for the full statement: that after
   relocs_x86 each relocated word of the memory still holds that value (set32/frame reasoning over the whole
   relocation list) -- checked differentially only. *)
Theorem reloc_once_partial : forall (main lib : elfd) (ex1 ex2 : list symbol) (n : string) (v : Z),
  exported 0 (e_dynsyms main) = Ok ex1 -> exported LIB_BASE (e_dynsyms lib) = Ok ex2 ->
  st_get (st_add (st_add [] ex1) ex2) n = Some v ->
  (exists s, In s (e_dynsyms main) /\ n = s_name s /\ v = s_value s + 0) \/
  (exists s, In s (e_dynsyms lib) /\ n = s_name s /\ v = s_value s + LIB_BASE).
Proof. exact link_symbols_once_thm. Qed.
Print Assumptions reloc_once_partial.

(* [U] reloc_once, the memory side: the modelled x86 relocation pass (relocations_x86 over R_386_32 / GLOB_DAT /
   JMP_SLOT entries whose 4-byte slots are pairwise disjoint, each inside one stored section, each symbol
   registered) succeeds; afterwards every slot reads the registered address of its symbol mod 2^32, the section
   layout is unchanged and no other cell is altered.  With reloc_once_partial (the registered address is
   st_value + the base of the defining object, once) this is reloc_once for the two-object link. *)
Theorem reloc_once : forall (B : Z) (dynsyms : list sym) (st : symtab) (rs : list rel) (m : sections Z),
  wf 0 m -> 0 <= B -> Forall symbolic rs -> ForallOrdPairs apart rs ->
  Forall (fun r => 0 <= r_offset r /\ slot_ok m (r_offset r + B)) rs ->
  Forall (fun r => exists v, resolves dynsyms st r v) rs ->
  exists m', relocs_x86 B dynsyms st rs m = Ok m' /\ wf 0 m' /\ shape m' = shape m /\
    (forall r v, In r rs -> resolves dynsyms st r v -> read32 false (abs m') (r_offset r + B) = Some (v mod 4294967296)) /\
    (forall y, (forall r, In r rs -> ~ (r_offset r + B <= y < r_offset r + B + 4)) -> abs m' y = abs m y).
Proof. exact relocs_x86_once. Qed.
Print Assumptions reloc_once.

(* the hypotheses are satisfiable: a two-segment object with zero fill, loaded at 0x1000 *)
Example image_example :
  let e := mkelfd 3 false 4100 [mkph 1 5 0 4096 4 6; mkph 1 6 4 8192 2 2] [1; 2; 3; 4; 5; 6]
                  [] [mksym "f" 4100 1 18] [] [] in
  memory e 4096 = Ok [(8192, ([1; 2; 3; 4; 0; 0], 5)); (12288, ([5; 6], 3))]
  /\ function_entries e 4096 = Ok [(8196, Some "f"%string)]
  /\ program_entry e 4096 = Ok 8196.
Proof. vm_compute. repeat split; reflexivity. Qed.
