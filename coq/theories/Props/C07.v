(* Props/C07.v -- property theorems only.
   C07: the concrete executor implements the IL operational semantics exactly.
   Model: Exec/State.v (State::execute, symbolize_and_eval) + Exec/Driver.v (Driver::step);
   specification: Exec/Sem.v; vocabulary of the statements: Exec/DriverSpec.v.
   ty / sv : the width and SSA version of every scalar NAME (wf_names; the executor keys its state
   by name only);  lift : the re-lifting oracle of indirect branches that leave the program (trusted). *)
From Coq Require Import ZArith List Bool NArith.
From Falcon Require Import Base.Res IL.Const IL.Expr IL.Func IL.Loc IL.LocProofs Exec.Sem Exec.State Exec.Driver
  Exec.DriverSpec Exec.DriverProofs Exec.DriverClosure Mem.PagedTypes Mem.Paged Mem.PagedProofs Exec.PagedDriver.
Import ListNotations.
Local Open Scope Z_scope.

(* 1. [U] one step of Driver.step is exactly the step of the semantics: Next -> Ok at that location with
      that state; Goto a -> Ok at from_address a (outside the program: the re-lifting arm); end of a
      block without successor (Exit) -> Err ExecutorNoValidLocation; Stuck e -> Err (emap e)
      (emap: Sem's Unmapped is the executor's ExecutorInvalidAddress, every other kind coincides).
      Premises: well-formed program (cfg_inv, wf_expr, wf_op, wf_names, guarded fans), typed state,
      det_at (guards mutually exclusive and exhaustive here -- or one of the error situations),
      and the memory range of the operation does not wrap past 2^64 (top_at; a range ending exactly
      at 2^64 is covered). *)
Theorem step_refines : forall ty sv lift p pl fi l f x,
  wf_prog_b ty sv p = true -> ploc_apply p pl = Ok (fi, l) -> program_function p fi = Some f ->
  typed_b ty (x_scal x) = true -> mem_ok_b (x_mem x) = true ->
  det_at f l (DriverSpec.abs sv x) = true -> top_at f l (DriverSpec.abs sv x) = false ->
  refines lift sv p fi (step lift (mkd p pl x)) (sem_step f l (DriverSpec.abs sv x)).
Proof. exact DriverProofs.step_refines_main. Qed.
Print Assumptions step_refines.

(* the property's own premise is enough for det_at *)
Theorem guards_det_suffices : forall f l st, guards_det_here f l st = true -> det_at f l st = true.
Proof. exact DriverProofs.guards_det_here_det_at. Qed.
Print Assumptions guards_det_suffices.

(* 2. [U] all step counts: n steps of the driver are n steps of the semantics (branches resolved by
      from_address), from any VALID start location (C18's valid_loc: what locations(), forward() and
      from_address produce), as long as det_at / top_at hold along the SEMANTIC run (run_ok).  Closure of
      valid locations under forward / from_address is C18's forward_total / from_address_sound. *)
Theorem steps_refine : forall ty sv lift p n fi l f x,
  wf_prog_b ty sv p = true -> program_function p fi = Some f -> valid_loc f l = true ->
  typed_b ty (x_scal x) = true -> mem_ok_b (x_mem x) = true ->
  run_ok n p (mksc fi l (DriverSpec.abs sv x)) = true ->
  run_refines sv p (run lift n (mkd p (mkploc (Some fi) l) x)) (sem_prun n p (mksc fi l (DriverSpec.abs sv x))).
Proof. exact DriverClosure.steps_refine_main. Qed.
Print Assumptions steps_refine.

(* 3. [U] frame, for the executor model itself and without any premise: a successful step changes
      nothing but the written scalar / the bytes [index, index + bits/8). *)
Theorem step_frame : forall lift c c' fi l f, step lift c = Ok c' ->
  ploc_apply (d_prog c) (d_loc c) = Ok (fi, l) -> program_function (d_prog c) fi = Some f ->
  match l with
  | LInstr _ _ => forall i, loc_instruction f l = Some i -> op_frame (i_op i) (d_st c) (d_st c')
  | _ => d_st c' = d_st c
  end.
Proof. exact DriverProofs.step_frame_thm. Qed.
Print Assumptions step_frame.

(* 4. [U] determinism: whichever the order of the out-edges, the successor taken is THE successor whose
      guard evaluates to one in the new state. *)
Theorem step_deterministic : forall ty sv lift p pl fi l f x c',
  wf_prog_b ty sv p = true -> ploc_apply p pl = Ok (fi, l) -> program_function p fi = Some f ->
  typed_b ty (x_scal x) = true -> mem_ok_b (x_mem x) = true ->
  det_at f l (DriverSpec.abs sv x) = true -> top_at f l (DriverSpec.abs sv x) = false ->
  step lift (mkd p pl x) = Ok c' ->
  (forall a st', sem_step f l (DriverSpec.abs sv x) <> Goto a st') ->
  forall succs l'', forward f l = Ok succs -> In l'' succs ->
    edge_enabled f (abs_env sv (x_scal (d_st c'))) l'' = Ok true -> d_loc c' = mkploc (Some fi) l''.
Proof. exact DriverProofs.step_deterministic_main. Qed.
Print Assumptions step_deterministic.

(* 5. [U] errors are reported, never replaced by a value: whenever the semantics is stuck (undefined
      scalar in the operation or in an evaluated guard, unmapped byte, zero divisor, intrinsic, no
      guard holds, address wider than 64 bits) the step is Err of that kind, never Ok. *)
Theorem no_guessed_value : forall ty sv lift p pl fi l f x,
  wf_prog_b ty sv p = true -> ploc_apply p pl = Ok (fi, l) -> program_function p fi = Some f ->
  typed_b ty (x_scal x) = true -> mem_ok_b (x_mem x) = true ->
  det_at f l (DriverSpec.abs sv x) = true -> top_at f l (DriverSpec.abs sv x) = false ->
  (forall e, sem_step f l (DriverSpec.abs sv x) = Stuck e -> step lift (mkd p pl x) = Err (emap e)) /\
  (forall st' ev, sem_step f l (DriverSpec.abs sv x) = Exit st' ev -> step lift (mkd p pl x) = Err ENoLocation).
Proof. exact DriverProofs.no_guessed_value_main. Qed.
Print Assumptions no_guessed_value.

(* ... and these situations ARE stuck in the semantics *)
Theorem stuck_situations :
  (forall f b i ins st e, loc_instruction f (LInstr b i) = Some ins -> exec_op st (i_op ins) = Err e ->
     sem_step f (LInstr b i) st = Stuck e) /\
  (forall en s, env_get en (skey_of s) = None -> den en (EScalar s) = Err EExecScalar) /\
  (forall en o l r a b, den en l = Ok a -> den en r = Ok b -> cbits a = cbits b -> cval b = 0 ->
     In o [Divu; Modu; Divs; Mods] -> den en (EBin o l r) = Err EDivZero) /\
  (forall st i, exec_op st (OIntrinsic i) = Err EIntrinsic) /\
  (forall st dst index iv, den (st_env st) index = Ok iv -> cval iv < ADDR_LIMIT -> byte_w (sbits dst) = true ->
     bm_get (st_mem st) (cval iv) = None -> exec_op st (OLoad dst index) = Err EUnmapped) /\
  (forall f st ev l1 l2 t, enabled_locs f (st_env st) (l1 :: l2 :: t) = Ok [] ->
     choose f st ev (l1 :: l2 :: t) = Stuck ENoLocation) /\
  (forall f st ev succs e, succs <> [] -> enabled_locs f (st_env st) succs = Err e -> choose f st ev succs = Stuck e).
Proof. exact DriverProofs.stuck_situations_main. Qed.
Print Assumptions stuck_situations.

(* 6. [U] C07 o C08 in one statement: the SAME driver (PagedDriver.gstep, of which Driver.step is the
      byte-map instance: xstep_eq) run over the REAL paged-memory model (Mem/Paged.v, V = Constant,
      Paged.store / Paged.load COps) refines the semantics.  srel ps x: same scalars, and the byte map of x
      is C08's view `mabs` of the paged memory, which satisfies C08's invariant InvM (preserved: the new
      states are again related).  memw_prog_b: memory operands narrower than 2^63 bits (C08's bound).
      lift_compat: the re-lifting oracle cannot tell a paged memory from its byte view (trusted). *)
Theorem paged_exec_sim : forall ps x o, srel ps x -> mem_pre x o ->
  rres (erel pstate xstate srel) (pexecute ps o) (execute x o).
Proof. exact PagedDriver.pexecute_sim. Qed.
Print Assumptions paged_exec_sim.

Theorem driver_is_byte_instance : forall lift c, rmap dconf_of (xstep lift c) = step lift (dconf_of c).
Proof. exact PagedDriver.xstep_eq. Qed.
Print Assumptions driver_is_byte_instance.

Theorem paged_step_refines : forall ty sv lift plift,
  (forall pm bm a, mrel pm bm -> plift pm a = lift bm a) ->
  forall p pl fi l f x ps,
  wf_prog_b ty sv p = true -> memw_prog_b p = true ->
  ploc_apply p pl = Ok (fi, l) -> program_function p fi = Some f ->
  typed_b ty (x_scal x) = true -> mem_ok_b (x_mem x) = true -> srel ps x ->
  det_at f l (DriverSpec.abs sv x) = true -> top_at f l (DriverSpec.abs sv x) = false ->
  prefines ty sv p fi (pstep plift (mkg p pl ps)) (sem_step f l (DriverSpec.abs sv x)).
Proof. exact PagedDriver.paged_step_refines_main. Qed.
Print Assumptions paged_step_refines.

Theorem paged_steps_refine : forall ty sv lift plift,
  (forall pm bm a, mrel pm bm -> plift pm a = lift bm a) ->
  forall p n fi l f x ps,
  wf_prog_b ty sv p = true -> memw_prog_b p = true ->
  program_function p fi = Some f -> valid_loc f l = true ->
  typed_b ty (x_scal x) = true -> mem_ok_b (x_mem x) = true -> srel ps x ->
  run_ok n p (mksc fi l (DriverSpec.abs sv x)) = true ->
  prun_refines sv p (prun plift n (mkg p (mkploc (Some fi) l) ps)) (sem_prun n p (mksc fi l (DriverSpec.abs sv x))).
Proof. exact PagedDriver.paged_steps_refine_main. Qed.
Print Assumptions paged_steps_refine.

(* the relation is inhabited: a fresh paged memory and the empty byte map *)
Example paged_fresh_related : forall e, srel (mkp [] (mnew e None)) (mkx [] (mkbmem (big_of e) [])).
Proof. exact PagedDriver.srel_fresh. Qed.
Print Assumptions paged_fresh_related.

(* ---------- the hypotheses are satisfiable: a 3-block loop with 8/16/32/64-bit loads and stores ---------- *)
Module Ex.
Definition i := mks 0%N 32 None.   Definition b8 := mks 1%N 8 None.   Definition h16 := mks 2%N 16 None.
Definition w32 := mks 3%N 32 None. Definition q64 := mks 4%N 64 None. Definition pp := mks 5%N 32 None.
Definition ty (n : N) : Z := match n with 0%N => 32 | 1%N => 8 | 2%N => 16 | 3%N => 32 | 4%N => 64 | 5%N => 32 | _ => 0 end.
Definition k32 v := EConst (mkc 32 v).
Definition at_ off := EBin Add (EScalar pp) (k32 off).
Definition body : list instruction := [
  mkinstr 0 (OStore (at_ 0) (EExt Trun 8 (EScalar i))) (Some 4198400);
  mkinstr 1 (OLoad b8 (at_ 0)) (Some 4198404);
  mkinstr 2 (OStore (at_ 2) (EExt Trun 16 (EBin Add (EScalar i) (k32 4660)))) (Some 4198408);
  mkinstr 3 (OLoad h16 (at_ 2)) (Some 4198412);
  mkinstr 4 (OStore (at_ 4) (EBin Mul (EScalar i) (k32 3))) (Some 4198416);
  mkinstr 5 (OLoad w32 (at_ 4)) (Some 4198420);
  mkinstr 6 (OStore (at_ 8) (EBin Or (EBin Shl (EExt Zext 64 (EScalar w32)) (EConst (mkc 64 32)))
                                      (EExt Zext 64 (EScalar i)))) (Some 4198424);
  mkinstr 7 (OLoad q64 (at_ 8)) (Some 4198428);
  mkinstr 8 (OAssign i (EBin Add (EScalar i) (k32 1))) (Some 4198432) ].
Definition again := EBin Cmpltu (EScalar i) (k32 5).
Definition f : func := mkfunc 4198400
  (mkcfg [ mkblock 0 2 [mkinstr 0 (OAssign i (k32 0)) None; mkinstr 1 (OAssign pp (k32 4096)) None] [];
           mkblock 1 9 body [];
           mkblock 2 1 [mkinstr 0 (ONop None) None] [] ]
         [ mkedge 0 1 None; mkedge 1 1 (Some again); mkedge 1 2 (Some (EBin Cmpeq again (EConst (mkc 1 0)))) ]
         3 (Some 0) (Some 2))
  (Some 0).
Definition p : program := mkprog [(0, f)].
Definition x0 (big : bool) : xstate := mkx [] (mkbmem big []).
Definition sv : N -> option N := fun _ => None.
Definition nolift : bmem -> Z -> res func := fun _ _ => Err EOther.
Definition start := LInstr 0 0.
End Ex.

Example example_hypotheses :
  wf_prog_b Ex.ty Ex.sv Ex.p = true /\ valid_loc Ex.f Ex.start = true /\ memw_prog_b Ex.p = true /\
  (forall big, typed_b Ex.ty (x_scal (Ex.x0 big)) = true /\ mem_ok_b (x_mem (Ex.x0 big)) = true /\
               run_ok 70 Ex.p (mksc 0 Ex.start (DriverSpec.abs Ex.sv (Ex.x0 big))) = true /\
               sem_prun 70 Ex.p (mksc 0 Ex.start (DriverSpec.abs Ex.sv (Ex.x0 big))) = FExit /\
               run Ex.nolift 70 (mkd Ex.p (mkploc (Some 0) Ex.start) (Ex.x0 big)) = Err ENoLocation /\
               (* after 30 steps the loop is in its third iteration: both runs are still going and agree *)
               match sem_prun 30 Ex.p (mksc 0 Ex.start (DriverSpec.abs Ex.sv (Ex.x0 big))),
                     run Ex.nolift 30 (mkd Ex.p (mkploc (Some 0) Ex.start) (Ex.x0 big)) with
               | FRan c, Ok d => floc_eqb (sc_loc c) (pl_loc (d_loc d)) = true /\
                                 sget (x_scal (d_st d)) 4%N = Some (mkc 64 (2 ^ 32 * 3 + 1)) /\
                                 DriverSpec.abs Ex.sv (d_st d) = sc_st c
               | _, _ => False
               end).
Proof. split; [vm_compute; reflexivity|]. split; [vm_compute; reflexivity|]. split; [vm_compute; reflexivity|].
  intros [|]; vm_compute; repeat split; reflexivity. Qed.
Print Assumptions example_hypotheses.

(* the same loop run by the driver over the REAL paged-memory model (both endiannesses) *)
Example example_paged_run : forall e,
  prun (fun _ _ => Err EOther) 70 (mkg Ex.p (mkploc (Some 0) Ex.start) (mkp [] (mnew e None))) = Err ENoLocation /\
  match prun (fun _ _ => Err EOther) 30 (mkg Ex.p (mkploc (Some 0) Ex.start) (mkp [] (mnew e None))) with
  | Ok c => g_loc c = mkploc (Some 0) (LInstr 1 7) /\ sget (p_scal (g_st c)) 4%N = Some (mkc 64 (2 ^ 32 * 3 + 1))
  | _ => False
  end.
Proof. intros [|]; vm_compute; repeat split; reflexivity. Qed.
Print Assumptions example_paged_run.
