(* Props/C13.v -- property theorems only *)
From Coq Require Import ZArith List Bool NArith.
From Falcon Require Import Base.Res IL.Const IL.Expr IL.Func IL.Loc Exec.Sem Flow.Constants Flow.C13Check
     Flow.SPOProofs Flow.ConstantsProofs.
Import ListNotations.
Local Open Scope Z_scope.

(* The analysis is the REPAIRED one: at the function entry every scalar the function writes is Top, so a
   scalar assigned on only some paths joins to Top (the former known finding kf:not-definitely-assigned).
   Class of the theorems: the CFG invariant (C15) and c13_wf (executable: one width per written scalar name,
   assignment sources well sorted and of the destination's width).  No definite-assignment hypothesis. *)

(* 1. soundness of the reported constants, and 2. of Constants::eval.  Whenever the analysis returns Ok r,
      for EVERY execution of the reference semantics from the entry (any fuel, any initial state), before
      every executed location: a scalar for which a constant is reported and which the function has assigned
      earlier in that execution holds exactly that constant; an expression whose scalars the function has all
      assigned and for which eval answers Some v has the value v.  (The "assigned" premise is only needed for
      the very first visit of an entry block that lies inside a loop; everywhere else the proof gives the
      unconditional statement.) *)
Theorem constants_sound : forall f max r,
  cfg_inv (f_cfg f) = true -> c13_wf f = true ->
  constants_max max f = Ok r ->
  forall l0 st0 fuel ti asg cm s c,
    entry_loc f = Some l0 ->
    In (ti, asg) (with_assigned [] (sem_run fuel f l0 st0)) ->
    lm_get r (ti_loc ti) = Some cm ->
    cm_get cm s = Some (CConst c) -> key_mem (skey_of s) asg = true ->
    env_get (st_env (ti_before ti)) (skey_of s) = Some c.
Proof.
  intros f max r H1 H2 H4 l0 st0 fuel ti asg cm s c H7 H8 H9.
  exact (proj1 (ConstantsProofs.constants_sound f max r H1 H2 H4 l0 st0 fuel ti asg cm H7 H8 H9) s c).
Qed.
Print Assumptions constants_sound.

Theorem constants_eval_sound : forall f max r,
  cfg_inv (f_cfg f) = true -> c13_wf f = true ->
  constants_max max f = Ok r ->
  forall l0 st0 fuel ti asg cm e v,
    entry_loc f = Some l0 ->
    In (ti, asg) (with_assigned [] (sem_run fuel f l0 st0)) ->
    lm_get r (ti_loc ti) = Some cm ->
    wfb e = true -> cm_eval cm e = Ok (Some v) ->
    (forall x, In x (scalars e) -> key_mem (skey_of x) asg = true) ->
    den (st_env (ti_before ti)) e = Ok v.
Proof.
  intros f max r H1 H2 H4 l0 st0 fuel ti asg cm e v H7 H8 H9.
  exact (proj2 (ConstantsProofs.constants_sound f max r H1 H2 H4 l0 st0 fuel ti asg cm H7 H8 H9) e v).
Qed.
Print Assumptions constants_eval_sound.

(* the key lemma behind both: the engine's result is an EXACT solution of the data-flow equations (each
   stored map equals, as a map, the transfer of the join of its predecessors' maps), although the engine only
   compares with Constants::partial_cmp, for which {x:5} = {x:6} *)
Theorem constants_exact : forall f max m,
  cfg_inv (f_cfg f) = true -> srcs_wf f = true ->
  constants_states max f = Ok m -> exact_solution f m = true.
Proof. exact ConstantsProofs.constants_exact. Qed.
Print Assumptions constants_exact.

(* 3. whenever the fixed point is reached, the remap pass of constants() returns a map -- no index panic
      and no error, whichever blocks are unreachable from the entry *)
Theorem constants_remap_total : forall f max m,
  cfg_inv (f_cfg f) = true -> srcs_wf f = true ->
  constants_states max f = Ok m -> exists r, remap f m m = Ok r.
Proof. exact ConstantsProofs.constants_remap_total. Qed.
Print Assumptions constants_remap_total.

(* 4. completion: the analysis returns a result whenever the engine's step budget covers the C09 bound
      1 + out_degree * |locations| * (3*|written scalars| + 1); with the hard-coded budget 250000 this covers
      every function with  out_degree * |locations| * (3*|written scalars| + 1) <= 250000.  It holds for EVERY
      function with an entry, hence in particular for those in which no scalar can be read before it is
      assigned (the class of the property's first sentence). *)
Theorem constants_completes : forall f max,
  cfg_inv (f_cfg f) = true -> c13_wf f = true -> entry_loc f <> None ->
  (1 + out_degree f * (length (locations f) * S (3 * length (wkeys f))) <= S max)%nat ->
  exists r, constants_max max f = Ok r.
Proof. exact ConstantsProofs.constants_completes. Qed.
Print Assumptions constants_completes.

(* 5. and for ANY budget the only possible failure is FixedPointMaxSteps: never FixedPointOrdering, never a
      panic, never another error *)
Theorem constants_only_budget_error : forall f max,
  cfg_inv (f_cfg f) = true -> c13_wf f = true -> entry_loc f <> None ->
  (exists r, constants_max max f = Ok r) \/ constants_max max f = Err EMaxSteps.
Proof. exact ConstantsProofs.constants_only_budget_error. Qed.
Print Assumptions constants_only_budget_error.

(* the former known finding:  if a == 0 { b = 5 } else { nop x4 }; c = b + 1; nop
   scalars: a = 0, b = 1, c = 2 (32 bits) *)
Definition sa : scalar := mks 0%N 32 None.
Definition sb : scalar := mks 1%N 32 None.
Definition sc : scalar := mks 2%N 32 None.
Definition kf_cond : expr := EBin Cmpeq (EScalar sa) (EConst (mkc 32 0)).
Definition kf_f : func :=
  mkfunc 4096
    (mkcfg [mkblock 0 1 [mkinstr 0 (ONop None) None] [];
            mkblock 1 1 [mkinstr 0 (OAssign sb (EConst (mkc 32 5))) None] [];
            mkblock 2 4 [mkinstr 0 (ONop None) None; mkinstr 1 (ONop None) None; mkinstr 2 (ONop None) None; mkinstr 3 (ONop None) None] [];
            mkblock 3 2 [mkinstr 0 (OAssign sc (EBin Add (EScalar sb) (EConst (mkc 32 1)))) None; mkinstr 1 (ONop None) None] []]
           [mkedge 0 1 (Some kf_cond); mkedge 0 2 (Some (EBin Cmpeq kf_cond (EConst (mkc 1 0))));
            mkedge 1 3 None; mkedge 2 3 None]
           4 (Some 0) (Some 3)) None.
Definition kf_st0 : sstate :=
  mkst [((0%N, None), mkc 32 1); ((1%N, None), mkc 32 9); ((2%N, None), mkc 32 0)] (mkbmem false []).

(* the hypotheses are satisfiable on a function that is NOT def_assigned, and the repaired analysis reports
   b = Top, c = Top before the final nop (the unrepaired one reported c = 6, contradicted by a = 1, b = 9) *)
Example constants_half_assigned_repaired :
  (cfg_inv (f_cfg kf_f) && c13_wf kf_f && negb (def_assigned kf_f) &&
   match constants_max 3000 kf_f with
   | Ok r => match lm_get r (LInstr 3 1) with
             | Some cm => cmap_eqb cm [(sb, CTop); (sc, CTop)]
             | None => false
             end && forallb (item_ok r) (with_assigned [] (sem_run 32 kf_f (LInstr 0 0) kf_st0))
   | _ => false
   end) = true.
Proof. vm_compute. reflexivity. Qed.
Print Assumptions constants_half_assigned_repaired.
