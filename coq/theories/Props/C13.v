(* Props/C13.v -- property theorems only *)
From Coq Require Import ZArith.
From Falcon Require Import Base.Res Flow.Constants.
