(* Props/C06.v -- property theorems only *)
From Coq Require Import ZArith List.
From Falcon Require Import Base.Res IL.Const IL.Expr IL.Func Exec.Sem Lift.Lang Lift.Recover Lift.C06Check Lift.RecoverProofs.
Import ListNotations.

(* 1. the validator run on every recovered function is sound: acceptance means the two graphs read exactly
      the same finite words of (address, operation) items and guards from their entries *)
Theorem lang_bisim_sound : forall g1 g2, lang_bisim g1 g2 = true -> forall w, lang g1 w <-> lang g2 w.
Proof. exact Lang.lang_bisim_sound. Qed.
Print Assumptions lang_bisim_sound.

(* the same from arbitrary positions (used by C15 for `g` against `merge g`) *)
Theorem bisim_from_sound : forall g1 g2 p1 p2, bisim_from g1 g2 (p1, p2) = true ->
  forall w, lang_from g1 p1 w <-> lang_from g2 p2 w.
Proof. exact Lang.bisim_from_sound. Qed.
Print Assumptions bisim_from_sound.

(* 2. the language is prefix closed (it is a set of execution prefixes) *)
Theorem lang_prefix_closed : forall g w1 w2, lang g (w1 ++ w2) -> lang g w1.
Proof. exact Lang.lang_prefix_closed. Qed.
Print Assumptions lang_prefix_closed.

(* 3. execution is a function of the word read: graphs with equal languages have the same feasible
      executions (same instruction addresses and operations in the same order, same states) from every state,
      for EVERY interpretation of instruction items and guards *)
Theorem lang_eq_feasible : forall St do_ins holds g1 g2, (forall w, lang g1 w <-> lang g2 w) ->
  forall s w tr, feasible St do_ins holds g1 s w tr <-> feasible St do_ins holds g2 s w tr.
Proof. exact Lang.lang_eq_feasible. Qed.
Print Assumptions lang_eq_feasible.

(* 4. what acceptance means for the deterministic executor (exactly one enabled guard, as Exec/Sem.v):
      if the checker accepts two graphs whose branching points carry pairwise distinct guards, then from the
      entries, for every interpretation, every initial state and EVERY number of visible steps, both execute
      the same items through the same states and end with the same outcome *)
Theorem lang_bisim_exec : forall St do_ins holds g1 g2,
  lang_bisim g1 g2 = true -> det g1 = true -> det g2 = true ->
  forall n s, pexec_entry St do_ins holds g1 n s = pexec_entry St do_ins holds g2 n s.
Proof. exact Lang.lang_bisim_exec. Qed.
Print Assumptions lang_bisim_exec.

(* the instance given by the reference IL semantics (Exec/Sem.v: exec_op, den) *)
Theorem lang_bisim_exec_sem : forall g1 g2,
  lang_bisim g1 g2 = true -> det g1 = true -> det g2 = true ->
  forall n s, pexec_entry sstate sem_do sem_holds g1 n s = pexec_entry sstate sem_do sem_holds g2 n s.
Proof. intros g1 g2. exact (Lang.lang_bisim_exec sstate sem_do sem_holds g1 g2). Qed.
Print Assumptions lang_bisim_exec_sem.

(* 5. the model of translate_function_extended (Lift/Recover.v, tied to the Rust code case by case): whatever
      the block translator returns, a recovered function never has an edge or an entry that names a missing
      block (the last clause of the property; the other structural clauses need tb_spec and are open) *)
Theorem recover_names_ok : forall tb fa manual f, recover tb fa manual = Ok f -> names_ok (f_cfg f) = true.
Proof. exact RecoverProofs.recover_names_ok. Qed.
Print Assumptions recover_names_ok.
