(* Props/C06.v -- property theorems only *)
From Coq Require Import ZArith List.
From Falcon Require Import Base.Res IL.Const IL.Expr IL.Func Exec.Sem Lift.Lang Lift.LangSem Lift.Recover Lift.C06Check Lift.RecoverProofs Lift.RecoverLang Lift.RecoverManual Cfg.SOps Cfg.SProofs Cfg.MergeLift.
Import ListNotations.

(* 1. the validator run on every recovered function is sound: acceptance means the two graphs read exactly
      the same finite words of (address, operation) items and guards from their entries *)
Theorem lang_bisim_sound : forall g1 g2, lang_bisim g1 g2 = true -> forall w, lang g1 w <-> lang g2 w.
Proof. exact Lang.lang_bisim_sound. Qed.
Print Assumptions lang_bisim_sound.

(* the same from arbitrary positions (used by C15 for `g` against `merge g`) *)
Theorem bisim_from_sound : forall g1 g2 p1 p2, bisim_from g1 g2 (p1, p2) = true ->
  forall w, lang_from g1 p1 w <-> lang_from g2 p2 w.
Proof. exact Lang.bisim_from_sound. Qed.
Print Assumptions bisim_from_sound.

(* 2. the language is prefix closed (it is a set of execution prefixes) *)
Theorem lang_prefix_closed : forall g w1 w2, lang g (w1 ++ w2) -> lang g w1.
Proof. exact Lang.lang_prefix_closed. Qed.
Print Assumptions lang_prefix_closed.

(* 3. execution is a function of the word read: graphs with equal languages have the same feasible
      executions (same instruction addresses and operations in the same order, same states) from every state,
      for EVERY interpretation of instruction items and guards *)
Theorem lang_eq_feasible : forall St do_ins holds g1 g2, (forall w, lang g1 w <-> lang g2 w) ->
  forall s w tr, feasible St do_ins holds g1 s w tr <-> feasible St do_ins holds g2 s w tr.
Proof. exact Lang.lang_eq_feasible. Qed.
Print Assumptions lang_eq_feasible.

(* 4. what acceptance means for the deterministic executor (exactly one enabled guard, as Exec/Sem.v):
      if the checker accepts two graphs whose branching points carry pairwise distinct guards, then from the
      entries, for every interpretation, every initial state and EVERY number of visible steps, both execute
      the same items through the same states and end with the same outcome *)
Theorem lang_bisim_exec : forall St do_ins holds g1 g2,
  lang_bisim g1 g2 = true -> det g1 = true -> det g2 = true ->
  forall n s, pexec_entry St do_ins holds g1 n s = pexec_entry St do_ins holds g2 n s.
Proof. exact Lang.lang_bisim_exec. Qed.
Print Assumptions lang_bisim_exec.

(* the instance given by the reference IL semantics (Exec/Sem.v: exec_op, den) *)
Theorem lang_bisim_exec_sem : forall g1 g2,
  lang_bisim g1 g2 = true -> det g1 = true -> det g2 = true ->
  forall n s, pexec_entry sstate sem_do sem_holds g1 n s = pexec_entry sstate sem_do sem_holds g2 n s.
Proof. intros g1 g2. exact (Lang.lang_bisim_exec sstate sem_do sem_holds g1 g2). Qed.
Print Assumptions lang_bisim_exec_sem.

(* 5. the model of translate_function_extended (Lift/Recover.v, tied to the Rust code case by case): whatever
      the block translator returns, a recovered function never has an edge or an entry that names a missing
      block (the last clause of the property; the other structural clauses need tb_spec and are open) *)
Theorem recover_names_ok : forall tb fa manual f, recover tb fa manual = Ok f -> names_ok (f_cfg f) = true.
Proof. exact RecoverProofs.recover_names_ok. Qed.
Print Assumptions recover_names_ok.

(* 6. lang_eq_exec for Exec/Sem.v itself.  sem_obs m f st = the (instruction item, state after it) list read off
      Sem.sem_run m f (entry location) st.  If the checker accepts the graphs of two functions (so their languages
      are equal, theorem 1), both are det and pass the executable well-formedness test sem_wf (unique instruction
      index fields per block, one edge per (head, tail), edge tails and entry exist, no cycle of unguarded
      single-successor empty blocks), then from every initial state every finite Sem run of one is matched by a
      Sem run of the other that executed exactly the same instructions (address, operation) through exactly the
      same states. *)
Theorem lang_eq_exec_sem : forall f1 f2,
  lang_bisim (f_cfg f1) (f_cfg f2) = true -> det (f_cfg f1) = true -> det (f_cfg f2) = true ->
  sem_wf (f_cfg f1) = true -> sem_wf (f_cfg f2) = true ->
  forall st, (forall m1, exists m2, sem_obs m1 f1 st = sem_obs m2 f2 st) /\
             (forall m2, exists m1, sem_obs m1 f1 st = sem_obs m2 f2 st).
Proof.
  intros f1 f2 LB D1 D2 W1 W2. apply LangSem.lang_eq_exec_sem; try assumption; apply sem_wf_sound; assumption.
Qed.
Print Assumptions lang_eq_exec_sem.

(* the link used by 6: Sem runs of one function are exactly the runs of the position-level executor of theorem 4 *)
Theorem sem_pexec_link : forall f e, sem_wf (f_cfg f) = true -> g_entry (f_cfg f) = Some e ->
  (forall m st, exists n, sem_obs m f st = ins_only (fst (sem_pexec (f_cfg f) (silent_fuel (f_cfg f)) n (e, O) st))) /\
  (forall n st, exists m, ins_only (fst (sem_pexec (f_cfg f) (silent_fuel (f_cfg f)) n (e, O) st)) = sem_obs m f st).
Proof. intros f e W. apply LangSem.sem_pexec_link. apply sem_wf_sound. exact W. Qed.
Print Assumptions sem_pexec_link.

(* 7. recover_struct, clause "every reachable address contributes its IL exactly once".
      (a) without any hypothesis on the block translator: one instruction graph per distinct lifted address *)
Theorem recover_once : forall tb fa manual f, recover tb fa manual = Ok f ->
  exists results L,
    discover tb (discover_fuel tb manual) (fa :: flat_map (fun m => [mm_head m; mm_tail m]) manual) [] = Ok results /\
    NoDup (map fst L) /\
    (forall x, In x L -> exists a r, In (a, r) results /\ In x (br_instrs r)) /\
    (forall a r x, In (a, r) results -> In x (br_instrs r) -> In (fst x) (map fst L)) /\
    all_items (f_cfg f) = flat_map (fun x => all_items (snd x)) L.
Proof. exact RecoverProofs.recover_once. Qed.
Print Assumptions recover_once.

(*    (b) under tb_spec -- every block translation is a straight-line run of the program's instructions from its
      start address, ended by the first control transfer or cut ANYWHERE before it (so for every placement of the
      64-byte windows) -- the items of the recovered function are the disjoint union, over EXACTLY the addresses
      reachable from the function address and the manual-edge endpoints through direct successors, of the items
      of that address's instruction graph (the empty block for an unmapped address) *)
Theorem recover_struct_once : forall prog tb fa manual f, tb_spec prog tb -> recover tb fa manual = Ok f ->
  let roots := fa :: flat_map (fun m => [mm_head m; mm_tail m]) manual in
  exists L, NoDup (map fst L) /\
    (forall x, In x (map fst L) <-> reach prog roots x) /\
    (forall x ig, In (x, ig) L -> ig = graph_at prog x) /\
    all_items (f_cfg f) = flat_map (fun x => all_items (snd x)) L.
Proof. exact RecoverProofs.recover_struct_once. Qed.
Print Assumptions recover_struct_once.

(* tb_spec is satisfiable: a two-instruction program (add; halt) lifted as one block or as two *)
Example tb_spec_example :
  let g := empty_block_cfg in
  let prog := fun a : Z => if (a =? 0)%Z then Some (mkmi g 4%Z None) else if (a =? 4)%Z then Some (mkmi g 4%Z (Some [])) else None in
  tb_spec prog [(0, Ok (mkbr [(0, g); (4, g)] [])); (4, Ok (mkbr [(4, g)] []))]%Z /\
  tb_spec prog [(0, Ok (mkbr [(0, g)] [(4, None)])); (4, Ok (mkbr [(4, g)] []))]%Z.
Proof.
  cbv zeta. split; intros a; cbn [tb_lookup].
  - destruct (Z.eqb_spec 0%Z a) as [<-|N0].
    { cbn [br_instrs br_succ]. apply (rs_cons _ 0%Z (mkmi empty_block_cfg 4%Z None) _ _ eq_refl eq_refl).
      apply (rs_ctl _ 4%Z (mkmi empty_block_cfg 4%Z (Some [])) [] eq_refl eq_refl). }
    destruct (Z.eqb_spec 4%Z a) as [<-|N4].
    { apply (rs_ctl _ 4%Z (mkmi empty_block_cfg 4%Z (Some [])) [] eq_refl eq_refl). }
    destruct (Z.eqb_spec a 0%Z); [congruence|]. destruct (Z.eqb_spec a 4%Z); [congruence | reflexivity].
  - destruct (Z.eqb_spec 0%Z a) as [<-|N0].
    { apply (rs_cut _ 0%Z (mkmi empty_block_cfg 4%Z None) eq_refl eq_refl). }
    destruct (Z.eqb_spec 4%Z a) as [<-|N4].
    { apply (rs_ctl _ 4%Z (mkmi empty_block_cfg 4%Z (Some [])) [] eq_refl eq_refl). }
    destruct (Z.eqb_spec a 0%Z); [congruence|]. destruct (Z.eqb_spec a 4%Z); [congruence | reflexivity].
Qed.

(* 8. the model INCLUDING the final merge (C15: Cfg/MergeLift.v, re-verified here): merge never fails on a graph
      assembled by the model that passes the executable test merge_ready (cfg_inv + non-negative counters, evaluated
      per case in the tie), and the complete model has exactly the language of the merge-free one *)
Theorem merge_flang : forall g, SProofs.sinv g ->
  snd (SOps.s_merge g) = Ok tt /\ SProofs.sinv (fst (SOps.s_merge g)) /\
  forall w, lang (fst (SOps.s_merge g)) w <-> lang g w.
Proof. exact MergeLift.merge_flang. Qed.
Print Assumptions merge_flang.

Theorem recover_full_lang : forall tb fa manual f, recover tb fa manual = Ok f ->
  merge_ready (static_view (f_cfg f)) = true ->
  exists f', recover_full tb fa manual = Ok f' /\ f_addr f' = fa /\
             forall w, lang (f_cfg f') w <-> lang (static_view (f_cfg f)) w.
Proof. exact RecoverProofs.recover_full_lang. Qed.
Print Assumptions recover_full_lang.

(* 9. (round 3) the graph the model builds, edge by edge.  rspec prog roots fa lay g  says: g consists of one copy of
      the instruction graph of each address reachable from the roots (in the order lay), the internal edges of the
      copies, exactly one edge exit(x) -> entry(y) guarded c per machine-level link x -> y (successors with one
      target joined), no two edges with the same (head, tail), entry = the entry block of fa's copy, exit unset:
      g IS G_prog laid out in the order lay.  prog_ok: instruction graphs as the translators build them (blocks
      numbered 0.., edges inside, none leaving the exit block, no duplicate edge). *)
Theorem recover_graph_spec : forall prog tb fa f, tb_spec prog tb -> prog_ok prog -> recover tb fa [] = Ok f ->
  exists lay, rspec prog [fa] fa lay (f_cfg f) /\ f_addr f = fa.
Proof. exact RecoverLang.recover_graph_spec. Qed.
Print Assumptions recover_graph_spec.

(*    recover_struct, last clause: the entry block is (a re-indexed copy of) the entry block of the instruction graph
      of the instruction at the function address -- same IL instructions, same addresses -- and the exit is unset *)
Theorem recover_entry_block : forall prog tb fa f, tb_spec prog tb -> prog_ok prog -> recover tb fa [] = Ok f ->
  exists b en eb, g_entry (f_cfg f) = Some (b_index b) /\ find_block (g_blocks (f_cfg f)) (b_index b) = Some b /\
    g_entry (graph_at prog fa) = Some en /\ find_block (g_blocks (graph_at prog fa)) en = Some eb /\
    b_instrs b = b_instrs eb /\ g_exit (f_cfg f) = None.
Proof. exact RecoverLang.recover_entry_block. Qed.
Print Assumptions recover_entry_block.

(* 10. recover_lang_partial: without manual edges the recovered graph has exactly the language of G_prog *)
Theorem recover_lang_partial : forall prog tb fa f, tb_spec prog tb -> prog_ok prog -> recover tb fa [] = Ok f ->
  exists lay, rspec prog [fa] fa lay (f_cfg f) /\
    forall gp, rspec prog [fa] fa lay gp -> forall w, lang (f_cfg f) w <-> lang gp w.
Proof. exact RecoverLang.recover_lang_partial. Qed.
Print Assumptions recover_lang_partial.

(* 11. lang_eq_exec for Exec/Sem.v from language equality alone *)
Theorem lang_eq_exec_sem_lang : forall f1 f2,
  (forall w, lang (f_cfg f1) w <-> lang (f_cfg f2) w) -> det (f_cfg f1) = true -> det (f_cfg f2) = true ->
  sem_wf (f_cfg f1) = true -> sem_wf (f_cfg f2) = true ->
  forall st, (forall m1, exists m2, sem_obs m1 f1 st = sem_obs m2 f2 st) /\
             (forall m2, exists m1, sem_obs m1 f1 st = sem_obs m2 f2 st).
Proof. intros f1 f2 L D1 D2 W1 W2. apply LangSem.lang_eq_exec_sem_lang; try assumption; apply sem_wf_sound; assumption. Qed.
Print Assumptions lang_eq_exec_sem_lang.

(* 12. END TO END for the model of translate_function_extended including its final merge (7b + 8 + 10 + 11) *)
Theorem recover_executes_like_machine_code : forall prog tb fa f,
  tb_spec prog tb -> prog_ok prog -> recover tb fa [] = Ok f -> merge_ready (static_view (f_cfg f)) = true ->
  exists f' lay, recover_full tb fa [] = Ok f' /\ f_addr f' = fa /\ rspec prog [fa] fa lay (f_cfg f) /\
    forall gp, rspec prog [fa] fa lay (f_cfg gp) ->
      (forall w, lang (f_cfg f') w <-> lang (f_cfg gp) w) /\
      (det (f_cfg f') = true -> det (f_cfg gp) = true -> sem_wf (f_cfg f') = true -> sem_wf (f_cfg gp) = true ->
       forall st, (forall m1, exists m2, sem_obs m1 f' st = sem_obs m2 gp st) /\
                  (forall m2, exists m1, sem_obs m1 f' st = sem_obs m2 gp st)).
Proof. exact RecoverLang.recover_executes_like_machine_code. Qed.
Print Assumptions recover_executes_like_machine_code.

(* 13. (final round) the same with manual edges, outside the known-finding class: man_fit says that the block
       translation at every manual head ends where the straight-line run from the head ends (it fits one window).
       rspec_m: as rspec, with the requested edges exit(run_end h) -> entry(t) (the first request for a link wins) and
       the machine-level link edges that no request with a different guard overrides -- the oracle's convention. *)
Theorem recover_graph_spec_m : forall prog tb fa ms f,
  tb_spec prog tb -> prog_ok prog -> man_fit prog tb ms -> recover tb fa ms = Ok f ->
  exists lay, rspec_m prog ms (fa :: flat_map (fun m => [mm_head m; mm_tail m]) ms) fa lay (f_cfg f) /\ f_addr f = fa.
Proof. exact RecoverManual.recover_graph_spec_m. Qed.
Print Assumptions recover_graph_spec_m.

Theorem recover_lang_m : forall prog tb fa ms f,
  tb_spec prog tb -> prog_ok prog -> man_fit prog tb ms -> recover tb fa ms = Ok f ->
  let roots := fa :: flat_map (fun m => [mm_head m; mm_tail m]) ms in
  exists lay, rspec_m prog ms roots fa lay (f_cfg f) /\
    forall gp, rspec_m prog ms roots fa lay gp -> forall w, lang (f_cfg f) w <-> lang gp w.
Proof. exact RecoverManual.recover_lang_m. Qed.
Print Assumptions recover_lang_m.

Theorem recover_executes_like_machine_code_m : forall prog tb fa ms f,
  tb_spec prog tb -> prog_ok prog -> man_fit prog tb ms -> recover tb fa ms = Ok f -> merge_ready (static_view (f_cfg f)) = true ->
  let roots := fa :: flat_map (fun m => [mm_head m; mm_tail m]) ms in
  exists f' lay, recover_full tb fa ms = Ok f' /\ f_addr f' = fa /\ rspec_m prog ms roots fa lay (f_cfg f) /\
    forall gp, rspec_m prog ms roots fa lay (f_cfg gp) ->
      (forall w, lang (f_cfg f') w <-> lang (f_cfg gp) w) /\
      (det (f_cfg f') = true -> det (f_cfg gp) = true -> sem_wf (f_cfg f') = true -> sem_wf (f_cfg gp) = true ->
       forall st, (forall m1, exists m2, sem_obs m1 f' st = sem_obs m2 gp st) /\
                  (forall m2, exists m1, sem_obs m1 f' st = sem_obs m2 gp st)).
Proof. exact RecoverManual.recover_executes_like_machine_code_m. Qed.
Print Assumptions recover_executes_like_machine_code_m.
