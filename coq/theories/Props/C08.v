(* Props/C08.v -- property theorems only (C08: paged memory is a byte-addressed array with
   independent clones).  Model: Mem/Paged.v (V = il::Constant); specification: Mem/PagedSpec.v. *)
From Coq Require Import ZArith List Bool.
From Falcon Require Import Base.Res IL.Const Mem.PagedTypes Mem.Paged Mem.PagedSpec Mem.PagedCells Mem.PagedProofs.
Local Open Scope Z_scope.

(* widths 0 or not multiples of 8 are rejected, by store and by load *)
Theorem reject_bad_width : forall (m : @mem const) a v bits,
  (cbits v mod 8 <> 0 \/ cbits v = 0 -> Paged.store COps m a v = Err ECustom) /\
  (bits mod 8 <> 0 \/ bits = 0 -> load COps m a bits = Err ECustom).
Proof. intros. split; [apply store_bad_width|apply load_bad_width]. Qed.
Print Assumptions reject_bad_width.

(* equality is reflexive: a memory equals its unmodified clone (a clone is the same value in the model) *)
Theorem eq_refl_clone : forall (m : @mem const), mem_eqb COps m m = true.
Proof. exact mem_eqb_refl. Qed.
Print Assumptions eq_refl_clone.

(* equality implies identical results for every load *)
Theorem eq_implies_same_loads : forall (m1 m2 : @mem const), mem_eqb COps m1 m2 = true ->
  forall a bits, load COps m1 a bits = load COps m2 a bits.
Proof. exact eq_same_loads. Qed.
Print Assumptions eq_implies_same_loads.

(* permissions set on a range (below 2^64, shorter than 2^63) are reported for every address in it *)
Theorem perm_range : forall (m m' : @mem const) a len p,
  0 <= a -> 0 <= len < 2^63 -> a + len <= 2^64 ->
  set_permissions m a len p = Ok m' -> forall x, a <= x < a + len -> permissions m' x = Some p.
Proof. exact perm_range_l. Qed.
Print Assumptions perm_range.

(* addresses on pages whose permissions were never set report the backing's *)
Theorem perm_default_backing : forall (m : @mem const) x,
  pperm m (page_addr x) = None -> permissions m x = ob_perm (m_back m) x.
Proof. exact perm_default_backing_l. Qed.
Print Assumptions perm_default_backing.

(* stores never change reported permissions *)
Theorem store_keeps_perms : forall (m : @mem const) a v m',
  Paged.store COps m a v = Ok m' -> forall x, permissions m' x = permissions m x.
Proof. exact store_keeps_perms_l. Qed.
Print Assumptions store_keeps_perms.

(* cell level (unbounded addresses): the three-phase store preserves the representation invariant
   and is "write these bytes, leave everything else" on the byte abstraction *)
Theorem cells_store_refines : forall e c a v back, Inv c -> wfv v ->
  Inv (cstore e c a v) /\
  forall x, abs e back (cstore e c a v) x =
            if (a <=? x) && (x <? a + vk v) then Some (bo e v (x - a)) else abs e back c x.
Proof. exact store_refines. Qed.
Print Assumptions cells_store_refines.
