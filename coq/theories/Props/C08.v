(* Props/C08.v -- property theorems only *)
From Coq Require Import ZArith.
From Falcon Require Import Base.Res IL.Const Mem.PagedTypes Mem.Paged Mem.PagedSpec.
