(* Props/C08.v -- property theorems only (C08: paged memory is a byte-addressed array with
   independent clones).  Model: Mem/Paged.v (V = il::Constant), as repaired by the three fix:
   commits; specification: Mem/PagedSpec.v.  [U] = unbounded, proved for all inputs. *)
From Coq Require Import ZArith List Bool.
From Falcon Require Import Base.Res IL.Const Mem.PagedTypes Mem.Paged Mem.PagedSpec Mem.PagedCells
     Mem.PagedProofs Mem.PagedLoad Mem.PagedStore Mem.C08Check Mem.PagedClone Mem.PagedHist Mem.PagedSim Mem.PagedExpr.
From Falcon Require Import IL.Expr.
Local Open Scope Z_scope.

(* [U] the representation invariant holds after ANY sequence of stores and set_permissions issued
   through the API (u64 addresses, trimmed constants of < 2^63 bits) on a fresh memory; stores the
   implementation rejects (bad width, range beyond 2^64) leave the memory as it was; the only
   remaining panics are set_permissions ranges beyond 2^64 *)
Theorem inv_preserved : forall e b ops m, back_ok b -> Forall op_ok ops ->
  run (mnew e b) ops = Ok m -> InvM m /\ back_ok (m_back m).
Proof. intros e b ops m Hb F E. exact (run_good ops (mnew e b) m (good_new e b Hb) F E). Qed.
Print Assumptions inv_preserved.

(* [U] store: every memory satisfying the invariant, every address, every constant of k >= 1 bytes
   with a + k <= 2^64 (a write may end exactly at the top of the address space), both endiannesses, any page crossing / overlap: no error, invariant preserved,
   backing/endianness/page permissions untouched, byte array := write of the k bytes *)
Theorem abs_store : forall (m : @mem const) a v,
  InvM m -> back_ok (m_back m) -> wfv v -> 0 <= a -> a + vk v <= 2^64 ->
  exists m', Paged.store COps m a v = Ok m' /\ InvM m' /\ frame m m' /\
     forall x, mabs m' x = store_spec (m_end m) (mabs m) a v x.
Proof. exact abs_store_l. Qed.
Print Assumptions abs_store.

(* [U] load: all widths 8n, n >= 1, all addresses with a + n <= 2^64, both endiannesses: the result
   is exactly the n most recently stored / backed bytes assembled in the memory's endianness, and
   None iff one of them is absent (load_spec) *)
Theorem abs_load : forall (m : @mem const) a n,
  InvM m -> back_ok (m_back m) -> 1 <= n -> 8 * n < 2^63 -> 0 <= a -> a + n <= 2^64 ->
  load COps m a (8 * n) = Ok (load_spec (m_end m) (mabs m) a n).
Proof. exact abs_load_l. Qed.
Print Assumptions abs_load.

(* [U] widths 0 or not multiples of 8 are rejected, by store and by load *)
Theorem reject_bad_width : forall (m : @mem const) a v bits,
  (cbits v mod 8 <> 0 \/ cbits v = 0 -> Paged.store COps m a v = Err ECustom) /\
  (bits mod 8 <> 0 \/ bits = 0 -> load COps m a bits = Err ECustom).
Proof. intros. split; [apply store_bad_width|apply load_bad_width]. Qed.
Print Assumptions reject_bad_width.

(* [U] equality is reflexive: a memory equals its unmodified clone (a clone is the same value in the model) *)
Theorem eq_refl_clone : forall (m : @mem const), mem_eqb COps m m = true.
Proof. exact mem_eqb_refl. Qed.
Print Assumptions eq_refl_clone.

(* [U] equality implies identical results for every load *)
Theorem eq_implies_same_loads : forall (m1 m2 : @mem const), mem_eqb COps m1 m2 = true ->
  forall a bits, load COps m1 a bits = load COps m2 a bits.
Proof. exact eq_same_loads. Qed.
Print Assumptions eq_implies_same_loads.

(* [U] permissions set on a range (below 2^64, shorter than 2^63) are reported for every address in it *)
Theorem perm_range : forall (m m' : @mem const) a len p,
  0 <= a -> 0 <= len < 2^63 -> a + len <= 2^64 ->
  set_permissions m a len p = Ok m' -> forall x, a <= x < a + len -> permissions m' x = Some p.
Proof. exact perm_range_l. Qed.
Print Assumptions perm_range.

(* [U] addresses on pages whose permissions were never set report the backing's; set_permissions
   leaves every page outside page(a)..page(a+len-1) as it was *)
Theorem perm_default_backing : forall (m : @mem const),
  (forall x, pperm m (page_addr x) = None -> permissions m x = ob_perm (m_back m) x) /\
  (forall e b pa, pperm (mnew e b : @mem const) pa = None) /\
  (forall m' a len p, 0 <= a -> 0 <= len < 2^63 -> a + len <= 2^64 -> set_permissions m a len p = Ok m' ->
     forall x, page_addr x < page_addr a \/ a + len <= page_addr x -> permissions m' x = permissions m x).
Proof.
  intros m. split; [exact (perm_default_backing_l m)|]. split; [exact pperm_new|].
  intros m' a len p. exact (set_permissions_other m m' a len p).
Qed.
Print Assumptions perm_default_backing.

(* [U] stores never change reported permissions *)
Theorem store_keeps_perms : forall (m : @mem const) a v m',
  Paged.store COps m a v = Ok m' -> forall x, permissions m' x = permissions m x.
Proof. exact store_keeps_perms_l. Qed.
Print Assumptions store_keeps_perms.

(* clone independence: immediate in a pure model (a store through handle h leaves every other
   handle's memory, hence every load through it, unchanged); in Rust this is RC::make_mut under
   &mut self, i.e. safe-Rust ownership, which is TRUSTED, not proved *)
Theorem store_clone_indep : forall backs st h a vw vv ob st' h',
  mstep backs st (OStore h a vw vv) = Some (ob, Some st') -> h' <> h -> nth_error st' h' = nth_error st h'.
Proof. exact store_clone_indep_l. Qed.
Print Assumptions store_clone_indep.

(* [U] cell level (unbounded addresses): the three-phase store preserves the invariant and is a write *)
Theorem cells_store_refines : forall e c a v back, Inv c -> wfv v ->
  Inv (cstore e c a v) /\
  forall x, abs e back (cstore e c a v) x =
            if (a <=? x) && (x <? a + vk v) then Some (bo e v (x - a)) else abs e back c x.
Proof. exact store_refines. Qed.
Print Assumptions cells_store_refines.

(* [U] THE PROPERTY OVER HISTORIES.  After any sequence of stores (any width of k >= 1 bytes, any
   overlap, any page crossing, ranges ending at 2^64 included; stores of a bad width or reaching
   beyond 2^64 are rejected and change nothing) and set_permissions calls issued through the API on
   a fresh memory, a load of n >= 1 bytes at any a with a + n <= 2^64 returns exactly
   the bytes most recently stored at each address, falling back to the backing's bytes (byte_at over
   the log of accepted stores), assembled in the memory's endianness, and None iff some byte was
   never stored nor backed *)
Theorem history_loads : forall e b ops (m : @mem const),
  back_ok b -> Forall op_ok ops -> run (mnew e b) ops = Ok m ->
  forall a n, 1 <= n -> 8 * n < 2^63 -> 0 <= a -> a + n <= 2^64 ->
  load COps m a (8 * n) = Ok (load_spec e (byte_at e b (slog ops nil)) a n).
Proof. exact history_loads_l. Qed.
Print Assumptions history_loads.

(* [U] permissions over histories: the most recent set_permissions whose range touches the page of x,
   else the backing's; stores never matter (perm_at is silent only for a page named by an empty range) *)
Theorem history_perms : forall e b ops (m : @mem const),
  Forall op_ok_p ops -> run (mnew e b) ops = Ok m ->
  forall x, 0 <= x -> match perm_at b (splog ops nil) x with Some r => permissions m x = r | None => True end.
Proof. exact history_perms_l. Qed.
Print Assumptions history_perms.

(* [U] V = il::Expression (model EOps).  The statements are about the DENOTATION of expressions under
   ANY valuation sg of their scalars (evalv sg = executor::eval after the scalars have been replaced by
   constants; evalv_none: the empty valuation is eval itself): Rv sg x c := evalv sg x = Ok c /\ same
   width.  Stores of related values keep an expression memory and a constant memory related; every
   load from the expression memory denotes the load from the constant memory; hence it denotes the
   specified bytes.  (The exact TREES returned are tied differentially: C08CheckE compares them.) *)
Theorem expr_store_sim : forall sg (me : @mem expr) (mc : @mem const) a x c,
  Rmem_e sg me mc -> Rv sg x c -> Rres (Rmem_e sg) (Paged.store EOps me a x) (Paged.store COps mc a c).
Proof. exact PagedExpr.expr_store_sim. Qed.
Print Assumptions expr_store_sim.
Theorem expr_load_sim : forall sg (me : @mem expr) (mc : @mem const) a bits,
  Rmem_e sg me mc -> Rres (Ropt (Rv sg)) (load EOps me a bits) (load COps mc a bits).
Proof. exact PagedExpr.expr_load_sim. Qed.
Print Assumptions expr_load_sim.
Theorem expr_abs_load : forall sg (me : @mem expr) (mc : @mem const) a n,
  Rmem_e sg me mc -> InvM mc -> back_ok (m_back mc) -> 1 <= n -> 8 * n < 2^63 -> 0 <= a -> a + n <= 2^64 ->
  match load_spec (m_end mc) (mabs mc) a n with
  | Some c => exists x, load EOps me a (8 * n) = Ok (Some x) /\ evalv sg x = Ok c /\ e_bits x = 8 * n
  | None => load EOps me a (8 * n) = Ok None
  end.
Proof. exact expr_abs_load_l. Qed.
Print Assumptions expr_abs_load.
Theorem expr_eval_is_empty_valuation : forall e, evalv (fun _ => None) e = eval e.
Proof. exact evalv_none. Qed.
Print Assumptions expr_eval_is_empty_valuation.

(* the top of the address space (repaired code): a store ending exactly at 2^64 succeeds and is read
   back; a store reaching beyond it is rejected with an error, not a panic *)
Example store_at_top : 
  (m <- Paged.store COps (mnew LE None) (2^64 - 4) (mkc 32 287454020) ;; load COps m (2^64 - 2) 16)
  = Ok (Some (mkc 16 4386)) /\
  Paged.store COps (mnew LE None) (2^64 - 3) (mkc 32 1) = Err ECustom.
Proof. exact (conj store_at_top_ok store_past_top_err). Qed.

(* the hypotheses are satisfiable: a fresh memory over any well-formed backing satisfies them *)
Example fresh_memory_good : forall e, InvM (mnew e None : @mem const) /\ back_ok None.
Proof. intros e. apply good_new. intros x y E. discriminate. Qed.
