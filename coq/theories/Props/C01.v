(* Props/C01.v -- property theorems only (proofs in Isa/X86Proofs.v).
   Depth part of C01: the shared helper layer of the x86 lifter, mirrored in Isa/X86Lift.v, against the
   ISA specification Isa/X86.v, for ALL values.  The per-encoding breadth part is the in-kernel differential
   check of Isa/C01Check.v (processor + specification as oracles). *)
From Coq Require Import ZArith List Bool NArith.
From Falcon Require Import Base.Res IL.Const IL.ConstSpec IL.Expr IL.Func Exec.Sem Isa.X86 Isa.X86Lift Isa.X86Mirror Isa.X86Proofs Isa.X86Sim Isa.C01Check Isa.X86Tie Isa.X86SimMem Isa.X86SimStack Isa.X86SimCarry Isa.X86SimMore Isa.X86SimXchg Isa.X86SimMul Isa.X86SimShift Isa.X86SimRot Isa.X86SimCtl Isa.X86SimBt Isa.X86SimCall Isa.X86SimCmov.
Import ListNotations.
Local Open Scope Z_scope.

(* 1. X86Register::get / set (all sub-register kinds al/ah/ax/eax/rax, both register tables): reading and
      writing a sub-register composes exactly as the architecture says (X86.reg_read / reg_write /
      regh_read / regh_write), for every value of the full register and every value written. *)
Theorem reg_get_set_correct : forall en n fbits s x,
  shape_valid fbits s -> 0 <= x < 2 ^ fbits -> env_get en (n, None) = Some (mkc fbits x) ->
  (exists e, reg_get (xreg_of n fbits s) = Ok e /\
             den en e = Ok (mkc (shape_bits fbits s) (arch_read s fbits x))) /\
  (forall v y, 0 <= y < 2 ^ shape_bits fbits s -> e_bits v = shape_bits fbits s ->
               den en v = Ok (mkc (shape_bits fbits s) y) ->
     exists e, reg_set (xreg_of n fbits s) v = Ok [OAssign (mks n fbits None) e] /\
               den en e = Ok (mkc fbits (arch_write s fbits x y))).
Proof. exact X86Proofs.reg_get_set_correct. Qed.
Print Assumptions reg_get_set_correct.

(* the defect this layer had before the fix (mask of the high-byte write not inverted), as a witness *)
Theorem reg_set_prefix_refuted :
  let en := [((0%N, None), mkc 64 1311768467463790320)] in
  let v := EConst (mkc 8 85) in
  exists e, reg_set_prefix (xreg_of 0%N 64 ShHigh8) v = Ok [OAssign (mks 0%N 64 None) e] /\
            den en e = Ok (mkc 64 57088) /\
            arch_write ShHigh8 64 1311768467463790320 85 = 1311768467463755248.
Proof. exact X86Proofs.reg_set_prefix_refuted. Qed.
Print Assumptions reg_set_prefix_refuted.

(* 2. flag helpers: the formulas of set_of / set_cf / set_sf are the architectural OF / CF / SF for all
      operand values at widths 8/16/32/64 ... *)
Theorem of_add_correct : forall w a b, width_ok w -> 0 <= a < 2 ^ w -> 0 <= b < 2 ^ w ->
  of_value w a b (U w (a + b)) false = X86.b2z (X86.sovf w (X86.Sg w a + X86.Sg w b)).
Proof. exact X86Proofs.of_add_correct. Qed.
Print Assumptions of_add_correct.
Theorem of_sub_correct : forall w a b, width_ok w -> 0 <= a < 2 ^ w -> 0 <= b < 2 ^ w ->
  of_value w a b (U w (a - b)) true = X86.b2z (X86.sovf w (X86.Sg w a - X86.Sg w b)).
Proof. exact X86Proofs.of_sub_correct. Qed.
Print Assumptions of_sub_correct.
Theorem cf_sub_correct : forall w a b, width_ok w -> 0 <= a < 2 ^ w -> 0 <= b < 2 ^ w ->
  (a <? U w (a - b)) = (a <? b).
Proof. exact X86Proofs.cf_sub_correct. Qed.
Print Assumptions cf_sub_correct.
Theorem cf_add_correct : forall w a b, width_ok w -> 0 <= a < 2 ^ w -> 0 <= b < 2 ^ w ->
  (U w (a + b) <? a) = (2 ^ w <=? a + b).
Proof. exact X86Proofs.cf_add_correct. Qed.
Print Assumptions cf_add_correct.
Theorem sf_correct : forall w r, width_ok w -> 0 <= r < 2 ^ w ->
  (r / 2 ^ (w - 1)) mod 2 = X86.b2z (X86.msb w r).
Proof. exact X86Proofs.sf_correct. Qed.
Print Assumptions sf_correct.

(* ... and the IL the helpers emit denotes exactly those formulas (no sort error for equal-width operands) *)
Theorem set_zf_den : forall en w r result, e_bits result = w -> den en result = Ok (mkc w r) ->
  exists e, set_zf result = Ok (OAssign (flag_scalar X86Lift.n_ZF) e) /\ den en e = Ok (mkc 1 (X86.b2z (r =? 0))).
Proof. exact X86Proofs.set_zf_den. Qed.
Print Assumptions set_zf_den.
Theorem set_sf_den : forall en w a b r lhs rhs result, width_ok w ->
  0 <= a < 2 ^ w -> 0 <= b < 2 ^ w -> 0 <= r < 2 ^ w ->
  e_bits lhs = w -> e_bits rhs = w -> e_bits result = w ->
  den en lhs = Ok (mkc w a) -> den en rhs = Ok (mkc w b) -> den en result = Ok (mkc w r) ->
  exists e, set_sf result = Ok (OAssign (flag_scalar X86Lift.n_SF) e) /\ den en e = Ok (mkc 1 (X86.b2z (X86.msb w r))).
Proof. exact X86Proofs.set_sf_den. Qed.
Print Assumptions set_sf_den.
Theorem set_cf_den : forall en w a r lhs result, e_bits lhs = w -> e_bits result = w ->
  den en lhs = Ok (mkc w a) -> den en result = Ok (mkc w r) ->
  exists e, set_cf result lhs = Ok (OAssign (flag_scalar X86Lift.n_CF) e) /\ den en e = Ok (mkc 1 (X86.b2z (a <? r))).
Proof. exact X86Proofs.set_cf_den. Qed.
Print Assumptions set_cf_den.
Theorem set_of_den : forall en w a b r lhs rhs result, width_ok w ->
  0 <= a < 2 ^ w -> 0 <= b < 2 ^ w -> 0 <= r < 2 ^ w ->
  e_bits lhs = w -> e_bits rhs = w -> e_bits result = w ->
  den en lhs = Ok (mkc w a) -> den en rhs = Ok (mkc w b) -> den en result = Ok (mkc w r) ->
  forall sub, exists e, set_of result lhs rhs sub = Ok (OAssign (flag_scalar X86Lift.n_OF) e) /\
                        den en e = Ok (mkc 1 (of_value w a b r sub)).
Proof. exact X86Proofs.set_of_den. Qed.
Print Assumptions set_of_den.

(* 3. one instruction form end to end: mov between (sub-)registers of equal size, both modes, all register
      contents (incl. mov ah, al / dst = src).  [X86Mirror.lift_mov] is tied syntactically to the real
      lifter's output for these encodings on every run (Isa/C01Check.v, fst of ck). *)
Theorem lift_mov_reg_reg_correct : forall m sz dst src en nd ns sd ss xd xs,
  operand_shape m sz dst = Some (nd, sd) -> operand_shape m sz src = Some (ns, ss) ->
  0 <= xd < 2 ^ wordsz m -> 0 <= xs < 2 ^ wordsz m ->
  env_get en (nd, None) = Some (mkc (wordsz m) xd) -> env_get en (ns, None) = Some (mkc (wordsz m) xs) ->
  exists e,
    X86Mirror.lift_mov m sz dst src = Ok [OAssign (mks nd (wordsz m) None) e] /\
    exec_op (mkst en (mkbmem false [])) (OAssign (mks nd (wordsz m) None) e) =
      Ok (mkst (env_set en (nd, None) (mkc (wordsz m) (arch_write sd (wordsz m) xd (arch_read ss (wordsz m) xs)))) (mkbmem false []),
          EvAssign (nd, None) (mkc (wordsz m) (arch_write sd (wordsz m) xd (arch_read ss (wordsz m) xs)))).
Proof. exact X86Proofs.lift_mov_reg_reg_correct. Qed.
Print Assumptions lift_mov_reg_reg_correct.

(* 4.-6. the mirrored builders at the level of the emitted operation list (register destination of any
      sub-register kind, both modes; source = register or immediate operand expression): the operations run in
      sequence by Sem.exec_op from ANY IL state leave the architectural result and flags of X86.alu / X86.un,
      touch nothing else (frame), are all assignments, and memory is unchanged. *)
Theorem add_reg_ops_correct : forall st m sz dst nd sd xd lhs rhs b,
  operand_shape m sz dst = Some (nd, sd) -> reg_name_ok nd = true -> width_ok sz ->
  0 <= xd < 2 ^ wordsz m -> env_get (st_env st) (nd, None) = Some (mkc (wordsz m) xd) ->
  X86Mirror.opv m sz dst = Ok lhs ->
  e_bits rhs = sz -> 0 <= b < 2 ^ sz -> den (st_env st) rhs = Ok (mkc sz b) -> clean rhs = true ->
  let a := arch_read sd (wordsz m) xd in
  let r := U sz (a + b) in
  exists ops st',
    X86Mirror.lift_alu m AAdd sz dst (OImm 0) <> None /\
    (e <- mk_bin Add lhs rhs ;; zf <- set_zf (EScalar (X86Mirror.temp_k 0 sz)) ;; sf <- set_sf (EScalar (X86Mirror.temp_k 0 sz)) ;;
     of <- set_of (EScalar (X86Mirror.temp_k 0 sz)) lhs rhs false ;; c <- mk_bin Cmpltu (EScalar (X86Mirror.temp_k 0 sz)) lhs ;;
     s <- X86Mirror.ops_store m sz dst (EScalar (X86Mirror.temp_k 0 sz)) ;;
     Ok ([OAssign (X86Mirror.temp_k 0 sz) e; zf; sf; of; X86Mirror.assign_flag X86Lift.n_CF c] ++ s)) = Ok ops /\
    forallb is_assign ops = true /\
    (0 < length ops <= 16)%nat /\
    exec_ops st ops = Ok st' /\
    (forall k, k <> (nd, None) -> k <> kT0 -> k <> kZF -> k <> kSF -> k <> kOF -> k <> kCF ->
       env_get (st_env st') k = env_get (st_env st) k) /\
    st_mem st' = st_mem st /\
    env_get (st_env st') (nd, None) = Some (mkc (wordsz m) (arch_write sd (wordsz m) xd r)) /\
    env_get (st_env st') kZF = Some (mkc 1 (X86.b2z (r =? 0))) /\
    env_get (st_env st') kSF = Some (mkc 1 (X86.b2z (X86.msb sz r))) /\
    env_get (st_env st') kOF = Some (mkc 1 (X86.b2z (X86.sovf sz (X86.Sg sz a + X86.Sg sz b)))) /\
    env_get (st_env st') kCF = Some (mkc 1 (X86.b2z (2 ^ sz <=? a + b))).
Proof. exact X86Proofs.add_reg_ops_correct. Qed.
Print Assumptions add_reg_ops_correct.

Theorem sub_reg_ops_correct : forall st m sz dst nd sd xd lhs rhs b,
  operand_shape m sz dst = Some (nd, sd) -> reg_name_ok nd = true -> width_ok sz ->
  0 <= xd < 2 ^ wordsz m -> env_get (st_env st) (nd, None) = Some (mkc (wordsz m) xd) ->
  X86Mirror.opv m sz dst = Ok lhs ->
  e_bits rhs = sz -> 0 <= b < 2 ^ sz -> den (st_env st) rhs = Ok (mkc sz b) -> clean rhs = true ->
  let a := arch_read sd (wordsz m) xd in
  let r := U sz (a - b) in
  exists ops st',
    X86Mirror.lift_alu m ASub sz dst (OImm 0) <> None /\
    (e <- mk_bin Sub lhs rhs ;; zf <- set_zf (EScalar (X86Mirror.temp_k 0 sz)) ;; sf <- set_sf (EScalar (X86Mirror.temp_k 0 sz)) ;;
     of <- set_of (EScalar (X86Mirror.temp_k 0 sz)) lhs rhs true ;; c <- set_cf (EScalar (X86Mirror.temp_k 0 sz)) lhs ;;
     s <- X86Mirror.ops_store m sz dst (EScalar (X86Mirror.temp_k 0 sz)) ;;
     Ok ([OAssign (X86Mirror.temp_k 0 sz) e; zf; sf; of; c] ++ s)) = Ok ops /\
    forallb is_assign ops = true /\
    (0 < length ops <= 16)%nat /\
    exec_ops st ops = Ok st' /\
    (forall k, k <> (nd, None) -> k <> kT0 -> k <> kZF -> k <> kSF -> k <> kOF -> k <> kCF ->
       env_get (st_env st') k = env_get (st_env st) k) /\
    st_mem st' = st_mem st /\
    env_get (st_env st') (nd, None) = Some (mkc (wordsz m) (arch_write sd (wordsz m) xd r)) /\
    env_get (st_env st') kZF = Some (mkc 1 (X86.b2z (r =? 0))) /\
    env_get (st_env st') kSF = Some (mkc 1 (X86.b2z (X86.msb sz r))) /\
    env_get (st_env st') kOF = Some (mkc 1 (X86.b2z (X86.sovf sz (X86.Sg sz a - X86.Sg sz b)))) /\
    env_get (st_env st') kCF = Some (mkc 1 (X86.b2z (a <? b))).
Proof. exact X86Proofs.sub_reg_ops_correct. Qed.
Print Assumptions sub_reg_ops_correct.

Theorem cmp_reg_ops_correct : forall st m sz dst nd sd xd lhs rhs b,
  operand_shape m sz dst = Some (nd, sd) -> reg_name_ok nd = true -> width_ok sz ->
  0 <= xd < 2 ^ wordsz m -> env_get (st_env st) (nd, None) = Some (mkc (wordsz m) xd) ->
  X86Mirror.opv m sz dst = Ok lhs ->
  e_bits rhs = sz -> 0 <= b < 2 ^ sz -> den (st_env st) rhs = Ok (mkc sz b) -> clean rhs = true ->
  let a := arch_read sd (wordsz m) xd in
  let r := U sz (a - b) in
  exists ops st',
    X86Mirror.lift_alu m ACmp sz dst (OImm 0) <> None /\
    (e <- mk_bin Sub lhs rhs ;; zf <- set_zf e ;; sf <- set_sf e ;; of <- set_of e lhs rhs true ;; cf <- set_cf e lhs ;;
     Ok [zf; sf; of; cf]) = Ok ops /\
    forallb is_assign ops = true /\
    (0 < length ops <= 16)%nat /\
    exec_ops st ops = Ok st' /\
    (forall k, k <> (nd, None) -> k <> kT0 -> k <> kZF -> k <> kSF -> k <> kOF -> k <> kCF ->
       env_get (st_env st') k = env_get (st_env st) k) /\
    st_mem st' = st_mem st /\
    env_get (st_env st') (nd, None) = Some (mkc (wordsz m) xd) /\
    env_get (st_env st') kZF = Some (mkc 1 (X86.b2z (r =? 0))) /\
    env_get (st_env st') kSF = Some (mkc 1 (X86.b2z (X86.msb sz r))) /\
    env_get (st_env st') kOF = Some (mkc 1 (X86.b2z (X86.sovf sz (X86.Sg sz a - X86.Sg sz b)))) /\
    env_get (st_env st') kCF = Some (mkc 1 (X86.b2z (a <? b))).
Proof. exact X86Proofs.cmp_reg_ops_correct. Qed.
Print Assumptions cmp_reg_ops_correct.

Theorem logic_reg_ops_correct : forall st m op f sz dst nd sd xd lhs rhs b,
  logic_fun op = Some f ->
  operand_shape m sz dst = Some (nd, sd) -> reg_name_ok nd = true -> width_ok sz ->
  0 <= xd < 2 ^ wordsz m -> env_get (st_env st) (nd, None) = Some (mkc (wordsz m) xd) ->
  X86Mirror.opv m sz dst = Ok lhs ->
  e_bits rhs = sz -> 0 <= b < 2 ^ sz -> den (st_env st) rhs = Ok (mkc sz b) -> clean rhs = true ->
  let a := arch_read sd (wordsz m) xd in
  let r := f a b in
  exists ops st',
    (e <- mk_bin op lhs rhs ;; zf <- set_zf (EScalar (X86Mirror.temp_k 0 sz)) ;; sf <- set_sf (EScalar (X86Mirror.temp_k 0 sz)) ;;
     s <- X86Mirror.ops_store m sz dst (EScalar (X86Mirror.temp_k 0 sz)) ;;
     Ok ([OAssign (X86Mirror.temp_k 0 sz) e; zf; sf; X86Mirror.assign_flag X86Lift.n_CF (expr_const 0 1); X86Mirror.assign_flag X86Lift.n_OF (expr_const 0 1)] ++ s)) = Ok ops /\
    forallb is_assign ops = true /\
    (0 < length ops <= 16)%nat /\
    exec_ops st ops = Ok st' /\
    (forall k, k <> (nd, None) -> k <> kT0 -> k <> kZF -> k <> kSF -> k <> kOF -> k <> kCF ->
       env_get (st_env st') k = env_get (st_env st) k) /\
    st_mem st' = st_mem st /\
    env_get (st_env st') (nd, None) = Some (mkc (wordsz m) (arch_write sd (wordsz m) xd r)) /\
    env_get (st_env st') kZF = Some (mkc 1 (X86.b2z (r =? 0))) /\
    env_get (st_env st') kSF = Some (mkc 1 (X86.b2z (X86.msb sz r))) /\
    env_get (st_env st') kOF = Some (mkc 1 0) /\
    env_get (st_env st') kCF = Some (mkc 1 0).
Proof. exact X86Proofs.logic_reg_ops_correct. Qed.
Print Assumptions logic_reg_ops_correct.

Theorem incdec_reg_ops_correct : forall st m (sub : bool) sz dst nd sd xd lhs,
  operand_shape m sz dst = Some (nd, sd) -> reg_name_ok nd = true -> width_ok sz ->
  0 <= xd < 2 ^ wordsz m -> env_get (st_env st) (nd, None) = Some (mkc (wordsz m) xd) ->
  X86Mirror.opv m sz dst = Ok lhs ->
  let a := arch_read sd (wordsz m) xd in
  let r := if sub then U sz (a - 1) else U sz (a + 1) in
  let op := if sub then Sub else Add in
  exists ops st',
    X86Mirror.lift_un m (if sub then UDec else UInc) sz dst <> None /\
    (e <- mk_bin op lhs (expr_const 1 (e_bits lhs)) ;;
     zf <- set_zf e ;; sf <- set_sf e ;; of <- set_of e lhs (expr_const 1 (e_bits lhs)) sub ;;
     s <- X86Mirror.ops_store m sz dst e ;; Ok ([zf; sf; of] ++ s)) = Ok ops /\
    forallb is_assign ops = true /\
    (0 < length ops <= 16)%nat /\
    exec_ops st ops = Ok st' /\
    (forall k, k <> (nd, None) -> k <> kT0 -> k <> kZF -> k <> kSF -> k <> kOF -> k <> kCF ->
       env_get (st_env st') k = env_get (st_env st) k) /\
    st_mem st' = st_mem st /\
    env_get (st_env st') (nd, None) = Some (mkc (wordsz m) (arch_write sd (wordsz m) xd r)) /\
    env_get (st_env st') kZF = Some (mkc 1 (X86.b2z (r =? 0))) /\
    env_get (st_env st') kSF = Some (mkc 1 (X86.b2z (X86.msb sz r))) /\
    env_get (st_env st') kOF =
      Some (mkc 1 (X86.b2z (X86.sovf sz (if sub then X86.Sg sz a - X86.Sg sz 1 else X86.Sg sz a + X86.Sg sz 1)))) /\
    env_get (st_env st') kCF = env_get (st_env st) kCF.
Proof. exact X86Proofs.incdec_reg_ops_correct. Qed.
Print Assumptions incdec_reg_ops_correct.

(* 7. glue to the runner of the differential check: a one-block instruction graph (what every mirrored
      builder returns) run by X86Run.il_run (iterated Sem.sem_step) from its first instruction ends with the
      state that running the operation list in sequence gives, for any operation list without Branch *)
Theorem il_run_one_block : forall addr ops,
  (forall o, In o ops -> is_branch o = false) ->
  forall suf pre st st' fuel,
    ops = pre ++ suf -> suf <> [] -> exec_ops st suf = Ok st' -> (length suf <= fuel)%nat ->
    X86Run.il_run fuel (mkfunc addr (X86Mirror.one_block addr ops) None) (Loc.LInstr 0 (Z.of_nat (length pre))) st
    = X86Run.ILFin st' None.
Proof. exact X86Proofs.il_run_one_block. Qed.
Print Assumptions il_run_one_block.

(* 8. THE PACKAGED STATEMENT against the specification.  [sim m addr len i]: for every well-formed machine state s
      and EVERY IL state st that embeds it (registers, CF/ZF/SF/OF/DF, memory; temporaries and PF free), if
      X86.step m (addr+len) i s = XNext s' ip then the mirrored builder accepts i and X86Run.run_instr on its graph
      ends in an IL state that embeds s' (all GPRs, the flags the spec defines, memory) at next address ip. *)
Theorem add_sim : forall m addr len sz dst src,
  reg_operand_ok m sz dst -> src_operand_ok m sz src -> width_ok sz -> sim m addr len (IAlu AAdd sz dst src).
Proof. exact X86Sim.add_sim. Qed.
Print Assumptions add_sim.
Theorem sub_sim : forall m addr len sz dst src,
  reg_operand_ok m sz dst -> src_operand_ok m sz src -> width_ok sz -> sim m addr len (IAlu ASub sz dst src).
Proof. exact X86Sim.sub_sim. Qed.
Print Assumptions sub_sim.
Theorem cmp_sim : forall m addr len sz dst src,
  reg_operand_ok m sz dst -> src_operand_ok m sz src -> width_ok sz -> sim m addr len (IAlu ACmp sz dst src).
Proof. exact X86Sim.cmp_sim. Qed.
Print Assumptions cmp_sim.
Theorem logic_sim : forall m addr len o op f sz dst src,
  logic_alu o = Some (op, f) ->
  reg_operand_ok m sz dst -> src_operand_ok m sz src -> width_ok sz ->
  (o = AXor -> forall lhs rhs, X86Mirror.opv m sz dst = Ok lhs -> X86Mirror.opv m sz src = Ok rhs -> expr_eqb lhs rhs = false) ->
  sim m addr len (IAlu o sz dst src).
Proof. exact X86Sim.logic_sim. Qed.
Print Assumptions logic_sim.
Theorem incdec_sim : forall m addr len (sub : bool) sz dst,
  reg_operand_ok m sz dst -> width_ok sz -> sim m addr len (IUn (if sub then UDec else UInc) sz dst).
Proof. exact X86Sim.incdec_sim. Qed.
Print Assumptions incdec_sim.
Theorem mov_sim : forall m addr len sz dst src,
  reg_operand_ok m sz dst -> src_operand_ok m sz src -> sim m addr len (IMov sz dst src).
Proof. exact X86Sim.mov_sim. Qed.
Print Assumptions mov_sim.

(* 9. the syntactic tie transfers a sim theorem to the REAL lifter's dumped IL for an enumerated encoding, for
      all states; [syntactic_tie] is what the tie component of the checker evaluates for mirrored cases *)
Theorem tie_transfers : forall m addr len i g succ,
  syntactic_tie m addr len i g succ = true -> sim m addr len i ->
  forall s st s' ip, wf m s -> emb m s st -> step m (addr + len) i s = XNext s' ip ->
    exists st', X86Run.run_instr 600 g succ addr st = X86Run.RunOk st' (Some ip) /\ emb m s' st' /\ wf m s'.
Proof. exact X86Tie.tie_transfers. Qed.
Print Assumptions tie_transfers.
Theorem ck_tie_is_syntactic_tie : forall c g succ,
  tc_lift c = LOk g succ -> tc_mirror c = X86Mirror.mirror_instr (tc_mode c) (tc_addr c) (tc_len c) (tc_ins c) ->
  (exists r, tc_mirror c = Some r) -> fst (ck c) = true ->
  syntactic_tie (tc_mode c) (tc_addr c) (tc_len c) (tc_ins c) g succ = true.
Proof. exact X86Tie.ck_tie_is_syntactic_tie. Qed.
Print Assumptions ck_tie_is_syntactic_tie.

(* 10. condition codes: Semantics::cc_condition denotes the architectural predicate X86.cond, all 16 codes *)
Theorem cc_condition_correct : forall en c (cf pf zf sf of : bool),
  env_get en kCF = Some (mkc 1 (X86.b2z cf)) -> env_get en kPF = Some (mkc 1 (X86.b2z pf)) ->
  env_get en kZF = Some (mkc 1 (X86.b2z zf)) -> env_get en kSF = Some (mkc 1 (X86.b2z sf)) ->
  env_get en kOF = Some (mkc 1 (X86.b2z of)) ->
  exists e b, X86Mirror.cc_condition c = Ok e /\ e_bits e = 1 /\
              cond c (flags_of_bools cf pf zf sf of) = Some b /\ den en e = Ok (mkc 1 (X86.b2z b)).
Proof. exact X86Sim.cc_condition_correct. Qed.
Print Assumptions cc_condition_correct.
Theorem setcc_sim : forall m addr len c dst,
  reg_operand_ok m 8 dst -> cc_no_pf c = true -> sim m addr len (ISetcc c dst).
Proof. exact X86Sim.setcc_sim. Qed.
Print Assumptions setcc_sim.
(* 11. movzx / movsx / movsxd with a register source *)
Theorem movx_sim : forall m addr len (sg : bool) dsz ssz dst src,
  reg_operand_ok m dsz (OReg dst) -> reg_operand_ok m ssz src -> width_ok dsz -> width_ok ssz -> ssz < dsz ->
  sim m addr len (IMovx sg dsz ssz dst src).
Proof. exact X86Sim.movx_sim. Qed.
Print Assumptions movx_sim.
(* 12. effective addresses: Mode::operand_value on [base + index*scale + disp] denotes X86.ea at every address
       size (16/32 in x86 mode, 32/64 in amd64 mode: the sum WRAPS at the address size, then is zero-extended),
       and lea *)
Theorem addr_expr_correct : forall m o s st, wf m s -> emb m s st -> mem_operand_ok m o ->
  exists e, X86Mirror.addr_expr m o = Some (Ok e) /\ e_bits e = wordsz m /\
            den (st_env st) e = Ok (mkc (wordsz m) (ea (x_gpr s) o)).
Proof. exact X86Sim.addr_expr_correct. Qed.
Print Assumptions addr_expr_correct.
Theorem lea_sim : forall m addr len sz dst src,
  reg_operand_ok m sz (OReg dst) -> width_ok sz -> mem_operand_ok m src -> sim m addr len (ILea sz dst src).
Proof. exact X86Sim.lea_sim. Qed.
Print Assumptions lea_sim.

(* 13. memory operands.  [sim_when P]: as [sim], for the states satisfying P; P = [no_wrap sz o]: the bytes accessed,
       [ea, ea + sz/8), lie inside the address space of the operand's address size.  Byte memory: Sem's mem_load /
       mem_store agree with the specification's mem_rd / mem_wr at 8/16/32/64 bits. *)
Theorem mem_load_spec : forall xm bm asz sz a v,
  mem_agree xm bm -> bm_big bm = false -> width_ok sz -> 0 <= a -> a + sz / 8 <= 2 ^ asz -> asz <= 64 ->
  mem_rd xm asz a (nbytes sz) = Some v -> mem_load bm a sz = Ok (mkc sz v).
Proof. exact X86SimMem.mem_load_spec. Qed.
Print Assumptions mem_load_spec.
Theorem mem_store_spec : forall xm bm asz sz a v xm',
  mem_agree xm bm -> bm_big bm = false -> width_ok sz -> 0 <= a -> a + sz / 8 <= 2 ^ asz -> asz <= 64 ->
  mem_wr xm asz a v (nbytes sz) = Some xm' ->
  exists bm', mem_store bm a (mkc sz v) = Ok bm' /\ mem_agree xm' bm' /\ bm_big bm' = false.
Proof. exact X86SimMem.mem_store_spec. Qed.
Print Assumptions mem_store_spec.
Theorem mov_load_sim : forall m addr len sz dst src,
  reg_operand_ok m sz dst -> mem_operand_ok m src -> width_ok sz -> sim_when (no_wrap sz src) m addr len (IMov sz dst src).
Proof. exact X86SimMem.mov_load_sim. Qed.
Print Assumptions mov_load_sim.
Theorem mov_store_sim : forall m addr len sz dst src,
  mem_operand_ok m dst -> src_operand_ok m sz src -> width_ok sz -> sim_when (no_wrap sz dst) m addr len (IMov sz dst src).
Proof. exact X86SimMem.mov_store_sim. Qed.
Print Assumptions mov_store_sim.
Theorem add_load_sim : forall m addr len sz dst src,
  reg_operand_ok m sz dst -> mem_operand_ok m src -> width_ok sz -> sim_when (no_wrap sz src) m addr len (IAlu AAdd sz dst src).
Proof. exact X86SimMem.add_load_sim. Qed.
Print Assumptions add_load_sim.
Theorem sub_load_sim : forall m addr len sz dst src,
  reg_operand_ok m sz dst -> mem_operand_ok m src -> width_ok sz -> sim_when (no_wrap sz src) m addr len (IAlu ASub sz dst src).
Proof. exact X86SimMem.sub_load_sim. Qed.
Print Assumptions sub_load_sim.
Theorem cmp_load_sim : forall m addr len sz dst src,
  reg_operand_ok m sz dst -> mem_operand_ok m src -> width_ok sz -> sim_when (no_wrap sz src) m addr len (IAlu ACmp sz dst src).
Proof. exact X86SimMem.cmp_load_sim. Qed.
Print Assumptions cmp_load_sim.
Theorem logic_load_sim : forall m addr len o op f sz dst src,
  logic_alu o = Some (op, f) -> reg_operand_ok m sz dst -> mem_operand_ok m src -> width_ok sz ->
  sim_when (no_wrap sz src) m addr len (IAlu o sz dst src).
Proof. exact X86SimMem.logic_load_sim. Qed.
Print Assumptions logic_load_sim.
Theorem movx_load_sim : forall m addr len (sg : bool) dsz ssz dst src,
  reg_operand_ok m dsz (OReg dst) -> mem_operand_ok m src -> width_ok dsz -> width_ok ssz -> ssz < dsz ->
  sim_when (no_wrap ssz src) m addr len (IMovx sg dsz ssz dst src).
Proof. exact X86SimMem.movx_load_sim. Qed.
Print Assumptions movx_load_sim.
Theorem add_rmw_sim : forall m addr len sz dst src,
  mem_operand_ok m dst -> src_operand_ok m sz src -> width_ok sz -> sim_when (no_wrap sz dst) m addr len (IAlu AAdd sz dst src).
Proof. exact X86SimMem.add_rmw_sim. Qed.
Print Assumptions add_rmw_sim.
Theorem sub_rmw_sim : forall m addr len sz dst src,
  mem_operand_ok m dst -> src_operand_ok m sz src -> width_ok sz -> sim_when (no_wrap sz dst) m addr len (IAlu ASub sz dst src).
Proof. exact X86SimMem.sub_rmw_sim. Qed.
Print Assumptions sub_rmw_sim.
Theorem tie_transfers_when : forall P m addr len i g succ,
  syntactic_tie m addr len i g succ = true -> sim_when P m addr len i ->
  forall s st s' ip, wf m s -> emb m s st -> P s -> step m (addr + len) i s = XNext s' ip ->
    exists st', X86Run.run_instr 600 g succ addr st = X86Run.RunOk st' (Some ip) /\ emb m s' st' /\ wf m s'.
Proof. exact X86SimMem.tie_transfers_when. Qed.
Print Assumptions tie_transfers_when.
Theorem logic_rmw_sim : forall m addr len o op f sz dst src,
  logic_alu o = Some (op, f) -> mem_operand_ok m dst -> src_operand_ok m sz src -> width_ok sz ->
  sim_when (no_wrap sz dst) m addr len (IAlu o sz dst src).
Proof. exact X86SimMem.logic_rmw_sim. Qed.
Print Assumptions logic_rmw_sim.
Theorem cmp_mem_sim : forall m addr len sz dst src,
  mem_operand_ok m dst -> src_operand_ok m sz src -> width_ok sz -> sim_when (no_wrap sz dst) m addr len (IAlu ACmp sz dst src).
Proof. exact X86SimMem.cmp_mem_sim. Qed.
Print Assumptions cmp_mem_sim.
Theorem incdec_rmw_sim : forall m addr len (sub : bool) sz dst,
  mem_operand_ok m dst -> width_ok sz -> sim_when (no_wrap sz dst) m addr len (IUn (if sub then UDec else UInc) sz dst).
Proof. exact X86SimMem.incdec_rmw_sim. Qed.
Print Assumptions incdec_rmw_sim.

(* 14. stack: push r|imm|[m] (incl. push rsp, 16-bit operands) and pop r|[m] (incl. pop rsp; the address of a memory
       destination is computed with the advanced stack pointer), under the condition that the stack access (and
       the operand access) does not cross the end of the address space *)
Theorem push_sim : forall m addr len sz src,
  src_operand_ok m sz src -> width_ok sz -> sim_when (push_no_wrap m sz) m addr len (IPush sz src).
Proof. exact X86SimStack.push_sim. Qed.
Print Assumptions push_sim.
Theorem pop_sim : forall m addr len sz dst,
  reg_operand_ok m sz dst -> width_ok sz -> sim_when (pop_no_wrap m sz) m addr len (IPop sz dst).
Proof. exact X86SimStack.pop_sim. Qed.
Print Assumptions pop_sim.
Theorem push_mem_sim : forall m addr len sz src,
  mem_operand_ok m src -> width_ok sz ->
  sim_when (fun s => no_wrap sz src s /\ push_no_wrap m sz s) m addr len (IPush sz src).
Proof. exact X86SimStack.push_mem_sim. Qed.
Print Assumptions push_mem_sim.
Theorem pop_mem_sim : forall m addr len sz dst,
  mem_operand_ok m dst -> width_ok sz ->
  sim_when (fun s => pop_no_wrap m sz s /\
                     no_wrap sz dst (set_gpr s (rset (x_gpr s) X86.SP (U (wordsz m) (rget (x_gpr s) X86.SP + sz / 8)))))
           m addr len (IPop sz dst).
Proof. exact X86SimStack.pop_mem_sim. Qed.
Print Assumptions pop_mem_sim.

(* 15. adc / sbb in all operand positions (they read CF: X86.step is unspecified when CF is undefined) *)
Theorem adc_sim : forall m addr len sz dst src,
  reg_operand_ok m sz dst -> src_operand_ok m sz src -> width_ok sz -> sim m addr len (IAlu AAdc sz dst src).
Proof. exact X86SimCarry.adc_sim. Qed.
Print Assumptions adc_sim.
Theorem adc_load_sim : forall m addr len sz dst src,
  reg_operand_ok m sz dst -> mem_operand_ok m src -> width_ok sz -> sim_when (no_wrap sz src) m addr len (IAlu AAdc sz dst src).
Proof. exact X86SimCarry.adc_load_sim. Qed.
Print Assumptions adc_load_sim.
Theorem adc_rmw_sim : forall m addr len sz dst src,
  mem_operand_ok m dst -> src_operand_ok m sz src -> width_ok sz -> sim_when (no_wrap sz dst) m addr len (IAlu AAdc sz dst src).
Proof. exact X86SimCarry.adc_rmw_sim. Qed.
Print Assumptions adc_rmw_sim.
Theorem sbb_sim : forall m addr len sz dst src,
  reg_operand_ok m sz dst -> src_operand_ok m sz src -> width_ok sz -> sim m addr len (IAlu ASbb sz dst src).
Proof. exact X86SimCarry.sbb_sim. Qed.
Print Assumptions sbb_sim.
Theorem sbb_load_sim : forall m addr len sz dst src,
  reg_operand_ok m sz dst -> mem_operand_ok m src -> width_ok sz -> sim_when (no_wrap sz src) m addr len (IAlu ASbb sz dst src).
Proof. exact X86SimCarry.sbb_load_sim. Qed.
Print Assumptions sbb_load_sim.
Theorem sbb_rmw_sim : forall m addr len sz dst src,
  mem_operand_ok m dst -> src_operand_ok m sz src -> width_ok sz -> sim_when (no_wrap sz dst) m addr len (IAlu ASbb sz dst src).
Proof. exact X86SimCarry.sbb_rmw_sim. Qed.
Print Assumptions sbb_rmw_sim.

(* 16. round 6: test, neg, not (register and memory destinations) *)
Theorem test_sim : forall m addr len sz dst src,
  reg_operand_ok m sz dst -> src_operand_ok m sz src -> width_ok sz -> sim m addr len (IAlu ATest sz dst src).
Proof. exact X86SimMore.test_sim. Qed.
Print Assumptions test_sim.
Theorem test_mem_sim : forall m addr len sz dst src,
  mem_operand_ok m dst -> src_operand_ok m sz src -> width_ok sz -> sim_when (no_wrap sz dst) m addr len (IAlu ATest sz dst src).
Proof. exact X86SimMore.test_mem_sim. Qed.
Print Assumptions test_mem_sim.
Theorem neg_sim : forall m addr len sz dst,
  reg_operand_ok m sz dst -> width_ok sz -> sim m addr len (IUn UNeg sz dst).
Proof. exact X86SimMore.neg_sim. Qed.
Print Assumptions neg_sim.
Theorem neg_rmw_sim : forall m addr len sz dst,
  mem_operand_ok m dst -> width_ok sz -> sim_when (no_wrap sz dst) m addr len (IUn UNeg sz dst).
Proof. exact X86SimMore.neg_rmw_sim. Qed.
Print Assumptions neg_rmw_sim.
Theorem not_sim : forall m addr len sz dst,
  reg_operand_ok m sz dst -> width_ok sz -> sim m addr len (IUn UNot sz dst).
Proof. exact X86SimMore.not_sim. Qed.
Print Assumptions not_sim.
Theorem not_rmw_sim : forall m addr len sz dst,
  mem_operand_ok m dst -> width_ok sz -> sim_when (no_wrap sz dst) m addr len (IUn UNot sz dst).
Proof. exact X86SimMore.not_rmw_sim. Qed.
Print Assumptions not_rmw_sim.

(* 17. round 6: xchg and xadd -- two destinations written in sequence; both operands may be ONE register
   (xchg leaves it unchanged, xadd leaves the sum in it); a memory first operand is stored before the register is written *)
Theorem xchg_sim : forall m addr len sz a b,
  reg_operand_ok m sz a -> reg_operand_ok m sz b -> width_ok sz -> sim m addr len (IXchg sz a b).
Proof. exact X86SimXchg.xchg_sim. Qed.
Print Assumptions xchg_sim.
Theorem xchg_mem_sim : forall m addr len sz a b,
  mem_operand_ok m a -> reg_operand_ok m sz b -> width_ok sz -> sim_when (no_wrap sz a) m addr len (IXchg sz a b).
Proof. exact X86SimXchg.xchg_mem_sim. Qed.
Print Assumptions xchg_mem_sim.
Theorem xadd_sim : forall m addr len sz dst src,
  reg_operand_ok m sz dst -> reg_operand_ok m sz src -> width_ok sz -> sim m addr len (IXadd sz dst src).
Proof. exact X86SimXchg.xadd_sim. Qed.
Print Assumptions xadd_sim.
Theorem xadd_mem_sim : forall m addr len sz dst src,
  mem_operand_ok m dst -> reg_operand_ok m sz src -> width_ok sz -> sim_when (no_wrap sz dst) m addr len (IXadd sz dst src).
Proof. exact X86SimXchg.xadd_mem_sim. Qed.
Print Assumptions xadd_mem_sim.

(* 18. round 6: imul r, r/m and imul r, r/m, imm (register or memory source under the no-wrap condition): the
   truncated product, CF = OF = signed overflow; ZF/SF are undefined in the specification (anything embeds) *)
Theorem imul2_sim : forall m addr len sz dst src,
  reg_operand_ok m sz (OReg dst) -> X86SimMul.opnd_ok m sz src -> isreg src = true \/ is_mem src = true -> width_ok sz ->
  sim_when (X86SimMul.opnd_nw sz src) m addr len (IImul2 sz dst src).
Proof. exact X86SimMul.imul2_sim. Qed.
Print Assumptions imul2_sim.
Theorem imul3_sim : forall m addr len sz dst src imm,
  reg_operand_ok m sz (OReg dst) -> X86SimMul.opnd_ok m sz src -> isreg src = true \/ is_mem src = true -> 0 <= imm < 2 ^ sz -> width_ok sz ->
  sim_when (X86SimMul.opnd_nw sz src) m addr len (IImul3 sz dst src imm).
Proof. exact X86SimMul.imul3_sim. Qed.
Print Assumptions imul3_sim.

(* 19. round 6: shl / shr / sar with an imm8 or cl count (IShift) and with the implicit count 1 of the D0/D1 encodings
   (IShift1), register or memory destination: the count is masked to 5 (6) bits, a masked count of zero leaves every
   flag (and the value) unchanged, otherwise ZF/SF from the result, CF = last bit shifted out and OF for count 1 where
   the specification defines them (they are undefined -- anything embeds -- for CF with count >= size of shl/shr and OF
   with count <> 1) *)
Theorem shift_sim : forall m addr len (o : shop) sz dst cnt,
  X86SimShift.shop3 o -> width_ok sz -> X86SimMul.opnd_ok m sz dst -> isreg dst = true \/ is_mem dst = true ->
  X86SimMul.opnd_ok m 8 cnt -> is_mem cnt = false ->
  sim_when (X86SimMul.opnd_nw sz dst) m addr len (IShift o sz dst cnt).
Proof. exact X86SimShift.shift_sim. Qed.
Print Assumptions shift_sim.
Theorem shift1_sim : forall m addr len (o : shop) sz dst,
  X86SimShift.shop3 o -> width_ok sz -> X86SimMul.opnd_ok m sz dst -> isreg dst = true \/ is_mem dst = true ->
  sim_when (X86SimMul.opnd_nw sz dst) m addr len (IShift1 o sz dst).
Proof. exact X86SimShift.shift1_sim. Qed.
Print Assumptions shift1_sim.

(* 20. round 7: rol / ror (rot_op true = SRol, false = SRor) with imm8 | cl and with the implicit 1: rotation by the masked
   count modulo the operand size; only CF and OF are written, and kept for a zero masked count *)
Theorem rot_sim : forall m addr len (isl : bool) sz dst cnt,
  width_ok sz -> X86SimMul.opnd_ok m sz dst -> isreg dst = true \/ is_mem dst = true -> X86SimMul.opnd_ok m 8 cnt -> is_mem cnt = false ->
  sim_when (X86SimMul.opnd_nw sz dst) m addr len (IShift (X86SimRot.rot_op isl) sz dst cnt).
Proof. exact X86SimRot.rot_sim. Qed.
Print Assumptions rot_sim.
Theorem rot1_sim : forall m addr len (isl : bool) sz dst,
  width_ok sz -> X86SimMul.opnd_ok m sz dst -> isreg dst = true \/ is_mem dst = true ->
  sim_when (X86SimMul.opnd_nw sz dst) m addr len (IShift1 (X86SimRot.rot_op isl) sz dst).
Proof. exact X86SimRot.rot1_sim. Qed.
Print Assumptions rot1_sim.

(* 21. round 7: control transfers.  Blocks that end in a Branch operation leave through Goto (il_run_block_goto);
   blocks followed by guarded successors; the three-block graph of a conditional jump.  The successor list of
   translate_block is part of the tie (X86Mirror.mirror_succ). *)
Theorem il_run_block_goto : forall addr body t,
  (forall o, In o body -> is_branch o = false) ->
  forall suf pre st st' a fuel,
    body = pre ++ suf -> X86Proofs.exec_ops st suf = Ok st' -> exec_op st' (OBranch t) = Ok (st', EvBranch a) -> (length suf < fuel)%nat ->
    X86Run.il_run fuel (mkfunc addr (one_block addr (body ++ [OBranch t])) None) (IL.Loc.LInstr 0 (Z.of_nat (length pre))) st = X86Run.ILFin st' (Some a).
Proof. exact X86SimCtl.il_run_block_goto. Qed.
Print Assumptions il_run_block_goto.
Theorem jmp_rel_sim : forall m addr len t, sim m addr len (IJmpRel t).
Proof. exact X86SimCtl.jmp_rel_sim. Qed.
Print Assumptions jmp_rel_sim.
Theorem jmp_ind_sim : forall m addr len src,
  X86SimMul.opnd_ok m (wordsz m) src -> isreg src = true \/ is_mem src = true ->
  sim_when (X86SimMul.opnd_nw (wordsz m) src) m addr len (IJmpInd src).
Proof. exact X86SimCtl.jmp_ind_sim. Qed.
Print Assumptions jmp_ind_sim.
Theorem ret0_sim : forall m addr len, sim_when (X86SimStack.pop_no_wrap m (wordsz m)) m addr len IRet0.
Proof. exact X86SimCtl.ret0_sim. Qed.
Print Assumptions ret0_sim.
Theorem ret_imm_sim : forall m addr len imm, 0 <= imm < 2 ^ 16 -> sim_when (X86SimStack.pop_no_wrap m (wordsz m)) m addr len (IRet imm).
Proof. exact X86SimCtl.ret_imm_sim. Qed.
Print Assumptions ret_imm_sim.
Theorem jcc_sim : forall m addr len c t, cc_no_pf c = true -> sim m addr len (IJcc c t).
Proof. exact X86SimCtl.jcc_sim. Qed.
Print Assumptions jcc_sim.
Theorem jcxz_sim : forall m addr len csz t, reg_operand_ok m csz (OReg 1) -> sim m addr len (IJcxz csz t).
Proof. exact X86SimCtl.jcxz_sim. Qed.
Print Assumptions jcxz_sim.
Theorem loop_sim : forall m addr len k t, k = 0 \/ k = 1 \/ k = 2 -> sim m addr len (ILoop k t).
Proof. exact X86SimCtl.loop_sim. Qed.
Print Assumptions loop_sim.

(* 22. round 7: bt / bts / btr / btc with the bit offset taken modulo the operand size: register base with a register or
   imm8 offset, memory base with an imm8 offset (not the bit-string form [m], r).  CF = the selected bit, ZF unchanged,
   SF/OF/PF undefined in the specification; the selected bit is set / cleared / complemented *)
Theorem bt_sim : forall m addr len (o : btop) sz dst src,
  width_ok sz -> X86SimBt.bt_form_ok dst src = true -> X86SimMul.opnd_ok m sz dst -> X86SimMul.opnd_ok m (X86SimBt.bt_osz sz src) src ->
  sim_when (X86SimMul.opnd_nw sz dst) m addr len (IBt o sz dst src).
Proof. exact X86SimBt.bt_sim. Qed.
Print Assumptions bt_sim.

(* 23. round 8: call rel and call r|[m] (register other than the stack pointer): the return address addr + len is pushed
   (mirror_instr takes the instruction length since this round), then the Branch.  The form `call rsp` is mirrored and tied
   (the target is copied to a temporary before the push, lifter fix e33b49f) but has no theorem. *)
Theorem call_rel_sim : forall m addr len t,
  0 <= t < 2 ^ wordsz m -> 0 <= addr + len < 2 ^ wordsz m ->
  sim_when (X86SimStack.push_no_wrap m (wordsz m)) m addr len (ICallRel t).
Proof. exact X86SimCall.call_rel_sim. Qed.
Print Assumptions call_rel_sim.
Theorem call_ind_sim : forall m addr len src,
  X86SimMul.opnd_ok m (wordsz m) src -> isreg src = true \/ is_mem src = true -> src <> OReg 4 -> 0 <= addr + len < 2 ^ wordsz m ->
  sim_when (fun s => X86SimMul.opnd_nw (wordsz m) src s /\ X86SimStack.push_no_wrap m (wordsz m) s) m addr len (ICallInd src).
Proof. exact X86SimCall.call_ind_sim. Qed.
Print Assumptions call_ind_sim.

(* 24. round 8: graphs with a guarded block of real operations (run symbolically: X86SimCmov.run_diamond_1/_2,
   run_diamond4_11/_21) and cmovcc r, r for the 14 condition codes that do not read PF: the three-block graph, and the
   four-block graph of a 32-bit destination in long mode, whose "condition false" arm rewrites the destination with
   itself (zero-extension); for the other sizes a false condition changes nothing *)
Theorem cmov_sim : forall m addr len c sz dst src,
  cc_no_pf c = true -> reg_operand_ok m sz (OReg dst) -> reg_operand_ok m sz src -> width_ok sz -> sz <> 8 ->
  sim m addr len (ICmov c sz dst src).
Proof. exact X86SimCmov.cmov_sim. Qed.
Print Assumptions cmov_sim.
