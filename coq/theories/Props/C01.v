(* Props/C01.v -- property theorems only *)
From Coq Require Import ZArith List.
From Falcon Require Import Isa.X86 Isa.X86Run Isa.C01Check.
Import ListNotations.
Local Open Scope Z_scope.

Theorem patch_nil : forall l i, patch i l [] = l.
Proof. induction l as [|x t IH]; intros i; cbn; [reflexivity|]. rewrite IH. reflexivity. Qed.
Print Assumptions patch_nil.
