(* Props/C01.v -- property theorems only (proofs in Isa/X86Proofs.v).
   Depth part of C01: the shared helper layer of the x86 lifter, mirrored in Isa/X86Lift.v, against the
   ISA specification Isa/X86.v, for ALL values.  The per-encoding breadth part is the in-kernel differential
   check of Isa/C01Check.v (processor + specification as oracles). *)
From Coq Require Import ZArith List Bool NArith.
From Falcon Require Import Base.Res IL.Const IL.ConstSpec IL.Expr IL.Func Exec.Sem Isa.X86 Isa.X86Lift Isa.X86Proofs.
Import ListNotations.
Local Open Scope Z_scope.

(* 1. X86Register::get / set (all sub-register kinds al/ah/ax/eax/rax, both register tables): reading and
      writing a sub-register composes exactly as the architecture says (X86.reg_read / reg_write /
      regh_read / regh_write), for every value of the full register and every value written. *)
Theorem reg_get_set_correct : forall en n fbits s x,
  shape_valid fbits s -> 0 <= x < 2 ^ fbits -> env_get en (n, None) = Some (mkc fbits x) ->
  (exists e, reg_get (xreg_of n fbits s) = Ok e /\
             den en e = Ok (mkc (shape_bits fbits s) (arch_read s fbits x))) /\
  (forall v y, 0 <= y < 2 ^ shape_bits fbits s -> e_bits v = shape_bits fbits s ->
               den en v = Ok (mkc (shape_bits fbits s) y) ->
     exists e, reg_set (xreg_of n fbits s) v = Ok [OAssign (mks n fbits None) e] /\
               den en e = Ok (mkc fbits (arch_write s fbits x y))).
Proof. exact X86Proofs.reg_get_set_correct. Qed.
Print Assumptions reg_get_set_correct.

(* the defect this layer had before the fix (mask of the high-byte write not inverted), as a witness *)
Theorem reg_set_prefix_refuted :
  let en := [((0%N, None), mkc 64 1311768467463790320)] in
  let v := EConst (mkc 8 85) in
  exists e, reg_set_prefix (xreg_of 0%N 64 ShHigh8) v = Ok [OAssign (mks 0%N 64 None) e] /\
            den en e = Ok (mkc 64 57088) /\
            arch_write ShHigh8 64 1311768467463790320 85 = 1311768467463755248.
Proof. exact X86Proofs.reg_set_prefix_refuted. Qed.
Print Assumptions reg_set_prefix_refuted.

(* 2. flag helpers: the formulas of set_of / set_cf / set_sf are the architectural OF / CF / SF for all
      operand values at widths 8/16/32/64 ... *)
Theorem of_add_correct : forall w a b, width_ok w -> 0 <= a < 2 ^ w -> 0 <= b < 2 ^ w ->
  of_value w a b (U w (a + b)) false = X86.b2z (X86.sovf w (X86.Sg w a + X86.Sg w b)).
Proof. exact X86Proofs.of_add_correct. Qed.
Print Assumptions of_add_correct.
Theorem of_sub_correct : forall w a b, width_ok w -> 0 <= a < 2 ^ w -> 0 <= b < 2 ^ w ->
  of_value w a b (U w (a - b)) true = X86.b2z (X86.sovf w (X86.Sg w a - X86.Sg w b)).
Proof. exact X86Proofs.of_sub_correct. Qed.
Print Assumptions of_sub_correct.
Theorem cf_sub_correct : forall w a b, width_ok w -> 0 <= a < 2 ^ w -> 0 <= b < 2 ^ w ->
  (a <? U w (a - b)) = (a <? b).
Proof. exact X86Proofs.cf_sub_correct. Qed.
Print Assumptions cf_sub_correct.
Theorem cf_add_correct : forall w a b, width_ok w -> 0 <= a < 2 ^ w -> 0 <= b < 2 ^ w ->
  (U w (a + b) <? a) = (2 ^ w <=? a + b).
Proof. exact X86Proofs.cf_add_correct. Qed.
Print Assumptions cf_add_correct.
Theorem sf_correct : forall w r, width_ok w -> 0 <= r < 2 ^ w ->
  (r / 2 ^ (w - 1)) mod 2 = X86.b2z (X86.msb w r).
Proof. exact X86Proofs.sf_correct. Qed.
Print Assumptions sf_correct.

(* ... and the IL the helpers emit denotes exactly those formulas (no sort error for equal-width operands) *)
Theorem set_zf_den : forall en w r result, e_bits result = w -> den en result = Ok (mkc w r) ->
  exists e, set_zf result = Ok (OAssign (flag_scalar X86Lift.n_ZF) e) /\ den en e = Ok (mkc 1 (X86.b2z (r =? 0))).
Proof. exact X86Proofs.set_zf_den. Qed.
Print Assumptions set_zf_den.
Theorem set_sf_den : forall en w a b r lhs rhs result, width_ok w ->
  0 <= a < 2 ^ w -> 0 <= b < 2 ^ w -> 0 <= r < 2 ^ w ->
  e_bits lhs = w -> e_bits rhs = w -> e_bits result = w ->
  den en lhs = Ok (mkc w a) -> den en rhs = Ok (mkc w b) -> den en result = Ok (mkc w r) ->
  exists e, set_sf result = Ok (OAssign (flag_scalar X86Lift.n_SF) e) /\ den en e = Ok (mkc 1 (X86.b2z (X86.msb w r))).
Proof. exact X86Proofs.set_sf_den. Qed.
Print Assumptions set_sf_den.
Theorem set_cf_den : forall en w a r lhs result, e_bits lhs = w -> e_bits result = w ->
  den en lhs = Ok (mkc w a) -> den en result = Ok (mkc w r) ->
  exists e, set_cf result lhs = Ok (OAssign (flag_scalar X86Lift.n_CF) e) /\ den en e = Ok (mkc 1 (X86.b2z (a <? r))).
Proof. exact X86Proofs.set_cf_den. Qed.
Print Assumptions set_cf_den.
Theorem set_of_den : forall en w a b r lhs rhs result, width_ok w ->
  0 <= a < 2 ^ w -> 0 <= b < 2 ^ w -> 0 <= r < 2 ^ w ->
  e_bits lhs = w -> e_bits rhs = w -> e_bits result = w ->
  den en lhs = Ok (mkc w a) -> den en rhs = Ok (mkc w b) -> den en result = Ok (mkc w r) ->
  forall sub, exists e, set_of result lhs rhs sub = Ok (OAssign (flag_scalar X86Lift.n_OF) e) /\
                        den en e = Ok (mkc 1 (of_value w a b r sub)).
Proof. exact X86Proofs.set_of_den. Qed.
Print Assumptions set_of_den.
