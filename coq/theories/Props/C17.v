(* Props/C17.v -- property theorems only *)
From Coq Require Import ZArith List Bool NArith.
From Falcon Require Import Base.Res IL.Const IL.Expr IL.Func IL.Loc Exec.Sem Flow.SPO Flow.C17Check Flow.SPOProofs.
Import ListNotations.
Local Open Scope Z_scope.

(* 1. soundness.  For every function satisfying the CFG invariant (C15) whose operations on the
      stack-pointer name are well sorted (sp_wf, executable), whose entry block has no incoming edge:
      whenever the analysis reports the number k at a location, then on EVERY execution of the
      reference semantics from the entry (any fuel, any initial memory, any initial state in which the
      stack pointer holds sp0), the stack pointer immediately after that location holds
      (sp0 + k) mod 2^w  -- k read modulo 2^w as DESIGN.md says. *)
Theorem spo_sound : forall f sp max r,
  cfg_inv (f_cfg f) = true -> sp_wf sp f = true -> entry_has_no_incoming f = true ->
  stack_pointer_offsets_max max f sp = Ok r ->
  forall l0 st0 sp0 fuel ti st' k,
    entry_loc f = Some l0 -> sp_state sp st0 sp0 ->
    In ti (sem_run fuel f l0 st0) -> state_after (ti_res ti) = Some st' ->
    sm_get r (ti_loc ti) = Some (SVal k) ->
    sp_state sp st' ((sp0 + k) mod 2 ^ sbits sp).
Proof. exact SPOProofs.spo_sound. Qed.
Print Assumptions spo_sound.

(* 2. 'unknown rather than a number': loads into the stack pointer; sources that are not
      sp +/- constants (in particular those mentioning another scalar); predecessors that disagree *)
Theorem spo_unknown : forall f sp max r l s,
  cfg_inv (f_cfg f) = true -> stack_pointer_offsets_max max f sp = Ok r -> sm_get r l = Some s ->
  (forall i dst idx, loc_instruction f l = Some i -> i_op i = OLoad dst idx -> scalar_eqb dst sp = true -> s = STop) /\
  (forall i dst src, loc_instruction f l = Some i -> i_op i = OAssign dst src -> scalar_eqb dst sp = true ->
     mentions_other sp src = true \/ is_offset sp src = false -> forall k, s <> SVal k) /\
  (forall p1 p2 k1 k2, In p1 (il_pred f l) -> In p2 (il_pred f l) ->
     sm_get r p1 = Some (SVal k1) -> sm_get r p2 = Some (SVal k2) -> k1 <> k2 -> s = STop).
Proof. exact SPOProofs.spo_unknown. Qed.
Print Assumptions spo_unknown.

(* 3. completion, for every stack-pointer width 1 <= w <= 64 (sp_wf), i.e. for the 32-bit stack pointers
      of x86 / mips / mipsel / ppc and the 64-bit ones of amd64 / aarch64 / aarch64eb alike: a function
      whose entry block has no incoming edge is analysed without error (no sort error, no ordering error,
      no panic, no conversion error) whenever the engine's step budget covers the C09 bound
      1 + out_degree * |locations| * 3  (lattice height 2).  With the hard-coded budget 250000 this
      covers every function with  out_degree * |locations| * 3 <= 250000. *)
Theorem spo_completes : forall f sp max,
  cfg_inv (f_cfg f) = true -> sp_wf sp f = true -> entry_has_no_incoming f = true ->
  (1 + out_degree f * (length (locations f) * 3) <= S max)%nat ->
  exists r, stack_pointer_offsets_max max f sp = Ok r.
Proof. exact SPOProofs.spo_completes. Qed.
Print Assumptions spo_completes.

(* the hypotheses are satisfiable, and a number is reported: push; pop on x86 (esp = scalar 0, 32 bits) *)
Definition esp : scalar := mks 0%N 32 None.
Definition ex_f : func :=
  mkfunc 4096
    (mkcfg [mkblock 0 2 [mkinstr 0 (OAssign esp (EBin Sub (EScalar esp) (EConst (mkc 32 4)))) None;
                         mkinstr 1 (OAssign esp (EBin Add (EScalar esp) (EConst (mkc 32 4)))) None] []]
           [] 1 (Some 0) (Some 0)) None.
Example spo_hyps_satisfiable :
  cfg_inv (f_cfg ex_f) = true /\ sp_wf esp ex_f = true /\ entry_has_no_incoming ex_f = true /\
  stack_pointer_offsets ex_f esp = Ok [(LInstr 0 0, SVal 4294967292); (LInstr 0 1, SVal 0)].
Proof. vm_compute. repeat split; reflexivity. Qed.
