(* Flow/FpIL.v -- the fixed-point engines instantiated on IL functions (locations of IL/Loc.v).
   Definitions only. *)
From Coq Require Import ZArith List Bool Arith.
From Falcon Require Import Base.Res IL.Const IL.Expr IL.Func IL.Loc Flow.FixedPoint.
Import ListNotations.

Section FPIL.
  Variable S : Type.
  Variable f : func.
  Variable trans : floc -> option S -> res S.
  Variable join : S -> S -> res S.
  Variable cmp : S -> S -> option comparison.

  Definition result := res (list (floc * S)).

  Definition of_outcome (o : @outcome floc S) : result :=
    match o with
    | Done m => Ok m
    | Fail e => Err e
    | Crash => Panic
    | OutOfFuel => Err EOther      (* never compared: callers supply sufficient fuel and say so *)
    end.

  (* fixed_point_forward_options: entry block's first instruction, or EmptyBlock *)
  Definition fp_forward (force : bool) (max : nat) : result :=
    match g_entry (f_cfg f) with
    | None => Err ENoEntry
    | Some e =>
        b <- f_block f e ;;
        of_outcome (run floc S floc_eqb (backward f) (forward f) trans join cmp
                        (Datatypes.S (Datatypes.S max)) force max 0 [] [block_first_loc b])
    end.

  (* fixed_point_backward_options: exit block's last instruction, or EmptyBlock; no budget *)
  Definition fp_backward (fuel : nat) (force : bool) : result :=
    match g_exit (f_cfg f) with
    | None => Err ENoExit
    | Some e =>
        b <- f_block f e ;;
        of_outcome (run_nobudget floc S floc_eqb (forward f) (backward f) trans join cmp
                        fuel force [] [block_last_loc b])
    end.
End FPIL.
