(* Flow/DCE.v -- model of lib/analysis/dead_code_elimination.rs AS REPAIRED by the `fix:` commits of
   property C14 (see notes/C14.md):
     * only assignments and loads are candidates (intrinsics are never replaced);
     * the live set is seeded, at Branch / Intrinsic instructions, with the definitions REACHING them
       (reaching_definitions::reaching_before), no longer with rd[location];
     * `rd.get(..)` / `du.get(..)` instead of unwrap / index: code unreachable from the entry is left alone.
   Definitions only (proofs: Flow/DCEProofs.v). *)
From Coq Require Import ZArith List Bool NArith.
From Falcon Require Import Base.Res IL.Const IL.Expr IL.Func IL.Loc Flow.FixedPoint Flow.FpIL Flow.RD Flow.UseDef.
Import ListNotations.
Local Open Scope Z_scope.

(* HashSet<FunctionLocation> *)
Definition add_all (live s : lset) : lset := fold_left (fun a d => ls_insert d a) s live.

(* blocks without successor: edges_out(block.index()).unwrap().is_empty() *)
Fixpoint live_terminal (f : func) (m : rdmap) (bs : list block) (live : lset) : res lset :=
  match bs with
  | [] => Ok live
  | b :: t =>
      match cfg_edges_out (f_cfg f) (b_index b) with
      | Ok [] =>
          live_terminal f m t (match rd_lookup m (block_last_loc b) with
                               | Some s => add_all live s
                               | None => live
                               end)
      | Ok _ => live_terminal f m t live
      | _ => Panic
      end
  end.

(* for block in blocks { for instruction in instructions { Branch | Intrinsic => reaching_before(..)? } } *)
Fixpoint live_instrs (f : func) (m : rdmap) (bi : Z) (is_ : list instruction) (live : lset) : res lset :=
  match is_ with
  | [] => Ok live
  | x :: t =>
      if is_branch (i_op x) || is_intrinsic (i_op x) then
        r <- reaching_before f m (LInstr bi (i_index x)) ;; live_instrs f m bi t (add_all live r)
      else live_instrs f m bi t live
  end.
Fixpoint live_blocks (f : func) (m : rdmap) (bs : list block) (live : lset) : res lset :=
  match bs with
  | [] => Ok live
  | b :: t => l <- live_instrs f m (b_index b) (b_instrs b) live ;; live_blocks f m t l
  end.

Definition live_set (f : func) (m : rdmap) : res lset :=
  l <- live_terminal f m (f_blocks f) [] ;; live_blocks f m (f_blocks f) l.

(* the filter chain over function.locations() *)
Definition candidate (f : func) (l : floc) : bool :=
  match l with
  | LInstr _ _ => match loc_instruction f l with
                  | Some i => is_assign (i_op i) || is_load (i_op i)
                  | None => false
                  end
  | _ => false
  end.
Definition killed (f : func) (live : lset) (du : dumap) (l : floc) : bool :=
  candidate f l && negb (ls_mem l live) &&
  match du_lookup du l with Some uses => match uses with [] => true | _ => false end | None => false end.

(* *block.instruction_mut(i).ok_or(..)?.operation_mut() = Operation::nop()  -- first instruction with that index *)
Fixpoint nop_instr (is_ : list instruction) (i : Z) : option (list instruction) :=
  match is_ with
  | [] => None
  | x :: t => if i_index x =? i then Some (mkinstr (i_index x) (ONop None) (i_addr x) :: t)
              else match nop_instr t i with Some t' => Some (x :: t') | None => None end
  end.
Fixpoint nop_block (bs : list block) (bi i : Z) : res (list block) :=
  match bs with
  | [] => Panic                                       (* block_mut(block_index).unwrap() *)
  | b :: t => if b_index b =? bi then
                match nop_instr (b_instrs b) i with
                | Some is' => Ok (mkblock (b_index b) (b_next b) is' (b_phis b) :: t)
                | None => Err ECustom                 (* "Failed to find instruction" *)
                end
              else t' <- nop_block t bi i ;; Ok (b :: t')
  end.
Definition nop_at (f : func) (k : floc) : res func :=
  match k with
  | LInstr bi i =>
      bs <- nop_block (f_blocks f) bi i ;;
      Ok (mkfunc (f_addr f) (mkcfg bs (g_edges (f_cfg f)) (g_next_index (f_cfg f)) (g_entry (f_cfg f)) (g_exit (f_cfg f))) (f_index f))
  | _ => Panic                                        (* instruction_index().unwrap() *)
  end.

Definition dce_with (f : func) (m : rdmap) (du : dumap) : res func :=
  live <- live_set f m ;;
  fold_left (fun acc k => g <- acc ;; nop_at g k) (filter (killed f live du) (locations f)) (Ok f).

Definition dead_code_elimination_max (max : nat) (f : func) : res func :=
  m <- reaching_definitions_max max f ;;
  live <- live_set f m ;;
  du <- def_use_max max f ;;
  fold_left (fun acc k => g <- acc ;; nop_at g k) (filter (killed f live du) (locations f)) (Ok f).
Definition dead_code_elimination (f : func) : res func := dead_code_elimination_max MAX_STEPS f.
