(* Flow/C09Check.v -- per-case checker of property C09, evaluated in the kernel by the case files:
   fst = tie    (the engine model Flow/FpIL.v, instantiated with the case's analysis, = observed result)
   snd = oracle (the observed result satisfies the property, computed from the specification: reachable
                 set by closure of the successor relation, the data-flow equations re-evaluated at every
                 location, leastness by enumeration of all solutions, termination / error class).

   The analyses are a small parametric family whose trans / join / partial_cmp are written twice:
   here (Gallina) and in harness/src/bin/c09.rs (Rust, against the public trait).  States are integers:
     LSet  -- bit sets ordered by inclusion;  LNum -- integers in numeric order;
     LFlat -- the flat constant lattice  Bot = -1 < c >= 0 < Top = -2. *)
From Coq Require Import ZArith List Bool NArith Arith.
From Falcon Require Import Base.Res IL.Const IL.Expr IL.Func IL.Loc Flow.FixedPoint Flow.FpIL.
Import ListNotations.
Local Open Scope Z_scope.

Inductive lat := LSet | LNum | LFlat.
Inductive jn := JUnion | JInter | JMax | JMin | JFlat | JErrDiff | JFirst.
Inductive top :=
| TGenKill (gen kill : Z)      (* (x & ~kill) | gen *)
| TIncMin (k : Z)              (* min k (x+1) *)
| TInc                         (* x+1 : unbounded *)
| TXor (mask : Z)              (* x ^ mask : not monotone *)
| TConst (c : Z)
| TId
| TFlatAdd (c : Z)             (* constants move by c, Bot/Top stay *)
| TSubFrom (k : Z)             (* k - x : antitone *)
| TErr                         (* Err Sort *)
| TPanic.

Record ana := mkana {
  a_lat : lat; a_join : jn; a_init : Z;        (* a_init: the input used when no neighbour has a state *)
  a_default : top; a_ops : list (floc * top) }.

(* PartialOrd::partial_cmp self other *)
Definition a_cmp (a : ana) (x y : Z) : option comparison :=
  match a_lat a with
  | LSet => if x =? y then Some Eq
            else if Z.land x y =? x then Some Lt
            else if Z.land x y =? y then Some Gt else None
  | LNum => Some (x ?= y)
  | LFlat => if x =? y then Some Eq
             else if x =? -1 then Some Lt
             else if y =? -1 then Some Gt
             else if x =? -2 then Some Gt
             else if y =? -2 then Some Lt else None
  end.

(* FixedPointAnalysis::join state0 state1 *)
Definition a_joinf (a : ana) (x y : Z) : res Z :=
  match a_join a with
  | JUnion => Ok (Z.lor x y)
  | JInter => Ok (Z.land x y)
  | JMax => Ok (Z.max x y)
  | JMin => Ok (Z.min x y)
  | JFlat => Ok (if x =? y then x else if x =? -1 then y else if y =? -1 then x else -2)
  | JErrDiff => if x =? y then Ok x else Err EDivZero
  | JFirst => Ok x
  end.

Definition app_op (o : top) (x : Z) : res Z :=
  match o with
  | TGenKill g k => Ok (Z.lor (Z.land x (Z.lnot k)) g)
  | TIncMin k => Ok (Z.min k (x + 1))
  | TInc => Ok (x + 1)
  | TXor mk => Ok (Z.lxor x mk)
  | TConst c => Ok c
  | TId => Ok x
  | TFlatAdd c => Ok (if x <? 0 then x else x + c)
  | TSubFrom k => Ok (k - x)
  | TErr => Err ESort
  | TPanic => Panic
  end.

Fixpoint op_at (ops : list (floc * top)) (d : top) (l : floc) : top :=
  match ops with [] => d | (k, o) :: t => if floc_eqb k l then o else op_at t d l end.

(* FixedPointAnalysis::trans location state *)
Definition a_trans (a : ana) (l : floc) (st : option Z) : res Z :=
  app_op (op_at (a_ops a) (a_default a) l) (match st with None => a_init a | Some s => s end).

Inductive dir := Fwd | Bwd.

(* [lim]: forward = max_analysis_steps; backward = watchdog (the harness' trans fails with an error of
   kind EOther at call lim+1, the model runs with fuel lim) *)
Inductive case := K (d : dir) (f : func) (a : ana) (carrier : list Z) (force : bool) (lim : nat)
                    (obs : res (list (ploc * Z))).

(* ------------------------------------------------------------------ tie *)
Definition zlookup (m : list (floc * Z)) (l : floc) : option Z :=
  match find (fun kv => floc_eqb (fst kv) l) m with Some kv => Some (snd kv) | None => None end.
Definition memf (l : floc) (q : list floc) : bool := existsb (floc_eqb l) q.
Fixpoint nodupf (q : list floc) : bool :=
  match q with [] => true | x :: t => negb (memf x t) && nodupf t end.

Definition map_matches (f : func) (m : list (floc * Z)) (pm : list (ploc * Z)) : bool :=
  (length m =? length pm)%nat && nodupf (List.map (fun kv => pl_loc (fst kv)) pm) &&
  forallb (fun kv => optZ_eqb (pl_func (fst kv)) (f_index f) &&
                     match zlookup m (pl_loc (fst kv)) with Some v => v =? snd kv | None => false end) pm.

Definition model (d : dir) (f : func) (a : ana) (force : bool) (lim : nat) : res (list (floc * Z)) :=
  match d with
  | Fwd => fp_forward Z f (a_trans a) (a_joinf a) (a_cmp a) force lim
  | Bwd => fp_backward Z f (a_trans a) (a_joinf a) (a_cmp a) lim force
  end.

Definition tie (d : dir) (f : func) (a : ana) (force : bool) (lim : nat) (obs : res (list (ploc * Z))) : bool :=
  match d, model d f a force lim, obs with
  | Bwd, Err EOther, Err EOther => true       (* model out of fuel <-> watchdog *)
  | Bwd, Err EOther, Panic => true            (* ... or a join failed in the fold of that very iteration *)
  | Bwd, Err EOther, _ => false
  | _, Ok m, Ok pm => map_matches f m pm
  | _, Err e, Err e' => err_eqb e e'
  | _, Panic, Panic => true
  | _, _, _ => false
  end.

(* ------------------------------------------------------------------ oracle *)
(* the location the analysis starts from *)
Definition start (d : dir) (f : func) : option (res floc) :=
  match d with
  | Fwd => match g_entry (f_cfg f) with None => None | Some e => Some (b <- f_block f e ;; Ok (block_first_loc b)) end
  | Bwd => match g_exit (f_cfg f) with None => None | Some e => Some (b <- f_block f e ;; Ok (block_last_loc b)) end
  end.

(* closure of [work] under the successor relation [nx] *)
Fixpoint closure (nx : floc -> res (list floc)) (fuel : nat) (seen work : list floc) : list floc :=
  match fuel with
  | O => seen
  | Datatypes.S fuel =>
      match work with
      | [] => seen
      | l :: w => if memf l seen then closure nx fuel seen w
                  else closure nx fuel (l :: seen) (match nx l with Ok ss => ss ++ w | _ => w end)
      end
  end.

Definition le (a : ana) (x y : Z) : bool :=
  match a_cmp a x y with Some Lt | Some Eq => true | _ => false end.
Definition eqv (a : ana) (x y : Z) : bool :=
  match a_cmp a x y with Some Eq => true | _ => false end.
Definition ole (a : ana) (x y : option Z) : bool :=
  match x, y with None, _ => true | Some u, Some v => le a u v | Some _, None => false end.
Definition inZ (x : Z) (l : list Z) : bool := existsb (Z.eqb x) l.

(* join of the states of the neighbours that have one, in the order of the neighbour list *)
Fixpoint join_list (a : ana) (acc : option Z) (vs : list Z) : res (option Z) :=
  match vs with
  | [] => Ok acc
  | v :: t => match acc with
              | None => join_list a (Some v) t
              | Some s => match a_joinf a s v with Ok j => join_list a (Some j) t | _ => Panic end
              end
  end.
Definition states_of (m : list (floc * Z)) (ps : list floc) : list Z :=
  flat_map (fun p => match zlookup m p with Some v => [v] | None => [] end) ps.

(* the equation at l:  R (trans l (join of the neighbours' states)) (m l) *)
Definition eqn_at (a : ana) (pv : floc -> res (list floc)) (m : list (floc * Z)) (R : Z -> Z -> bool) (l : floc) : bool :=
  match pv l with
  | Ok ps => match join_list a None (states_of m ps) with
             | Ok st => match a_trans a l st, zlookup m l with
                        | Ok new, Some s => R new s
                        | _, _ => false
                        end
             | _ => false
             end
  | _ => false
  end.

(* the analysis is in the property's class on this function: [c] is a finite carrier closed under trans
   and join, partial_cmp is a partial order on it (Equal = equality), join is its least upper bound,
   trans is monotone with None as bottom, nothing fails *)
Definition order_ok (a : ana) (c : list Z) : bool :=
  forallb (fun x => forallb (fun y =>
    match a_cmp a x y, a_cmp a y x with
    | Some Eq, Some Eq => x =? y
    | Some Lt, Some Gt | Some Gt, Some Lt | None, None => negb (x =? y)
    | _, _ => false
    end && forallb (fun z => implb (le a x y && le a y z) (le a x z)) c) c) c.
Definition lub_ok (a : ana) (c : list Z) : bool :=
  forallb (fun x => forallb (fun y =>
    match a_joinf a x y with
    | Ok j => inZ j c && le a x j && le a y j && forallb (fun z => implb (le a x z && le a y z) (le a j z)) c
    | _ => false
    end) c) c.
Definition mono_ok (a : ana) (rs : list floc) (c : list Z) : bool :=
  let oc := None :: List.map Some c in
  forallb (fun l => forallb (fun x => forallb (fun y =>
    implb (ole a x y)
          match a_trans a l x, a_trans a l y with
          | Ok u, Ok v => inZ u c && inZ v c && le a u v
          | _, _ => false
          end) oc) oc) rs.
Definition good (a : ana) (rs : list floc) (c : list Z) : bool :=
  negb (length c =? 0)%nat && order_ok a c && lub_ok a c && mono_ok a rs c.

(* all maps keys -> carrier *)
Fixpoint all_maps (keys : list floc) (c : list Z) : list (list (floc * Z)) :=
  match keys with
  | [] => [[]]
  | k :: t => let r := all_maps t c in flat_map (fun v => List.map (fun m => (k, v) :: m) r) c
  end.
Definition least_ok (a : ana) (pv : floc -> res (list floc)) (rs : list floc) (c : list Z) (m : list (floc * Z)) : bool :=
  forallb (fun m' =>
    if forallb (eqn_at a pv m' (eqv a)) rs
    then forallb (fun l => match zlookup m l, zlookup m' l with Some s, Some s' => le a s s' | _, _ => false end) rs
    else true)
    (all_maps rs c).

Definition max_deg (nx : floc -> res (list floc)) (rs : list floc) : nat :=
  fold_left (fun acc l => Nat.max acc (match nx l with Ok ss => length ss | _ => O end)) rs O.

Definition same_set (a b : list floc) : bool := forallb (fun x => memf x b) a && forallb (fun x => memf x a) b.

Definition is_err (obs : res (list (ploc * Z))) (e : err) : bool :=
  match obs with Err e' => err_eqb e e' | _ => false end.

Definition oracle (d : dir) (f : func) (a : ana) (c : list Z) (force : bool) (lim : nat) (obs : res (list (ploc * Z))) : bool :=
  let nx := match d with Fwd => forward f | Bwd => backward f end in
  let pv := match d with Fwd => backward f | Bwd => forward f end in
  match start d f with
  | None => is_err obs (match d with Fwd => ENoEntry | Bwd => ENoExit end)
  | Some (Ok e) =>
      let nl := length (locations f) in
      let rs := closure nx (Datatypes.S ((nl + 1) * (nl + 1))) [] [e] in
      let g := good a rs c in
      (* pops always sufficient: 1 + n (h+1) d, h+1 <= |carrier| *)
      let bound := (1 + length rs * length c * max_deg nx rs)%nat in
      match obs with
      | Ok pm =>
          let m := List.map (fun kv => (pl_loc (fst kv), snd kv)) pm in
          let keys := List.map fst m in
          forallb (fun kv => optZ_eqb (pl_func (fst kv)) (f_index f)) pm &&
          nodupf keys && same_set keys rs &&
          (if force then (if g then forallb (eqn_at a pv m (le a)) keys else true)
           else forallb (eqn_at a pv m (eqv a)) keys) &&
          (if g then
             if (length rs <=? 6)%nat then
               if (N.pow (N.of_nat (length c)) (N.of_nat (length rs)) <=? 4096)%N then least_ok a pv rs c m else true
             else true
           else true)
      | Err EMaxSteps => match d with Fwd => negb g || (Datatypes.S lim <? bound)%nat | Bwd => false end
      | Err EOrdering => negb force && negb g
      | Err EOther => match d with Bwd => negb g || (lim <? bound)%nat | Fwd => false end
      | _ => negb g
      end
  | Some _ => true
  end.

Definition ck (k : case) : bool * bool :=
  match k with
  | K d f a c force lim obs => (tie d f a force lim obs, oracle d f a c force lim obs)
  end.
