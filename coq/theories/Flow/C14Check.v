(* Flow/C14Check.v -- per-case checker of property C14, evaluated in the kernel by the case files:
   fst = tie (model of dead_code_elimination = observed function), snd = oracle (the OBSERVED function has
   the shape of its input with operations replaced by nop only, and runs in lock step with the input in
   Exec/Sem.v from each initial state of the case: Flow/DCESpec.v). *)
From Coq Require Import ZArith List Bool NArith.
From Falcon Require Import Base.Res IL.Const IL.Expr IL.Func IL.Loc Exec.Sem
     Flow.FixedPoint Flow.FpIL Flow.RD Flow.UseDef Flow.DCE Flow.DCESpec Flow.C12Check.
Import ListNotations.
Local Open Scope Z_scope.

(* compact encoding of the observed function: the harness compares (Rust's derived ==) the output with
   "the input with the operations at these instruction locations replaced by Operation::nop()" and sends
   the mask over Function::locations when they are equal, the whole function otherwise *)
Inductive out := ODiff (mask : Z) | OFull (g : func).

Definition is_instr_loc (l : floc) : bool := match l with LInstr _ _ => true | _ => false end.
Definition set_nops (f : func) (ks : list floc) : func :=
  mkfunc (f_addr f)
    (mkcfg (List.map (fun b => mkblock (b_index b) (b_next b)
                         (List.map (fun i => if existsb (floc_eqb (LInstr (b_index b) (i_index i))) ks
                                             then mkinstr (i_index i) (ONop None) (i_addr i) else i) (b_instrs b))
                         (b_phis b)) (f_blocks f))
           (g_edges (f_cfg f)) (g_next_index (f_cfg f)) (g_entry (f_cfg f)) (g_exit (f_cfg f)))
    (f_index f).
Definition decode_out (f : func) (o : res out) : option (res func) :=
  match o with
  | Ok (OFull g) => Some (Ok g)
  | Ok (ODiff mask) =>
      if (mask <? 0) || (2 ^ Z.of_nat (length (locations f)) <=? mask) then None
      else let ks := mask_set (locations f) 0 mask in
           if forallb is_instr_loc ks then Some (Ok (set_nops f ks)) else None
  | Err e => Some (Err e)
  | Panic => Some Panic
  end.

Inductive case :=
| K (f : func) (big : bool) (seed : Z) (pool : list (N * Z)) (vals : list (list Z)) (obs : res out).

Definition ck (k : case) : bool * bool :=
  match k with
  | K f big seed pool vals obs =>
      match decode_out f obs with
      | Some og =>
          (res_eqb func_eqb (dead_code_elimination_max CASE_MAX f) og,
           match og with
           | Ok g => c14_oracle f g TRACE_FUEL (List.map (fun v => mkst (mk_env pool v) (mkbmem big (arena seed))) vals)
           | Panic => false
           | Err _ => match g_entry (f_cfg f) with None => true | Some _ => false end
           end)
      | None => (false, false)
      end
  end.
