(* Flow/DCESpec.v -- SPECIFICATION of property C14, written from the property text over Exec/Sem.v;
   independent of the model Flow/DCE.v.

   "Dead-code elimination only replaces operations by no-ops - blocks, edges and instruction positions
    are unchanged - and the result is observationally equivalent to its input: from any initial state on
    which the input runs without fault both take the same path, perform the same memory stores in the
    same order, present the same scalar state to every indirect branch and intrinsic, and agree on the
    value of every scalar whenever a block without successors is reached."

   Reading of the last clause: the scalar states agree when the execution ENDS in a block without
   successors (Sem's Exit), which is where dead_code_elimination takes its liveness roots; executing an
   intrinsic has no IL semantics (Sem: Stuck EIntrinsic), so "presenting a state to an intrinsic" is
   reaching it, and the comparison ends there. *)
From Coq Require Import ZArith List Bool NArith.
From Falcon Require Import Base.Res IL.Const IL.Expr IL.Func IL.Loc Exec.Sem.
Import ListNotations.
Local Open Scope Z_scope.

(* ---------- part 1: shape ---------- *)
Definition instr_shape (a b : instruction) : Prop :=
  i_index b = i_index a /\ i_addr b = i_addr a /\ (i_op b = i_op a \/ i_op b = ONop None).
Definition block_shape (a b : block) : Prop :=
  b_index b = b_index a /\ b_next b = b_next a /\ b_phis b = b_phis a /\ Forall2 instr_shape (b_instrs a) (b_instrs b).
Definition func_shape (f g : func) : Prop :=
  f_addr g = f_addr f /\ f_index g = f_index f /\
  g_edges (f_cfg g) = g_edges (f_cfg f) /\ g_next_index (f_cfg g) = g_next_index (f_cfg f) /\
  g_entry (f_cfg g) = g_entry (f_cfg f) /\ g_exit (f_cfg g) = g_exit (f_cfg f) /\
  Forall2 block_shape (f_blocks f) (f_blocks g).

(* boolean equalities (for the oracle and the tie) *)
Definition opt_eqb {A} (e : A -> A -> bool) (a b : option A) : bool :=
  match a, b with Some x, Some y => e x y | None, None => true | _, _ => false end.
Fixpoint list_eqb {A} (e : A -> A -> bool) (a b : list A) : bool :=
  match a, b with
  | [], [] => true
  | x :: a', y :: b' => e x y && list_eqb e a' b'
  | _, _ => false
  end.
Definition intr_eqb (a b : intrinsic) : bool :=
  N.eqb (in_mnemonic a) (in_mnemonic b) && list_eqb expr_eqb (in_args a) (in_args b) &&
  opt_eqb (list_eqb expr_eqb) (in_written a) (in_written b) && opt_eqb (list_eqb expr_eqb) (in_read a) (in_read b).
Fixpoint op_eqb (a b : operation) : bool :=
  match a, b with
  | OAssign d s, OAssign d' s' => scalar_eqb d d' && expr_eqb s s'
  | OStore i s, OStore i' s' => expr_eqb i i' && expr_eqb s s'
  | OLoad d i, OLoad d' i' => scalar_eqb d d' && expr_eqb i i'
  | OBranch t, OBranch t' => expr_eqb t t'
  | OIntrinsic i, OIntrinsic i' => intr_eqb i i'
  | ONop p, ONop p' => match p, p' with Some x, Some y => op_eqb x y | None, None => true | _, _ => false end
  | _, _ => false
  end.
Definition is_plain_nop (o : operation) : bool := match o with ONop None => true | _ => false end.
Definition instr_shape_b (a b : instruction) : bool :=
  (i_index b =? i_index a) && opt_eqb Z.eqb (i_addr b) (i_addr a) && (op_eqb (i_op b) (i_op a) || is_plain_nop (i_op b)).
Definition phi_eqb (a b : phi) : bool :=
  list_eqb (fun x y : Z * scalar => (fst x =? fst y) && scalar_eqb (snd x) (snd y)) (phi_incoming a) (phi_incoming b) &&
  opt_eqb scalar_eqb (phi_entry a) (phi_entry b) && scalar_eqb (phi_out a) (phi_out b).
Definition block_shape_b (a b : block) : bool :=
  (b_index b =? b_index a) && (b_next b =? b_next a) && list_eqb phi_eqb (b_phis b) (b_phis a) &&
  list_eqb instr_shape_b (b_instrs a) (b_instrs b).
Definition edge_eqb (a b : edge) : bool :=
  (e_head a =? e_head b) && (e_tail a =? e_tail b) && opt_eqb expr_eqb (e_cond a) (e_cond b).
Definition func_shape_b (f g : func) : bool :=
  (f_addr g =? f_addr f) && opt_eqb Z.eqb (f_index g) (f_index f) &&
  list_eqb edge_eqb (g_edges (f_cfg g)) (g_edges (f_cfg f)) &&
  (g_next_index (f_cfg g) =? g_next_index (f_cfg f)) &&
  opt_eqb Z.eqb (g_entry (f_cfg g)) (g_entry (f_cfg f)) && opt_eqb Z.eqb (g_exit (f_cfg g)) (g_exit (f_cfg f)) &&
  list_eqb block_shape_b (f_blocks f) (f_blocks g).

(* exact equality of functions (tie) *)
Definition instr_eqb (a b : instruction) : bool :=
  (i_index b =? i_index a) && opt_eqb Z.eqb (i_addr b) (i_addr a) && op_eqb (i_op b) (i_op a).
Definition block_eqb (a b : block) : bool :=
  (b_index b =? b_index a) && (b_next b =? b_next a) && list_eqb phi_eqb (b_phis b) (b_phis a) &&
  list_eqb instr_eqb (b_instrs a) (b_instrs b).
Definition func_eqb (f g : func) : bool :=
  (f_addr g =? f_addr f) && opt_eqb Z.eqb (f_index g) (f_index f) &&
  list_eqb edge_eqb (g_edges (f_cfg g)) (g_edges (f_cfg f)) &&
  (g_next_index (f_cfg g) =? g_next_index (f_cfg f)) &&
  opt_eqb Z.eqb (g_entry (f_cfg g)) (g_entry (f_cfg f)) && opt_eqb Z.eqb (g_exit (f_cfg g)) (g_exit (f_cfg f)) &&
  list_eqb block_eqb (f_blocks f) (f_blocks g).

(* ---------- part 2: observational equivalence, as a lock-step comparison of two traces ---------- *)
(* whole scalar states agree (extensionally: environments are association lists) *)
Definition env_agree (a b : senv) : bool :=
  forallb (fun kv : skey * const => opt_eqb const_eqb (env_get a (fst kv)) (env_get b (fst kv))) (a ++ b).

(* the store performed by a step, if any *)
Definition store_of (ev : event) : option (Z * const) :=
  match ev with EvStore a v => Some (a, v) | _ => None end.
Definition same_store (e e' : event) : bool :=
  opt_eqb (fun x y : Z * const => (fst x =? fst y) && const_eqb (snd x) (snd y)) (store_of e) (store_of e').

(* [intr l]: location l of the INPUT holds an intrinsic *)
Fixpoint lockstep (intr : floc -> bool) (tr tr' : list trace_item) : bool :=
  match tr with
  | [] => true                                   (* end of the observed prefix of the input's run *)
  | it :: rest =>
      match ti_res it with
      | Stuck _ =>
          if intr (ti_loc it) then               (* control presents its state to an intrinsic *)
            match tr' with
            | it' :: _ => floc_eqb (ti_loc it) (ti_loc it') &&
                          env_agree (st_env (ti_before it)) (st_env (ti_before it')) &&
                          match ti_res it' with Stuck EIntrinsic => true | _ => false end
            | [] => false
            end
          else true                              (* the input faults: the property is silent *)
      | Sem.Next l st ev =>
          match tr' with
          | it' :: rest' =>
              floc_eqb (ti_loc it) (ti_loc it') &&
              match ti_res it' with
              | Sem.Next l' st' ev' => floc_eqb l l' && same_store ev ev' && lockstep intr rest rest'
              | _ => false
              end
          | [] => false
          end
      | Goto a st =>                             (* indirect branch: same state presented, same target *)
          match tr' with
          | it' :: _ =>
              floc_eqb (ti_loc it) (ti_loc it') &&
              env_agree (st_env (ti_before it)) (st_env (ti_before it')) &&
              match ti_res it' with Goto a' _ => a =? a' | _ => false end
          | [] => false
          end
      | Exit st ev =>                            (* a block without successors ends *)
          match tr' with
          | it' :: _ =>
              floc_eqb (ti_loc it) (ti_loc it') &&
              match ti_res it' with
              | Exit st' ev' => same_store ev ev' && env_agree (st_env st) (st_env st')
              | _ => false
              end
          | [] => false
          end
      end
  end.

Definition is_intrinsic_at (f : func) (l : floc) : bool :=
  match loc_instruction f l with Some i => is_intrinsic (i_op i) | None => false end.

Definition runs_equiv (f g : func) (fuel : nat) (st : sstate) : bool :=
  match from_function f, from_function g with
  | Some (Ok l0), Some (Ok l0') => floc_eqb l0 l0' && lockstep (is_intrinsic_at f) (sem_run fuel f l0 st) (sem_run fuel g l0' st)
  | Some (Ok _), _ => false
  | _, _ => true                                 (* no entry: nothing runs *)
  end.

Definition c14_oracle (f g : func) (fuel : nat) (inits : list sstate) : bool :=
  func_shape_b f g && forallb (runs_equiv f g fuel) inits.
