(* Flow/RD.v -- model of lib/analysis/location_set.rs and lib/analysis/reaching_definitions.rs.
   Definitions only (proofs: Flow/RDProofs.v).

   LocationSet = HashSet<ProgramLocation>.  All locations of one analysis belong to the same function
   (`location.clone().into()` stamps the function's index on each), so a set is modelled as a
   duplicate-free list of function locations; iteration order of the HashSet is never observable in the
   results (the harness sorts), and the model's operations are insensitive to it (filter / membership).

   Faithful to the `Option<Vec<_>>::into_iter()` idiom of `trans`:
     instruction.operation().scalars_written().into_iter().for_each(|scalar_written| ...)
   iterates ONCE, with `scalar_written : Vec<&Scalar>`, when the operation declares its writes (Some),
   and not at all for an intrinsic with undeclared writes.  The kill test
     ....scalars_written().into_iter().any(|scalar| scalar == scalar_written)
   therefore compares whole written-VECTORS.  Store / Branch / Nop declare `Some([])`: they are inserted
   into the set and kill each other. *)
From Coq Require Import ZArith List Bool NArith.
From Falcon Require Import Base.Res IL.Const IL.Expr IL.Func IL.Loc Flow.FixedPoint Flow.FpIL.
Import ListNotations.
Local Open Scope Z_scope.

(* ---------- LocationSet ---------- *)
Definition lset := list floc.
Definition ls_mem (l : floc) (s : lset) : bool := existsb (floc_eqb l) s.
Definition ls_insert (l : floc) (s : lset) : lset := if ls_mem l s then s else s ++ [l].
Definition ls_remove (l : floc) (s : lset) : lset := filter (fun x => negb (floc_eqb x l)) s.
Definition ls_subset (a b : lset) : bool := forallb (fun x => ls_mem x b) a.

(* impl PartialOrd for LocationSet: length first, then inclusion of the smaller in the larger *)
Definition ls_cmp (a b : lset) : option comparison :=
  match Nat.compare (length a) (length b) with
  | Eq => if ls_subset a b then Some Eq else None
  | Lt => if ls_subset a b then Some Lt else None
  | Gt => if ls_subset b a then Some Gt else None
  end.

(* Vec<&Scalar> == Vec<&Scalar> *)
Fixpoint scalars_eqb (a b : list scalar) : bool :=
  match a, b with
  | [], [] => true
  | x :: a', y :: b' => scalar_eqb x y && scalars_eqb a' b'
  | _, _ => false
  end.

(* location.function_location().apply(function).unwrap().instruction().unwrap().operation() *)
Definition loc_operation (f : func) (d : floc) : res operation :=
  match floc_apply f d with
  | Ok d' => match loc_instruction f d' with
             | Some i => Ok (i_op i)
             | None => Panic            (* .instruction() of an Edge / EmptyBlock location is None *)
             end
  | _ => Panic
  end.
Definition loc_written (f : func) (d : floc) : res (option (list scalar)) :=
  o <- loc_operation f d ;; Ok (op_scalars_written o).

Fixpoint filter_res {A} (p : A -> res bool) (l : list A) : res (list A) :=
  match l with
  | [] => Ok []
  | x :: t => b <- p x ;; r <- filter_res p t ;; Ok (if b then x :: r else r)
  end.

(* the closure of `filter`: Some(v).into_iter().any(|s| s == scalar_written) *)
Definition kills (f : func) (w : list scalar) (d : floc) : res bool :=
  wd <- loc_written f d ;;
  Ok (match wd with Some v => scalars_eqb v w | None => false end).

(* ReachingDefinitionsAnalysis::trans *)
Definition rd_trans (f : func) (l : floc) (st : option lset) : res lset :=
  let state := match st with Some s => s | None => [] end in
  match l with
  | LInstr _ _ =>
      match loc_instruction f l with
      | None => Panic                   (* an applied Instruction location always resolves *)
      | Some i =>
          match op_scalars_written (i_op i) with
          | None => Ok state            (* undeclared writes: into_iter() of None yields nothing *)
          | Some w =>
              kill <- filter_res (kills f w) state ;;
              Ok (ls_insert l (fold_left (fun s k => ls_remove k s) kill state))
          end
      end
  | _ => Ok state
  end.

(* ReachingDefinitionsAnalysis::join *)
Definition rd_join (a b : lset) : res lset := Ok (fold_left (fun s x => ls_insert x s) b a).

Definition MAX_STEPS : nat := (500 * 500)%nat.   (* DEFAULT_MAX_ANALYSIS_STEPS = 250000 *)

(* reaching_definitions(function): fixed_point_forward = options(force = false, 250000).
   The step budget is a parameter so that case evaluation can use a small fuel: `run` allocates
   nothing proportional to it, but the harness only generates functions that converge far below. *)
Definition reaching_definitions_max (max : nat) (f : func) : res (list (floc * lset)) :=
  fp_forward lset f (rd_trans f) rd_join ls_cmp false max.
Definition reaching_definitions (f : func) : res (list (floc * lset)) :=
  reaching_definitions_max MAX_STEPS f.

Definition rd_lookup (m : list (floc * lset)) (l : floc) : option lset := lookup floc lset floc_eqb m l.
