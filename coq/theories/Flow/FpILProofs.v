(* Flow/FpILProofs.v -- C09 on IL functions: the abstract theorems of Flow/FixedPointProofs.v instantiated
   with the locations of IL/Loc.v, using C18 (IL/LocProofs.v: forward/backward are total on valid
   locations, stay inside them, and are converse).  Hypothesis on the function: cfg_inv (C15). *)
From Coq Require Import ZArith List Bool Arith Lia.
From Falcon Require Import Base.Res IL.Const IL.Expr IL.Func IL.Loc IL.LocProofs
     Flow.FixedPoint Flow.FixedPointProofs Flow.FpIL.
Import ListNotations.

Lemma floc_eqb_spec a b : reflect (a = b) (floc_eqb a b).
Proof. apply iff_reflect. symmetry. apply floc_eqb_eq. Qed.

Section FPILP.
  Variable S : Type.
  Variable f : func.
  Hypothesis Hinv : cfg_inv (f_cfg f) = true.
  Variable trans : floc -> option S -> res S.
  Variable join : S -> S -> res S.
  Variable cmp : S -> S -> option comparison.

  (* the successor / predecessor lists as total functions *)
  Definition succ_f (l : floc) : list floc := match forward f l with Ok x => x | _ => [] end.
  Definition pred_f (l : floc) : list floc := match backward f l with Ok x => x | _ => [] end.

  Lemma succ_f_ok l : valid_loc f l = true -> forward f l = Ok (succ_f l) /\ forall b, In b (succ_f l) -> valid_loc f b = true.
  Proof. intros Hv. destruct (forward_total f Hinv l Hv) as (x & E & Hx). unfold succ_f. rewrite E. auto. Qed.
  Lemma pred_f_ok l : valid_loc f l = true -> backward f l = Ok (pred_f l) /\ forall b, In b (pred_f l) -> valid_loc f b = true.
  Proof. intros Hv. destruct (backward_total f Hinv l Hv) as (x & E & Hx). unfold pred_f. rewrite E. auto. Qed.

  Lemma converse_f a b : valid_loc f a = true -> valid_loc f b = true -> (In b (succ_f a) <-> In a (pred_f b)).
  Proof.
    intros Ha Hb. destruct (succ_f_ok a Ha) as [Ea _]. destruct (pred_f_ok b Hb) as [Eb _].
    pose proof (fwd_bwd_converse f Hinv a b Ha Hb) as C. split; intros H.
    - destruct (proj1 C (ex_intro _ _ (conj Ea H))) as (x & Ex & Hx). rewrite Eb in Ex. inversion Ex; subst. assumption.
    - destruct (proj2 C (ex_intro _ _ (conj Eb H))) as (x & Ex & Hx). rewrite Ea in Ex. inversion Ex; subst. assumption.
  Qed.

  Lemma reach_fwd_valid e l : valid_loc f e = true -> reach floc succ_f e l -> valid_loc f l = true.
  Proof. intros He. induction 1 as [|a b Ha IH Hb]; [assumption|]. apply (proj2 (succ_f_ok a IH)); assumption. Qed.
  Lemma reach_bwd_valid e l : valid_loc f e = true -> reach floc pred_f e l -> valid_loc f l = true.
  Proof. intros He. induction 1 as [|a b Ha IH Hb]; [assumption|]. apply (proj2 (pred_f_ok a IH)); assumption. Qed.

  Lemma f_block_in e b : f_block f e = Ok b -> In b (f_blocks f).
  Proof. unfold f_block, cfg_block. fold (f_blocks f). destruct (find_block (f_blocks f) e) eqn:E; [|discriminate].
         intros [= <-]. apply (find_block_some _ _ _ E). Qed.

  Definition dom (m : list (floc * S)) (l : floc) : Prop := FixedPoint.lookup floc S floc_eqb m l <> None.

  (* fixed_point_forward (force = false): Ok m  ==>  m is defined exactly on the locations reachable from the
     entry location and satisfies the data-flow equation at each of them *)
  Theorem fp_forward_solution max m :
    (forall s, cmp s s = Some Eq) ->
    fp_forward S f trans join cmp false max = Ok m ->
    exists e b, g_entry (f_cfg f) = Some e /\ f_block f e = Ok b /\
      (forall l, dom m l <-> reach floc succ_f (block_first_loc b) l) /\
      (forall l, dom m l -> eqn_ok floc S floc_eqb trans join cmp pred_f m l).
  Proof.
    intros Hrefl. unfold fp_forward. destruct (g_entry (f_cfg f)) as [e|]; [|discriminate].
    destruct (f_block f e) as [b|er|] eqn:Hb; cbn [bind]; try discriminate.
    set (en := block_first_loc b).
    assert (Hen : valid_loc f en = true) by (apply first_valid; [assumption|eapply f_block_in; eassumption]).
    destruct (run floc S floc_eqb (backward f) (forward f) trans join cmp (Datatypes.S (Datatypes.S max)) false max 0 [] [en])
      as [m0|er| |] eqn:Hr; cbn [of_outcome]; try discriminate.
    intros [= <-]. exists e, b. split; [reflexivity|]. split; [assumption|].
    refine (fp_solution floc S floc_eqb floc_eqb_spec (backward f) (forward f) trans join cmp succ_f pred_f en _ _ _ Hrefl _ _ _ Hr).
    - intros l Hl. apply pred_f_ok. eapply reach_fwd_valid; eassumption.
    - intros l Hl. apply succ_f_ok. eapply reach_fwd_valid; eassumption.
    - intros a c Ha Hc. apply converse_f; eapply reach_fwd_valid; eassumption.
  Qed.

  (* fixed_point_backward: the mirror image from the exit location *)
  Theorem fp_backward_solution fuel m :
    (forall s, cmp s s = Some Eq) ->
    fp_backward S f trans join cmp fuel false = Ok m ->
    exists e b, g_exit (f_cfg f) = Some e /\ f_block f e = Ok b /\
      (forall l, dom m l <-> reach floc pred_f (block_last_loc b) l) /\
      (forall l, dom m l -> eqn_ok floc S floc_eqb trans join cmp succ_f m l).
  Proof.
    intros Hrefl. unfold fp_backward. destruct (g_exit (f_cfg f)) as [e|]; [|discriminate].
    destruct (f_block f e) as [b|er|] eqn:Hb; cbn [bind]; try discriminate.
    set (en := block_last_loc b).
    assert (Hen : valid_loc f en = true) by (apply last_valid; [assumption|eapply f_block_in; eassumption]).
    destruct (run_nobudget floc S floc_eqb (forward f) (backward f) trans join cmp fuel false [] [en])
      as [m0|er| |] eqn:Hr; cbn [of_outcome]; try discriminate.
    intros [= <-]. exists e, b. split; [reflexivity|]. split; [assumption|].
    refine (fp_solution_nobudget floc S floc_eqb floc_eqb_spec (forward f) (backward f) trans join cmp pred_f succ_f en _ _ _ Hrefl _ _ Hr).
    - intros l Hl. apply succ_f_ok. eapply reach_bwd_valid; eassumption.
    - intros l Hl. apply pred_f_ok. eapply reach_bwd_valid; eassumption.
    - intros a c Ha Hc. symmetry. apply converse_f; eapply reach_bwd_valid; eassumption.
  Qed.

  (* the three location hypotheses of every abstract C09 theorem, discharged for IL functions: any of them
     (fp_least, fp_terminates, fp_budget_suffices, fp_complete, fp_error_not_unsound, ...) instantiates
     with  succ := succ_f, pred := pred_f, entry := a valid location *)
  Theorem il_location_hyps_forward en : valid_loc f en = true ->
    (forall l, reach floc succ_f en l -> backward f l = Ok (pred_f l)) /\
    (forall l, reach floc succ_f en l -> forward f l = Ok (succ_f l)) /\
    (forall a b, reach floc succ_f en a -> reach floc succ_f en b -> (In b (succ_f a) <-> In a (pred_f b))).
  Proof.
    intros Hen. repeat split.
    - intros l Hl. apply pred_f_ok. eapply reach_fwd_valid; eassumption.
    - intros l Hl. apply succ_f_ok. eapply reach_fwd_valid; eassumption.
    - apply converse_f; eapply reach_fwd_valid; eassumption.
    - apply converse_f; eapply reach_fwd_valid; eassumption.
  Qed.

  Theorem il_location_hyps_backward en : valid_loc f en = true ->
    (forall l, reach floc pred_f en l -> forward f l = Ok (succ_f l)) /\
    (forall l, reach floc pred_f en l -> backward f l = Ok (pred_f l)) /\
    (forall a b, reach floc pred_f en a -> reach floc pred_f en b -> (In b (pred_f a) <-> In a (succ_f b))).
  Proof.
    intros Hen. repeat split.
    - intros l Hl. apply succ_f_ok. eapply reach_bwd_valid; eassumption.
    - intros l Hl. apply pred_f_ok. eapply reach_bwd_valid; eassumption.
    - apply converse_f; eapply reach_bwd_valid; eassumption.
    - apply converse_f; eapply reach_bwd_valid; eassumption.
  Qed.

  (* with max_analysis_steps covering  1 + d n (h+1)  pops, fp_forward does not report MaxSteps on account
     of the budget: n = number of locations of the function (C18: locations is duplicate-free and complete) *)
  Theorem fp_forward_budget (rank : S -> nat) h d max :
    (forall s, rank s <= h) -> (forall a b, cmp a b = Some Gt -> rank b < rank a) ->
    (forall l, valid_loc f l = true -> length (succ_f l) <= d) ->
    (forall l st, trans l st <> Err EMaxSteps) -> (forall a b, join a b <> Err EMaxSteps) ->
    1 + d * (length (locations f) * Datatypes.S h) <= Datatypes.S max ->
    fp_forward S f trans join cmp false max <> Err EMaxSteps.
  Proof.
    intros R1 R2 D T1 T2 Hm. unfold fp_forward. destruct (g_entry (f_cfg f)) as [e|]; [|discriminate].
    destruct (f_block f e) as [b|er|] eqn:Hb; cbn [bind]; try discriminate.
    - set (en := block_first_loc b).
      assert (Hen : valid_loc f en = true) by (apply first_valid; [assumption|eapply f_block_in; eassumption]).
      destruct (il_location_hyps_forward en Hen) as (H1 & H2 & H3).
      pose proof (fp_no_maxsteps floc S floc_eqb floc_eqb_spec (backward f) (forward f) trans join cmp succ_f pred_f en H1 H2
                    false rank h R1 R2 (fun H => False_ind _ (Bool.diff_false_true H)) (locations f)
                    (locations_nodup f Hinv)) as P.
      specialize (P (fun l Hl => proj2 (locations_valid f l Hinv) (reach_fwd_valid en l Hen Hl)) d
                    (fun l Hl => D l (reach_fwd_valid en l Hen Hl)) max T1 T2 Hm).
      destruct (run floc S floc_eqb (backward f) (forward f) trans join cmp (Datatypes.S (Datatypes.S max)) false max 0 [] [en])
        as [m0|er| |] eqn:Hr; cbn [of_outcome]; try discriminate.
      intros [= ->]. apply P. reflexivity.
    - unfold f_block, cfg_block in Hb. destruct (find_block (g_blocks (f_cfg f)) e); inversion Hb. discriminate.
  Qed.
  (* the backward engine has no budget: it terminates from finite height alone -- with fuel above the
     bound, fp_backward's out-of-fuel branch (Err EOther) is not taken *)
  Theorem fp_backward_terminates (rank : S -> nat) h d fuel e b :
    (forall s, rank s <= h) -> (forall a b, cmp a b = Some Gt -> rank b < rank a) ->
    (forall l, valid_loc f l = true -> length (pred_f l) <= d) ->
    1 + d * (length (locations f) * Datatypes.S h) < fuel ->
    g_exit (f_cfg f) = Some e -> f_block f e = Ok b ->
    run_nobudget floc S floc_eqb (forward f) (backward f) trans join cmp fuel false [] [block_last_loc b] <> OutOfFuel.
  Proof.
    intros R1 R2 D Hf He Hb.
    set (en := block_last_loc b).
    assert (Hen : valid_loc f en = true) by (apply last_valid; [assumption|eapply f_block_in; eassumption]).
    destruct (il_location_hyps_backward en Hen) as (H1 & H2 & H3).
    apply (fp_terminates_nobudget floc S floc_eqb floc_eqb_spec (forward f) (backward f) trans join cmp pred_f en H2
             false rank h R1 R2 (fun H => False_ind _ (Bool.diff_false_true H)) (locations f) (locations_nodup f Hinv)
             (fun l Hl => proj2 (locations_valid f l Hinv) (reach_bwd_valid en l Hen Hl)) d
             (fun l Hl => D l (reach_bwd_valid en l Hen Hl)) fuel Hf).
  Qed.
End FPILP.
