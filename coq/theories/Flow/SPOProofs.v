(* Flow/SPOProofs.v -- proofs for property C17 about the model Flow/SPO.v, against executions of
   Exec/Sem.v.  Statement vocabulary (sp_wf, sp_state, il_succ/il_pred) first, then proofs.
   The engine facts come from Flow/FixedPointProofs.v (C09), the location facts from IL/LocProofs.v (C18). *)
From Coq Require Import ZArith List Bool NArith Lia ZifyBool.
From Falcon Require Import Base.Res IL.Const IL.ConstSpec IL.Expr IL.ExprSpec IL.ConstProofs IL.ExprProofs
     IL.Func IL.Loc IL.LocProofs Exec.Sem Flow.FixedPoint Flow.FpIL Flow.FixedPointProofs Flow.SPO Flow.C17Check.
Import ListNotations.
Local Open Scope Z_scope.
Ltac Zify.zify_post_hook ::= Z.div_mod_to_equations.

(* ================================================================== statement vocabulary *)

(* successor / predecessor lists of a location (empty where the accessor fails) *)
Definition il_succ (f : func) (l : floc) : list floc := match forward f l with Ok x => x | _ => [] end.
Definition il_pred (f : func) (l : floc) : list floc := match backward f l with Ok x => x | _ => [] end.

(* every constant of the expression is in range of its width (Constant::new trims) *)
Fixpoint consts_inr (e : expr) : bool :=
  match e with
  | EScalar _ => true
  | EConst c => inrb (cbits c) (cval c)
  | EBin _ l r => consts_inr l && consts_inr r
  | EExt _ _ x => consts_inr x
  | EIte c t f => consts_inr c && consts_inr t && consts_inr f
  end.

(* executable form of ExprProofs.wf: well-sorted expression, widths in 1 .. 2^64-1, trimmed constants *)
Fixpoint wfb (e : expr) : bool :=
  match e with
  | EScalar s => (1 <=? sbits s) && (sbits s <? 2 ^ 64)
  | EConst c => (1 <=? cbits c) && (cbits c <? 2 ^ 64) && inrb (cbits c) (cval c)
  | EBin _ l r => wfb l && wfb r && (e_bits l =? e_bits r)
  | EExt Trun bits x => wfb x && (1 <=? bits) && (bits <? e_bits x)
  | EExt _ bits x => wfb x && (e_bits x <? bits) && (bits <? 2 ^ 64)
  | EIte c t f => wfb c && wfb t && wfb f && (e_bits c =? 1) && (e_bits t =? e_bits f)
  end.

(* what the theorems need of the operations with respect to the stack pointer [sp]:
   a destination with the stack pointer's name has its width (one width per name), and the sources
   assigned to it are well-sorted expressions *)
Definition op_sp_wf (sp : scalar) (o : operation) : bool :=
  match o with
  | OAssign dst src =>
      if skey_eqb (skey_of dst) (skey_of sp) then (sbits dst =? sbits sp) && wfb src else true
  | OLoad dst _ =>
      if skey_eqb (skey_of dst) (skey_of sp) then sbits dst =? sbits sp else true
  | _ => true
  end.
Definition sp_wf (sp : scalar) (f : func) : bool :=
  (1 <=? sbits sp) && (sbits sp <=? 64) &&
  forallb (fun b => forallb (fun i => op_sp_wf sp (i_op i)) (b_instrs b)) (f_blocks f).

(* the stack pointer holds the in-range value v of its width *)
Definition sp_state (sp : scalar) (st : sstate) (v : Z) : Prop :=
  env_get (st_env st) (skey_of sp) = Some (mkc (sbits sp) v) /\ 0 <= v < 2 ^ sbits sp.

(* ================================================================== small facts *)

Lemma const_eqb_eq a b : const_eqb a b = true <-> a = b.
Proof.
  destruct a as [aw av], b as [bw bv]. unfold const_eqb. cbn [cbits cval].
  rewrite andb_true_iff, !Z.eqb_eq. split; [intros [-> ->]; reflexivity|intros [= -> ->]; auto].
Qed.
Lemma const_eqb_refl a : const_eqb a a = true.
Proof. apply const_eqb_eq. reflexivity. Qed.

Lemma optN_eqb_eq a b : optN_eqb a b = true <-> a = b.
Proof.
  destruct a, b; cbn; try (split; congruence). rewrite N.eqb_eq. split; congruence.
Qed.
Lemma scalar_eqb_eq a b : scalar_eqb a b = true <-> a = b.
Proof.
  destruct a as [an ab az], b as [bn bb bz]. unfold scalar_eqb. cbn [sname sbits sssa].
  rewrite !andb_true_iff, N.eqb_eq, Z.eqb_eq, optN_eqb_eq.
  split; [intros [[-> ->] ->]; reflexivity|intros [= -> -> ->]; auto].
Qed.
Lemma skey_eqb_eq a b : skey_eqb a b = true <-> a = b.
Proof.
  destruct a as [x v], b as [y w]. unfold skey_eqb. cbn [fst snd].
  rewrite andb_true_iff, N.eqb_eq, optN_eqb_eq. split; [intros [-> ->]; reflexivity|intros [= -> ->]; auto].
Qed.
Lemma env_get_set en k v k' : env_get (env_set en k v) k' = if skey_eqb k k' then Some v else env_get en k'.
Proof.
  induction en as [|[k0 v0] t IH]; cbn [env_set env_get].
  - destruct (skey_eqb k k'); reflexivity.
  - destruct (skey_eqb k0 k) eqn:E0.
    + apply skey_eqb_eq in E0. subst k0. cbn [env_get]. destruct (skey_eqb k k'); reflexivity.
    + cbn [env_get]. destruct (skey_eqb k0 k') eqn:E1.
      * apply skey_eqb_eq in E1. subst k'.
        destruct (skey_eqb k k0) eqn:E2; [|reflexivity].
        apply skey_eqb_eq in E2. subst k0. assert (skey_eqb k k = true) by (apply skey_eqb_eq; reflexivity). congruence.
      * exact IH.
Qed.

Lemma inrb_inr w a : inrb w a = true <-> inr w a.
Proof. unfold inrb, inr. rewrite andb_true_iff, Z.leb_le, Z.ltb_lt. tauto. Qed.

(* ================================================================== the engine on IL locations *)
Notation reachL f e := (FixedPointProofs.reach floc (il_succ f) e).

Section Engine.
  Variable f : func.
  Hypothesis Hinv : cfg_inv (f_cfg f) = true.
  Variable eb : block.
  Hypothesis Heb : In eb (f_blocks f).
  Let entry := block_first_loc eb.

  Lemma reach_valid l : reachL f entry l -> valid_loc f l = true.
  Proof.
    induction 1 as [|a b Ha IH Hb]; [apply first_valid; assumption|].
    destruct (forward_total f Hinv a IH) as (ss & Hf & Hv). unfold il_succ in Hb. rewrite Hf in Hb. auto.
  Qed.
  Lemma il_from_ok l : reachL f entry l -> backward f l = Ok (il_pred f l).
  Proof. intros H. destruct (backward_total f Hinv l (reach_valid l H)) as (ps & Hb & _). unfold il_pred. rewrite Hb. reflexivity. Qed.
  Lemma il_to_ok l : reachL f entry l -> forward f l = Ok (il_succ f l).
  Proof. intros H. destruct (forward_total f Hinv l (reach_valid l H)) as (ps & Hb & _). unfold il_succ. rewrite Hb. reflexivity. Qed.
  Lemma il_converse a b : reachL f entry a -> reachL f entry b -> (In b (il_succ f a) <-> In a (il_pred f b)).
  Proof.
    intros Ha Hb. pose proof (fwd_bwd_converse f Hinv a b (reach_valid a Ha) (reach_valid b Hb)) as C.
    rewrite (il_to_ok a Ha), (il_from_ok b Hb) in C. split; intros H.
    - destruct C as [C _]. destruct C as (l & [= <-] & Hl); eauto.
    - destruct C as [_ C]. destruct C as (l & [= <-] & Hl); eauto.
  Qed.
End Engine.

Lemma floc_eqb_reflect a b : reflect (a = b) (floc_eqb a b).
Proof. destruct (floc_eqb a b) eqn:E; constructor; [apply floc_eqb_eq; assumption|]. intros H. apply floc_eqb_eq in H. congruence. Qed.

(* ================================================================== the lattice *)
Lemma ioff_cmp_refl s : ioff_cmp s s = Some Eq.
Proof. destruct s; cbn; [reflexivity| |reflexivity]. rewrite const_eqb_refl. reflexivity. Qed.

Lemma ioff_cmp_eq a b : ioff_cmp a b = Some Eq -> a = b.
Proof.
  destruct a as [|x|], b as [|y|]; cbn; try discriminate; try reflexivity.
  destruct (const_eqb x y) eqn:E; [|discriminate]. apply const_eqb_eq in E. congruence.
Qed.

(* J is s or Top *)
Definition above (s J : ioff) : Prop := J = ITop \/ J = s.

Lemma above_join_l s a x : s <> IBot -> above s a -> above s (ioff_join_pure a x).
Proof.
  intros Hs [-> | ->]; [left; reflexivity|].
  destruct s as [|c|], x as [|y|]; cbn; try (left; reflexivity); try (right; reflexivity); try congruence.
  destruct (const_eqb c y); [right|left]; reflexivity.
Qed.
Lemma above_join_r s a : s <> IBot -> above s (ioff_join_pure a s).
Proof.
  intros Hs. destruct a as [|x|], s as [|y|]; cbn; try (left; reflexivity); try (right; reflexivity); try congruence.
  destruct (const_eqb x y) eqn:E; [right|left; reflexivity]. apply const_eqb_eq in E. congruence.
Qed.

Notation jn := (FixedPoint.join_neighbours floc ioff floc_eqb ioff_join).
Notation lk := (FixedPoint.lookup floc ioff floc_eqb).

Lemma jn_fold_above m s ps : s <> IBot -> forall a, above s a ->
  exists J, fold_left (FixedPoint.join_step floc ioff floc_eqb ioff_join m) ps (Ok (Some a)) = Ok (Some J) /\ above s J.
Proof.
  intros Hs. induction ps as [|p ps IH]; intros a Ha; cbn [fold_left]; [eauto|].
  unfold FixedPoint.join_step at 2. destruct (lk m p) as [x|]; [|apply IH; assumption].
  cbn [ioff_join]. apply IH. apply above_join_l; assumption.
Qed.

(* the join over the predecessors is above the state of each predecessor that has one *)
Lemma jn_above m ps p s : In p ps -> lk m p = Some s -> s <> IBot ->
  exists J, jn m ps = Ok (Some J) /\ above s J.
Proof.
  unfold FixedPoint.join_neighbours. generalize (@None ioff) as acc.
  induction ps as [|q ps IH]; intros acc Hin Hl Hs; [destruct Hin|].
  cbn [fold_left]. unfold FixedPoint.join_step at 2.
  destruct Hin as [->|Hin].
  - rewrite Hl. destruct acc as [a|]; cbn [ioff_join].
    + apply jn_fold_above; [assumption|]. apply above_join_r. assumption.
    + apply jn_fold_above; [assumption|]. right. reflexivity.
  - destruct (lk m q) as [x|]; [|apply IH; assumption].
    destruct acc as [a|]; cbn [ioff_join]; apply IH; assumption.
Qed.

Lemma jn_nil m : jn m [] = Ok None.
Proof. reflexivity. Qed.

(* ================================================================== sources of the form  sp +/- constants *)
Lemma is_const_inv e : is_const e = true -> exists k, e = EConst k.
Proof. destruct e; try discriminate. eauto. Qed.

Lemma mod_rel_add M d a k : 0 < M -> ((d + a) mod M + k) mod M = (d + (a + k) mod M) mod M.
Proof. intros. rewrite Z.add_mod_idemp_l, Z.add_mod_idemp_r by lia. f_equal. lia. Qed.
Lemma mod_rel_add' M d a k : 0 < M -> (k + (d + a) mod M) mod M = (d + (k + a) mod M) mod M.
Proof. intros. rewrite !Z.add_mod_idemp_r by lia. f_equal. lia. Qed.
Lemma mod_rel_sub M d a k : 0 < M -> ((d + a) mod M - k) mod M = (d + (a - k) mod M) mod M.
Proof. intros. rewrite Zminus_mod_idemp_l, Z.add_mod_idemp_r by lia. f_equal. lia. Qed.

Section Offset.
  Variable sp : scalar.
  Let w := sbits sp.
  Hypothesis Hw : 1 <= w.
  Variables (en : senv) (vsp : Z) (c : const) (d : Z).
  Hypothesis Hsp : env_get en (skey_of sp) = Some (mkc w vsp).
  Hypothesis Hc1 : cbits c = w.
  Hypothesis Hc2 : inr w (cval c).
  Hypothesis Hrel : vsp = (d + cval c) mod 2 ^ w.

  Let M_pos : 0 < 2 ^ w.
  Proof. apply Z.pow_pos_nonneg; lia. Qed.

  (* substituting the abstract offset and evaluating = executing, up to the entry value d *)
  Lemma offset_sound e : is_offset sp e = true -> consts_inr e = true ->
    forall e', replace_scalar e sp (EConst c) = Ok e' ->
    all_constants e' = true /\ e_bits e' = w /\
    exists a, eval e' = Ok (mkc w a) /\ inr w a /\ den en e = Ok (mkc w ((d + a) mod 2 ^ w)).
  Proof.
    induction e as [s|k|o l IHl r IHr|o bits x IHx|g IHg t IHt f0 IHf]; cbn [is_offset consts_inr]; try discriminate.
    - intros Hs _ e' Hr. cbn [replace_scalar] in Hr. rewrite Hs in Hr. injection Hr as <-.
      apply scalar_eqb_eq in Hs. subst s. cbn [all_constants e_bits eval den].
      split; [reflexivity|]. split; [exact Hc1|]. exists (cval c). split; [|split; [exact Hc2|]].
      + destruct c as [cw cv]. cbn [cbits cval] in *. subst cw. reflexivity.
      + rewrite Hsp. cbn [cbits]. fold w. rewrite Z.eqb_refl. rewrite Hrel. reflexivity.
    - destruct o; try discriminate.
      + (* Add *)
        intros Ho Hk e' Hr. apply andb_prop in Hk as [Hkl Hkr].
        cbn [replace_scalar] in Hr.
        apply orb_prop in Ho as [Ho|Ho]; apply andb_prop in Ho as [Ho1 Ho2].
        * destruct (is_const_inv _ Ho2) as (k & ->). cbn [replace_scalar] in Hr.
          destruct (replace_scalar l sp (EConst c)) as [l'| |] eqn:El; try discriminate. cbn [bind] in Hr.
          destruct (IHl Ho1 Hkl l' eq_refl) as (A1 & A2 & a & A3 & A4 & A5).
          unfold mk_bin in Hr. destruct (Z.eqb_spec (e_bits l') (e_bits (EConst k))) as [Eb|Eb]; [|discriminate].
          cbn [negb] in Hr. injection Hr as <-. cbn [e_bits] in Eb. rewrite A2 in Eb.
          destruct k as [kw kv]. cbn [cbits cval consts_inr] in *. subst kw. apply inrb_inr in Hkr.
          cbn [all_constants e_bits is_cmp eval den]. rewrite A1, A3, A5. cbn [bind c_bin].
          split; [reflexivity|]. split; [exact A2|].
          exists (s_add w a kv). rewrite c_add_spec by lia. split; [reflexivity|].
          split; [apply U_inr; lia|].
          unfold sp_bin_c. cbn [cbits cval]. rewrite Z.eqb_refl. cbn [negb sp_bin].
          unfold s_add, U. rewrite mod_rel_add by exact M_pos. reflexivity.
        * destruct (is_const_inv _ Ho1) as (k & ->). cbn [replace_scalar] in Hr. cbn [bind] in Hr.
          destruct (replace_scalar r sp (EConst c)) as [r'| |] eqn:Er; try discriminate. cbn [bind] in Hr.
          destruct (IHr Ho2 Hkr r' eq_refl) as (A1 & A2 & a & A3 & A4 & A5).
          unfold mk_bin in Hr. destruct (Z.eqb_spec (e_bits (EConst k)) (e_bits r')) as [Eb|Eb]; [|discriminate].
          cbn [negb] in Hr. injection Hr as <-. cbn [e_bits] in Eb. rewrite A2 in Eb.
          destruct k as [kw kv]. cbn [cbits cval consts_inr] in *. subst kw. apply inrb_inr in Hkl.
          cbn [all_constants e_bits is_cmp eval den]. rewrite A1, A3, A5. cbn [bind c_bin andb].
          split; [reflexivity|]. split; [reflexivity|].
          exists (s_add w kv a). rewrite c_add_spec by lia. split; [reflexivity|].
          split; [apply U_inr; lia|].
          unfold sp_bin_c. cbn [cbits cval]. rewrite Z.eqb_refl. cbn [negb sp_bin].
          unfold s_add, U. rewrite mod_rel_add' by exact M_pos. reflexivity.
      + (* Sub *)
        intros Ho Hk e' Hr. apply andb_prop in Hk as [Hkl Hkr].
        cbn [replace_scalar] in Hr. apply andb_prop in Ho as [Ho1 Ho2].
        destruct (is_const_inv _ Ho2) as (k & ->). cbn [replace_scalar] in Hr.
        destruct (replace_scalar l sp (EConst c)) as [l'| |] eqn:El; try discriminate. cbn [bind] in Hr.
        destruct (IHl Ho1 Hkl l' eq_refl) as (A1 & A2 & a & A3 & A4 & A5).
        unfold mk_bin in Hr. destruct (Z.eqb_spec (e_bits l') (e_bits (EConst k))) as [Eb|Eb]; [|discriminate].
        cbn [negb] in Hr. injection Hr as <-. cbn [e_bits] in Eb. rewrite A2 in Eb.
        destruct k as [kw kv]. cbn [cbits cval consts_inr] in *. subst kw. apply inrb_inr in Hkr.
        cbn [all_constants e_bits is_cmp eval den]. rewrite A1, A3, A5. cbn [bind c_bin].
        split; [reflexivity|]. split; [exact A2|].
        exists (s_sub w a kv). rewrite c_sub_spec by (lia || assumption). split; [reflexivity|].
        split; [apply U_inr; lia|].
        unfold sp_bin_c. cbn [cbits cval]. rewrite Z.eqb_refl. cbn [negb sp_bin].
        unfold s_sub, U. rewrite mod_rel_sub by exact M_pos. reflexivity.
  Qed.

End Offset.

Lemma wfb_wf e : wfb e = true -> wf e.
Proof.
  induction e as [s|c|o l IHl r IHr|o bits x IHx|c IHc t IHt f IHf]; cbn [wfb wf].
  - lia.
  - rewrite !andb_true_iff, inrb_inr. unfold inr. lia.
  - rewrite !andb_true_iff. intros [[Hl Hr] E]. split; [auto|split; [auto|lia]].
  - destruct o; rewrite !andb_true_iff; intros [[Hx A] B]; (split; [auto|lia]).
  - rewrite !andb_true_iff. intros [[[[Hc Ht] Hf] A] B]. repeat split; auto; lia.
Qed.

Lemma wf_consts_inr e : wf e -> consts_inr e = true.
Proof.
  induction e as [s|c|o l IHl r IHr|o bits x IHx|c IHc t IHt f IHf]; cbn [wf consts_inr].
  - reflexivity.
  - intros [_ H]. apply inrb_inr. exact H.
  - intros (Hl & Hr & _). rewrite IHl, IHr by assumption. reflexivity.
  - destruct o; intros [Hx _]; auto.
  - intros (Hc & Ht & Hf & _). rewrite IHc, IHt, IHf by assumption. reflexivity.
Qed.

(* ================================================================== one operation *)
Section Handle.
  Variable sp : scalar.
  Let w := sbits sp.
  Hypothesis Hw : 1 <= w.
  Variable sp0 : Z.

  (* the abstract state J describes the concrete state st (sp0 = the entry value of the stack pointer) *)
  Definition abs_ok (J : ioff) (st : sstate) : Prop :=
    match J with
    | ITop => True
    | IBot => False
    | IVal c => cbits c = w /\ inr w (cval c) /\ sp_state sp st ((sp0 + cval c) mod 2 ^ w)
    end.

  Lemma abs_ok_not_bot J st : abs_ok J st -> J <> IBot.
  Proof. destruct J; cbn; [discriminate|discriminate|tauto]. Qed.

  Lemma abs_ok_above s J st : abs_ok s st -> above s J -> abs_ok J st.
  Proof. intros H [->| ->]; [exact I|exact H]. Qed.

  Lemma sp_state_set_other st k v x m' : skey_eqb k (skey_of sp) = false ->
    sp_state sp st x -> sp_state sp (mkst (env_set (st_env st) k v) m') x.
  Proof.
    intros E [H1 H2]. split; [|exact H2]. cbn [st_env]. rewrite env_get_set, E. exact H1.
  Qed.

  Lemma skey_same_scalar dst : skey_eqb (skey_of dst) (skey_of sp) = true -> sbits dst = sbits sp -> dst = sp.
  Proof.
    intros E B. apply skey_eqb_eq in E. destruct dst as [dn db dz], sp as [sn sb sz]. unfold skey_of in E.
    cbn [sname sssa sbits] in *. injection E as -> ->. subst. reflexivity.
  Qed.

  Lemma abs_ok_set_other J st dst v m' : scalar_eqb dst sp = false ->
    (skey_eqb (skey_of dst) (skey_of sp) = true -> sbits dst = sbits sp) ->
    abs_ok J st -> abs_ok J (mkst (env_set (st_env st) (skey_of dst) v) m').
  Proof.
    intros E Hn H. destruct J as [|c|]; cbn [abs_ok] in *; [exact I| |exact H].
    destruct H as (A & B & C). split; [exact A|split; [exact B|]].
    apply sp_state_set_other; [|exact C].
    destruct (skey_eqb (skey_of dst) (skey_of sp)) eqn:K; [|reflexivity].
    exfalso. rewrite (skey_same_scalar dst K (Hn eq_refl)) in E.
    assert (scalar_eqb sp sp = true) by (apply scalar_eqb_eq; reflexivity). congruence.
  Qed.

  Lemma abs_ok_mem J st m' : abs_ok J st -> abs_ok J (mkst (st_env st) m').
  Proof. destruct J as [|c|]; cbn [abs_ok]; auto. Qed.

  Lemma handle_sound o J st st' ev new : op_sp_wf sp o = true -> abs_ok J st ->
    exec_op st o = Ok (st', ev) -> handle_operation sp o J = Ok new -> abs_ok new st'.
  Proof.
    intros Hwf HJ Hex Hh. destruct o as [dst src|idx src|dst idx|tgt|intr|ph]; cbn [exec_op handle_operation op_sp_wf] in *.
    - (* Assign *)
      destruct (den (st_env st) src) as [v| |] eqn:Ed; try discriminate. cbn [bind] in Hex. injection Hex as <- <-.
      destruct (scalar_eqb dst sp) eqn:E.
      + apply scalar_eqb_eq in E. subst dst.
        assert (K : skey_eqb (skey_of sp) (skey_of sp) = true) by (apply skey_eqb_eq; reflexivity).
        rewrite K in Hwf. apply andb_prop in Hwf as [_ Hsrc].
        destruct J as [|c|]; [injection Hh as <-; exact I| |destruct HJ].
        destruct HJ as (A & B & C & D).
        destruct (replace_scalar src sp (EConst c)) as [e| |] eqn:Er; try discriminate. cbn [bind] in Hh.
        destruct (is_offset sp src) eqn:Eo; cbn [andb] in Hh; [|injection Hh as <-; exact I].
        destruct (offset_sound sp Hw (st_env st) _ c sp0 C A B eq_refl src Eo
                    (wf_consts_inr _ (wfb_wf _ Hsrc)) e Er) as (A1 & A2 & a & A3 & A4 & A5).
        fold w in A3, A4, A5. rewrite A1, A3 in Hh. cbn [bind] in Hh. injection Hh as <-.
        rewrite A5 in Ed. injection Ed as <-.
        cbn [abs_ok cbits cval]. split; [reflexivity|split; [exact A4|]].
        split; [cbn [st_env]; rewrite env_get_set, K; reflexivity|].
        apply Z.mod_pos_bound. apply Z.pow_pos_nonneg; lia.
      + injection Hh as <-. apply abs_ok_set_other; [exact E| |exact HJ].
        intros K. rewrite K in Hwf. apply andb_prop in Hwf as [Hb _]. lia.
    - (* Store *)
      destruct (den (st_env st) src) as [v| |]; try discriminate. cbn [bind] in Hex.
      destruct (den (st_env st) idx) as [i| |]; try discriminate. cbn [bind] in Hex.
      destruct (addr_of i) as [a| |]; try discriminate. cbn [bind] in Hex.
      destruct (mem_store (st_mem st) a v) as [m'| |]; try discriminate. cbn [bind] in Hex.
      injection Hex as <- <-. injection Hh as <-. apply abs_ok_mem. exact HJ.
    - (* Load *)
      destruct (den (st_env st) idx) as [i| |]; try discriminate. cbn [bind] in Hex.
      destruct (addr_of i) as [a| |]; try discriminate. cbn [bind] in Hex.
      destruct (mem_load (st_mem st) a (sbits dst)) as [v| |]; try discriminate. cbn [bind] in Hex.
      injection Hex as <- <-.
      destruct (scalar_eqb dst sp) eqn:E; injection Hh as <-; [exact I|].
      apply abs_ok_set_other; [exact E| |exact HJ].
      intros K. rewrite K in Hwf. lia.
    - (* Branch *)
      destruct (den (st_env st) tgt) as [t| |]; try discriminate. cbn [bind] in Hex.
      destruct (addr_of t) as [a| |]; try discriminate. cbn [bind] in Hex.
      injection Hex as <- <-. injection Hh as <-. exact HJ.
    - discriminate.
    - injection Hex as <- <-. injection Hh as <-. exact HJ.
  Qed.
End Handle.

(* ================================================================== one step of the reference semantics *)
Lemma enabled_locs_sub f en ls r : enabled_locs f en ls = Ok r -> forall x, In x r -> In x ls.
Proof.
  revert r. induction ls as [|l t IH]; intros r H x Hx; cbn [enabled_locs] in H.
  - injection H as <-. destruct Hx.
  - destruct (edge_enabled f en l) as [b| |]; try discriminate. cbn [bind] in H.
    destruct (enabled_locs f en t) as [r'| |]; try discriminate. cbn [bind] in H. injection H as <-.
    destruct b; [destruct Hx as [<-|Hx]; [left; reflexivity|right; eauto]|right; eauto].
Qed.

Lemma choose_cases f st ev succs :
  (exists l, choose f st ev succs = Sem.Next l st ev /\ In l succs) \/
  choose f st ev succs = Exit st ev \/ exists e, choose f st ev succs = Stuck e.
Proof.
  unfold choose. destruct succs as [|s0 t]; [right; left; reflexivity|].
  destruct (enabled_locs f (st_env st) (s0 :: t)) as [r|e|] eqn:E; [|right; right; eauto ..].
  destruct r as [|l [|l2 r]]; [right; right; eauto| |right; right; eauto].
  left. exists l. split; [reflexivity|]. eapply enabled_locs_sub; [exact E|left; reflexivity].
Qed.

Lemma choose_state f st ev succs st' : state_after (choose f st ev succs) = Some st' -> st' = st.
Proof.
  destruct (choose_cases f st ev succs) as [(l & -> & _)|[-> |(e & ->)]]; cbn [state_after]; congruence.
Qed.

(* what a non-stuck step at an instruction did *)
Lemma sem_step_instr f b ii st r st' : sem_step f (LInstr b ii) st = r -> state_after r = Some st' ->
  exists i ev, loc_instruction f (LInstr b ii) = Some i /\ exec_op st (i_op i) = Ok (st', ev).
Proof.
  intros <-. unfold sem_step.
  destruct (loc_instruction f (LInstr b ii)) as [i|]; [|discriminate].
  destruct (exec_op st (i_op i)) as [[st1 ev]| |] eqn:Ex; try discriminate.
  intros H. exists i, ev. split; [reflexivity|]. rewrite Ex. f_equal. f_equal.
  destruct ev; try (cbn [state_after] in H; congruence);
    (destruct (forward f (LInstr b ii)) as [succs| |]; [|discriminate H ..];
     symmetry; eapply choose_state; exact H).
Qed.

Lemma sem_step_other f l st r st' : (forall b ii, l <> LInstr b ii) ->
  sem_step f l st = r -> state_after r = Some st' -> st' = st.
Proof.
  intros Hl <-. destruct l as [b ii|h t|b]; [exfalso; eapply Hl; reflexivity| |]; unfold sem_step.
  - destruct (forward f (LEdge h t)) as [[|l' [|? ?]]| |]; cbn [state_after]; congruence.
  - destruct (forward f (LEmpty b)) as [succs| |]; [|discriminate ..].
    apply choose_state.
Qed.

Lemma sem_step_next f l st l' st' ev : sem_step f l st = Sem.Next l' st' ev -> In l' (il_succ f l).
Proof.
  unfold il_succ. destruct l as [b ii|h t|b]; unfold sem_step.
  - destruct (loc_instruction f (LInstr b ii)) as [i|]; [|discriminate].
    destruct (exec_op st (i_op i)) as [[st1 ev1]| |]; try discriminate.
    destruct ev1; try discriminate;
      (destruct (forward f (LInstr b ii)) as [succs| |]; [|discriminate ..];
       match goal with |- choose f st1 ?e succs = _ -> _ =>
         destruct (choose_cases f st1 e succs) as [(l & -> & Hin)|[-> |(e0 & ->)]]; [|discriminate ..] end;
       intros [= <- _ _]; exact Hin).
  - destruct (forward f (LEdge h t)) as [[|x [|? ?]]| |]; try discriminate. intros [= <- _ _]. left; reflexivity.
  - destruct (forward f (LEmpty b)) as [succs| |]; [|discriminate ..].
    destruct (choose_cases f st EvNone succs) as [(l & -> & Hin)|[-> |(e & ->)]]; [|discriminate ..].
    intros [= <- _ _]. exact Hin.
Qed.

Lemma loc_instruction_in f l i : loc_instruction f l = Some i ->
  exists b, In b (f_blocks f) /\ In i (b_instrs b).
Proof.
  destruct l as [bi ii|h t|bi]; cbn [loc_instruction]; try discriminate.
  destruct (find_block (f_blocks f) bi) as [b|] eqn:Eb; [|discriminate].
  unfold block_instruction. intros Hi. apply find_block_some in Eb as [Hb _].
  apply find_instr_split in Hi as (pre & post & E & _). exists b. split; [exact Hb|].
  rewrite E. apply in_or_app. right. left. reflexivity.
Qed.

Lemma sp_wf_op sp f l i : sp_wf sp f = true -> loc_instruction f l = Some i -> op_sp_wf sp (i_op i) = true.
Proof.
  unfold sp_wf. intros H Hi. apply andb_prop in H as [_ H].
  destruct (loc_instruction_in f l i Hi) as (b & Hb & Hin).
  rewrite forallb_forall in H. specialize (H b Hb). rewrite forallb_forall in H. exact (H i Hin).
Qed.
Lemma sp_wf_width sp f : sp_wf sp f = true -> 1 <= sbits sp <= 64.
Proof. unfold sp_wf. intros H. apply andb_prop in H as [H _]. lia. Qed.

(* the part of spo_trans after the seed *)
Definition tbody (sp : scalar) (f : func) (l : floc) (s : ioff) : res ioff :=
  match l with
  | LInstr _ _ => match loc_instruction f l with Some i => handle_operation sp (i_op i) s | None => Panic end
  | _ => Ok s
  end.
Lemma spo_trans_some sp f l s : spo_trans sp f l (Some s) = tbody sp f l s.
Proof. reflexivity. Qed.

Lemma trans_sound sp f sp0 l J st r st' new : sp_wf sp f = true ->
  abs_ok sp sp0 J st -> sem_step f l st = r -> state_after r = Some st' ->
  tbody sp f l J = Ok new -> abs_ok sp sp0 new st'.
Proof.
  intros Hwf HJ Hs Ha Ht. pose proof (sp_wf_width sp f Hwf) as Hw.
  destruct l as [b ii|h t|b].
  - destruct (sem_step_instr f b ii st r st' Hs Ha) as (i & ev & Hi & Hex).
    unfold tbody in Ht. rewrite Hi in Ht.
    eapply handle_sound; [lia|eapply sp_wf_op; eassumption|exact HJ|exact Hex|exact Ht].
  - cbn [tbody] in Ht. injection Ht as <-. rewrite (sem_step_other f (LEdge h t) st r st' ltac:(intros; discriminate) Hs Ha). exact HJ.
  - cbn [tbody] in Ht. injection Ht as <-. rewrite (sem_step_other f (LEmpty b) st r st' ltac:(intros; discriminate) Hs Ha). exact HJ.
Qed.

(* ================================================================== executions against a solution *)
Section Sound.
  Variables (f : func) (sp : scalar).
  Let w := sbits sp.
  Hypothesis Hinv : cfg_inv (f_cfg f) = true.
  Hypothesis Hwf : sp_wf sp f = true.
  Variables (e : Z) (eb : block).
  Hypothesis Hentry : g_entry (f_cfg f) = Some e.
  Hypothesis Hfind : find_block (f_blocks f) e = Some eb.
  Let entry := block_first_loc eb.
  Hypothesis Hnoinc : entry_has_no_incoming f = true.

  Variable m : list (floc * ioff).
  (* the engine's postcondition (fp_solution of C09) *)
  Hypothesis Hdom : forall l, lk m l <> None <-> reachL f entry l.
  Hypothesis Heqn : forall l, lk m l <> None ->
    exists st new s, jn m (il_pred f l) = Ok st /\ spo_trans sp f l st = Ok new /\ lk m l = Some s /\ ioff_cmp new s = Some Eq.

  Variable sp0 : Z.

  Lemma Heb : In eb (f_blocks f) /\ b_index eb = e.
  Proof. apply find_block_some. exact Hfind. Qed.

  Lemma entry_no_pred : il_pred f entry = [].
  Proof.
    unfold il_pred, entry. destruct Heb as [Hb Hi]. rewrite (backward_first f Hinv eb Hb).
    unfold cfg_edges_in. rewrite Hi. unfold has_block. fold (f_blocks f). rewrite Hfind. cbn [bind].
    unfold entry_has_no_incoming in Hnoinc. rewrite Hentry in Hnoinc. fold (f_edges f).
    induction (f_edges f) as [|x t IH]; [reflexivity|]. cbn [existsb filter] in *.
    apply negb_true_iff, orb_false_iff in Hnoinc as [H1 H2]. rewrite H1. apply IH. apply negb_true_iff. exact H2.
  Qed.

  Lemma from_function_entry : from_function f = Some (Ok entry).
  Proof. unfold from_function, f_block, cfg_block. rewrite Hentry. fold (f_blocks f). rewrite Hfind. reflexivity. Qed.

  Lemma spo_trans_entry_none : spo_trans sp f entry None = tbody sp f entry (IVal (new_big 0 w)).
  Proof.
    unfold spo_trans. rewrite from_function_entry. cbn [bind].
    assert (E : floc_eqb entry entry = true) by (apply floc_eqb_eq; reflexivity). rewrite E. reflexivity.
  Qed.

  (* the abstract state with which the equation at l is evaluated describes st *)
  Definition pre_ok (l : floc) (st : sstate) : Prop :=
    reachL f entry l /\
    exists J, abs_ok sp sp0 J st /\
      (jn m (il_pred f l) = Ok (Some J) \/ (jn m (il_pred f l) = Ok None /\ l = entry /\ J = IVal (new_big 0 w))).

  (* executing l from a described state yields a state described by the solution at l *)
  Lemma post_of_pre l st r st' : pre_ok l st -> sem_step f l st = r -> state_after r = Some st' ->
    exists s, lk m l = Some s /\ abs_ok sp sp0 s st'.
  Proof.
    intros (Hr & J & HJ & Hj) Hs Ha.
    destruct (Heqn l (proj2 (Hdom l) Hr)) as (sto & new & s & E1 & E2 & E3 & E4).
    apply ioff_cmp_eq in E4. subst s. exists new. split; [exact E3|].
    destruct Hj as [Hj|(Hj & -> & ->)]; rewrite Hj in E1; injection E1 as <-.
    - rewrite spo_trans_some in E2. eapply trans_sound; eassumption.
    - rewrite spo_trans_entry_none in E2. eapply trans_sound; eassumption.
  Qed.

  Lemma pre_of_post l st s l' st' ev : reachL f entry l -> lk m l = Some s -> abs_ok sp sp0 s st' ->
    sem_step f l st = Sem.Next l' st' ev -> pre_ok l' st'.
  Proof.
    intros Hr Hl Hs Hstep. pose proof (sem_step_next f l st l' st' ev Hstep) as Hin.
    assert (Hr' : reachL f entry l') by (eapply FixedPointProofs.reach_step; eassumption).
    split; [exact Hr'|].
    assert (Hp : In l (il_pred f l')) by (apply (il_converse f Hinv eb (proj1 Heb)); assumption).
    destruct (jn_above m (il_pred f l') l s Hp Hl (abs_ok_not_bot sp sp0 s st' Hs)) as (J & HJ & Hab).
    exists J. split; [eapply abs_ok_above; eassumption|left; exact HJ].
  Qed.

  Lemma run_sound fuel : forall l st, pre_ok l st ->
    forall ti st', In ti (sem_run fuel f l st) -> state_after (ti_res ti) = Some st' ->
    exists s, lk m (ti_loc ti) = Some s /\ abs_ok sp sp0 s st'.
  Proof.
    induction fuel as [|fuel IH]; intros l st Hpre ti st' Hin Ha; [destruct Hin|].
    cbn [sem_run] in Hin. destruct Hin as [<-|Hin].
    - cbn [ti_res ti_loc] in *. eapply post_of_pre; [exact Hpre|reflexivity|exact Ha].
    - destruct (sem_step f l st) as [l' st1 ev| | |] eqn:Es; try destruct Hin.
      destruct (post_of_pre l st _ st1 Hpre Es eq_refl) as (s & Hl & Hs).
      eapply IH; [|exact Hin|exact Ha]. eapply pre_of_post; [exact (proj1 Hpre)|exact Hl|exact Hs|exact Es].
  Qed.

  Lemma pre_ok_entry st0 : sp_state sp st0 sp0 -> pre_ok entry st0.
  Proof.
    intros Hsp. split; [apply FixedPointProofs.reach_entry|].
    pose proof (sp_wf_width sp f Hwf) as Hw. fold w in Hw.
    exists (IVal (new_big 0 w)). split.
    - rewrite new_big_spec by lia. cbn [abs_ok cbits cval]. fold w.
      assert (P : 0 < 2 ^ w) by (apply Z.pow_pos_nonneg; lia).
      split; [reflexivity|]. unfold U. rewrite Z.mod_0_l by lia. split; [unfold inr; lia|].
      rewrite Z.add_0_r. destruct Hsp as [H1 H2]. fold w in H2. rewrite Z.mod_small by lia. split; assumption.
    - right. rewrite entry_no_pred. split; [reflexivity|]. split; reflexivity.
  Qed.
End Sound.

(* ================================================================== from the engine result to the theorems *)
Lemma transform_get m r l s : transform m = Ok r -> sm_get r l = Some s ->
  exists i, lk m l = Some i /\ from_intermediate i = Ok s.
Proof.
  revert r. induction m as [|[k i] t IH]; intros r H Hg; cbn [transform] in H.
  - injection H as <-. discriminate Hg.
  - destruct (from_intermediate i) as [s0| |] eqn:Ei; try discriminate. cbn [bind] in H.
    destruct (transform t) as [r'| |]; try discriminate. cbn [bind] in H. injection H as <-.
    cbn [sm_get FixedPoint.lookup] in *. destruct (floc_eqb k l).
    + injection Hg as <-. eauto.
    + eapply IH; [reflexivity|exact Hg].
Qed.

Lemma from_intermediate_val i k : from_intermediate i = Ok (SVal k) ->
  exists c, i = IVal c /\ (k = cval c \/ k = cval c - 2 ^ 64).
Proof.
  destruct i as [|c|]; cbn [from_intermediate]; try discriminate.
  destruct (cval c <? 2 ^ 64); [|discriminate]. intros H. exists c. split; [reflexivity|].
  destruct (cval c <? 2 ^ 63); injection H as <-; [left|right]; reflexivity.
Qed.

(* unfolding stack_pointer_offsets down to the engine run and C09's fp_solution *)
Lemma spo_states_solution f sp max m : cfg_inv (f_cfg f) = true -> spo_states max f sp = Ok m ->
  exists e eb, g_entry (f_cfg f) = Some e /\ find_block (f_blocks f) e = Some eb /\
    (forall l, lk m l <> None <-> reachL f (block_first_loc eb) l) /\
    (forall l, lk m l <> None ->
       exists st new s, jn m (il_pred f l) = Ok st /\ spo_trans sp f l st = Ok new /\ lk m l = Some s /\ ioff_cmp new s = Some Eq).
Proof.
  intros Hinv H. unfold spo_states, fp_forward in H.
  destruct (g_entry (f_cfg f)) as [e|] eqn:Ee; [|discriminate].
  unfold f_block, cfg_block in H. fold (f_blocks f) in H.
  destruct (find_block (f_blocks f) e) as [eb|] eqn:Eb; [|discriminate]. cbn [bind] in H.
  exists e, eb. split; [reflexivity|split; [exact Eb|]].
  match type of H with of_outcome _ ?R = _ => destruct R as [m'| | |] eqn:Er; try discriminate end.
  cbn [of_outcome] in H. injection H as ->.
  pose proof (proj1 (find_block_some _ _ _ Eb)) as Hin.
  apply (fp_solution floc ioff floc_eqb floc_eqb_reflect (backward f) (forward f) (spo_trans sp f) ioff_join ioff_cmp
           (il_succ f) (il_pred f) (block_first_loc eb)
           (il_from_ok f Hinv eb Hin) (il_to_ok f Hinv eb Hin) (il_converse f Hinv eb Hin) ioff_cmp_refl _ _ _ Er).
Qed.

Lemma entry_loc_eq f e eb : g_entry (f_cfg f) = Some e -> find_block (f_blocks f) e = Some eb ->
  entry_loc f = Some (block_first_loc eb).
Proof. intros H1 H2. unfold entry_loc. rewrite H1, H2. reflexivity. Qed.

(* C17, soundness *)
Theorem spo_sound f sp max r :
  cfg_inv (f_cfg f) = true -> sp_wf sp f = true -> entry_has_no_incoming f = true ->
  stack_pointer_offsets_max max f sp = Ok r ->
  forall l0 st0 sp0 fuel ti st' k,
    entry_loc f = Some l0 -> sp_state sp st0 sp0 ->
    In ti (sem_run fuel f l0 st0) -> state_after (ti_res ti) = Some st' ->
    sm_get r (ti_loc ti) = Some (SVal k) ->
    sp_state sp st' ((sp0 + k) mod 2 ^ sbits sp).
Proof.
  intros Hinv Hwf Hno Hr l0 st0 sp0 fuel ti st' k Hl0 Hsp Hin Ha Hg.
  unfold stack_pointer_offsets_max in Hr.
  destruct (spo_states max f sp) as [m| |] eqn:Em; try discriminate. cbn [bind] in Hr.
  destruct (spo_states_solution f sp max m Hinv Em) as (e & eb & He & Hb & Hdom & Heqn).
  rewrite (entry_loc_eq f e eb He Hb) in Hl0. injection Hl0 as <-.
  destruct (run_sound f sp Hinv Hwf e eb He Hb m Hdom Heqn sp0 fuel _ st0
              (pre_ok_entry f sp Hinv Hwf e eb He Hb Hno m Hdom Heqn sp0 st0 Hsp) ti st' Hin Ha) as (s & Hs & Hab).
  destruct (transform_get m r _ _ Hr Hg) as (i & Hi & Hfi). rewrite Hs in Hi. injection Hi as <-.
  destruct (from_intermediate_val s k Hfi) as (c & -> & Hk). cbn [abs_ok] in Hab.
  destruct Hab as (_ & _ & Hst). destruct Hk as [->| ->]; [exact Hst|].
  pose proof (sp_wf_width sp f Hwf) as Hw.
  replace ((sp0 + (cval c - 2 ^ 64)) mod 2 ^ sbits sp) with ((sp0 + cval c) mod 2 ^ sbits sp); [exact Hst|].
  replace (2 ^ 64) with (2 ^ (64 - sbits sp) * 2 ^ sbits sp) by (rewrite <- Z.pow_add_r by lia; f_equal; lia).
  replace (sp0 + (cval c - 2 ^ (64 - sbits sp) * 2 ^ sbits sp))
    with (sp0 + cval c + (- 2 ^ (64 - sbits sp)) * 2 ^ sbits sp) by lia.
  rewrite Z.mod_add; [reflexivity|]. apply Z.pow_nonzero; lia.
Qed.

(* ---------- 'unknown' ---------- *)
Lemma is_offset_scalars sp e : is_offset sp e = true -> forall s, In s (scalars e) -> scalar_eqb s sp = true.
Proof.
  induction e as [t|k|o l IHl r IHr|o bits x IHx|g IHg t IHt f0 IHf]; cbn [is_offset scalars]; try discriminate.
  - intros H s [<-|[]]. exact H.
  - destruct o; try discriminate; intros H s Hs; apply in_app_or in Hs.
    + apply orb_prop in H as [H|H]; apply andb_prop in H as [H1 H2].
      * destruct (is_const_inv _ H2) as (k & ->). destruct Hs as [Hs|[]]. auto.
      * destruct (is_const_inv _ H1) as (k & ->). destruct Hs as [[]|Hs]. auto.
    + apply andb_prop in H as [H1 H2]. destruct (is_const_inv _ H2) as (k & ->). destruct Hs as [Hs|[]]. auto.
Qed.
Lemma mentions_other_not_offset sp e : mentions_other sp e = true -> is_offset sp e = false.
Proof.
  intros H. destruct (is_offset sp e) eqn:E; [|reflexivity]. unfold mentions_other in H.
  apply existsb_exists in H as (s & Hs & Hn). rewrite (is_offset_scalars sp e E s Hs) in Hn. discriminate.
Qed.

Lemma spo_trans_tbody sp f l sto new : spo_trans sp f l sto = Ok new ->
  exists J, tbody sp f l J = Ok new /\ (forall J', sto = Some J' -> J = J').
Proof.
  destruct sto as [J|]; [intros H; exists J; split; [exact H|intros J' [= <-]; reflexivity]|].
  unfold spo_trans. destruct (from_function f) as [[el| |]|]; try discriminate. cbn [bind].
  intros H. eexists. split; [exact H|discriminate].
Qed.

Lemma tbody_top sp f l new : tbody sp f l ITop = Ok new -> new = ITop.
Proof.
  unfold tbody. destruct l; try (intros [= <-]; reflexivity).
  destruct (loc_instruction f (LInstr b i)) as [x|]; [|discriminate].
  destruct (i_op x) as [dst src|idx src|dst idx|tgt|intr|ph]; cbn [handle_operation];
    try (intros [= <-]; reflexivity); destruct (scalar_eqb dst sp); intros [= <-]; reflexivity.
Qed.

(* C17, 'unknown': a load into the stack pointer, a source that is not  sp +/- constants  (in particular
   one mentioning another scalar), and predecessors carrying different numbers never yield a number *)
Theorem spo_unknown f sp max r l s :
  cfg_inv (f_cfg f) = true -> stack_pointer_offsets_max max f sp = Ok r -> sm_get r l = Some s ->
  (forall i dst idx, loc_instruction f l = Some i -> i_op i = OLoad dst idx -> scalar_eqb dst sp = true -> s = STop) /\
  (forall i dst src, loc_instruction f l = Some i -> i_op i = OAssign dst src -> scalar_eqb dst sp = true ->
     mentions_other sp src = true \/ is_offset sp src = false -> forall k, s <> SVal k) /\
  (forall p1 p2 k1 k2, In p1 (il_pred f l) -> In p2 (il_pred f l) ->
     sm_get r p1 = Some (SVal k1) -> sm_get r p2 = Some (SVal k2) -> k1 <> k2 -> s = STop).
Proof.
  intros Hinv Hr Hg. unfold stack_pointer_offsets_max in Hr.
  destruct (spo_states max f sp) as [m| |] eqn:Em; try discriminate. cbn [bind] in Hr.
  destruct (spo_states_solution f sp max m Hinv Em) as (e & eb & He & Hb & Hdom & Heqn).
  destruct (transform_get m r _ _ Hr Hg) as (x & Hx & Hfx).
  destruct (Heqn l ltac:(congruence)) as (sto & new & s' & E1 & E2 & E3 & E4).
  apply ioff_cmp_eq in E4. subst s'. rewrite Hx in E3. injection E3 as ->.
  destruct (spo_trans_tbody sp f l sto new E2) as (J & Ht & HJ).
  split; [|split].
  - intros i dst idx Hi Ho Hd. destruct l as [b ii|? ?|?]; try discriminate Hi.
    unfold tbody in Ht. rewrite Hi, Ho in Ht. cbn [handle_operation] in Ht. rewrite Hd in Ht. injection Ht as <-.
    cbn in Hfx. congruence.
  - intros i dst src Hi Ho Hd Hsrc k ->. destruct l as [b ii|? ?|?]; try discriminate Hi.
    assert (Hoff : is_offset sp src = false) by (destruct Hsrc; [apply mentions_other_not_offset|]; assumption).
    unfold tbody in Ht. rewrite Hi, Ho in Ht. cbn [handle_operation] in Ht. rewrite Hd, Hoff in Ht.
    destruct J as [|c|].
    + injection Ht as <-. discriminate Hfx.
    + destruct (replace_scalar src sp (EConst c)); try discriminate. cbn [bind andb] in Ht. injection Ht as <-. discriminate Hfx.
    + injection Ht as <-. discriminate Hfx.
  - intros p1 p2 k1 k2 H1 H2 G1 G2 Hne.
    destruct (transform_get m r _ _ Hr G1) as (i1 & L1 & F1). destruct (transform_get m r _ _ Hr G2) as (i2 & L2 & F2).
    destruct (from_intermediate_val i1 k1 F1) as (c1 & -> & K1). destruct (from_intermediate_val i2 k2 F2) as (c2 & -> & K2).
    destruct (jn_above m (il_pred f l) p1 (IVal c1) H1 L1 ltac:(discriminate)) as (J1 & A1 & B1).
    destruct (jn_above m (il_pred f l) p2 (IVal c2) H2 L2 ltac:(discriminate)) as (J2 & A2 & B2).
    rewrite A1 in A2. injection A2 as <-. rewrite A1 in E1. injection E1 as <-.
    assert (J1 = ITop).
    { destruct B1 as [->| ->]; [reflexivity|]. destruct B2 as [B2|B2]; [discriminate B2|].
      injection B2 as ->. exfalso. apply Hne. cbn [from_intermediate] in F1, F2.
      destruct (cval c2 <? 2 ^ 64); [|discriminate]. congruence. }
    subst J1. rewrite (HJ ITop eq_refl) in Ht. apply tbody_top in Ht. subst new. cbn in Hfx. congruence.
Qed.

(* ================================================================== completion *)
(* the engine only ever evaluates  trans l (join of the states of backward l):  two transfer functions
   that agree on those arguments give the same run *)
Section RunExt.
  Variables (L S0 : Type) (eqb : L -> L -> bool).
  Variables (join_from push_to : L -> res (list L)) (tr tr' : L -> option S0 -> res S0).
  Variables (join : S0 -> S0 -> res S0) (cmp : S0 -> S0 -> option comparison).
  Hypothesis Hagree : forall m l ps st, join_from l = Ok ps ->
    FixedPoint.join_neighbours L S0 eqb join m ps = Ok st -> tr l st = tr' l st.

  Lemma body_ext force m l q' k k' : (forall m2 q2, k m2 q2 = k' m2 q2) ->
    FixedPoint.body L S0 eqb join_from push_to tr join cmp force m l q' k =
    FixedPoint.body L S0 eqb join_from push_to tr' join cmp force m l q' k'.
  Proof.
    intros Hk. unfold FixedPoint.body.
    destruct (join_from l) as [ps| |] eqn:Ej; try reflexivity.
    destruct (FixedPoint.join_neighbours L S0 eqb join m ps) as [st| |] eqn:En; try reflexivity.
    rewrite <- (Hagree m l ps st Ej En).
    destruct (tr l st) as [new| |]; try reflexivity.
    destruct (FixedPoint.lookup L S0 eqb m l) as [old|].
    - destruct (cmp new old) as [[| |]|]; try apply Hk; destruct force;
        try (destruct (join new old) as [j| |]; try reflexivity);
        try (destruct (push_to l) as [ss| |]; try reflexivity; apply Hk); reflexivity.
    - destruct (push_to l) as [ss| |]; try reflexivity. apply Hk.
  Qed.

  Lemma run_ext fuel force max : forall steps m q,
    FixedPoint.run L S0 eqb join_from push_to tr join cmp fuel force max steps m q =
    FixedPoint.run L S0 eqb join_from push_to tr' join cmp fuel force max steps m q.
  Proof.
    induction fuel as [|fuel IH]; intros steps m q; [reflexivity|].
    cbn [FixedPoint.run]. destruct q as [|l q']; [reflexivity|].
    destruct (Nat.ltb max steps); [reflexivity|]. apply body_ext. intros m2 q2. apply IH.
  Qed.
End RunExt.

(* the order read off partial_cmp *)
Notation ile := (FixedPointProofs.le ioff ioff_cmp).
Lemma ile_char a b : ile a b <-> a = IBot \/ b = ITop \/ a = b.
Proof.
  unfold FixedPointProofs.le. destruct a as [|x|], b as [|y|]; cbn [ioff_cmp];
    try (split; [intros _; tauto|intros _; tauto]);
    try (split; [intros [H|H]; discriminate H|intros [H|[H|H]]; discriminate H]).
  destruct (const_eqb x y) eqn:E.
  - apply const_eqb_eq in E. subst. split; [tauto|intros _; right; reflexivity].
  - split; [intros [H|H]; discriminate H|]. intros [H|[H|H]]; try discriminate H. injection H as ->.
    rewrite const_eqb_refl in E. discriminate.
Qed.

Definition irank (s : ioff) : nat := match s with IBot => 0 | IVal _ => 1 | ITop => 2 end.
Lemma irank_gt a b : ioff_cmp a b = Some Gt -> (irank b < irank a)%nat.
Proof. destruct a as [|x|], b as [|y|]; cbn; try discriminate; try lia. destruct (const_eqb x y); discriminate. Qed.

Lemma ijoin_lub a b j : ioff_join a b = Ok j -> ile a j /\ ile b j /\ (forall c, ile a c -> ile b c -> ile j c).
Proof.
  intros [= <-]. rewrite !ile_char. split; [|split].
  - destruct a as [|x|], b as [|y|]; cbn; auto. destruct (const_eqb x y); auto.
  - destruct a as [|x|], b as [|y|]; cbn; auto. destruct (const_eqb x y) eqn:E; auto. apply const_eqb_eq in E. subst. auto.
  - intros c. rewrite !ile_char.
    destruct a as [|x|], b as [|y|]; cbn [ioff_join_pure];
      try (destruct (const_eqb x y) eqn:E; [apply const_eqb_eq in E; subst y|]);
      intros Ha Hb;
      repeat match goal with
             | H : _ \/ _ |- _ => destruct H
             end;
      try discriminate; subst; auto;
      try match goal with H : IVal _ = IVal _ |- _ => injection H as H; subst end; auto.
    rewrite const_eqb_refl in E. discriminate.
Qed.

Lemma icmp_ge a b : ile b a -> ioff_cmp a b = Some Gt \/ ioff_cmp a b = Some Eq.
Proof.
  rewrite ile_char. intros [-> | [-> | ->]].
  - destruct a; cbn; auto.
  - destruct b as [|y|]; cbn; auto.
  - right. apply ioff_cmp_refl.
Qed.
Lemma ile_trans a b c : ile a b -> ile b c -> ile a c.
Proof. rewrite !ile_char. intros [-> | [-> | ->]] [H|[H|H]]; subst; auto; try discriminate H. Qed.

Section Complete.
  Variables (f : func) (sp : scalar).
  Let w := sbits sp.
  Hypothesis Hinv : cfg_inv (f_cfg f) = true.
  Hypothesis Hwf : sp_wf sp f = true.
  Variables (e : Z) (eb : block).
  Hypothesis He : g_entry (f_cfg f) = Some e.
  Hypothesis Hb : find_block (f_blocks f) e = Some eb.
  Let entry := block_first_loc eb.
  Hypothesis Hnoinc : entry_has_no_incoming f = true.

  Definition igood (s : ioff) : Prop := match s with IVal c => cbits c = w /\ inr w (cval c) | _ => True end.

  Let Hw : 1 <= w <= 64 := sp_wf_width sp f Hwf.
  Let Hebin : In eb (f_blocks f) := proj1 (find_block_some _ _ _ Hb).

  Lemma reach_instr l : reachL f entry l -> match l with LInstr _ _ => loc_instruction f l <> None | _ => True end.
  Proof.
    intros Hr. pose proof (reach_valid f Hinv eb Hebin l Hr) as Hv. destruct l as [bi ii|h t|bi]; [|exact I ..].
    cbn [valid_loc loc_instruction] in *. destruct (find_block (f_blocks f) bi); [|discriminate].
    destruct (block_instruction b ii); [discriminate|discriminate Hv].
  Qed.

  Lemma handle_ok o J : op_sp_wf sp o = true -> igood J -> exists a, handle_operation sp o J = Ok a /\ igood a.
  Proof.
    intros Ho HJ. destruct o as [dst src|idx src|dst idx|tgt|intr|ph]; cbn [handle_operation]; try (eexists; split; [reflexivity|exact HJ]).
    - destruct (scalar_eqb dst sp) eqn:E; [|eexists; split; [reflexivity|exact HJ]].
      apply scalar_eqb_eq in E. subst dst. cbn [op_sp_wf] in Ho.
      assert (K : skey_eqb (skey_of sp) (skey_of sp) = true) by (apply skey_eqb_eq; reflexivity).
      rewrite K in Ho. apply andb_prop in Ho as [_ Hsrc]. apply wfb_wf in Hsrc.
      destruct J as [|c|]; try (eexists; split; [reflexivity|exact I]).
      destruct HJ as [C1 C2].
      assert (Wc : wf (EConst c)) by (cbn [wf]; rewrite C1; fold w; split; [lia|exact C2]).
      destruct (replace_ok (fun _ => None) sp c src Hsrc Wc C1) as (e' & Re & _).
      rewrite Re. cbn [bind]. destruct (is_offset sp src) eqn:Eo; cbn [andb]; [|eexists; split; [reflexivity|exact I]].
      destruct (offset_sound sp ltac:(fold w; lia) [(skey_of sp, mkc w ((0 + cval c) mod 2 ^ w))] _ c 0
                  ltac:(cbn [env_get]; rewrite K; reflexivity) C1 C2 eq_refl src Eo (wf_consts_inr _ Hsrc) e' Re)
        as (A1 & _ & a & A3 & A4 & _).
      rewrite A1, A3. cbn [bind]. eexists. split; [reflexivity|]. cbn [igood cbits cval]. split; [reflexivity|exact A4].
    - destruct (scalar_eqb dst sp); [exists ITop; split; [reflexivity|exact I]|exists J; split; [reflexivity|exact HJ]].
  Qed.

  Lemma tbody_ok l J : reachL f entry l -> igood J -> exists a, tbody sp f l J = Ok a /\ igood a.
  Proof.
    intros Hr HJ. pose proof (reach_instr l Hr) as Hi. destruct l as [bi ii|h t|bi]; cbn [tbody]; try (eexists; split; [reflexivity|exact HJ]).
    destruct (loc_instruction f (LInstr bi ii)) as [i|] eqn:Ei; [|contradiction].
    apply handle_ok; [eapply sp_wf_op; eassumption|exact HJ].
  Qed.

  Lemma handle_mono o a b x y : ile a b -> handle_operation sp o a = Ok x -> handle_operation sp o b = Ok y -> ile x y.
  Proof.
    intros Hab. destruct o as [dst src|idx src|dst idx|tgt|intr|ph]; cbn [handle_operation];
      try (intros [= <-] [= <-]; exact Hab).
    - destruct (scalar_eqb dst sp); [|intros [= <-] [= <-]; exact Hab].
      apply ile_char in Hab. destruct Hab as [-> | [-> | ->]].
      + intros [= <-] _. apply ile_char. auto.
      + intros _ [= <-]. apply ile_char. auto.
      + intros H1 H2. rewrite H1 in H2. injection H2 as <-. apply ile_char. auto.
    - destruct (scalar_eqb dst sp); intros [= <-] [= <-]; [apply ile_char; auto|exact Hab].
  Qed.
  Lemma tbody_mono l a b x y : ile a b -> tbody sp f l a = Ok x -> tbody sp f l b = Ok y -> ile x y.
  Proof.
    intros Hab. destruct l as [bi ii|h t|bi]; cbn [tbody]; try (intros [= <-] [= <-]; exact Hab).
    destruct (loc_instruction f (LInstr bi ii)); [apply handle_mono; exact Hab|discriminate].
  Qed.

  (* the transfer function the engine effectively runs: the entry location never has a predecessor state *)
  Definition trans' (l : floc) (st : option ioff) : res ioff :=
    if floc_eqb l entry then spo_trans sp f l None else spo_trans sp f l st.

  Lemma trans_agree m l ps st : backward f l = Ok ps -> jn m ps = Ok st -> spo_trans sp f l st = trans' l st.
  Proof.
    intros Hbk Hj. unfold trans'. destruct (floc_eqb l entry) eqn:E; [|reflexivity].
    apply floc_eqb_eq in E. subst l.
    pose proof (entry_no_pred f Hinv e eb He Hb Hnoinc) as Hp. unfold il_pred in Hp. fold entry in Hp.
    rewrite Hbk in Hp. subst ps. cbn in Hj. injection Hj as <-. reflexivity.
  Qed.

  Lemma seed_good : igood (IVal (new_big 0 w)).
  Proof. rewrite new_big_spec by lia. cbn [igood cbits cval]. split; [reflexivity|]. apply U_inr. lia. Qed.

  Lemma trans'_ok l st : reachL f entry l -> (st = None -> l = entry) ->
    (forall s, st = Some s -> igood s) -> exists a, trans' l st = Ok a /\ igood a.
  Proof.
    intros Hr Hn Hg. unfold trans'. destruct (floc_eqb l entry) eqn:E.
    - apply floc_eqb_eq in E. subst l. unfold entry. rewrite (spo_trans_entry_none f sp e eb He Hb). apply tbody_ok; [exact Hr|apply seed_good].
    - destruct st as [s|]; [|rewrite (Hn eq_refl) in E; assert (floc_eqb entry entry = true) by (apply floc_eqb_eq; reflexivity); congruence].
      rewrite spo_trans_some. apply tbody_ok; [exact Hr|apply Hg; reflexivity].
  Qed.
End Complete.

Lemma list_max_in x l : In x l -> (x <= list_max l)%nat.
Proof.
  intros H. assert (F : Forall (fun k => (k <= list_max l)%nat) l) by (apply list_max_le; lia).
  rewrite Forall_forall in F. exact (F x H).
Qed.

(* largest number of successor locations of a location *)
Definition out_degree (f : func) : nat := list_max (List.map (fun l => length (il_succ f l)) (locations f)).

Lemma transform_ok sp m : (1 <= sbits sp <= 64) -> (forall l s, lk m l = Some s -> igood sp s) ->
  (forall l s, In (l, s) m -> igood sp s) -> exists r, transform m = Ok r.
Proof.
  intros Hw _ Hg. induction m as [|[k i] t IH]; [eexists; reflexivity|]. cbn [transform].
  assert (Hi : igood sp i) by (apply (Hg k); left; reflexivity).
  destruct IH as (r & Hr); [intros l s H; apply (Hg l); right; exact H|].
  rewrite Hr. destruct i as [|c|]; cbn [from_intermediate bind]; try (eexists; reflexivity).
  destruct Hi as [C1 C2]. assert (cval c < 2 ^ 64).
  { destruct C2 as [_ C2]. assert (2 ^ sbits sp <= 2 ^ 64) by (apply Z.pow_le_mono_r; lia). lia. }
  destruct (Z.ltb_spec (cval c) (2 ^ 64)); [|lia]. cbn [bind]. eexists; reflexivity.
Qed.

(* the result map has one entry per location *)
Lemma fp_insert_keys {S0} (m : list (floc * S0)) l s :
  List.map fst (FixedPoint.insert floc S0 floc_eqb m l s) =
  if existsb (floc_eqb l) (List.map fst m) then List.map fst m else List.map fst m ++ [l].
Proof.
  induction m as [|[k v] t IH]; cbn [FixedPoint.insert List.map fst existsb app]; [reflexivity|].
  destruct (floc_eqb k l) eqn:E.
  - apply floc_eqb_eq in E. subst k. assert (floc_eqb l l = true) by (apply floc_eqb_eq; reflexivity).
    rewrite H. reflexivity.
  - cbn [List.map fst]. rewrite IH.
    assert (E' : floc_eqb l k = false).
    { destruct (floc_eqb l k) eqn:E2; [|reflexivity]. apply floc_eqb_eq in E2. subst.
      assert (floc_eqb k k = true) by (apply floc_eqb_eq; reflexivity). congruence. }
    rewrite E'. cbn [orb]. destruct (existsb (floc_eqb l) (List.map fst t)); reflexivity.
Qed.
Lemma fp_insert_nodup {S0} (m : list (floc * S0)) l s :
  NoDup (List.map fst m) -> NoDup (List.map fst (FixedPoint.insert floc S0 floc_eqb m l s)).
Proof.
  intros H. rewrite fp_insert_keys. destruct (existsb (floc_eqb l) (List.map fst m)) eqn:E; [exact H|].
  apply NoDup_app_intro; [exact H|constructor; [intros []|constructor]|].
  intros x Hx [Hl|[]]. subst x. assert (existsb (floc_eqb l) (List.map fst m) = true); [|congruence].
  apply existsb_exists. exists l. split; [exact Hx|apply floc_eqb_eq; reflexivity].
Qed.
Lemma fp_in_lookup {S0} (m : list (floc * S0)) l s :
  NoDup (List.map fst m) -> In (l, s) m -> FixedPoint.lookup floc S0 floc_eqb m l = Some s.
Proof.
  induction m as [|[k v] t IH]; cbn [List.map fst In FixedPoint.lookup]; [tauto|].
  intros Hn [[= -> ->]|Hin].
  - assert (floc_eqb l l = true) by (apply floc_eqb_eq; reflexivity). rewrite H. reflexivity.
  - inversion Hn as [|? ? Hnot Hn']; subst. destruct (floc_eqb k l) eqn:E; [|auto].
    apply floc_eqb_eq in E. subst k. exfalso. apply Hnot. apply in_map_iff. exists (l, s). auto.
Qed.

(* C17, completion: every function (CFG invariant, well-sorted stack-pointer operations) whose entry
   block has no incoming edge is analysed without error, for every stack-pointer width 1..64 -- in
   particular the 32- and 64-bit stack pointers of the seven architectures -- provided the engine's
   step budget max is at least the C09 bound. *)
Theorem spo_completes f sp max :
  cfg_inv (f_cfg f) = true -> sp_wf sp f = true -> entry_has_no_incoming f = true ->
  (1 + out_degree f * (length (locations f) * 3) <= Datatypes.S max)%nat ->
  exists r, stack_pointer_offsets_max max f sp = Ok r.
Proof.
  intros Hinv Hwf Hno Hbudget.
  destruct (g_entry (f_cfg f)) as [e|] eqn:He; [|unfold entry_has_no_incoming in Hno; rewrite He in Hno; discriminate].
  assert (Hhas : exists eb, find_block (f_blocks f) e = Some eb).
  { pose proof Hinv as Hi. unfold cfg_inv in Hi. rewrite He in Hi. apply andb_prop in Hi as [Hi _]. apply andb_prop in Hi as [_ Hhb].
    unfold has_block in Hhb. fold (f_blocks f) in Hhb. destruct (find_block (f_blocks f) e) as [eb|]; [eauto|discriminate]. }
  destruct Hhas as (eb & Hb).
  pose proof (proj1 (find_block_some _ _ _ Hb)) as Hin.
  pose proof (il_from_ok f Hinv eb Hin) as Hfrom. pose proof (il_to_ok f Hinv eb Hin) as Hto.
  pose proof (il_converse f Hinv eb Hin) as Hconv.
  pose proof (sp_wf_width sp f Hwf) as Hw.
  assert (Hrefl : floc_eqb (block_first_loc eb) (block_first_loc eb) = true) by (apply floc_eqb_eq; reflexivity).
  assert (Hlocs : forall l, reachL f (block_first_loc eb) l -> In l (locations f)).
  { intros l Hr. apply (locations_valid f l Hinv). exact (reach_valid f Hinv eb Hin l Hr). }
  assert (Hgt : forall l st a, reachL f (block_first_loc eb) l -> (st = None -> l = block_first_loc eb) ->
                  ogood ioff (igood sp) st -> trans' f sp eb l st = Ok a -> igood sp a).
  { intros l st a Hr Hn Hg Ht. destruct (trans'_ok f sp Hinv Hwf e eb He Hb l st Hr Hn Hg) as (a' & E & G). congruence. }
  assert (Hgj : forall a b j, igood sp a -> igood sp b -> ioff_join a b = Ok j -> igood sp j).
  { intros a b j Ha Hb0 [= <-]. destruct a as [|x|], b as [|y|]; cbn [ioff_join_pure]; try exact I; try assumption.
    destruct (const_eqb x y); [assumption|exact I]. }
  destruct (fp_complete_rel floc ioff floc_eqb floc_eqb_reflect (backward f) (forward f) (trans' f sp eb) ioff_join ioff_cmp
              (il_succ f) (il_pred f) (block_first_loc eb) Hfrom Hto Hconv ioff_cmp_refl (igood sp) Hgt Hgj) with
      (rank := irank) (h := 2%nat) (U := locations f) (d := out_degree f) (max := max) as (m & Hrun).
  - intros a b c _ _ _. apply ile_trans.
  - intros a b j _ _ Hj. destruct (ijoin_lub a b j Hj) as (A & B & C). split; [exact A|split; [exact B|]]. intros c _. apply C.
  - intros l x y a b Hr Hn _ _ Hxy Ha Hb0. unfold trans' in Ha, Hb0.
    destruct (floc_eqb l (block_first_loc eb)) eqn:E.
    + rewrite Ha in Hb0. injection Hb0 as <-. apply ile_char. auto.
    + destruct x as [xa|]; [|rewrite (Hn eq_refl) in E; congruence].
      destruct y as [yb|]; [|destruct Hxy]. rewrite spo_trans_some in Ha, Hb0. eapply tbody_mono; [exact Hxy|exact Ha|exact Hb0].
  - intros a b _ _. apply icmp_ge.
  - intros a b _ _. eexists. reflexivity.
  - intros l st Hr Hn Hg. destruct (trans'_ok f sp Hinv Hwf e eb He Hb l st Hr Hn Hg) as (a & E & _). eauto.
  - intros s. destruct s; cbn; lia.
  - apply irank_gt.
  - apply (locations_nodup f Hinv).
  - exact Hlocs.
  - intros l Hr. unfold out_degree. apply list_max_in. apply in_map_iff. exists l. split; [reflexivity|exact (Hlocs l Hr)].
  - exact Hbudget.
  - (* the engine with the real transfer function does the same run *)
    rewrite <- (run_ext floc ioff floc_eqb (backward f) (forward f) (spo_trans sp f) (trans' f sp eb) ioff_join ioff_cmp
                  (fun m0 l ps st => trans_agree f sp Hinv e eb He Hb Hno m0 l ps st)) in Hrun.
    assert (HG : Good floc ioff floc_eqb (igood sp) m).
    { rewrite (run_ext floc ioff floc_eqb (backward f) (forward f) (spo_trans sp f) (trans' f sp eb) ioff_join ioff_cmp
                  (fun m0 l ps st => trans_agree f sp Hinv e eb He Hb Hno m0 l ps st)) in Hrun.
      exact (fp_good floc ioff floc_eqb floc_eqb_reflect (backward f) (forward f) (trans' f sp eb) ioff_join ioff_cmp
               (il_succ f) (il_pred f) (block_first_loc eb) Hfrom Hto Hconv (igood sp) Hgt Hgj _ _ _ m Hrun). }
    assert (Hnd : NoDup (List.map fst m)).
    { destruct (run_done_term _ _ _ _ _ _ _ _ _ _ _ _ _ _ _ Hrun) as (n & Hterm).
      refine (term_inv floc ioff floc_eqb (backward f) (forward f) (spo_trans sp f) ioff_join ioff_cmp
                (fun m0 _ => NoDup (List.map fst m0)) false _ _ _ _ _ Hterm _); [|constructor].
      intros m0 l q' m2 q2 H0 Hbs.
      destruct (bstep_next _ _ _ _ _ _ _ _ _ _ _ _ _ _ Hbs) as (ps & st & new & _ & _ & _ & [(old & _ & _ & -> & _)|(s0 & ss & _ & -> & _ & _)]);
        [exact H0|apply fp_insert_nodup; exact H0]. }
    destruct (transform_ok sp m Hw) as (r & Hr).
    { intros l s Hl. exact (HG l s Hl). }
    { intros l s Hl. exact (HG l s (fp_in_lookup m l s Hnd Hl)). }
    exists r. unfold stack_pointer_offsets_max, spo_states, fp_forward. rewrite He. unfold f_block, cfg_block.
    fold (f_blocks f). rewrite Hb. cbn [bind]. rewrite Hrun. cbn [of_outcome bind]. exact Hr.
Qed.
