(* Flow/C17Check.v -- per-case checker of property C17.
   fst = tie: the model of stack_pointer_offsets (Flow/SPO.v) returns the observed map / error;
   snd = oracle, computed from the property text and the reference semantics (Exec/Sem.v) only:
     (a) a function whose entry block has no incoming edge is analysed without error;
     (b) on every supplied execution, after every executed location at which a number k is reported,
         the stack pointer equals (entry value + k) mod 2^w;
     (c) a location that loads the stack pointer, or assigns it from a source mentioning another
         scalar, does not carry a number.
   The oracle is silent for functions whose entry block has an incoming edge. *)
From Coq Require Import ZArith List Bool NArith.
From Falcon Require Import Base.Res IL.Const IL.Expr IL.Func IL.Loc Exec.Sem Flow.SPO.
Import ListNotations.
Local Open Scope Z_scope.

Definition smap := list (floc * spoff).
Fixpoint sm_get (m : smap) (l : floc) : option spoff :=
  match m with [] => None | (k, v) :: t => if floc_eqb k l then Some v else sm_get t l end.
Definition smap_sub (a b : smap) : bool :=
  forallb (fun kv : floc * spoff => match sm_get b (fst kv) with Some s => spoff_eqb (snd kv) s | None => false end) a.
Definition smap_eqb (a b : smap) : bool := Nat.eqb (length a) (length b) && smap_sub a b && smap_sub b a.

(* step budget used by the case files instead of 250000 (a function needing more makes the model
   answer Err EMaxSteps: a visible tie failure, never a silent pass) *)
Definition CASE_MAX : nat := 3000.
Definition TRACE_FUEL : nat := 64.

(* ---- specification side ---- *)
Definition entry_has_no_incoming (f : func) : bool :=
  match g_entry (f_cfg f) with
  | Some e => negb (existsb (fun ed => e_tail ed =? e) (f_edges f))
  | None => false
  end.

Definition entry_loc (f : func) : option floc :=
  match g_entry (f_cfg f) with
  | Some e => match find_block (f_blocks f) e with Some b => Some (block_first_loc b) | None => None end
  | None => None
  end.

Definition state_after (r : step_result) : option sstate :=
  match r with
  | Next _ st _ | Goto _ st | Exit st _ => Some st
  | Stuck _ => None
  end.

Definition sp_value (sp : scalar) (st : sstate) : option Z :=
  match env_get (st_env st) (skey_of sp) with Some c => Some (cval c) | None => None end.

(* one trace item against the reported map *)
Definition item_ok (sp : scalar) (sp0 : Z) (m : smap) (ti : trace_item) : bool :=
  match state_after (ti_res ti), sm_get m (ti_loc ti) with
  | Some st', Some (SVal k) =>
      match sp_value sp st' with
      | Some v => v =? (sp0 + k) mod 2 ^ sbits sp
      | None => false
      end
  | _, _ => true
  end.

Definition run_ok (f : func) (sp : scalar) (m : smap) (st0 : sstate) : bool :=
  match entry_loc f, sp_value sp st0 with
  | Some l0, Some sp0 => forallb (item_ok sp sp0 m) (sem_run TRACE_FUEL f l0 st0)
  | _, _ => true
  end.

Definition mentions_other (sp : scalar) (e : expr) : bool :=
  existsb (fun s => negb (scalar_eqb s sp)) (scalars e).

(* (c): loads into sp / sources mentioning another scalar carry no number *)
Definition unknown_ok (f : func) (sp : scalar) (m : smap) : bool :=
  forallb (fun kv : floc * spoff =>
             match snd kv, loc_instruction f (fst kv) with
             | SVal _, Some i =>
                 match i_op i with
                 | OLoad dst _ => negb (scalar_eqb dst sp)
                 | OAssign dst src => negb (scalar_eqb dst sp && mentions_other sp src)
                 | _ => true
                 end
             | _, _ => true
             end) m.

Definition c17_oracle (f : func) (sp : scalar) (sts : list sstate) (obs : res smap) : bool :=
  if entry_has_no_incoming f then
    match obs with
    | Ok m => forallb (run_ok f sp m) sts && unknown_ok f sp m
    | _ => false
    end
  else true.

(* initial memory of a run, sent compactly: bytes [bs] at consecutive addresses from [base] (mod 2^w) *)
Fixpoint arena (w base : Z) (bs : list Z) : list (Z * Z) :=
  match bs with [] => [] | b :: t => (base mod 2 ^ w, b) :: arena w (base + 1) t end.

Inductive case :=
| K (f : func) (sp : scalar) (big : bool) (runs : list (senv * (Z * list Z))) (obs : res smap).

Definition ck (k : case) : bool * bool :=
  match k with
  | K f sp big runs obs =>
      (res_eqb smap_eqb (stack_pointer_offsets_max CASE_MAX f sp) obs,
       c17_oracle f sp (List.map (fun r : senv * (Z * list Z) =>
                                    mkst (fst r) (mkbmem big (arena (sbits sp) (fst (snd r)) (snd (snd r))))) runs) obs)
  end.
