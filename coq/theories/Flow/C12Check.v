(* Flow/C12Check.v -- per-case checker of property C12, evaluated in the kernel by the case files:
   fst = tie (models of reaching_definitions / use_def / def_use = observed maps, as finite maps of
   finite sets), snd = oracle (the OBSERVED maps satisfy the specification Flow/RDSpec.v on the
   executions of Exec/Sem.v from the case's initial states). *)
From Coq Require Import ZArith List Bool NArith.
From Falcon Require Import Base.Res IL.Const IL.Expr IL.Func IL.Loc Exec.Sem
     Flow.FixedPoint Flow.FpIL Flow.RD Flow.UseDef Flow.RDSpec.
Import ListNotations.
Local Open Scope Z_scope.

Definition amap := list (floc * list floc).

(* finite maps of finite sets, compared extensionally (the harness sorts; the model does not) *)
Definition set_eqb (a b : list floc) : bool :=
  Nat.eqb (length a) (length b) && ls_subset a b && ls_subset b a.
Definition amap_sub (a b : amap) : bool :=
  forallb (fun kv : floc * list floc =>
             match am_get b (fst kv) with Some s => set_eqb (snd kv) s | None => false end) a.
Definition amap_eqb (a b : amap) : bool :=
  Nat.eqb (length a) (length b) && amap_sub a b && amap_sub b a.

(* step budget used by the case files instead of 250000: a function on which the engine needs more
   makes the model answer Err EMaxSteps, i.e. a visible tie failure, never a silent pass *)
Definition CASE_MAX : nat := 3000.
Definition TRACE_FUEL : nat := 60.

Inductive case :=
| K (f : func) (big : bool) (mem : list (Z * Z)) (envs : list senv)
    (rd ud du : res amap).

Definition ck (k : case) : bool * bool :=
  match k with
  | K f big mem envs rd ud du =>
      (res_eqb amap_eqb (reaching_definitions_max CASE_MAX f) rd &&
       res_eqb amap_eqb (use_def_max CASE_MAX f) ud &&
       res_eqb amap_eqb (def_use_max CASE_MAX f) du,
       match rd, ud, du with
       | Ok rdm, Ok udm, Ok dum =>
           c12_oracle f TRACE_FUEL (List.map (fun en => mkst en (mkbmem big mem)) envs) rdm udm dum
       | Panic, _, _ | _, Panic, _ | _, _, Panic => false   (* the analyses are total on IL functions with an entry *)
       | _, _, _ => match g_entry (f_cfg f) with None => true | Some _ => false end
       end)
  end.
