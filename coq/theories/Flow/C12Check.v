(* Flow/C12Check.v -- per-case checker of property C12, evaluated in the kernel by the case files:
   fst = tie (models of reaching_definitions / use_def / def_use = observed maps, as finite maps of
   finite sets), snd = oracle (the OBSERVED maps satisfy the specification Flow/RDSpec.v on the
   executions of Exec/Sem.v from the case's initial states). *)
From Coq Require Import ZArith List Bool NArith.
From Falcon Require Import Base.Res IL.Const IL.Expr IL.Func IL.Loc Exec.Sem
     Flow.FixedPoint Flow.FpIL Flow.RD Flow.UseDef Flow.RDSpec.
Import ListNotations.
Local Open Scope Z_scope.

Definition amap := list (floc * list floc).

(* finite maps of finite sets, compared extensionally (the harness sorts; the model does not) *)
Definition set_eqb (a b : list floc) : bool :=
  Nat.eqb (length a) (length b) && ls_subset a b && ls_subset b a.
Definition amap_sub (a b : amap) : bool :=
  forallb (fun kv : floc * list floc =>
             match am_get b (fst kv) with Some s => set_eqb (snd kv) s | None => false end) a.
Definition amap_eqb (a b : amap) : bool :=
  Nat.eqb (length a) (length b) && amap_sub a b && amap_sub b a.

(* step budget used by the case files instead of 250000: a function on which the engine needs more
   makes the model answer Err EMaxSteps, i.e. a visible tie failure, never a silent pass *)
Definition CASE_MAX : nat := 3000.
Definition TRACE_FUEL : nat := 60.

(* ---------- compact encodings used by the case files (parsing numerals dominates coqc time) ----------
   * a location set is a bit mask over `locations f` (bit j = j-th location of Function::locations);
   * a result map is the list, in `locations f` order, of the masks of its values, -1 = key absent;
   * the initial memory is a 48-byte arena at 0x1000 filled from a seed;
   * initial environments are value lists over a scalar pool. *)
Fixpoint mask_set (locs : list floc) (j : Z) (mask : Z) : list floc :=
  match locs with
  | [] => []
  | l :: t => if Z.testbit mask j then l :: mask_set t (j + 1) mask else mask_set t (j + 1) mask
  end.
Fixpoint decode_map (all : list floc) (locs : list floc) (masks : list Z) : option amap :=
  match locs, masks with
  | [], [] => Some []
  | l :: lt, z :: zt =>
      match decode_map all lt zt with
      | None => None
      | Some r => if z <? 0 then Some r
                  else if z <? 2 ^ Z.of_nat (length all) then Some ((l, mask_set all 0 z) :: r) else None
      end
  | _, _ => None
  end.
Definition decode (f : func) (o : res (list Z)) : option (res amap) :=
  match o with
  | Ok masks => match decode_map (locations f) (locations f) masks with Some m => Some (Ok m) | None => None end
  | Err e => Some (Err e)
  | Panic => Some Panic
  end.

Definition arena (seed : Z) : list (Z * Z) :=
  List.map (fun i => (4096 + Z.of_nat i, ((seed + Z.of_nat i) * 2654435761 / 65536) mod 256)) (seq 0 48).
Definition mk_env (pool : list (N * Z)) (vals : list Z) : senv :=
  List.map (fun pv : (N * Z) * Z => ((fst (fst pv), None), mkc (snd (fst pv)) (snd pv))) (combine pool vals).

Inductive case :=
| K (f : func) (big : bool) (seed : Z) (pool : list (N * Z)) (vals : list (list Z))
    (rd ud du : res (list Z)).

Definition ck (k : case) : bool * bool :=
  match k with
  | K f big seed pool vals rd ud du =>
      match decode f rd, decode f ud, decode f du with
      | Some rd, Some ud, Some du =>
        (res_eqb amap_eqb (reaching_definitions_max CASE_MAX f) rd &&
         res_eqb amap_eqb (use_def_max CASE_MAX f) ud &&
         res_eqb amap_eqb (def_use_max CASE_MAX f) du,
         match rd, ud, du with
         | Ok rdm, Ok udm, Ok dum =>
             c12_oracle f TRACE_FUEL
                        (List.map (fun v => mkst (mk_env pool v) (mkbmem big (arena seed))) vals) rdm udm dum
         | Panic, _, _ | _, Panic, _ | _, _, Panic => false   (* the analyses are total on IL functions with an entry *)
         | _, _, _ => match g_entry (f_cfg f) with None => true | Some _ => false end
         end)
      | _, _, _ => (false, false)     (* a key or element that is not a location of the function *)
      end
  end.
