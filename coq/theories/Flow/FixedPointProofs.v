(* Flow/FixedPointProofs.v -- property C09: proofs about the engine model of Flow/FixedPoint.v.

   Everything is proved once, on the loop body ([bstep], shown equal to [body] for every continuation),
   and then transported to the forward engine [run] (step budget) and the backward engine
   [run_nobudget] through the big-step relation [term] ("the unbudgeted loop stops after exactly n pops
   with outcome o") and the small-step relation [nsteps] ("k pops succeed").

   The location structure is abstract:  [join_from]/[push_to] are the two (fallible) neighbour
   accessors of the engine, [pred]/[succ] total list-valued functions that agree with them on the
   locations reachable from [entry] through [succ], and [converse] relates the two on reachable
   locations.  No other hypothesis is global; each theorem lists what it needs. *)
From Coq Require Import List Bool Arith Lia.
From Falcon Require Import Base.Res Flow.FixedPoint.
Import ListNotations.

Section FPP.
  Variables (L S : Type).
  Variable eqb : L -> L -> bool.
  Hypothesis eqb_spec : forall a b, reflect (a = b) (eqb a b).
  Variable join_from push_to : L -> res (list L).
  Variable trans : L -> option S -> res S.
  Variable join : S -> S -> res S.
  Variable cmp : S -> S -> option comparison.

  Notation map := (FixedPoint.map L S).
  Notation lookup := (FixedPoint.lookup L S eqb).
  Notation insert := (FixedPoint.insert L S eqb).
  Notation mem := (FixedPoint.mem L eqb).
  Notation join_neighbours := (FixedPoint.join_neighbours L S eqb join).
  Notation join_step := (FixedPoint.join_step L S eqb join).
  Notation push_all := (FixedPoint.push_all L eqb).
  Notation outcome := (FixedPoint.outcome L S).
  Notation body := (FixedPoint.body L S eqb join_from push_to trans join cmp).
  Notation run := (FixedPoint.run L S eqb join_from push_to trans join cmp).
  Notation run_nobudget := (FixedPoint.run_nobudget L S eqb join_from push_to trans join cmp).

  (* ------------------------------------------------------------------ the loop body as a step function *)
  Inductive sres := Next (m : map) (q : list L) | Stop (o : outcome).

  Definition bstep (force : bool) (m : map) (l : L) (q' : list L) : sres :=
    match join_from l with
    | Err e => Stop (Fail e) | Panic => Stop Crash
    | Ok ps =>
      match join_neighbours m ps with
      | Err e => Stop (Fail e) | Panic => Stop Crash
      | Ok st =>
        match trans l st with
        | Err e => Stop (Fail e) | Panic => Stop Crash
        | Ok new =>
          let store (s : S) :=
            match push_to l with
            | Err e => Stop (Fail e) | Panic => Stop Crash
            | Ok ss => Next (insert m l s) (push_all q' ss)
            end in
          match lookup m l with
          | None => store new
          | Some old =>
            match cmp new old with
            | Some Eq => Next m q'
            | c => if force
                   then match join new old with Ok j => store j | Err e => Stop (Fail e) | Panic => Stop Crash end
                   else match c with
                        | Some Gt => store new
                        | _ => Stop (Fail EOrdering)
                        end
            end
          end
        end
      end
    end.

  Lemma body_bstep force m l q' k :
    body force m l q' k = match bstep force m l q' with Next m2 q2 => k m2 q2 | Stop o => o end.
  Proof.
    unfold FixedPoint.body, bstep.
    destruct (join_from l) as [ps|e|]; try reflexivity.
    destruct (join_neighbours m ps) as [st|e|]; try reflexivity.
    destruct (trans l st) as [new|e|]; try reflexivity.
    destruct (lookup m l) as [old|].
    - destruct (cmp new old) as [[| |]|]; try reflexivity; destruct force; try reflexivity;
        try (destruct (join new old) as [j|e1|]; try reflexivity);
        destruct (push_to l) as [ss|e2|]; reflexivity.
    - destruct (push_to l) as [ss|e2|]; reflexivity.
  Qed.

  (* what a successful iteration did *)
  Definition stored (force : bool) (m : map) (l : L) (new s : S) : Prop :=
    (lookup m l = None /\ s = new) \/
    (exists old, lookup m l = Some old /\ cmp new old <> Some Eq /\
       ((force = false /\ cmp new old = Some Gt /\ s = new) \/ (force = true /\ join new old = Ok s))).

  Lemma bstep_next force m l q' m2 q2 :
    bstep force m l q' = Next m2 q2 ->
    exists ps st new, join_from l = Ok ps /\ join_neighbours m ps = Ok st /\ trans l st = Ok new /\
      ((exists old, lookup m l = Some old /\ cmp new old = Some Eq /\ m2 = m /\ q2 = q') \/
       (exists s ss, push_to l = Ok ss /\ m2 = insert m l s /\ q2 = push_all q' ss /\ stored force m l new s)).
  Proof.
    unfold bstep, stored.
    destruct (join_from l) as [ps|e|]; try discriminate.
    destruct (join_neighbours m ps) as [st|e|] eqn:Hj; try discriminate.
    destruct (trans l st) as [new|e|] eqn:Ht; try discriminate.
    intros H. exists ps, st, new. repeat split; try reflexivity; try assumption.
    destruct (lookup m l) as [old|] eqn:Hl.
    - destruct (cmp new old) as [[| |]|] eqn:Hc.
      + left. exists old. inversion H; subst. auto.
      + right. destruct force; [|discriminate].
        destruct (join new old) as [j|e1|] eqn:Hjn; try discriminate.
        destruct (push_to l) as [ss|e2|]; try discriminate. inversion H; subst.
        exists j, ss. repeat split; try reflexivity. right. exists old. repeat split; try congruence. right. auto.
      + right. destruct force.
        * destruct (join new old) as [j|e1|] eqn:Hjn; try discriminate.
          destruct (push_to l) as [ss|e2|]; try discriminate. inversion H; subst.
          exists j, ss. repeat split; try reflexivity. right. exists old. repeat split; try congruence. right. auto.
        * destruct (push_to l) as [ss|e2|]; try discriminate. inversion H; subst.
          exists new, ss. repeat split; try reflexivity. right. exists old. repeat split; try congruence. left. auto.
      + right. destruct force; [|discriminate].
        destruct (join new old) as [j|e1|] eqn:Hjn; try discriminate.
        destruct (push_to l) as [ss|e2|]; try discriminate. inversion H; subst.
        exists j, ss. repeat split; try reflexivity. right. exists old. repeat split; try congruence. right. auto.
    - right. destruct (push_to l) as [ss|e2|]; try discriminate. inversion H; subst.
      exists new, ss. repeat split; try reflexivity. left. auto.
  Qed.

  Lemma bstep_stop_not_oof force m l q' o : bstep force m l q' = Stop o -> o <> OutOfFuel /\ forall m', o <> Done m'.
  Proof.
    unfold bstep.
    destruct (join_from l) as [ps|e|]; try (intros [= <-]; split; [|intros ?]; discriminate).
    destruct (join_neighbours m ps) as [st|e|]; try (intros [= <-]; split; [|intros ?]; discriminate).
    destruct (trans l st) as [new|e|]; try (intros [= <-]; split; [|intros ?]; discriminate).
    destruct (lookup m l) as [old|].
    - destruct (cmp new old) as [[| |]|]; try discriminate; destruct force;
        try (destruct (join new old) as [j|e1|]); try (destruct (push_to l) as [ss|e2|]);
        try discriminate; intros [= <-]; split; try intros ?; discriminate.
    - destruct (push_to l) as [ss|e2|]; try discriminate; intros [= <-]; split; try intros ?; discriminate.
  Qed.

  (* a non-monotone step with force = false is an ordering error *)
  Lemma bstep_nonmono m l q' ps st new old :
    join_from l = Ok ps -> join_neighbours m ps = Ok st -> trans l st = Ok new -> lookup m l = Some old ->
    cmp new old <> Some Eq -> cmp new old <> Some Gt ->
    bstep false m l q' = Stop (Fail EOrdering).
  Proof.
    intros H1 H2 H3 H4 H5 H6. unfold bstep. rewrite H1, H2, H3, H4.
    destruct (cmp new old) as [[| |]|]; try congruence.
  Qed.

  (* and an ordering error of the step function has no other origin, unless the analysis itself
     returns that error kind *)
  Lemma bstep_ordering_inv m l q' :
    bstep false m l q' = Stop (Fail EOrdering) ->
    join_from l = Err EOrdering \/ push_to l = Err EOrdering \/
    (exists ps st, join_from l = Ok ps /\ join_neighbours m ps = Ok st /\ trans l st = Err EOrdering) \/
    (exists ps, join_from l = Ok ps /\ join_neighbours m ps = Err EOrdering) \/
    (exists ps st new old, join_from l = Ok ps /\ join_neighbours m ps = Ok st /\ trans l st = Ok new /\
        lookup m l = Some old /\ cmp new old <> Some Eq /\ cmp new old <> Some Gt).
  Proof.
    unfold bstep.
    destruct (join_from l) as [ps|e|] eqn:H1; try discriminate; [|intros [= ->]; auto].
    destruct (join_neighbours m ps) as [st|e|] eqn:H2; try discriminate;
      [|intros [= ->]; right; right; right; left; exists ps; auto].
    destruct (trans l st) as [new|e|] eqn:H3; try discriminate;
      [|intros [= ->]; right; right; left; exists ps, st; auto].
    destruct (lookup m l) as [old|] eqn:H4.
    - destruct (cmp new old) as [[| |]|] eqn:H5; try discriminate.
      + intros _. right; right; right; right. exists ps, st, new, old. repeat split; try assumption; congruence.
      + destruct (push_to l) as [ss|e2|]; try discriminate. intros [= ->]; auto.
      + intros _. right; right; right; right. exists ps, st, new, old. repeat split; try assumption; congruence.
    - destruct (push_to l) as [ss|e2|]; try discriminate. intros [= ->]; auto.
  Qed.

  (* ------------------------------------------------------------------ big-step / small-step views of the loop *)
  (* the loop without budget, started in (m, q), stops after exactly n pops with outcome o *)
  Inductive term (force : bool) : map -> list L -> nat -> outcome -> Prop :=
  | term_done m : term force m [] 0 (Done m)
  | term_stop m l q' o : bstep force m l q' = Stop o -> term force m (l :: q') 1 o
  | term_next m l q' m2 q2 n o :
      bstep force m l q' = Next m2 q2 -> term force m2 q2 n o -> term force m (l :: q') (Datatypes.S n) o.

  (* k pops succeed and lead from (m, q) to (m3, q3) *)
  Inductive nsteps (force : bool) : nat -> map -> list L -> map -> list L -> Prop :=
  | ns_0 m q : nsteps force 0 m q m q
  | ns_S k m l q' m2 q2 m3 q3 :
      bstep force m l q' = Next m2 q2 -> nsteps force k m2 q2 m3 q3 -> nsteps force (Datatypes.S k) m (l :: q') m3 q3.

  Lemma term_not_oof force m q n o : term force m q n o -> o <> OutOfFuel.
  Proof. induction 1; try discriminate; try assumption. eapply bstep_stop_not_oof; eassumption. Qed.

  Lemma term_det force m q n o : term force m q n o -> forall n' o', term force m q n' o' -> n = n' /\ o = o'.
  Proof.
    induction 1 as [m|m l q' o Hb|m l q' m2 q2 n o Hb Ht IH]; intros n' o' H'; inversion H'; subst.
    - auto.
    - split; congruence.
    - congruence.
    - congruence.
    - match goal with H1 : bstep _ _ _ _ = Next ?a ?b, H2 : bstep _ _ _ _ = Next m2 q2 |- _ =>
        rewrite H1 in H2; inversion H2; subst end.
      match goal with H : term _ m2 q2 _ _ |- _ => destruct (IH _ _ H) as [-> ->] end. auto.
  Qed.

  (* stopping within n pops excludes performing n successful pops that leave work *)
  Lemma term_nsteps_excl force m q n o : term force m q n o ->
    forall k m2 l q2, nsteps force k m q m2 (l :: q2) -> k < n.
  Proof.
    induction 1 as [m|m l q' o Hb|m l q' m2 q2 n o Hb Ht IH]; intros k m3 l3 q3 Hn; inversion Hn; subst.
    - lia.
    - congruence.
    - lia.
    - match goal with H1 : bstep _ _ _ _ = Next ?a ?b, H2 : bstep _ _ _ _ = Next m2 q2 |- _ =>
        rewrite H1 in H2; inversion H2; subst end.
      match goal with H : nsteps _ _ m2 q2 _ _ |- _ => specialize (IH _ _ _ _ H) end. lia.
  Qed.

  (* the loop either stops within K pops, or performs K pops and still has work *)
  Lemma term_or_nsteps force K : forall m q,
    (exists n o, n <= K /\ term force m q n o) \/ (exists m2 l q2, nsteps force K m q m2 (l :: q2)).
  Proof.
    induction K as [|K IH]; intros m q.
    - destruct q as [|l q']; [left; exists 0, (Done m); split; [lia|constructor]|right; exists m, l, q'; constructor].
    - destruct q as [|l q']; [left; exists 0, (Done m); split; [lia|constructor]|].
      destruct (bstep force m l q') as [m2 q2|o] eqn:Hb.
      + destruct (IH m2 q2) as [(n & o & Hn & Ht)|(m3 & l3 & q3 & Hs)].
        * left. exists (Datatypes.S n), o. split; [lia|]. eapply term_next; eassumption.
        * right. exists m3, l3, q3. eapply ns_S; eassumption.
      + left. exists 1, o. split; [lia|]. apply term_stop; assumption.
  Qed.

  Lemma run_unfold fuel force max steps m l q' :
    run (Datatypes.S fuel) force max steps m (l :: q') =
    if max <? steps then Fail EMaxSteps
    else match bstep force m l q' with
         | Next m2 q2 => run fuel force max (Datatypes.S steps) m2 q2
         | Stop o => o
         end.
  Proof. cbn -[Nat.ltb FixedPoint.body]. rewrite body_bstep. reflexivity. Qed.

  Lemma run_nobudget_unfold fuel force m l q' :
    run_nobudget (Datatypes.S fuel) force m (l :: q') =
    match bstep force m l q' with
    | Next m2 q2 => run_nobudget fuel force m2 q2
    | Stop o => o
    end.
  Proof. cbn -[FixedPoint.body]. rewrite body_bstep. reflexivity. Qed.

  (* backward engine <-> term *)
  Lemma term_run_nobudget force m q n o : term force m q n o -> forall fuel, n < fuel -> run_nobudget fuel force m q = o.
  Proof.
    induction 1 as [m|m l q' o Hb|m l q' m2 q2 n o Hb Ht IH]; intros fuel Hf;
      (destruct fuel as [|fuel]; [lia|]).
    - reflexivity.
    - rewrite run_nobudget_unfold, Hb. reflexivity.
    - rewrite run_nobudget_unfold, Hb. apply IH. lia.
  Qed.

  (* an error outcome at pop n needs only n units of fuel *)
  Lemma term_run_nobudget_err force m q n o : term force m q n o -> (forall m', o <> Done m') ->
    forall fuel, n <= fuel -> run_nobudget fuel force m q = o.
  Proof.
    induction 1 as [m|m l q' o Hb|m l q' m2 q2 n o Hb Ht IH]; intros Ho fuel Hf.
    - exfalso. eapply Ho; reflexivity.
    - destruct fuel as [|fuel]; [lia|]. rewrite run_nobudget_unfold, Hb. reflexivity.
    - destruct fuel as [|fuel]; [lia|]. rewrite run_nobudget_unfold, Hb. apply IH; [assumption|lia].
  Qed.

  Lemma run_nobudget_term force fuel : forall m q o,
    run_nobudget fuel force m q = o -> o <> OutOfFuel -> exists n, n <= fuel /\ term force m q n o.
  Proof.
    induction fuel as [|fuel IH]; intros m q o Hr Ho; [cbn in Hr; congruence|].
    destruct q as [|l q']; [cbn in Hr; subst; exists 0; split; [lia|constructor]|].
    rewrite run_nobudget_unfold in Hr. destruct (bstep force m l q') as [m2 q2|o'] eqn:Hb.
    - destruct (IH _ _ _ Hr Ho) as (n & Hn & Ht). exists (Datatypes.S n). split; [lia|]. eapply term_next; eassumption.
    - subst. exists 1. split; [lia|]. apply term_stop; assumption.
  Qed.

  (* forward engine: enough budget => the unbudgeted outcome *)
  Lemma term_run force m q n o : term force m q n o ->
    forall fuel max steps, n < fuel -> steps + n <= Datatypes.S max -> run fuel force max steps m q = o.
  Proof.
    induction 1 as [m|m l q' o Hb|m l q' m2 q2 n o Hb Ht IH]; intros fuel max steps Hf Hs;
      (destruct fuel as [|fuel]; [lia|]).
    - reflexivity.
    - rewrite run_unfold, Hb. destruct (Nat.ltb_spec max steps); [lia|reflexivity].
    - rewrite run_unfold, Hb. destruct (Nat.ltb_spec max steps); [lia|]. apply IH; lia.
  Qed.

  (* forward engine: a pop beyond number max+1 would be needed => MaxSteps *)
  Lemma nsteps_run_maxsteps force k m q m2 l q2 : nsteps force k m q m2 (l :: q2) ->
    forall fuel max steps, k < fuel -> steps + k = Datatypes.S max -> run fuel force max steps m q = Fail EMaxSteps.
  Proof.
    remember (l :: q2) as qq eqn:Eq. induction 1 as [m q|k m l0 q' m2' q2' m3 q3 Hb Hn IH]; intros fuel max steps Hf Hs;
      (destruct fuel as [|fuel]; [lia|]).
    - subst q. rewrite run_unfold. destruct (Nat.ltb_spec max steps); [reflexivity|lia].
    - rewrite run_unfold, Hb. destruct (Nat.ltb_spec max steps); [lia|]. apply IH; [assumption|lia|lia].
  Qed.

  (* ------------------------------------------------------------------ C09 (3): fuel and budget *)
  (* the budget, not the fuel, stops the forward engine *)
  Theorem run_never_out_of_fuel fuel force max steps m q :
    max + 2 <= fuel + steps -> steps <= Datatypes.S max -> run fuel force max steps m q <> OutOfFuel.
  Proof.
    intros Hf Hs.
    destruct (term_or_nsteps force (Datatypes.S max - steps) m q) as [(n & o & Hn & Ht)|(m2 & l & q2 & Hk)].
    - rewrite (term_run _ _ _ _ _ Ht fuel max steps) by lia. eapply term_not_oof; eassumption.
    - rewrite (nsteps_run_maxsteps _ _ _ _ _ _ _ Hk fuel max steps) by lia. discriminate.
  Qed.

  (* exact characterisation of the budget (off-by-one included): with fuel max+2,
     (a) if the unbudgeted loop stops within max+1 pops, the budgeted engine returns the same outcome;
     (b) if max+1 pops succeed and the queue is still non-empty, it returns MaxSteps;
     (c) one of the two always applies (and they exclude each other: term_nsteps_excl). *)
  Theorem fp_budget force max m q :
    (forall n o, term force m q n o -> n <= Datatypes.S max ->
        run (Datatypes.S (Datatypes.S max)) force max 0 m q = o) /\
    (forall m2 l q2, nsteps force (Datatypes.S max) m q m2 (l :: q2) ->
        run (Datatypes.S (Datatypes.S max)) force max 0 m q = Fail EMaxSteps) /\
    ((exists n o, n <= Datatypes.S max /\ term force m q n o) \/
     (exists m2 l q2, nsteps force (Datatypes.S max) m q m2 (l :: q2))).
  Proof.
    split; [|split].
    - intros n o Ht Hn. apply (term_run _ _ _ _ _ Ht); lia.
    - intros m2 l q2 Hk. apply (nsteps_run_maxsteps _ _ _ _ _ _ _ Hk); lia.
    - apply term_or_nsteps.
  Qed.

  (* MaxSteps is returned exactly when more than max+1 pops would be needed -- or when the analysis
     itself produced that error kind within the budget *)
  Corollary fp_maxsteps_iff force max m q :
    run (Datatypes.S (Datatypes.S max)) force max 0 m q = Fail EMaxSteps <->
    (exists m2 l q2, nsteps force (Datatypes.S max) m q m2 (l :: q2)) \/
    (exists n, n <= Datatypes.S max /\ term force m q n (Fail EMaxSteps)).
  Proof.
    destruct (fp_budget force max m q) as (Ha & Hb & Hc). split.
    - intros Hr. destruct Hc as [(n & o & Hn & Ht)|Hk]; [|left; assumption].
      right. exists n. split; [assumption|]. rewrite (Ha _ _ Ht Hn) in Hr. subst. assumption.
    - intros [(m2 & l & q2 & Hk)|(n & Hn & Ht)]; [eapply Hb; eassumption|eapply Ha; eassumption].
  Qed.

  (* generic invariant transport *)
  Lemma term_inv (I : map -> list L -> Prop) force :
    (forall m l q' m2 q2, I m (l :: q') -> bstep force m l q' = Next m2 q2 -> I m2 q2) ->
    forall m q n m', term force m q n (Done m') -> I m q -> I m' [].
  Proof.
    intros Hstep m q n m' Ht. remember (Done m') as o eqn:Eo.
    induction Ht as [m|m l q' o Hb|m l q' m2 q2 n o Hb Ht IH]; intros HI.
    - inversion Eo; subst. assumption.
    - subst. exfalso. eapply bstep_stop_not_oof; [eassumption|reflexivity].
    - apply IH; [assumption|]. eapply Hstep; eassumption.
  Qed.

  Lemma nsteps_inv (I : map -> list L -> Prop) force :
    (forall m l q' m2 q2, I m (l :: q') -> bstep force m l q' = Next m2 q2 -> I m2 q2) ->
    forall k m q m2 q2, nsteps force k m q m2 q2 -> I m q -> I m2 q2.
  Proof.
    intros Hstep k m q m2 q2 Hn. induction Hn as [|k m l q' m2 q2 m3 q3 Hb Hn IH]; intros HI; [assumption|].
    apply IH. eapply Hstep; eassumption.
  Qed.

  Lemma run_done_term fuel force max steps m q m' :
    run fuel force max steps m q = Done m' -> exists n, term force m q n (Done m').
  Proof.
    revert steps m q. induction fuel as [|fuel IH]; intros steps m q Hr; [discriminate|].
    destruct q as [|l q']; [cbn in Hr; inversion Hr; subst; exists 0; constructor|].
    rewrite run_unfold in Hr. destruct (max <? steps); [discriminate|].
    destruct (bstep force m l q') as [m2 q2|o] eqn:Hb.
    - destruct (IH _ _ _ Hr) as (n & Ht). exists (Datatypes.S n). eapply term_next; eassumption.
    - subst. exists 1. apply term_stop; assumption.
  Qed.

  Lemma run_nobudget_done_term fuel force m q m' :
    run_nobudget fuel force m q = Done m' -> exists n, term force m q n (Done m').
  Proof.
    intros Hr. destruct (run_nobudget_term force fuel m q _ Hr) as (n & _ & Ht); [discriminate|]. exists n; assumption.
  Qed.

  (* ------------------------------------------------------------------ specification *)
  Variables succ pred : L -> list L.
  Variable entry : L.

  Inductive reach : L -> Prop :=
  | reach_entry : reach entry
  | reach_step a b : reach a -> In b (succ a) -> reach b.

  (* the engine's accessors are total on the locations it can visit, and the two neighbour
     relations are converse to each other there (property C18 for IL locations) *)
  Hypothesis from_ok : forall l, reach l -> join_from l = Ok (pred l).
  Hypothesis to_ok : forall l, reach l -> push_to l = Ok (succ l).
  Hypothesis converse : forall a b, reach a -> reach b -> (In b (succ a) <-> In a (pred b)).

  Definition In_dom (m : map) l := lookup m l <> None.

  (* "the state at l is R-related to  trans l (join of the states of those pred l that have one)" *)
  Definition holds (R : S -> S -> Prop) (m : map) (l : L) : Prop :=
    exists st new s, join_neighbours m (pred l) = Ok st /\ trans l st = Ok new /\ lookup m l = Some s /\ R new s.

  (* the data-flow equation at l, up to the engine's own notion of "unchanged" *)
  Definition eqn_ok := holds (fun new s => cmp new s = Some Eq).
  (* force = true: the stored state is the transfer result or a join of it with something *)
  Definition eqn_forced := holds (fun new s => cmp new s = Some Eq \/ exists old, join new old = Ok s).

  (* ---------- map / queue lemmas ---------- *)
  Lemma lookup_insert_same m l s : lookup (insert m l s) l = Some s.
  Proof. induction m as [|[k v] t IH]; cbn; [destruct (eqb_spec l l); congruence|].
         destruct (eqb_spec k l); cbn; destruct (eqb_spec k l); try congruence. Qed.
  Lemma lookup_insert_other m l s x : x <> l -> lookup (insert m l s) x = lookup m x.
  Proof. intros N. induction m as [|[k v] t IH]; cbn.
         - destruct (eqb_spec l x); congruence.
         - destruct (eqb_spec k l); cbn; destruct (eqb_spec k x); subst; try congruence. Qed.
  Lemma mem_In l q : mem l q = true <-> In l q.
  Proof. unfold FixedPoint.mem. rewrite existsb_exists. split.
         - intros [x [H E]]. destruct (eqb_spec l x); [subst; assumption|discriminate].
         - intros H. exists l. split; [assumption|]. destruct (eqb_spec l l); congruence. Qed.
  Lemma push_all_In q ss x : In x (push_all q ss) <-> In x q \/ In x ss.
  Proof. unfold FixedPoint.push_all. revert q. induction ss as [|s ss IH]; intros q; cbn; [tauto|].
         rewrite IH. destruct (mem s q) eqn:E.
         - apply mem_In in E. split; [tauto|]. intros [H|[->|H]]; tauto.
         - rewrite in_app_iff; cbn. tauto. Qed.
  Lemma push_all_length q ss : length (push_all q ss) <= length q + length ss.
  Proof. unfold FixedPoint.push_all. revert q. induction ss as [|s ss IH]; intros q; cbn; [lia|].
         destruct (mem s q).
         - specialize (IH q). lia.
         - specialize (IH (q ++ [s])). rewrite app_length in IH. cbn in IH. lia. Qed.
  Lemma join_neighbours_ext m m' ps : (forall p, In p ps -> lookup m' p = lookup m p) ->
    join_neighbours m' ps = join_neighbours m ps.
  Proof. unfold FixedPoint.join_neighbours. generalize (Ok None : res (option S)).
         induction ps as [|p ps IH]; intros acc H; cbn; [reflexivity|].
         assert (E: join_step m' acc p = join_step m acc p).
         { unfold FixedPoint.join_step. rewrite H by (left; reflexivity). reflexivity. }
         rewrite E. apply IH. intros; apply H; right; assumption. Qed.
  Lemma In_dom_insert m l s x : In_dom (insert m l s) x <-> x = l \/ In_dom m x.
  Proof. unfold In_dom. destruct (eqb_spec x l) as [->|N].
         - rewrite lookup_insert_same. split; [tauto|congruence].
         - rewrite lookup_insert_other by assumption. tauto. Qed.
  Lemma In_dec_L (x : L) (l : list L) : {In x l} + {~ In x l}.
  Proof. apply in_dec. intros a b. destruct (eqb_spec a b); [left|right]; assumption. Qed.

  Lemma holds_frame (R : S -> S -> Prop) m l s x : x <> l -> ~ In l (pred x) -> holds R m x -> holds R (insert m l s) x.
  Proof. intros N NP (st & new & old & H1 & H2 & H3 & H4). exists st, new, old. repeat split; try assumption.
         - rewrite <- H1. apply join_neighbours_ext. intros p Hp. apply lookup_insert_other. intro; subst; tauto.
         - rewrite lookup_insert_other; assumption. Qed.

  (* ---------- invariant 0: everything touched is reachable ---------- *)
  Definition Rch (m : map) (q : list L) : Prop := forall l, In_dom m l \/ In l q -> reach l.

  Lemma Rch_init : Rch [] [entry].
  Proof. intros l [H|[<-|[]]]; [exfalso; apply H; reflexivity|constructor]. Qed.

  Lemma Rch_step force m l q' m2 q2 : Rch m (l :: q') -> bstep force m l q' = Next m2 q2 -> Rch m2 q2.
  Proof.
    intros HR Hb. assert (Rl : reach l) by (apply HR; right; left; reflexivity).
    destruct (bstep_next _ _ _ _ _ _ Hb) as (ps & st & new & H1 & H2 & H3 & [(old & Hl & Hc & -> & ->)|(s & ss & Hp & -> & -> & Hs)]).
    - intros x [Hx|Hx]; apply HR; [left; assumption|right; right; assumption].
    - rewrite (to_ok _ Rl) in Hp. inversion Hp; subst ss.
      intros x [Hx|Hx].
      + apply In_dom_insert in Hx. destruct Hx as [->|Hx]; [assumption|apply HR; left; assumption].
      + apply push_all_In in Hx. destruct Hx as [Hx|Hx]; [apply HR; right; right; assumption|].
        apply reach_step with l; assumption.
  Qed.

  (* ---------- invariant 1: violated locations are queued; dom + queue is successor-closed ---------- *)
  Definition Inv (R : S -> S -> Prop) (m : map) (q : list L) : Prop :=
    (forall l, In_dom m l -> In l q \/ holds R m l) /\
    (forall l s, In_dom m l -> In s (succ l) -> In_dom m s \/ In s q) /\
    (In_dom m entry \/ In entry q) /\
    Rch m q.

  Lemma Inv_init (R : S -> S -> Prop) : Inv R [] [entry].
  Proof. repeat split.
    - intros l H; exfalso; apply H; reflexivity.
    - intros l s H; exfalso; apply H; reflexivity.
    - right; left; reflexivity.
    - apply Rch_init.
  Qed.

  Lemma Inv_step (R : S -> S -> Prop) force :
    (forall a b, cmp a b = Some Eq -> R a b) -> (forall s, R s s) ->
    (force = true -> forall new old j, join new old = Ok j -> R new j) ->
    forall m l q' m2 q2, Inv R m (l :: q') -> bstep force m l q' = Next m2 q2 -> Inv R m2 q2.
  Proof.
    intros REq Rrefl Rforce m l q' m2 q2 HI Hb.
    pose proof HI as (I1 & I2 & I3 & I4).
    pose proof (Rch_step _ _ _ _ _ _ I4 Hb) as I4'.
    assert (Rl : reach l) by (apply I4; right; left; reflexivity).
    destruct (bstep_next _ _ _ _ _ _ Hb) as (ps & st & new & H1 & H2 & H3 & [(old & Hl & Hc & -> & ->)|(s & ss & Hp & -> & -> & Hs)]);
      rewrite (from_ok _ Rl) in H1; inversion H1; subst ps.
    - (* Equal: continue *)
      repeat split; try assumption.
      + intros x Hx. destruct (eqb_spec x l) as [->|N].
        * right. exists st, new, old. auto.
        * destruct (I1 x Hx) as [[->|Hq]|Hok]; tauto.
      + intros x s Hx Hs. destruct (I2 x s Hx Hs) as [H|[->|H]]; [tauto| |tauto].
        left. unfold In_dom. congruence.
      + destruct I3 as [H|[->|H]]; [tauto| |tauto]. left. unfold In_dom. congruence.
    - (* store s *)
      rewrite (to_ok _ Rl) in Hp. inversion Hp; subst ss.
      assert (Rs : R new s).
      { destruct Hs as [[_ ->]|(old & _ & _ & [(_ & _ & ->)|(Hf & Hj)])]; [apply Rrefl|apply Rrefl|].
        eapply Rforce; eassumption. }
      repeat split; try assumption.
      + intros x Hx. rewrite push_all_In.
        assert (Rx : reach x) by (apply I4'; left; assumption).
        apply In_dom_insert in Hx.
        destruct (In_dec_L l (pred x)) as [Hp'|Hp'].
        { left. right. apply converse; assumption. }
        destruct (eqb_spec x l) as [->|N].
        * right. exists st, new, s. repeat split; try assumption.
          -- rewrite <- H2. apply join_neighbours_ext. intros p Hpp. apply lookup_insert_other. intro; subst; tauto.
          -- apply lookup_insert_same.
        * destruct Hx as [->|Hx]; [tauto|]. destruct (I1 x Hx) as [[->|Hq]|Hok]; [tauto|left; left; assumption|].
          right. apply holds_frame; assumption.
      + intros x s' Hx Hs'. rewrite push_all_In. apply In_dom_insert in Hx.
        destruct Hx as [->|Hx]; [right; right; assumption|].
        destruct (I2 x s' Hx Hs') as [H|[->|H]].
        * left. apply In_dom_insert. tauto.
        * left. apply In_dom_insert. tauto.
        * right. left. assumption.
      + destruct I3 as [H|[->|H]].
        * left. apply In_dom_insert. tauto.
        * left. apply In_dom_insert. tauto.
        * right. apply push_all_In. tauto.
  Qed.

  Lemma Inv_final (R : S -> S -> Prop) m : Inv R m [] -> (forall l, In_dom m l <-> reach l) /\ (forall l, In_dom m l -> holds R m l).
  Proof.
    intros (I1 & I2 & I3 & I4).
    assert (D: forall l, reach l -> In_dom m l).
    { induction 1 as [|a b Ha IHa Hb]; [destruct I3 as [H|[]]; assumption|].
      destruct (I2 a b IHa Hb) as [H|[]]; assumption. }
    split.
    - intros l; split; [intros H; apply I4; left; assumption|apply D].
    - intros l Hl. destruct (I1 l Hl) as [[]|H]; assumption.
  Qed.

  Hypothesis cmp_refl : forall s, cmp s s = Some Eq.

  (* ------------------------------------------------------------------ C09 (1): whatever is returned is a solution *)
  Lemma term_solution m n :
    term false [] [entry] n (Done m) ->
    (forall l, In_dom m l <-> reach l) /\ (forall l, In_dom m l -> eqn_ok m l).
  Proof.
    intros Ht. apply (Inv_final (fun new s => cmp new s = Some Eq)).
    refine (term_inv (Inv _) false _ _ _ _ _ Ht (Inv_init _)).
    apply Inv_step; [auto|apply cmp_refl|discriminate].
  Qed.

  Lemma term_forced force m n :
    term force [] [entry] n (Done m) ->
    (forall l, In_dom m l <-> reach l) /\ (forall l, In_dom m l -> eqn_forced m l).
  Proof.
    intros Ht. apply (Inv_final (fun new s => cmp new s = Some Eq \/ exists old, join new old = Ok s)).
    refine (term_inv (Inv _) force _ _ _ _ _ Ht (Inv_init _)).
    apply Inv_step; [auto|intros s; left; apply cmp_refl|]. intros _ new old j Hj. right. exists old. assumption.
  Qed.

  (* forward engine *)
  Theorem fp_solution fuel max m :
    run fuel false max 0 [] [entry] = Done m ->
    (forall l, In_dom m l <-> reach l) /\ (forall l, In_dom m l -> eqn_ok m l).
  Proof. intros Hr. destruct (run_done_term _ _ _ _ _ _ _ Hr) as (n & Ht). eapply term_solution; eassumption. Qed.

  (* backward engine (instantiate succ := backward, pred := forward, entry := exit location) *)
  Theorem fp_solution_nobudget fuel m :
    run_nobudget fuel false [] [entry] = Done m ->
    (forall l, In_dom m l <-> reach l) /\ (forall l, In_dom m l -> eqn_ok m l).
  Proof. intros Hr. destruct (run_nobudget_done_term _ _ _ _ _ Hr) as (n & Ht). eapply term_solution; eassumption. Qed.

  (* force = true (either engine): domain as above; each stored state is the transfer result or a join of
     it with another state *)
  Theorem fp_forced fuel force max m :
    run fuel force max 0 [] [entry] = Done m ->
    (forall l, In_dom m l <-> reach l) /\ (forall l, In_dom m l -> eqn_forced m l).
  Proof. intros Hr. destruct (run_done_term _ _ _ _ _ _ _ Hr) as (n & Ht). eapply term_forced; eassumption. Qed.

  Theorem fp_forced_nobudget fuel force m :
    run_nobudget fuel force [] [entry] = Done m ->
    (forall l, In_dom m l <-> reach l) /\ (forall l, In_dom m l -> eqn_forced m l).
  Proof. intros Hr. destruct (run_nobudget_done_term _ _ _ _ _ Hr) as (n & Ht). eapply term_forced; eassumption. Qed.

  (* the order read off partial_cmp:  a below-or-equivalent b *)
  Definition le (a b : S) : Prop := cmp a b = Some Lt \/ cmp a b = Some Eq.

  (* ... hence, when join returns upper bounds, the post-fixpoint inequality  trans l (join preds) <= m l *)
  Corollary fp_forced_postfix fuel force max m :
    (forall a b j, join a b = Ok j -> le a j) ->
    run fuel force max 0 [] [entry] = Done m ->
    forall l, In_dom m l -> holds le m l.
  Proof.
    intros Hub Hr l Hl. destruct (fp_forced _ _ _ _ Hr) as [_ H].
    destruct (H l Hl) as (st & new & s & A & B & C & [D|(old & D)]); exists st, new, s; repeat split; try assumption.
    - right; assumption.
    - eapply Hub; eassumption.
  Qed.

  Corollary fp_forced_postfix_nobudget fuel force m :
    (forall a b j, join a b = Ok j -> le a j) ->
    run_nobudget fuel force [] [entry] = Done m ->
    forall l, In_dom m l -> holds le m l.
  Proof.
    intros Hub Hr l Hl. destruct (fp_forced_nobudget _ _ _ Hr) as [_ H].
    destruct (H l Hl) as (st & new & s & A & B & C & [D|(old & D)]); exists st, new, s; repeat split; try assumption.
    - right; assumption.
    - eapply Hub; eassumption.
  Qed.

  (* ------------------------------------------------------------------ C09 (4): errors, not unsound answers *)
  (* the loop reaches (m, l :: q') and the step at l is not ascending *)
  Definition nonmono_at (m : map) (l : L) : Prop :=
    exists st new old, join_neighbours m (pred l) = Ok st /\ trans l st = Ok new /\ lookup m l = Some old /\
                       cmp new old <> Some Eq /\ cmp new old <> Some Gt.

  Lemma nsteps_then_term force k m q m2 q2 : nsteps force k m q m2 q2 ->
    forall n o, term force m2 q2 n o -> term force m q (k + n) o.
  Proof. induction 1 as [|k m l q' m2 q2 m3 q3 Hb Hn IH]; intros n o Ht; [assumption|].
         cbn. eapply term_next; [eassumption|]. apply IH; assumption. Qed.

  Lemma nsteps_Rch force k m2 q2 : nsteps force k [] [entry] m2 q2 -> Rch m2 q2.
  Proof. intros Hn. refine (nsteps_inv Rch force _ _ _ _ _ _ Hn Rch_init). apply Rch_step. Qed.

  (* a non-ascending step met after k pops makes the unbudgeted loop stop there with the ordering error *)
  Lemma nonmono_term k m l q' :
    nsteps false k [] [entry] m (l :: q') -> nonmono_at m l -> term false [] [entry] (Datatypes.S k) (Fail EOrdering).
  Proof.
    intros Hn (st & new & old & A & B & C & D & E).
    assert (Rl : reach l) by (apply (nsteps_Rch _ _ _ _ Hn); right; left; reflexivity).
    replace (Datatypes.S k) with (k + 1) by lia.
    eapply nsteps_then_term; [eassumption|]. apply term_stop.
    eapply bstep_nonmono; try eassumption. apply from_ok; assumption.
  Qed.

  (* forward engine: never Done; the ordering error if the budget reaches that pop, MaxSteps otherwise *)
  Theorem fp_error_not_unsound k m l q' max :
    nsteps false k [] [entry] m (l :: q') -> nonmono_at m l ->
    run (Datatypes.S (Datatypes.S max)) false max 0 [] [entry] =
      (if k <=? max then Fail EOrdering else Fail EMaxSteps) /\
    (forall fuel max' m', run fuel false max' 0 [] [entry] <> Done m').
  Proof.
    intros Hn Hnm. pose proof (nonmono_term _ _ _ _ Hn Hnm) as Ht. split.
    - destruct (Nat.leb_spec k max) as [Hk|Hk].
      + apply (term_run _ _ _ _ _ Ht); lia.
      + destruct (fp_budget false max [] [entry]) as (Ha & Hb & [(n & o & Hle & Ht')|(m2 & l2 & q2 & Hs)]).
        * destruct (term_det _ _ _ _ _ Ht _ _ Ht') as [<- _]. lia.
        * eapply Hb; eassumption.
    - intros fuel max' m' Hr. destruct (run_done_term _ _ _ _ _ _ _ Hr) as (n & Ht').
      destruct (term_det _ _ _ _ _ Ht _ _ Ht') as [_ Habs]. discriminate.
  Qed.

  Theorem fp_error_not_unsound_nobudget k m l q' :
    nsteps false k [] [entry] m (l :: q') -> nonmono_at m l ->
    forall fuel, run_nobudget fuel false [] [entry] = (if k <? fuel then Fail EOrdering else OutOfFuel).
  Proof.
    intros Hn Hnm fuel. pose proof (nonmono_term _ _ _ _ Hn Hnm) as Ht.
    destruct (Nat.ltb_spec k fuel) as [Hk|Hk].
    - apply (term_run_nobudget_err _ _ _ _ _ Ht); [discriminate|lia].
    - destruct (run_nobudget fuel false [] [entry]) as [m'|e| |] eqn:Hr; try reflexivity;
        (destruct (run_nobudget_term false fuel _ _ _ Hr) as (n & Hlt & Ht'); [discriminate|]);
        destruct (term_det _ _ _ _ _ Ht _ _ Ht') as [<- _]; lia.
  Qed.

  (* conversely an ordering error is only ever raised at a non-ascending step, provided the analysis
     does not itself return that error kind *)
  Theorem fp_ordering_origin n :
    (forall l st, trans l st <> Err EOrdering) ->
    term false [] [entry] n (Fail EOrdering) ->
    exists k m l q', n = Datatypes.S k /\ nsteps false k [] [entry] m (l :: q') /\ nonmono_at m l.
  Proof.
    intros Htr. generalize (Rch_init). generalize ([entry]) as q. generalize ([] : map) as m.
    intros m q HR Ht. remember (Fail EOrdering : outcome) as o eqn:Eo.
    induction Ht as [m|m l q' o Hb|m l q' m2 q2 n o Hb Ht IH].
    - discriminate.
    - subst o. assert (Rl : reach l) by (apply HR; right; left; reflexivity).
      exists 0, m, l, q'. split; [reflexivity|]. split; [constructor|].
      destruct (bstep_ordering_inv _ _ _ Hb) as [H|[H|[(ps & st & _ & _ & H)|[(ps & H1 & H)|(ps & st & new & old & H1 & H2 & H3 & H4 & H5 & H6)]]]].
      + rewrite (from_ok _ Rl) in H; discriminate.
      + rewrite (to_ok _ Rl) in H; discriminate.
      + exfalso; eapply Htr; eassumption.
      + exfalso. clear -H. unfold FixedPoint.join_neighbours in H.
        assert (G : forall ps acc, acc <> Err EOrdering -> fold_left (join_step m) ps acc <> Err EOrdering).
        { clear. induction ps as [|p ps IHp]; intros acc Ha; cbn; [assumption|]. apply IHp.
          unfold FixedPoint.join_step. destruct acc as [s|e|]; try assumption; try discriminate.
          destruct (lookup m p); [|discriminate]. destruct s; [|discriminate]. destruct (join s s0); discriminate. }
        eapply G; [|eassumption]. discriminate.
      + rewrite (from_ok _ Rl) in H1. inversion H1; subst ps. exists st, new, old. auto.
    - destruct (IH (Rch_step _ _ _ _ _ _ HR Hb) Eo) as (k & m3 & l3 & q3 & -> & Hn & Hnm).
      exists (Datatypes.S k), m3, l3, q3. split; [reflexivity|]. split; [|assumption]. eapply ns_S; eassumption.
  Qed.

  (* ------------------------------------------------------------------ C09 (3): termination from finite height *)
  Section Termination.
    Variable force : bool.
    (* "finite height h": a rank bounded by h that strictly grows along every step the engine stores *)
    Variable rank : S -> nat.
    Variable h : nat.
    Hypothesis rank_le : forall s, rank s <= h.
    Hypothesis rank_gt : forall a b, cmp a b = Some Gt -> rank b < rank a.
    (* only needed for force = true: the forced join must strictly grow.  (It does not follow from lattice
       laws: with new < old the join is old again, and a self-loop then spins until the budget is gone.) *)
    Hypothesis rank_force : force = true ->
      forall new old j, cmp new old <> Some Eq -> join new old = Ok j -> rank old < rank j.
    (* n locations, out-degree <= d *)
    Variable U : list L.
    Hypothesis U_nodup : NoDup U.
    Hypothesis U_reach : forall l, reach l -> In l U.
    Variable d : nat.
    Hypothesis deg : forall l, reach l -> length (succ l) <= d.

    Definition weight (m : map) (l : L) : nat :=
      match lookup m l with None => Datatypes.S h | Some s => h - rank s end.
    Definition phi (m : map) : nat := list_sum (List.map (weight m) U).
    Definition mu (m : map) (q : list L) : nat := d * phi m + length q.

    Lemma sum_decr (f g : L -> nat) l (V : list L) :
      NoDup V -> In l V -> (forall x, x <> l -> g x = f x) -> g l < f l ->
      list_sum (List.map g V) < list_sum (List.map f V).
    Proof.
      intros ND Hin Hext Hlt. unfold list_sum. induction V as [|a V IH]; [destruct Hin|].
      inversion ND as [|? ? Hna ND']; subst. cbn [List.map fold_right].
      destruct (eqb_spec a l) as [->|Na].
      - assert (E : List.map g V = List.map f V).
        { apply map_ext_in. intros x Hx. apply Hext. intro; subst; tauto. }
        rewrite E. lia.
      - destruct Hin as [->|Hin]; [congruence|]. rewrite (Hext a Na). specialize (IH ND' Hin). lia.
    Qed.

    Lemma phi_store m l new s : reach l -> stored force m l new s -> phi (insert m l s) < phi m.
    Proof.
      intros Rl Hs. unfold phi. apply sum_decr with (l := l); [assumption|apply U_reach; assumption| |].
      - intros x Nx. unfold weight. rewrite lookup_insert_other by assumption. reflexivity.
      - unfold weight. rewrite lookup_insert_same.
        destruct Hs as [[Hl ->]|(old & Hl & Hc & [(_ & Hgt & ->)|(Hf & Hj)])]; rewrite Hl.
        + pose proof (rank_le new). lia.
        + pose proof (rank_gt _ _ Hgt). pose proof (rank_le new). lia.
        + pose proof (rank_force Hf _ _ _ Hc Hj). pose proof (rank_le s). lia.
    Qed.

    Lemma mu_step m l q' m2 q2 : Rch m (l :: q') -> bstep force m l q' = Next m2 q2 -> mu m2 q2 < mu m (l :: q').
    Proof.
      intros HR Hb. assert (Rl : reach l) by (apply HR; right; left; reflexivity).
      destruct (bstep_next _ _ _ _ _ _ Hb) as (ps & st & new & H1 & H2 & H3 & [(old & Hl & Hc & -> & ->)|(s & ss & Hp & -> & -> & Hs)]).
      - unfold mu. cbn [length]. lia.
      - rewrite (to_ok _ Rl) in Hp. inversion Hp; subst ss.
        pose proof (phi_store _ _ _ _ Rl Hs) as Hphi. pose proof (push_all_length q' (succ l)) as Hlen.
        pose proof (deg _ Rl) as Hd. unfold mu. cbn [length].
        assert (d * phi (insert m l s) + d <= d * phi m) by nia. lia.
    Qed.

    Lemma term_exists : forall k m q, Rch m q -> mu m q <= k -> exists n o, n <= k /\ term force m q n o.
    Proof.
      induction k as [|k IH]; intros m q HR Hk.
      - destruct q as [|l q']; [exists 0, (Done m); split; [lia|constructor]|]. unfold mu in Hk. cbn [length] in Hk. lia.
      - destruct q as [|l q']; [exists 0, (Done m); split; [lia|constructor]|].
        destruct (bstep force m l q') as [m2 q2|o] eqn:Hb.
        + pose proof (mu_step _ _ _ _ _ HR Hb) as Hlt.
          destruct (IH m2 q2 (Rch_step _ _ _ _ _ _ HR Hb)) as (n & o & Hn & Ht); [lia|].
          exists (Datatypes.S n), o. split; [lia|]. eapply term_next; eassumption.
        + exists 1, o. split; [lia|]. apply term_stop; assumption.
    Qed.

    Lemma phi_nil : phi [] = length U * Datatypes.S h.
    Proof. unfold phi, weight, list_sum. cbn [FixedPoint.lookup]. clear U_nodup U_reach.
           induction U as [|a V IH]; [reflexivity|]. cbn [List.map fold_right length]. rewrite IH. lia. Qed.

    (* the loop stops within  1 + d * n * (h+1)  pops *)
    Theorem fp_terminates :
      exists n o, n <= 1 + d * (length U * Datatypes.S h) /\ term force [] [entry] n o.
    Proof. apply term_exists; [apply Rch_init|]. unfold mu. rewrite phi_nil. cbn [length]. lia. Qed.

    (* hence a budget of at least that many pops never causes MaxSteps: the forward engine returns the
       outcome of the unbudgeted loop *)
    Corollary fp_budget_suffices max :
      1 + d * (length U * Datatypes.S h) <= Datatypes.S max ->
      exists n o, term force [] [entry] n o /\ run (Datatypes.S (Datatypes.S max)) force max 0 [] [entry] = o.
    Proof.
      intros Hm. destruct fp_terminates as (n & o & Hn & Ht). exists n, o. split; [assumption|].
      apply (term_run _ _ _ _ _ Ht); lia.
    Qed.

    Corollary fp_no_maxsteps max :
      (forall l st, trans l st <> Err EMaxSteps) -> (forall a b, join a b <> Err EMaxSteps) ->
      1 + d * (length U * Datatypes.S h) <= Datatypes.S max ->
      run (Datatypes.S (Datatypes.S max)) force max 0 [] [entry] <> Fail EMaxSteps.
    Proof.
      intros Htr Hjn Hm. destruct (fp_budget_suffices max Hm) as (n & o & Ht & ->). intros ->.
      clear Hm. revert Ht. generalize Rch_init. generalize ([entry]). generalize ([] : map).
      intros m q HR Ht. remember (Fail EMaxSteps : outcome) as o eqn:Eo.
      induction Ht as [m|m l q' o Hb|m l q' m2 q2 n o Hb Ht IH]; [discriminate| |].
      - subst o. assert (Rl : reach l) by (apply HR; right; left; reflexivity).
        unfold bstep in Hb. rewrite (from_ok _ Rl), (to_ok _ Rl) in Hb.
        destruct (join_neighbours m (pred l)) as [st|e|] eqn:Hj; try discriminate.
        + destruct (trans l st) as [new|e|] eqn:Ht; try discriminate.
          * destruct (lookup m l) as [old|]; [|discriminate].
            destruct (cmp new old) as [[| |]|]; try discriminate; destruct force; try discriminate;
              destruct (join new old) as [j|e|] eqn:Hjn'; try discriminate; inversion Hb; subst; eapply Hjn; eassumption.
          * inversion Hb; subst. eapply Htr; eassumption.
        + exfalso. inversion Hb; subst. clear -Hj. unfold FixedPoint.join_neighbours in Hj.
          assert (G : forall ps acc, acc <> Err EMaxSteps -> fold_left (join_step m) ps acc <> Err EMaxSteps).
          { clear. induction ps as [|p ps IHp]; intros acc Ha; cbn; [assumption|]. apply IHp.
            unfold FixedPoint.join_step. destruct acc as [s|e|]; try assumption; try discriminate.
            destruct (lookup m p); [|discriminate]. destruct s; [|discriminate]. destruct (join s s0); discriminate. }
          eapply G; [|eassumption]. discriminate.
      - apply IH; [eapply Rch_step; eassumption|assumption].
    Qed.

    (* backward engine: termination from finite height alone *)
    Corollary fp_terminates_nobudget fuel :
      1 + d * (length U * Datatypes.S h) < fuel -> run_nobudget fuel force [] [entry] <> OutOfFuel.
    Proof.
      intros Hf. destruct fp_terminates as (n & o & Hn & Ht).
      rewrite (term_run_nobudget _ _ _ _ _ Ht) by lia. eapply term_not_oof; eassumption.
    Qed.
  End Termination.

  (* ------------------------------------------------------------------ the input None is only seen at the entry *)
  Definition Fed (m : map) (q : list L) : Prop :=
    forall l, In l q -> l = entry \/ exists p, In p (pred l) /\ In_dom m p.

  Lemma Fed_init : Fed [] [entry].
  Proof. intros l [<-|[]]. left; reflexivity. Qed.

  Lemma Fed_step force m l q' m2 q2 : Rch m (l :: q') -> Fed m (l :: q') -> bstep force m l q' = Next m2 q2 -> Fed m2 q2.
  Proof.
    intros HR HF Hb. assert (Rl : reach l) by (apply HR; right; left; reflexivity).
    destruct (bstep_next _ _ _ _ _ _ Hb) as (ps & st & new & H1 & H2 & H3 & [(old & Hl & Hc & -> & ->)|(s & ss & Hp & -> & -> & Hs)]).
    - intros x Hx. apply HF. right; assumption.
    - rewrite (to_ok _ Rl) in Hp. inversion Hp; subst ss.
      intros x Hx. apply push_all_In in Hx. destruct Hx as [Hx|Hx].
      + destruct (HF x (or_intror Hx)) as [->|(p & Hp1 & Hp2)]; [left; reflexivity|].
        right. exists p. split; [assumption|]. apply In_dom_insert. tauto.
      + right. exists l. split.
        * apply converse; [assumption|eapply reach_step; eassumption|assumption].
        * apply In_dom_insert. tauto.
  Qed.

  Lemma fold_stuck m ps (r : res (option S)) : (forall st, r <> Ok st) -> forall st, fold_left (join_step m) ps r <> Ok st.
  Proof. revert r. induction ps as [|p ps IH]; intros r Hr st; cbn; [apply Hr|]. apply IH.
         intros st'. unfold FixedPoint.join_step. destruct r; try discriminate. exfalso; eapply Hr; reflexivity. Qed.

  Lemma join_neighbours_some m ps st :
    (exists p, In p ps /\ In_dom m p) -> join_neighbours m ps = Ok st -> st <> None.
  Proof.
    unfold FixedPoint.join_neighbours.
    assert (G : forall ps acc st, (acc <> None \/ exists p, In p ps /\ In_dom m p) ->
                fold_left (join_step m) ps (Ok acc) = Ok st -> st <> None).
    { clear ps st. induction ps as [|p ps IH]; intros acc st Hc Hf.
      - cbn in Hf. inversion Hf; subst. destruct Hc as [H|(p & [] & _)]; assumption.
      - cbn [fold_left] in Hf. unfold FixedPoint.join_step at 2 in Hf.
        destruct (lookup m p) as [a|] eqn:Hl.
        + destruct acc as [s0|].
          * destruct (join s0 a) as [j|e|]; [|exfalso; eapply fold_stuck; [|exact Hf]; discriminate ..].
            eapply IH; [|exact Hf]. left; discriminate.
          * eapply IH; [|exact Hf]. left; discriminate.
        + eapply IH; [|exact Hf]. destruct Hc as [H|(p0 & [->|Hin] & Hd)]; [left; assumption| |right; exists p0; auto].
          exfalso. apply Hd. assumption. }
    intros Hex. apply G. right; assumption.
  Qed.

  (* whenever the engine evaluates  trans l None,  l is the entry location *)
  Theorem none_only_at_entry force k m l q' :
    nsteps force k [] [entry] m (l :: q') -> join_neighbours m (pred l) = Ok None -> l = entry.
  Proof.
    intros Hn Hj.
    assert (HI : Rch m (l :: q') /\ Fed m (l :: q')).
    { refine (nsteps_inv (fun m q => Rch m q /\ Fed m q) force _ _ _ _ _ _ Hn (conj Rch_init Fed_init)).
      intros m0 l0 q0 m2 q2 [A B] Hb. split; [eapply Rch_step|eapply Fed_step]; eassumption. }
    destruct HI as [_ HF]. destruct (HF l (or_introl eq_refl)) as [->|Hex]; [reflexivity|].
    exfalso. eapply join_neighbours_some; eauto.
  Qed.

  (* ------------------------------------------------------------------ C09 (2): the result is below every post-fixpoint *)
  Definition ole (x y : option S) : Prop :=
    match x, y with None, _ => True | Some a, Some b => le a b | Some _, None => False end.
  (* m is pointwise below m' *)
  Definition Below (m' m : map) : Prop :=
    forall l s, lookup m l = Some s -> exists s', lookup m' l = Some s' /\ le s s'.

  (* The lattice hypotheses are only required of the states in a set [good] that contains every state the
     engine can produce (closed under trans and join); [good := fun _ => True] gives the plain statements. *)
  Section Rel.
    Variable good : S -> Prop.
    Definition ogood (x : option S) : Prop := forall s, x = Some s -> good s.
    Definition Good (m : map) : Prop := forall l s, lookup m l = Some s -> good s.
    Hypothesis good_trans : forall l st a, reach l -> (st = None -> l = entry) -> ogood st -> trans l st = Ok a -> good a.
    Hypothesis good_join : forall a b j, good a -> good b -> join a b = Ok j -> good j.
    (* partial_cmp induces a preorder  le;  join returns least upper bounds; trans is monotone, the absent
       input None being below everything -- required only where the engine can present None: at the entry *)
    Hypothesis le_trans : forall a b c, good a -> good b -> good c -> le a b -> le b c -> le a c.
    Hypothesis join_lub : forall a b j, good a -> good b -> join a b = Ok j ->
      le a j /\ le b j /\ (forall c, good c -> le a c -> le b c -> le j c).
    Hypothesis trans_mono : forall l x y a b, reach l -> (x = None -> l = entry) -> ogood x -> ogood y -> ole x y ->
      trans l x = Ok a -> trans l y = Ok b -> le a b.

    Lemma ogood_some s : good s -> ogood (Some s).
    Proof. intros H s' [= <-]. assumption. Qed.
    Lemma ogood_none : ogood None.
    Proof. intros s' H; discriminate. Qed.

    Lemma join_neighbours_good m ps st : Good m -> join_neighbours m ps = Ok st -> ogood st.
    Proof.
      intros HG. unfold FixedPoint.join_neighbours.
      assert (G : forall ps acc st, ogood acc -> fold_left (join_step m) ps (Ok acc) = Ok st -> ogood st).
      { clear ps st. induction ps as [|p ps IH]; intros acc st Ha Hf.
        - cbn in Hf. inversion Hf; subst. assumption.
        - cbn [fold_left] in Hf. unfold FixedPoint.join_step at 2 in Hf.
          destruct (lookup m p) as [a|] eqn:Hl; [|eapply IH; eassumption].
          destruct acc as [s0|].
          + destruct (join s0 a) as [j|e|] eqn:Hj; [|exfalso; eapply fold_stuck; [|exact Hf]; discriminate ..].
            eapply IH; [|exact Hf]. apply ogood_some. eapply good_join; [apply Ha; reflexivity|eapply HG; eassumption|eassumption].
          + eapply IH; [|exact Hf]. apply ogood_some. eapply HG; eassumption. }
      apply G. apply ogood_none.
    Qed.

    Lemma join_neighbours_mono m' m ps : Good m -> Good m' -> Below m' m ->
      forall acc acc' st st', ogood acc -> ogood acc' -> ole acc acc' ->
        fold_left (join_step m) ps (Ok acc) = Ok st -> fold_left (join_step m') ps (Ok acc') = Ok st' -> ole st st'.
    Proof.
      intros HG HG' HB. induction ps as [|p ps IH]; intros acc acc' st st' Ga Ga' Ho Hf Hf'.
      - cbn in Hf, Hf'. inversion Hf; inversion Hf'; subst. assumption.
      - cbn [fold_left] in Hf, Hf'. unfold FixedPoint.join_step at 2 in Hf. unfold FixedPoint.join_step at 2 in Hf'.
        destruct (lookup m p) as [a|] eqn:Hl.
        + destruct (HB _ _ Hl) as (a' & Hl' & Haa'). rewrite Hl' in Hf'.
          pose proof (HG _ _ Hl) as Ka. pose proof (HG' _ _ Hl') as Ka'.
          destruct acc as [s0|]; destruct acc' as [s0'|]; cbn in Ho; try contradiction.
          * pose proof (Ga _ eq_refl) as K0. pose proof (Ga' _ eq_refl) as K0'.
            destruct (join s0 a) as [j|e|] eqn:Hj; [|exfalso; eapply fold_stuck; [|exact Hf]; discriminate ..].
            destruct (join s0' a') as [j'|e|] eqn:Hj'; [|exfalso; eapply fold_stuck; [|exact Hf']; discriminate ..].
            pose proof (good_join _ _ _ K0 Ka Hj) as Kj. pose proof (good_join _ _ _ K0' Ka' Hj') as Kj'.
            eapply IH; [apply ogood_some; exact Kj|apply ogood_some; exact Kj'| |exact Hf|exact Hf']. cbn.
            destruct (join_lub _ _ _ K0 Ka Hj) as (_ & _ & Hlub). destruct (join_lub _ _ _ K0' Ka' Hj') as (U1 & U2 & _).
            apply Hlub; [assumption|eapply (le_trans s0 s0' j')|eapply (le_trans a a' j')]; assumption.
          * pose proof (Ga' _ eq_refl) as K0'.
            destruct (join s0' a') as [j'|e|] eqn:Hj'; [|exfalso; eapply fold_stuck; [|exact Hf']; discriminate ..].
            pose proof (good_join _ _ _ K0' Ka' Hj') as Kj'.
            eapply IH; [apply ogood_some; exact Ka|apply ogood_some; exact Kj'| |exact Hf|exact Hf']. cbn.
            destruct (join_lub _ _ _ K0' Ka' Hj') as (_ & U2 & _). eapply (le_trans a a' j'); assumption.
          * eapply IH; [apply ogood_some; exact Ka|apply ogood_some; exact Ka'| |exact Hf|exact Hf']. cbn. assumption.
        + destruct (lookup m' p) as [a'|] eqn:Hl'.
          * pose proof (HG' _ _ Hl') as Ka'. destruct acc' as [s0'|].
            -- pose proof (Ga' _ eq_refl) as K0'.
               destruct (join s0' a') as [j'|e|] eqn:Hj'; [|exfalso; eapply fold_stuck; [|exact Hf']; discriminate ..].
               pose proof (good_join _ _ _ K0' Ka' Hj') as Kj'.
               eapply IH; [exact Ga|apply ogood_some; exact Kj'| |exact Hf|exact Hf']. destruct acc as [s0|]; cbn in *; [|exact I].
               destruct (join_lub _ _ _ K0' Ka' Hj') as (U1 & _ & _). eapply (le_trans s0 s0' j'); try assumption. apply Ga; reflexivity.
            -- eapply IH; [exact Ga|apply ogood_some; exact Ka'| |exact Hf|exact Hf']. destruct acc as [s0|]; cbn in *; [contradiction|exact I].
          * eapply IH; [exact Ga|exact Ga'| |exact Hf|exact Hf']. assumption.
    Qed.

    Lemma Good_step force m l q' m2 q2 :
      Rch m (l :: q') -> Fed m (l :: q') -> Good m -> bstep force m l q' = Next m2 q2 -> Good m2.
    Proof.
      intros HR HF HG Hb. assert (Rl : reach l) by (apply HR; right; left; reflexivity).
      destruct (bstep_next _ _ _ _ _ _ Hb) as (ps & st & new & H1 & H2 & H3 & [(old & Hl & Hc & -> & ->)|(s & ss & Hp & -> & -> & Hs)]);
        [assumption|].
      rewrite (from_ok _ Rl) in H1. inversion H1; subst ps.
      assert (Kn : good new).
      { eapply (good_trans l st); try eassumption.
        - intros ->. destruct (HF l (or_introl eq_refl)) as [->|Hex]; [reflexivity|].
          exfalso. eapply join_neighbours_some; eauto.
        - eapply join_neighbours_good; eassumption. }
      assert (Ks : good s).
      { destruct Hs as [[_ ->]|(old & Hl & _ & [(_ & _ & ->)|(_ & Hj)])]; try assumption.
        eapply good_join; [exact Kn|eapply HG; exact Hl|exact Hj]. }
      intros x sx Hx. destruct (eqb_spec x l) as [->|N].
      - rewrite lookup_insert_same in Hx. inversion Hx; subst sx. assumption.
      - rewrite lookup_insert_other in Hx by assumption. eapply HG; eassumption.
    Qed.

    Lemma Good_nil : Good [].
    Proof. intros l s Hl; discriminate. Qed.

    Section Least.
      (* any post-fixpoint of the equations on the reachable locations (in particular any solution) *)
      Variable m' : map.
      Hypothesis m'_good : Good m'.
      Hypothesis m'_post : forall l, reach l -> holds le m' l.

      Lemma Below_step force m l q' m2 q2 :
        Rch m (l :: q') -> Fed m (l :: q') -> Good m -> Below m' m -> bstep force m l q' = Next m2 q2 -> Below m' m2.
      Proof.
        intros HR HF HG HB Hb. assert (Rl : reach l) by (apply HR; right; left; reflexivity).
        destruct (bstep_next _ _ _ _ _ _ Hb) as (ps & st & new & H1 & H2 & H3 & [(old & Hl & Hc & -> & ->)|(s & ss & Hp & -> & -> & Hs)]);
          [assumption|].
        rewrite (from_ok _ Rl) in H1. inversion H1; subst ps.
        destruct (m'_post l Rl) as (st' & new' & s' & P1 & P2 & P3 & P4).
        assert (Hg : st = None -> l = entry).
        { intros ->. destruct (HF l (or_introl eq_refl)) as [->|Hex]; [reflexivity|].
          exfalso. eapply join_neighbours_some; eauto. }
        pose proof (join_neighbours_good _ _ _ HG H2) as Gst. pose proof (join_neighbours_good _ _ _ m'_good P1) as Gst'.
        assert (Ho : ole st st').
        { eapply (join_neighbours_mono m' m (pred l) HG m'_good HB None None); [apply ogood_none|apply ogood_none|exact I|exact H2|exact P1]. }
        assert (Hg' : st' = None -> l = entry).
        { intros ->. apply Hg. destruct st; [contradiction|reflexivity]. }
        pose proof (good_trans _ _ _ Rl Hg Gst H3) as Kn. pose proof (good_trans _ _ _ Rl Hg' Gst' P2) as Kn'.
        pose proof (m'_good _ _ P3) as Ks'.
        assert (Hnew : le new s').
        { eapply (le_trans new new' s'); try assumption. apply (trans_mono l st st'); assumption. }
        assert (Hs' : le s s').
        { destruct Hs as [[_ ->]|(old & Hl & _ & [(_ & _ & ->)|(_ & Hj)])]; try assumption.
          destruct (HB _ _ Hl) as (s'' & E & Hold). rewrite P3 in E. inversion E; subst s''.
          destruct (join_lub _ _ _ Kn (HG _ _ Hl) Hj) as (_ & _ & Hlub). apply Hlub; assumption. }
        intros x sx Hx. destruct (eqb_spec x l) as [->|N].
        - rewrite lookup_insert_same in Hx. inversion Hx; subst sx. exists s'. auto.
        - rewrite lookup_insert_other in Hx by assumption. apply HB; assumption.
      Qed.

      Lemma term_least force n m : term force [] [entry] n (Done m) -> Below m' m.
      Proof.
        intros Ht.
        assert (HI : Rch m [] /\ Fed m [] /\ Good m /\ Below m' m).
        { refine (term_inv (fun m q => Rch m q /\ Fed m q /\ Good m /\ Below m' m) force _ _ _ _ _ Ht _).
          - intros m0 l0 q0 m2 q2 (A & B & C & D) Hb. split; [eapply Rch_step; eassumption|].
            split; [eapply Fed_step; eassumption|]. split; [eapply Good_step; eassumption|eapply Below_step; eassumption].
          - split; [apply Rch_init|]. split; [apply Fed_init|]. split; [apply Good_nil|]. intros l s Hl; discriminate. }
        tauto.
      Qed.

      Theorem fp_least_rel fuel force max m : run fuel force max 0 [] [entry] = Done m -> Below m' m.
      Proof. intros Hr. destruct (run_done_term _ _ _ _ _ _ _ Hr) as (n & Ht). eapply term_least; eassumption. Qed.

      Theorem fp_least_rel_nobudget fuel force m : run_nobudget fuel force [] [entry] = Done m -> Below m' m.
      Proof. intros Hr. destruct (run_nobudget_done_term _ _ _ _ _ Hr) as (n & Ht). eapply term_least; eassumption. Qed.
    End Least.

    (* every state the engine returns is good *)
    Theorem fp_good fuel force max m : run fuel force max 0 [] [entry] = Done m -> Good m.
    Proof.
      intros Hr. destruct (run_done_term _ _ _ _ _ _ _ Hr) as (n & Ht).
      assert (HI : Rch m [] /\ Fed m [] /\ Good m).
      { refine (term_inv (fun m q => Rch m q /\ Fed m q /\ Good m) force _ _ _ _ _ Ht _).
        - intros m0 l0 q0 m2 q2 (A & B & C) Hb. split; [eapply Rch_step; eassumption|].
          split; [eapply Fed_step; eassumption|eapply Good_step; eassumption].
        - split; [apply Rch_init|]. split; [apply Fed_init|apply Good_nil]. }
      tauto.
    Qed.

    (* ---------------------------------------------------------------- termination with the rank only on good states *)
    Section TermRel.
      Variable rank : S -> nat.
      Variable h : nat.
      Hypothesis rank_le : forall s, good s -> rank s <= h.
      Hypothesis rank_gt : forall a b, good a -> good b -> cmp a b = Some Gt -> rank b < rank a.
      Variable U : list L.
      Hypothesis U_nodup : NoDup U.
      Hypothesis U_reach : forall l, reach l -> In l U.
      Variable d : nat.
      Hypothesis deg : forall l, reach l -> length (succ l) <= d.

      Lemma mu_step_rel m l q' m2 q2 :
        Rch m (l :: q') -> Fed m (l :: q') -> Good m -> bstep false m l q' = Next m2 q2 ->
        mu rank h U d m2 q2 < mu rank h U d m (l :: q').
      Proof.
        intros HR HF HG Hb. assert (Rl : reach l) by (apply HR; right; left; reflexivity).
        destruct (bstep_next _ _ _ _ _ _ Hb) as (ps & st & new & H1 & H2 & H3 & [(old & Hl & Hc & -> & ->)|(s & ss & Hp & -> & -> & Hs)]).
        - unfold mu. cbn [length]. lia.
        - rewrite (from_ok _ Rl) in H1. inversion H1; subst ps.
          rewrite (to_ok _ Rl) in Hp. inversion Hp; subst ss.
          assert (Kn : good new).
          { eapply (good_trans l st); try eassumption.
            - intros ->. destruct (HF l (or_introl eq_refl)) as [->|Hex]; [reflexivity|].
              exfalso. eapply join_neighbours_some; eauto.
            - eapply join_neighbours_good; eassumption. }
          assert (Hphi : phi rank h U (insert m l s) < phi rank h U m).
          { unfold phi. apply sum_decr with (l := l); [assumption|apply U_reach; assumption| |].
            - intros x Nx. unfold weight. rewrite lookup_insert_other by assumption. reflexivity.
            - unfold weight. rewrite lookup_insert_same.
              destruct Hs as [[Hl ->]|(old & Hl & Hc & [(_ & Hgt & ->)|(Hf & _)])]; [rewrite Hl; lia| |discriminate].
              rewrite Hl. pose proof (rank_gt _ _ Kn (HG _ _ Hl) Hgt). pose proof (rank_le _ Kn). lia. }
          pose proof (push_all_length q' (succ l)) as Hlen. pose proof (deg _ Rl) as Hd. unfold mu. cbn [length].
          assert (d * phi rank h U (insert m l s) + d <= d * phi rank h U m) by nia. lia.
      Qed.

      Lemma term_exists_rel : forall k m q, Rch m q -> Fed m q -> Good m -> mu rank h U d m q <= k ->
        exists n o, n <= k /\ term false m q n o.
      Proof.
        induction k as [|k IH]; intros m q HR HF HG Hk.
        - destruct q as [|l q']; [exists 0, (Done m); split; [lia|constructor]|]. unfold mu in Hk. cbn [length] in Hk. lia.
        - destruct q as [|l q']; [exists 0, (Done m); split; [lia|constructor]|].
          destruct (bstep false m l q') as [m2 q2|o] eqn:Hb.
          + pose proof (mu_step_rel _ _ _ _ _ HR HF HG Hb) as Hlt.
            destruct (IH m2 q2 (Rch_step _ _ _ _ _ _ HR Hb) (Fed_step _ _ _ _ _ _ HR HF Hb) (Good_step _ _ _ _ _ _ HR HF HG Hb))
              as (n & o & Hn & Ht); [lia|].
            exists (Datatypes.S n), o. split; [lia|]. eapply term_next; eassumption.
          + exists 1, o. split; [lia|]. apply term_stop; assumption.
      Qed.

      (* fp_terminates (force = false) with the finite-height hypotheses required on good states only *)
      Theorem fp_terminates_rel :
        exists n o, n <= 1 + d * (length U * Datatypes.S h) /\ term false [] [entry] n o.
      Proof.
        apply term_exists_rel; [apply Rch_init|apply Fed_init|apply Good_nil|].
        unfold mu. rewrite phi_nil. cbn [length]. lia.
      Qed.

      Corollary fp_budget_suffices_rel max :
        1 + d * (length U * Datatypes.S h) <= Datatypes.S max ->
        exists n o, term false [] [entry] n o /\ run (Datatypes.S (Datatypes.S max)) false max 0 [] [entry] = o.
      Proof.
        intros Hm. destruct fp_terminates_rel as (n & o & Hn & Ht). exists n, o. split; [assumption|].
        apply (term_run _ _ _ _ _ Ht); lia.
      Qed.

      Corollary fp_terminates_rel_nobudget fuel :
        1 + d * (length U * Datatypes.S h) < fuel -> run_nobudget fuel false [] [entry] <> OutOfFuel.
      Proof.
        intros Hf. destruct fp_terminates_rel as (n & o & Hn & Ht).
        rewrite (term_run_nobudget _ _ _ _ _ Ht) by lia. eapply term_not_oof; eassumption.
      Qed.
    End TermRel.

    (* ---------------------------------------------------------------- monotone analyses complete without error *)
    Section Complete.
      (* partial_cmp reports a state that is above the old one as Greater or Equal *)
      Hypothesis cmp_ge : forall a b, good a -> good b -> le b a -> cmp a b = Some Gt \/ cmp a b = Some Eq.
      Hypothesis join_total : forall a b, good a -> good b -> exists j, join a b = Ok j.
      Hypothesis trans_total : forall l st, reach l -> (st = None -> l = entry) -> ogood st -> exists s, trans l st = Ok s.

      (* every stored state is below the transfer of the current join of its neighbours *)
      Definition Asc (m : map) : Prop :=
        forall l s, lookup m l = Some s ->
          exists st new, join_neighbours m (pred l) = Ok st /\ (st = None -> l = entry) /\ trans l st = Ok new /\ le s new.

      Lemma join_neighbours_total m ps : Good m -> exists st, join_neighbours m ps = Ok st.
      Proof.
        intros HG. unfold FixedPoint.join_neighbours. generalize ogood_none. generalize (None : option S).
        induction ps as [|p ps IH]; intros acc Ga; cbn [fold_left]; [eexists; reflexivity|].
        unfold FixedPoint.join_step at 2. destruct (lookup m p) as [a|] eqn:Hl; [|apply IH; assumption].
        destruct acc as [s0|]; [|apply IH; apply ogood_some; eapply HG; eassumption].
        destruct (join_total s0 a (Ga _ eq_refl) (HG _ _ Hl)) as (j & Hj). rewrite Hj. apply IH.
        apply ogood_some. eapply good_join; [apply Ga; reflexivity|eapply HG; eassumption|eassumption].
      Qed.

      Lemma Asc_store m l st new :
        Asc m -> Good m -> good new -> (forall x, In_dom (insert m l new) x -> reach x) ->
        (forall old, lookup m l = Some old -> le old new) ->
        join_neighbours m (pred l) = Ok st -> (st = None -> l = entry) -> trans l st = Ok new ->
        Asc (insert m l new).
      Proof.
        intros HA HG Kn HR Hold Hj Hg Ht.
        assert (HG2 : Good (insert m l new)).
        { intros x sx Hx. destruct (eqb_spec x l) as [->|N].
          - rewrite lookup_insert_same in Hx. inversion Hx; subst; assumption.
          - rewrite lookup_insert_other in Hx by assumption. eapply HG; eassumption. }
        assert (HB : Below (insert m l new) m).
        { intros x s Hx. destruct (eqb_spec x l) as [->|N].
          - exists new. rewrite lookup_insert_same. split; [reflexivity|]. apply Hold; assumption.
          - exists s. rewrite lookup_insert_other by assumption. split; [assumption|]. right. apply cmp_refl. }
        intros x sx Hx.
        assert (Rx : reach x) by (apply HR; unfold In_dom; congruence).
        destruct (join_neighbours_total (insert m l new) (pred x) HG2) as (st2 & Hj2).
        assert (Hcase : exists stx newx, join_neighbours m (pred x) = Ok stx /\ (stx = None -> x = entry) /\
                                        trans x stx = Ok newx /\ le sx newx).
        { destruct (eqb_spec x l) as [->|N].
          - rewrite lookup_insert_same in Hx. inversion Hx; subst sx. exists st, new. repeat split; try assumption.
            right. apply cmp_refl.
          - rewrite lookup_insert_other in Hx by assumption. apply HA; assumption. }
        destruct Hcase as (stx & newx & Hjx & Hgx & Htx & Hle).
        pose proof (join_neighbours_good _ _ _ HG Hjx) as Gx. pose proof (join_neighbours_good _ _ _ HG2 Hj2) as G2.
        assert (Ho : ole stx st2).
        { eapply (join_neighbours_mono (insert m l new) m (pred x) HG HG2 HB None None); [apply ogood_none|apply ogood_none|exact I|exact Hjx|exact Hj2]. }
        assert (Hg2 : st2 = None -> x = entry).
        { intros ->. destruct stx; [contradiction|]. apply Hgx; reflexivity. }
        destruct (trans_total x st2 Rx Hg2 G2) as (new2 & Ht2).
        exists st2, new2. repeat split; try assumption.
        eapply (le_trans sx newx new2).
        - eapply HG2; eassumption.
        - eapply (good_trans x stx); eassumption.
        - eapply (good_trans x st2); eassumption.
        - exact Hle.
        - eapply (trans_mono x stx st2); eassumption.
      Qed.

      Lemma bstep_complete m l q' :
        Rch m (l :: q') -> Fed m (l :: q') -> Good m -> Asc m -> exists m2 q2, bstep false m l q' = Next m2 q2 /\ Asc m2.
      Proof.
        intros HR HF HG HA. assert (Rl : reach l) by (apply HR; right; left; reflexivity).
        destruct (join_neighbours_total m (pred l) HG) as (st & Hj).
        assert (Hg : st = None -> l = entry).
        { intros ->. destruct (HF l (or_introl eq_refl)) as [->|Hex]; [reflexivity|].
          exfalso. eapply join_neighbours_some; eauto. }
        pose proof (join_neighbours_good _ _ _ HG Hj) as Gst.
        destruct (trans_total l st Rl Hg Gst) as (new & Ht).
        pose proof (good_trans _ _ _ Rl Hg Gst Ht) as Kn.
        assert (Hnext : forall m2 q2, bstep false m l q' = Next m2 q2 -> forall x, In_dom m2 x -> reach x).
        { intros m2 q2 Hb x Hx. apply (Rch_step _ _ _ _ _ _ HR Hb). left; assumption. }
        unfold bstep in *. rewrite (from_ok _ Rl), (to_ok _ Rl), Hj, Ht in *.
        destruct (lookup m l) as [old|] eqn:Hl.
        - destruct (HA _ _ Hl) as (st0 & new0 & Hj0 & _ & Ht0 & Hle).
          rewrite Hj in Hj0. inversion Hj0; subst st0. rewrite Ht in Ht0. inversion Ht0; subst new0.
          destruct (cmp_ge _ _ Kn (HG _ _ Hl) Hle) as [Hc|Hc]; rewrite Hc in *.
          + eexists _, _. split; [reflexivity|]. eapply Asc_store; try eassumption.
            * eapply Hnext; reflexivity.
            * intros o Ho. rewrite Hl in Ho. inversion Ho; subst. assumption.
          + eexists _, _. split; [reflexivity|assumption].
        - eexists _, _. split; [reflexivity|]. eapply Asc_store; try eassumption.
          + eapply Hnext; reflexivity.
          + intros o Ho. rewrite Hl in Ho. discriminate.
      Qed.

      (* the unbudgeted loop of a monotone analysis can only stop with a result *)
      Theorem fp_monotone_no_error_rel n o : term false [] [entry] n o -> exists m, o = Done m.
      Proof.
        assert (HA0 : Asc []) by (intros l s Hl; discriminate).
        generalize Rch_init Fed_init Good_nil HA0. generalize ([entry]). generalize ([] : map).
        intros m q HR HF HG HA Ht. induction Ht as [m|m l q' o Hb|m l q' m2 q2 n o Hb Ht IH].
        - eexists; reflexivity.
        - destruct (bstep_complete _ _ _ HR HF HG HA) as (m2 & q2 & Hb' & _). congruence.
        - destruct (bstep_complete _ _ _ HR HF HG HA) as (m3 & q3 & Hb' & HA').
          rewrite Hb in Hb'. inversion Hb'; subst m3 q3.
          apply IH; [eapply Rch_step|eapply Fed_step|eapply Good_step|]; eassumption.
      Qed.

      (* finite height + monotone: both engines return a map -- no ordering error, no crash, and no MaxSteps
         once the budget covers  1 + d n (h+1)  pops *)
      Theorem fp_complete_rel (rank : S -> nat) h U d max :
        (forall s, rank s <= h) -> (forall a b, cmp a b = Some Gt -> rank b < rank a) ->
        NoDup U -> (forall l, reach l -> In l U) -> (forall l, reach l -> length (succ l) <= d) ->
        1 + d * (length U * Datatypes.S h) <= Datatypes.S max ->
        exists m, run (Datatypes.S (Datatypes.S max)) false max 0 [] [entry] = Done m.
      Proof.
        intros R1 R2 U1 U2 D Hm.
        destruct (fp_budget_suffices false rank h R1 R2 (fun H => False_ind _ (Bool.diff_false_true H)) U U1 U2 d D max Hm) as (n & o & Ht & Hr).
        destruct (fp_monotone_no_error_rel _ _ Ht) as (m & ->). exists m. assumption.
      Qed.

      Theorem fp_complete_rel_nobudget (rank : S -> nat) h U d fuel :
        (forall s, rank s <= h) -> (forall a b, cmp a b = Some Gt -> rank b < rank a) ->
        NoDup U -> (forall l, reach l -> In l U) -> (forall l, reach l -> length (succ l) <= d) ->
        1 + d * (length U * Datatypes.S h) < fuel ->
        exists m, run_nobudget fuel false [] [entry] = Done m.
      Proof.
        intros R1 R2 U1 U2 D Hf.
        destruct (fp_terminates false rank h R1 R2 (fun H => False_ind _ (Bool.diff_false_true H)) U U1 U2 d D) as (n & o & Hn & Ht).
        destruct (fp_monotone_no_error_rel _ _ Ht) as (m & ->). exists m. apply (term_run_nobudget _ _ _ _ _ Ht). lia.
      Qed.
    End Complete.
  End Rel.

  (* ---------------------------------------------------------------- the plain statements: good := everything *)
  Section Plain.
    Hypothesis le_trans : forall a b c, le a b -> le b c -> le a c.
    Hypothesis join_lub : forall a b j, join a b = Ok j -> le a j /\ le b j /\ (forall c, le a c -> le b c -> le j c).
    Hypothesis trans_mono : forall l x y a b, reach l -> (x = None -> l = entry) -> ole x y ->
      trans l x = Ok a -> trans l y = Ok b -> le a b.

    Let gd : S -> Prop := fun _ => True.
    Let P1 : forall l st a, reach l -> (st = None -> l = entry) -> ogood gd st -> trans l st = Ok a -> gd a := fun _ _ _ _ _ _ _ => I.
    Let P2 : forall a b j, gd a -> gd b -> join a b = Ok j -> gd j := fun _ _ _ _ _ _ => I.
    Let P3 : forall a b c, gd a -> gd b -> gd c -> le a b -> le b c -> le a c := fun a b c _ _ _ => le_trans a b c.
    Let P4 : forall a b j, gd a -> gd b -> join a b = Ok j -> le a j /\ le b j /\ (forall c, gd c -> le a c -> le b c -> le j c).
    Proof. intros a b j _ _ Hj. destruct (join_lub a b j Hj) as (A & B & C). repeat split; try assumption. intros c _. apply C. Qed.
    Let P5 : forall l x y a b, reach l -> (x = None -> l = entry) -> ogood gd x -> ogood gd y -> ole x y ->
      trans l x = Ok a -> trans l y = Ok b -> le a b := fun l x y a b R G _ _ => trans_mono l x y a b R G.

    Theorem fp_least m' : (forall l, reach l -> holds le m' l) ->
      forall fuel force max m, run fuel force max 0 [] [entry] = Done m -> Below m' m.
    Proof. intros Hp. apply (fp_least_rel gd P1 P2 P3 P4 P5 m'); [intros l s _; exact I|assumption]. Qed.

    Theorem fp_least_nobudget m' : (forall l, reach l -> holds le m' l) ->
      forall fuel force m, run_nobudget fuel force [] [entry] = Done m -> Below m' m.
    Proof. intros Hp. apply (fp_least_rel_nobudget gd P1 P2 P3 P4 P5 m'); [intros l s _; exact I|assumption]. Qed.

    Hypothesis cmp_ge : forall a b, le b a -> cmp a b = Some Gt \/ cmp a b = Some Eq.
    Hypothesis join_total : forall a b, exists j, join a b = Ok j.
    Hypothesis trans_total : forall l st, reach l -> (st = None -> l = entry) -> exists s, trans l st = Ok s.

    Theorem fp_monotone_no_error n o : term false [] [entry] n o -> exists m, o = Done m.
    Proof.
      apply (fp_monotone_no_error_rel gd P1 P2 P3 P4 P5).
      - intros a b _ _. apply cmp_ge.
      - intros a b _ _. apply join_total.
      - intros l st R G _. apply trans_total; assumption.
    Qed.

    Theorem fp_complete (rank : S -> nat) h U d max :
      (forall s, rank s <= h) -> (forall a b, cmp a b = Some Gt -> rank b < rank a) ->
      NoDup U -> (forall l, reach l -> In l U) -> (forall l, reach l -> length (succ l) <= d) ->
      1 + d * (length U * Datatypes.S h) <= Datatypes.S max ->
      exists m, run (Datatypes.S (Datatypes.S max)) false max 0 [] [entry] = Done m.
    Proof.
      apply (fp_complete_rel gd P1 P2 P3 P4 P5).
      - intros a b _ _. apply cmp_ge.
      - intros a b _ _. apply join_total.
      - intros l st R G _. apply trans_total; assumption.
    Qed.

    Theorem fp_complete_nobudget (rank : S -> nat) h U d fuel :
      (forall s, rank s <= h) -> (forall a b, cmp a b = Some Gt -> rank b < rank a) ->
      NoDup U -> (forall l, reach l -> In l U) -> (forall l, reach l -> length (succ l) <= d) ->
      1 + d * (length U * Datatypes.S h) < fuel ->
      exists m, run_nobudget fuel false [] [entry] = Done m.
    Proof.
      apply (fp_complete_rel_nobudget gd P1 P2 P3 P4 P5).
      - intros a b _ _. apply cmp_ge.
      - intros a b _ _. apply join_total.
      - intros l st R G _. apply trans_total; assumption.
    Qed.
  End Plain.
End FPP.
