(* Flow/Constants.v -- model of lib/analysis/constants.rs (property C13), as repaired by the two `fix:`
   commits: the remap pass skips predecessor locations that have no state, and the transfer function
   starts, at the function entry, from Top for every scalar the function writes (so that a key is
   never absent on one side of a join).  Definitions only. *)
From Coq Require Import ZArith List Bool NArith Arith.
From Falcon Require Import Base.Res IL.Const IL.Expr IL.Func IL.Loc Flow.FixedPoint Flow.FpIL.
Import ListNotations.
Local Open Scope Z_scope.

(* enum Constant { Top, Constant(il::Constant), Bottom } *)
Inductive cst := CTop | CConst (c : const) | CBot.

Definition cst_eqb (a b : cst) : bool :=
  match a, b with
  | CTop, CTop | CBot, CBot => true
  | CConst x, CConst y => const_eqb x y
  | _, _ => false
  end.

(* impl PartialOrd for Constant *)
Definition cst_cmp (a b : cst) : option comparison :=
  match a, b with
  | CTop, CTop => Some Eq
  | CTop, _ => Some Gt
  | CConst _, CTop => Some Lt
  | CConst x, CConst y => if const_eqb x y then Some Eq else None
  | CConst _, CBot => Some Gt
  | CBot, CBot => Some Eq
  | CBot, _ => Some Lt
  end.
(* the derived operators  <=  <  >  of PartialOrd *)
Definition cst_le (a b : cst) : bool := match cst_cmp a b with Some Lt | Some Eq => true | _ => false end.
Definition cst_lt (a b : cst) : bool := match cst_cmp a b with Some Lt => true | _ => false end.
Definition cst_gt (a b : cst) : bool := match cst_cmp a b with Some Gt => true | _ => false end.

(* struct Constants { constants: HashMap<il::Scalar, Constant> } as an association list with unique
   keys; every operation below is independent of the iteration order of the hash map *)
Definition cmap := list (scalar * cst).
Fixpoint cm_get (m : cmap) (s : scalar) : option cst :=
  match m with [] => None | (k, v) :: t => if scalar_eqb k s then Some v else cm_get t s end.
Fixpoint cm_set (m : cmap) (s : scalar) (v : cst) : cmap :=
  match m with
  | [] => [(s, v)]
  | (k, x) :: t => if scalar_eqb k s then (k, v) :: t else (k, x) :: cm_set t s v
  end.

(* Constants::scalar *)
Definition cm_scalar (m : cmap) (s : scalar) : option const :=
  match cm_get m s with Some (CConst c) => Some c | _ => None end.
(* Constants::top : present keys only *)
Definition cm_top (m : cmap) : cmap := List.map (fun kv : scalar * cst => (fst kv, CTop)) m.

(* impl PartialOrd for Constants : length first *)
Definition sub_le (a b : cmap) : bool :=
  forallb (fun kv : scalar * cst => match cm_get b (fst kv) with Some rc => cst_le (snd kv) rc | None => false end) a.
Definition eq_step (b : cmap) (acc : option comparison) (kv : scalar * cst) : option comparison :=
  match acc with
  | None => None                                   (* already returned None *)
  | Some order =>
      match cm_get b (fst kv) with
      | None => None
      | Some rc =>
          if cst_lt (snd kv) rc then match order with Gt => None | _ => Some Lt end
          else if cst_gt (snd kv) rc then match order with Lt => None | _ => Some Gt end
          else Some order
      end
  end.
Definition cm_cmp (a b : cmap) : option comparison :=
  match Nat.compare (length a) (length b) with
  | Lt => if sub_le a b then Some Lt else None
  | Gt => if sub_le b a then Some Gt else None
  | Eq => fold_left (eq_step b) a (Some Eq)
  end.

(* Constants::join *)
Definition cm_join (a b : cmap) : cmap :=
  fold_left (fun r (kv : scalar * cst) =>
               match cm_get a (fst kv) with
               | Some c => if cst_eqb c (snd kv) then r else cm_set r (fst kv) CTop
               | None => cm_set r (fst kv) (snd kv)
               end) b a.

(* Constants::eval : try_fold of replace_scalar(..).unwrap() over expression.scalars(), then eval(..).ok() *)
Fixpoint eval_fold (m : cmap) (ss : list scalar) (e : expr) : res (option expr) :=
  match ss with
  | [] => Ok (Some e)
  | s :: t =>
      match cm_scalar m s with
      | None => Ok None
      | Some c => match replace_scalar e s (EConst c) with
                  | Ok e' => eval_fold m t e'
                  | _ => Panic                       (* unwrap *)
                  end
      end
  end.
Definition cm_eval (m : cmap) (e : expr) : res (option const) :=
  r <- eval_fold m (scalars e) e ;;
  match r with
  | None => Ok None
  | Some e' => match eval e' with Ok c => Ok (Some c) | Err _ => Ok None | Panic => Panic end
  end.

(* the state on entry to the function (repaired code): every scalar written by some instruction of the
   function, in block order, is Top *)
Definition written_of_op (o : operation) : list scalar :=
  match op_scalars_written o with Some l => l | None => [] end.      (* scalars_written().unwrap_or_default() *)
Definition entry_seed (f : func) : cmap :=
  fold_left (fun m b =>
               fold_left (fun m i => fold_left (fun m s => cm_set m s CTop) (written_of_op (i_op i)) m) (b_instrs b) m)
            (f_blocks f) [].

(* the rest of ConstantsAnalysis::trans, once the incoming state is chosen *)
Definition c_body (f : func) (l : floc) (s : cmap) : res cmap :=
  match l with
  | LInstr _ _ =>
      match loc_instruction f l with
      | None => Panic      (* an applied location always resolves *)
      | Some i =>
          match i_op i with
          | OAssign dst src =>
              r <- cm_eval s src ;;
              Ok (cm_set s dst (match r with Some c => CConst c | None => CTop end))
          | OLoad dst _ => Ok (cm_set s dst CTop)
          | OStore _ _ => Ok s
          | OBranch _ => Ok (cm_top s)
          | OIntrinsic intr =>
              match intr_scalars_written intr with
              | Some ws => Ok (fold_left (fun m w => cm_set m w CTop) ws s)
              | None => Ok (cm_top s)
              end
          | ONop _ => Ok s
          end
      end
  | _ => Ok s
  end.

(* ConstantsAnalysis::trans: `from_function(..).ok_or("..")??`, then
   `Some(state) if location != function_entry => state, _ => entry state` *)
Definition c_trans (f : func) (l : floc) (st : option cmap) : res cmap :=
  match from_function f with
  | None => Err ECustom
  | Some r =>
      e <- r ;;
      c_body f l (match st with
                  | Some s => if floc_eqb l e then entry_seed f else s
                  | None => entry_seed f
                  end)
  end.

Definition c_join (a b : cmap) : res cmap := Ok (cm_join a b).

Definition MAX_STEPS : nat := (500 * 500)%nat.   (* DEFAULT_MAX_ANALYSIS_STEPS = 250000 *)

Definition constants_states (max : nat) (f : func) : res (list (floc * cmap)) :=
  fp_forward cmap f (c_trans f) c_join cm_cmp false max.

(* the remap pass of constants(): the state BEFORE a location = join of the out-states of the
   predecessors that have one (repaired: `get` + skip instead of indexing) *)
Definition remap_one (f : func) (m : list (floc * cmap)) (l : floc) : res cmap :=
  _ <- (match floc_apply f l with Ok x => Ok x | _ => Panic end) ;;        (* apply(function).unwrap() *)
  ps <- backward f l ;;
  Ok (fold_left (fun c p => match FixedPoint.lookup floc cmap floc_eqb m p with
                            | Some s => cm_join c s
                            | None => c
                            end) ps []).
Fixpoint remap (f : func) (m : list (floc * cmap)) (keys : list (floc * cmap)) : res (list (floc * cmap)) :=
  match keys with
  | [] => Ok []
  | (l, _) :: t => c <- remap_one f m l ;; r <- remap f m t ;; Ok ((l, c) :: r)
  end.

Definition constants_max (max : nat) (f : func) : res (list (floc * cmap)) :=
  m <- constants_states max f ;; remap f m m.
Definition constants := constants_max MAX_STEPS.
