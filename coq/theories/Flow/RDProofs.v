(* Flow/RDProofs.v -- proofs of property C12 about the models Flow/RD.v, Flow/UseDef.v against the
   specification Flow/RDSpec.v over the reference semantics Exec/Sem.v.
   Uses: Flow/FixedPointProofs.v (C09: fp_solution, invariant transport), IL/LocProofs.v (C18: forward and
   backward are converse on valid locations). *)
From Coq Require Import ZArith List Bool NArith Arith Lia.
From Falcon Require Import Base.Res IL.Const IL.Expr IL.Func IL.Loc IL.LocProofs Exec.Sem
     Flow.FixedPoint Flow.FpIL Flow.FixedPointProofs Flow.RD Flow.UseDef Flow.RDSpec.
Import ListNotations.
Local Open Scope Z_scope.

(* ------------------------------------------------------------------ equality tests *)
Lemma floc_eqb_spec a b : reflect (a = b) (floc_eqb a b).
Proof. destruct (floc_eqb a b) eqn:E; constructor; [apply floc_eqb_eq; exact E|].
       intros H. apply floc_eqb_eq in H. congruence. Qed.
Lemma floc_eqb_refl a : floc_eqb a a = true.
Proof. apply floc_eqb_eq. reflexivity. Qed.

Lemma optN_eqb_eq a b : optN_eqb a b = true <-> a = b.
Proof. destruct a, b; cbn; try (split; congruence). rewrite N.eqb_eq. split; congruence. Qed.
Lemma scalar_eqb_eq a b : scalar_eqb a b = true <-> a = b.
Proof.
  destruct a as [n w s], b as [n' w' s']. unfold scalar_eqb. cbn [sname sbits sssa].
  rewrite !andb_true_iff, N.eqb_eq, Z.eqb_eq, optN_eqb_eq. split; [intros [[-> ->] ->]; reflexivity|].
  intros [= -> -> ->]. auto.
Qed.
Lemma scalars_eqb_eq a b : scalars_eqb a b = true <-> a = b.
Proof.
  revert b. induction a as [|x a IH]; intros [|y b]; cbn; try (split; congruence).
  rewrite andb_true_iff, scalar_eqb_eq, IH. split; [intros [-> ->]; reflexivity|intros [= -> ->]; auto].
Qed.
Lemma sc_mem_In x l : sc_mem x l = true <-> In x l.
Proof.
  unfold sc_mem. rewrite existsb_exists. split.
  - intros (y & Hy & E). apply scalar_eqb_eq in E. subst. exact Hy.
  - intros H. exists x. split; [exact H|apply scalar_eqb_eq; reflexivity].
Qed.

(* ------------------------------------------------------------------ location sets *)
Lemma ls_mem_In l s : ls_mem l s = true <-> In l s.
Proof.
  unfold ls_mem. rewrite existsb_exists. split.
  - intros (y & Hy & E). apply floc_eqb_eq in E. subst. exact Hy.
  - intros H. exists l. split; [exact H|apply floc_eqb_refl].
Qed.
Lemma ls_insert_In l s x : In x (ls_insert l s) <-> x = l \/ In x s.
Proof.
  unfold ls_insert. destruct (ls_mem l s) eqn:E.
  - apply ls_mem_In in E. split; [tauto|intros [->|H]; assumption].
  - rewrite in_app_iff. cbn. split; [intros [H|[H|[]]]; auto|intros [->|H]; auto].
Qed.
Lemma ls_remove_In l s x : In x (ls_remove l s) <-> In x s /\ x <> l.
Proof.
  unfold ls_remove. rewrite filter_In. split; intros [H1 H2]; split; try assumption.
  - intros ->. rewrite floc_eqb_refl in H2. discriminate.
  - destruct (floc_eqb x l) eqn:E; [apply floc_eqb_eq in E; contradiction|reflexivity].
Qed.
Lemma remove_all_In kill s x : In x (fold_left (fun s k => ls_remove k s) kill s) <-> In x s /\ ~ In x kill.
Proof.
  revert s. induction kill as [|k kill IH]; intros s; cbn [fold_left]; [cbn; tauto|].
  rewrite IH, ls_remove_In. cbn. split; [intros [[H1 H2] H3]|intros [H1 H2]]; repeat split; auto.
  intros [->|H]; auto.
Qed.
Lemma union_into_In acc s x : In x (union_into acc s) <-> In x acc \/ In x s.
Proof.
  unfold union_into. revert acc. induction s as [|d s IH]; intros acc; cbn [fold_left]; [cbn; tauto|].
  rewrite IH, ls_insert_In. cbn. split; [intros [[->|H]|H]|intros [H|[->|H]]]; auto.
Qed.
Lemma rd_join_In a b j x : rd_join a b = Ok j -> (In x j <-> In x a \/ In x b).
Proof. unfold rd_join. intros [= <-]. apply (union_into_In a b x). Qed.

Lemma ls_subset_In a b : ls_subset a b = true <-> (forall x, In x a -> In x b).
Proof.
  unfold ls_subset. rewrite forallb_forall. split; intros H x Hx.
  - apply ls_mem_In. apply H. exact Hx.
  - apply ls_mem_In. apply H. exact Hx.
Qed.
Lemma ls_cmp_refl s : ls_cmp s s = Some Eq.
Proof.
  unfold ls_cmp. rewrite Nat.compare_refl.
  replace (ls_subset s s) with true; [reflexivity|]. symmetry. apply ls_subset_In. auto.
Qed.
Lemma ls_cmp_eq_sub a b : ls_cmp a b = Some Eq -> forall x, In x a -> In x b.
Proof.
  unfold ls_cmp. destruct (Nat.compare (length a) (length b)).
  - destruct (ls_subset a b) eqn:E; [|discriminate]. intros _. apply ls_subset_In. exact E.
  - destruct (ls_subset a b); discriminate.
  - destruct (ls_subset b a); discriminate.
Qed.

(* ------------------------------------------------------------------ join over the neighbours *)
Notation lkp := (FixedPoint.lookup floc lset floc_eqb).
Notation joinN := (FixedPoint.join_neighbours floc lset floc_eqb rd_join).

Definition in_opt (d : floc) (o : option lset) : Prop := exists s, o = Some s /\ In d s.

Lemma join_neighbours_rd m ps : forall acc,
  exists o, fold_left (FixedPoint.join_step floc lset floc_eqb rd_join m) ps (Ok acc) = Ok o /\
    forall d, in_opt d o <-> (in_opt d acc \/ exists p s, In p ps /\ lkp m p = Some s /\ In d s).
Proof.
  induction ps as [|p ps IH]; intros acc; cbn [fold_left].
  - exists acc. split; [reflexivity|]. intros d. split; [auto|]. intros [H|(p & s & [] & _)]. exact H.
  - unfold FixedPoint.join_step at 2. destruct (lkp m p) as [inst|] eqn:El.
    + destruct acc as [s0|].
      * cbn [rd_join]. change (fold_left (fun s x => ls_insert x s) inst s0) with (union_into s0 inst).
        destruct (IH (Some (union_into s0 inst))) as (o & Ho & Hd).
        exists o. split; [exact Ho|]. intros d. rewrite Hd. unfold in_opt. split.
        -- intros [(s & E & Hin)|(q & s & Hq & Hl & Hin)].
           ++ injection E as E. subst s. apply union_into_In in Hin. destruct Hin as [Hin|Hin]; [left; eauto|].
              right. exists p, inst. cbn. auto.
           ++ right. exists q, s. cbn. auto.
        -- intros [(s & E & Hin)|(q & s & [E|Hq] & Hl & Hin)].
           ++ injection E as E. subst s. left. eexists. split; [reflexivity|]. apply union_into_In. auto.
           ++ subst q. left. eexists. split; [reflexivity|]. apply union_into_In. right. congruence.
           ++ right. exists q, s. auto.
      * destruct (IH (Some inst)) as (o & Ho & Hd). exists o. split; [exact Ho|]. intros d. rewrite Hd.
        unfold in_opt. split.
        -- intros [(s & E & Hin)|(q & s & Hq & Hl & Hin)]; right.
           ++ injection E as E. subst s. exists p, inst. cbn. auto.
           ++ exists q, s. cbn. auto.
        -- intros [(s & E & _)|(q & s & [E|Hq] & Hl & Hin)]; [discriminate| |].
           ++ subst q. left. exists inst. split; [reflexivity|congruence].
           ++ right. exists q, s. auto.
    + destruct (IH acc) as (o & Ho & Hd). exists o. split; [exact Ho|]. intros d. rewrite Hd. split.
      * intros [H|(q & s & Hq & Hl & Hin)]; [auto|]. right. exists q, s. cbn. auto.
      * intros [H|(q & s & [E|Hq] & Hl & Hin)]; [auto|subst q; congruence|]. right. exists q, s. auto.
Qed.

Lemma joinN_spec m ps : exists o, joinN m ps = Ok o /\
  forall d, in_opt d o <-> exists p s, In p ps /\ lkp m p = Some s /\ In d s.
Proof.
  destruct (join_neighbours_rd m ps None) as (o & Ho & Hd). exists o. split; [exact Ho|].
  intros d. rewrite Hd. split; [|auto]. intros [(s & [=] & _)|H]. exact H.
Qed.

(* ------------------------------------------------------------------ the transfer function *)
Lemma filter_res_spec {A} (p : A -> res bool) l r : filter_res p l = Ok r ->
  (forall x, In x l -> exists b, p x = Ok b) /\ (forall x, In x r <-> In x l /\ p x = Ok true).
Proof.
  revert r. induction l as [|a l IH]; intros r; cbn [filter_res].
  - intros [= <-]. split; [intros x []|]. intros x. cbn. tauto.
  - destruct (p a) as [b| |] eqn:Ea; cbn [bind]; try discriminate.
    destruct (filter_res p l) as [r'| |]; cbn [bind]; try discriminate. intros [= <-].
    destruct (IH r' eq_refl) as [H1 H2]. split.
    + intros x [<-|Hx]; [eauto|apply H1; exact Hx].
    + intros x. destruct b; cbn [In]; rewrite ?H2; split.
      * intros [<-|[H H']]; auto.
      * intros [[<-|H] H']; auto.
      * intros [H H']; auto.
      * intros [[<-|H] H']; [congruence|auto].
Qed.

Definition st_of (st : option lset) : lset := match st with Some s => s | None => [] end.

Lemma rd_trans_passes f l st new :
  (match l with
   | LInstr _ _ => match loc_instruction f l with
                   | Some i => op_scalars_written (i_op i) = None
                   | None => False
                   end
   | _ => True
   end) -> rd_trans f l st = Ok new -> new = st_of st.
Proof.
  unfold rd_trans, st_of. destruct l; try (intros _ [= <-]; reflexivity).
  destruct (loc_instruction f (LInstr b i)) as [ins|]; [|tauto]. intros ->. intros [= <-]. reflexivity.
Qed.

Lemma rd_trans_writes f b i ins w st new :
  loc_instruction f (LInstr b i) = Some ins -> op_scalars_written (i_op ins) = Some w ->
  rd_trans f (LInstr b i) st = Ok new ->
  forall d, In d new <-> d = LInstr b i \/ (In d (st_of st) /\ kills f w d = Ok false).
Proof.
  intros Hi Hw. unfold rd_trans. rewrite Hi, Hw. fold (st_of st).
  destruct (filter_res (kills f w) (st_of st)) as [kill| |] eqn:Ek; cbn [bind]; try discriminate.
  intros [= <-] d. destruct (filter_res_spec _ _ _ Ek) as [Hall Hkill].
  rewrite ls_insert_In, remove_all_In, Hkill. split.
  - intros [->|[Hd Hn]]; [auto|]. right. split; [exact Hd|].
    destruct (Hall d Hd) as [[|] Hb]; [exfalso; apply Hn; auto|exact Hb].
  - intros [->|[Hd Hk]]; [auto|]. right. split; [exact Hd|]. intros [_ Hk']. congruence.
Qed.

(* ------------------------------------------------------------------ instantiating the engine on IL locations *)
Definition succ_of (f : func) (l : floc) : list floc := match forward f l with Ok x => x | _ => [] end.
Definition pred_of (f : func) (l : floc) : list floc := match backward f l with Ok x => x | _ => [] end.
Notation reachL f e := (FixedPointProofs.reach floc (succ_of f) e).

Section Engine.
  Variable f : func.
  Hypothesis Hinv : cfg_inv (f_cfg f) = true.
  Variable eb : block.
  Hypothesis Heb : In eb (f_blocks f).
  Let entry := block_first_loc eb.

  Lemma reach_valid l : reachL f entry l -> valid_loc f l = true.
  Proof.
    induction 1 as [|a b Ha IH Hb]; [apply first_valid; assumption|].
    destruct (forward_total f Hinv a IH) as (ss & Hf & Hv). unfold succ_of in Hb. rewrite Hf in Hb. auto.
  Qed.
  Lemma from_ok l : reachL f entry l -> backward f l = Ok (pred_of f l).
  Proof. intros H. destruct (backward_total f Hinv l (reach_valid l H)) as (ps & Hb & _). unfold pred_of. rewrite Hb. reflexivity. Qed.
  Lemma to_ok l : reachL f entry l -> forward f l = Ok (succ_of f l).
  Proof. intros H. destruct (forward_total f Hinv l (reach_valid l H)) as (ps & Hb & _). unfold succ_of. rewrite Hb. reflexivity. Qed.
  Lemma converse a b : reachL f entry a -> reachL f entry b -> (In b (succ_of f a) <-> In a (pred_of f b)).
  Proof.
    intros Ha Hb. pose proof (fwd_bwd_converse f Hinv a b (reach_valid a Ha) (reach_valid b Hb)) as C.
    rewrite (to_ok a Ha), (from_ok b Hb) in C. split; intros H.
    - destruct C as [C _]. destruct C as (l & [= <-] & Hl); eauto.
    - destruct C as [_ C]. destruct C as (l & [= <-] & Hl); eauto.
  Qed.
End Engine.

(* ------------------------------------------------------------------ model vs. specification vocabulary *)
Lemma op_writes_list_spec o :
  match op_scalars_written o with Some w => op_writes_list o = w | None => op_writes_list o = [] end.
Proof.
  destruct o as [d s|ix s|d ix|t|i|p]; cbn; try reflexivity.
  unfold intr_scalars_written. destruct (in_written i); reflexivity.
Qed.
Lemma op_reads_list_spec o :
  match op_scalars_read o with Some w => op_reads_list o = w | None => op_reads_list o = [] end.
Proof.
  destruct o as [d s|ix s|d ix|t|i|p]; cbn; try reflexivity.
  unfold intr_scalars_read. destruct (in_read i); reflexivity.
Qed.

Lemma loc_instruction_apply f d i : loc_instruction f d = Some i -> floc_apply f d = Ok d.
Proof.
  destruct d as [b k|h t|b]; cbn; try discriminate.
  destruct (find_block (f_blocks f) b) as [blk|]; [|discriminate]. intros ->. reflexivity.
Qed.
Lemma loc_written_of_instr f d i : loc_instruction f d = Some i -> loc_written f d = Ok (op_scalars_written (i_op i)).
Proof.
  intros H. unfold loc_written, loc_operation. rewrite (loc_instruction_apply f d i H), H. reflexivity.
Qed.
Lemma loc_writes_inv f d x : loc_writes f d x = true ->
  exists i v, loc_instruction f d = Some i /\ op_scalars_written (i_op i) = Some v /\ In x v.
Proof.
  unfold loc_writes, loc_writes_list. destruct (loc_instruction f d) as [i|]; [|cbn; discriminate].
  intros H. apply sc_mem_In in H. pose proof (op_writes_list_spec (i_op i)) as S.
  destruct (op_scalars_written (i_op i)) as [v|] eqn:Ev; rewrite S in H; [|destruct H]. exists i, v. auto.
Qed.

(* a definition that writes x is not killed by an instruction that does not *)
Lemma kills_false f w d x b : loc_writes f d x = true -> ~ In x w -> kills f w d = Ok b -> b = false.
Proof.
  intros Hd Hx. destruct (loc_writes_inv f d x Hd) as (i & v & Hi & Hv & Hin).
  unfold kills. rewrite (loc_written_of_instr f d i Hi), Hv. cbn [bind]. intros [= <-].
  destruct (scalars_eqb v w) eqn:E; [|reflexivity]. apply scalars_eqb_eq in E. subst. contradiction.
Qed.

(* ------------------------------------------------------------------ last writers *)
Lemma last_writer_snoc f hist it x :
  last_writer f (hist ++ [it]) x =
  if ti_executed it && loc_writes f (ti_loc it) x then Some (ti_loc it) else last_writer f hist x.
Proof. unfold last_writer. rewrite fold_left_app. reflexivity. Qed.

Lemma last_writer_writes f tr x d : last_writer f tr x = Some d -> loc_writes f d x = true.
Proof.
  induction tr as [|it tr IH] using rev_ind; [discriminate|].
  rewrite last_writer_snoc. destruct (ti_executed it && loc_writes f (ti_loc it) x) eqn:E; [|exact IH].
  intros [= <-]. apply andb_true_iff in E. tauto.
Qed.

(* ------------------------------------------------------------------ control steps follow `forward` *)
Lemma enabled_locs_incl f en ls r : enabled_locs f en ls = Ok r -> forall x, In x r -> In x ls.
Proof.
  revert r. induction ls as [|l ls IH]; intros r; cbn [enabled_locs]; [intros [= <-] x []|].
  destruct (edge_enabled f en l) as [b| |]; cbn [bind]; try discriminate.
  destruct (enabled_locs f en ls) as [r'| |]; cbn [bind]; try discriminate. intros [= <-] x.
  destruct b; cbn [In]; [intros [<-|H]; [auto|right; eapply IH; eauto]|intros H; right; eapply IH; eauto].
Qed.
Lemma choose_next f st ev succs l' st' ev' : choose f st ev succs = Sem.Next l' st' ev' -> In l' succs.
Proof.
  unfold choose. destruct succs as [|s0 succs]; [discriminate|].
  destruct (enabled_locs f (st_env st) (s0 :: succs)) as [r| |] eqn:E; try discriminate.
  destruct r as [|a [|b r]]; try discriminate. intros [= <- _ _].
  eapply enabled_locs_incl; [exact E|left; reflexivity].
Qed.
Lemma sem_step_next f l st l' st' ev : sem_step f l st = Sem.Next l' st' ev -> In l' (succ_of f l).
Proof.
  unfold sem_step, succ_of. destruct l as [b i|h t|b].
  - destruct (loc_instruction f (LInstr b i)) as [ins|]; [|discriminate].
    destruct (exec_op st (i_op ins)) as [[st1 ev1]| |]; try discriminate.
    destruct (forward f (LInstr b i)) as [succs| |]; destruct ev1; try discriminate; apply choose_next.
  - destruct (forward f (LEdge h t)) as [[|a [|b r]]| |]; try discriminate. intros [= <- _ _]. left; reflexivity.
  - destruct (forward f (LEmpty b)) as [succs| |]; try discriminate. apply choose_next.
Qed.

(* ------------------------------------------------------------------ soundness of reaching definitions *)
Section Sound.
  Variable f : func.
  Hypothesis Hinv : cfg_inv (f_cfg f) = true.
  Variable max : nat.
  Variable m : rdmap.
  Hypothesis Hrd : reaching_definitions_max max f = Ok m.

  Lemma rd_unfold : exists eb fuel, In eb (f_blocks f) /\ from_function f = Some (Ok (block_first_loc eb)) /\
    FixedPoint.run floc lset floc_eqb (backward f) (forward f) (rd_trans f) rd_join ls_cmp fuel false max 0 [] [block_first_loc eb]
      = Done m.
  Proof.
    unfold reaching_definitions_max, fp_forward in Hrd. unfold from_function.
    destruct (g_entry (f_cfg f)) as [e|]; [|discriminate].
    unfold f_block, cfg_block in *. fold (f_blocks f) in *.
    destruct (find_block (f_blocks f) e) as [eb|] eqn:Eb; cbn [bind] in *; [|discriminate].
    exists eb. eexists. split; [apply (find_block_some _ _ _ Eb)|]. split; [reflexivity|].
    match type of Hrd with of_outcome _ ?o = _ => destruct o eqn:Er; cbn in Hrd; try discriminate end.
    injection Hrd as <-. exact Er.
  Qed.

  Definition entry_of (eb : block) := block_first_loc eb.

  Lemma rd_solution eb fuel : In eb (f_blocks f) ->
    FixedPoint.run floc lset floc_eqb (backward f) (forward f) (rd_trans f) rd_join ls_cmp fuel false max 0 [] [block_first_loc eb] = Done m ->
    (forall l, lkp m l <> None <-> reachL f (block_first_loc eb) l) /\
    (forall l, reachL f (block_first_loc eb) l ->
       exists st new old, joinN m (pred_of f l) = Ok st /\ rd_trans f l st = Ok new /\ lkp m l = Some old /\
                          forall x, In x new -> In x old).
  Proof.
    intros Heb Hrun.
    destruct (fp_solution floc lset floc_eqb floc_eqb_spec (backward f) (forward f) (rd_trans f) rd_join ls_cmp
                (succ_of f) (pred_of f) (block_first_loc eb)
                (from_ok f Hinv eb Heb) (to_ok f Hinv eb Heb) (converse f Hinv eb Heb) ls_cmp_refl _ _ _ Hrun) as [D E].
    split; [exact D|]. intros l Hl. apply D in Hl. destruct (E l Hl) as (st & new & old & H1 & H2 & H3 & H4).
    exists st, new, old. repeat split; try assumption. apply ls_cmp_eq_sub. exact H4.
  Qed.

  (* the definitions flowing into l: union of the reported sets of its predecessors *)
  Definition IN (l d : floc) : Prop := exists p s, In p (pred_of f l) /\ lkp m p = Some s /\ In d s.

  Variable eb : block.
  Hypothesis Heb : In eb (f_blocks f).
  Variable fuel0 : nat.
  Hypothesis Hrun :
    FixedPoint.run floc lset floc_eqb (backward f) (forward f) (rd_trans f) rd_join ls_cmp fuel0 false max 0 [] [block_first_loc eb] = Done m.
  Notation reachE := (reachL f (block_first_loc eb)).

  (* one executed location: from "last writers flow into l" to "last writers are reported for l" *)
  Lemma post_sound l (LW : scalar -> option floc) :
    reachE l -> (forall x d, LW x = Some d -> loc_writes f d x = true) ->
    (forall x d, LW x = Some d -> IN l d) ->
    forall x d, (if loc_writes f l x then Some l else LW x) = Some d ->
    exists s, lkp m l = Some s /\ In d s.
  Proof.
    intros Hl HW Hpre x d Hd.
    destruct (proj2 (rd_solution eb fuel0 Heb Hrun) l Hl) as (st & new & old & Hj & Ht & Hold & Hsub).
    exists old. split; [exact Hold|]. apply Hsub.
    destruct (joinN_spec m (pred_of f l)) as (o & Ho & Hin). rewrite Hj in Ho. injection Ho as <-.
    assert (Hst : forall d', IN l d' -> In d' (st_of st)).
    { intros d' H'. apply Hin in H'. destruct H' as (s & -> & H'). exact H'. }
    destruct l as [b i|h t|b].
    - destruct (loc_instruction f (LInstr b i)) as [ins|] eqn:Ei.
      + destruct (op_scalars_written (i_op ins)) as [w|] eqn:Ew.
        * pose proof (rd_trans_writes f b i ins w st new Ei Ew Ht) as Hnew.
          destruct (loc_writes f (LInstr b i) x) eqn:Ex.
          -- injection Hd as <-. apply Hnew. left; reflexivity.
          -- apply Hnew. right. pose proof (Hst d (Hpre x d Hd)) as Hds. split; [exact Hds|].
             assert (Hnx : ~ In x w).
             { intros Hx. unfold loc_writes, loc_writes_list in Ex. rewrite Ei in Ex.
               pose proof (op_writes_list_spec (i_op ins)) as S. rewrite Ew in S. rewrite S in Ex.
               apply sc_mem_In in Hx. congruence. }
             unfold rd_trans in Ht. rewrite Ei, Ew in Ht. fold (st_of st) in Ht.
             destruct (filter_res (kills f w) (st_of st)) as [kill| |] eqn:Ek; cbn [bind] in Ht; try discriminate.
             destruct (proj1 (filter_res_spec _ _ _ Ek) d Hds) as [bb Hb].
             rewrite Hb. f_equal. eapply kills_false; [apply (HW x d Hd)|exact Hnx|exact Hb].
        * assert (Ex : loc_writes f (LInstr b i) x = false).
          { unfold loc_writes, loc_writes_list. rewrite Ei.
            pose proof (op_writes_list_spec (i_op ins)) as S. rewrite Ew in S. rewrite S. reflexivity. }
          rewrite Ex in Hd. rewrite (rd_trans_passes f (LInstr b i) st new); [apply Hst, (Hpre x d Hd)| |exact Ht].
          rewrite Ei. exact Ew.
      + unfold rd_trans in Ht. rewrite Ei in Ht. discriminate.
    - rewrite (rd_trans_passes f (LEdge h t) st new I Ht). cbn in Hd. apply Hst, (Hpre x d Hd).
    - rewrite (rd_trans_passes f (LEmpty b) st new I Ht). cbn in Hd. apply Hst, (Hpre x d Hd).
  Qed.

  Definition PreAt (l : floc) (hist : list trace_item) : Prop :=
    forall x d, last_writer f hist x = Some d -> IN l d.

  Lemma post_sound_trace l hist it x d :
    reachE l -> PreAt l hist -> ti_loc it = l -> ti_executed it = true ->
    last_writer f (hist ++ [it]) x = Some d -> exists s, lkp m l = Some s /\ In d s.
  Proof.
    intros Hl Hpre El Hex Hd. rewrite last_writer_snoc, Hex, El in Hd. cbn [andb] in Hd.
    eapply (post_sound l (last_writer f hist)); try eassumption.
    intros y e. apply last_writer_writes.
  Qed.

  Lemma trace_pre : forall fuel l st hist, reachE l -> PreAt l hist ->
    forall pre it, prefix (pre ++ [it]) (sem_run fuel f l st) ->
    reachE (ti_loc it) /\ PreAt (ti_loc it) (hist ++ pre).
  Proof.
    induction fuel as [|fuel IH]; intros l st hist Hl Hpre pre it [post Hp].
    - cbn in Hp. destruct pre; discriminate.
    - cbn [sem_run] in Hp. destruct pre as [|it0 pre].
      + cbn in Hp. injection Hp as <- _. cbn [ti_loc]. rewrite app_nil_r. auto.
      + cbn in Hp. injection Hp as <- Hrest.
        destruct (sem_step f l st) as [l' st' ev|a st'|st' ev|e] eqn:Es;
          try (destruct pre; discriminate).
        assert (Hs : In l' (succ_of f l)) by (eapply sem_step_next; exact Es).
        assert (Hl' : reachE l') by (eapply reach_step; eassumption).
        replace (hist ++ mkti l st (Sem.Next l' st' ev) :: pre) with ((hist ++ [mkti l st (Sem.Next l' st' ev)]) ++ pre)
          by (rewrite <- app_assoc; reflexivity).
        apply (IH l' st'); [exact Hl'| |exists post; exact Hrest].
        intros x d Hd.
        destruct (post_sound_trace l hist (mkti l st (Sem.Next l' st' ev)) x d Hl Hpre eq_refl eq_refl Hd) as (s & Hs1 & Hs2).
        exists l, s. split; [|auto]. apply (converse f Hinv eb Heb l l' Hl Hl'). exact Hs.
  Qed.
End Sound.

(* ------------------------------------------------------------------ C12, first sentence, first half *)
Theorem rd_sound_max f max m :
  cfg_inv (f_cfg f) = true -> reaching_definitions_max max f = Ok m ->
  forall tr, execution f tr ->
  forall pre it, prefix (pre ++ [it]) tr -> ti_executed it = true ->
  forall x d, last_writer f (pre ++ [it]) x = Some d ->
  exists s, rd_lookup m (ti_loc it) = Some s /\ In d s.
Proof.
  intros Hinv Hrd tr (fuel & l0 & st0 & Hl0 & ->) pre it Hp Hex x d Hd.
  destruct (rd_unfold f max m Hrd) as (eb & fuel0 & Heb & Hff & Hrun).
  rewrite Hff in Hl0. injection Hl0 as <-.
  destruct (trace_pre f Hinv max m eb Heb fuel0 Hrun fuel (block_first_loc eb) st0 [] (reach_entry _ _ _)) with (pre := pre) (it := it)
    as [Hl Hpre]; [intros y e Hy; discriminate|exact Hp|].
  cbn [app] in Hpre.
  eapply (post_sound_trace f Hinv max m eb Heb fuel0 Hrun (ti_loc it) pre it x d); auto.
Qed.

(* ------------------------------------------------------------------ precision: an invariant of the engine's run *)
Section Precise.
  Variable f : func.
  Hypothesis Hinv : cfg_inv (f_cfg f) = true.
  Variable eb : block.
  Hypothesis Heb : In eb (f_blocks f).
  Notation entry := (block_first_loc eb).
  Notation reachE := (reachL f entry).

  Definition Good (d l : floc) : Prop :=
    (exists i, loc_instruction f d = Some i) /\ (forall x, assign_or_load_of f d = Some x -> reaches f d l).

  Definition J (m : FixedPoint.map floc lset) (q : list floc) : Prop :=
    Rch floc lset floc_eqb (succ_of f) entry m q /\
    forall l s d, lkp m l = Some s -> In d s -> Good d l.

  Lemma aol_written d x : assign_or_load_of f d = Some x ->
    exists i, loc_instruction f d = Some i /\ op_scalars_written (i_op i) = Some [x].
  Proof.
    unfold assign_or_load_of. destruct (loc_instruction f d) as [i|]; [|discriminate].
    destruct (i_op i) eqn:E; try discriminate; intros [= <-]; exists i; rewrite E; auto.
  Qed.

  Lemma J_step m l q' m2 q2 : J m (l :: q') ->
    bstep floc lset floc_eqb (backward f) (forward f) (rd_trans f) rd_join ls_cmp false m l q' = FixedPointProofs.Next floc lset m2 q2 ->
    J m2 q2.
  Proof.
    intros [HR HG] Hb. split.
    { eapply (Rch_step floc lset floc_eqb floc_eqb_spec); [apply (to_ok f Hinv eb Heb)|exact HR|exact Hb]. }
    assert (Hl : reachE l) by (apply HR; right; left; reflexivity).
    destruct (bstep_next _ _ _ _ _ _ _ _ _ _ _ _ _ _ Hb) as (ps & st & new & Hps & Hj & Ht & Hcase).
    rewrite (from_ok f Hinv eb Heb l Hl) in Hps. injection Hps as <-.
    assert (Hnew : forall d, In d new -> Good d l).
    { destruct (joinN_spec m (pred_of f l)) as (o & Ho & Hin). rewrite Hj in Ho. injection Ho as <-.
      assert (Hflow : forall d, In d (st_of st) ->
                exists p, Good d p /\ flow f p l).
      { intros d Hd. assert (Hio : in_opt d st) by (destruct st as [s|]; [exists s; auto|destruct Hd]).
        apply Hin in Hio. destruct Hio as (p & s & Hp & Hlk & Hds). exists p. split; [eapply HG; eassumption|].
        assert (Hrp : reachE p) by (apply HR; left; unfold In_dom; congruence).
        exists (succ_of f p). split; [apply (to_ok f Hinv eb Heb p Hrp)|].
        apply (converse f Hinv eb Heb p l Hrp Hl). exact Hp. }
      assert (Hpass : assign_or_load_of f l = None -> new = st_of st -> forall d, In d new -> Good d l).
      { intros Hn -> d Hd. destruct (Hflow d Hd) as (p & [Hi Hr] & Hf). split; [exact Hi|].
        intros x Hx. eapply reaches_step; [apply (Hr x Hx)|exact Hf|].
        intros (x' & y & _ & Hy & _). congruence. }
      destruct l as [b i|h t|b].
      - destruct (loc_instruction f (LInstr b i)) as [ins|] eqn:Ei.
        + destruct (op_scalars_written (i_op ins)) as [w|] eqn:Ew.
          * intros d Hd. apply (rd_trans_writes f b i ins w st new Ei Ew Ht) in Hd.
            destruct Hd as [->|[Hd Hk]].
            -- split; [eauto|]. intros x _. apply reaches_self.
            -- destruct (Hflow d Hd) as (p & [Hi Hr] & Hf). split; [exact Hi|].
               intros x Hx. eapply reaches_step; [apply (Hr x Hx)|exact Hf|].
               intros (x' & y & Hx' & Hy & Exy). apply scalar_eqb_eq in Exy. subst y.
               destruct (aol_written _ _ Hx') as (i1 & Hi1 & Hw1).
               destruct (aol_written _ _ Hy) as (i2 & Hi2 & Hw2).
               rewrite Ei in Hi2. injection Hi2 as <-. rewrite Ew in Hw2. injection Hw2 as ->.
               unfold kills in Hk. rewrite (loc_written_of_instr f d i1 Hi1), Hw1 in Hk. cbn in Hk.
               replace (scalar_eqb x' x') with true in Hk by (symmetry; apply scalar_eqb_eq; reflexivity).
               discriminate.
          * apply Hpass.
            -- unfold assign_or_load_of. rewrite Ei. destruct (i_op ins); try reflexivity; discriminate.
            -- eapply rd_trans_passes; [|exact Ht]. rewrite Ei. exact Ew.
        + unfold rd_trans in Ht. rewrite Ei in Ht. discriminate.
      - apply Hpass; [reflexivity|]. exact (rd_trans_passes f (LEdge h t) st new I Ht).
      - apply Hpass; [reflexivity|]. exact (rd_trans_passes f (LEmpty b) st new I Ht). }
    destruct Hcase as [(old & Hlk & Hc & -> & ->)|(s & ss & Hp & -> & -> & Hs)]; [exact HG|].
    assert (Es : s = new).
    { destruct Hs as [[_ ->]|(old & _ & _ & [(_ & _ & ->)|[F _]])]; [reflexivity|reflexivity|discriminate]. }
    subst s. intros l0 s0 d Hlk Hd. destruct (floc_eqb_spec l0 l) as [->|N].
    - rewrite (lookup_insert_same floc lset floc_eqb floc_eqb_spec) in Hlk. injection Hlk as <-. apply Hnew. exact Hd.
    - rewrite (lookup_insert_other floc lset floc_eqb floc_eqb_spec) in Hlk by exact N. eapply HG; eassumption.
  Qed.

  Lemma J_final fuel max m :
    FixedPoint.run floc lset floc_eqb (backward f) (forward f) (rd_trans f) rd_join ls_cmp fuel false max 0 [] [entry] = Done m ->
    J m [].
  Proof.
    intros Hrun. destruct (run_done_term _ _ _ _ _ _ _ _ _ _ _ _ _ _ _ Hrun) as (n & Ht).
    eapply (term_inv floc lset floc_eqb (backward f) (forward f) (rd_trans f) rd_join ls_cmp J false J_step); [exact Ht|].
    split; [apply Rch_init|]. intros l s d Hlk. discriminate.
  Qed.
End Precise.

(* C12, first sentence, second half *)
Theorem rd_precise_max f max m :
  cfg_inv (f_cfg f) = true -> reaching_definitions_max max f = Ok m ->
  forall l s d x, rd_lookup m l = Some s -> In d s -> assign_or_load_of f d = Some x -> reaches f d l.
Proof.
  intros Hinv Hrd l s d x Hlk Hd Hx.
  destruct (rd_unfold f max m Hrd) as (eb & fuel0 & Heb & _ & Hrun).
  destruct (J_final f Hinv eb Heb _ _ _ Hrun) as [_ HG].
  destruct (HG l s d Hlk Hd) as [_ Hr]. eapply Hr; exact Hx.
Qed.

(* ------------------------------------------------------------------ the double loop of use_def / def_use *)
Definition hit (f : func) (r : scalar) (d : floc) : Prop :=
  exists wd, loc_written f d = Ok wd /\ def_matches r wd = true.

Section Scan.
  Context {A K : Type}.
  Variable f : func.
  Variable add : floc -> A -> A.
  Variable M : A -> floc -> K -> Prop.
  Variable k0 : K.
  Hypothesis Hadd : forall d a x k, M (add d a) x k <-> (x = d /\ k = k0) \/ M a x k.

  Lemma scan_inner_spec r reaching : forall a s, scan_inner f r reaching add a = Ok s ->
    forall x k, M s x k <-> M a x k \/ (k = k0 /\ In x reaching /\ hit f r x).
  Proof.
    induction reaching as [|d t IH]; intros a s; cbn [scan_inner].
    - intros [= <-] x k. split; [auto|]. intros [H|(_ & [] & _)]. exact H.
    - destruct (loc_written f d) as [wd| |] eqn:Ew; cbn [bind]; try discriminate.
      intros Hs x k. rewrite (IH _ _ Hs x k). destruct (def_matches r wd) eqn:Em.
      + rewrite Hadd. split.
        * intros [[[-> ->]|H]|(Hk & Hx & Hh)]; [right|left; exact H|right].
          -- split; [reflexivity|]. split; [left; reflexivity|]. exists wd. auto.
          -- split; [exact Hk|]. split; [right; exact Hx|exact Hh].
        * intros [H|(Hk & [<-|Hx] & Hh)]; [left; right; exact H|left; left; auto|right; auto].
      + split.
        * intros [H|(Hk & Hx & Hh)]; [left; exact H|right]. split; [exact Hk|]. split; [right; exact Hx|exact Hh].
        * intros [H|(Hk & [<-|Hx] & Hh)]; [left; exact H| |right; auto].
          destruct Hh as (wd' & Hw' & Hm'). rewrite Ew in Hw'. injection Hw' as <-. congruence.
  Qed.

  Lemma scan_spec reads reaching : forall a s, scan f reads reaching add a = Ok s ->
    forall x k, M s x k <-> M a x k \/ (k = k0 /\ In x reaching /\ exists r, In r reads /\ hit f r x).
  Proof.
    induction reads as [|r t IH]; intros a s; cbn [scan].
    - intros [= <-] x k. split; [auto|]. intros [H|(_ & _ & r & [] & _)]. exact H.
    - destruct (scan_inner f r reaching add a) as [a'| |] eqn:Ei; cbn [bind]; try discriminate.
      intros Hs x k. rewrite (IH _ _ Hs x k), (scan_inner_spec r reaching a a' Ei x k). split.
      + intros [[H|(Hk & Hx & Hh)]|(Hk & Hx & r' & Hr' & Hh)]; [left; exact H|right|right].
        * split; [exact Hk|]. split; [exact Hx|]. exists r. split; [left; reflexivity|exact Hh].
        * split; [exact Hk|]. split; [exact Hx|]. exists r'. split; [right; exact Hr'|exact Hh].
      + intros [H|(Hk & Hx & r' & [<-|Hr'] & Hh)]; [left; left; exact H|left; right; auto|right].
        split; [exact Hk|]. split; [exact Hx|]. exists r'. auto.
  Qed.
End Scan.

(* d is a definition consulted at l that writes a scalar read at l *)
Definition U (f : func) (m : rdmap) (l d : floc) : Prop :=
  exists reads reaching, use_site f m l = Ok (Some (reads, reaching)) /\
    In d reaching /\ exists r, In r reads /\ hit f r d.

Lemma use_def_loc_spec f m l s : use_def_loc f m l = Ok s -> forall d, In d s <-> U f m l d.
Proof.
  unfold use_def_loc, U. destruct (use_site f m l) as [[[reads reaching]|]| |]; cbn [bind]; try discriminate.
  - intros Hs d.
    rewrite (scan_spec (K := unit) f ls_insert (fun a x _ => In x a) tt
               (fun d a x k => ltac:(rewrite ls_insert_In; destruct k; tauto)) reads reaching [] s Hs d tt).
    split.
    + intros [[]|(_ & Hx & Hr)]. exists reads, reaching. auto.
    + intros (rs & rc & [= <- <-] & Hx & Hr). right. auto.
  - intros [= <-] d. split; [intros []|]. intros (rs & rc & [=] & _).
Qed.

(* ---------- the def-use map ---------- *)
Definition In_du (du : dumap) (d l : floc) : Prop := exists s, du_lookup du d = Some s /\ In l s.

Lemma du_lookup_app du k x :
  du_lookup (du ++ [(k, [])]) x =
  match du_lookup du x with Some s => Some s | None => if floc_eqb k x then Some [] else None end.
Proof.
  unfold du_lookup. induction du as [|[k' v] t IH]; cbn [app FixedPoint.lookup]; [reflexivity|].
  destruct (floc_eqb k' x); [reflexivity|exact IH].
Qed.
Lemma In_du_entry du k d l : In_du (du_entry du k) d l <-> In_du du d l.
Proof.
  unfold du_entry, In_du. destruct (du_lookup du k) eqn:E; [reflexivity|].
  rewrite du_lookup_app. destruct (du_lookup du d) eqn:Ed; [reflexivity|].
  destruct (floc_eqb k d); split; intros (s & Hs & Hl); try discriminate. injection Hs as <-. destruct Hl.
Qed.
Lemma In_du_add l d du x k : In_du (du_add l d du) x k <-> (x = d /\ k = l) \/ In_du du x k.
Proof.
  unfold du_add, In_du, du_lookup. destruct (floc_eqb_spec x d) as [->|N].
  - rewrite (lookup_insert_same floc lset floc_eqb floc_eqb_spec). split.
    + intros (s & [= <-] & Hk). apply ls_insert_In in Hk. destruct Hk as [->|Hk]; [left; auto|right].
      destruct (FixedPoint.lookup floc lset floc_eqb du d) as [s0|]; [exists s0; auto|destruct Hk].
    + intros [[_ ->]|(s & Hs & Hk)]; eexists; (split; [reflexivity|]); apply ls_insert_In; [left; reflexivity|].
      right. rewrite Hs. exact Hk.
  - rewrite (lookup_insert_other floc lset floc_eqb floc_eqb_spec) by exact N. split; [auto|].
    intros [[E _]|H]; [contradiction|exact H].
Qed.

Lemma def_use_loc_spec f m du l du' : def_use_loc f m du l = Ok du' ->
  forall d k, In_du du' d k <-> In_du du d k \/ (k = l /\ U f m l d).
Proof.
  unfold def_use_loc, U. destruct (use_site f m l) as [[[reads reaching]|]| |]; cbn [bind]; try discriminate.
  - intros Hs d k.
    rewrite (scan_spec f (du_add l) In_du l (In_du_add l) reads reaching _ du' Hs d k), In_du_entry.
    split.
    + intros [H|(Hk & Hx & Hr)]; [left; exact H|right]. split; [exact Hk|]. exists reads, reaching. auto.
    + intros [H|(Hk & rs & rc & [= <- <-] & Hx & Hr)]; [left; exact H|right; auto].
  - intros [= <-] d k. rewrite In_du_entry. split; [auto|]. intros [H|(_ & rs & rc & [=] & _)]. exact H.
Qed.

Lemma def_use_fold_spec f m keys : forall du0 du',
  fold_left (fun acc l => du <- acc ;; def_use_loc f m du l) keys (Ok du0) = Ok du' ->
  forall d k, In_du du' d k <-> In_du du0 d k \/ (In k keys /\ U f m k d).
Proof.
  induction keys as [|l keys IH]; intros du0 du'; cbn [fold_left].
  - intros [= <-] d k. split; [auto|]. intros [H|[[] _]]. exact H.
  - cbn [bind]. destruct (def_use_loc f m du0 l) as [du1| |] eqn:E1.
    + intros Hf d k. rewrite (IH _ _ Hf d k), (def_use_loc_spec f m du0 l du1 E1 d k). cbn [In]. split.
      * intros [[H|[-> HU]]|[Hk HU]]; auto.
      * intros [H|[[<-|Hk] HU]]; auto.
    + intros Hf. exfalso. clear -Hf. induction keys as [|k keys IHk]; cbn in Hf; [discriminate|auto].
    + intros Hf. exfalso. clear -Hf. induction keys as [|k keys IHk]; cbn in Hf; [discriminate|auto].
Qed.

Definition In_ud (ud : list (floc * lset)) (l d : floc) : Prop :=
  exists s, FixedPoint.lookup floc lset floc_eqb ud l = Some s /\ In d s.

Lemma use_def_keys_spec f m keys : forall ud, use_def_keys f m keys = Ok ud ->
  forall l d, In_ud ud l d <-> In l keys /\ U f m l d.
Proof.
  induction keys as [|k keys IH]; intros ud; cbn [use_def_keys].
  - intros [= <-] l d. split; [intros (s & [=] & _)|intros [[] _]].
  - destruct (use_def_loc f m k) as [s| |] eqn:Es; cbn [bind]; try discriminate.
    destruct (use_def_keys f m keys) as [r| |] eqn:Er; cbn [bind]; try discriminate.
    intros [= <-] l d. unfold In_ud. cbn [FixedPoint.lookup In]. destruct (floc_eqb_spec k l) as [->|N].
    + split.
      * intros (s' & [= <-] & Hd). split; [left; reflexivity|]. apply (use_def_loc_spec f m l s Es). exact Hd.
      * intros [_ HU]. exists s. split; [reflexivity|]. apply (use_def_loc_spec f m l s Es). exact HU.
    + fold (In_ud r l d). rewrite (IH r eq_refl l d). split; [intros [H1 H2]; auto|].
      intros [[E|H1] H2]; [contradiction|auto].
Qed.

(* C12, last clause: the definition-use chains are exactly the inverse relation *)
Theorem du_inverse_max f max ud du :
  use_def_max max f = Ok ud -> def_use_max max f = Ok du ->
  forall l d, In_du du d l <-> In_ud ud l d.
Proof.
  unfold use_def_max, def_use_max. destruct (reaching_definitions_max max f) as [m| |]; cbn [bind]; try discriminate.
  unfold use_def_of, def_use_of. intros Hu Hd l d.
  rewrite (use_def_keys_spec f m _ ud Hu l d), (def_use_fold_spec f m _ [] du Hd d l). split.
  - intros [(s & [=] & _)|H]. exact H.
  - auto.
Qed.

(* ------------------------------------------------------------------ use-def chains contain the last writers *)
Lemma lookup_keys (m : rdmap) l : lkp m l <> None -> In l (List.map fst m).
Proof.
  induction m as [|[k v] t IH]; cbn [FixedPoint.lookup List.map fst In]; [congruence|].
  destruct (floc_eqb_spec k l) as [->|N]; [auto|]. intros H. right. apply IH. exact H.
Qed.
Lemma use_def_keys_ok f m keys ud : use_def_keys f m keys = Ok ud ->
  forall k, In k keys -> exists us, use_site f m k = Ok us.
Proof.
  revert ud. induction keys as [|k0 keys IH]; intros ud; cbn [use_def_keys]; [intros _ k []|].
  destruct (use_def_loc f m k0) as [s| |] eqn:Es; cbn [bind]; try discriminate.
  destruct (use_def_keys f m keys) as [r| |] eqn:Er; cbn [bind]; try discriminate.
  intros _ k [<-|Hk]; [|eapply IH; eauto].
  unfold use_def_loc in Es. destruct (use_site f m k0) as [us| |]; cbn [bind] in Es; try discriminate. eauto.
Qed.

Lemma hit_of_writes f d x : loc_writes f d x = true -> hit f x d.
Proof.
  intros H. destruct (loc_writes_inv f d x H) as (i & v & Hi & Hv & Hin).
  exists (Some v). split; [rewrite (loc_written_of_instr f d i Hi), Hv; reflexivity|].
  cbn [def_matches]. apply existsb_exists. exists x. split; [exact Hin|apply scalar_eqb_eq; reflexivity].
Qed.

Section UD.
  Variable f : func.
  Hypothesis Hinv : cfg_inv (f_cfg f) = true.
  Variable max : nat.
  Variable m : rdmap.
  Variable eb : block.
  Hypothesis Heb : In eb (f_blocks f).
  Variable fuel0 : nat.
  Hypothesis Hrun :
    FixedPoint.run floc lset floc_eqb (backward f) (forward f) (rd_trans f) rd_join ls_cmp fuel0 false max 0 [] [block_first_loc eb] = Done m.
  Notation reachE := (reachL f (block_first_loc eb)).

  Lemma before_fold ps d : forall acc,
    In d (fold_left (fun acc p => match rd_lookup m p with Some s => union_into acc s | None => acc end) ps acc) <->
    In d acc \/ exists p s, In p ps /\ lkp m p = Some s /\ In d s.
  Proof.
    induction ps as [|p ps IH]; intros acc; cbn [fold_left].
    - split; [auto|]. intros [H|(p & s & [] & _)]. exact H.
    - rewrite IH. unfold rd_lookup. destruct (lkp m p) as [s0|] eqn:E.
      + rewrite union_into_In. split.
        * intros [[H|H]|(q & s & Hq & Hl & Hd)]; [auto| |].
          -- right. exists p, s0. cbn. auto.
          -- right. exists q, s. cbn. auto.
        * intros [H|(q & s & [<-|Hq] & Hl & Hd)]; [auto| |].
          -- left. right. congruence.
          -- right. exists q, s. auto.
      + split.
        * intros [H|(q & s & Hq & Hl & Hd)]; [auto|]. right. exists q, s. cbn. auto.
        * intros [H|(q & s & [<-|Hq] & Hl & Hd)]; [auto|congruence|]. right. exists q, s. auto.
  Qed.

  Lemma use_site_covers l us x d : reachE l -> use_site f m l = Ok us ->
    loc_reads f l x = true -> IN f m l d ->
    exists reads reaching, us = Some (reads, reaching) /\ In x reads /\ In d reaching.
  Proof.
    intros Hl Hus Hx Hd. pose proof (reach_valid f Hinv eb Heb l Hl) as Hv.
    unfold use_site in Hus. rewrite (floc_apply_valid f l Hv) in Hus.
    unfold loc_reads, loc_reads_list in Hx. destruct l as [b i|h t|b].
    - destruct (loc_instruction f (LInstr b i)) as [ins|] eqn:Ei; [|discriminate].
      unfold reaching_before in Hus. rewrite (floc_apply_valid f _ Hv) in Hus. cbn [bind] in Hus.
      rewrite (from_ok f Hinv eb Heb _ Hl) in Hus. cbn [bind] in Hus.
      pose proof (op_reads_list_spec (i_op ins)) as S.
      destruct (op_scalars_read (i_op ins)) as [reads|]; rewrite S in Hx; [|cbn in Hx; discriminate].
      injection Hus as <-. eexists _, _. split; [reflexivity|]. split; [apply sc_mem_In; exact Hx|].
      apply before_fold. right. exact Hd.
    - destruct (loc_edge f (LEdge h t)) as [e|]; [|discriminate].
      destruct (e_cond e) as [c|]; [|cbn in Hx; discriminate].
      destruct (proj2 (rd_solution f Hinv max m eb fuel0 Heb Hrun) _ Hl) as (st & new & old & Hj & Ht & Hold & Hsub).
      unfold rd_lookup in Hus. rewrite Hold in Hus. injection Hus as <-.
      eexists _, _. split; [reflexivity|]. split; [apply sc_mem_In; exact Hx|].
      apply Hsub. rewrite (rd_trans_passes f (LEdge h t) st new I Ht).
      destruct (joinN_spec m (pred_of f (LEdge h t))) as (o & Ho & Hin). rewrite Hj in Ho. injection Ho as <-.
      apply Hin in Hd. destruct Hd as (s & -> & Hd). exact Hd.
    - cbn in Hx. discriminate.
  Qed.

  Lemma ud_at ud l (LW : scalar -> option floc) x d :
    use_def_keys f m (List.map fst m) = Ok ud ->
    reachE l -> (forall x d, LW x = Some d -> loc_writes f d x = true) ->
    (forall x d, LW x = Some d -> IN f m l d) ->
    loc_reads f l x = true -> LW x = Some d -> In_ud ud l d.
  Proof.
    intros Hud Hl HW Hpre Hx Hd.
    assert (Hk : In l (List.map fst m)).
    { apply lookup_keys. apply (proj1 (rd_solution f Hinv max m eb fuel0 Heb Hrun)). exact Hl. }
    apply (use_def_keys_spec f m _ ud Hud l d). split; [exact Hk|].
    destruct (use_def_keys_ok f m _ ud Hud l Hk) as [us Hus].
    destruct (use_site_covers l us x d Hl Hus Hx (Hpre x d Hd)) as (reads & reaching & -> & Hr & Hdr).
    exists reads, reaching. split; [exact Hus|]. split; [exact Hdr|]. exists x. split; [exact Hr|].
    apply hit_of_writes. apply (HW x d Hd).
  Qed.
End UD.

(* C12, second sentence: instructions and (taken) guarded edges reached by an execution *)
Theorem ud_contains_last_writer_max f max ud :
  cfg_inv (f_cfg f) = true -> use_def_max max f = Ok ud ->
  forall tr, execution f tr ->
  forall pre it, prefix (pre ++ [it]) tr ->
  forall x d, loc_reads f (ti_loc it) x = true -> last_writer f pre x = Some d ->
  In_ud ud (ti_loc it) d.
Proof.
  intros Hinv Hud tr (fuel & l0 & st0 & Hl0 & ->) pre it Hp x d Hx Hd.
  unfold use_def_max in Hud. destruct (reaching_definitions_max max f) as [m| |] eqn:Hrd; cbn [bind] in Hud; try discriminate.
  destruct (rd_unfold f max m Hrd) as (eb & fuel0 & Heb & Hff & Hrun).
  rewrite Hff in Hl0. injection Hl0 as <-.
  destruct (trace_pre f Hinv max m eb Heb fuel0 Hrun fuel (block_first_loc eb) st0 [] (reach_entry _ _ _)) with (pre := pre) (it := it)
    as [Hl Hpre]; [intros y e Hy; discriminate|exact Hp|].
  cbn [app] in Hpre.
  eapply (ud_at f Hinv max m eb Heb fuel0 Hrun ud (ti_loc it) (last_writer f pre)); eauto.
  intros y e. apply last_writer_writes.
Qed.

(* ... and every guard evaluated after an executed location, taken or not *)
Theorem ud_guards_contain_last_writer_max f max ud :
  cfg_inv (f_cfg f) = true -> use_def_max max f = Ok ud ->
  forall tr, execution f tr ->
  forall pre it, prefix (pre ++ [it]) tr -> ti_executed it = true ->
  forall e, flow f (ti_loc it) e ->
  forall x d, loc_reads f e x = true -> last_writer f (pre ++ [it]) x = Some d ->
  In_ud ud e d.
Proof.
  intros Hinv Hud tr (fuel & l0 & st0 & Hl0 & ->) pre it Hp Hex e (ss & Hss & He) x d Hx Hd.
  unfold use_def_max in Hud. destruct (reaching_definitions_max max f) as [m| |] eqn:Hrd; cbn [bind] in Hud; try discriminate.
  destruct (rd_unfold f max m Hrd) as (eb & fuel0 & Heb & Hff & Hrun).
  rewrite Hff in Hl0. injection Hl0 as <-.
  destruct (trace_pre f Hinv max m eb Heb fuel0 Hrun fuel (block_first_loc eb) st0 [] (reach_entry _ _ _)) with (pre := pre) (it := it)
    as [Hl Hpre]; [intros y e' Hy; discriminate|exact Hp|].
  cbn [app] in Hpre.
  assert (Hse : In e (succ_of f (ti_loc it))) by (unfold succ_of; rewrite Hss; exact He).
  assert (Hle : reachL f (block_first_loc eb) e) by (eapply reach_step; eassumption).
  eapply (ud_at f Hinv max m eb Heb fuel0 Hrun ud e (last_writer f (pre ++ [it]))); eauto.
  - intros y e'. apply last_writer_writes.
  - intros y e' Hy.
    destruct (post_sound_trace f Hinv max m eb Heb fuel0 Hrun (ti_loc it) pre it y e' Hl Hpre eq_refl Hex Hy) as (s & Hs1 & Hs2).
    exists (ti_loc it), s. split; [|auto]. apply (converse f Hinv eb Heb _ _ Hl Hle). exact Hse.
Qed.
