(* Flow/SPO.v -- model of lib/analysis/stack_pointer_offsets.rs (property C17), as repaired by the two
   `fix:` commits (seed of the stack pointer's width; only `sp +/- constants` sources are evaluated).
   Definitions only.  Parameterised by the architecture's stack-pointer scalar [sp]. *)
From Coq Require Import ZArith List Bool NArith.
From Falcon Require Import Base.Res IL.Const IL.Expr IL.Func IL.Loc Flow.FixedPoint Flow.FpIL.
Import ListNotations.
Local Open Scope Z_scope.

(* enum IntermediateOffset { Top, Value(il::Constant), Bottom } *)
Inductive ioff := ITop | IVal (c : const) | IBot.

Definition ioff_eqb (a b : ioff) : bool :=
  match a, b with
  | ITop, ITop | IBot, IBot => true
  | IVal x, IVal y => const_eqb x y
  | _, _ => false
  end.

(* impl PartialOrd for IntermediateOffset *)
Definition ioff_cmp (a b : ioff) : option comparison :=
  match a, b with
  | ITop, ITop => Some Eq
  | ITop, _ => Some Gt
  | IVal _, ITop => Some Lt
  | IVal x, IVal y => if const_eqb x y then Some Eq else None
  | IVal _, IBot => Some Gt
  | IBot, IBot => Some Eq
  | IBot, _ => Some Lt
  end.

(* StackPointerOffsetAnalysis::join (never fails) *)
Definition ioff_join_pure (a b : ioff) : ioff :=
  match a, b with
  | ITop, _ => ITop
  | IVal _, ITop => ITop
  | IVal x, IVal y => if const_eqb x y then IVal x else ITop
  | IVal x, IBot => IVal x
  | IBot, ITop => ITop
  | IBot, IVal y => IVal y
  | IBot, IBot => IBot
  end.
Definition ioff_join (a b : ioff) : res ioff := Ok (ioff_join_pure a b).

Definition is_const (e : expr) : bool := match e with EConst _ => true | _ => false end.

(* StackPointerOffsetAnalysis::is_offset : the stack pointer plus or minus constants *)
Fixpoint is_offset (sp : scalar) (e : expr) : bool :=
  match e with
  | EScalar s => scalar_eqb s sp
  | EBin Add l r => (is_offset sp l && is_const r) || (is_const l && is_offset sp r)
  | EBin Sub l r => is_offset sp l && is_const r
  | _ => false
  end.

(* StackPointerOffsetAnalysis::handle_operation *)
Definition handle_operation (sp : scalar) (o : operation) (s : ioff) : res ioff :=
  match o with
  | OAssign dst src =>
      if scalar_eqb dst sp then
        match s with
        | ITop => Ok ITop
        | IVal c =>
            e <- replace_scalar src sp (EConst c) ;;
            if is_offset sp src && all_constants e
            then v <- eval e ;; Ok (IVal v)
            else Ok ITop
        | IBot => Ok IBot
        end
      else Ok s
  | OLoad dst _ => if scalar_eqb dst sp then Ok ITop else Ok s
  | _ => Ok s
  end.

(* FixedPointAnalysis::trans.  `from_function(..).ok_or("..")??`: a missing entry is Error::Custom
   (unreachable: the engine has already required an entry). *)
Definition spo_trans (sp : scalar) (f : func) (l : floc) (st : option ioff) : res ioff :=
  s <- match st with
       | Some s => Ok s
       | None =>
           match from_function f with
           | None => Err ECustom
           | Some r => e <- r ;; Ok (if floc_eqb l e then IVal (new_big 0 (sbits sp)) else ITop)
           end
       end ;;
  match l with
  | LInstr _ _ =>
      match loc_instruction f l with
      | Some i => handle_operation sp (i_op i) s
      | None => Panic      (* an applied location always resolves *)
      end
  | _ => Ok s
  end.

(* enum StackPointerOffset { Top, Value(isize), Bottom } *)
Inductive spoff := STop | SVal (k : Z) | SBot.
Definition spoff_eqb (a b : spoff) : bool :=
  match a, b with
  | STop, STop | SBot, SBot => true
  | SVal x, SVal y => x =? y
  | _, _ => false
  end.

(* from_intermediate: `value_u64().ok_or(Error::Analysis)? as isize` (64-bit isize) *)
Definition from_intermediate (i : ioff) : res spoff :=
  match i with
  | ITop => Ok STop
  | IBot => Ok SBot
  | IVal c => if cval c <? 2 ^ 64
              then Ok (SVal (if cval c <? 2 ^ 63 then cval c else cval c - 2 ^ 64))
              else Err EOther
  end.

(* transform: try_fold over the map (every failure is the same error kind) *)
Fixpoint transform (m : list (floc * ioff)) : res (list (floc * spoff)) :=
  match m with
  | [] => Ok []
  | (l, i) :: t => s <- from_intermediate i ;; r <- transform t ;; Ok ((l, s) :: r)
  end.

Definition MAX_STEPS : nat := (500 * 500)%nat.   (* DEFAULT_MAX_ANALYSIS_STEPS = 250000 *)

Definition spo_states (max : nat) (f : func) (sp : scalar) : res (list (floc * ioff)) :=
  fp_forward ioff f (spo_trans sp f) ioff_join ioff_cmp false max.

(* stack_pointer_offsets(function, architecture) with sp = architecture.stack_pointer() *)
Definition stack_pointer_offsets_max (max : nat) (f : func) (sp : scalar) : res (list (floc * spoff)) :=
  m <- spo_states max f sp ;; transform m.
Definition stack_pointer_offsets := stack_pointer_offsets_max MAX_STEPS.
