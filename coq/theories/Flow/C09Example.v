(* Flow/C09Example.v -- the hypotheses of the C09 theorems are jointly satisfiable: a two-location graph
   whose entry lies on a cycle and whose other location has a self-loop, with the counter lattice of
   height 3 (states compared after clipping at 3). *)
From Coq Require Import List Bool Arith Lia.
From Falcon Require Import Base.Res Flow.FixedPoint Flow.FixedPointProofs.
Import ListNotations.

Definition xsucc (l : bool) : list bool := if l then [false] else [true; false].
Definition xpred (l : bool) : list bool := if l then [false] else [true; false].
Definition xtrans (l : bool) (st : option nat) : res nat := Ok (Nat.min (match st with None => 0 | Some x => x end + 1) 3).
Definition xjoin (a b : nat) : res nat := Ok (Nat.max a b).
Definition xcmp (a b : nat) : option comparison := Some (Nat.compare (Nat.min a 3) (Nat.min b 3)).

Lemma xeqb_spec a b : reflect (a = b) (Bool.eqb a b).
Proof. destruct a, b; constructor; congruence. Qed.

Lemma xle a b : FixedPointProofs.le nat xcmp a b <-> Nat.min a 3 <= Nat.min b 3.
Proof.
  unfold FixedPointProofs.le, xcmp. destruct (Nat.compare_spec (Nat.min a 3) (Nat.min b 3)); split; intros H0; try lia;
    try (destruct H0; discriminate); auto.
Qed.

Lemma c09_example_complete :
  exists m, run bool nat Bool.eqb (fun l => Ok (xpred l)) (fun l => Ok (xsucc l)) xtrans xjoin xcmp 20 false 18 0 [] [true] = Done m.
Proof.
  apply (fp_complete bool nat Bool.eqb xeqb_spec (fun l => Ok (xpred l)) (fun l => Ok (xsucc l)) xtrans xjoin xcmp xsucc xpred true)
    with (rank := fun s => Nat.min s 3) (h := 3) (U := [true; false]) (d := 2).
  - reflexivity.
  - reflexivity.
  - intros a b _ _. destruct a, b; cbn; tauto.
  - intros s. unfold xcmp. rewrite Nat.compare_refl. reflexivity.
  - intros a b c H1 H2. apply xle in H1, H2. apply xle. lia.
  - intros a b j [= <-]. split; [apply xle; lia|]. split; [apply xle; lia|]. intros c H1 H2. apply xle in H1, H2. apply xle. lia.
  - intros l x y a b _ _ Ho Ha Hb. apply xle.
    destruct x as [x|], y as [y|]; unfold xtrans in Ha, Hb; injection Ha as <-; injection Hb as <-;
      unfold FixedPointProofs.ole in Ho; try contradiction; try (apply xle in Ho); lia.
  - intros a b H. apply xle in H. unfold xcmp. destruct (Nat.compare_spec (Nat.min a 3) (Nat.min b 3)); auto; lia.
  - intros a b. eexists; reflexivity.
  - intros l st _ _. eexists; reflexivity.
  - intros s. lia.
  - intros a b. unfold xcmp. destruct (Nat.compare_spec (Nat.min a 3) (Nat.min b 3)); intros; try discriminate. lia.
  - repeat constructor; cbn; intuition congruence.
  - intros l _. destruct l; cbn; tauto.
  - intros l _. destruct l; cbn; lia.
  - cbn. lia.
Qed.

(* ... and the result it promises is the least solution  {entry -> 3, other -> 3} *)
Lemma c09_example_value :
  run bool nat Bool.eqb (fun l => Ok (xpred l)) (fun l => Ok (xsucc l)) xtrans xjoin xcmp 20 false 18 0 [] [true]
  = Done [(true, 3); (false, 3)].
Proof. vm_compute. reflexivity. Qed.
