(* Flow/C13Check.v -- per-case checker of property C13.
   fst = tie: the model of constants() (Flow/Constants.v) returns the observed per-location maps (or the
         observed error / panic), and Constants::eval of each probe expression on the observed map of its
         location returns the observed answer;
   snd = oracle, computed from the property text and the reference semantics (Exec/Sem.v) only:
     (a) on a function in which every read is definitely assigned (def_assigned) the analysis completes;
     (b) on every supplied execution, before every executed location l, every scalar for which a
         constant is reported at l and which the function has assigned earlier in that execution holds
         exactly that constant;
     (c) a probe answer Some v at l equals the value of the expression before every executed visit of l
         at which all scalars of the expression have been assigned by the function. *)
From Coq Require Import ZArith List Bool NArith.
From Falcon Require Import Base.Res IL.Const IL.Expr IL.Func IL.Loc Exec.Sem Flow.FixedPoint Flow.Constants.
Import ListNotations.
Local Open Scope Z_scope.

(* ---------- observed maps ---------- *)
Definition cmap_sub (a b : cmap) : bool :=
  forallb (fun kv : scalar * cst => match cm_get b (fst kv) with Some v => cst_eqb (snd kv) v | None => false end) a.
Definition cmap_eqb (a b : cmap) : bool := Nat.eqb (length a) (length b) && cmap_sub a b && cmap_sub b a.

Definition lmap := list (floc * cmap).
Fixpoint lm_get (m : lmap) (l : floc) : option cmap :=
  match m with [] => None | (k, v) :: t => if floc_eqb k l then Some v else lm_get t l end.
Definition lmap_sub (a b : lmap) : bool :=
  forallb (fun kv : floc * cmap => match lm_get b (fst kv) with Some v => cmap_eqb (snd kv) v | None => false end) a.
Definition lmap_eqb (a b : lmap) : bool := Nat.eqb (length a) (length b) && lmap_sub a b && lmap_sub b a.

(* validator: every stored state IS the transfer of the join of its predecessors' states (as maps).
   The engine only guarantees this up to Constants::partial_cmp = Equal, which is weaker. *)
Definition exact_at (f : func) (m : list (floc * cmap)) (l : floc) (s : cmap) : bool :=
  match backward f l with
  | Ok ps => match FixedPoint.join_neighbours floc cmap floc_eqb c_join m ps with
             | Ok sto => match c_trans f l sto with Ok new => cmap_eqb new s | _ => false end
             | _ => false
             end
  | _ => false
  end.
Definition exact_solution (f : func) (m : list (floc * cmap)) : bool :=
  forallb (fun kv : floc * cmap => exact_at f m (fst kv) (snd kv)) m.

Definition CASE_MAX : nat := 3000.
Definition TRACE_FUEL : nat := 48.

(* ---------- definite assignment (specification side; executable) ---------- *)
Definition sset := list scalar.
Definition ss_mem (s : scalar) (x : sset) : bool := existsb (scalar_eqb s) x.
Definition ss_add (s : scalar) (x : sset) : sset := if ss_mem s x then x else s :: x.
Definition ss_inter (a b : sset) : sset := filter (fun s => ss_mem s b) a.
Definition ss_subset (a b : sset) : bool := forallb (fun s => ss_mem s b) a.

(* scalars a location reads when it executes / the scalar it assigns *)
Definition loc_reads (f : func) (l : floc) : list scalar :=
  match l with
  | LInstr _ _ => match loc_instruction f l with
                  | Some i => match op_scalars_read (i_op i) with Some r => r | None => [] end
                  | None => []
                  end
  | LEdge _ _ => match loc_edge f l with
                 | Some e => match e_cond e with Some c => scalars c | None => [] end
                 | None => []
                 end
  | LEmpty _ => []
  end.
Definition loc_writes (f : func) (l : floc) : list scalar :=
  match loc_instruction f l with
  | Some i => match i_op i with OAssign dst _ | OLoad dst _ => [dst] | _ => [] end
  | None => []
  end.
(* scalars an intrinsic declares as written: never "assigned" for the executions of Exec/Sem.v (which
   stop at an intrinsic) but part of the universe of scalars of the function *)
Definition loc_declared (f : func) (l : floc) : list scalar :=
  match loc_instruction f l with
  | Some i => match i_op i with
              | OIntrinsic intr => match intr_scalars_written intr with Some ws => ws | None => [] end
              | _ => []
              end
  | None => []
  end.

Definition all_scalars (f : func) : sset :=
  fold_left (fun acc l => fold_left (fun a s => ss_add s a) (loc_reads f l ++ loc_writes f l ++ loc_declared f l) acc)
            (locations f) [].

(* DA-in of every location: greatest solution of  in(l) = /\ over predecessors p of (in(p) + writes(p)),
   in(entry location) = {} ; computed by iteration from the top element and then CHECKED to be a
   post-fixpoint (da_post), so that no property of the iteration has to be trusted *)
Definition da_map := list (floc * sset).
Fixpoint da_get (m : da_map) (l : floc) : sset :=
  match m with [] => [] | (k, v) :: t => if floc_eqb k l then v else da_get t l end.
Definition da_out (f : func) (m : da_map) (p : floc) : sset :=
  fold_left (fun a s => ss_add s a) (loc_writes f p) (da_get m p).
Definition da_round (f : func) (entry : floc) (univ : sset) (m : da_map) : da_map :=
  List.map (fun kv : floc * sset =>
         let l := fst kv in
         if floc_eqb l entry then (l, [])
         else match backward f l with
              | Ok ps => (l, fold_left (fun acc p => ss_inter acc (da_out f m p)) ps univ)
              | _ => (l, [])
              end) m.
Fixpoint da_iter (n : nat) (f : func) (entry : floc) (univ : sset) (m : da_map) : da_map :=
  match n with O => m | Datatypes.S n => da_iter n f entry univ (da_round f entry univ m) end.

Definition entry_loc (f : func) : option floc :=
  match g_entry (f_cfg f) with
  | Some e => match find_block (f_blocks f) e with Some b => Some (block_first_loc b) | None => None end
  | None => None
  end.

Definition da_solution (f : func) : option da_map :=
  match entry_loc f with
  | None => None
  | Some entry =>
      let univ := all_scalars f in
      let locs := locations f in
      Some (da_iter (Datatypes.S (length locs * Datatypes.S (length univ))) f entry univ
                    (List.map (fun l => (l, if floc_eqb l entry then [] else univ)) locs))
  end.

(* in(entry) = {} and in(l) is below out(p) for every predecessor p of every other location *)
Definition da_post (f : func) (entry : floc) (m : da_map) : bool :=
  match da_get m entry with [] => true | _ => false end &&
  forallb (fun l => if floc_eqb l entry then true
                    else match backward f l with
                         | Ok ps => forallb (fun p => ss_subset (da_get m l) (da_out f m p)) ps
                         | _ => false
                         end) (locations f).

(* no scalar can be read before it is assigned *)
Definition def_assigned (f : func) : bool :=
  match entry_loc f, da_solution f with
  | Some entry, Some m =>
      da_post f entry m && forallb (fun l => ss_subset (loc_reads f l) (da_get m l)) (locations f)
  | _, _ => false
  end.

(* ---------- executions ---------- *)
(* the trace with, for each item, the keys the function has assigned before it *)
Fixpoint with_assigned (acc : list skey) (tr : list trace_item) : list (trace_item * list skey) :=
  match tr with
  | [] => []
  | ti :: t =>
      let acc' := match ti_res ti with
                  | Next _ _ (EvAssign k _) | Next _ _ (EvLoad k _ _) => k :: acc
                  | _ => acc
                  end in
      (ti, acc) :: with_assigned acc' t
  end.
Definition key_mem (k : skey) (l : list skey) : bool := existsb (skey_eqb k) l.

(* (b) *)
Definition item_ok (m : lmap) (x : trace_item * list skey) : bool :=
  let (ti, assigned) := x in
  match lm_get m (ti_loc ti) with
  | None => true
  | Some cm =>
      forallb (fun kv : scalar * cst =>
                 match snd kv with
                 | CConst c =>
                     if key_mem (skey_of (fst kv)) assigned then
                       match env_get (st_env (ti_before ti)) (skey_of (fst kv)) with
                       | Some v => const_eqb v c
                       | None => false
                       end
                     else true
                 | _ => true
                 end) cm
  end.

(* (c) *)
Definition probe_ok (l : floc) (e : expr) (v : const) (x : trace_item * list skey) : bool :=
  let (ti, assigned) := x in
  if floc_eqb (ti_loc ti) l && forallb (fun s => key_mem (skey_of s) assigned) (scalars e) then
    match den (st_env (ti_before ti)) e with Ok v' => const_eqb v' v | _ => false end
  else true.

Definition probe := (floc * expr * res (option const))%type.

Definition run_ok (f : func) (m : lmap) (probes : list probe) (st0 : sstate) : bool :=
  match entry_loc f with
  | None => true
  | Some l0 =>
      let tr := with_assigned [] (sem_run TRACE_FUEL f l0 st0) in
      forallb (item_ok m) tr &&
      forallb (fun p : probe =>
                 match p with
                 | (l, e, Ok (Some v)) => forallb (probe_ok l e v) tr
                 | (_, _, Panic) => false              (* eval never panics on a completed analysis' map *)
                 | _ => true
                 end) probes
  end.

Definition c13_oracle (f : func) (sts : list sstate) (obs : res lmap) (probes : list probe) : bool :=
  match obs with
  | Ok m => forallb (run_ok f m probes) sts
  | _ => negb (def_assigned f)
  end.

Inductive case :=
| K (f : func) (big : bool) (mem : list (Z * Z)) (envs : list senv) (obs : res lmap) (probes : list probe)
    (da : bool).     (* the harness' definite-assignment verdict (distribution tag); tied to def_assigned *)

Definition probe_tie (obs : res lmap) (p : probe) : bool :=
  match p, obs with
  | (l, e, r), Ok m => match lm_get m l with
                       | Some cm => res_eqb (fun a b => match a, b with
                                                        | Some x, Some y => const_eqb x y
                                                        | None, None => true
                                                        | _, _ => false end) (cm_eval cm e) r
                       | None => false
                       end
  | _, _ => false
  end.

Definition ck (k : case) : bool * bool :=
  match k with
  | K f big mem envs obs probes da =>
      (res_eqb lmap_eqb (constants_max CASE_MAX f) obs && forallb (probe_tie obs) probes && Bool.eqb (def_assigned f) da &&
       (* [V] constants_exact, re-validated on the model's own solution of every case *)
       (match constants_states CASE_MAX f with Ok m => exact_solution f m | _ => true end),
       c13_oracle f (List.map (fun en => mkst en (mkbmem big mem)) envs) obs probes)
  end.
