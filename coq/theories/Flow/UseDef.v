(* Flow/UseDef.v -- model of lib/analysis/use_def.rs and lib/analysis/def_use.rs AS REPAIRED by the
   `fix:` commit of property C12 (see notes/C12.md):
     * an instruction's reads are matched against the definitions reaching it BEFORE it executes
       (`reaching_definitions::reaching_before`: union of the sets reported for its predecessors),
       no longer against `rd[location]`, the post-state;
     * read and written scalars are compared element-wise (`.into_iter().flatten()`), no longer as
       whole vectors.
   The edge arm is unchanged (it always compared elements and an edge's post-state is its pre-state).
   Definitions only (proofs: Flow/RDProofs.v). *)
From Coq Require Import ZArith List Bool NArith.
From Falcon Require Import Base.Res IL.Const IL.Expr IL.Func IL.Loc Flow.FixedPoint Flow.FpIL Flow.RD.
Import ListNotations.
Local Open Scope Z_scope.

Definition rdmap := list (floc * lset).

(* reaching_definitions::reaching_before(function, &rd, location) *)
Definition union_into (acc s : lset) : lset := fold_left (fun a d => ls_insert d a) s acc.
Definition reaching_before (f : func) (m : rdmap) (l : floc) : res lset :=
  l' <- floc_apply f l ;;                       (* `?` *)
  ps <- backward f l' ;;                        (* `?` *)
  Ok (fold_left (fun acc p => match rd_lookup m p with Some s => union_into acc s | None => acc end) ps []).

(* `scalar_written == scalar_read` for some element of the definition's declared writes *)
Definition def_matches (r : scalar) (wd : option (list scalar)) : bool :=
  match wd with Some v => existsb (fun w => scalar_eqb w r) v | None => false end.

(* the double loop shared by both functions (sequential, the first failing unwrap aborts):
     for scalar_read in reads { for rd in reaching { for scalar_written in rd...scalars_written() (unwrap, unwrap)
        { if scalar_written == scalar_read { ADD rd } } } } *)
Fixpoint scan_inner {A} (f : func) (r : scalar) (reaching : lset) (add : floc -> A -> A) (a : A) : res A :=
  match reaching with
  | [] => Ok a
  | d :: t => wd <- loc_written f d ;; scan_inner f r t add (if def_matches r wd then add d a else a)
  end.
Fixpoint scan {A} (f : func) (reads : list scalar) (reaching : lset) (add : floc -> A -> A) (a : A) : res A :=
  match reads with
  | [] => Ok a
  | r :: t => a' <- scan_inner f r reaching add a ;; scan f t reaching add a'
  end.

(* what the `match location.function_location().apply(function).unwrap()` dispatch reads and where
   it looks the definitions up: (scalars read, definitions consulted); None = contributes nothing *)
Definition use_site (f : func) (m : rdmap) (l : floc) : res (option (list scalar * lset)) :=
  match floc_apply f l with
  | Ok (LInstr b i) =>
      match loc_instruction f (LInstr b i) with
      | None => Panic
      | Some ins =>
          reaching <- reaching_before f m l ;;
          match op_scalars_read (i_op ins) with
          | Some reads => Ok (Some (reads, reaching))
          | None => Ok None                        (* undeclared reads: into_iter().flatten() is empty *)
          end
      end
  | Ok (LEdge h t) =>
      match loc_edge f (LEdge h t) with
      | None => Panic
      | Some e =>
          match e_cond e with
          | None => Ok None
          | Some c => match rd_lookup m l with
                      | Some s => Ok (Some (scalars c, s))
                      | None => Panic              (* rd[location] *)
                      end
          end
      end
  | Ok (LEmpty _) => Ok None
  | _ => Panic                                     (* apply(function).unwrap() *)
  end.

(* use_def *)
Definition use_def_loc (f : func) (m : rdmap) (l : floc) : res lset :=
  us <- use_site f m l ;;
  match us with
  | Some (reads, reaching) => scan f reads reaching ls_insert []
  | None => Ok []
  end.

Fixpoint use_def_keys (f : func) (m : rdmap) (keys : list floc) : res (list (floc * lset)) :=
  match keys with
  | [] => Ok []
  | l :: t => s <- use_def_loc f m l ;; r <- use_def_keys f m t ;; Ok ((l, s) :: r)
  end.

Definition use_def_of (f : func) (m : rdmap) : res (list (floc * lset)) := use_def_keys f m (List.map fst m).
Definition use_def_max (max : nat) (f : func) : res (list (floc * lset)) :=
  m <- reaching_definitions_max max f ;; use_def_of f m.
Definition use_def (f : func) := use_def_max MAX_STEPS f.

(* def_use *)
Definition dumap := list (floc * lset).
Definition du_lookup (du : dumap) (k : floc) : option lset := lookup floc lset floc_eqb du k.
(* du.entry(k).or_default() *)
Definition du_entry (du : dumap) (k : floc) : dumap :=
  match du_lookup du k with Some _ => du | None => du ++ [(k, [])] end.
(* du.entry(d).or_default().insert(l) *)
Definition du_add (l : floc) (d : floc) (du : dumap) : dumap :=
  insert floc lset floc_eqb du d (ls_insert l (match du_lookup du d with Some s => s | None => [] end)).

Definition def_use_loc (f : func) (m : rdmap) (du : dumap) (l : floc) : res dumap :=
  let du := du_entry du l in
  us <- use_site f m l ;;
  match us with
  | Some (reads, reaching) => scan f reads reaching (du_add l) du
  | None => Ok du
  end.

Definition def_use_of (f : func) (m : rdmap) : res dumap :=
  fold_left (fun acc l => du <- acc ;; def_use_loc f m du l) (List.map fst m) (Ok []).
Definition def_use_max (max : nat) (f : func) : res dumap :=
  m <- reaching_definitions_max max f ;; def_use_of f m.
Definition def_use (f : func) := def_use_max MAX_STEPS f.
