(* Flow/FixedPoint.v -- model of lib/analysis/fixed_point.rs, abstract in the analysis.
   Definitions only (proofs: Flow/FixedPointProofs.v, property C09).
   Direct transcription of fixed_point_forward_options / fixed_point_backward_options:
   FIFO queue with a membership test before push_back, fold of `join` over the neighbours that
   already have a state (`unwrap` on a failing join => Panic), partial_cmp dispatch, and -- forward
   only -- the step counter tested with `>` before each pop.  The backward engine has no budget:
   its loop is modelled with explicit fuel and OutOfFuel is a distinct outcome that no theorem
   treats as a result. *)
From Coq Require Import List Bool Arith.
From Falcon Require Import Base.Res.
Import ListNotations.

Section FP.
  Variables (L S : Type).
  Variable eqb : L -> L -> bool.
  (* neighbours whose states are joined (forward engine: `backward()`), and neighbours that are
     re-queued (forward engine: `forward()`); both can fail like the Rust accessors *)
  Variable join_from : L -> res (list L).
  Variable push_to : L -> res (list L).
  Variable trans : L -> option S -> res S.
  Variable join : S -> S -> res S.
  Variable cmp : S -> S -> option comparison.      (* PartialOrd::partial_cmp new old *)

  (* HashMap<Location, State> as an association list: lookup = first match, insert = replace-or-append *)
  Definition map := list (L * S).
  Fixpoint lookup (m : map) (l : L) : option S :=
    match m with [] => None | (k, v) :: t => if eqb k l then Some v else lookup t l end.
  Fixpoint insert (m : map) (l : L) (s : S) : map :=
    match m with
    | [] => [(l, s)]
    | (k, v) :: t => if eqb k l then (k, s) :: t else (k, v) :: insert t l s
    end.
  Definition mem (l : L) (q : list L) : bool := existsb (eqb l) q.

  Definition join_step (m : map) (acc : res (option S)) (p : L) : res (option S) :=
    match acc with
    | Ok s => match lookup m p with
              | Some inst => match s with
                             | Some s0 => match join s0 inst with Ok j => Ok (Some j) | _ => Panic end
                             | None => Ok (Some inst)
                             end
              | None => Ok s
              end
    | r => r
    end.
  Definition join_neighbours (m : map) (ps : list L) : res (option S) :=
    fold_left (join_step m) ps (Ok None).

  Definition push_all (q : list L) (ss : list L) : list L :=
    fold_left (fun q s => if mem s q then q else q ++ [s]) ss q.

  Inductive outcome := Done (m : map) | Fail (e : err) | Crash | OutOfFuel.

  (* one iteration of the loop body after the pop; [k] continues with the new map and queue *)
  Definition body (force : bool) (m : map) (l : L) (q' : list L) (k : map -> list L -> outcome) : outcome :=
    match join_from l with
    | Err e => Fail e | Panic => Crash
    | Ok ps =>
      match join_neighbours m ps with
      | Err e => Fail e | Panic => Crash
      | Ok st =>
        match trans l st with
        | Err e => Fail e | Panic => Crash
        | Ok new =>
          let store (s : S) :=
            match push_to l with
            | Err e => Fail e | Panic => Crash
            | Ok ss => k (insert m l s) (push_all q' ss)
            end in
          match lookup m l with
          | None => store new
          | Some old =>
            match cmp new old with
            | Some Eq => k m q'
            | c => if force
                   then match join new old with Ok j => store j | Err e => Fail e | Panic => Crash end
                   else match c with
                        | Some Gt => store new
                        | _ => Fail EOrdering
                        end
            end
          end
        end
      end
    end.

  (* forward engine: `if steps > max { MaxSteps }; steps += 1; pop` *)
  Fixpoint run (fuel : nat) (force : bool) (max : nat) (steps : nat) (m : map) (q : list L) : outcome :=
    match fuel with
    | O => OutOfFuel
    | Datatypes.S fuel =>
      match q with
      | [] => Done m
      | l :: q' =>
        if max <? steps then Fail EMaxSteps
        else body force m l q' (fun m2 q2 => run fuel force max (Datatypes.S steps) m2 q2)
      end
    end.

  (* backward engine: same body, no budget *)
  Fixpoint run_nobudget (fuel : nat) (force : bool) (m : map) (q : list L) : outcome :=
    match fuel with
    | O => OutOfFuel
    | Datatypes.S fuel =>
      match q with
      | [] => Done m
      | l :: q' => body force m l q' (fun m2 q2 => run_nobudget fuel force m2 q2)
      end
    end.
End FP.

Arguments Done {L S} m. Arguments Fail {L S} e. Arguments Crash {L S}. Arguments OutOfFuel {L S}.
