(* Flow/RDSpec.v -- SPECIFICATION of property C12, written from the property text over the reference
   semantics Exec/Sem.v; independent of the models in Flow/RD.v / Flow/UseDef.v.

   "On every concrete execution of a function, when control has just executed a location, the
    instruction that most recently wrote each scalar is among the reaching definitions reported for
    that location, and every reported assignment or load can actually reach it along some path without
    an intervening assignment or load of the same scalar.  The use-definition chain of an instruction
    or guarded edge contains the last writer of every scalar it reads, and the definition-use chains
    are exactly the inverse relation."

   A *scalar* is an il::Scalar (name, width, ssa version) compared with its derived equality.
   Part 1: declarative notions used by the theorems.  Part 2: the executable oracle run by the case
   files on OBSERVED analysis results. *)
From Coq Require Import ZArith List Bool NArith.
From Falcon Require Import Base.Res IL.Const IL.Expr IL.Func IL.Loc Exec.Sem.
Import ListNotations.
Local Open Scope Z_scope.

(* ---------- what an operation writes / reads (IL documentation) ---------- *)
Definition op_writes_list (o : operation) : list scalar :=
  match o with
  | OAssign d _ | OLoad d _ => [d]
  | OIntrinsic i => match in_written i with Some es => flat_map scalars es | None => [] end
  | _ => []
  end.
Definition op_reads_list (o : operation) : list scalar :=
  match o with
  | OAssign _ src => scalars src
  | OStore index src => scalars index ++ scalars src
  | OLoad _ index => scalars index
  | OBranch t => scalars t
  | OIntrinsic i => match in_read i with Some es => flat_map scalars es | None => [] end
  | ONop _ => []
  end.
Definition sc_mem (x : scalar) (l : list scalar) : bool := existsb (scalar_eqb x) l.

Definition loc_writes_list (f : func) (l : floc) : list scalar :=
  match loc_instruction f l with Some i => op_writes_list (i_op i) | None => [] end.
(* scalars read when control is at l: operands of an instruction, guard of an edge *)
Definition loc_reads_list (f : func) (l : floc) : list scalar :=
  match l with
  | LInstr _ _ => match loc_instruction f l with Some i => op_reads_list (i_op i) | None => [] end
  | LEdge _ _ => match loc_edge f l with
                 | Some e => match e_cond e with Some c => scalars c | None => [] end
                 | None => []
                 end
  | LEmpty _ => []
  end.
Definition loc_writes (f : func) (l : floc) (x : scalar) : bool := sc_mem x (loc_writes_list f l).
Definition loc_reads (f : func) (l : floc) (x : scalar) : bool := sc_mem x (loc_reads_list f l).

(* an assignment or load of scalar x *)
Definition assign_or_load_of (f : func) (l : floc) : option scalar :=
  match loc_instruction f l with
  | Some i => match i_op i with OAssign d _ | OLoad d _ => Some d | _ => None end
  | None => None
  end.

(* ---------- executions ---------- *)
(* a trace item was *executed* when the step did not fault *)
Definition ti_executed (it : trace_item) : bool :=
  match ti_res it with Stuck _ => false | _ => true end.

(* the latest executed location of the trace whose operation writes x *)
Definition last_writer (f : func) (tr : list trace_item) (x : scalar) : option floc :=
  fold_left (fun acc it => if ti_executed it && loc_writes f (ti_loc it) x then Some (ti_loc it) else acc)
            tr None.

Definition prefix {A} (a b : list A) : Prop := exists post, b = a ++ post.

(* an execution of f: the trace of sem_run from the function's entry location *)
Definition execution (f : func) (tr : list trace_item) : Prop :=
  exists fuel l0 st0, from_function f = Some (Ok l0) /\ tr = sem_run fuel f l0 st0.

(* one step of control flow between locations *)
Definition flow (f : func) (a b : floc) : Prop := exists ss, forward f a = Ok ss /\ In b ss.

(* d reaches (the point just after) l along a path on which no location after d is an assignment or
   load of the scalar d assigns *)
Definition redefines (f : func) (d l : floc) : Prop :=
  exists x y, assign_or_load_of f d = Some x /\ assign_or_load_of f l = Some y /\ scalar_eqb x y = true.
Inductive reaches (f : func) (d : floc) : floc -> Prop :=
| reaches_self : reaches f d d
| reaches_step l l' : reaches f d l -> flow f l l' -> ~ redefines f d l' -> reaches f d l'.

(* ================= executable oracle ================= *)
Definition flocs := list floc.
Definition fl_mem (l : floc) (s : flocs) : bool := existsb (floc_eqb l) s.
Definition amap := list (floc * flocs).
Fixpoint am_get (m : amap) (l : floc) : option flocs :=
  match m with [] => None | (k, v) :: t => if floc_eqb k l then Some v else am_get t l end.
Definition am_has (m : amap) (l d : floc) : bool :=
  match am_get m l with Some s => fl_mem d s | None => false end.

(* last-writer table *)
Definition lwtab := list (scalar * floc).
Fixpoint lw_set (t : lwtab) (x : scalar) (l : floc) : lwtab :=
  match t with
  | [] => [(x, l)]
  | (y, d) :: r => if scalar_eqb y x then (y, l) :: r else (y, d) :: lw_set r x l
  end.
Fixpoint lw_get (t : lwtab) (x : scalar) : option floc :=
  match t with [] => None | (y, d) :: r => if scalar_eqb y x then Some d else lw_get r x end.

(* every scalar read at l whose last writer is known is covered by the chain reported for l *)
Definition ud_ok_at (f : func) (ud : amap) (t : lwtab) (l : floc) : bool :=
  forallb (fun x => match lw_get t x with Some d => am_has ud l d | None => true end) (loc_reads_list f l).
Definition rd_ok_at (rd : amap) (t : lwtab) (l : floc) : bool :=
  forallb (fun xd => am_has rd l (snd xd)) t.
Definition is_edge (l : floc) : bool := match l with LEdge _ _ => true | _ => false end.

Fixpoint walk (f : func) (rd ud : amap) (t : lwtab) (tr : list trace_item) : bool :=
  match tr with
  | [] => true
  | it :: rest =>
      let l := ti_loc it in
      ud_ok_at f ud t l &&
      (if ti_executed it then
         let t' := fold_left (fun t x => lw_set t x l) (loc_writes_list f l) t in
         rd_ok_at rd t' l &&
         (* guards evaluated after l: every out-edge, taken or not *)
         forallb (fun e => negb (is_edge e) || ud_ok_at f ud t' e)
                 (match forward f l with Ok ss => ss | _ => [] end) &&
         walk f rd ud t' rest
       else true)
  end.

(* static part: path without an intervening assignment or load of the same scalar *)
Fixpoint reach_bfs (fuel : nat) (f : func) (blocked : floc -> bool) (seen : flocs) (work : list floc) : flocs :=
  match fuel with
  | O => seen
  | Datatypes.S fuel =>
      match work with
      | [] => seen
      | l :: rest =>
          let succs := match forward f l with Ok ss => ss | _ => [] end in
          let new := fold_left (fun acc s => if fl_mem s seen || fl_mem s acc || blocked s then acc else acc ++ [s])
                               succs [] in
          reach_bfs fuel f blocked (seen ++ new) (rest ++ new)
      end
  end.
Definition reach_set (f : func) (d : floc) : flocs :=
  match assign_or_load_of f d with
  | None => []
  | Some x =>
      reach_bfs (Datatypes.S (length (locations f))) f
                (fun l => match assign_or_load_of f l with Some y => scalar_eqb x y | None => false end)
                [d] [d]
  end.
Definition defs_of (f : func) : list floc :=
  filter (fun l => match assign_or_load_of f l with Some _ => true | None => false end) (locations f).
Definition precise_ok (f : func) (rd : amap) : bool :=
  let table := map (fun d => (d, reach_set f d)) (defs_of f) in
  forallb (fun ls : floc * flocs =>
             forallb (fun d => match assign_or_load_of f d with
                               | None => true       (* the property speaks of reported assignments and loads *)
                               | Some _ => am_has table d (fst ls)
                               end) (snd ls)) rd.

(* def-use is exactly the inverse of use-def *)
Definition inverse_ok (ud du : amap) : bool :=
  forallb (fun ls : floc * flocs => forallb (fun d => am_has du d (fst ls)) (snd ls)) ud &&
  forallb (fun ds : floc * flocs => forallb (fun l => am_has ud l (fst ds)) (snd ds)) du.

Definition run_from (f : func) (fuel : nat) (st : sstate) : list trace_item :=
  match from_function f with
  | Some (Ok l0) => sem_run fuel f l0 st
  | _ => []
  end.

(* the whole oracle on observed result maps, for the given initial states *)
Definition c12_oracle (f : func) (fuel : nat) (inits : list sstate) (rd ud du : amap) : bool :=
  forallb (fun st => walk f rd ud [] (run_from f fuel st)) inits &&
  precise_ok f rd && inverse_ok ud du.
